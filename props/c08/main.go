// C08 — PBF skip flags and filters select an unmodified subsequence.
//
// Enumerates base files x all 8 skip-flag sets x a predicate per element kind
// from a fixed menu (full product) x decoder counts; the oracle is the model's
// object list filtered by kind and predicate, compared AFTER the scan finished,
// so an object modified after it was returned is detected as well.
package main

import (
	"fmt"
	"sync"

	"github.com/paulmach/osm"
	"github.com/paulmach/osm/osmpbf"

	"verif/gen/pbfgen"
	"verif/gen/pbfrun"
	"verif/kit"
)

type fcase struct {
	FileName string
	Flags    int
	Preds    [3]int // index into predNames for node, way, relation
	Procs    int
}

var predNames = []string{"nil", "accept-all", "reject-all", "even-ids", "odd-ids", "has-tags", "fat"}

// pred evaluates predicate p on the content of an element.
func pred(p int, id int64, ntags, nchildren int) bool {
	switch p {
	case 0, 1:
		return true
	case 2:
		return false
	case 3:
		return id%2 == 0
	case 4:
		return id%2 != 0
	case 5:
		return ntags > 0
	case 6:
		return ntags >= 2 || nchildren >= 2
	}
	panic("bad predicate")
}

func tags(n int, seed int64) [][2]string {
	var t [][2]string
	for i := 0; i < n; i++ {
		t = append(t, [2]string{fmt.Sprintf("k%d_%d", seed, i), fmt.Sprintf("v%d_%d", seed, i)})
	}
	return t
}

func refs(n int, seed int64) []int64 {
	r := []int64{}
	for i := 0; i < n; i++ {
		r = append(r, seed*100+int64(i)*7-3)
	}
	return r
}

func members(n int, seed int64) []pbfgen.Member {
	m := []pbfgen.Member{}
	for i := 0; i < n; i++ {
		m = append(m, pbfgen.Member{Type: i % 3, Ref: seed*10 + int64(i), Role: fmt.Sprintf("r%d", i%2)})
	}
	return m
}

func dnode(id int64, ntags int) pbfgen.DNode {
	n := pbfgen.DenseNode(id, id)
	n.Tags = tags(ntags, id)
	return n
}

func way(id int64, ntags, nrefs int, loc, info bool) pbfgen.Way {
	w := pbfgen.Way{ID: id, Tags: tags(ntags, id), Refs: refs(nrefs, id), NoRefs: nrefs == 0}
	if info {
		w.Info = pbfgen.FullInfo(id)
	}
	if loc && nrefs > 0 {
		w.Lats, w.Lons = refs(nrefs, id+1), refs(nrefs, id+2)
	}
	return w
}

func rel(id int64, ntags, nmem int, info bool) pbfgen.Relation {
	r := pbfgen.Relation{ID: id, Tags: tags(ntags, id), Members: members(nmem, id), NoMembers: nmem == 0}
	if info {
		r.Info = pbfgen.FullInfo(id)
	}
	return r
}

func files() (map[string]*pbfgen.File, []string) {
	fullDense := func(ns ...pbfgen.DNode) pbfgen.Group {
		return pbfgen.Group{Dense: &pbfgen.Dense{Info: true, Cols: pbfgen.ColsMask(63), KeysVals: true, Nodes: ns}}
	}
	x := &pbfgen.File{Header: pbfgen.StdHeader(), Blocks: []pbfgen.Block{
		{Groups: []pbfgen.Group{fullDense(dnode(1, 2), dnode(2, 0), dnode(3, 3), dnode(4, 1), dnode(5, 0), dnode(6, 2), dnode(8, 0), dnode(7, 1))}},
		{Groups: []pbfgen.Group{{Ways: []pbfgen.Way{way(10, 3, 4, true, true), way(11, 0, 0, false, true), way(12, 1, 2, false, true),
			way(13, 2, 3, true, true), way(14, 0, 1, false, false), way(15, 1, 0, false, true), way(17, 0, 5, true, true), way(16, 2, 1, false, false)}}}},
		{Groups: []pbfgen.Group{{Relations: []pbfgen.Relation{rel(20, 3, 3, true), rel(21, 0, 0, true), rel(22, 1, 1, true),
			rel(23, 0, 2, false), rel(24, 2, 0, true), rel(25, 0, 4, true), rel(27, 1, 1, false), rel(26, 0, 0, false)}}}},
	}}
	// everything in one block, several groups per kind, a dense group without keys_vals after a tagged one
	noKV := pbfgen.Group{Dense: &pbfgen.Dense{Info: true, Cols: pbfgen.ColsMask(0b100001), Nodes: []pbfgen.DNode{dnode(31, 0), dnode(32, 0)}}}
	y := &pbfgen.File{Header: pbfgen.StdHeader(), Blocks: []pbfgen.Block{
		{Groups: []pbfgen.Group{
			fullDense(dnode(1, 3), dnode(2, 1)),
			{Ways: []pbfgen.Way{way(10, 2, 3, true, true), way(11, 0, 1, false, false)}},
			{Relations: []pbfgen.Relation{rel(20, 2, 2, true), rel(21, 0, 1, false)}},
			noKV,
			{Ways: []pbfgen.Way{way(12, 0, 0, false, false), way(13, 1, 2, false, true)}},
			{Relations: []pbfgen.Relation{rel(22, 0, 0, false), rel(23, 1, 3, true)}},
		}},
		{Groups: []pbfgen.Group{{Ways: []pbfgen.Way{way(14, 0, 2, false, false)}}, fullDense(dnode(3, 0), dnode(4, 2))}},
	}}
	// no metadata anywhere
	z := &pbfgen.File{Header: pbfgen.StdHeader(), Blocks: []pbfgen.Block{
		{Groups: []pbfgen.Group{{Dense: &pbfgen.Dense{KeysVals: true, Nodes: []pbfgen.DNode{dnode(1, 1), dnode(2, 2), dnode(3, 0), dnode(4, 0), dnode(5, 3)}}}}},
		{Groups: []pbfgen.Group{{Ways: []pbfgen.Way{way(10, 0, 3, false, false), way(11, 2, 0, false, false), way(12, 0, 1, true, false), way(13, 1, 4, false, false)}}}},
		{Groups: []pbfgen.Group{{Relations: []pbfgen.Relation{rel(20, 0, 2, false), rel(21, 2, 0, false), rel(22, 0, 0, false), rel(23, 1, 1, false)}}}},
	}}
	// the three-block file again with 200 unused string-table entries first: every
	// string id in keys_vals, keys, vals, roles and user_sid needs a 2-byte varint
	// (the dense-node tag pre-count works on raw bytes)
	wf := &pbfgen.File{Header: pbfgen.StdHeader()}
	extra := make([]string, 200)
	for i := range extra {
		extra[i] = fmt.Sprintf("unused%d", i)
	}
	for _, b := range x.Blocks {
		b.ExtraStrings = extra
		wf.Blocks = append(wf.Blocks, b)
	}
	return map[string]*pbfgen.File{"X-three-blocks": x, "Y-one-block-mixed": y, "Z-no-metadata": z, "W-large-string-table": wf},
		[]string{"X-three-blocks", "Y-one-block-mixed", "Z-no-metadata", "W-large-string-table"}
}

func want(f *pbfgen.File, c fcase) []osm.Object {
	var out []osm.Object
	for _, o := range f.Expected() {
		switch e := o.(type) {
		case *osm.Node:
			if c.Flags&1 == 0 && pred(c.Preds[0], int64(e.ID), len(e.Tags), 0) {
				out = append(out, o)
			}
		case *osm.Way:
			if c.Flags&2 == 0 && pred(c.Preds[1], int64(e.ID), len(e.Tags), len(e.Nodes)) {
				out = append(out, o)
			}
		case *osm.Relation:
			if c.Flags&4 == 0 && pred(c.Preds[2], int64(e.ID), len(e.Tags), len(e.Members)) {
				out = append(out, o)
			}
		}
	}
	return out
}

type seen struct {
	mu    sync.Mutex
	calls [3]int
}

func configure(c fcase, sn *seen) func(*osmpbf.Scanner) {
	return func(s *osmpbf.Scanner) {
		s.SkipNodes, s.SkipWays, s.SkipRelations = c.Flags&1 != 0, c.Flags&2 != 0, c.Flags&4 != 0
		if p := c.Preds[0]; p != 0 {
			s.FilterNode = func(n *osm.Node) bool {
				sn.mu.Lock()
				sn.calls[0]++
				sn.mu.Unlock()
				return pred(p, int64(n.ID), len(n.Tags), 0)
			}
		}
		if p := c.Preds[1]; p != 0 {
			s.FilterWay = func(w *osm.Way) bool {
				sn.mu.Lock()
				sn.calls[1]++
				sn.mu.Unlock()
				return pred(p, int64(w.ID), len(w.Tags), len(w.Nodes))
			}
		}
		if p := c.Preds[2]; p != 0 {
			s.FilterRelation = func(rl *osm.Relation) bool {
				sn.mu.Lock()
				sn.calls[2]++
				sn.mu.Unlock()
				return pred(p, int64(rl.ID), len(rl.Tags), len(rl.Members))
			}
		}
	}
}

func main() {
	kit.Main("C08", "exploration", func(r *kit.Run) {
		np := 6
		procs := []int{1, 2, 3}
		if !r.Quick() {
			np = 7
			procs = []int{1, 2, 3, 8}
		}
		r.Rule(fmt.Sprintf("files x 8 skip-flag sets x %d^3 per-kind predicates (%v) x procs %v, full product; non-trivial = at least one element rejected and at least one accepted; distinct = (file,flags,preds,procs)", np, predNames[:np], procs))
		r.Assume("predicates are pure functions of (id, #tags, #refs/#members) and never retain their argument")
		fs, names := files()
		var cases []fcase
		if r.ReplayPath != "" {
			var c fcase
			r.LoadReplay(&c)
			cases = append(cases, c)
		} else {
			for _, n := range names {
				for flags := 0; flags < 8; flags++ {
					for a := 0; a < np; a++ {
						for b := 0; b < np; b++ {
							for c := 0; c < np; c++ {
								for _, p := range procs {
									if n == "W-large-string-table" && p != 1 {
										continue // about varint widths, not about decoder counts
									}
									cases = append(cases, fcase{FileName: n, Flags: flags, Preds: [3]int{a, b, c}, Procs: p})
								}
							}
						}
					}
				}
			}
		}
		encs := map[string]*pbfgen.Encoded{}
		for n, f := range fs {
			encs[n] = f.Encode()
		}
		// the unfiltered scan itself (C01's claim) is the base of the comparison
		for _, n := range names {
			res := pbfrun.Scan(encs[n].Data, 1, nil)
			if d := pbfgen.DiffObjects(res.Objects, fs[n].Expected()); d != "" || res.Err != nil {
				r.Violation("unfiltered-base/"+n, fmt.Sprintf("unfiltered scan of %s differs from the model: %s err=%v", n, d, res.Err), fcase{FileName: n, Procs: 1})
			}
		}
		r.ParIsolated(len(cases), func(i int) {
			c := cases[i]
			f := fs[c.FileName]
			w := want(f, c)
			all := f.Expected()
			r.Case(fmt.Sprintf("%v", c), len(w) > 0 && len(w) < len(all))
			if r.WantSample() && len(w) > 0 && len(w) < len(all) && c.Preds[1] > 2 {
				r.Sample(map[string]interface{}{"file": c.FileName, "skip_flags": c.Flags, "preds": []string{predNames[c.Preds[0]], predNames[c.Preds[1]], predNames[c.Preds[2]]}, "procs": c.Procs, "expected": pbfgen.IDs(w)})
			}
			sn := &seen{}
			res := pbfrun.Scan(encs[c.FileName].Data, c.Procs, configure(c, sn))
			fail := func(clause, msg string) {
				r.Violation(clause, fmt.Sprintf("file=%s flags=%03b preds=%s/%s/%s procs=%d: %s", c.FileName, c.Flags,
					predNames[c.Preds[0]], predNames[c.Preds[1]], predNames[c.Preds[2]], c.Procs, msg), c)
			}
			if res.Err != nil || res.HeaderErr != nil {
				fail("scan-error", fmt.Sprintf("header err %v, scan err %v", res.HeaderErr, res.Err))
				return
			}
			// compared after the scan completed: returned objects must still be intact
			if d := pbfgen.DiffObjects(res.Objects, w); d != "" {
				fail("subsequence/"+pbfgen.Class(d), d+fmt.Sprintf(" (got %v want %v)", pbfgen.IDs(res.Objects), pbfgen.IDs(w)))
				return
			}
			// a filter of a skipped kind must not be consulted; a filter of a
			// non-skipped kind is consulted once per element of that kind
			var cnt [3]int
			for _, o := range all {
				switch o.(type) {
				case *osm.Node:
					cnt[0]++
				case *osm.Way:
					cnt[1]++
				case *osm.Relation:
					cnt[2]++
				}
			}
			for k := 0; k < 3; k++ {
				wantCalls := cnt[k]
				if c.Flags&(1<<uint(k)) != 0 || c.Preds[k] == 0 {
					wantCalls = 0
				}
				if sn.calls[k] != wantCalls {
					fail(fmt.Sprintf("filter-calls/kind%d", k), fmt.Sprintf("filter for kind %d called %d times, want %d", k, sn.calls[k], wantCalls))
					return
				}
			}
		}, func(i int, what, detail string) {
			c := cases[i]
			r.Violation("process-"+what+"/"+kit.CrashClass(detail), fmt.Sprintf("file=%s flags=%03b preds=%v procs=%d: the scanning process ended in a %s:\n%s", c.FileName, c.Flags, c.Preds, c.Procs, what, detail), c)
		})
	})
}
