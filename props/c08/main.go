// C08 — PBF skip flags and filters select an unmodified subsequence.
//
// Enumerates base files x all 8 skip-flag sets x a predicate per element kind
// from a fixed menu (full product) x decoder counts, plus restricted products
// for the boundary families (see the rule text in main); the oracle is the
// model's object list filtered by kind and predicate. Every object is compared
// when it is returned AND after the scan finished, so an object modified after
// it was returned is detected as well.
package main

import (
	"bytes"
	"context"
	"encoding/binary"
	"fmt"
	"io"
	"sync"
	"sync/atomic"
	"time"

	"github.com/paulmach/osm"
	"github.com/paulmach/osm/osmpbf"

	"verif/gen/pbfgen"
	"verif/kit"
	"verif/props/c08/files"
)

// consumer behaviours
const (
	eager     = 0 // scans as fast as it can, keeps every object to the end
	lazy      = 1 // takes one object, lets the decoders run as far ahead as the pipeline allows, scans on (again at the middle)
	stopEarly = 2 // takes the first half of the expected objects, closes the scanner, keeps the objects
	// reads the header first, sets the skip flags and filters afterwards, then scans; the input
	// delivers its data blocks only after the options are set (a stream whose sender waits), so
	// that no decoder can have looked at the options before they were written
	lateConfig = 3
)

var consumerNames = []string{"eager", "lazy", "stop-early", "options-after-header"}

type fcase struct {
	FileName string
	Flags    int
	Preds    [3]int // index into files.PredNames for node, way, relation
	Procs    int
	Consumer int     `json:",omitempty"`
	Twin     *[3]int `json:",omitempty"` // a second scanner with these predicates runs at the same time on the same bytes
	Fam      string  `json:",omitempty"`
}

func (c fcase) String() string {
	s := fmt.Sprintf("file=%s flags=%03b preds=%s/%s/%s procs=%d", c.FileName, c.Flags,
		files.PredNames[c.Preds[0]], files.PredNames[c.Preds[1]], files.PredNames[c.Preds[2]], c.Procs)
	if c.Consumer != 0 {
		s += " consumer=" + consumerNames[c.Consumer]
	}
	if c.Twin != nil {
		s += fmt.Sprintf(" twin=%s/%s/%s", files.PredNames[c.Twin[0]], files.PredNames[c.Twin[1]], files.PredNames[c.Twin[2]])
	}
	return s
}

func want(f *pbfgen.File, flags int, preds [3]int) []osm.Object {
	var out []osm.Object
	for _, o := range f.Expected() {
		if files.Accepts(o, flags, preds) {
			out = append(out, o)
		}
	}
	return out
}

type seen struct {
	calls [3]int64
}

func (sn *seen) total() int64 {
	return atomic.LoadInt64(&sn.calls[0]) + atomic.LoadInt64(&sn.calls[1]) + atomic.LoadInt64(&sn.calls[2])
}

func configure(s *osmpbf.Scanner, flags int, preds [3]int, sn *seen) {
	s.SkipNodes, s.SkipWays, s.SkipRelations = flags&1 != 0, flags&2 != 0, flags&4 != 0
	if p := preds[0]; p != 0 {
		s.FilterNode = func(n *osm.Node) bool {
			atomic.AddInt64(&sn.calls[0], 1)
			return files.Pred(p, n)
		}
	}
	if p := preds[1]; p != 0 {
		s.FilterWay = func(w *osm.Way) bool {
			atomic.AddInt64(&sn.calls[1], 1)
			return files.Pred(p, w)
		}
	}
	if p := preds[2]; p != 0 {
		s.FilterRelation = func(rl *osm.Relation) bool {
			atomic.AddInt64(&sn.calls[2], 1)
			return files.Pred(p, rl)
		}
	}
}

// countingReader lets the lazy consumer see whether the input is still being read.
type countingReader struct {
	r *bytes.Reader
	n int64
}

func (c *countingReader) Read(p []byte) (int, error) {
	n, err := c.r.Read(p)
	atomic.AddInt64(&c.n, int64(n))
	return n, err
}

// quiesce returns once neither the reader position nor the number of filter
// calls has moved for a few polls: the decoders are as far ahead of the
// consumer as the pipeline lets them get. Only makes the interesting situation
// likely; nothing is judged by it.
func quiesce(rd *countingReader, sn *seen) {
	last, still := int64(-1), 0
	for i := 0; i < 120 && still < 4; i++ {
		time.Sleep(150 * time.Microsecond)
		now := atomic.LoadInt64(&rd.n)*1000003 + sn.total()
		if now == last {
			still++
		} else {
			still = 0
		}
		last = now
	}
}

// gatedReader hands out the first free bytes (the header block) at once and everything behind them
// only after release was closed.
type gatedReader struct {
	r       io.Reader
	free    int
	release chan struct{}
}

func (g *gatedReader) Read(p []byte) (int, error) {
	if g.free > 0 {
		if len(p) > g.free {
			p = p[:g.free]
		}
		n, err := g.r.Read(p)
		g.free -= n
		return n, err
	}
	<-g.release
	return g.r.Read(p)
}

// firstBlockLen is the length of the first file block: 4 bytes of header length, the BlobHeader
// (field 3 = datasize), the blob.
func firstBlockLen(data []byte) int {
	n := int(binary.BigEndian.Uint32(data))
	h := data[4 : 4+n]
	for len(h) > 0 {
		key, k := binary.Uvarint(h)
		h = h[k:]
		switch key & 7 {
		case 0:
			v, k := binary.Uvarint(h)
			h = h[k:]
			if key>>3 == 3 {
				return 4 + n + int(v)
			}
		case 2:
			l, k := binary.Uvarint(h)
			h = h[k+int(l):]
		default:
			kit.Fatalf("C08: unexpected wire type in a BlobHeader written by the generator")
		}
	}
	kit.Fatalf("C08: BlobHeader without datasize")
	return 0
}

type scanOut struct {
	objs      []osm.Object
	atReturn  string // first difference between an object and its expectation at the moment it was returned
	herr, err error
	stopped   bool
}

func scan(data []byte, procs, flags int, preds [3]int, consumer int, sn *seen, w []osm.Object) scanOut {
	rd := &countingReader{r: bytes.NewReader(data)}
	var out scanOut
	var s *osmpbf.Scanner
	if consumer == lateConfig {
		g := &gatedReader{r: rd, free: firstBlockLen(data), release: make(chan struct{})}
		s = osmpbf.New(context.Background(), g, procs)
		_, out.herr = s.Header()
		configure(s, flags, preds, sn)
		close(g.release)
	} else {
		s = osmpbf.New(context.Background(), rd, procs)
		configure(s, flags, preds, sn)
		if consumer != lazy {
			_, out.herr = s.Header() // the lazy consumer starts with Scan
		}
	}
	limit := -1
	if consumer == stopEarly {
		limit = (len(w) + 1) / 2
	}
	for len(out.objs) != limit && s.Scan() {
		o := s.Object()
		i := len(out.objs)
		out.objs = append(out.objs, o)
		if out.atReturn == "" {
			if i >= len(w) {
				out.atReturn = fmt.Sprintf("object %d (%v) beyond the %d expected", i, files.IDs([]osm.Object{o}), len(w))
			} else if d := pbfgen.DiffObject(o, w[i]); d != "" {
				out.atReturn = fmt.Sprintf("object %d: %s", i, d)
			}
		}
		if consumer == lazy && (i == 0 || i == len(w)/2) {
			quiesce(rd, sn)
		}
		if len(out.objs) > len(w)+8 {
			break // a scan that does not end
		}
	}
	if len(out.objs) == limit {
		out.stopped = true
	} else {
		out.err = s.Err()
	}
	s.Close()
	return out
}

// combos of predicates for the restricted products
func extCombos() (ext, base [][3]int) {
	for p := 7; p <= 12; p++ {
		ext = append(ext, [3]int{p, p, p}, [3]int{p, 0, 0}, [3]int{0, p, 0}, [3]int{0, 0, p}, [3]int{p, 2, 2}, [3]int{2, p, 2}, [3]int{2, 2, p})
	}
	for p := 13; p <= 14; p++ {
		ext = append(ext, [3]int{p, p, p}, [3]int{p, 0, 0}, [3]int{0, p, 0}, [3]int{0, 0, p})
	}
	ext = append(ext, [3]int{7, 9, 11}, [3]int{8, 10, 12}, [3]int{9, 11, 8}, [3]int{10, 12, 7}, [3]int{3, 9, 7}, [3]int{9, 4, 5}, [3]int{5, 7, 9}, [3]int{12, 8, 10}, [3]int{13, 14, 13}, [3]int{14, 13, 7})
	for p := 0; p <= 5; p++ {
		base = append(base, [3]int{p, p, p})
	}
	base = append(base, [3]int{3, 4, 5}, [3]int{4, 5, 3}, [3]int{5, 3, 4}, [3]int{2, 1, 3}, [3]int{1, 3, 2}, [3]int{3, 2, 1})
	return
}

// extLive: at least one kind with one of the pattern predicates is not skipped
// (otherwise the case behaves like one of the full product).
func extLive(flags int, preds [3]int) bool {
	for k := 0; k < 3; k++ {
		if preds[k] >= 7 && flags&(1<<uint(k)) == 0 {
			return true
		}
	}
	return false
}

func main() {
	kit.Main("C08", "exploration", func(r *kit.Run) {
		np := 6
		procs := []int{1, 2, 3}
		if !r.Quick() {
			np = 7
			procs = []int{1, 2, 3, 8}
		}
		r.Rule(fmt.Sprintf("family full: files X,Y,Z,W x 8 skip-flag sets x %d^3 per-kind predicates (%v) x procs %v, full product (thorough: also on the 14-block file). "+
			"Restricted products use the pattern predicates %v (hash-* = one bit of a hash over every field of the element as the filter sees it) as (p,p,p), p on one kind with nil or reject-all on the others, and mixed triples ('ext', only with a pattern-filtered kind not skipped) and 12 triples of the first six predicates ('base'): "+
			"family ext = X,Y,Z x ext x 8 flag sets x procs (quick: Y procs 1,3; Z procs 1); grouped = files of 14 and 45 blocks (thorough also 120) with 0-6 primitive groups per block (ids aligned so that bit2/not-bit2 reject one whole group and accept the next, mod3-* give reject-accept-accept runs across group and block borders) x (ext+base) x 8 x procs x consumer (14 blocks: eager (quick: procs 1,3), and lazy with one decoder; 45 blocks: lazy = lets the decoders run as far ahead as the pipeline allows after the first object and at the middle; thorough: both everywhere); "+
			"edges = one file of absent / present-but-empty / delimiter-only tag, node and member lists, empty dense group, empty group, empty block, changeset groups, >=128 tags/nodes/members, ids 0, negative, 2^31, 2^40+1, 2^53+1, empty/blank/non-ASCII/long strings x (ext+base) x 8 x procs {1,3} (thorough: all); wide3 = 3-byte string ids x (ext+base) x 8 (quick: flags 0,1,6) x procs 1; "+
			"params = four blocks with non-default granularity, lat/lon offsets and date granularity each (after the groups, every other block before them) x (ext+base) x 8 x procs; big = a block of 8001 nodes; nohdr = X and the 14-block file without header block; procs = decoder counts 0,-1,4,5,6,10,11,12,16,34 x 4 triples x flags {0,1,6} on X and the 14-block file (lazy on the 45-block file for 0,4,5,6,10,11); stop = consumer closes the scanner after half of the expected objects and keeps them; late-config = Header() is called first and the skip flags and filters are set afterwards, on an input that delivers its data blocks only once the options are set; twin = two scanners with different predicates on the same bytes at the same time. "+
			"Objects are compared when returned and again after the scan. non-trivial = at least one element rejected and at least one accepted; distinct = (file,flags,preds,procs,consumer,twin)", np, files.PredNames[:np], procs, files.PredNames[7:]))
		r.Assume("predicates are pure functions of the element's content and never retain their argument")
		r.Note("not judged: what happens when the consumer writes into a returned object (append to its Tags etc.) - the property only speaks about the scanner modifying returned objects; filters that retain or modify their argument; skip flags or filters changed while a scan runs")
		fs, names := files.Base()
		var cases []fcase
		fams := map[string]int{}
		add := func(c fcase) {
			cases = append(cases, c)
			f := c.Fam
			if f == "" {
				f = "full"
			}
			fams[f]++
		}
		for _, n := range names {
			for flags := 0; flags < 8; flags++ {
				for a := 0; a < np; a++ {
					for b := 0; b < np; b++ {
						for c := 0; c < np; c++ {
							for _, p := range procs {
								if n == "W-large-string-table" && p != 1 {
									continue // about varint widths, not about decoder counts
								}
								add(fcase{FileName: n, Flags: flags, Preds: [3]int{a, b, c}, Procs: p})
							}
						}
					}
				}
			}
		}
		// ---- boundary families ----
		if !r.Quick() {
			for flags := 0; flags < 8; flags++ {
				for a := 0; a < np; a++ {
					for b := 0; b < np; b++ {
						for c := 0; c < np; c++ {
							for _, p := range []int{1, 3} {
								add(fcase{FileName: "G-14-blocks-grouped", Flags: flags, Preds: [3]int{a, b, c}, Procs: p})
							}
						}
					}
				}
			}
		}
		fs["G-14-blocks-grouped"] = files.Grouped(14)
		fs["H-45-blocks-grouped"] = files.Grouped(45)
		fs["E-edge-elements"] = files.Edges()
		fs["W3-three-byte-string-ids"] = files.Wide3()
		fs["B-8001-nodes-block"] = files.Big()
		fs["P-block-parameters"] = files.Params()
		fs["X-no-header"] = files.NoHeader(fs["X-three-blocks"])
		fs["G-14-no-header"] = files.NoHeader(fs["G-14-blocks-grouped"])
		names = append(names, "G-14-blocks-grouped", "H-45-blocks-grouped", "E-edge-elements", "W3-three-byte-string-ids", "B-8001-nodes-block", "X-no-header", "G-14-no-header", "P-block-parameters")
		if !r.Quick() {
			fs["K-120-blocks-grouped"] = files.Grouped(120)
			names = append(names, "K-120-blocks-grouped")
		}
		ext, base := extCombos()
		if !r.Quick() {
			base = append(base, [3]int{6, 6, 6}, [3]int{6, 9, 7}, [3]int{10, 6, 12})
		}
		restricted := func(fam, file string, withBase bool, ps []int, consumers []int) {
			for flags := 0; flags < 8; flags++ {
				if fam == "wide3" && r.Quick() && flags != 0 && flags != 1 && flags != 6 {
					continue
				}
				for _, pr := range ext {
					if !extLive(flags, pr) {
						continue
					}
					for _, p := range ps {
						for _, cm := range consumers {
							add(fcase{FileName: file, Flags: flags, Preds: pr, Procs: p, Consumer: cm, Fam: fam})
						}
					}
				}
				if !withBase {
					continue
				}
				for _, pr := range base {
					for _, p := range ps {
						for _, cm := range consumers {
							add(fcase{FileName: file, Flags: flags, Preds: pr, Procs: p, Consumer: cm, Fam: fam})
						}
					}
				}
			}
		}
		quickProcs := procs
		if r.Quick() {
			quickProcs = []int{1, 3}
		}
		restricted("ext", "X-three-blocks", false, procs, []int{eager})
		restricted("ext", "Y-one-block-mixed", false, quickProcs, []int{eager})
		// 14 blocks: one decoder can be at most 13 blocks ahead of the consumer; 45 blocks: >= 14 per decoder for 3 decoders
		restricted("grouped", "G-14-blocks-grouped", true, quickProcs, []int{eager})
		restricted("grouped", "G-14-blocks-grouped", true, []int{1}, []int{lazy})
		restricted("grouped", "H-45-blocks-grouped", true, procs, []int{lazy})
		restricted("edges", "E-edge-elements", true, quickProcs, []int{eager})
		if r.Quick() {
			restricted("ext", "Z-no-metadata", false, []int{1}, []int{eager})
		} else {
			restricted("ext", "Z-no-metadata", false, procs, []int{eager})
			restricted("grouped", "H-45-blocks-grouped", true, procs, []int{eager})
			restricted("grouped", "K-120-blocks-grouped", true, procs, []int{eager, lazy})
		}
		restricted("wide3", "W3-three-byte-string-ids", true, []int{1}, []int{eager})
		// blocks with their own granularity, offsets and date granularity
		restricted("params", "P-block-parameters", true, quickProcs, []int{eager})
		few := [][3]int{{3, 3, 3}, {4, 5, 7}, {9, 10, 2}, {0, 0, 0}}
		// decoder counts: < 1 means one decoder; the channel capacities 10/n are 2 for 4 and 5,
		// 1 for 6..10 and 0 (unbuffered) from 11
		for _, n := range []string{"X-three-blocks", "G-14-blocks-grouped"} {
			for _, p := range []int{0, -1, 4, 5, 6, 10, 11, 12, 16, 34} {
				for _, pr := range few {
					for _, flags := range []int{0, 1, 6} {
						add(fcase{FileName: n, Flags: flags, Preds: pr, Procs: p, Fam: "procs"})
					}
				}
			}
		}
		for _, p := range []int{0, 4, 5, 6, 10, 11} {
			for _, pr := range few {
				add(fcase{FileName: "H-45-blocks-grouped", Preds: pr, Procs: p, Consumer: lazy, Fam: "procs"})
			}
		}
		// a block of more objects than the decoder's result slice holds at first
		for _, pr := range append(few, [3]int{7, 7, 7}, [3]int{13, 14, 13}) {
			for _, flags := range []int{0, 2} {
				for _, p := range []int{1, 2} {
					add(fcase{FileName: "B-8001-nodes-block", Flags: flags, Preds: pr, Procs: p, Consumer: lazy, Fam: "big"})
				}
			}
		}
		// no header block: the first data block is handed to decoder 0 outside the round-robin loop
		for _, n := range []string{"X-no-header", "G-14-no-header"} {
			for _, pr := range append(few, [3]int{7, 7, 7}, [3]int{14, 13, 14}) {
				for _, flags := range []int{0, 1, 6} {
					for _, p := range []int{1, 2, 3} {
						add(fcase{FileName: n, Flags: flags, Preds: pr, Procs: p, Consumer: p % 2, Fam: "nohdr"})
					}
				}
			}
		}
		for _, n := range []string{"X-three-blocks", "Y-one-block-mixed", "G-14-blocks-grouped"} {
			for _, pr := range append(few, [3]int{7, 7, 7}) {
				for _, flags := range []int{0, 1, 6} {
					for _, p := range []int{1, 2, 3} {
						add(fcase{FileName: n, Flags: flags, Preds: pr, Procs: p, Consumer: stopEarly, Fam: "stop"})
					}
				}
			}
			for _, tw := range [][2][3]int{{{3, 3, 3}, {4, 4, 4}}, {{9, 9, 9}, {10, 10, 10}}, {{7, 2, 11}, {8, 1, 12}}, {{0, 0, 0}, {2, 2, 2}}} {
				for _, flags := range []int{0, 1, 6} {
					for _, p := range []int{1, 2} {
						t := tw[1]
						add(fcase{FileName: n, Flags: flags, Preds: tw[0], Procs: p, Twin: &t, Fam: "twin"})
					}
				}
			}
		}
		// the header is read first, the options are set afterwards (the data blocks arrive later still)
		for _, n := range []string{"X-three-blocks", "Y-one-block-mixed", "G-14-blocks-grouped"} {
			for _, pr := range append(few, [3]int{7, 7, 7}, [3]int{2, 2, 2}, [3]int{1, 4, 2}) {
				for flags := 0; flags < 8; flags++ {
					for _, p := range []int{1, 2, 3} {
						add(fcase{FileName: n, Flags: flags, Preds: pr, Procs: p, Consumer: lateConfig, Fam: "late-config"})
					}
				}
			}
		}
		r.Set("family_counts", fams)
		if r.ReplayPath != "" {
			var c fcase
			r.LoadReplay(&c)
			cases = []fcase{c}
		}
		encs := map[string]*pbfgen.Encoded{}
		for n, f := range fs {
			encs[n] = f.Encode()
		}
		// the unfiltered scan itself (C01's claim) is the base of the comparison
		for _, n := range names {
			sn := &seen{}
			all := fs[n].Expected()
			res := scan(encs[n].Data, 1, 0, [3]int{}, eager, sn, all)
			d := res.atReturn
			if d == "" {
				d = pbfgen.DiffObjects(res.objs, all)
			}
			if d != "" || res.err != nil || res.herr != nil {
				r.Violation("unfiltered-base/"+n, fmt.Sprintf("unfiltered scan of %s differs from the model: %s err=%v header err=%v", n, d, res.err, res.herr), fcase{FileName: n, Procs: 1})
			}
		}
		r.ParIsolated(len(cases), func(i int) {
			c := cases[i]
			f := fs[c.FileName]
			all := f.Expected()
			w := want(f, c.Flags, c.Preds)
			nontrivial := len(w) > 0 && len(w) < len(all)
			r.Case(c.String(), nontrivial)
			fam := c.Fam
			if fam == "" {
				fam = "full"
			}
			t0 := time.Now()
			defer func() { r.Add("busy_us_"+fam, int64(time.Since(t0)/time.Microsecond)) }()
			if r.WantSample() && nontrivial && (c.Preds[1] > 2 || c.Fam != "") {
				r.Sample(map[string]interface{}{"family": c.Fam, "file": c.FileName, "skip_flags": c.Flags, "preds": []string{files.PredNames[c.Preds[0]], files.PredNames[c.Preds[1]], files.PredNames[c.Preds[2]]},
					"procs": c.Procs, "consumer": consumerNames[c.Consumer], "expected": files.IDs(w)})
			}
			var cnt [3]int64
			for _, o := range all {
				switch o.(type) {
				case *osm.Node:
					cnt[0]++
				case *osm.Way:
					cnt[1]++
				case *osm.Relation:
					cnt[2]++
				}
			}
			judge := func(label string, preds [3]int, w []osm.Object, res scanOut, sn *seen) {
				fail := func(clause, msg string) {
					r.Violation(clause, fmt.Sprintf("%s%s: %s", c, label, msg), c)
				}
				if res.err != nil || res.herr != nil {
					fail("scan-error", fmt.Sprintf("header err %v, scan err %v", res.herr, res.err))
					return
				}
				if res.atReturn != "" {
					fail("subsequence/"+pbfgen.Class(res.atReturn), res.atReturn+fmt.Sprintf(" (got %v want %v)", files.IDs(res.objs), files.IDs(w)))
					return
				}
				ww := w
				if res.stopped {
					ww = w[:len(res.objs)]
				}
				// compared again after the scan completed: returned objects must still be intact
				if d := pbfgen.DiffObjects(res.objs, ww); d != "" {
					clause := "modified-after-return/"
					if len(res.objs) != len(ww) {
						clause = "subsequence/"
					}
					fail(clause+pbfgen.Class(d), d+fmt.Sprintf(" (got %v want %v)", files.IDs(res.objs), files.IDs(ww)))
					return
				}
				if res.stopped {
					return // how far the decoders got before Close is schedule dependent
				}
				// a filter of a skipped kind must not be consulted; a filter of a
				// non-skipped kind is consulted once per element of that kind
				for k := 0; k < 3; k++ {
					wantCalls := cnt[k]
					if c.Flags&(1<<uint(k)) != 0 || preds[k] == 0 {
						wantCalls = 0
					}
					if got := atomic.LoadInt64(&sn.calls[k]); got != wantCalls {
						fail(fmt.Sprintf("filter-calls/kind%d", k), fmt.Sprintf("filter for kind %d called %d times, want %d", k, got, wantCalls))
						return
					}
				}
			}
			data := encs[c.FileName].Data
			if c.Twin == nil {
				sn := &seen{}
				judge("", c.Preds, w, scan(data, c.Procs, c.Flags, c.Preds, c.Consumer, sn, w), sn)
				return
			}
			w2 := want(f, c.Flags, *c.Twin)
			sn1, sn2 := &seen{}, &seen{}
			var res1, res2 scanOut
			var wg sync.WaitGroup
			wg.Add(2)
			go func() { defer wg.Done(); res1 = scan(data, c.Procs, c.Flags, c.Preds, lazy, sn1, w) }()
			go func() { defer wg.Done(); res2 = scan(data, c.Procs, c.Flags, *c.Twin, eager, sn2, w2) }()
			wg.Wait()
			judge(" [first scanner]", c.Preds, w, res1, sn1)
			judge(" [second scanner]", *c.Twin, w2, res2, sn2)
		}, func(i int, what, detail string) {
			c := cases[i]
			r.Violation("process-"+what+"/"+kit.CrashClass(detail), fmt.Sprintf("%s: the scanning process ended in a %s:\n%s", c, what, detail), c)
		})
	})
}
