// Package files holds the inputs both C08 programs (props/c08 and
// props/c08/sched) enumerate: the predicate menu, the element constructors and
// the file shapes. Expected objects always come from pbfgen's format model.
package files

import (
	"fmt"
	"hash/fnv"
	"math"
	"strings"

	"github.com/paulmach/osm"

	"verif/gen/pbfgen"
)

// PredNames is the predicate menu; the index is what a replay file stores, so
// entries are only ever appended.
var PredNames = []string{"nil", "accept-all", "reject-all", "even-ids", "odd-ids", "has-tags", "fat",
	// accept/reject patterns over consecutive ids: R A A, A R R; whole groups of
	// four ids rejected and the next four accepted (Grouped aligns its primitive
	// groups to multiples of 4) and the inverse; only elements without any tag,
	// node or member, and the inverse
	"mod3-ne0", "mod3-eq0", "bit2", "not-bit2", "empty", "non-empty",
	// one bit of a hash over EVERY field the format carries (metadata, coordinates,
	// tags, node refs with their coordinates, members): the filter has to be given
	// the finished element, not one that is completed after the filter accepted it
	"hash-even", "hash-odd"}

// e7 is a coordinate in units of 1e-7 degrees (every generated coordinate is a
// multiple of it; rounding absorbs the floating-point noise of 1e-9*int).
func e7(v float64) int64 { return int64(math.Round(v * 1e7)) }

// ContentHash hashes every field of an element that the PBF format carries.
// An absent timestamp (zero time or Unix epoch, see pbfgen's comparison) counts as 0.
func ContentHash(o osm.Object) uint64 {
	h := fnv.New64a()
	ms := func(t interface {
		IsZero() bool
		UnixNano() int64
	}) int64 {
		if t.IsZero() {
			return 0
		}
		return t.UnixNano() / 1e6
	}
	switch e := o.(type) {
	case *osm.Node:
		fmt.Fprintf(h, "n|%d|%d|%d|%d|%q|%v|%d|%d|%d", int64(e.ID), e.Version, int64(e.ChangesetID), int64(e.UserID), e.User, e.Visible, ms(e.Timestamp), e7(e.Lat), e7(e.Lon))
		for _, t := range e.Tags {
			fmt.Fprintf(h, "|%q=%q", t.Key, t.Value)
		}
	case *osm.Way:
		fmt.Fprintf(h, "w|%d|%d|%d|%d|%q|%v|%d", int64(e.ID), e.Version, int64(e.ChangesetID), int64(e.UserID), e.User, e.Visible, ms(e.Timestamp))
		for _, t := range e.Tags {
			fmt.Fprintf(h, "|%q=%q", t.Key, t.Value)
		}
		for _, n := range e.Nodes {
			fmt.Fprintf(h, "|%d,%d,%d", int64(n.ID), e7(n.Lat), e7(n.Lon))
		}
	case *osm.Relation:
		fmt.Fprintf(h, "r|%d|%d|%d|%d|%q|%v|%d", int64(e.ID), e.Version, int64(e.ChangesetID), int64(e.UserID), e.User, e.Visible, ms(e.Timestamp))
		for _, t := range e.Tags {
			fmt.Fprintf(h, "|%q=%q", t.Key, t.Value)
		}
		for _, m := range e.Members {
			fmt.Fprintf(h, "|%s,%d,%q", m.Type, m.Ref, m.Role)
		}
	}
	return h.Sum64()
}

// Pred evaluates predicate p on an element (as given to a filter, or as expected
// by the model).
func Pred(p int, o osm.Object) bool {
	var id int64
	var ntags, nchildren int
	switch e := o.(type) {
	case *osm.Node:
		id, ntags = int64(e.ID), len(e.Tags)
	case *osm.Way:
		id, ntags, nchildren = int64(e.ID), len(e.Tags), len(e.Nodes)
	case *osm.Relation:
		id, ntags, nchildren = int64(e.ID), len(e.Tags), len(e.Members)
	}
	switch p {
	case 0, 1:
		return true
	case 2:
		return false
	case 3:
		return id%2 == 0
	case 4:
		return id%2 != 0
	case 5:
		return ntags > 0
	case 6:
		return ntags >= 2 || nchildren >= 2
	case 7:
		return id%3 != 0
	case 8:
		return id%3 == 0
	case 9:
		return id&4 != 0
	case 10:
		return id&4 == 0
	case 11:
		return ntags == 0 && nchildren == 0
	case 12:
		return ntags != 0 || nchildren != 0
	case 13:
		return ContentHash(o)>>17&1 == 0
	case 14:
		return ContentHash(o)>>17&1 == 1
	}
	panic("bad predicate")
}

// Accepts applies skip flags (bit 0 nodes, 1 ways, 2 relations) and the
// per-kind predicates to one expected object.
func Accepts(o osm.Object, flags int, preds [3]int) bool {
	switch o.(type) {
	case *osm.Node:
		return flags&1 == 0 && Pred(preds[0], o)
	case *osm.Way:
		return flags&2 == 0 && Pred(preds[1], o)
	case *osm.Relation:
		return flags&4 == 0 && Pred(preds[2], o)
	}
	return false
}

// IDs lists kind + full 64-bit id (pbfgen.IDs goes through the 40-bit ObjectID).
func IDs(objs []osm.Object) []string {
	out := make([]string, len(objs))
	for i, o := range objs {
		switch e := o.(type) {
		case *osm.Node:
			out[i] = fmt.Sprintf("n%d", int64(e.ID))
		case *osm.Way:
			out[i] = fmt.Sprintf("w%d", int64(e.ID))
		case *osm.Relation:
			out[i] = fmt.Sprintf("r%d", int64(e.ID))
		default:
			out[i] = fmt.Sprintf("%T", o)
		}
	}
	return out
}

func Tags(n int, seed int64) [][2]string {
	var t [][2]string
	for i := 0; i < n; i++ {
		t = append(t, [2]string{fmt.Sprintf("k%d_%d", seed, i), fmt.Sprintf("v%d_%d", seed, i)})
	}
	return t
}

func Refs(n int, seed int64) []int64 {
	r := []int64{}
	for i := 0; i < n; i++ {
		r = append(r, seed*100+int64(i)*7-3)
	}
	return r
}

func Members(n int, seed int64) []pbfgen.Member {
	m := []pbfgen.Member{}
	for i := 0; i < n; i++ {
		m = append(m, pbfgen.Member{Type: i % 3, Ref: seed*10 + int64(i), Role: fmt.Sprintf("r%d", i%2)})
	}
	return m
}

func DNode(id int64, ntags int) pbfgen.DNode {
	n := pbfgen.DenseNode(id, id)
	n.Tags = Tags(ntags, id)
	return n
}

func Way(id int64, ntags, nrefs int, loc, info bool) pbfgen.Way {
	w := pbfgen.Way{ID: id, Tags: Tags(ntags, id), Refs: Refs(nrefs, id), NoRefs: nrefs == 0}
	if info {
		w.Info = pbfgen.FullInfo(id)
	}
	if loc && nrefs > 0 {
		w.Lats, w.Lons = Refs(nrefs, id+1), Refs(nrefs, id+2)
	}
	return w
}

func Rel(id int64, ntags, nmem int, info bool) pbfgen.Relation {
	r := pbfgen.Relation{ID: id, Tags: Tags(ntags, id), Members: Members(nmem, id), NoMembers: nmem == 0}
	if info {
		r.Info = pbfgen.FullInfo(id)
	}
	return r
}

func fullDense(ns ...pbfgen.DNode) pbfgen.Group {
	return pbfgen.Group{Dense: &pbfgen.Dense{Info: true, Cols: pbfgen.ColsMask(63), KeysVals: true, Nodes: ns}}
}

func threeBlocks() *pbfgen.File {
	return &pbfgen.File{Header: pbfgen.StdHeader(), Blocks: []pbfgen.Block{
		{Groups: []pbfgen.Group{fullDense(DNode(1, 2), DNode(2, 0), DNode(3, 3), DNode(4, 1), DNode(5, 0), DNode(6, 2), DNode(8, 0), DNode(7, 1))}},
		{Groups: []pbfgen.Group{{Ways: []pbfgen.Way{Way(10, 3, 4, true, true), Way(11, 0, 0, false, true), Way(12, 1, 2, false, true),
			Way(13, 2, 3, true, true), Way(14, 0, 1, false, false), Way(15, 1, 0, false, true), Way(17, 0, 5, true, true), Way(16, 2, 1, false, false)}}}},
		{Groups: []pbfgen.Group{{Relations: []pbfgen.Relation{Rel(20, 3, 3, true), Rel(21, 0, 0, true), Rel(22, 1, 1, true),
			Rel(23, 0, 2, false), Rel(24, 2, 0, true), Rel(25, 0, 4, true), Rel(27, 1, 1, false), Rel(26, 0, 0, false)}}}},
	}}
}

func withExtraStrings(f *pbfgen.File, n int) *pbfgen.File {
	out := &pbfgen.File{Header: pbfgen.StdHeader()}
	extra := make([]string, n)
	for i := range extra {
		extra[i] = fmt.Sprintf("unused%d", i)
	}
	for _, b := range f.Blocks {
		b.ExtraStrings = extra
		out.Blocks = append(out.Blocks, b)
	}
	return out
}

// Base returns the four files of the full predicate product.
func Base() (map[string]*pbfgen.File, []string) {
	x := threeBlocks()
	// everything in one block, several groups per kind, a dense group without keys_vals after a tagged one
	noKV := pbfgen.Group{Dense: &pbfgen.Dense{Info: true, Cols: pbfgen.ColsMask(0b100001), Nodes: []pbfgen.DNode{DNode(31, 0), DNode(32, 0)}}}
	y := &pbfgen.File{Header: pbfgen.StdHeader(), Blocks: []pbfgen.Block{
		{Groups: []pbfgen.Group{
			fullDense(DNode(1, 3), DNode(2, 1)),
			{Ways: []pbfgen.Way{Way(10, 2, 3, true, true), Way(11, 0, 1, false, false)}},
			{Relations: []pbfgen.Relation{Rel(20, 2, 2, true), Rel(21, 0, 1, false)}},
			noKV,
			{Ways: []pbfgen.Way{Way(12, 0, 0, false, false), Way(13, 1, 2, false, true)}},
			{Relations: []pbfgen.Relation{Rel(22, 0, 0, false), Rel(23, 1, 3, true)}},
		}},
		{Groups: []pbfgen.Group{{Ways: []pbfgen.Way{Way(14, 0, 2, false, false)}}, fullDense(DNode(3, 0), DNode(4, 2))}},
	}}
	// no metadata anywhere
	z := &pbfgen.File{Header: pbfgen.StdHeader(), Blocks: []pbfgen.Block{
		{Groups: []pbfgen.Group{{Dense: &pbfgen.Dense{KeysVals: true, Nodes: []pbfgen.DNode{DNode(1, 1), DNode(2, 2), DNode(3, 0), DNode(4, 0), DNode(5, 3)}}}}},
		{Groups: []pbfgen.Group{{Ways: []pbfgen.Way{Way(10, 0, 3, false, false), Way(11, 2, 0, false, false), Way(12, 0, 1, true, false), Way(13, 1, 4, false, false)}}}},
		{Groups: []pbfgen.Group{{Relations: []pbfgen.Relation{Rel(20, 0, 2, false), Rel(21, 2, 0, false), Rel(22, 0, 0, false), Rel(23, 1, 1, false)}}}},
	}}
	// the three-block file again with 200 unused string-table entries first: every
	// string id in keys_vals, keys, vals, roles and user_sid needs a 2-byte varint
	// (the dense-node tag pre-count works on raw bytes)
	wf := withExtraStrings(x, 200)
	return map[string]*pbfgen.File{"X-three-blocks": x, "Y-one-block-mixed": y, "Z-no-metadata": z, "W-large-string-table": wf},
		[]string{"X-three-blocks", "Y-one-block-mixed", "Z-no-metadata", "W-large-string-table"}
}

// Params is the three-block file plus the mixed block of Y, every block with its own
// granularity, offsets and date granularity (none the default), written after the groups
// (the canonical order: they have the higher field numbers) or, every other block, first.
func Params() *pbfgen.File {
	y, _ := Base()
	f := &pbfgen.File{Header: pbfgen.StdHeader()}
	// the optional features real planet files declare (what they promise about the file must
	// not turn into a shortcut that changes what a scan returns)
	f.Header.Optional = append(f.Header.Optional, "Sort.Type_then_ID", "Has_Metadata")
	blocks := append(append([]pbfgen.Block{}, threeBlocks().Blocks...), y["Y-one-block-mixed"].Blocks[0])
	grans := []int32{1000, 10, 100000, 7}
	dates := []int32{2000, 500, 60000, 1}
	for i, b := range blocks {
		g, d := grans[i%4], dates[i%4]
		la, lo := int64(500000000+i), int64(-100000000*int64(i+1))
		b.Granularity, b.DateGranularity, b.LatOffset, b.LonOffset = &g, &d, &la, &lo
		b.ParamsFirst = i%2 == 1
		f.Blocks = append(f.Blocks, b)
	}
	return f
}

// Wide3 is the three-block file with 16400 unused string-table entries first:
// every string id needs a 3-byte varint.
func Wide3() *pbfgen.File { return withExtraStrings(threeBlocks(), 16400) }

// Grouped builds nb data blocks of several primitive groups each. Node ids are
// 8b+k, way ids 1000+8b+k, relation ids 2000+8b+k (b = block, k = 0..7); a
// group holds either k = 0..3 ("A") or k = 4..7 ("B"), so the predicates bit2 /
// not-bit2 reject every element of one group and accept every element of the
// next, mod3-* give reject-accept-accept runs that cross group and block
// borders. Which groups a block has rotates (all six; nodes only; ways and
// relations interleaved; relations before nodes), blocks 5, 12, 19, ... have no
// group at all (block 13 has: with 14 blocks the last one is the first that one
// decoder can only start while the consumer still reads the first), every third
// is a raw blob. Tag / node / member counts run through
// 0..5 so that a rejected element with many precedes an accepted one with
// fewer or none and vice versa; an empty way alternates between "refs absent"
// and "refs present and empty" (same for members).
func Grouped(nb int) *pbfgen.File {
	if nb > 120 {
		panic("Grouped: id ranges overlap above 120 blocks")
	}
	ntags := [8]int{3, 0, 1, 2, 0, 2, 0, 1}
	nkids := [8]int{4, 0, 2, 1, 0, 3, 1, 5}
	f := &pbfgen.File{Header: pbfgen.StdHeader()}
	f.Header.Optional = append(f.Header.Optional, "Sort.Type_then_ID", "Has_Metadata")
	for b := 0; b < nb; b++ {
		base := int64(8 * b)
		dense := func(lo int) pbfgen.Group {
			var ns []pbfgen.DNode
			for k := lo; k < lo+4; k++ {
				ns = append(ns, DNode(base+int64(k), ntags[(k+b)%8]))
			}
			g := fullDense(ns...)
			if b%5 == 4 {
				g.Dense.Info = false // a block without any metadata on its nodes
			}
			return g
		}
		ways := func(lo int) pbfgen.Group {
			var ws []pbfgen.Way
			for k := lo; k < lo+4; k++ {
				w := Way(1000+base+int64(k), ntags[(k+b+1)%8], nkids[(k+b)%8], k%4 == 0, k%2 == 0)
				if len(w.Refs) == 0 {
					w.NoRefs = b%2 == 0
				}
				ws = append(ws, w)
			}
			return pbfgen.Group{Ways: ws}
		}
		rels := func(lo int) pbfgen.Group {
			var rs []pbfgen.Relation
			for k := lo; k < lo+4; k++ {
				r := Rel(2000+base+int64(k), ntags[(k+b+2)%8], nkids[(k+b+3)%8], k%2 == 1)
				if len(r.Members) == 0 {
					r.NoMembers = b%2 == 1
				}
				rs = append(rs, r)
			}
			return pbfgen.Group{Relations: rs}
		}
		var gs []pbfgen.Group
		switch (b + b/4) % 4 {
		case 0:
			gs = []pbfgen.Group{dense(0), dense(4), ways(0), ways(4), rels(0), rels(4)}
		case 1:
			gs = []pbfgen.Group{dense(0), dense(4)}
		case 2:
			gs = []pbfgen.Group{ways(0), rels(0), ways(4), rels(4)}
		case 3:
			gs = []pbfgen.Group{rels(4), rels(0), dense(4), dense(0), ways(4)}
		}
		if b%7 == 5 {
			gs = nil
		}
		f.Blocks = append(f.Blocks, pbfgen.Block{Groups: gs, Enc: pbfgen.Enc{Raw: b%3 == 1}})
	}
	return f
}

// Edges collects the element shapes at the ends of the ranges: no tags / nodes /
// members in each of the ways the format can say so (field absent, field
// present and empty, keys_vals of delimiters only), a dense group without
// nodes, a group without fields, a block without groups, a changeset group (not
// an element kind; the scanner passes over it), elements with >= 128 tags /
// nodes / members (two-byte lengths), ids of 0, negative, 2^31, 2^40+1 and
// 2^53+1, empty / blank / non-ASCII / long strings.
func Edges() *pbfgen.File {
	long := strings.Repeat("long-value ", 30)
	odd := [][2]string{{"", ""}, {" ", "\t"}, {"ключ", "値"}, {"note", long}, {"k", ""}}
	bigWay := Way(41, 130, 300, true, true)
	bigRel := Rel(51, 130, 130, true)
	emptyRefs := Way(42, 0, 0, false, true)
	emptyRefs.NoRefs = false
	emptyMem := Rel(52, 0, 0, true)
	emptyMem.NoMembers = false
	oddWay := Way(45, 0, 2, false, true)
	oddWay.Tags = odd
	oddWay.Info.User = pbfgen.Str("")
	oddRel := Rel(55, 0, 0, true)
	oddRel.Tags = odd
	oddRel.Members = []pbfgen.Member{{Type: 0, Ref: 1, Role: ""}, {Type: 2, Ref: 55, Role: "внешний"}, {Type: 1, Ref: 45, Role: " "}}
	oddRel.NoMembers = false
	oddRel.Info.User = pbfgen.Str("ユーザー")
	oddNode := DNode(36, 0)
	oddNode.Tags = odd
	oddNode.User = ""
	ids := []int64{-(1 << 40) - 1, -1, 0, 1 << 31, 1<<40 + 1, 1<<53 + 1}
	var idNodes []pbfgen.DNode
	var idWays []pbfgen.Way
	var idRels []pbfgen.Relation
	for i, id := range ids {
		n := pbfgen.DenseNode(id, int64(60+i))
		n.Tags = Tags(i%3, int64(60+i))
		idNodes = append(idNodes, n)
		w := pbfgen.Way{ID: id, Tags: Tags((i+1)%3, int64(70+i)), Info: pbfgen.FullInfo(int64(70 + i)), Refs: []int64{id, -id, 1<<53 + 3, -(1 << 62)}}
		if i%2 == 1 {
			w.Refs, w.NoRefs = nil, true
		}
		idWays = append(idWays, w)
		r := pbfgen.Relation{ID: id, Tags: Tags((i+2)%3, int64(80+i)), Members: []pbfgen.Member{{Type: i % 3, Ref: id, Role: "self"}, {Type: 1, Ref: 1<<62 + 5, Role: ""}}}
		if i%2 == 0 {
			r.Members, r.NoMembers = nil, true
		}
		idRels = append(idRels, r)
	}
	return &pbfgen.File{Header: pbfgen.StdHeader(), Blocks: []pbfgen.Block{
		{Groups: []pbfgen.Group{
			{Dense: &pbfgen.Dense{Info: true, Cols: pbfgen.ColsMask(63), KeysVals: true, Nodes: []pbfgen.DNode{DNode(31, 0), DNode(32, 0), DNode(33, 0)}}},
			{Dense: &pbfgen.Dense{Info: true, Cols: pbfgen.ColsMask(63), KeysVals: true}},
			{},
			fullDense(DNode(34, 130), DNode(35, 0), oddNode, DNode(37, 1)),
		}},
		{},
		{Groups: []pbfgen.Group{{Ways: []pbfgen.Way{bigWay, emptyRefs, Way(43, 2, 0, false, false), Way(44, 0, 1, false, false), oddWay, Way(46, 0, 0, false, false)}}}},
		{Groups: []pbfgen.Group{{Relations: []pbfgen.Relation{bigRel, emptyMem, Rel(53, 2, 0, false), Rel(54, 0, 1, false), oddRel, Rel(56, 0, 0, false)}}}},
		{Groups: []pbfgen.Group{{Changesets: []int64{1, 2}}, {Ways: []pbfgen.Way{Way(47, 1, 2, true, false)}}, {Changesets: []int64{3}}, fullDense(DNode(38, 2))}},
		{Groups: []pbfgen.Group{fullDense(idNodes...), {Ways: idWays}, {Relations: idRels}}},
		// non-default block parameters, written before the groups
		{Granularity: pbfgen.I32(1000), LatOffset: pbfgen.I64(123456000), LonOffset: pbfgen.I64(-98765000), DateGranularity: pbfgen.I32(2000), ParamsFirst: true,
			Groups: []pbfgen.Group{fullDense(DNode(91, 1), DNode(92, 0), DNode(93, 2)), {Ways: []pbfgen.Way{Way(94, 1, 3, true, true), Way(95, 0, 2, true, false)}}, {Relations: []pbfgen.Relation{Rel(96, 1, 2, true)}}}},
	}}
}

// Big is a block of 8001 dense nodes (one more than the decoder's initial
// result capacity; every 5th tagged), a block of 130 ways and a short block.
func Big() *pbfgen.File {
	var ns []pbfgen.DNode
	for i := 0; i < 8001; i++ {
		ns = append(ns, DNode(int64(10000+i), (i%5+1)%5%3))
	}
	var ws []pbfgen.Way
	for i := 0; i < 130; i++ {
		ws = append(ws, Way(int64(30000+i), i%3, i%5, i%4 == 0, i%2 == 0))
	}
	return &pbfgen.File{Header: pbfgen.StdHeader(), Blocks: []pbfgen.Block{
		{Groups: []pbfgen.Group{fullDense(ns...)}},
		{Groups: []pbfgen.Group{{Ways: ws}}},
		{Groups: []pbfgen.Group{fullDense(DNode(1, 1), DNode(2, 0), DNode(3, 2))}},
	}}
}

// NoHeader is f without its header block (a stream resumed at a data block: the
// first block reaches the first decoder by a different path).
func NoHeader(f *pbfgen.File) *pbfgen.File { return &pbfgen.File{Blocks: f.Blocks} }
