//go:build verif

// C08, schedule part (Engine A): a filtered scan yields the filtered
// subsequence, unmodified, under every schedule with <= D deviations.
package main

import (
	"fmt"
	"time"

	"github.com/paulmach/osm"
	"github.com/paulmach/osm/osmpbf"
	"github.com/paulmach/osm/vsched"

	"verif/engine/pbfscen"
	"verif/engine/vexplore"
	"verif/gen/pbfgen"
	"verif/kit"
	"verif/props/c08/files"
)

// scenarioF is a filtered scan of an arbitrary file with one predicate of the
// shared menu per element kind. The consumer keeps every object; objects are
// compared when returned and at the end of the execution.
// encoded caches bytes and expected objects per file: every worker process
// builds the whole scenario list, the work per scenario has to stay small.
type encoded struct {
	data []byte
	all  []osm.Object
}

var encCache = map[*pbfgen.File]*encoded{}

func encode(f *pbfgen.File) *encoded {
	e := encCache[f]
	if e == nil {
		e = &encoded{data: f.Encode().Data, all: f.Expected()}
		encCache[f] = e
	}
	return e
}

func scenarioF(name, family string, file *pbfgen.File, procs, bound int, preds [3]int, skip int) vexplore.Scenario {
	return vexplore.Scenario{Name: name, Family: family, Bound: bound, MaxSteps: 400000, RacesAreFindings: true,
		New: func() (func(), func(*vsched.Outcome) ([]vexplore.Finding, string, bool)) {
			enc := encode(file)
			var want []osm.Object
			for _, o := range enc.all {
				if files.Accepts(o, skip, preds) {
					want = append(want, o)
				}
			}
			var col pbfscen.Collected
			var scanErr error
			main := func() {
				ctx, cancel := vsched.WithCancel(nil)
				defer cancel()
				rd := &pbfscen.Reader{Data: enc.data, BlockOnly: true}
				s := osmpbf.New(ctx, rd, procs)
				s.SkipNodes, s.SkipWays, s.SkipRelations = skip&1 != 0, skip&2 != 0, skip&4 != 0
				if p := preds[0]; p != 0 {
					s.FilterNode = func(n *osm.Node) bool {
						vsched.Yield("filter")
						return files.Pred(p, n)
					}
				}
				if p := preds[1]; p != 0 {
					s.FilterWay = func(w *osm.Way) bool {
						vsched.Yield("filter")
						return files.Pred(p, w)
					}
				}
				if p := preds[2]; p != 0 {
					s.FilterRelation = func(rl *osm.Relation) bool {
						vsched.Yield("filter")
						return files.Pred(p, rl)
					}
				}
				for s.Scan() {
					col.Take(s.Object(), want)
					if len(col.Objects) > len(want)+4 {
						break
					}
				}
				scanErr = s.Err()
				s.Close()
			}
			check := func(o *vsched.Outcome) ([]vexplore.Finding, string, bool) {
				var fs []vexplore.Finding
				add := func(k, m string) { fs = append(fs, vexplore.Finding{Key: "schedule/" + k, Msg: m}) }
				tag := fmt.Sprint(files.IDs(col.Objects))
				if o.Kind != "ok" {
					add(o.Kind, o.Detail)
					return fs, tag, true
				}
				if len(col.Objects) > len(want) {
					add("extra-objects", fmt.Sprintf("delivered %v, want %v", files.IDs(col.Objects), files.IDs(want)))
				} else if k, m := col.Judge(want, true); k != "" {
					add(k, m)
				}
				if scanErr != nil {
					add("scan-error", scanErr.Error())
				}
				return fs, tag, o.Threads > 3 && len(want) > 0 && len(want) < len(enc.all)
			}
			return main, check
		}}
}

func scenario(procs, bound int, predName string, pred func(id int64) bool, skip int) vexplore.Scenario {
	file := pbfscen.File(3, true)
	enc := file.Encode()
	var want []osm.Object
	for _, o := range file.Expected() {
		switch e := o.(type) {
		case *osm.Node:
			if skip&1 == 0 && pred(int64(e.ID)) {
				want = append(want, o)
			}
		case *osm.Way:
			if skip&2 == 0 && pred(int64(e.ID)) {
				want = append(want, o)
			}
		case *osm.Relation:
			if skip&4 == 0 && pred(int64(e.ID)) {
				want = append(want, o)
			}
		}
	}
	name := fmt.Sprintf("filtered pipeline procs=%d pred=%s skip=%03b", procs, predName, skip)
	return vexplore.Scenario{Name: name, Family: fmt.Sprintf("filtered procs=%d D=%d", procs, bound), Bound: bound, MaxSteps: 100000, RacesAreFindings: true,
		New: func() (func(), func(*vsched.Outcome) ([]vexplore.Finding, string, bool)) {
			var col pbfscen.Collected
			var scanErr error
			main := func() {
				ctx, cancel := vsched.WithCancel(nil)
				defer cancel()
				rd := &pbfscen.Reader{Data: enc.Data, BlockOnly: true}
				s := osmpbf.New(ctx, rd, procs)
				s.SkipNodes, s.SkipWays, s.SkipRelations = skip&1 != 0, skip&2 != 0, skip&4 != 0
				s.FilterNode = func(n *osm.Node) bool { vsched.Yield("filter"); return pred(int64(n.ID)) }
				s.FilterWay = func(w *osm.Way) bool { vsched.Yield("filter"); return pred(int64(w.ID)) }
				s.FilterRelation = func(rl *osm.Relation) bool { vsched.Yield("filter"); return pred(int64(rl.ID)) }
				for s.Scan() {
					col.Take(s.Object(), want)
					if len(col.Objects) > len(want)+4 {
						break
					}
				}
				scanErr = s.Err()
				s.Close()
			}
			check := func(o *vsched.Outcome) ([]vexplore.Finding, string, bool) {
				var fs []vexplore.Finding
				add := func(k, m string) { fs = append(fs, vexplore.Finding{Key: "schedule/" + k, Msg: m}) }
				tag := fmt.Sprint(pbfgen.IDs(col.Objects))
				if o.Kind != "ok" {
					add(o.Kind, o.Detail)
					return fs, tag, true
				}
				if len(col.Objects) > len(want) {
					add("extra-objects", fmt.Sprintf("delivered %v, want %v", pbfgen.IDs(col.Objects), pbfgen.IDs(want)))
				} else if k, m := col.Judge(want, true); k != "" {
					add(k, m)
				}
				if scanErr != nil {
					add("scan-error", scanErr.Error())
				}
				return fs, tag, o.Threads > 3 && len(want) > 0
			}
			return main, check
		}}
}

func main() {
	kit.Main("C08", "exploration", func(r *kit.Run) {
		r.Rule("schedule part: 3-block file (dense, ways, relations; two elements each) x predicate in {even ids, odd ids} x skip-flag sets {none, nodes, ways+relations} x procs x every schedule with <= D deviations of the instrumented pipeline; filters yield per element. " +
			"grouped D=0: files of 14..45 blocks (thorough ..120) with 0-6 primitive groups per block x decoder counts 1,2,3,4,11 (thorough also 0,5,8) x predicate triples of the shared menu (even, reject-accept-accept, whole groups rejected/accepted, reject-all, hash of every field) x skip-flag sets, no deviations, both priority configurations: child-below = consumer scans at once, child-above = consumer runs only when every pipeline thread is blocked (decoders as far ahead as the channels allow, 13 blocks for one decoder); " +
			"D=1: 14 two-object blocks, one decoder (thorough: grouped files of 14, 16, 30 blocks). Objects are compared when returned and at the end of the execution")
		r.Assume("vinst's rewrite preserves behaviour; sequentially consistent scheduler")
		var scs []vexplore.Scenario
		type pd struct{ p, d int }
		cfg := []pd{{1, 1}, {2, 2}}
		budget := 5 * time.Minute
		if !r.Quick() {
			cfg = []pd{{1, 2}, {2, 3}, {3, 2}}
			budget = 30 * time.Minute
		}
		even := func(id int64) bool { return id%2 == 0 }
		odd := func(id int64) bool { return id%2 != 0 }
		for _, c := range cfg {
			for _, skip := range []int{0, 1, 6} {
				scs = append(scs, scenario(c.p, c.d, "even", even, skip), scenario(c.p, c.d, "odd", odd, skip))
			}
		}
		// Many blocks of several groups each, no deviations: the two priority
		// configurations are the two extreme consumers - child-below scans as soon as
		// an object is there, child-above runs only when every pipeline thread is
		// blocked, i.e. the decoders are as far ahead as the channels allow (13 blocks
		// for one decoder) while the consumer still holds earlier objects.
		pn := files.PredNames
		triples := [][3]int{{3, 3, 3}, {7, 7, 7}, {9, 2, 7}, {10, 8, 4}, {13, 14, 13}}
		skips := []int{0, 1, 6}
		type mb struct{ procs, blocks int }
		mbs := []mb{{1, 14}, {1, 16}, {2, 30}, {3, 45}, {4, 45}, {11, 30}}
		if !r.Quick() {
			mbs = append(mbs, mb{0, 14}, mb{11, 45})
			triples = append(triples, [3]int{4, 4, 4}, [3]int{8, 8, 8}, [3]int{9, 9, 9}, [3]int{10, 10, 10}, [3]int{11, 12, 5}, [3]int{0, 10, 0})
			skips = []int{0, 1, 2, 3, 4, 5, 6, 7}
			mbs = append(mbs, mb{1, 45}, mb{2, 45}, mb{5, 60}, mb{8, 120})
		}
		grouped := map[int]*pbfgen.File{}
		for _, m := range mbs {
			if grouped[m.blocks] == nil {
				grouped[m.blocks] = files.Grouped(m.blocks)
			}
			for _, t := range triples {
				for _, skip := range skips {
					live := false
					for k := 0; k < 3; k++ {
						live = live || (t[k] != 0 && skip&(1<<uint(k)) == 0)
					}
					if !live {
						continue // every filtered kind skipped
					}
					name := fmt.Sprintf("grouped file procs=%d blocks=%d preds=%s/%s/%s skip=%03b", m.procs, m.blocks, pn[t[0]], pn[t[1]], pn[t[2]], skip)
					scs = append(scs, scenarioF(name, fmt.Sprintf("grouped procs=%d blocks=%d D=0", m.procs, m.blocks), grouped[m.blocks], m.procs, 0, t, skip))
				}
			}
		}
		// one deviation anywhere at the ring boundary: 14 blocks for one decoder
		// (quick: the two-objects-per-block file; thorough: the grouped files)
		simple14 := pbfscen.File(14, true)
		d1 := [][3]int{{3, 3, 3}}
		if !r.Quick() {
			d1 = append(d1, [3]int{4, 4, 4})
		}
		for _, t := range d1 {
			name := fmt.Sprintf("two-object blocks procs=1 blocks=14 preds=%s/%s/%s skip=000 D=1", pn[t[0]], pn[t[1]], pn[t[2]])
			scs = append(scs, scenarioF(name, "two-object blocks procs=1 blocks=14 D=1", simple14, 1, 1, t, 0))
		}
		if !r.Quick() {
			for _, m := range []mb{{1, 14}, {1, 16}, {2, 30}} {
				for _, t := range [][3]int{{7, 9, 4}, {10, 8, 3}} {
					name := fmt.Sprintf("grouped file procs=%d blocks=%d preds=%s/%s/%s skip=000 D=1", m.procs, m.blocks, pn[t[0]], pn[t[1]], pn[t[2]])
					scs = append(scs, scenarioF(name, fmt.Sprintf("grouped procs=%d blocks=%d D=1", m.procs, m.blocks), grouped[m.blocks], m.procs, 1, t, 0))
				}
			}
		}
		e := &vexplore.Explorer{R: r, Scenarios: scs}
		e.Run(budget)
	})
}
