//go:build verif

// C08, schedule part (Engine A): a filtered scan yields the filtered
// subsequence, unmodified, under every schedule with <= D deviations.
package main

import (
	"fmt"
	"time"

	"github.com/paulmach/osm"
	"github.com/paulmach/osm/osmpbf"
	"github.com/paulmach/osm/vsched"

	"verif/engine/pbfscen"
	"verif/engine/vexplore"
	"verif/gen/pbfgen"
	"verif/kit"
)

func scenario(procs, bound int, predName string, pred func(id int64) bool, skip int) vexplore.Scenario {
	file := pbfscen.File(3, true)
	enc := file.Encode()
	var want []osm.Object
	for _, o := range file.Expected() {
		switch e := o.(type) {
		case *osm.Node:
			if skip&1 == 0 && pred(int64(e.ID)) {
				want = append(want, o)
			}
		case *osm.Way:
			if skip&2 == 0 && pred(int64(e.ID)) {
				want = append(want, o)
			}
		case *osm.Relation:
			if skip&4 == 0 && pred(int64(e.ID)) {
				want = append(want, o)
			}
		}
	}
	name := fmt.Sprintf("filtered pipeline procs=%d pred=%s skip=%03b", procs, predName, skip)
	return vexplore.Scenario{Name: name, Family: fmt.Sprintf("filtered procs=%d D=%d", procs, bound), Bound: bound, MaxSteps: 100000, RacesAreFindings: true,
		New: func() (func(), func(*vsched.Outcome) ([]vexplore.Finding, string, bool)) {
			var col pbfscen.Collected
			var scanErr error
			main := func() {
				ctx, cancel := vsched.WithCancel(nil)
				defer cancel()
				rd := &pbfscen.Reader{Data: enc.Data, BlockOnly: true}
				s := osmpbf.New(ctx, rd, procs)
				s.SkipNodes, s.SkipWays, s.SkipRelations = skip&1 != 0, skip&2 != 0, skip&4 != 0
				s.FilterNode = func(n *osm.Node) bool { vsched.Yield("filter"); return pred(int64(n.ID)) }
				s.FilterWay = func(w *osm.Way) bool { vsched.Yield("filter"); return pred(int64(w.ID)) }
				s.FilterRelation = func(rl *osm.Relation) bool { vsched.Yield("filter"); return pred(int64(rl.ID)) }
				for s.Scan() {
					col.Take(s.Object(), want)
					if len(col.Objects) > len(want)+4 {
						break
					}
				}
				scanErr = s.Err()
				s.Close()
			}
			check := func(o *vsched.Outcome) ([]vexplore.Finding, string, bool) {
				var fs []vexplore.Finding
				add := func(k, m string) { fs = append(fs, vexplore.Finding{Key: "schedule/" + k, Msg: m}) }
				tag := fmt.Sprint(pbfgen.IDs(col.Objects))
				if o.Kind != "ok" {
					add(o.Kind, o.Detail)
					return fs, tag, true
				}
				if len(col.Objects) > len(want) {
					add("extra-objects", fmt.Sprintf("delivered %v, want %v", pbfgen.IDs(col.Objects), pbfgen.IDs(want)))
				} else if k, m := col.Judge(want, true); k != "" {
					add(k, m)
				}
				if scanErr != nil {
					add("scan-error", scanErr.Error())
				}
				return fs, tag, o.Threads > 3 && len(want) > 0
			}
			return main, check
		}}
}

func main() {
	kit.Main("C08", "exploration", func(r *kit.Run) {
		r.Rule("schedule part: 3-block file (dense, ways, relations; two elements each) x predicate in {even ids, odd ids} x skip-flag sets {none, nodes, ways+relations} x procs x every schedule with <= D deviations of the instrumented pipeline; filters yield per element")
		r.Assume("vinst's rewrite preserves behaviour; sequentially consistent scheduler")
		var scs []vexplore.Scenario
		type pd struct{ p, d int }
		cfg := []pd{{1, 1}, {2, 2}}
		budget := 5 * time.Minute
		if !r.Quick() {
			cfg = []pd{{1, 2}, {2, 3}, {3, 2}}
			budget = 30 * time.Minute
		}
		even := func(id int64) bool { return id%2 == 0 }
		odd := func(id int64) bool { return id%2 != 0 }
		for _, c := range cfg {
			for _, skip := range []int{0, 1, 6} {
				scs = append(scs, scenario(c.p, c.d, "even", even, skip), scenario(c.p, c.d, "odd", odd, skip))
			}
		}
		e := &vexplore.Explorer{R: r, Scenarios: scs}
		e.Run(budget)
	})
}
