// C19: replication state lookup by time terminates with the first state at or
// after t.
//
// Bounded-exhaustive check of replication.{Minute,Hour,Day,Changeset}StateAt
// (and the state / data fetchers they are built on) against an in-process
// planet server (verif/gen/fakehttp). See DESIGN.md "C19".
package main

import (
	"bytes"
	"compress/gzip"
	"context"
	"errors"
	"fmt"
	"net/http"
	"os"
	"sort"
	"strings"
	"sync"
	"sync/atomic"
	"time"

	"github.com/paulmach/osm"
	"github.com/paulmach/osm/replication"

	"verif/gen/fakehttp"
	"verif/kit"
)

// Case is one evaluated case; it is also the replay format.
type Case struct {
	Family string `json:"family"` // small | large | fault | url
	Kind   int    `json:"kind"`   // 0 minute, 1 hour, 2 day, 3 changesets
	N      int    `json:"n,omitempty"`

	// small and fault families
	Mask uint64 `json:"mask,omitempty"` // bit s-1 <=> state s exists
	Q    int    `json:"q"`              // small/fault: query position 0..2N; large: target sequence number

	// large family
	GapStart int `json:"gap_start,omitempty"`
	GapLen   int `json:"gap_len,omitempty"`
	DT       int `json:"dt,omitempty"` // seconds added to ts(Q)
	// SubNs: nanoseconds added to the query time (small family, at a state's
	// time): a query a fraction of a second after state k asks for state k+1
	SubNs int64 `json:"sub_ns,omitempty"`

	// fault family
	FaultAt   int `json:"fault_at,omitempty"`   // 1-based request index that fails
	FaultKind int `json:"fault_kind,omitempty"` // 0 = status 500, 1 = transport error

	// url family
	Seq     uint64 `json:"seq,omitempty"`
	AltBase bool   `json:"alt_base,omitempty"`
	Op      string `json:"op,omitempty"` // state | data | current

	// second family: before the judged lookup the SAME Datasource performs a
	// lookup (position PrevQ) while the server has only published the states up
	// to PrevUpTo; then the rest appears. Nothing of the first lookup may stick.
	PrevUpTo int `json:"prev_up_to,omitempty"`
	PrevQ    int `json:"prev_q,omitempty"`

	// Via: how the library is entered. "" = a Datasource literal with its own
	// client; "new" = replication.NewDatasource(client); "pkg" = the package
	// level functions (DefaultDatasource, whose client's transport is replaced
	// for the duration of the case); "nilclient" = a Datasource without a
	// Client, which falls back on DefaultDatasource.Client.
	Via string `json:"via,omitempty"`
	// Stamp (url family, ops state and current): index into specialStamps, the
	// time written into the state file; 0 = the directory's own clock
	Stamp int `json:"stamp,omitempty"`

	// informational (ignored on replay)
	Present string `json:"present,omitempty"`
	Time    string `json:"time,omitempty"`
}

func (c Case) fingerprint() string {
	return fmt.Sprintf("%s|%d|%d|%x|%d|%d|%d|%d|%d|%d|%d|%v|%s|%d|%d|%d|%s|%d", c.Family, c.Kind, c.N, c.Mask, c.Q,
		c.GapStart, c.GapLen, c.DT, c.FaultAt, c.FaultKind, c.Seq, c.AltBase, c.Op, c.PrevUpTo, c.PrevQ, c.SubNs, c.Via, c.Stamp)
}

func (c Case) dir() *dir {
	d := &dir{Kind: c.Kind, N: c.N, Mask: c.Mask}
	if c.Family == "large" {
		d.Large, d.GapStart, d.GapLen = true, c.GapStart, c.GapLen
	}
	if c.AltBase {
		d.Base = customBase
	}
	return d
}

// Far query positions of the small family, outside 0..2N: times that no state
// is near, at the ends of what the usual integer clocks can hold.
const (
	qZeroTime   = -1 // time.Time{}: year 1
	qBefore1970 = -2 // 1 ns before the Unix epoch: negative Unix time
	qAfter2262  = -3 // the first midnight that no longer fits int64 nanoseconds since 1970
	qYear9999   = -4 // the last nanosecond time.RFC3339 can print
)

var farQs = []int{qZeroTime, qBefore1970, qAfter2262, qYear9999}

// queryZones: the query time is handed over as the same instant in different
// time zones (a pure function of the case; an instant is an instant).
var queryZones = []*time.Location{time.UTC, time.FixedZone("", 5*3600+1800), time.FixedZone("", -8*3600)}

// queryTime of a small-family position: 0 = one second before state 1 was
// written, 2k-1 = exactly when state k was written, 2k = one second later
// (that is between k and k+1, or after the last one for k = N). Positions use
// the nominal times of all sequence numbers, present or not. Negative
// positions are the far times above.
func (c Case) queryTime(d *dir) time.Time {
	z := queryZones[(uint64(c.Q+8)+c.Mask+uint64(c.GapStart)+uint64(c.DT+1))%uint64(len(queryZones))]
	return c.queryInstant(d).In(z)
}

func (c Case) queryInstant(d *dir) time.Time {
	if c.Family == "large" {
		return d.ts(c.Q).Add(time.Duration(c.DT)*time.Second + time.Duration(c.SubNs))
	}
	switch c.Q {
	case qZeroTime:
		return time.Time{}
	case qBefore1970:
		return time.Unix(0, -1)
	case qAfter2262:
		return time.Date(2262, 4, 12, 0, 0, 0, 0, time.UTC)
	case qYear9999:
		return time.Date(9999, 12, 31, 23, 59, 59, 999999999, time.UTC)
	case 0:
		return d.ts(1).Add(-time.Second)
	}
	k := (c.Q + 1) / 2
	if c.Q%2 == 1 {
		return d.ts(k).Add(time.Duration(c.SubNs))
	}
	return d.ts(k).Add(time.Second)
}

func (c Case) annotate(d *dir) Case {
	if !d.Large {
		var p []string
		for s := 1; s <= d.N; s++ {
			if d.present(s) {
				p = append(p, fmt.Sprint(s))
			}
		}
		c.Present = "{" + strings.Join(p, ",") + "} of 1.." + fmt.Sprint(d.N)
	} else {
		c.Present = fmt.Sprintf("1..%d without %d..%d", d.N, d.GapStart, d.GapStart+d.GapLen-1)
	}
	if c.Family != "url" {
		c.Time = c.queryTime(d).Format(time.RFC3339Nano)
	}
	return c
}

const (
	faultStatus500 = iota
	faultTransport
	// faultCancel: the caller's context is cancelled while request FaultAt is
	// being answered (that request still gets its answer); FaultAt == 0: the
	// context is already cancelled when the lookup is called. Every later
	// request made with the caller's context fails in the transport, as it does
	// in net/http.
	faultCancel
	nFaultKinds
)

var faultName = [nFaultKinds]string{"status-500", "transport-error", "context-cancelled"}
var errInjected = errors.New("fakehttp: injected transport failure")

// result of one search run against the fake server.
type result struct {
	Seq       uint64
	State     *replication.State
	Err       error
	Reqs      []fakehttp.Request
	Exhausted bool
	Hung      bool
	Panic     string
	BadReq    string // first request that is not a GET of a well-formed state URL
	// faultCancel only: a request made after the cancellation reached the
	// server, i.e. it was not made with the caller's context
	AnsweredAfterCancel bool
}

const watchdog = 60 * time.Second

// hangs counts lookups that the watchdog had to give up on (confirmed). Their
// goroutines keep spinning, so the enumeration stops after a few of them.
var hangs int64

const maxHangs = 3

// skip reports whether the enumeration has to stop (time cap or hangs).
func skip(r *kit.Run) bool {
	if atomic.LoadInt64(&hangs) >= maxHangs {
		capOnce.Do(func() { r.Capped("lookups hang without making requests; stopped after 3 confirmed cases") })
		return true
	}
	if r.TimeUp() {
		capOnce.Do(func() { r.Capped("driver time cap reached") })
		return true
	}
	return false
}

var capOnce sync.Once

// runSearch performs one lookup. budget bounds the number of answered
// requests; faultAt > 0 makes that request fail.
func runSearch(d *dir, t time.Time, budget, faultAt, faultKind int) result {
	return runSearchAfter("", nil, time.Time{}, d, t, budget, faultAt, faultKind)
}

type switchRT struct{ cur http.RoundTripper }

func (s *switchRT) RoundTrip(req *http.Request) (*http.Response, error) { return s.cur.RoundTrip(req) }

// defaultMu serialises the cases that enter the library through
// replication.DefaultDatasource (process-wide state).
var defaultMu sync.Mutex

// withDefaultTransport runs f while the DefaultDatasource's client sends
// everything through rt.
func withDefaultTransport(rt http.RoundTripper, f func()) {
	defaultMu.Lock()
	defer defaultMu.Unlock()
	c := replication.DefaultDatasource.Client
	old := c.Transport
	c.Transport = rt
	defer func() { c.Transport = old }()
	f()
}

// datasourceFor builds the entry point of a case; nil means the package level
// functions. global reports whether DefaultDatasource's transport has to be
// replaced while the case runs.
func datasourceFor(via, base string, client *http.Client) (ds *replication.Datasource, global bool) {
	switch via {
	case "new":
		ds = replication.NewDatasource(client)
		ds.BaseURL = base
		return ds, false
	case "pkg":
		if base != "" {
			kit.Fatalf("the package level functions have no base URL")
		}
		return nil, true
	case "nilclient":
		return &replication.Datasource{BaseURL: base}, true
	case "":
		return &replication.Datasource{BaseURL: base, Client: client}, false
	}
	kit.Fatalf("unknown via %q", via)
	return nil, false
}

// lookup calls the StateAt function of the directory's kind (ds == nil: the
// package level function).
func lookup(ctx context.Context, ds *replication.Datasource, kind int, t time.Time) (uint64, *replication.State, error) {
	if ds == nil {
		switch kind {
		case kMinute:
			n, st, err := replication.MinuteStateAt(ctx, t)
			return uint64(n), st, err
		case kHour:
			n, st, err := replication.HourStateAt(ctx, t)
			return uint64(n), st, err
		case kDay:
			n, st, err := replication.DayStateAt(ctx, t)
			return uint64(n), st, err
		}
		n, st, err := replication.ChangesetStateAt(ctx, t)
		return uint64(n), st, err
	}
	switch kind {
	case kMinute:
		n, st, err := ds.MinuteStateAt(ctx, t)
		return uint64(n), st, err
	case kHour:
		n, st, err := ds.HourStateAt(ctx, t)
		return uint64(n), st, err
	case kDay:
		n, st, err := ds.DayStateAt(ctx, t)
		return uint64(n), st, err
	}
	n, st, err := ds.ChangesetStateAt(ctx, t)
	return uint64(n), st, err
}

// runSearchAfter: with warm != nil the same Datasource (and http.Client) first
// bodyChunks: the response bodies arrive in one piece, byte by byte, and in pieces of 7 and
// 19 bytes in turn (by request number) - a state file is small, yet nothing says that the
// network hands it over in one Read.
var bodyChunks = []int{0, 1, 7, 19}

// looks up warmT in the directory warm (what the server had published so far);
// its outcome is not judged, its requests are not counted.
func runSearchAfter(via string, warm *dir, warmT time.Time, dJudged *dir, t time.Time, budget, faultAt, faultKind int) result {
	var res result
	tr := &fakehttp.Transport{Budget: budget, BodyChunks: bodyChunks}
	d := dJudged
	ctx, cancel := context.WithCancel(context.Background())
	defer cancel()
	cancelled := false // only touched by the (sequential) requests of the judged lookup
	if faultKind == faultCancel && faultAt == 0 {
		cancel()
		cancelled = true
		faultAt = -1
	}
	serve := func(d *dir, n int, req *http.Request, res *result) (fakehttp.Response, bool) {
		u := req.URL.String()
		seq, current, ok := d.parseStateURL(u)
		if !ok || req.Method != http.MethodGet {
			if res.BadReq == "" {
				res.BadReq = req.Method + " " + u
			}
			return fakehttp.Response{Status: 404}, true
		}
		if cancelled && d == dJudged {
			res.AnsweredAfterCancel = true
		}
		if n == faultAt && d == dJudged && faultKind == faultCancel {
			cancel()
			cancelled = true
		} else if n == faultAt && d == dJudged {
			if faultKind == faultTransport {
				return fakehttp.Response{Err: errInjected}, true
			}
			return fakehttp.Response{Status: 500, Body: []byte("internal server error\n")}, true
		}
		if current {
			s := d.newest()
			return fakehttp.Response{Body: stateBody(d.Kind, uint64(s), d.ts(s))}, true
		}
		if seq > uint64(d.N) || !d.present(int(seq)) {
			return fakehttp.Response{Status: 404, Body: []byte("<html>404 Not Found</html>\n")}, true
		}
		return fakehttp.Response{Body: stateBodyNumbered(d.Kind, seq, d.ts(int(seq)), true)}, true
	}
	tr.Handler = func(n int, req *http.Request) (fakehttp.Response, bool) { return serve(d, n, req, &res) }
	sw := &switchRT{cur: tr}
	client := tr.Client()
	client.Transport = sw
	ds, global := datasourceFor(via, d.Base, client)
	if global {
		// the whole case, watchdog included, runs under the lock
		withDefaultTransport(sw, func() { runSearchOn(ctx, ds, sw, tr, serve, warm, warmT, d, t, budget, &res) })
		return res
	}
	runSearchOn(ctx, ds, sw, tr, serve, warm, warmT, d, t, budget, &res)
	return res
}

func runSearchOn(ctx context.Context, ds *replication.Datasource, sw *switchRT, tr *fakehttp.Transport,
	serve func(*dir, int, *http.Request, *result) (fakehttp.Response, bool),
	warm *dir, warmT time.Time, d *dir, t time.Time, budget int, res *result) {
	if warm != nil {
		wtr := &fakehttp.Transport{Budget: budget, BodyChunks: bodyChunks}
		var wres result
		wtr.Handler = func(n int, req *http.Request) (fakehttp.Response, bool) { return serve(warm, n, req, &wres) }
		sw.cur = wtr
		wdone := make(chan struct{})
		go func() {
			defer func() { recover(); close(wdone) }()
			lookup(context.Background(), ds, warm.Kind, warmT)
		}()
		select {
		case <-wdone:
		case <-time.After(watchdog):
			res.Hung = true
			return
		}
		sw.cur = tr
	}

	type out struct {
		seq uint64
		st  *replication.State
		err error
		pan string
	}
	done := make(chan out, 1)
	go func() {
		var o out
		defer func() {
			if p := recover(); p != nil {
				o.pan = fmt.Sprint(p)
			}
			done <- o
		}()
		o.seq, o.st, o.err = lookup(ctx, ds, d.Kind, t)
	}()
	timer := time.NewTimer(watchdog)
	select {
	case o := <-done:
		timer.Stop()
		res.Seq, res.State, res.Err, res.Panic = o.seq, o.st, o.err, o.pan
	case <-timer.C:
		res.Hung = true
	}
	res.Reqs = tr.Requests()
	res.Exhausted = tr.Exhausted()
}

func trace(reqs []fakehttp.Request, d *dir, max int) string {
	var b []string
	for i, q := range reqs {
		if i == max {
			b = append(b, fmt.Sprintf("... (%d requests)", len(reqs)))
			break
		}
		if seq, cur, ok := d.parseStateURL(q.URL); ok && q.Method == "GET" {
			if cur {
				b = append(b, "cur")
			} else {
				b = append(b, fmt.Sprint(seq))
			}
		} else {
			b = append(b, q.String())
		}
	}
	return strings.Join(b, " ")
}

// cycleClass names the way a lookup that used up its request budget went
// round in circles, from the tail of its request log:
//
//	gap-next-to-lower-bound  it keeps asking for the same run of missing files
//	                         downwards and then for the existing state right
//	                         below them (the search's lower bound)
//	gap-next-to-upper-bound  the same upwards, ending at an existing state
//	reprobe-cycle            any other endlessly repeated request sequence
//	no-cycle                 the tail does not repeat
func cycleClass(reqs []fakehttp.Request, d *dir) string {
	ids := make([]int64, len(reqs))
	for i, q := range reqs {
		seq, cur, ok := d.parseStateURL(q.URL)
		switch {
		case !ok:
			ids[i] = -2
		case cur:
			ids[i] = -1
		default:
			ids[i] = int64(seq)
		}
	}
	n := len(ids)
	for p := 1; 3*p <= n; p++ {
		periodic := true
		for i := n - 1; i >= n-2*p; i-- {
			if ids[i] != ids[i-p] {
				periodic = false
				break
			}
		}
		if !periodic {
			continue
		}
		cyc := ids[n-p:]
		lo, hi := cyc[0], cyc[0]
		seen := map[int64]bool{}
		for _, v := range cyc {
			seen[v] = true
			if v < lo {
				lo = v
			}
			if v > hi {
				hi = v
			}
		}
		if p < 2 || lo < 1 || len(seen) != p || hi-lo+1 != int64(p) {
			return "reprobe-cycle"
		}
		var present []int64
		for v := lo; v <= hi; v++ {
			if d.present(int(v)) {
				present = append(present, v)
			}
		}
		if len(present) == 1 && present[0] == lo {
			return "gap-next-to-lower-bound"
		}
		if len(present) == 1 && present[0] == hi {
			return "gap-next-to-upper-bound"
		}
		return "reprobe-cycle"
	}
	return "no-cycle"
}

func ceilLog2(n int) int {
	k := 0
	for 1<<uint(k) < n {
		k++
	}
	return k
}

// budgetFor is the request budget of DESIGN.md.
func budgetFor(c Case) int {
	if c.Family == "large" {
		l := ceilLog2(c.N)
		if c.longLeadingGap() {
			// the run of missing files is (much) longer than any search should
			// walk: the budget only has to tell a search that ends from one that
			// does not. (l+2)^2 covers a bisection that starts over from 1 every
			// time it has found a closer state.
			return 10 + 4*l + (l+2)*(l+2)
		}
		return 10 + 4*l + c.GapLen*(l+2)
	}
	return 10*c.N + 20
}

// longLeadingGap: large family, the directory's first state is far from 1
// (everything below it is missing, as on the planet's changesets directory).
func (c Case) longLeadingGap() bool {
	return c.Family == "large" && c.GapStart == 1 && c.GapLen > gapLens[len(gapLens)-1]
}

// checkSearch judges one fault-free lookup (small and large families).
func checkSearch(r *kit.Run, c Case) {
	d := c.dir()
	t := c.queryTime(d)
	want := d.answer(t)
	nontrivial := d.count() >= 2 && !t.After(d.ts(d.newest()))
	r.Case(c.fingerprint(), nontrivial)
	r.Add("searches_"+c.Family, 1)

	budget := budgetFor(c)
	var warm *dir
	var warmT time.Time
	if c.PrevUpTo > 0 {
		warm = c.dir()
		warm.Mask &= 1<<uint(c.PrevUpTo) - 1
		pc := c
		pc.Q = c.PrevQ
		warmT = pc.queryTime(warm)
	}
	res := runSearchAfter(c.Via, warm, warmT, d, t, budget, 0, 0)
	r.Add("requests_total", int64(len(res.Reqs)))
	if c.Via != "" {
		r.Add("searches_via_"+c.Via, 1)
	}
	if c.longLeadingGap() {
		r.Add("searches_large_first_state_far_from_1", 1)
	}
	sit := d.situation(t)
	ac := c.annotate(d)
	if r.WantSample() && nontrivial {
		r.Sample(map[string]interface{}{"case": ac, "want_seq": want, "got_seq": res.Seq,
			"requests": trace(res.Reqs, d, 40), "budget": budget})
	}
	desc := fmt.Sprintf("%s states %s, t=%s (%s)", kindDir[c.Kind], ac.Present, ac.Time, sit)
	second := ""
	if c.Via != "" {
		desc += ", entered via " + c.Via
	}
	if warm != nil {
		desc += fmt.Sprintf(", second lookup of one Datasource (first: position %d while only the states up to %d were published)", c.PrevQ, c.PrevUpTo)
		second = "/second-lookup-on-one-datasource"
	}

	if res.Hung {
		// last resort: no verdict from the request budget. Confirm once.
		res2 := runSearchAfter(c.Via, warm, warmT, d, t, budget, 0, 0)
		if res2.Hung {
			atomic.AddInt64(&hangs, 1)
			viol(r, "nonterminating/no-requests/"+sit,
				fmt.Sprintf("%s: no result after %v and only %d requests (confirmed by a second run); requests: %s",
					desc, watchdog, len(res2.Reqs), trace(res2.Reqs, d, 30)), ac)
			return
		}
		res = res2
	}
	if res.Panic != "" {
		viol(r, "panic/"+sit, fmt.Sprintf("%s: panic %s", desc, res.Panic), ac)
		return
	}
	if res.BadReq != "" {
		viol(r, "request-url/search/"+kindDir[c.Kind],
			fmt.Sprintf("%s: request %q is not a GET of %s<nnn>/<nnn>/<nnn>.state.txt or %s", desc, res.BadReq, d.prefix(), d.stateURL(0)), ac)
		return
	}
	if res.Exhausted {
		cyc := cycleClass(res.Reqs, d)
		if c.longLeadingGap() && cyc == "no-cycle" {
			// the property allows a search to step over the missing files (here
			// thousands to millions); more requests than the quadratic budget
			// without going round in circles is not decided by it
			r.Add("over_budget_below_long_leading_gap_not_judged", 1)
			return
		}
		if c.Family == "large" && cyc == "no-cycle" {
			// beyond the logarithmic budget without going round in circles:
			// linear stepping (or an endless search that never repeats itself)
			r.Add("over_budget", 1)
			viol(r, "request-count/"+sit,
				fmt.Sprintf("%s: no result within %d requests = 10+4*ceil(log2 N)+gap*(ceil(log2 N)+2), and the requests do not repeat; requests: %s",
					desc, budget, trace(res.Reqs, d, 60)), ac)
			return
		}
		r.Add("nonterminating", 1)
		viol(r, "nonterminating/"+cyc,
			fmt.Sprintf("%s: no termination within %d requests; requests: %s", desc, budget, trace(res.Reqs, d, 40)), ac)
		return
	}
	if res.Err != nil {
		viol(r, "unexpected-error/"+sit, fmt.Sprintf("%s: error %v, want state %d; requests: %s", desc, res.Err, want, trace(res.Reqs, d, 40)), ac)
		return
	}
	if res.State == nil {
		viol(r, "nil-state/"+sit, fmt.Sprintf("%s: nil state without error, want state %d", desc, want), ac)
		return
	}
	if res.State.SeqNum != uint64(want) {
		r.Add("wrong_state", 1)
		// how the wrong answer came about: was the state that should have been
		// returned ever requested? (a search that gives up never asks for it, a
		// wrong comparison asks for it and then returns another one)
		how := "wanted-state-never-requested"
		for _, q := range res.Reqs {
			if seq, cur, ok := d.parseStateURL(q.URL); ok && !cur && seq == uint64(want) {
				how = "wanted-state-requested"
			}
		}
		if res.State.SeqNum < uint64(want) {
			how += "-answer-too-early"
		} else {
			how += "-answer-too-late"
		}
		// the recorded findBound give-up defect gets its own key, and only when
		// the answer is exactly the one that defect produces for this input
		how += second
		if g, ok := d.knownGiveUp(t); ok && uint64(g) == res.State.SeqNum {
			// the same defect, whether or not the Datasource was used before
			how = "findBound-gives-up-and-returns-its-upper-bound"
		}
		viol(r, "wrong-state/"+sit+"/"+how,
			fmt.Sprintf("%s: got state %d, want %d; requests: %s", desc, res.State.SeqNum, want, trace(res.Reqs, d, 40)), ac)
		return
	}
	if res.Seq != res.State.SeqNum {
		viol(r, "decode/returned-seqnum/"+kindDir[c.Kind],
			fmt.Sprintf("%s: returned sequence number %d but state.SeqNum %d", desc, res.Seq, res.State.SeqNum), ac)
		return
	}
	if what := stateMismatch(c.Kind, res.State, uint64(want), d.ts(want)); what != "" {
		viol(r, "decode/"+kindDir[c.Kind]+"-state", fmt.Sprintf("%s: state %d decoded wrongly: %s", desc, want, what), ac)
	}
}

// stateMismatch compares a decoded state with the model's values.
func stateMismatch(kind int, st *replication.State, seq uint64, t time.Time) string {
	if st.SeqNum != seq {
		return fmt.Sprintf("SeqNum %d, want %d", st.SeqNum, seq)
	}
	if !st.Timestamp.Equal(t) {
		return fmt.Sprintf("Timestamp %s, want %s", st.Timestamp.Format(time.RFC3339Nano), t.Format(time.RFC3339Nano))
	}
	if kind != kChangesets {
		if st.TxnMax != txnMax(seq) || st.TxnMaxQueried != txnMaxQueried(seq) {
			return fmt.Sprintf("TxnMax %d TxnMaxQueried %d, want %d %d", st.TxnMax, st.TxnMaxQueried, txnMax(seq), txnMaxQueried(seq))
		}
	}
	return ""
}

// checkFaultBase runs the fault-free lookup of base and then, for every
// request index it used (up to maxK) and every fault kind, the same lookup
// with that request failing.
func checkFaultBase(r *kit.Run, base Case, maxK int) {
	d := base.dir()
	t := base.queryTime(d)
	res := runSearch(d, t, budgetFor(base), 0, 0)
	if res.Hung {
		return // judged in the small family
	}
	k := len(res.Reqs)
	if k > maxK {
		k = maxK
	}
	for at := 0; at <= k; at++ {
		for fk := 0; fk < nFaultKinds; fk++ {
			if at == 0 && fk != faultCancel {
				continue // only a context can fail before the first request
			}
			c := base
			c.FaultAt, c.FaultKind = at, fk
			checkFault(r, c)
		}
	}
}

// checkCancel judges a lookup whose context was cancelled while request
// FaultAt was answered (0: before the call). A request made with the caller's
// context after that fails in the transport like any other transport error, so
// the fault clause applies to it: the lookup ends with an error after at most
// one further request. Whether the library has to make its requests with the
// caller's context at all, and what a lookup returns whose last request was
// the one during which the cancellation happened, the property does not say:
// both are counted, not judged.
func checkCancel(r *kit.Run, c Case, d *dir, res result, desc string, ac Case) {
	key := faultName[faultCancel]
	switch {
	case res.Hung:
		viol(r, "error-propagation/hang/"+key, desc+": no result within the watchdog time", ac)
	case res.Panic != "":
		viol(r, "error-propagation/panic/"+key, desc+": panic "+res.Panic, ac)
	case res.Exhausted:
		viol(r, "nonterminating/after-"+key, fmt.Sprintf("%s: no termination within %d requests; requests: %s", desc, budgetFor(c), trace(res.Reqs, d, 40)), ac)
	case res.AnsweredAfterCancel:
		r.Add("cancel_request_made_without_the_callers_context_not_judged", 1)
	case len(res.Reqs) == c.FaultAt && c.FaultAt > 0:
		r.Add("cancel_during_last_request_not_judged", 1)
	case res.Err == nil:
		viol(r, "error-propagation/swallowed/"+key,
			fmt.Sprintf("%s: request %d failed (context cancelled) but the lookup returned state %d without an error; requests: %s", desc, c.FaultAt+1, res.Seq, trace(res.Reqs, d, 40)), ac)
	case len(res.Reqs) > c.FaultAt+2:
		viol(r, "error-propagation/late/"+key,
			fmt.Sprintf("%s: %d further requests after the first one that failed (error: %v); requests: %s", desc, len(res.Reqs)-c.FaultAt-1, res.Err, trace(res.Reqs, d, 40)), ac)
	default:
		r.Add("cancel_observed_and_reported", 1)
	}
}

func checkFault(r *kit.Run, c Case) {
	d := c.dir()
	t := c.queryTime(d)
	r.Case(c.fingerprint(), c.FaultAt > 1)
	r.Add("searches_fault", 1)
	res := runSearch(d, t, budgetFor(c), c.FaultAt, c.FaultKind)
	r.Add("requests_total", int64(len(res.Reqs)))
	ac := c.annotate(d)
	which := "numbered-state-request"
	if c.FaultAt >= 1 && c.FaultAt <= len(res.Reqs) {
		if _, cur, ok := d.parseStateURL(res.Reqs[c.FaultAt-1].URL); ok && cur {
			which = "current-state-request"
		}
	}
	desc := fmt.Sprintf("%s states %s, t=%s, request %d fails with %s", kindDir[c.Kind], ac.Present, ac.Time, c.FaultAt, faultName[c.FaultKind])
	if len(res.Reqs) < c.FaultAt && !res.Hung {
		r.Add("fault_not_reached", 1) // the run was not deterministic?
		viol(r, "harness/fault-not-reached", desc+": the faulted request was never made although the fault-free run made it", ac)
		return
	}
	if c.FaultKind == faultCancel {
		desc = fmt.Sprintf("%s states %s, t=%s, context cancelled while request %d is answered (0 = before the call)", kindDir[c.Kind], ac.Present, ac.Time, c.FaultAt)
		checkCancel(r, c, d, res, desc, ac)
		return
	}
	switch {
	case res.Hung:
		viol(r, "error-propagation/hang/"+faultName[c.FaultKind], desc+": no result within the watchdog time", ac)
	case res.Panic != "":
		viol(r, "error-propagation/panic/"+faultName[c.FaultKind], desc+": panic "+res.Panic, ac)
	case res.Err == nil:
		viol(r, "error-propagation/swallowed/"+faultName[c.FaultKind]+"/"+which,
			fmt.Sprintf("%s: the lookup returned state %d without an error; requests: %s", desc, res.Seq, trace(res.Reqs, d, 40)), ac)
	case len(res.Reqs) > c.FaultAt+1:
		viol(r, "error-propagation/late/"+faultName[c.FaultKind]+"/"+which,
			fmt.Sprintf("%s: %d further requests after the failure (error: %v); requests: %s", desc, len(res.Reqs)-c.FaultAt, res.Err, trace(res.Reqs, d, 40)), ac)
	}
}

// 999999999 is the last sequence number the nine-digit layout holds (what
// comes after it the planet has not defined: not enumerated); 2007990 is the
// planet's first changeset state file
var urlSeqs = []uint64{1, 999, 1000, 1001, 999999, 1000000, 1001000, 2007990, 123456789, 999999999}

func gz(s string) []byte {
	var b bytes.Buffer
	w := gzip.NewWriter(&b)
	w.Write([]byte(s))
	w.Close()
	return b.Bytes()
}

var changeBody = gz(`<?xml version="1.0" encoding="UTF-8"?>
<osmChange version="0.6" generator="fake">
 <create><node id="42" version="1" timestamp="2016-01-01T00:00:00Z" uid="1" user="u" changeset="7" lat="1.5" lon="2.5"/></create>
</osmChange>
`)

var changesetsBody = gz(`<?xml version="1.0" encoding="UTF-8"?>
<osm license="http://opendatacommons.org/licenses/odbl/1-0/" version="0.6" generator="fake">
 <changeset id="77" created_at="2016-01-01T00:00:00Z" closed_at="2016-01-01T00:00:01Z" open="false" num_changes="1" user="u" uid="1" min_lat="1" max_lat="2" min_lon="3" max_lon="4" comments_count="0"/>
</osm>
`)

// specialStamps are the times written into the state file of a url-family case
// (Stamp > 0): calendar and clock boundaries, and for changeset states (the
// only ones with a fraction) the widths of the nanosecond field.
var specialStamps = []time.Time{
	{}, // 0: the directory's own clock
	time.Date(2012, 2, 29, 23, 59, 59, 999999999, time.UTC), // leap day, last nanosecond
	time.Date(2038, 1, 19, 3, 14, 8, 1, time.UTC),           // 2^31 s after 1970, 1 ns
	time.Date(2000, 1, 1, 0, 0, 0, 0, time.UTC),             // every clock field zero, no fraction
	time.Date(2106, 2, 7, 6, 28, 16, 100000000, time.UTC),   // 2^32 s after 1970, trailing zeros
	time.Date(2001, 2, 3, 4, 5, 6, 7, time.UTC),             // one-digit fields
}

func stampFor(kind, i int) time.Time {
	t := specialStamps[i]
	if kind != kChangesets {
		t = t.Truncate(time.Second) // interval state files carry whole seconds
	}
	return t
}

// The library's entry points by kind; ds == nil: the package level functions.

func fetchState(ctx context.Context, ds *replication.Datasource, kind int, seq uint64) (*replication.State, error) {
	if ds == nil {
		switch kind {
		case kMinute:
			return replication.MinuteState(ctx, replication.MinuteSeqNum(seq))
		case kHour:
			return replication.HourState(ctx, replication.HourSeqNum(seq))
		case kDay:
			return replication.DayState(ctx, replication.DaySeqNum(seq))
		}
		return replication.ChangesetState(ctx, replication.ChangesetSeqNum(seq))
	}
	switch kind {
	case kMinute:
		return ds.MinuteState(ctx, replication.MinuteSeqNum(seq))
	case kHour:
		return ds.HourState(ctx, replication.HourSeqNum(seq))
	case kDay:
		return ds.DayState(ctx, replication.DaySeqNum(seq))
	}
	return ds.ChangesetState(ctx, replication.ChangesetSeqNum(seq))
}

func fetchCurrent(ctx context.Context, ds *replication.Datasource, kind int) (uint64, *replication.State, error) {
	if ds == nil {
		switch kind {
		case kMinute:
			n, st, err := replication.CurrentMinuteState(ctx)
			return uint64(n), st, err
		case kHour:
			n, st, err := replication.CurrentHourState(ctx)
			return uint64(n), st, err
		case kDay:
			n, st, err := replication.CurrentDayState(ctx)
			return uint64(n), st, err
		}
		n, st, err := replication.CurrentChangesetState(ctx)
		return uint64(n), st, err
	}
	switch kind {
	case kMinute:
		n, st, err := ds.CurrentMinuteState(ctx)
		return uint64(n), st, err
	case kHour:
		n, st, err := ds.CurrentHourState(ctx)
		return uint64(n), st, err
	case kDay:
		n, st, err := ds.CurrentDayState(ctx)
		return uint64(n), st, err
	}
	n, st, err := ds.CurrentChangesetState(ctx)
	return uint64(n), st, err
}

// fetchData returns a summary of the decoded data file.
func fetchData(ctx context.Context, ds *replication.Datasource, kind int, seq uint64) (string, error) {
	if kind == kChangesets {
		var cs osm.Changesets
		var err error
		if ds == nil {
			cs, err = replication.Changesets(ctx, replication.ChangesetSeqNum(seq))
		} else {
			cs, err = ds.Changesets(ctx, replication.ChangesetSeqNum(seq))
		}
		if err != nil {
			return "", err
		}
		data := fmt.Sprintf("%d changesets", len(cs))
		if len(cs) == 1 {
			data += fmt.Sprintf(" id %d", cs[0].ID)
		}
		return data, nil
	}
	var ch *osm.Change
	var err error
	switch {
	case ds == nil && kind == kMinute:
		ch, err = replication.Minute(ctx, replication.MinuteSeqNum(seq))
	case ds == nil && kind == kHour:
		ch, err = replication.Hour(ctx, replication.HourSeqNum(seq))
	case ds == nil:
		ch, err = replication.Day(ctx, replication.DaySeqNum(seq))
	case kind == kMinute:
		ch, err = ds.Minute(ctx, replication.MinuteSeqNum(seq))
	case kind == kHour:
		ch, err = ds.Hour(ctx, replication.HourSeqNum(seq))
	default:
		ch, err = ds.Day(ctx, replication.DaySeqNum(seq))
	}
	if err != nil {
		return "", err
	}
	var nodes, others int
	var id int64
	if ch != nil && ch.Create != nil {
		nodes, others = len(ch.Create.Nodes), len(ch.Create.Ways)+len(ch.Create.Relations)
		if nodes == 1 {
			id = int64(ch.Create.Nodes[0].ID)
		}
	}
	return fmt.Sprintf("%d created nodes, %d others, id %d", nodes, others, id), nil
}

// checkURL: one direct fetch against a table holding exactly the one URL the
// planet layout prescribes; anything else is a 404.
func checkURL(r *kit.Run, c Case) {
	d := c.dir()
	r.Case(c.fingerprint(), true)
	r.Add("url_cases", 1)
	if c.Via != "" {
		r.Add("url_cases_via_"+c.Via, 1)
	}
	var wantURL string
	var body []byte
	when := d.ts(int(c.Seq % 100000))
	if c.Stamp > 0 {
		when = stampFor(c.Kind, c.Stamp)
		r.Add("url_cases_special_stamp", 1)
	}
	switch c.Op {
	case "state":
		wantURL = d.stateURL(c.Seq)
		body = stateBodyNumbered(c.Kind, c.Seq, when, true)
	case "current":
		wantURL = d.stateURL(0)
		body = stateBody(c.Kind, c.Seq, when)
	case "data":
		wantURL = d.dataURL(c.Seq)
		body = changeBody
		if c.Kind == kChangesets {
			body = changesetsBody
		}
	default:
		kit.Fatalf("url family: unknown op %q", c.Op)
	}
	tr := &fakehttp.Transport{Budget: 5, Table: map[string]fakehttp.Response{fakehttp.Key("GET", wantURL): {Body: body}}}
	ds, global := datasourceFor(c.Via, d.Base, tr.Client())
	ctx := context.Background()
	var (
		st   *replication.State
		err  error
		seq  uint64
		data string
	)
	call := func() {
		defer func() {
			if p := recover(); p != nil {
				err = fmt.Errorf("panic: %v", p)
			}
		}()
		switch c.Op {
		case "state":
			st, err = fetchState(ctx, ds, c.Kind, c.Seq)
			seq = c.Seq
		case "current":
			seq, st, err = fetchCurrent(ctx, ds, c.Kind)
		case "data":
			data, err = fetchData(ctx, ds, c.Kind, c.Seq)
		}
	}
	if global {
		withDefaultTransport(tr, call)
	} else {
		call()
	}
	reqs := tr.Requests()
	var got []string
	for _, q := range reqs {
		got = append(got, q.String())
	}
	key := "request-url/" + c.Op + "/" + kindDir[c.Kind]
	desc := fmt.Sprintf("%s %s of sequence %d with base %q", kindDir[c.Kind], c.Op, c.Seq, d.Base)
	if c.Via != "" {
		desc += ", entered via " + c.Via
	}
	if c.Stamp > 0 {
		desc += ", file stamped " + when.Format(time.RFC3339Nano)
	}
	if len(reqs) != 1 || reqs[0].Method != "GET" || reqs[0].URL != wantURL {
		what := ""
		if err != nil {
			what = fmt.Sprintf(" (error: %v)", err)
		}
		viol(r, key, fmt.Sprintf("%s: requests %v, want exactly [GET %s]%s", desc, got, wantURL, what), c)
		return
	}
	if err != nil {
		viol(r, "decode/"+c.Op+"/"+kindDir[c.Kind], fmt.Sprintf("%s: error %v for a well-formed file", desc, err), c)
		return
	}
	switch c.Op {
	case "state":
		if what := stateMismatch(c.Kind, st, c.Seq, when); what != "" {
			viol(r, "decode/state/"+kindDir[c.Kind], fmt.Sprintf("%s: %s", desc, what), c)
		}
	case "current":
		// the file is the state file of sequence c.Seq
		if what := stateMismatch(c.Kind, st, c.Seq, when); what != "" {
			viol(r, "decode/current/"+kindDir[c.Kind], fmt.Sprintf("%s: %s", desc, what), c)
		} else if seq != c.Seq {
			viol(r, "decode/current/"+kindDir[c.Kind], fmt.Sprintf("%s: returned sequence number %d, want %d", desc, seq, c.Seq), c)
		}
	case "data":
		want := "1 created nodes, 0 others, id 42"
		if c.Kind == kChangesets {
			want = "1 changesets id 77"
		}
		if data != want {
			viol(r, "decode/data/"+kindDir[c.Kind], fmt.Sprintf("%s: decoded %q, want %q", desc, data, want), c)
		}
	}
}

// ---- enumeration ----

// smallCases: far selects the far query times (year 1, just before 1970, past
// 2262, year 9999) on top of the positions 0..2N; nsBefore the kinds that are
// also asked 1 ns BEFORE every sequence number's time (changeset states carry
// nanoseconds, so that is where a nanosecond decides; all kinds when thorough).
func smallCases(n int, via string, far bool, nsBefore func(kind int) bool) []Case {
	var cs []Case
	for kind := 0; kind < nKinds; kind++ {
		for mask := uint64(1); mask < 1<<uint(n); mask++ {
			if far {
				for _, q := range farQs {
					cs = append(cs, Case{Family: "small", Kind: kind, N: n, Mask: mask, Q: q, Via: via})
				}
			}
			for q := 0; q <= 2*n; q++ {
				cs = append(cs, Case{Family: "small", Kind: kind, N: n, Mask: mask, Q: q, Via: via})
				if q%2 == 1 {
					// a fraction of a second after state (q+1)/2 was written
					cs = append(cs, Case{Family: "small", Kind: kind, N: n, Mask: mask, Q: q, SubNs: 500000000, Via: via},
						Case{Family: "small", Kind: kind, N: n, Mask: mask, Q: q, SubNs: 1, Via: via})
					if nsBefore != nil && nsBefore(kind) {
						cs = append(cs, Case{Family: "small", Kind: kind, N: n, Mask: mask, Q: q, SubNs: -1, Via: via})
					}
				}
			}
		}
	}
	return cs
}

// secondCases: every presence pattern over 1..n x every split point m (the
// server had published the states up to m when the first lookup ran; at least
// one of them exists and at least one later state exists) x first lookups at
// the old newest state's time and after it x every query position of the
// second lookup from the old newest state on.
func secondCases(n int) []Case {
	var cs []Case
	for kind := 0; kind < nKinds; kind++ {
		for mask := uint64(1); mask < 1<<uint(n); mask++ {
			for m := 1; m < n; m++ {
				old := mask & (1<<uint(m) - 1)
				if old == 0 || mask>>uint(m) == 0 {
					continue
				}
				for _, pq := range []int{2*m - 1, 2 * m, 2 * n} {
					for q := 2*m - 1; q <= 2*n; q++ {
						cs = append(cs, Case{Family: "second", Kind: kind, N: n, Mask: mask, Q: q, PrevUpTo: m, PrevQ: pq})
					}
				}
			}
		}
	}
	return cs
}

// bisectPath lists the sequence numbers a plain bisection of 1..n looks at on
// its way to q, plus the ends and q itself.
func bisectPath(n, q int) []int {
	seen := map[int]bool{}
	var p []int
	add := func(v int) {
		if v >= 1 && v <= n && !seen[v] {
			seen[v] = true
			p = append(p, v)
		}
	}
	add(1)
	add(n)
	lo, hi := 1, n
	for lo+1 < hi {
		m := (lo + hi) / 2
		add(m)
		if q > m {
			lo = m
		} else {
			hi = m
		}
	}
	add(q)
	sort.Ints(p)
	return p
}

func largeTargets(n int, quick bool) []int {
	ts := []int{1, 2, 3, n / 3, n / 2, n/2 + 1, n - 1, n}
	if !quick {
		ts = append(ts, 4, 5, 6, 7, 8, 9, n/4, n/4+1, 3*n/4, 3*n/4+1, 2*n/3, n/5, n/7, 5*n/7, n/2-1, n/2+2, n-2, n-3, n-5, n/8, 7*n/8, n/16+1)
	}
	if n > 2007995 {
		ts = []int{1, 2007000, 2007988, 2007989, 2007990, 2007991, n - 1}
	}
	seen := map[int]bool{}
	var out []int
	for _, t := range ts {
		if t >= 1 && t <= n && !seen[t] {
			seen[t] = true
			out = append(out, t)
		}
	}
	return out
}

// 2,100,000 reaches past the sequence numbers the library has constants for (the
// planet's changeset state files start at 2,007,990): a directory may still hold older states
var largeNs = []int{1000, 65537, 2000000, 2100000}
var gapLens = []int{1, 2, 5}

// leadingGapCases: large directories whose first state is far from 1 (all files
// below it are missing, everything from it on exists), as on the planet's
// changesets directory whose first state file is 2,007,990. First states: next
// to what a bisection of 1..N looks at first (N/2, N/4 ...), 1000, the planet's
// number, and the last but one; targets: sequence number 1 (long before the
// first state), the first state and its neighbour, half way, the end.
func leadingGapCases(quick bool) []Case {
	var cs []Case
	for _, n := range []int{65537, 2100000} {
		firsts := []int{1000, n/2 + 1, n/2 + 2, n - 1}
		if n > 2007990 {
			firsts = append(firsts, 2007990)
		}
		if !quick {
			firsts = append(firsts, 7, 8, 9, 100, n/2, n/4, n/4+1, n/4+2, 3*n/4+1, 3*n/4+2, n/8+1, 7*n/8+1, n-2, n/3, 2*n/3)
		}
		seenF := map[int]bool{}
		for _, f := range firsts {
			if f < 7 || f >= n || seenF[f] {
				continue
			}
			seenF[f] = true
			seenQ := map[int]bool{}
			for _, q := range []int{1, f - 1, f, f + 1, f + 2, (f + n) / 2, n - 1, n} {
				if q < 1 || q > n || seenQ[q] {
					continue
				}
				seenQ[q] = true
				for kind := 0; kind < nKinds; kind++ {
					for dt := -1; dt <= 1; dt++ {
						cs = append(cs, Case{Family: "large", Kind: kind, N: n, Q: q, DT: dt, GapStart: 1, GapLen: f - 1})
					}
				}
			}
		}
	}
	return cs
}

func largeCases(quick bool) []Case {
	var cs []Case
	for _, n := range largeNs {
		for _, q := range largeTargets(n, quick) {
			type gap struct{ s, l int }
			seen := map[gap]bool{}
			var gaps []gap
			for _, p := range bisectPath(n, q) {
				for _, l := range gapLens {
					for s := p - l; s <= p+1; s++ {
						g := gap{s, l}
						// the newest state n stays: it is the current one
						if s < 1 || s+l-1 > n-1 || seen[g] {
							continue
						}
						seen[g] = true
						gaps = append(gaps, g)
					}
				}
			}
			for _, g := range gaps {
				for kind := 0; kind < nKinds; kind++ {
					for dt := -1; dt <= 1; dt++ {
						cs = append(cs, Case{Family: "large", Kind: kind, N: n, Q: q, DT: dt, GapStart: g.s, GapLen: g.l})
					}
				}
			}
		}
	}
	return cs
}

func urlCases() []Case {
	var cs []Case
	for kind := 0; kind < nKinds; kind++ {
		for _, alt := range []bool{false, true} {
			for _, s := range urlSeqs {
				cs = append(cs, Case{Family: "url", Kind: kind, Seq: s, AltBase: alt, Op: "state"})
				cs = append(cs, Case{Family: "url", Kind: kind, Seq: s, AltBase: alt, Op: "data"})
			}
			cs = append(cs, Case{Family: "url", Kind: kind, Seq: 4321, AltBase: alt, Op: "current"})
			cs = append(cs, Case{Family: "url", Kind: kind, Seq: 4322, AltBase: alt, Op: "current"})
			// the other ways into the library
			for _, via := range []string{"new", "pkg", "nilclient"} {
				if via == "pkg" && alt {
					continue // the package level functions use the default base
				}
				for _, s := range []uint64{1000, 123456789} {
					cs = append(cs, Case{Family: "url", Kind: kind, Seq: s, AltBase: alt, Op: "state", Via: via})
					// Minute / Hour / Day (the data files) on a Datasource without a
					// Client: found by the boundary audit (fetchIntervalData called
					// ds.Client.Do and panicked with a nil pointer), repaired in /repo
					// ("fix: replication: interval data requests fall back ...")
					cs = append(cs, Case{Family: "url", Kind: kind, Seq: s, AltBase: alt, Op: "data", Via: via})
				}
				cs = append(cs, Case{Family: "url", Kind: kind, Seq: 4321, AltBase: alt, Op: "current", Via: via})
			}
		}
		// calendar / clock / fraction-width boundaries of the stamp in the file
		for i := 1; i < len(specialStamps); i++ {
			cs = append(cs, Case{Family: "url", Kind: kind, Seq: 4320 + uint64(i), Op: "state", Stamp: i})
			cs = append(cs, Case{Family: "url", Kind: kind, Seq: 4320 + uint64(i), Op: "current", Stamp: i})
		}
	}
	return cs
}

func main() {
	kit.Main("C19", "fault_enumeration", func(r *kit.Run) {
		r.Rule("small family: every non-empty presence pattern of state files over sequence numbers 1..N (newest present = current; " +
			"timestamps strictly increasing) x every query position (before state 1, at each sequence number's time, 1 ns and 500 ms after it, 1 s after it) x " +
			"{minute,hour,day,changesets}; large family: N in {1000,65537,2000000}, all states present except one run of 1/2/5 missing files " +
			"placed on or next to every sequence number a plain bisection towards the target looks at, query at the target's time and +-1 s; " +
			"second family: every presence pattern over 1..5 (7 thorough) x every split point (states up to m published when a first lookup ran on the SAME Datasource, the rest published afterwards) x every later query position; " +
			"fault family: every request index of every lookup over 1..Nf fails once with a 500 and once with a transport error; " +
			"url family: direct state/data/current fetches at fixed sequence numbers (9-digit layout boundaries up to 999999999) with default and custom base URL, " +
			"entered through a Datasource literal, NewDatasource, the package level functions and a Datasource without Client; state files stamped at calendar / 2^31 s / 2^32 s / fraction-width boundaries. " +
			"Boundary classes inside the families: query times also at year 1, 1 ns before 1970, past 2262 and year 9999 (small family, every pattern) and 1 ns before every state (changesets; all kinds thorough), " +
			"handed over in three time zones; interval state files in four planet layouts by sequence number (osmosis key order, reversed key order, osmdbt without transaction keys, merged files with zero / empty values) with transaction ids beyond 2^31 and 2^32, " +
			"stamps with non-zero seconds and minutes; changeset stamps with fractions 0, 1 ns, 999999999 ns, trailing zeros; " +
			"large directories whose first state is far from 1 (65537 / 2.1 M numbers, everything below the first state missing, e.g. 2,007,990); the small family again over 1..4 (5) entered through NewDatasource and the package level functions; " +
			"fault kind context-cancelled (before the call and while each request is answered). " +
			"A lookup is non-trivial when at least two states exist and t is not after the newest (the answer is not forced); " +
			"a faulted lookup when the failing request is not the first; fingerprint = all case fields.")
		r.Assume("net/http client plumbing, compress/gzip and package time are trusted; the in-process transport verif/gen/fakehttp stands in for the planet server")
		r.Assume("timestamps only enter the search through comparisons, so one strictly increasing assignment per kind (second resolution for minute/hour/day, nanoseconds for changesets) with query times at, 1 s before and 1 s after the states covers every ordering")
		r.Assume("not judged because the property text does not decide them (counted where they can occur, otherwise not enumerated): whether requests carry the caller's context; the result of a lookup cancelled during its last request; " +
			"more than 10+4L+(L+2)^2 requests (L = ceil(log2 N)) without repetition below a first state that is thousands to millions of numbers from 1; state files that are not in a planet layout " +
			"(CRLF, no final newline, leading zeros, missing keys, empty or cut bodies, timestamps without the planet's spelling); statuses other than 200 / 404 / 500 (403, 410: is the file missing?); redirects; sequence numbers of more than nine digits; base URLs ending in a slash")
		r.Assume("termination is decided by a request budget (10N+20 small; 10+4*ceil(log2 N)+gap*(ceil(log2 N)+2) large), not by time: past it every request fails. " +
			"A lookup that used up the budget is reported as nonterminating/<how its request log repeats>, or in the large family, when the log does not repeat, as request-count/... " +
			"A 60 s watchdog only guards against loops that make no requests; it is confirmed by one re-run, and the run stops (capped) after 3 such cases")

		if r.ReplayPath != "" {
			var c Case
			r.LoadReplay(&c)
			switch c.Family {
			case "small", "large", "second":
				checkSearch(r, c)
			case "fault":
				checkFault(r, c)
			case "url":
				checkURL(r, c)
			default:
				kit.Fatalf("replay: unknown family %q", c.Family)
			}
			return
		}

		nSmall := r.Pick(10, 13)
		nFault := r.Pick(6, 8)
		maxK := r.Pick(12, 16)
		if v := os.Getenv("C19_NSMALL"); v != "" {
			fmt.Sscan(v, &nSmall)
		}
		r.Set("small_N", nSmall)
		r.Set("fault_N", nFault)
		r.Set("fault_max_request_index", maxK)
		r.Set("large_N", largeNs)

		us := urlCases()
		r.Par(len(us), func(i int) {
			if !skip(r) {
				checkURL(r, us[i])
			}
		})

		nsBefore := func(kind int) bool { return kind == kChangesets || !r.Quick() }
		small := smallCases(nSmall, "", true, nsBefore)
		// the same lookups entered through NewDatasource and through the package
		// level functions (one process-wide DefaultDatasource: serialised)
		for _, via := range []string{"new", "pkg"} {
			small = append(small, smallCases(r.Pick(4, 5), via, true, nil)...)
		}
		r.Set("cases_small", len(small))
		r.Par(len(small), func(i int) {
			if !skip(r) {
				checkSearch(r, small[i])
			}
		})

		second := secondCases(r.Pick(5, 7))
		r.Set("cases_second_lookup_same_datasource", len(second))
		r.Par(len(second), func(i int) {
			if !skip(r) {
				checkSearch(r, second[i])
			}
		})

		large := largeCases(r.Quick())
		lead := leadingGapCases(r.Quick())
		r.Set("cases_large_first_state_far_from_1", len(lead))
		large = append(large, lead...)
		r.Set("cases_large", len(large))
		r.Par(len(large), func(i int) {
			if !skip(r) {
				checkSearch(r, large[i])
			}
		})

		fb := smallCases(nFault, "", false, nil)
		r.Set("fault_base_cases", len(fb))
		r.Par(len(fb), func(i int) {
			if skip(r) {
				return
			}
			b := fb[i]
			b.Family = "fault"
			checkFaultBase(r, b, maxK)
		})
	})
}

// viol reports a violation and counts it per key in the evidence.
func viol(r *kit.Run, key, what string, replay interface{}) {
	r.Add("violations["+key+"]", 1)
	r.Violation(key, what, replay)
}
