// C19: replication state lookup by time terminates with the first state at or
// after t.
//
// Bounded-exhaustive check of replication.{Minute,Hour,Day,Changeset}StateAt
// (and the state / data fetchers they are built on) against an in-process
// planet server (verif/gen/fakehttp). See DESIGN.md "C19".
package main

import (
	"bytes"
	"compress/gzip"
	"context"
	"errors"
	"fmt"
	"net/http"
	"os"
	"sort"
	"strings"
	"sync"
	"sync/atomic"
	"time"

	"github.com/paulmach/osm/replication"

	"verif/gen/fakehttp"
	"verif/kit"
)

// Case is one evaluated case; it is also the replay format.
type Case struct {
	Family string `json:"family"` // small | large | fault | url
	Kind   int    `json:"kind"`   // 0 minute, 1 hour, 2 day, 3 changesets
	N      int    `json:"n,omitempty"`

	// small and fault families
	Mask uint64 `json:"mask,omitempty"` // bit s-1 <=> state s exists
	Q    int    `json:"q"`              // small/fault: query position 0..2N; large: target sequence number

	// large family
	GapStart int `json:"gap_start,omitempty"`
	GapLen   int `json:"gap_len,omitempty"`
	DT       int `json:"dt,omitempty"` // seconds added to ts(Q)
	// SubNs: nanoseconds added to the query time (small family, at a state's
	// time): a query a fraction of a second after state k asks for state k+1
	SubNs int64 `json:"sub_ns,omitempty"`

	// fault family
	FaultAt   int `json:"fault_at,omitempty"`   // 1-based request index that fails
	FaultKind int `json:"fault_kind,omitempty"` // 0 = status 500, 1 = transport error

	// url family
	Seq     uint64 `json:"seq,omitempty"`
	AltBase bool   `json:"alt_base,omitempty"`
	Op      string `json:"op,omitempty"` // state | data | current

	// second family: before the judged lookup the SAME Datasource performs a
	// lookup (position PrevQ) while the server has only published the states up
	// to PrevUpTo; then the rest appears. Nothing of the first lookup may stick.
	PrevUpTo int `json:"prev_up_to,omitempty"`
	PrevQ    int `json:"prev_q,omitempty"`

	// informational (ignored on replay)
	Present string `json:"present,omitempty"`
	Time    string `json:"time,omitempty"`
}

func (c Case) fingerprint() string {
	return fmt.Sprintf("%s|%d|%d|%x|%d|%d|%d|%d|%d|%d|%d|%v|%s|%d|%d|%d", c.Family, c.Kind, c.N, c.Mask, c.Q,
		c.GapStart, c.GapLen, c.DT, c.FaultAt, c.FaultKind, c.Seq, c.AltBase, c.Op, c.PrevUpTo, c.PrevQ, c.SubNs)
}

func (c Case) dir() *dir {
	d := &dir{Kind: c.Kind, N: c.N, Mask: c.Mask}
	if c.Family == "large" {
		d.Large, d.GapStart, d.GapLen = true, c.GapStart, c.GapLen
	}
	if c.AltBase {
		d.Base = customBase
	}
	return d
}

// queryTime of a small-family position: 0 = one second before state 1 was
// written, 2k-1 = exactly when state k was written, 2k = one second later
// (that is between k and k+1, or after the last one for k = N). Positions use
// the nominal times of all sequence numbers, present or not.
func (c Case) queryTime(d *dir) time.Time {
	if c.Family == "large" {
		return d.ts(c.Q).Add(time.Duration(c.DT)*time.Second + time.Duration(c.SubNs))
	}
	if c.Q == 0 {
		return d.ts(1).Add(-time.Second)
	}
	k := (c.Q + 1) / 2
	if c.Q%2 == 1 {
		return d.ts(k).Add(time.Duration(c.SubNs))
	}
	return d.ts(k).Add(time.Second)
}

func (c Case) annotate(d *dir) Case {
	if !d.Large {
		var p []string
		for s := 1; s <= d.N; s++ {
			if d.present(s) {
				p = append(p, fmt.Sprint(s))
			}
		}
		c.Present = "{" + strings.Join(p, ",") + "} of 1.." + fmt.Sprint(d.N)
	} else {
		c.Present = fmt.Sprintf("1..%d without %d..%d", d.N, d.GapStart, d.GapStart+d.GapLen-1)
	}
	if c.Family != "url" {
		c.Time = c.queryTime(d).Format(time.RFC3339Nano)
	}
	return c
}

const (
	faultStatus500 = iota
	faultTransport
	nFaultKinds
)

var faultName = [nFaultKinds]string{"status-500", "transport-error"}
var errInjected = errors.New("fakehttp: injected transport failure")

// result of one search run against the fake server.
type result struct {
	Seq       uint64
	State     *replication.State
	Err       error
	Reqs      []fakehttp.Request
	Exhausted bool
	Hung      bool
	Panic     string
	BadReq    string // first request that is not a GET of a well-formed state URL
}

const watchdog = 60 * time.Second

// hangs counts lookups that the watchdog had to give up on (confirmed). Their
// goroutines keep spinning, so the enumeration stops after a few of them.
var hangs int64

const maxHangs = 3

// skip reports whether the enumeration has to stop (time cap or hangs).
func skip(r *kit.Run) bool {
	if atomic.LoadInt64(&hangs) >= maxHangs {
		capOnce.Do(func() { r.Capped("lookups hang without making requests; stopped after 3 confirmed cases") })
		return true
	}
	if r.TimeUp() {
		capOnce.Do(func() { r.Capped("driver time cap reached") })
		return true
	}
	return false
}

var capOnce sync.Once

// runSearch performs one lookup. budget bounds the number of answered
// requests; faultAt > 0 makes that request fail.
func runSearch(d *dir, t time.Time, budget, faultAt, faultKind int) result {
	return runSearchAfter(nil, time.Time{}, d, t, budget, faultAt, faultKind)
}

type switchRT struct{ cur http.RoundTripper }

func (s *switchRT) RoundTrip(req *http.Request) (*http.Response, error) { return s.cur.RoundTrip(req) }

// lookup calls the StateAt function of the directory's kind.
func lookup(ds *replication.Datasource, kind int, t time.Time) (uint64, *replication.State, error) {
	ctx := context.Background()
	switch kind {
	case kMinute:
		n, st, err := ds.MinuteStateAt(ctx, t)
		return uint64(n), st, err
	case kHour:
		n, st, err := ds.HourStateAt(ctx, t)
		return uint64(n), st, err
	case kDay:
		n, st, err := ds.DayStateAt(ctx, t)
		return uint64(n), st, err
	}
	n, st, err := ds.ChangesetStateAt(ctx, t)
	return uint64(n), st, err
}

// runSearchAfter: with warm != nil the same Datasource (and http.Client) first
// looks up warmT in the directory warm (what the server had published so far);
// its outcome is not judged, its requests are not counted.
func runSearchAfter(warm *dir, warmT time.Time, dJudged *dir, t time.Time, budget, faultAt, faultKind int) result {
	var res result
	tr := &fakehttp.Transport{Budget: budget}
	d := dJudged
	serve := func(d *dir, n int, req *http.Request, res *result) (fakehttp.Response, bool) {
		u := req.URL.String()
		seq, current, ok := d.parseStateURL(u)
		if !ok || req.Method != http.MethodGet {
			if res.BadReq == "" {
				res.BadReq = req.Method + " " + u
			}
			return fakehttp.Response{Status: 404}, true
		}
		if n == faultAt && d == dJudged {
			if faultKind == faultTransport {
				return fakehttp.Response{Err: errInjected}, true
			}
			return fakehttp.Response{Status: 500, Body: []byte("internal server error\n")}, true
		}
		if current {
			s := d.newest()
			return fakehttp.Response{Body: stateBody(d.Kind, uint64(s), d.ts(s))}, true
		}
		if seq > uint64(d.N) || !d.present(int(seq)) {
			return fakehttp.Response{Status: 404, Body: []byte("<html>404 Not Found</html>\n")}, true
		}
		return fakehttp.Response{Body: stateBodyNumbered(d.Kind, seq, d.ts(int(seq)), true)}, true
	}
	tr.Handler = func(n int, req *http.Request) (fakehttp.Response, bool) { return serve(d, n, req, &res) }
	sw := &switchRT{cur: tr}
	client := tr.Client()
	client.Transport = sw
	ds := &replication.Datasource{BaseURL: d.Base, Client: client}
	if warm != nil {
		wtr := &fakehttp.Transport{Budget: budget}
		var wres result
		wtr.Handler = func(n int, req *http.Request) (fakehttp.Response, bool) { return serve(warm, n, req, &wres) }
		sw.cur = wtr
		wdone := make(chan struct{})
		go func() {
			defer func() { recover(); close(wdone) }()
			lookup(ds, warm.Kind, warmT)
		}()
		select {
		case <-wdone:
		case <-time.After(watchdog):
			res.Hung = true
			return res
		}
		sw.cur = tr
	}

	type out struct {
		seq uint64
		st  *replication.State
		err error
		pan string
	}
	done := make(chan out, 1)
	go func() {
		var o out
		defer func() {
			if p := recover(); p != nil {
				o.pan = fmt.Sprint(p)
			}
			done <- o
		}()
		o.seq, o.st, o.err = lookup(ds, d.Kind, t)
	}()
	timer := time.NewTimer(watchdog)
	select {
	case o := <-done:
		timer.Stop()
		res.Seq, res.State, res.Err, res.Panic = o.seq, o.st, o.err, o.pan
	case <-timer.C:
		res.Hung = true
	}
	res.Reqs = tr.Requests()
	res.Exhausted = tr.Exhausted()
	return res
}

func trace(reqs []fakehttp.Request, d *dir, max int) string {
	var b []string
	for i, q := range reqs {
		if i == max {
			b = append(b, fmt.Sprintf("... (%d requests)", len(reqs)))
			break
		}
		if seq, cur, ok := d.parseStateURL(q.URL); ok && q.Method == "GET" {
			if cur {
				b = append(b, "cur")
			} else {
				b = append(b, fmt.Sprint(seq))
			}
		} else {
			b = append(b, q.String())
		}
	}
	return strings.Join(b, " ")
}

// cycleClass names the way a lookup that used up its request budget went
// round in circles, from the tail of its request log:
//
//	gap-next-to-lower-bound  it keeps asking for the same run of missing files
//	                         downwards and then for the existing state right
//	                         below them (the search's lower bound)
//	gap-next-to-upper-bound  the same upwards, ending at an existing state
//	reprobe-cycle            any other endlessly repeated request sequence
//	no-cycle                 the tail does not repeat
func cycleClass(reqs []fakehttp.Request, d *dir) string {
	ids := make([]int64, len(reqs))
	for i, q := range reqs {
		seq, cur, ok := d.parseStateURL(q.URL)
		switch {
		case !ok:
			ids[i] = -2
		case cur:
			ids[i] = -1
		default:
			ids[i] = int64(seq)
		}
	}
	n := len(ids)
	for p := 1; 3*p <= n; p++ {
		periodic := true
		for i := n - 1; i >= n-2*p; i-- {
			if ids[i] != ids[i-p] {
				periodic = false
				break
			}
		}
		if !periodic {
			continue
		}
		cyc := ids[n-p:]
		lo, hi := cyc[0], cyc[0]
		seen := map[int64]bool{}
		for _, v := range cyc {
			seen[v] = true
			if v < lo {
				lo = v
			}
			if v > hi {
				hi = v
			}
		}
		if p < 2 || lo < 1 || len(seen) != p || hi-lo+1 != int64(p) {
			return "reprobe-cycle"
		}
		var present []int64
		for v := lo; v <= hi; v++ {
			if d.present(int(v)) {
				present = append(present, v)
			}
		}
		if len(present) == 1 && present[0] == lo {
			return "gap-next-to-lower-bound"
		}
		if len(present) == 1 && present[0] == hi {
			return "gap-next-to-upper-bound"
		}
		return "reprobe-cycle"
	}
	return "no-cycle"
}

func ceilLog2(n int) int {
	k := 0
	for 1<<uint(k) < n {
		k++
	}
	return k
}

// budgetFor is the request budget of DESIGN.md.
func budgetFor(c Case) int {
	if c.Family == "large" {
		l := ceilLog2(c.N)
		return 10 + 4*l + c.GapLen*(l+2)
	}
	return 10*c.N + 20
}

// checkSearch judges one fault-free lookup (small and large families).
func checkSearch(r *kit.Run, c Case) {
	d := c.dir()
	t := c.queryTime(d)
	want := d.answer(t)
	nontrivial := d.count() >= 2 && !t.After(d.ts(d.newest()))
	r.Case(c.fingerprint(), nontrivial)
	r.Add("searches_"+c.Family, 1)

	budget := budgetFor(c)
	var warm *dir
	var warmT time.Time
	if c.PrevUpTo > 0 {
		warm = c.dir()
		warm.Mask &= 1<<uint(c.PrevUpTo) - 1
		pc := c
		pc.Q = c.PrevQ
		warmT = pc.queryTime(warm)
	}
	res := runSearchAfter(warm, warmT, d, t, budget, 0, 0)
	r.Add("requests_total", int64(len(res.Reqs)))
	sit := d.situation(t)
	ac := c.annotate(d)
	if r.WantSample() && nontrivial {
		r.Sample(map[string]interface{}{"case": ac, "want_seq": want, "got_seq": res.Seq,
			"requests": trace(res.Reqs, d, 40), "budget": budget})
	}
	desc := fmt.Sprintf("%s states %s, t=%s (%s)", kindDir[c.Kind], ac.Present, ac.Time, sit)
	second := ""
	if warm != nil {
		desc += fmt.Sprintf(", second lookup of one Datasource (first: position %d while only the states up to %d were published)", c.PrevQ, c.PrevUpTo)
		second = "/second-lookup-on-one-datasource"
	}

	if res.Hung {
		// last resort: no verdict from the request budget. Confirm once.
		res2 := runSearchAfter(warm, warmT, d, t, budget, 0, 0)
		if res2.Hung {
			atomic.AddInt64(&hangs, 1)
			viol(r, "nonterminating/no-requests/"+sit,
				fmt.Sprintf("%s: no result after %v and only %d requests (confirmed by a second run); requests: %s",
					desc, watchdog, len(res2.Reqs), trace(res2.Reqs, d, 30)), ac)
			return
		}
		res = res2
	}
	if res.Panic != "" {
		viol(r, "panic/"+sit, fmt.Sprintf("%s: panic %s", desc, res.Panic), ac)
		return
	}
	if res.BadReq != "" {
		viol(r, "request-url/search/"+kindDir[c.Kind],
			fmt.Sprintf("%s: request %q is not a GET of %s<nnn>/<nnn>/<nnn>.state.txt or %s", desc, res.BadReq, d.prefix(), d.stateURL(0)), ac)
		return
	}
	if res.Exhausted {
		cyc := cycleClass(res.Reqs, d)
		if c.Family == "large" && cyc == "no-cycle" {
			// beyond the logarithmic budget without going round in circles:
			// linear stepping (or an endless search that never repeats itself)
			r.Add("over_budget", 1)
			viol(r, "request-count/"+sit,
				fmt.Sprintf("%s: no result within %d requests = 10+4*ceil(log2 N)+gap*(ceil(log2 N)+2), and the requests do not repeat; requests: %s",
					desc, budget, trace(res.Reqs, d, 60)), ac)
			return
		}
		r.Add("nonterminating", 1)
		viol(r, "nonterminating/"+cyc,
			fmt.Sprintf("%s: no termination within %d requests; requests: %s", desc, budget, trace(res.Reqs, d, 40)), ac)
		return
	}
	if res.Err != nil {
		viol(r, "unexpected-error/"+sit, fmt.Sprintf("%s: error %v, want state %d; requests: %s", desc, res.Err, want, trace(res.Reqs, d, 40)), ac)
		return
	}
	if res.State == nil {
		viol(r, "nil-state/"+sit, fmt.Sprintf("%s: nil state without error, want state %d", desc, want), ac)
		return
	}
	if res.State.SeqNum != uint64(want) {
		r.Add("wrong_state", 1)
		// how the wrong answer came about: was the state that should have been
		// returned ever requested? (a search that gives up never asks for it, a
		// wrong comparison asks for it and then returns another one)
		how := "wanted-state-never-requested"
		for _, q := range res.Reqs {
			if seq, cur, ok := d.parseStateURL(q.URL); ok && !cur && seq == uint64(want) {
				how = "wanted-state-requested"
			}
		}
		if res.State.SeqNum < uint64(want) {
			how += "-answer-too-early"
		} else {
			how += "-answer-too-late"
		}
		// the recorded findBound give-up defect gets its own key, and only when
		// the answer is exactly the one that defect produces for this input
		how += second
		if g, ok := d.knownGiveUp(t); ok && uint64(g) == res.State.SeqNum {
			// the same defect, whether or not the Datasource was used before
			how = "findBound-gives-up-and-returns-its-upper-bound"
		}
		viol(r, "wrong-state/"+sit+"/"+how,
			fmt.Sprintf("%s: got state %d, want %d; requests: %s", desc, res.State.SeqNum, want, trace(res.Reqs, d, 40)), ac)
		return
	}
	if res.Seq != res.State.SeqNum {
		viol(r, "decode/returned-seqnum/"+kindDir[c.Kind],
			fmt.Sprintf("%s: returned sequence number %d but state.SeqNum %d", desc, res.Seq, res.State.SeqNum), ac)
		return
	}
	if what := stateMismatch(c.Kind, res.State, uint64(want), d.ts(want)); what != "" {
		viol(r, "decode/"+kindDir[c.Kind]+"-state", fmt.Sprintf("%s: state %d decoded wrongly: %s", desc, want, what), ac)
	}
}

// stateMismatch compares a decoded state with the model's values.
func stateMismatch(kind int, st *replication.State, seq uint64, t time.Time) string {
	if st.SeqNum != seq {
		return fmt.Sprintf("SeqNum %d, want %d", st.SeqNum, seq)
	}
	if !st.Timestamp.Equal(t) {
		return fmt.Sprintf("Timestamp %s, want %s", st.Timestamp.Format(time.RFC3339Nano), t.Format(time.RFC3339Nano))
	}
	if kind != kChangesets {
		if st.TxnMax != txnMax(seq) || st.TxnMaxQueried != txnMaxQueried(seq) {
			return fmt.Sprintf("TxnMax %d TxnMaxQueried %d, want %d %d", st.TxnMax, st.TxnMaxQueried, txnMax(seq), txnMaxQueried(seq))
		}
	}
	return ""
}

// checkFaultBase runs the fault-free lookup of base and then, for every
// request index it used (up to maxK) and every fault kind, the same lookup
// with that request failing.
func checkFaultBase(r *kit.Run, base Case, maxK int) {
	d := base.dir()
	t := base.queryTime(d)
	res := runSearch(d, t, budgetFor(base), 0, 0)
	if res.Hung {
		return // judged in the small family
	}
	k := len(res.Reqs)
	if k > maxK {
		k = maxK
	}
	for at := 1; at <= k; at++ {
		for fk := 0; fk < nFaultKinds; fk++ {
			c := base
			c.FaultAt, c.FaultKind = at, fk
			checkFault(r, c)
		}
	}
}

func checkFault(r *kit.Run, c Case) {
	d := c.dir()
	t := c.queryTime(d)
	r.Case(c.fingerprint(), c.FaultAt > 1)
	r.Add("searches_fault", 1)
	res := runSearch(d, t, budgetFor(c), c.FaultAt, c.FaultKind)
	r.Add("requests_total", int64(len(res.Reqs)))
	ac := c.annotate(d)
	which := "numbered-state-request"
	if c.FaultAt <= len(res.Reqs) {
		if _, cur, ok := d.parseStateURL(res.Reqs[c.FaultAt-1].URL); ok && cur {
			which = "current-state-request"
		}
	}
	desc := fmt.Sprintf("%s states %s, t=%s, request %d fails with %s", kindDir[c.Kind], ac.Present, ac.Time, c.FaultAt, faultName[c.FaultKind])
	if len(res.Reqs) < c.FaultAt && !res.Hung {
		r.Add("fault_not_reached", 1) // the run was not deterministic?
		viol(r, "harness/fault-not-reached", desc+": the faulted request was never made although the fault-free run made it", ac)
		return
	}
	switch {
	case res.Hung:
		viol(r, "error-propagation/hang/"+faultName[c.FaultKind], desc+": no result within the watchdog time", ac)
	case res.Panic != "":
		viol(r, "error-propagation/panic/"+faultName[c.FaultKind], desc+": panic "+res.Panic, ac)
	case res.Err == nil:
		viol(r, "error-propagation/swallowed/"+faultName[c.FaultKind]+"/"+which,
			fmt.Sprintf("%s: the lookup returned state %d without an error; requests: %s", desc, res.Seq, trace(res.Reqs, d, 40)), ac)
	case len(res.Reqs) > c.FaultAt+1:
		viol(r, "error-propagation/late/"+faultName[c.FaultKind]+"/"+which,
			fmt.Sprintf("%s: %d further requests after the failure (error: %v); requests: %s", desc, len(res.Reqs)-c.FaultAt, res.Err, trace(res.Reqs, d, 40)), ac)
	}
}

var urlSeqs = []uint64{1, 999, 1000, 999999, 1000000, 123456789}

func gz(s string) []byte {
	var b bytes.Buffer
	w := gzip.NewWriter(&b)
	w.Write([]byte(s))
	w.Close()
	return b.Bytes()
}

var changeBody = gz(`<?xml version="1.0" encoding="UTF-8"?>
<osmChange version="0.6" generator="fake">
 <create><node id="42" version="1" timestamp="2016-01-01T00:00:00Z" uid="1" user="u" changeset="7" lat="1.5" lon="2.5"/></create>
</osmChange>
`)

var changesetsBody = gz(`<?xml version="1.0" encoding="UTF-8"?>
<osm license="http://opendatacommons.org/licenses/odbl/1-0/" version="0.6" generator="fake">
 <changeset id="77" created_at="2016-01-01T00:00:00Z" closed_at="2016-01-01T00:00:01Z" open="false" num_changes="1" user="u" uid="1" min_lat="1" max_lat="2" min_lon="3" max_lon="4" comments_count="0"/>
</osm>
`)

// checkURL: one direct fetch against a table holding exactly the one URL the
// planet layout prescribes; anything else is a 404.
func checkURL(r *kit.Run, c Case) {
	d := c.dir()
	r.Case(c.fingerprint(), true)
	r.Add("url_cases", 1)
	var wantURL string
	var body []byte
	when := d.ts(int(c.Seq % 100000))
	switch c.Op {
	case "state":
		wantURL = d.stateURL(c.Seq)
		body = stateBodyNumbered(c.Kind, c.Seq, when, true)
	case "current":
		wantURL = d.stateURL(0)
		body = stateBody(c.Kind, c.Seq, when)
	case "data":
		wantURL = d.dataURL(c.Seq)
		body = changeBody
		if c.Kind == kChangesets {
			body = changesetsBody
		}
	}
	tr := &fakehttp.Transport{Budget: 5, Table: map[string]fakehttp.Response{fakehttp.Key("GET", wantURL): {Body: body}}}
	ds := &replication.Datasource{BaseURL: d.Base, Client: tr.Client()}
	ctx := context.Background()
	var (
		st   *replication.State
		err  error
		seq  uint64
		data string
	)
	func() {
		defer func() {
			if p := recover(); p != nil {
				err = fmt.Errorf("panic: %v", p)
			}
		}()
		switch c.Op {
		case "state":
			switch c.Kind {
			case kMinute:
				st, err = ds.MinuteState(ctx, replication.MinuteSeqNum(c.Seq))
			case kHour:
				st, err = ds.HourState(ctx, replication.HourSeqNum(c.Seq))
			case kDay:
				st, err = ds.DayState(ctx, replication.DaySeqNum(c.Seq))
			case kChangesets:
				st, err = ds.ChangesetState(ctx, replication.ChangesetSeqNum(c.Seq))
			}
			seq = c.Seq
		case "current":
			switch c.Kind {
			case kMinute:
				var n replication.MinuteSeqNum
				n, st, err = ds.CurrentMinuteState(ctx)
				seq = uint64(n)
			case kHour:
				var n replication.HourSeqNum
				n, st, err = ds.CurrentHourState(ctx)
				seq = uint64(n)
			case kDay:
				var n replication.DaySeqNum
				n, st, err = ds.CurrentDayState(ctx)
				seq = uint64(n)
			case kChangesets:
				var n replication.ChangesetSeqNum
				n, st, err = ds.CurrentChangesetState(ctx)
				seq = uint64(n)
			}
		case "data":
			if c.Kind == kChangesets {
				cs, e := ds.Changesets(ctx, replication.ChangesetSeqNum(c.Seq))
				err = e
				if e == nil {
					data = fmt.Sprintf("%d changesets", len(cs))
					if len(cs) == 1 {
						data += fmt.Sprintf(" id %d", cs[0].ID)
					}
				}
			} else {
				var e error
				var nodes, others int
				var id int64
				switch c.Kind {
				case kMinute:
					ch, e2 := ds.Minute(ctx, replication.MinuteSeqNum(c.Seq))
					e = e2
					if e2 == nil && ch != nil && ch.Create != nil {
						nodes, others = len(ch.Create.Nodes), len(ch.Create.Ways)+len(ch.Create.Relations)
						if nodes == 1 {
							id = int64(ch.Create.Nodes[0].ID)
						}
					}
				case kHour:
					ch, e2 := ds.Hour(ctx, replication.HourSeqNum(c.Seq))
					e = e2
					if e2 == nil && ch != nil && ch.Create != nil {
						nodes, others = len(ch.Create.Nodes), len(ch.Create.Ways)+len(ch.Create.Relations)
						if nodes == 1 {
							id = int64(ch.Create.Nodes[0].ID)
						}
					}
				case kDay:
					ch, e2 := ds.Day(ctx, replication.DaySeqNum(c.Seq))
					e = e2
					if e2 == nil && ch != nil && ch.Create != nil {
						nodes, others = len(ch.Create.Nodes), len(ch.Create.Ways)+len(ch.Create.Relations)
						if nodes == 1 {
							id = int64(ch.Create.Nodes[0].ID)
						}
					}
				}
				err = e
				if e == nil {
					data = fmt.Sprintf("%d created nodes, %d others, id %d", nodes, others, id)
				}
			}
		}
	}()
	reqs := tr.Requests()
	var got []string
	for _, q := range reqs {
		got = append(got, q.String())
	}
	key := "request-url/" + c.Op + "/" + kindDir[c.Kind]
	desc := fmt.Sprintf("%s %s of sequence %d with base %q", kindDir[c.Kind], c.Op, c.Seq, d.Base)
	if len(reqs) != 1 || reqs[0].Method != "GET" || reqs[0].URL != wantURL {
		viol(r, key, fmt.Sprintf("%s: requests %v, want exactly [GET %s]", desc, got, wantURL), c)
		return
	}
	if err != nil {
		viol(r, "decode/"+c.Op+"/"+kindDir[c.Kind], fmt.Sprintf("%s: error %v for a well-formed file", desc, err), c)
		return
	}
	switch c.Op {
	case "state":
		if what := stateMismatch(c.Kind, st, c.Seq, when); what != "" {
			viol(r, "decode/state/"+kindDir[c.Kind], fmt.Sprintf("%s: %s", desc, what), c)
		}
	case "current":
		// the file is the state file of sequence c.Seq
		if what := stateMismatch(c.Kind, st, c.Seq, when); what != "" {
			viol(r, "decode/current/"+kindDir[c.Kind], fmt.Sprintf("%s: %s", desc, what), c)
		} else if seq != c.Seq {
			viol(r, "decode/current/"+kindDir[c.Kind], fmt.Sprintf("%s: returned sequence number %d, want %d", desc, seq, c.Seq), c)
		}
	case "data":
		want := "1 created nodes, 0 others, id 42"
		if c.Kind == kChangesets {
			want = "1 changesets id 77"
		}
		if data != want {
			viol(r, "decode/data/"+kindDir[c.Kind], fmt.Sprintf("%s: decoded %q, want %q", desc, data, want), c)
		}
	}
}

// ---- enumeration ----

func smallCases(n int) []Case {
	var cs []Case
	for kind := 0; kind < nKinds; kind++ {
		for mask := uint64(1); mask < 1<<uint(n); mask++ {
			for q := 0; q <= 2*n; q++ {
				cs = append(cs, Case{Family: "small", Kind: kind, N: n, Mask: mask, Q: q})
				if q%2 == 1 {
					// a fraction of a second after state (q+1)/2 was written
					cs = append(cs, Case{Family: "small", Kind: kind, N: n, Mask: mask, Q: q, SubNs: 500000000},
						Case{Family: "small", Kind: kind, N: n, Mask: mask, Q: q, SubNs: 1})
				}
			}
		}
	}
	return cs
}

// secondCases: every presence pattern over 1..n x every split point m (the
// server had published the states up to m when the first lookup ran; at least
// one of them exists and at least one later state exists) x first lookups at
// the old newest state's time and after it x every query position of the
// second lookup from the old newest state on.
func secondCases(n int) []Case {
	var cs []Case
	for kind := 0; kind < nKinds; kind++ {
		for mask := uint64(1); mask < 1<<uint(n); mask++ {
			for m := 1; m < n; m++ {
				old := mask & (1<<uint(m) - 1)
				if old == 0 || mask>>uint(m) == 0 {
					continue
				}
				for _, pq := range []int{2*m - 1, 2 * m, 2 * n} {
					for q := 2*m - 1; q <= 2*n; q++ {
						cs = append(cs, Case{Family: "second", Kind: kind, N: n, Mask: mask, Q: q, PrevUpTo: m, PrevQ: pq})
					}
				}
			}
		}
	}
	return cs
}

// bisectPath lists the sequence numbers a plain bisection of 1..n looks at on
// its way to q, plus the ends and q itself.
func bisectPath(n, q int) []int {
	seen := map[int]bool{}
	var p []int
	add := func(v int) {
		if v >= 1 && v <= n && !seen[v] {
			seen[v] = true
			p = append(p, v)
		}
	}
	add(1)
	add(n)
	lo, hi := 1, n
	for lo+1 < hi {
		m := (lo + hi) / 2
		add(m)
		if q > m {
			lo = m
		} else {
			hi = m
		}
	}
	add(q)
	sort.Ints(p)
	return p
}

func largeTargets(n int, quick bool) []int {
	ts := []int{1, 2, 3, n / 3, n / 2, n/2 + 1, n - 1, n}
	if !quick {
		ts = append(ts, 4, 5, 6, 7, 8, 9, n/4, n/4+1, 3*n/4, 3*n/4+1, 2*n/3, n/5, n/7, 5*n/7, n/2-1, n/2+2, n-2, n-3, n-5, n/8, 7*n/8, n/16+1)
	}
	if n > 2007995 {
		ts = []int{1, 2007000, 2007988, 2007989, 2007990, 2007991, n - 1}
	}
	seen := map[int]bool{}
	var out []int
	for _, t := range ts {
		if t >= 1 && t <= n && !seen[t] {
			seen[t] = true
			out = append(out, t)
		}
	}
	return out
}

// 2,100,000 reaches past the sequence numbers the library has constants for (the
// planet's changeset state files start at 2,007,990): a directory may still hold older states
var largeNs = []int{1000, 65537, 2000000, 2100000}
var gapLens = []int{1, 2, 5}

func largeCases(quick bool) []Case {
	var cs []Case
	for _, n := range largeNs {
		for _, q := range largeTargets(n, quick) {
			type gap struct{ s, l int }
			seen := map[gap]bool{}
			var gaps []gap
			for _, p := range bisectPath(n, q) {
				for _, l := range gapLens {
					for s := p - l; s <= p+1; s++ {
						g := gap{s, l}
						// the newest state n stays: it is the current one
						if s < 1 || s+l-1 > n-1 || seen[g] {
							continue
						}
						seen[g] = true
						gaps = append(gaps, g)
					}
				}
			}
			for _, g := range gaps {
				for kind := 0; kind < nKinds; kind++ {
					for dt := -1; dt <= 1; dt++ {
						cs = append(cs, Case{Family: "large", Kind: kind, N: n, Q: q, DT: dt, GapStart: g.s, GapLen: g.l})
					}
				}
			}
		}
	}
	return cs
}

func urlCases() []Case {
	var cs []Case
	for kind := 0; kind < nKinds; kind++ {
		for _, alt := range []bool{false, true} {
			for _, s := range urlSeqs {
				cs = append(cs, Case{Family: "url", Kind: kind, Seq: s, AltBase: alt, Op: "state"})
				cs = append(cs, Case{Family: "url", Kind: kind, Seq: s, AltBase: alt, Op: "data"})
			}
			cs = append(cs, Case{Family: "url", Kind: kind, Seq: 4321, AltBase: alt, Op: "current"})
			cs = append(cs, Case{Family: "url", Kind: kind, Seq: 4322, AltBase: alt, Op: "current"})
		}
	}
	return cs
}

func main() {
	kit.Main("C19", "fault_enumeration", func(r *kit.Run) {
		r.Rule("small family: every non-empty presence pattern of state files over sequence numbers 1..N (newest present = current; " +
			"timestamps strictly increasing) x every query position (before state 1, at each sequence number's time, 1 ns and 500 ms after it, 1 s after it) x " +
			"{minute,hour,day,changesets}; large family: N in {1000,65537,2000000}, all states present except one run of 1/2/5 missing files " +
			"placed on or next to every sequence number a plain bisection towards the target looks at, query at the target's time and +-1 s; " +
			"second family: every presence pattern over 1..5 (7 thorough) x every split point (states up to m published when a first lookup ran on the SAME Datasource, the rest published afterwards) x every later query position; " +
			"fault family: every request index of every lookup over 1..Nf fails once with a 500 and once with a transport error; " +
			"url family: direct state/data/current fetches at fixed sequence numbers with default and custom base URL. " +
			"A lookup is non-trivial when at least two states exist and t is not after the newest (the answer is not forced); " +
			"a faulted lookup when the failing request is not the first; fingerprint = all case fields.")
		r.Assume("net/http client plumbing, compress/gzip and package time are trusted; the in-process transport verif/gen/fakehttp stands in for the planet server")
		r.Assume("timestamps only enter the search through comparisons, so one strictly increasing assignment per kind (second resolution for minute/hour/day, nanoseconds for changesets) with query times at, 1 s before and 1 s after the states covers every ordering")
		r.Assume("termination is decided by a request budget (10N+20 small; 10+4*ceil(log2 N)+gap*(ceil(log2 N)+2) large), not by time: past it every request fails. " +
			"A lookup that used up the budget is reported as nonterminating/<how its request log repeats>, or in the large family, when the log does not repeat, as request-count/... " +
			"A 60 s watchdog only guards against loops that make no requests; it is confirmed by one re-run, and the run stops (capped) after 3 such cases")

		if r.ReplayPath != "" {
			var c Case
			r.LoadReplay(&c)
			switch c.Family {
			case "small", "large", "second":
				checkSearch(r, c)
			case "fault":
				checkFault(r, c)
			case "url":
				checkURL(r, c)
			default:
				kit.Fatalf("replay: unknown family %q", c.Family)
			}
			return
		}

		nSmall := r.Pick(10, 13)
		nFault := r.Pick(6, 8)
		maxK := r.Pick(12, 16)
		if v := os.Getenv("C19_NSMALL"); v != "" {
			fmt.Sscan(v, &nSmall)
		}
		r.Set("small_N", nSmall)
		r.Set("fault_N", nFault)
		r.Set("fault_max_request_index", maxK)
		r.Set("large_N", largeNs)

		us := urlCases()
		r.Par(len(us), func(i int) {
			if !skip(r) {
				checkURL(r, us[i])
			}
		})

		small := smallCases(nSmall)
		r.Set("cases_small", len(small))
		r.Par(len(small), func(i int) {
			if !skip(r) {
				checkSearch(r, small[i])
			}
		})

		second := secondCases(r.Pick(5, 7))
		r.Set("cases_second_lookup_same_datasource", len(second))
		r.Par(len(second), func(i int) {
			if !skip(r) {
				checkSearch(r, second[i])
			}
		})

		large := largeCases(r.Quick())
		r.Set("cases_large", len(large))
		r.Par(len(large), func(i int) {
			if !skip(r) {
				checkSearch(r, large[i])
			}
		})

		fb := smallCases(nFault)
		r.Set("fault_base_cases", len(fb))
		r.Par(len(fb), func(i int) {
			if skip(r) {
				return
			}
			b := fb[i]
			b.Family = "fault"
			checkFaultBase(r, b, maxK)
		})
	})
}

// viol reports a violation and counts it per key in the evidence.
func viol(r *kit.Run, key, what string, replay interface{}) {
	r.Add("violations["+key+"]", 1)
	r.Violation(key, what, replay)
}
