// Stand-alone reproducer for the C19 findings: replication.MinuteStateAt against
// an in-process planet directory (public API only, no sockets).
//
//	cd /verif && . ./env.sh && go run ./props/c19/repro
package main

import (
	"context"
	"fmt"
	"io"
	"net/http"
	"os"
	"strings"
	"time"

	"github.com/paulmach/osm/replication"
)

var t0 = time.Date(2020, 1, 1, 0, 0, 0, 0, time.UTC)
var requests int

type planet map[string]string // URL path -> body; everything else is a 404

func (p planet) RoundTrip(r *http.Request) (*http.Response, error) {
	if requests++; requests > 40 {
		fmt.Println("... still going after 40 requests")
		os.Exit(1)
	}
	body, ok := p[r.URL.Path]
	code := map[bool]int{true: 200, false: 404}[ok]
	fmt.Println("GET", r.URL.Path, code)
	return &http.Response{StatusCode: code, Body: io.NopCloser(strings.NewReader(body))}, nil
}

func state(n int) string { // minute state n is written at t0 + n minutes
	ts := strings.ReplaceAll(t0.Add(time.Duration(n)*time.Minute).Format("2006-01-02T15:04:05Z"), ":", `\:`)
	return fmt.Sprintf("sequenceNumber=%d\ntimestamp=%s\n", n, ts)
}

func lookup(present []int, t time.Time) {
	requests = 0
	p := planet{"/replication/minute/state.txt": state(present[len(present)-1])}
	for _, n := range present {
		p[fmt.Sprintf("/replication/minute/000/000/%03d.state.txt", n)] = state(n)
	}
	ds := &replication.Datasource{Client: &http.Client{Transport: p}}
	n, _, err := ds.MinuteStateAt(context.Background(), t)
	fmt.Println("states", present, "t = t0 +", t.Sub(t0), "->", n, err)
}

func main() {
	at := func(min float64) time.Time { return t0.Add(time.Duration(min * float64(time.Minute))) }
	lookup([]int{1, 2, 3}, at(0.5)) // want 1, got 2
	lookup([]int{1, 2}, at(1.5))    // want 2, got 1
	lookup([]int{2, 3}, at(2.5))    // want 3, got 2 (state 1 missing)
	lookup([]int{2, 3, 4}, at(2))   // want 2, got 3 (t equals state 2)
	lookup([]int{2, 5}, at(0.5))    // want 2, got 5 (findBound jumps over state 2)
	lookup([]int{1, 3}, at(1.5))    // want 3, never returns
}
