package main

// The reference model of a planet-server replication directory: which state
// files exist, what they contain, where they live, and which state a lookup by
// time has to return. Nothing in this file calls the code under test.

import (
	"fmt"
	"math/bits"
	"strconv"
	"strings"
	"time"
)

const (
	kMinute = iota
	kHour
	kDay
	kChangesets
	nKinds
)

var kindDir = [nKinds]string{"minute", "hour", "day", "changesets"}
var kindStep = [nKinds]time.Duration{time.Minute, time.Hour, 24 * time.Hour, time.Minute}
var kindBase = [nKinds]time.Time{
	time.Date(2012, 9, 12, 8, 15, 0, 0, time.UTC),
	time.Date(2013, 7, 14, 12, 0, 0, 0, time.UTC),
	time.Date(2012, 9, 13, 0, 0, 0, 0, time.UTC),
	time.Date(2016, 9, 7, 10, 45, 2, 0, time.UTC),
}

const defaultBase = "https://planet.osm.org" // what an empty Datasource.BaseURL means
const customBase = "http://mirror.test:8080/osm/planet"

// dir is one replication directory over the sequence numbers 1..N.
type dir struct {
	Kind int
	N    int
	// small directories: bit s-1 of Mask set <=> state s exists
	Mask uint64
	// large directories (Large == true): every state exists except the run
	// GapStart .. GapStart+GapLen-1
	Large    bool
	GapStart int
	GapLen   int
	Base     string // base URL the datasource is configured with ("" = default)
}

func (d *dir) present(s int) bool {
	if s < 1 || s > d.N {
		return false
	}
	if d.Large {
		return s < d.GapStart || s >= d.GapStart+d.GapLen
	}
	return d.Mask>>(uint(s)-1)&1 == 1
}

// newest is the highest existing state: the server's "current" state.
func (d *dir) newest() int {
	if d.Large {
		for s := d.N; s >= 1; s-- {
			if d.present(s) {
				return s
			}
		}
		return 0
	}
	return bits.Len64(d.Mask)
}

func (d *dir) oldest() int {
	if d.Large {
		if d.GapStart == 1 && d.GapLen > 0 && d.GapLen < d.N {
			return d.GapLen + 1 // the run of missing files starts at 1 (it may be millions long)
		}
		for s := 1; s <= d.N; s++ {
			if d.present(s) {
				return s
			}
		}
		return 0
	}
	return bits.TrailingZeros64(d.Mask) + 1
}

func (d *dir) count() int {
	if d.Large {
		return d.N - d.GapLen
	}
	return bits.OnesCount64(d.Mask)
}

// ts is the time state s was (or would have been) written: strictly
// increasing in s. Changeset states carry nanoseconds; every seventh has none
// (".000000000"), others 1 ns (leading zeros), 999999999 ns and 120 ms
// (trailing zeros). Interval states are stamped 0..29 s (hour and day states
// also 0..49 min) after the full step, so that the seconds and minutes fields
// of the file are not always zero; neighbouring stamps stay >= 31 s apart, the
// query positions "1 s before / after" stay strictly between the states.
func (d *dir) ts(s int) time.Time {
	// plain second arithmetic: 2 000 000 days do not fit a time.Duration
	var nanos, off int64
	if d.Kind == kChangesets {
		switch s % 7 {
		case 0:
			nanos = 0
		case 3:
			nanos = 1
		case 5:
			nanos = 999999999
		case 6:
			nanos = 120000000
		default:
			nanos = (int64(s) * 123456789) % 1000000000
		}
	} else {
		off = (int64(s) * 7) % 30
		if d.Kind != kMinute {
			off += 60 * ((int64(s) * 11) % 50)
		}
	}
	return time.Unix(kindBase[d.Kind].Unix()+int64(s)*int64(kindStep[d.Kind]/time.Second)+off, nanos).UTC()
}

// answer is the property's result for a lookup at t: the first existing state
// written at or after t, or the newest when t is later than all of them.
func (d *dir) answer(t time.Time) int {
	// smallest s in 1..N with ts(s) >= t (arithmetic bisection on the model's
	// own monotone clock; no files involved)
	lo, hi := 1, d.N+1
	for lo < hi {
		m := (lo + hi) / 2
		if d.ts(m).Before(t) {
			lo = m + 1
		} else {
			hi = m
		}
	}
	if d.Large && lo >= d.GapStart && lo < d.GapStart+d.GapLen {
		lo = d.GapStart + d.GapLen // step over the run of missing files at once
	}
	for s := lo; s <= d.N; s++ {
		if d.present(s) {
			return s
		}
	}
	return d.newest()
}

func (d *dir) baseURL() string {
	if d.Base == "" {
		return defaultBase
	}
	return d.Base
}

func (d *dir) prefix() string { return d.baseURL() + "/replication/" + kindDir[d.Kind] + "/" }

func currentName(kind int) string {
	if kind == kChangesets {
		return "state.yaml"
	}
	return "state.txt"
}

// seqPath is the planet layout of a sequence number: nine digits, zero padded,
// split in three directories levels.
func seqPath(s uint64) string {
	p := strconv.FormatUint(s, 10)
	if len(p) < 9 {
		p = strings.Repeat("0", 9-len(p)) + p
	}
	k := len(p) - 6
	return p[:k] + "/" + p[k:k+3] + "/" + p[k+3:]
}

func (d *dir) stateURL(s uint64) string {
	if s == 0 {
		return d.prefix() + currentName(d.Kind)
	}
	return d.prefix() + seqPath(s) + ".state.txt"
}

func (d *dir) dataURL(s uint64) string {
	if d.Kind == kChangesets {
		return d.prefix() + seqPath(s) + ".osm.gz"
	}
	return d.prefix() + seqPath(s) + ".osc.gz"
}

// parseStateURL classifies a requested URL: current state, numbered state
// (with its number) or not a state URL of this directory at all.
func (d *dir) parseStateURL(u string) (seq uint64, current, ok bool) {
	rest := strings.TrimPrefix(u, d.prefix())
	if len(rest) == len(u) {
		return 0, false, false
	}
	if rest == currentName(d.Kind) {
		return 0, true, true
	}
	const suffix = ".state.txt"
	if !strings.HasSuffix(rest, suffix) {
		return 0, false, false
	}
	rest = rest[:len(rest)-len(suffix)]
	if len(rest) != 11 || rest[3] != '/' || rest[7] != '/' {
		return 0, false, false
	}
	digits := rest[0:3] + rest[4:7] + rest[8:11]
	for i := 0; i < len(digits); i++ {
		if digits[i] < '0' || digits[i] > '9' {
			return 0, false, false
		}
	}
	v, err := strconv.ParseUint(digits, 10, 64)
	if err != nil {
		return 0, false, false
	}
	return v, false, true
}

// The planet server has written interval state files in several layouts; the
// model rotates through them by sequence number:
//
//	0  osmosis (--replicate-apidb), keys in the order of the library's example
//	1  the same keys in the opposite order (a java properties file has no
//	   defined key order; txnMax now comes BEFORE txnMaxQueried)
//	2  osmdbt (minutely diffs since 2020): comment, sequenceNumber, timestamp
//	   only -- no transaction keys at all
//	3  merged files (hour, day): transaction keys present with value 0 / empty
const nLayouts = 4

func intervalLayout(s uint64) int { return int(s % nLayouts) }

// txnMax / txnMaxQueried: what State.TxnMax / TxnMaxQueried have to be for the
// state file of sequence s (0 when the layout has no such key or writes 0).
// Postgres transaction ids as osmosis reports them pass 2^31 and 2^32: every
// fifth file carries ids just above 2^32, every fifth just above 2^31.
func txnMax(s uint64) int        { return txnValue(s, 836000000) }
func txnMaxQueried(s uint64) int { return txnValue(s, 835000000) }

func txnValue(s uint64, base int64) int {
	if l := intervalLayout(s); l == 2 || l == 3 {
		return 0
	}
	v := base + int64(s%1000000)*7
	switch s % 5 {
	case 1:
		v += 1 << 32
	case 2:
		v += 1 << 31
	}
	return int(v)
}

// intervalTime renders a timestamp the way osmosis writes it into state.txt
// (a java properties file: the colons are escaped).
func intervalTime(t time.Time) string {
	y, mo, dd := t.Date()
	h, mi, s := t.Clock()
	return fmt.Sprintf("%04d-%02d-%02dT%02d\\:%02d\\:%02dZ", y, int(mo), dd, h, mi, s)
}

// changesetTime renders last_run; the planet server has used both zone
// spellings, so the model alternates between them.
func changesetTime(t time.Time, zulu bool) string {
	y, mo, dd := t.Date()
	h, mi, s := t.Clock()
	z := "+00:00"
	if zulu {
		z = "Z"
	}
	return fmt.Sprintf("%04d-%02d-%02d %02d:%02d:%02d.%09d %s", y, int(mo), dd, h, mi, s, t.Nanosecond(), z)
}

// stateBody is the content of the state file of sequence s with time t. For
// changesets the number inside the file is one less than the file's name (and
// state.yaml names the file before the newest one) -- the server's consistent
// off-by-one.
func stateBody(kind int, s uint64, t time.Time) []byte {
	return stateBodyNumbered(kind, s, t, false)
}

// stateBodyNumbered is the body of a NUMBERED state file (<nnn>.state.txt).
// The planet's oldest changeset state files carry their own file number (the
// off-by-one only starts later), so every third numbered changeset file here
// does too: a numbered state always reports its file number, whatever the
// number inside says.
func stateBodyNumbered(kind int, s uint64, t time.Time, numbered bool) []byte {
	if kind == kChangesets {
		inside := s - 1
		if numbered && s%3 == 0 {
			inside = s
		}
		return []byte("---\nlast_run: " + changesetTime(t, s%2 == 0) + "\nsequence: " + strconv.FormatUint(inside, 10) + "\n")
	}
	comment := "#" + t.Add(time.Second).Format("Mon Jan 02 15:04:05 UTC 2006")
	seqLine := "sequenceNumber=" + strconv.FormatUint(s, 10)
	timeLine := "timestamp=" + intervalTime(t)
	var lines []string
	switch intervalLayout(s) {
	case 0, 1:
		lines = []string{
			"txnMaxQueried=" + strconv.Itoa(txnMaxQueried(s)),
			seqLine,
			timeLine,
			"txnReadyList=",
			"txnMax=" + strconv.Itoa(txnMax(s)),
			"txnActiveList=" + strconv.Itoa(txnMax(s)-3) + "," + strconv.Itoa(txnMax(s)-1),
		}
		if intervalLayout(s) == 1 {
			for i, j := 0, len(lines)-1; i < j; i, j = i+1, j-1 {
				lines[i], lines[j] = lines[j], lines[i]
			}
		}
	case 2:
		lines = []string{seqLine, timeLine}
	case 3:
		lines = []string{seqLine, "txnMaxQueried=0", "txnActiveList=", "txnReadyList=", "txnMax=0", timeLine}
	}
	// every third file ends without a final newline (its last line is as good as the others)
	end := "\n"
	if s%3 == 1 {
		end = ""
	}
	return []byte(comment + "\n" + strings.Join(lines, "\n") + end)
}

// situation is the coarse class of a lookup used in violation keys. It is a
// function of the input only (directory and query time), never of what the
// code under test did:
//
//	<where t falls>/<shape of the directory>
func (d *dir) situation(t time.Time) string {
	first, last := d.oldest(), d.newest()
	var where string
	switch {
	case t.After(d.ts(last)):
		where = "t-after-newest"
	case !t.After(d.ts(first)):
		where = "t-at-or-before-first"
	default:
		a := d.answer(t)
		if d.ts(a).Equal(t) {
			where = "t-equals-later-state"
		} else {
			where = "t-between-states"
		}
	}
	return where + "/" + d.shape()
}

// shape: how many states exist, whether sequence number 1 (the library's
// minimum) exists, and whether there are holes between the first and the
// newest state.
func (d *dir) shape() string {
	first, last, n := d.oldest(), d.newest(), d.count()
	holes := last-first+1 != n
	var s string
	switch {
	case n == 1:
		s = "one-state"
	case n == 2 && !holes:
		s = "two-adjacent-states"
	case !holes:
		s = "contiguous"
	default:
		s = "holes"
	}
	if first != 1 {
		s += "-min-missing"
	}
	return s
}

// knownGiveUp is a model of ONE known, recorded defect (known_findings.json),
// used only to give its failures their own violation key, never to judge a
// result: when sequence number 1 is missing, findBound bisects upwards from 1
// (1, (1+upper)/2, ...), takes every existing state at or after t as the new
// upper bound and restarts, and GIVES UP with the current upper bound as soon
// as the bisection cannot move ("upper is probably the best we can do"),
// jumping over existing earlier states it never requested. It returns the
// answer that behaviour produces and whether the give-up branch was taken.
func (d *dir) knownGiveUp(t time.Time) (int, bool) {
	upper := d.newest()
	if upper == 0 || t.After(d.ts(upper)) || d.present(1) {
		return 0, false
	}
	lowerID := 1
	for steps := 0; steps < 10000; steps++ {
		if d.present(lowerID) {
			if !d.ts(lowerID).Before(t) {
				upper = lowerID
				lowerID = 1
			} else {
				return 0, false // a real lower bound was found: not the give-up path
			}
		}
		newID := (lowerID + upper) / 2
		if newID <= lowerID {
			return upper, true
		}
		lowerID = newID
	}
	return 0, false
}
