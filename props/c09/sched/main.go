//go:build verif

// C09, schedule part (Engine A): after every successful Scan the reported
// offsets are those of the block holding the object just returned and of the
// file block before it, whatever the pipeline's read-ahead, under every schedule
// with <= D deviations; skip flags empty whole blocks.
package main

import (
	"fmt"
	"time"

	"github.com/paulmach/osm"
	"github.com/paulmach/osm/osmpbf"
	"github.com/paulmach/osm/vsched"

	"verif/engine/pbfscen"
	"verif/engine/vexplore"
	"verif/gen/pbfgen"
	"verif/kit"
)

func keep(o osm.Object, flags int) bool {
	switch o.(type) {
	case *osm.Node:
		return flags&1 == 0
	case *osm.Way:
		return flags&2 == 0
	case *osm.Relation:
		return flags&4 == 0
	}
	return false
}

// model: what a scanner whose reader started at offset base of the file must
// report while object i (of the whole filtered sequence) is the most recent one.
type model struct {
	enc     *pbfgen.Encoded
	header  bool
	want    []osm.Object
	blockOf []int
}

func newModel(file *pbfgen.File, enc *pbfgen.Encoded, flags int, header bool) *model {
	m := &model{enc: enc, header: header}
	for bi := range file.Blocks {
		for _, o := range file.Blocks[bi].Expected() {
			if keep(o, flags) {
				m.want = append(m.want, o)
				m.blockOf = append(m.blockOf, bi)
			}
		}
	}
	return m
}

// blockStart: base is 0 or the start of a data block.
func (m *model) blockStart(base int64) bool {
	for _, s := range m.enc.Starts[:len(m.enc.Starts)-1] {
		if s == base {
			return true
		}
	}
	return false
}

// from: index of the first object of a scan started at base.
func (m *model) from(base int64) int {
	for i := range m.want {
		if m.enc.DataStarts[m.blockOf[i]] >= base {
			return i
		}
	}
	return len(m.want)
}

// offsets relative to base: F = start of the object's block, P = start of the
// file block before it when the scanner has seen it, else 0.
func (m *model) offsets(i int, base int64) (f, p int64) {
	b := m.blockOf[i]
	f = m.enc.DataStarts[b] - base
	fi := b
	if m.header {
		fi++
	}
	if fi > 0 && m.enc.Starts[fi-1] >= base {
		p = m.enc.Starts[fi-1] - base
	}
	return
}

func scenario(procs, blocks, flags int, header bool, bound int) vexplore.Scenario {
	file := pbfscen.File(blocks, header)
	enc := file.Encode()
	type exp struct {
		o     osm.Object
		block int
	}
	var want []exp
	for bi := range file.Blocks {
		for _, o := range file.Blocks[bi].Expected() {
			if keep(o, flags) {
				want = append(want, exp{o, bi})
			}
		}
	}
	name := fmt.Sprintf("offsets procs=%d blocks=%d skip=%03b header=%v", procs, blocks, flags, header)
	return vexplore.Scenario{Name: name, Family: fmt.Sprintf("offsets procs=%d D=%d", procs, bound), Bound: bound, MaxSteps: 100000,
		New: func() (func(), func(*vsched.Outcome) ([]vexplore.Finding, string, bool)) {
			var problems []vexplore.Finding
			n := 0
			var scanErr error
			main := func() {
				ctx, cancel := vsched.WithCancel(nil)
				defer cancel()
				rd := &pbfscen.Reader{Data: enc.Data, BlockOnly: true}
				s := osmpbf.New(ctx, rd, procs)
				s.SkipNodes, s.SkipWays, s.SkipRelations = flags&1 != 0, flags&2 != 0, flags&4 != 0
				s.FilterNode = func(*osm.Node) bool { vsched.Yield("filter"); return true }
				s.FilterWay = func(*osm.Way) bool { vsched.Yield("filter"); return true }
				s.FilterRelation = func(*osm.Relation) bool { vsched.Yield("filter"); return true }
				for s.Scan() {
					if n >= len(want) {
						problems = append(problems, vexplore.Finding{Key: "schedule/extra-objects", Msg: "more objects than the file holds"})
						break
					}
					w := want[n]
					if d := pbfgen.DiffObject(s.Object(), w.o); d != "" {
						problems = append(problems, vexplore.Finding{Key: "schedule/sequence", Msg: fmt.Sprintf("object %d: %s", n, d)})
						break
					}
					wantF := enc.DataStarts[w.block]
					fi := w.block
					if header {
						fi++
					}
					wantP := int64(0)
					if fi > 0 {
						wantP = enc.Starts[fi-1]
					}
					if f := s.FullyScannedBytes(); f != wantF {
						problems = append(problems, vexplore.Finding{Key: "schedule/fully-scanned-bytes", Msg: fmt.Sprintf("after object %d (block %d): FullyScannedBytes=%d want %d", n, w.block, f, wantF)})
						break
					}
					if p := s.PreviousFullyScannedBytes(); p != wantP {
						problems = append(problems, vexplore.Finding{Key: "schedule/previous-fully-scanned-bytes", Msg: fmt.Sprintf("after object %d (block %d): PreviousFullyScannedBytes=%d want %d", n, w.block, p, wantP)})
						break
					}
					n++
				}
				scanErr = s.Err()
				s.Close()
			}
			check := func(o *vsched.Outcome) ([]vexplore.Finding, string, bool) {
				fs := problems
				if o.Kind != "ok" {
					fs = append(fs, vexplore.Finding{Key: "schedule/" + o.Kind, Msg: o.Detail})
					return fs, "", true
				}
				if len(fs) == 0 && n != len(want) {
					fs = append(fs, vexplore.Finding{Key: "schedule/sequence", Msg: fmt.Sprintf("%d objects delivered, want %d", n, len(want))})
				}
				if scanErr != nil {
					fs = append(fs, vexplore.Finding{Key: "schedule/scan-error", Msg: scanErr.Error()})
				}
				return fs, fmt.Sprint(n), o.Threads > 3 && flags != 0
			}
			return main, check
		}}
}

// resumeScenario: stop after k objects, Close, reposition THE SAME reader at the
// reported offset (what a caller does with f.Seek) and scan again with a new
// scanner: exactly the objects from the first object of that block on, under
// every schedule of both pipelines. A goroutine of the closed scanner that
// still reads after Close returned would move the shared position.
func resumeScenario(procs, blocks, flags int, header bool, k, bound int) vexplore.Scenario {
	file := pbfscen.File(blocks, header)
	enc := file.Encode()
	var want []osm.Object
	var blockOf []int
	for bi := range file.Blocks {
		for _, o := range file.Blocks[bi].Expected() {
			if keep(o, flags) {
				want = append(want, o)
				blockOf = append(blockOf, bi)
			}
		}
	}
	if k > len(want) {
		k = len(want)
	}
	mdl := newModel(file, enc, flags, header)
	name := fmt.Sprintf("resume-same-reader procs=%d blocks=%d skip=%03b header=%v k=%d", procs, blocks, flags, header, k)
	return vexplore.Scenario{Name: name, Family: fmt.Sprintf("resume-same-reader procs=%d D=%d", procs, bound), Bound: bound, MaxSteps: 100000,
		New: func() (func(), func(*vsched.Outcome) ([]vexplore.Finding, string, bool)) {
			var problems []vexplore.Finding
			var got []osm.Object
			var first, resumed int
			var off int64
			var scanErr error
			main := func() {
				ctx, cancel := vsched.WithCancel(nil)
				defer cancel()
				rd := &pbfscen.Reader{Data: enc.Data, BlockOnly: true}
				setup := func(s *osmpbf.Scanner) {
					s.SkipNodes, s.SkipWays, s.SkipRelations = flags&1 != 0, flags&2 != 0, flags&4 != 0
					s.FilterNode = func(*osm.Node) bool { vsched.Yield("filter"); return true }
				}
				s := osmpbf.New(ctx, rd, procs)
				setup(s)
				for first < k && s.Scan() {
					first++
				}
				off = s.FullyScannedBytes()
				s.Close()
				rd.Pos = int(off) // Seek(off, io.SeekStart) on the shared reader
				s2 := osmpbf.New(ctx, rd, procs)
				setup(s2)
				from2, judge := mdl.from(off), mdl.blockStart(off)
				for s2.Scan() {
					got = append(got, s2.Object())
					resumed++
					// the resumed scanner reports both offsets relative to where its reader
					// started (judged when off is a block start; else off itself is reported)
					if i := from2 + resumed - 1; judge && i < len(want) && len(problems) == 0 {
						wf, wp := mdl.offsets(i, off)
						if f, p := s2.FullyScannedBytes(), s2.PreviousFullyScannedBytes(); f != wf || p != wp {
							problems = append(problems, vexplore.Finding{Key: "schedule/resumed-offsets", Msg: fmt.Sprintf("scanner resumed at %d, after its object %d (block %d): FullyScannedBytes=%d PreviousFullyScannedBytes=%d, want %d %d", off, resumed-1, blockOf[i], f, p, wf, wp)})
						}
					}
				}
				scanErr = s2.Err()
				s2.Close()
			}
			check := func(o *vsched.Outcome) ([]vexplore.Finding, string, bool) {
				fs := problems
				if o.Kind != "ok" {
					fs = append(fs, vexplore.Finding{Key: "schedule/" + o.Kind, Msg: o.Detail})
					return fs, "", true
				}
				if first != k {
					fs = append(fs, vexplore.Finding{Key: "schedule/sequence", Msg: fmt.Sprintf("first scan delivered %d objects, want %d", first, k)})
					return fs, "", true
				}
				from := 0
				if k > 0 {
					b := blockOf[k-1]
					for from = k - 1; from > 0 && blockOf[from-1] == b; from-- {
					}
					if off != enc.DataStarts[b] {
						fs = append(fs, vexplore.Finding{Key: "schedule/fully-scanned-bytes", Msg: fmt.Sprintf("after %d objects FullyScannedBytes=%d want %d", k, off, enc.DataStarts[b])})
					}
				}
				if scanErr != nil {
					fs = append(fs, vexplore.Finding{Key: "schedule/resume-same-reader", Msg: "resumed scan failed: " + scanErr.Error()})
				} else if d := pbfgen.DiffObjects(got, want[from:]); d != "" {
					fs = append(fs, vexplore.Finding{Key: "schedule/resume-same-reader", Msg: fmt.Sprintf("resumed at %d after Close on the same reader: %s", off, d)})
				}
				return fs, fmt.Sprint(k, resumed), o.Threads > 5
			}
			return main, check
		}}
}

// chainScenario: a chain of resumes on THE SAME reader. Scanner 1 stops after
// stops[0] objects and is closed; the reader is repositioned at the offset it
// reported; scanner 2 stops after stops[1] objects, reports offsets relative to
// its own start, is closed; the reader is repositioned at start + reported; ...;
// the last scanner scans to the end. With hdr every scanner is asked for its
// Header() before the first Scan and after every Scan. Both offsets are compared
// with the model after every Scan of every scanner, and every scanner must
// deliver exactly the objects from the first object of the block it starts at.
func chainScenario(procs, blocks, flags int, header bool, stops []int, hdr bool, bound int) vexplore.Scenario {
	file := pbfscen.File(blocks, header)
	enc := file.Encode()
	mdl := newModel(file, enc, flags, header)
	name := fmt.Sprintf("resume-chain procs=%d blocks=%d skip=%03b header=%v stops=%v header-calls=%v", procs, blocks, flags, header, stops, hdr)
	return vexplore.Scenario{Name: name, Family: fmt.Sprintf("resume-chain procs=%d D=%d", procs, bound), Bound: bound, MaxSteps: 100000,
		New: func() (func(), func(*vsched.Outcome) ([]vexplore.Finding, string, bool)) {
			var problems []vexplore.Finding
			var counts []int
			bad := func(key, msg string) {
				if len(problems) == 0 {
					problems = append(problems, vexplore.Finding{Key: key, Msg: msg})
				}
			}
			main := func() {
				ctx, cancel := vsched.WithCancel(nil)
				defer cancel()
				rd := &pbfscen.Reader{Data: enc.Data, BlockOnly: true}
				base := int64(0)
				for st := 0; st <= len(stops) && len(problems) == 0; st++ {
					if !mdl.blockStart(base) {
						bad("schedule/chain-offset", fmt.Sprintf("scanner %d would start at %d, which is not the start of a block", st+1, base))
						return
					}
					rd.Pos = int(base) // Seek(base, io.SeekStart) on the shared reader
					s := osmpbf.New(ctx, rd, procs)
					s.SkipNodes, s.SkipWays, s.SkipRelations = flags&1 != 0, flags&2 != 0, flags&4 != 0
					s.FilterNode = func(*osm.Node) bool { vsched.Yield("filter"); return true }
					askHeader := func(when string) {
						if !hdr {
							return
						}
						h, err := s.Header()
						if err != nil || (h != nil) != (base == 0 && header) {
							bad("schedule/chain-header", fmt.Sprintf("scanner %d (started at %d) Header() %s = %v, %v", st+1, base, when, h, err))
						}
					}
					askHeader("before the first Scan")
					if hdr {
						if f, p := s.FullyScannedBytes(), s.PreviousFullyScannedBytes(); f != 0 || p != 0 {
							bad("schedule/chain-offsets", fmt.Sprintf("scanner %d (started at %d) before its first Scan: FullyScannedBytes=%d PreviousFullyScannedBytes=%d, want 0 0", st+1, base, f, p))
						}
					}
					from, n := mdl.from(base), 0
					for (st == len(stops) || n < stops[st]) && len(problems) == 0 && s.Scan() {
						i := from + n
						n++
						if i >= len(mdl.want) {
							bad("schedule/sequence", fmt.Sprintf("scanner %d (started at %d): more objects than the file holds", st+1, base))
							break
						}
						if d := pbfgen.DiffObject(s.Object(), mdl.want[i]); d != "" {
							bad("schedule/sequence", fmt.Sprintf("scanner %d (started at %d) object %d: %s", st+1, base, n-1, d))
							break
						}
						askHeader(fmt.Sprintf("after object %d", n-1))
						wf, wp := mdl.offsets(i, base)
						if f, p := s.FullyScannedBytes(), s.PreviousFullyScannedBytes(); f != wf || p != wp {
							bad("schedule/chain-offsets", fmt.Sprintf("scanner %d (started at %d) after its object %d (block %d): FullyScannedBytes=%d PreviousFullyScannedBytes=%d, want %d %d", st+1, base, n-1, mdl.blockOf[i], f, p, wf, wp))
						}
					}
					counts = append(counts, n)
					if st == len(stops) {
						if err := s.Err(); err != nil {
							bad("schedule/scan-error", err.Error())
						} else if from+n != len(mdl.want) && len(problems) == 0 {
							bad("schedule/sequence", fmt.Sprintf("last scanner (started at %d) delivered %d objects, want %d", base, n, len(mdl.want)-from))
						}
					} else if n != stops[st] && len(problems) == 0 {
						bad("schedule/sequence", fmt.Sprintf("scanner %d (started at %d) delivered %d objects, want %d, err=%v", st+1, base, n, stops[st], s.Err()))
					}
					off := s.FullyScannedBytes()
					s.Close()
					base += off
				}
			}
			check := func(o *vsched.Outcome) ([]vexplore.Finding, string, bool) {
				fs := problems
				if o.Kind != "ok" {
					fs = append(fs, vexplore.Finding{Key: "schedule/" + o.Kind, Msg: o.Detail})
					return fs, "", true
				}
				return fs, fmt.Sprint(counts), o.Threads > 5
			}
			return main, check
		}}
}

func main() {
	kit.Main("C09", "fault_enumeration", func(r *kit.Run) {
		r.Rule("schedule part: files of 4-5 blocks (dense / ways / relations in rotation) x skip-flag sets that empty whole blocks x with and without header x procs x every schedule with <= D deviations of the instrumented pipeline; both offsets are checked after EVERY Scan; non-vacuous = several decoders and at least one block emptied. Family resume-same-reader: stop after k objects (every k), Close, reposition the SAME reader at FullyScannedBytes, scan with a new scanner: exactly the remaining objects from the first object of that block, and both offsets of the resumed scanner relative to its start after every Scan. Family resume-chain: the same again from the resumed scanner (second and third resume on the same reader), Header() before and between the Scans")
		r.Assume("vinst's rewrite preserves behaviour; sequentially consistent scheduler")
		var scs []vexplore.Scenario
		type pd struct{ p, d int }
		cfg := []pd{{1, 1}, {2, 2}, {3, 1}}
		budget := 5 * time.Minute
		if !r.Quick() {
			cfg = []pd{{1, 2}, {2, 3}, {3, 2}, {12, 1}}
			budget = 30 * time.Minute
		}
		for _, c := range cfg {
			for _, flags := range []int{0, 2, 5} {
				scs = append(scs, scenario(c.p, 5, flags, true, c.d))
			}
			scs = append(scs, scenario(c.p, 4, 1, false, c.d))
		}
		// resume on the same reader after Close, every stop position
		rcfg := []pd{{1, 1}, {2, 1}}
		if !r.Quick() {
			rcfg = []pd{{1, 2}, {2, 2}, {3, 1}, {12, 1}}
		}
		for _, c := range rcfg {
			for k := 0; k <= 8; k++ {
				scs = append(scs, resumeScenario(c.p, 4, 0, true, k, c.d))
			}
			for k := 0; k <= 4; k++ {
				scs = append(scs, resumeScenario(c.p, 4, 2, k%2 == 0, k, c.d))
			}
		}
		if r.Quick() {
			// a thread of the closed scanner that is still reading needs one deviation to be
			// left behind and one more to run between the new scanner's reads: D=2
			for _, k := range []int{1, 3} {
				scs = append(scs, resumeScenario(1, 3, 0, true, k, 2))
			}
		}
		// second and third resume on the same reader, Header() before and between the
		// Scans; stops chosen so that each resumed scanner starts at a later block and
		// stops on the first object of a block (2) or inside one (1, 3)
		type ch struct {
			p, d   int
			blocks int
			flags  int
			header bool
			stops  []int
			hdr    bool
		}
		// (4 blocks of 2 objects: 8 objects with flags 000; 6 with 010, whose block 1 is emptied)
		// quick: header, an emptied block in front of the first resume point, three scanners
		// and a third resume on a stream without header with two decoders
		chains := []ch{{1, 1, 4, 2, true, []int{3, 3}, true}, {2, 1, 4, 2, false, []int{1, 3, 3}, false}}
		if !r.Quick() {
			chains = nil
			chains = []ch{{1, 2, 4, 2, true, []int{3, 3}, true}, {2, 2, 4, 2, false, []int{1, 3, 3}, false}}
			for _, c := range []pd{{1, 1}, {2, 1}, {3, 1}} {
				for _, st := range [][]int{{3, 3}, {1, 3, 3}, {2, 0, 3}, {5, 1, 1}, {8, 0}} {
					chains = append(chains, ch{c.p, c.d, 4, 0, true, st, len(st)%2 == 0})
				}
				for _, st := range [][]int{{3, 3}, {1, 3, 3}, {2, 0, 3}, {5, 1, 1}, {6, 0}} {
					chains = append(chains, ch{c.p, c.d, 4, 2, false, st, len(st)%2 == 1})
				}
			}
		}
		for _, c := range chains {
			scs = append(scs, chainScenario(c.p, c.blocks, c.flags, c.header, c.stops, c.hdr, c.d))
		}
		e := &vexplore.Explorer{R: r, Scenarios: scs}
		e.Run(budget)
	})
}
