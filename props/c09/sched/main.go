//go:build verif

// C09, schedule part (Engine A): after every successful Scan the reported
// offsets are those of the block holding the object just returned and of the
// file block before it, whatever the pipeline's read-ahead, under every schedule
// with <= D deviations; skip flags empty whole blocks.
package main

import (
	"fmt"
	"time"

	"github.com/paulmach/osm"
	"github.com/paulmach/osm/osmpbf"
	"github.com/paulmach/osm/vsched"

	"verif/engine/pbfscen"
	"verif/engine/vexplore"
	"verif/gen/pbfgen"
	"verif/kit"
)

func keep(o osm.Object, flags int) bool {
	switch o.(type) {
	case *osm.Node:
		return flags&1 == 0
	case *osm.Way:
		return flags&2 == 0
	case *osm.Relation:
		return flags&4 == 0
	}
	return false
}

func scenario(procs, blocks, flags int, header bool, bound int) vexplore.Scenario {
	file := pbfscen.File(blocks, header)
	enc := file.Encode()
	type exp struct {
		o     osm.Object
		block int
	}
	var want []exp
	for bi := range file.Blocks {
		for _, o := range file.Blocks[bi].Expected() {
			if keep(o, flags) {
				want = append(want, exp{o, bi})
			}
		}
	}
	name := fmt.Sprintf("offsets procs=%d blocks=%d skip=%03b header=%v", procs, blocks, flags, header)
	return vexplore.Scenario{Name: name, Family: fmt.Sprintf("offsets procs=%d D=%d", procs, bound), Bound: bound, MaxSteps: 100000,
		New: func() (func(), func(*vsched.Outcome) ([]vexplore.Finding, string, bool)) {
			var problems []vexplore.Finding
			n := 0
			var scanErr error
			main := func() {
				ctx, cancel := vsched.WithCancel(nil)
				defer cancel()
				rd := &pbfscen.Reader{Data: enc.Data, BlockOnly: true}
				s := osmpbf.New(ctx, rd, procs)
				s.SkipNodes, s.SkipWays, s.SkipRelations = flags&1 != 0, flags&2 != 0, flags&4 != 0
				s.FilterNode = func(*osm.Node) bool { vsched.Yield("filter"); return true }
				s.FilterWay = func(*osm.Way) bool { vsched.Yield("filter"); return true }
				s.FilterRelation = func(*osm.Relation) bool { vsched.Yield("filter"); return true }
				for s.Scan() {
					if n >= len(want) {
						problems = append(problems, vexplore.Finding{Key: "schedule/extra-objects", Msg: "more objects than the file holds"})
						break
					}
					w := want[n]
					if d := pbfgen.DiffObject(s.Object(), w.o); d != "" {
						problems = append(problems, vexplore.Finding{Key: "schedule/sequence", Msg: fmt.Sprintf("object %d: %s", n, d)})
						break
					}
					wantF := enc.DataStarts[w.block]
					fi := w.block
					if header {
						fi++
					}
					wantP := int64(0)
					if fi > 0 {
						wantP = enc.Starts[fi-1]
					}
					if f := s.FullyScannedBytes(); f != wantF {
						problems = append(problems, vexplore.Finding{Key: "schedule/fully-scanned-bytes", Msg: fmt.Sprintf("after object %d (block %d): FullyScannedBytes=%d want %d", n, w.block, f, wantF)})
						break
					}
					if p := s.PreviousFullyScannedBytes(); p != wantP {
						problems = append(problems, vexplore.Finding{Key: "schedule/previous-fully-scanned-bytes", Msg: fmt.Sprintf("after object %d (block %d): PreviousFullyScannedBytes=%d want %d", n, w.block, p, wantP)})
						break
					}
					n++
				}
				scanErr = s.Err()
				s.Close()
			}
			check := func(o *vsched.Outcome) ([]vexplore.Finding, string, bool) {
				fs := problems
				if o.Kind != "ok" {
					fs = append(fs, vexplore.Finding{Key: "schedule/" + o.Kind, Msg: o.Detail})
					return fs, "", true
				}
				if len(fs) == 0 && n != len(want) {
					fs = append(fs, vexplore.Finding{Key: "schedule/sequence", Msg: fmt.Sprintf("%d objects delivered, want %d", n, len(want))})
				}
				if scanErr != nil {
					fs = append(fs, vexplore.Finding{Key: "schedule/scan-error", Msg: scanErr.Error()})
				}
				return fs, fmt.Sprint(n), o.Threads > 3 && flags != 0
			}
			return main, check
		}}
}

// resumeScenario: stop after k objects, Close, reposition THE SAME reader at the
// reported offset (what a caller does with f.Seek) and scan again with a new
// scanner: exactly the objects from the first object of that block on, under
// every schedule of both pipelines. A goroutine of the closed scanner that
// still reads after Close returned would move the shared position.
func resumeScenario(procs, blocks, flags int, header bool, k, bound int) vexplore.Scenario {
	file := pbfscen.File(blocks, header)
	enc := file.Encode()
	var want []osm.Object
	var blockOf []int
	for bi := range file.Blocks {
		for _, o := range file.Blocks[bi].Expected() {
			if keep(o, flags) {
				want = append(want, o)
				blockOf = append(blockOf, bi)
			}
		}
	}
	if k > len(want) {
		k = len(want)
	}
	name := fmt.Sprintf("resume-same-reader procs=%d blocks=%d skip=%03b header=%v k=%d", procs, blocks, flags, header, k)
	return vexplore.Scenario{Name: name, Family: fmt.Sprintf("resume-same-reader procs=%d D=%d", procs, bound), Bound: bound, MaxSteps: 100000,
		New: func() (func(), func(*vsched.Outcome) ([]vexplore.Finding, string, bool)) {
			var problems []vexplore.Finding
			var got []osm.Object
			var first, resumed int
			var off int64
			var scanErr error
			main := func() {
				ctx, cancel := vsched.WithCancel(nil)
				defer cancel()
				rd := &pbfscen.Reader{Data: enc.Data, BlockOnly: true}
				setup := func(s *osmpbf.Scanner) {
					s.SkipNodes, s.SkipWays, s.SkipRelations = flags&1 != 0, flags&2 != 0, flags&4 != 0
					s.FilterNode = func(*osm.Node) bool { vsched.Yield("filter"); return true }
				}
				s := osmpbf.New(ctx, rd, procs)
				setup(s)
				for first < k && s.Scan() {
					first++
				}
				off = s.FullyScannedBytes()
				s.Close()
				rd.Pos = int(off) // Seek(off, io.SeekStart) on the shared reader
				s2 := osmpbf.New(ctx, rd, procs)
				setup(s2)
				for s2.Scan() {
					got = append(got, s2.Object())
					resumed++
				}
				scanErr = s2.Err()
				s2.Close()
			}
			check := func(o *vsched.Outcome) ([]vexplore.Finding, string, bool) {
				fs := problems
				if o.Kind != "ok" {
					fs = append(fs, vexplore.Finding{Key: "schedule/" + o.Kind, Msg: o.Detail})
					return fs, "", true
				}
				if first != k {
					fs = append(fs, vexplore.Finding{Key: "schedule/sequence", Msg: fmt.Sprintf("first scan delivered %d objects, want %d", first, k)})
					return fs, "", true
				}
				from := 0
				if k > 0 {
					b := blockOf[k-1]
					for from = k - 1; from > 0 && blockOf[from-1] == b; from-- {
					}
					if off != enc.DataStarts[b] {
						fs = append(fs, vexplore.Finding{Key: "schedule/fully-scanned-bytes", Msg: fmt.Sprintf("after %d objects FullyScannedBytes=%d want %d", k, off, enc.DataStarts[b])})
					}
				}
				if scanErr != nil {
					fs = append(fs, vexplore.Finding{Key: "schedule/resume-same-reader", Msg: "resumed scan failed: " + scanErr.Error()})
				} else if d := pbfgen.DiffObjects(got, want[from:]); d != "" {
					fs = append(fs, vexplore.Finding{Key: "schedule/resume-same-reader", Msg: fmt.Sprintf("resumed at %d after Close on the same reader: %s", off, d)})
				}
				return fs, fmt.Sprint(k, resumed), o.Threads > 5
			}
			return main, check
		}}
}

func main() {
	kit.Main("C09", "fault_enumeration", func(r *kit.Run) {
		r.Rule("schedule part: files of 4-5 blocks (dense / ways / relations in rotation) x skip-flag sets that empty whole blocks x with and without header x procs x every schedule with <= D deviations of the instrumented pipeline; both offsets are checked after EVERY Scan; non-vacuous = several decoders and at least one block emptied. Family resume-same-reader: stop after k objects (every k), Close, reposition the SAME reader at FullyScannedBytes, scan with a new scanner: exactly the remaining objects from the first object of that block")
		r.Assume("vinst's rewrite preserves behaviour; sequentially consistent scheduler")
		var scs []vexplore.Scenario
		type pd struct{ p, d int }
		cfg := []pd{{1, 1}, {2, 2}, {3, 1}}
		budget := 5 * time.Minute
		if !r.Quick() {
			cfg = []pd{{1, 2}, {2, 3}, {3, 2}, {12, 1}}
			budget = 30 * time.Minute
		}
		for _, c := range cfg {
			for _, flags := range []int{0, 2, 5} {
				scs = append(scs, scenario(c.p, 5, flags, true, c.d))
			}
			scs = append(scs, scenario(c.p, 4, 1, false, c.d))
		}
		// resume on the same reader after Close, every stop position
		rcfg := []pd{{1, 1}, {2, 1}}
		if !r.Quick() {
			rcfg = []pd{{1, 2}, {2, 2}, {3, 1}, {12, 1}}
		}
		for _, c := range rcfg {
			for k := 0; k <= 8; k++ {
				scs = append(scs, resumeScenario(c.p, 4, 0, true, k, c.d))
			}
			for k := 0; k <= 4; k++ {
				scs = append(scs, resumeScenario(c.p, 4, 2, k%2 == 0, k, c.d))
			}
		}
		if r.Quick() {
			// a thread of the closed scanner that is still reading needs one deviation to be
			// left behind and one more to run between the new scanner's reads: D=2
			for _, k := range []int{1, 3} {
				scs = append(scs, resumeScenario(1, 3, 0, true, k, 2))
			}
		}
		e := &vexplore.Explorer{R: r, Scenarios: scs}
		e.Run(budget)
	})
}
