#!/bin/bash
# C09 = two programs, one evidence file:
#  1. props/c09 (Engine B): every stop position x skip flags x decoder counts with real resumed scanners, crash-isolated;
#  2. props/c09/sched (Engine A): the reported offsets after every Scan under every schedule with <= D deviations
#     on the instrumented pipeline (regenerated from the current /repo tree).
ROOT=$(cd "$(dirname "$0")/../.." && pwd)
cd "$ROOT"; . ./env.sh
tier=$1; shift
ov=()
[ -n "${VERIF_OVERLAY:-}" ] && ov=(-overlay "$VERIF_OVERLAY")
bin="${VERIF_BIN:-$ROOT/bin}"
mkdir -p "$bin"
if ! go build "${ov[@]+"${ov[@]}"}" -o "$bin/c09" ./props/c09 2> "$bin/c09.buildlog"; then
  echo "HARNESS-ERROR build of C09 failed"; head -40 "$bin/c09.buildlog"; exit 2
fi
# a replay file written by the schedule part goes to the schedule part
rp=""
prev=""
for a in "$@"; do [ "$prev" = "-replay" ] && rp="$a"; prev="$a"; done
if [ -n "$rp" ] && grep -q '"Scenario"' "$rp" 2>/dev/null; then
  exec "$ROOT/engine/run_a.sh" C09 "$tier" -pkg osmpbf:decode.go,scanner.go,decode_data.go -sub sched -- "$@"
fi
"$bin/c09" -tier "$tier" "$@"; rc1=$?
[ $rc1 -ge 2 ] && exit $rc1
case " $* " in *" -replay "*) exit $rc1;; esac
VERIF_EVIDENCE_PART=schedules LC_NAME=c09sched "$ROOT/engine/run_a.sh" C09 "$tier" -pkg osmpbf:decode.go,scanner.go,decode_data.go -sub sched -- "$@"; rc2=$?
[ $rc2 -ge 2 ] && exit $rc2
[ $rc1 -ne 0 ] && exit $rc1
exit $rc2
