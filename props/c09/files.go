package main

import (
	"encoding/binary"
	"fmt"
	"strings"
	"sync"

	"verif/gen/pbfgen"
	"verif/kit"
)

// fill says how one data block is inflated / placed. The objects a block
// encodes do not depend on it (unused string-table entries, indexdata), so the
// enumeration of stop positions needs the shape only; sizes are resolved when
// the bytes are built (once per process).
type fill struct {
	n          int    // length of one unused string-table entry
	repeat     bool   // one repeated letter (compresses to almost nothing) instead of pseudo-random letters
	padTo      int64  // raw blocks: choose n so that the NEXT file block starts exactly at this offset
	blobLen    int    // raw blocks: choose n so that the blob (BlobHeader.datasize) is exactly this long
	headerSize int    // choose the indexdata so that the BlobHeader is exactly this long
	same       string // blocks with the same key (and the same shape) share their encoded bytes
}

type fileDef struct {
	name        string
	file        *pbfgen.File
	fills       map[int]fill // by data block index
	flags       []int        // nil = all 8 skip-flag sets
	procsQ      []int        // nil = the default list of the tier
	procsT      []int
	variants    bool         // Header()-call and reader-kind variants are enumerated
	chains      bool         // chains of resumes are enumerated
	stopBlocks  map[int]bool // nil = every stop; else k=0, k=N and stops whose last object lies in one of these blocks
	stopBlocksQ map[int]bool // quick tier: only stops whose last object lies in one of these blocks
	once        sync.Once
	lay         *layout
}

// layout is the byte form of a file plus the block offsets the oracle needs
// (sums of 4 + BlobHeader + Blob sizes of gen/pbfgen's encoder).
type layout struct {
	src        *source
	starts     []int64 // offset of every file block (header included), then the total length
	dataStarts []int64 // offset of data block i
}

var (
	genMu  sync.Mutex
	genBuf []byte
)

// letters returns n deterministic pseudo-random lower-case letters (a function of
// the position only, so every process builds the same bytes).
func letters(n int) string {
	genMu.Lock()
	defer genMu.Unlock()
	for len(genBuf) < n {
		x := uint64(len(genBuf)/8+1) * 0x9E3779B97F4A7C15
		x ^= x >> 29
		x *= 0xBF58476D1CE4E5B9
		x ^= x >> 32
		for k := uint(0); k < 8; k++ {
			genBuf = append(genBuf, 'a'+byte(x>>(8*k))%26)
		}
	}
	return string(genBuf[:n])
}

func encodeBlock(b pbfgen.Block) []byte {
	blob := pbfgen.EncodeBlob(b.PrimitiveBlock(), pbfgen.BlobOpts{Raw: b.Enc.Raw, RawSizeOnRaw: b.Enc.RawSizeOnRaw})
	return pbfgen.EncodeFileBlock("OSMData", blob, pbfgen.FileBlockOpts{IndexData: b.Enc.IndexData})
}

func headerLen(fileBlock []byte) int { return int(binary.BigEndian.Uint32(fileBlock)) }

// sized encodes b with one unused string-table entry whose length is chosen so
// that measure(encoded) == want.
func sized(b pbfgen.Block, fl fill, want int64, measure func([]byte) int64, what string) []byte {
	if !b.Enc.Raw {
		kit.Fatalf("%s: only raw blocks can be sized exactly", what)
	}
	str := func(n int) string {
		if fl.repeat {
			return strings.Repeat("a", n)
		}
		return letters(n)
	}
	// the size is strictly increasing in n but jumps where a length prefix grows;
	// when the target falls into a jump, a (longer) indexdata moves the jumps
	for extra := -1; extra < 6; extra++ {
		if extra >= 0 {
			b.Enc.IndexData = make([]byte, extra)
		}
		n := int(want) - 64
		if n < 0 {
			n = 0
		}
		for it := 0; it < 12; it++ {
			b.ExtraStrings = []string{str(n)}
			enc := encodeBlock(b)
			d := want - measure(enc)
			if d == 0 {
				return enc
			}
			n += int(d)
			if n < 0 {
				break
			}
		}
	}
	kit.Fatalf("%s: no string length gives the size %d", what, want)
	return nil
}

func (d *fileDef) layout() *layout {
	d.once.Do(func() {
		if len(d.fills) == 0 {
			enc := d.file.Encode()
			d.lay = &layout{src: &source{data: enc.Data}, starts: enc.Starts, dataStarts: enc.DataStarts}
			return
		}
		lay := &layout{}
		var segs [][]byte
		cur := int64(0)
		add := func(p []byte, data bool) {
			lay.starts = append(lay.starts, cur)
			if data {
				lay.dataStarts = append(lay.dataStarts, cur)
			}
			segs = append(segs, p)
			cur += int64(len(p))
		}
		if h := d.file.Header; h != nil {
			blob := pbfgen.EncodeBlob(h.Bytes(), pbfgen.BlobOpts{Raw: h.Enc.Raw, RawSizeOnRaw: h.Enc.RawSizeOnRaw})
			add(pbfgen.EncodeFileBlock("OSMHeader", blob, pbfgen.FileBlockOpts{IndexData: h.Enc.IndexData}), false)
		}
		memo := map[string][]byte{}
		for i := range d.file.Blocks {
			b := d.file.Blocks[i] // copy: the shape stays as it is
			fl, ok := d.fills[i]
			what := fmt.Sprintf("file %s block %d", d.name, i)
			var enc []byte
			switch {
			case !ok:
				enc = encodeBlock(b)
			case fl.same != "" && memo[fl.same] != nil:
				enc = memo[fl.same]
			case fl.padTo != 0:
				enc = sized(b, fl, fl.padTo-cur, func(e []byte) int64 { return int64(len(e)) }, what)
			case fl.blobLen != 0:
				enc = sized(b, fl, int64(fl.blobLen), func(e []byte) int64 { return int64(len(e) - 4 - headerLen(e)) }, what)
			case fl.headerSize != 0:
				for l := fl.headerSize - 40; l <= fl.headerSize; l++ {
					b.Enc.IndexData = make([]byte, l)
					if e := encodeBlock(b); headerLen(e) == fl.headerSize {
						enc = e
						break
					}
				}
				if enc == nil {
					kit.Fatalf("%s: no indexdata length gives a BlobHeader of %d bytes", what, fl.headerSize)
				}
			default:
				if fl.repeat {
					b.ExtraStrings = []string{strings.Repeat("a", fl.n)}
				} else {
					b.ExtraStrings = []string{letters(fl.n)}
				}
				enc = encodeBlock(b)
			}
			if fl.same != "" {
				memo[fl.same] = enc
			}
			add(enc, true)
		}
		lay.starts = append(lay.starts, cur)
		src := &source{}
		if cur <= 256<<20 {
			src.data = make([]byte, 0, cur)
			for _, s := range segs {
				src.data = append(src.data, s...)
			}
		} else {
			src.segs = segs
			c := int64(0)
			for _, s := range segs {
				src.cum = append(src.cum, c)
				c += int64(len(s))
			}
			src.cum = append(src.cum, c)
		}
		lay.src = src
		for i, fl := range d.fills {
			if fl.padTo != 0 && lay.dataStarts[i+1] != fl.padTo {
				kit.Fatalf("file %s: block %d starts at %d, want %d", d.name, i+1, lay.dataStarts[i+1], fl.padTo)
			}
		}
		d.lay = lay
	})
	return d.lay
}

// ---- the files ----

func dense(ids ...int64) pbfgen.Group {
	d := &pbfgen.Dense{Info: true, Cols: pbfgen.ColsMask(63), KeysVals: true}
	for _, id := range ids {
		d.Nodes = append(d.Nodes, pbfgen.DenseNode(id, id))
	}
	return pbfgen.Group{Dense: d}
}

func ways(ids ...int64) pbfgen.Group {
	g := pbfgen.Group{}
	for _, id := range ids {
		g.Ways = append(g.Ways, pbfgen.Way{ID: id, Info: pbfgen.FullInfo(id), Refs: []int64{1, 2, id}, Tags: [][2]string{{"w", fmt.Sprint(id)}}})
	}
	return g
}

func rels(ids ...int64) pbfgen.Group {
	g := pbfgen.Group{}
	for _, id := range ids {
		g.Relations = append(g.Relations, pbfgen.Relation{ID: id, Info: pbfgen.FullInfo(id), Members: []pbfgen.Member{{1, 100, "r"}, {0, id, ""}}})
	}
	return g
}

// bare is a block whose PrimitiveBlock message is zero bytes long.
func bare(raw bool) pbfgen.Block {
	b := blk(raw)
	b.Bare = true
	return b
}

func blk(raw bool, gs ...pbfgen.Group) pbfgen.Block {
	return pbfgen.Block{Groups: gs, Enc: pbfgen.Enc{Raw: raw}}
}

func param(b pbfgen.Block) pbfgen.Block {
	b.Granularity, b.LatOffset, b.LonOffset, b.DateGranularity = pbfgen.I32(1000), pbfgen.I64(123456000), pbfgen.I64(-98765000), pbfgen.I32(2000)
	return b
}

func index(b pbfgen.Block, n int) pbfgen.Block {
	b.Enc.IndexData = make([]byte, n) // n = 0: present and empty
	for i := range b.Enc.IndexData {
		b.Enc.IndexData[i] = byte(i*7 + 1)
	}
	return b
}

func rawSize(b pbfgen.Block) pbfgen.Block { b.Enc.RawSizeOnRaw = true; return b }

func rep(n int, f func(i int) pbfgen.Block) (out []pbfgen.Block) {
	for i := 0; i < n; i++ {
		out = append(out, f(i))
	}
	return
}

func cat(parts ...[]pbfgen.Block) (out []pbfgen.Block) {
	for _, p := range parts {
		out = append(out, p...)
	}
	return
}

func one(b pbfgen.Block) []pbfgen.Block { return []pbfgen.Block{b} }

const (
	mib   = 1 << 20
	nFill = 127 // 16 MiB filler blocks in front of each of the 2^31 and 2^32 marks
)

// Block indices of the file J-huge.
const (
	hPad1 = 1 + nFill         // last block below 2^31, the next one starts AT 2^31
	hAt31 = hPad1 + 1         // starts at exactly 2^31
	hGt31 = hAt31 + 1         // first block above 2^31
	hPad2 = hGt31 + 1 + nFill // last block below 2^32
	hAt32 = hPad2 + 1         // starts at exactly 2^32
	hMax  = hAt32 + 1         // a blob of 32 MiB - 1 bytes, the largest the format allows
	hLast = hMax + 1
)

var (
	defsOnce sync.Once
	defList  []*fileDef
)

func defs() []*fileDef {
	defsOnce.Do(func() {
		std := func(name string, f *pbfgen.File) *fileDef {
			return &fileDef{name: name, file: f, variants: true, chains: true}
		}
		defList = []*fileDef{
			std("A-grouped", &pbfgen.File{Header: pbfgen.StdHeader(), Blocks: []pbfgen.Block{
				blk(false, dense(1, 2)), blk(false, dense(3)), blk(false, ways(10, 11)), blk(true, rels(20)), blk(false, ways(12), rels(21, 22))}}),
			std("B-empty-and-odd", &pbfgen.File{Header: pbfgen.StdHeader(), Blocks: []pbfgen.Block{
				blk(true, dense(1)), blk(false), blk(false, ways(10, 11, 12)), blk(false, pbfgen.Group{Changesets: []int64{5}}), blk(true, dense(2, 3), rels(20)), blk(false, rels(21))}}),
			std("C-no-header", &pbfgen.File{Blocks: []pbfgen.Block{
				blk(false, ways(10)), blk(false, dense(1, 2, 3)), blk(true, rels(20, 21)), blk(false, dense(4))}}),
			std("D-interleaved-kinds", &pbfgen.File{Header: pbfgen.StdHeader(), Blocks: []pbfgen.Block{
				blk(false, rels(20)), blk(false, dense(1)), blk(false, ways(10)), blk(false, dense(2)), blk(false, rels(21), ways(11), dense(3))}}),
			// per-block parameters stated by some blocks and omitted (= defaults) by later ones:
			// a resumed scanner starts with fresh decoders, an uninterrupted one does not
			std("E-block-params-come-and-go", &pbfgen.File{Header: pbfgen.StdHeader(), Blocks: []pbfgen.Block{
				param(blk(false, dense(1, 2))), param(blk(false, ways(10))), blk(false, dense(3)), blk(false, ways(11), rels(20)), param(blk(true, dense(4))), blk(false, dense(5, 6)), blk(false, dense(7))}}),
		}

		// F: block sizes and BlobHeader sizes of very different widths. Offsets cross 2^16
		// (block 3 starts at exactly 65536), BlobHeaders of 13 .. 65535 bytes (65535 is the
		// largest the format allows), indexdata absent / present-and-empty / 1 / 200 bytes,
		// raw_size on a raw blob, a blob > 2^16 (3-byte datasize), raw header block with indexdata.
		hdr := pbfgen.StdHeader()
		hdr.Enc = pbfgen.Enc{Raw: true, IndexData: make([]byte, 300)}
		defList = append(defList, &fileDef{name: "F-sizes", variants: true, chains: true,
			file: &pbfgen.File{Header: hdr, Blocks: []pbfgen.Block{
				index(blk(true, dense(1)), 0), index(blk(false, ways(10, 11)), 1), blk(true, rels(20)),
				blk(false, dense(2, 3)), rawSize(index(blk(true, ways(12)), 200)), blk(false, rels(21)), blk(true, dense(4))}},
			fills: map[int]fill{2: {padTo: 1 << 16}, 3: {headerSize: 65535}, 5: {n: 70000}}})

		// K: runs of blocks without any element (no group, an empty group, a dense group of 0
		// nodes, changesets only) at the start, in the middle and at the end.
		defList = append(defList, std("K-empty-runs", &pbfgen.File{Header: pbfgen.StdHeader(), Blocks: []pbfgen.Block{
			blk(false), blk(true, pbfgen.Group{}), blk(false, dense(1)), blk(true), blk(false, pbfgen.Group{Changesets: []int64{7}}),
			blk(false, ways(10), rels(20)), blk(false, dense()), blk(true),
			// a raw blob whose payload is present and zero bytes long, and the same as a zlib blob
			bare(true), blk(false, dense(5)), bare(false)}}))

		// H: a header and nothing else (every offset is 0, a resume at 0 sees the header again).
		defList = append(defList, &fileDef{name: "H-header-only", file: &pbfgen.File{Header: pbfgen.StdHeader()}, flags: []int{0, 7}, variants: true})

		// M: many blocks (more than the pipeline can hold: 10 inputs + 10 outputs + serializer
		// with one decoder), one element each; with SkipNodes runs of 26 emptied blocks at the
		// start and in the middle and 2 at the end; with SkipWays+SkipRelations only nodes remain.
		d1 := func(base int64) func(int) pbfgen.Block {
			return func(i int) pbfgen.Block { return blk(i%5 == 3, dense(base+int64(i))) }
		}
		defList = append(defList, &fileDef{name: "M-many-blocks", flags: []int{0, 1, 6}, procsQ: []int{1, 2, 12}, procsT: []int{1, 2, 3, 4, 10, 11, 12, 33},
			file: &pbfgen.File{Header: pbfgen.StdHeader(), Blocks: cat(
				rep(26, d1(100)), one(blk(false, ways(10))), one(blk(true, rels(20))), rep(26, d1(200)),
				one(blk(false, ways(11))), one(blk(false, ways(12))), one(blk(false, rels(21))), rep(2, d1(300)))}})

		// G: offsets cross 2^24. Block 1 (raw, ~16 MiB) ends so that block 2 starts at exactly
		// 2^24; block 2 is a zlib blob of a few KiB that inflates to 20 MiB; block 4 a zlib blob
		// of ~200 KiB; the others a few hundred bytes.
		defList = append(defList, &fileDef{name: "G-big-blocks", flags: []int{0, 5}, procsQ: []int{1, 3}, procsT: []int{1, 2, 3, 12},
			file: &pbfgen.File{Header: pbfgen.StdHeader(), Blocks: []pbfgen.Block{
				blk(false, dense(1, 2)), blk(true, ways(10)), blk(false, rels(20, 21)), rawSize(blk(true, dense(3))), blk(false, ways(11)), blk(false, rels(22), dense(4))}},
			fills: map[int]fill{1: {padTo: 1 << 24}, 2: {n: 20 * mib, repeat: true}, 4: {n: 300000}}})

		// J: > 4 GiB. 127 raw filler blocks of 16 MiB (one way each) in front of
		// a block that starts at exactly 2^31, the same again in front of a block that starts at
		// exactly 2^32, then a blob of 32 MiB - 1 bytes. With SkipWays the fillers are runs of
		// 127 emptied blocks. The bytes are never materialised (shared segments). Quick: the
		// stop in the block at 2^32 only (and the stops at / after 2^31 of file I); first in the
		// list so that these long cases run beside the others.
		filler := func(int) pbfgen.Block { return blk(true, ways(500)) }
		fills := map[int]fill{hPad1: {padTo: 1 << 31}, hPad2: {padTo: 1 << 32}, hMax: {blobLen: 32*mib - 1}}
		for i := 0; i < nFill; i++ {
			fills[1+i] = fill{n: 16*mib - 64, same: "filler"}
			fills[hGt31+1+i] = fill{n: 16*mib - 64, same: "filler"}
		}
		huge := &fileDef{name: "J-huge", flags: []int{0, 2}, procsQ: []int{2}, procsT: []int{1, 3},
			stopBlocks:  map[int]bool{nFill: true, hPad1: true, hAt31: true, hGt31: true, hPad2: true, hAt32: true, hMax: true, hLast: true},
			stopBlocksQ: map[int]bool{hAt32: true},
			file: &pbfgen.File{Header: pbfgen.StdHeader(), Blocks: cat(
				one(blk(false, dense(1, 2))), rep(nFill, filler), one(blk(true, dense(3))),
				one(blk(false, ways(10, 11))), one(blk(true, rels(20))), rep(nFill, filler), one(blk(true, dense(4))),
				one(blk(false, rels(21))), one(blk(true, dense(5, 6))), one(blk(false, ways(12), dense(7))))},
			fills: fills}
		// I: the first half of J (2 GiB + three small blocks): a resume at 2^31 is short here.
		fills2 := map[int]fill{hPad1: {padTo: 1 << 31}}
		for i := 0; i < nFill; i++ {
			fills2[1+i] = fill{n: 16*mib - 64, same: "filler"}
		}
		half := &fileDef{name: "I-2GiB", flags: []int{0, 2}, procsQ: []int{2}, procsT: []int{1, 2, 3, 12},
			stopBlocks:  map[int]bool{0: true, nFill: true, hPad1: true, hAt31: true, hGt31: true, hGt31 + 1: true},
			stopBlocksQ: map[int]bool{hAt31: true, hGt31: true},
			file: &pbfgen.File{Header: pbfgen.StdHeader(), Blocks: cat(
				one(blk(false, dense(1, 2))), rep(nFill, filler), one(blk(true, dense(3))),
				one(blk(false, ways(10, 11))), one(blk(true, rels(20))), one(blk(false, dense(4), ways(12))))},
			fills: fills2}
		defList = append([]*fileDef{huge, half}, defList...)
	})
	return defList
}

func defByName(name string) *fileDef {
	for _, d := range defs() {
		if d.name == name {
			return d
		}
	}
	return nil
}
