// C09 — Resuming a PBF scan at the reported byte offset loses no element.
//
// Enumerates every stop position (after k successful Scans, k = 0..N) of every
// (file, skip-flag combination, decoder count), checks the two reported offsets
// against the encoder's block offsets and resumes real scanners at both offsets.
package main

import (
	"bytes"
	"context"
	"fmt"
	"io"

	"github.com/paulmach/osm"
	"github.com/paulmach/osm/osmpbf"

	"verif/gen/pbfgen"
	"verif/gen/pbfrun"
	"verif/kit"
)

type ccase struct {
	FileName string
	file     *pbfgen.File
	Flags    int // bit0 SkipNodes, bit1 SkipWays, bit2 SkipRelations
	Procs    int
	Stop     int
}

func files() map[string]*pbfgen.File {
	dense := func(ids ...int64) pbfgen.Group {
		d := &pbfgen.Dense{Info: true, Cols: pbfgen.ColsMask(63), KeysVals: true}
		for _, id := range ids {
			d.Nodes = append(d.Nodes, pbfgen.DenseNode(id, id))
		}
		return pbfgen.Group{Dense: d}
	}
	ways := func(ids ...int64) pbfgen.Group {
		g := pbfgen.Group{}
		for _, id := range ids {
			g.Ways = append(g.Ways, pbfgen.Way{ID: id, Info: pbfgen.FullInfo(id), Refs: []int64{1, 2, id}, Tags: [][2]string{{"w", fmt.Sprint(id)}}})
		}
		return g
	}
	rels := func(ids ...int64) pbfgen.Group {
		g := pbfgen.Group{}
		for _, id := range ids {
			g.Relations = append(g.Relations, pbfgen.Relation{ID: id, Info: pbfgen.FullInfo(id), Members: []pbfgen.Member{{1, 100, "r"}, {0, id, ""}}})
		}
		return g
	}
	blk := func(raw bool, gs ...pbfgen.Group) pbfgen.Block {
		return pbfgen.Block{Groups: gs, Enc: pbfgen.Enc{Raw: raw}}
	}
	param := func(b pbfgen.Block) pbfgen.Block {
		b.Granularity, b.LatOffset, b.LonOffset, b.DateGranularity = pbfgen.I32(1000), pbfgen.I64(123456000), pbfgen.I64(-98765000), pbfgen.I32(2000)
		return b
	}
	return map[string]*pbfgen.File{
		"A-grouped": {Header: pbfgen.StdHeader(), Blocks: []pbfgen.Block{
			blk(false, dense(1, 2)), blk(false, dense(3)), blk(false, ways(10, 11)), blk(true, rels(20)), blk(false, ways(12), rels(21, 22))}},
		"B-empty-and-odd": {Header: pbfgen.StdHeader(), Blocks: []pbfgen.Block{
			blk(true, dense(1)), blk(false), blk(false, ways(10, 11, 12)), blk(false, pbfgen.Group{Changesets: []int64{5}}), blk(true, dense(2, 3), rels(20)), blk(false, rels(21))}},
		"C-no-header": {Blocks: []pbfgen.Block{
			blk(false, ways(10)), blk(false, dense(1, 2, 3)), blk(true, rels(20, 21)), blk(false, dense(4))}},
		// per-block parameters stated by some blocks and omitted (= defaults) by later ones:
		// a resumed scanner starts with fresh decoders, an uninterrupted one does not
		"E-block-params-come-and-go": {Header: pbfgen.StdHeader(), Blocks: []pbfgen.Block{
			param(blk(false, dense(1, 2))), param(blk(false, ways(10))), blk(false, dense(3)), blk(false, ways(11), rels(20)), param(blk(true, dense(4))), blk(false, dense(5, 6)), blk(false, dense(7))}},
		"D-interleaved-kinds": {Header: pbfgen.StdHeader(), Blocks: []pbfgen.Block{
			blk(false, rels(20)), blk(false, dense(1)), blk(false, ways(10)), blk(false, dense(2)), blk(false, rels(21), ways(11), dense(3))}},
	}
}

func configure(flags int) func(*osmpbf.Scanner) {
	return func(s *osmpbf.Scanner) {
		s.SkipNodes = flags&1 != 0
		s.SkipWays = flags&2 != 0
		s.SkipRelations = flags&4 != 0
	}
}

func keep(o osm.Object, flags int) bool {
	switch o.(type) {
	case *osm.Node:
		return flags&1 == 0
	case *osm.Way:
		return flags&2 == 0
	case *osm.Relation:
		return flags&4 == 0
	}
	return false
}

// expectedFrom returns the (filtered) objects of data blocks bi.. and, per
// object of the whole filtered sequence, the index of its data block.
func filtered(f *pbfgen.File, flags int) (objs []osm.Object, block []int) {
	for bi := range f.Blocks {
		for _, o := range f.Blocks[bi].Expected() {
			if keep(o, flags) {
				objs = append(objs, o)
				block = append(block, bi)
			}
		}
	}
	return
}

func main() {
	kit.Main("C09", "fault_enumeration", func(r *kit.Run) {
		r.Rule("every (file, 8 skip-flag sets, procs, stop position k=0..N): scan k objects, read both offsets, Close, resume two new scanners at data[F:] and data[P:], and (procs <= 3) a third on one reader over the whole data positioned with Seek(F), whose reported offsets must be relative to F; " +
			"non-trivial = the stop is not at k=0 and the resumed scan starts at a data block that is not the first file block; distinct = (file,flags,procs,k)")
		r.Assume("block offsets come from gen/pbfgen's encoder (sum of 4 + header + blob sizes)")
		fs := files()
		names := []string{"A-grouped", "B-empty-and-odd", "C-no-header", "D-interleaved-kinds", "E-block-params-come-and-go"}
		procs := []int{1, 2, 3, 4, 6, 10, 11, 12}
		if !r.Quick() {
			procs = []int{1, 2, 3, 4, 5, 6, 7, 8, 9, 10, 11, 12, 16, 32, 33}
		}
		var cases []ccase
		if r.ReplayPath != "" {
			var c ccase
			r.LoadReplay(&c)
			c.file = fs[c.FileName]
			cases = append(cases, c)
		} else {
			for _, n := range names {
				for flags := 0; flags < 8; flags++ {
					objs, _ := filtered(fs[n], flags)
					for _, p := range procs {
						for k := 0; k <= len(objs); k++ {
							cases = append(cases, ccase{FileName: n, file: fs[n], Flags: flags, Procs: p, Stop: k})
						}
					}
				}
			}
		}
		r.ParIsolated(len(cases), func(i int) { runCase(r, cases[i]) }, func(i int, what, detail string) {
			c := cases[i]
			r.Violation("process-"+what+"/"+kit.CrashClass(detail), fmt.Sprintf("file=%s flags=%03b procs=%d stop=%d: the scanning process ended in a %s:\n%s", c.FileName, c.Flags, c.Procs, c.Stop, what, detail), c)
		})
	})
}

func runCase(r *kit.Run, c ccase) {
	enc := c.file.Encode()
	objs, blocks := filtered(c.file, c.Flags)
	fail := func(clause, msg string) {
		r.Violation(clause, fmt.Sprintf("file=%s flags=%03b procs=%d stop=%d: %s", c.FileName, c.Flags, c.Procs, c.Stop, msg), c)
	}
	s := osmpbf.New(context.Background(), bytes.NewReader(enc.Data), c.Procs)
	configure(c.Flags)(s)
	var got []osm.Object
	for k := 0; k < c.Stop; k++ {
		if !s.Scan() {
			fail("scan-ended-early", fmt.Sprintf("Scan false after %d of %d objects, err=%v", k, len(objs), s.Err()))
			s.Close()
			return
		}
		got = append(got, s.Object())
		// the offsets must be right after EVERY scan, not only the last
		wantF := enc.DataStarts[blocks[k]]
		if f := s.FullyScannedBytes(); f != wantF {
			fail("fully-scanned-bytes", fmt.Sprintf("after object %d FullyScannedBytes=%d want %d (block %d)", k, f, wantF, blocks[k]))
			s.Close()
			return
		}
	}
	F, P := s.FullyScannedBytes(), s.PreviousFullyScannedBytes()
	s.Close()
	if d := pbfgen.DiffObjects(got, objs[:c.Stop]); d != "" {
		fail("prefix", d)
		return
	}
	wantF, wantP := int64(0), int64(0)
	curBlock := -1
	if c.Stop > 0 {
		curBlock = blocks[c.Stop-1]
		wantF = enc.DataStarts[curBlock]
		// the preceding block taken by the consumer is the preceding file block
		// (blocks emptied by skip flags are still taken); 0 before that.
		fi := curBlock
		if c.file.Header != nil {
			fi++ // index into enc.Starts
		}
		if fi > 0 {
			wantP = enc.Starts[fi-1]
		}
	}
	nt := c.Stop > 0 && wantF > 0
	r.Case(fmt.Sprintf("%s|%d|%d|%d", c.FileName, c.Flags, c.Procs, c.Stop), nt)
	if r.WantSample() && nt {
		r.Sample(map[string]interface{}{"file": c.FileName, "flags": c.Flags, "procs": c.Procs, "stop_after": c.Stop, "F": F, "P": P, "block_starts": enc.Starts})
	}
	if F != wantF {
		fail("fully-scanned-bytes", fmt.Sprintf("FullyScannedBytes=%d want %d", F, wantF))
		return
	}
	if P != wantP {
		fail("previous-fully-scanned-bytes", fmt.Sprintf("PreviousFullyScannedBytes=%d want %d (F=%d)", P, wantP, F))
		return
	}
	// resume at both offsets
	for _, off := range []struct {
		name string
		v    int64
	}{{"F", F}, {"P", P}} {
		if off.v < 0 || off.v > int64(len(enc.Data)) {
			fail("offset-out-of-range", fmt.Sprintf("%s=%d", off.name, off.v))
			return
		}
		// expected: all filtered objects of data blocks starting at or after the offset
		var want []osm.Object
		for i, o := range objs {
			if enc.DataStarts[blocks[i]] >= off.v {
				want = append(want, o)
			}
		}
		res := pbfrun.Scan(enc.Data[off.v:], c.Procs, configure(c.Flags))
		if res.Err != nil || res.HeaderErr != nil {
			fail("resume-error/"+off.name, fmt.Sprintf("resume at %s=%d: header err %v, scan err %v", off.name, off.v, res.HeaderErr, res.Err))
			return
		}
		startsWithHeader := off.v == 0 && c.file.Header != nil
		if !startsWithHeader && res.Header != nil {
			fail("resume-header/"+off.name, fmt.Sprintf("resume at %s=%d: Header() = %+v for a stream that starts with a data block", off.name, off.v, res.Header))
			return
		}
		if d := pbfgen.DiffObjects(res.Objects, want); d != "" {
			fail("resume-objects/"+off.name, fmt.Sprintf("resume at %s=%d: %s", off.name, off.v, d))
			return
		}
		// the same resume the way a caller with a file does it: one reader over the
		// whole data, positioned with Seek. Offsets are "relative to where the
		// reader started", so this scanner reports them relative to off.v, and a
		// second resume at off.v + reported lands on a block again.
		if off.name == "F" && c.Procs <= 3 {
			rs := bytes.NewReader(enc.Data)
			if _, err := rs.Seek(off.v, io.SeekStart); err != nil {
				kit.Fatalf("seek: %v", err)
			}
			s2 := osmpbf.New(context.Background(), rs, c.Procs)
			configure(c.Flags)(s2)
			var got2 []osm.Object
			bad := ""
			for s2.Scan() {
				o := s2.Object()
				got2 = append(got2, o)
				k := len(got2) - 1
				if k < len(want) {
					// index of want[k] in objs: the objects of want are a suffix of objs
					j := len(objs) - len(want) + k
					if f, w := s2.FullyScannedBytes(), enc.DataStarts[blocks[j]]-off.v; f != w && bad == "" {
						bad = fmt.Sprintf("after resumed object %d FullyScannedBytes=%d, want %d (block at absolute offset %d, reader started at %d)", k, f, w, enc.DataStarts[blocks[j]], off.v)
					}
				}
			}
			err := s2.Err()
			s2.Close()
			if err != nil {
				fail("resume-seeked-reader/error", fmt.Sprintf("resume on a reader seeked to %d: %v", off.v, err))
				return
			}
			if d := pbfgen.DiffObjects(got2, want); d != "" {
				fail("resume-seeked-reader/objects", fmt.Sprintf("resume on a reader seeked to %d: %s", off.v, d))
				return
			}
			if bad != "" {
				fail("resume-seeked-reader/offsets-not-relative-to-start", bad)
				return
			}
		}
		// prefix before the block + resumed suffix == whole sequence (for F)
		if off.name == "F" && c.Stop > 0 {
			n := 0
			for i := range objs {
				if blocks[i] < curBlock {
					n++
				}
			}
			whole := append(append([]osm.Object{}, got[:n]...), res.Objects...)
			if d := pbfgen.DiffObjects(whole, objs); d != "" {
				fail("prefix-plus-suffix", d)
				return
			}
		}
	}
}
