// C09 — Resuming a PBF scan at the reported byte offset loses no element.
//
// Enumerates every stop position (after k successful Scans, k = 0..N) of every
// (file, skip-flag combination, decoder count), checks the two reported offsets
// against the encoder's block offsets after every Scan and resumes real scanners
// at both offsets; variants call Header() before and between the Scans and read
// through short-read / data-with-EOF readers; chains stop the resumed scanner
// again and resume from where it says (second and third resume).
// Files: files.go; byte sources and readers: source.go.
package main

import (
	"context"
	"fmt"
	"io"
	"time"

	"github.com/paulmach/osm"
	"github.com/paulmach/osm/osmpbf"

	"verif/gen/pbfgen"
	"verif/kit"
)

type ccase struct {
	FileName string
	Flags    int // bit0 SkipNodes, bit1 SkipWays, bit2 SkipRelations
	Procs    int
	Stop     int
	// Hdr = 1: Header() is called before the first Scan and after every Scan, on
	// the first scanner and on the resumed ones.
	Hdr int `json:",omitempty"`
	// Rd: reader kind of the first scanner and of the chained ones (source.go).
	Rd int `json:",omitempty"`
	// Flt = 1: the kinds named by Flags are removed by filters that reject every
	// element of the kind (no skip flag is set): blocks emptied after decoding.
	// Flt = 2: skip flags as in Flags, and filters on all three kinds that accept
	// even ids only: single elements removed, some blocks emptied that way.
	Flt int `json:",omitempty"`
	// Chain: after the resume at F stop again after Chain[0] objects, resume at the
	// offset that scanner reports (relative to its start), stop after Chain[1] ...
	Chain []int `json:",omitempty"`
}

func configure(flags, flt int) func(*osmpbf.Scanner) {
	return func(s *osmpbf.Scanner) {
		switch flt {
		case 1:
			// pure functions of the element, nothing retained
			if flags&1 != 0 {
				s.FilterNode = func(*osm.Node) bool { return false }
			}
			if flags&2 != 0 {
				s.FilterWay = func(*osm.Way) bool { return false }
			}
			if flags&4 != 0 {
				s.FilterRelation = func(*osm.Relation) bool { return false }
			}
			return
		case 2:
			s.FilterNode = func(n *osm.Node) bool { return n.ID%2 == 0 }
			s.FilterWay = func(w *osm.Way) bool { return w.ID%2 == 0 }
			s.FilterRelation = func(r *osm.Relation) bool { return r.ID%2 == 0 }
		}
		s.SkipNodes = flags&1 != 0
		s.SkipWays = flags&2 != 0
		s.SkipRelations = flags&4 != 0
	}
}

func keep(o osm.Object, flags, flt int) bool {
	switch o := o.(type) {
	case *osm.Node:
		return flags&1 == 0 && (flt != 2 || o.ID%2 == 0)
	case *osm.Way:
		return flags&2 == 0 && (flt != 2 || o.ID%2 == 0)
	case *osm.Relation:
		return flags&4 == 0 && (flt != 2 || o.ID%2 == 0)
	}
	return false
}

// filtered returns the objects the scan must deliver and, per object, the index
// of its data block.
func filtered(f *pbfgen.File, flags, flt int) (objs []osm.Object, block []int) {
	for bi := range f.Blocks {
		for _, o := range f.Blocks[bi].Expected() {
			if keep(o, flags, flt) {
				objs = append(objs, o)
				block = append(block, bi)
			}
		}
	}
	return
}

func enumerate(r *kit.Run) []ccase {
	var cases []ccase
	procsQ := []int{0, 1, 2, 3, 4, 6, 10, 11, 12}
	procsT := []int{-1, 0, 1, 2, 3, 4, 5, 6, 7, 8, 9, 10, 11, 12, 16, 32, 33}
	type variant struct {
		hdr, rd int
		procs   []int
	}
	varsQ := []variant{{1, rdPlain, []int{1, 3}}, {0, rdChunked, []int{1, 3}}, {1, rdDataEOF, []int{1, 3}}}
	vp := []int{1, 2, 3, 4, 11, 12}
	varsT := []variant{{1, rdPlain, vp}, {0, rdChunked, vp}, {1, rdChunked, vp}, {0, rdDataEOF, vp}, {1, rdDataEOF, vp}}
	for _, d := range defs() {
		flagSets := d.flags
		if flagSets == nil {
			flagSets = []int{0, 1, 2, 3, 4, 5, 6, 7}
		}
		procs, vars, cprocs, fprocs := procsQ, varsQ, []int{1, 2}, []int{2}
		if d.procsQ != nil {
			procs = d.procsQ
		}
		if !r.Quick() {
			procs, vars, cprocs, fprocs = procsT, varsT, []int{1, 2, 3, 12}, []int{1, 2, 3, 12}
			if d.procsT != nil {
				procs = d.procsT
			}
		}
		for _, flags := range flagSets {
			_, blocks := filtered(d.file, flags, 0)
			n := len(blocks)
			if r.Quick() && d.stopBlocksQ != nil && flags != 0 {
				continue
			}
			stopOK := func(k int) bool {
				if r.Quick() && d.stopBlocksQ != nil {
					return k > 0 && d.stopBlocksQ[blocks[k-1]]
				}
				return d.stopBlocks == nil || k == 0 || k == n || d.stopBlocks[blocks[k-1]]
			}
			// 1. every stop position, plain
			for _, p := range procs {
				for k := 0; k <= n; k++ {
					if stopOK(k) {
						cases = append(cases, ccase{FileName: d.name, Flags: flags, Procs: p, Stop: k})
					}
				}
			}
			// 2. Header() calls before / between the Scans, other reader kinds
			if d.variants {
				for _, v := range vars {
					for _, p := range v.procs {
						for k := 0; k <= n; k++ {
							cases = append(cases, ccase{FileName: d.name, Flags: flags, Procs: p, Stop: k, Hdr: v.hdr, Rd: v.rd})
						}
					}
				}
			}
			// 2b. elements removed by filters instead of / next to skip flags
			if d.variants {
				for flt := 1; flt <= 2; flt++ {
					_, fb := filtered(d.file, flags, flt)
					for _, p := range fprocs {
						for k := 0; k <= len(fb); k++ {
							cases = append(cases, ccase{FileName: d.name, Flags: flags, Procs: p, Stop: k, Flt: flt})
						}
					}
				}
			}
			// 3. chains. A resumed scanner depends on the block it starts at only, so the
			// first stop is the first object of each block; the second stop is every
			// position of the resumed scan; a third stop (one object into the second
			// resume: quick, flags 0; every position: thorough) gives the third resume.
			if d.chains {
				for _, p := range cprocs {
					for k1 := 1; k1 <= n; k1++ {
						if k1 > 1 && blocks[k1-1] == blocks[k1-2] {
							continue
						}
						from1 := k1 - 1 // index of the first object of the resumed scan
						for k2 := 0; k2 <= n-from1; k2++ {
							hdr := (k1 + k2) % 2 // alternate: Header() calls in every second chain
							cases = append(cases, ccase{FileName: d.name, Flags: flags, Procs: p, Stop: k1, Hdr: hdr, Rd: k2 % 3, Chain: []int{k2}})
							if k2 == 0 {
								continue
							}
							// first object of the block the second stop lies in
							from2 := from1 + k2 - 1
							for from2 > 0 && blocks[from2-1] == blocks[from2] {
								from2--
							}
							for k3 := 0; k3 <= n-from2; k3++ {
								if r.Quick() && (k3 != 1 || flags != 0 || p != 1) {
									continue
								}
								cases = append(cases, ccase{FileName: d.name, Flags: flags, Procs: p, Stop: k1, Hdr: 1 - hdr, Rd: k3 % 3, Chain: []int{k2, k3}})
							}
						}
					}
				}
			}
		}
	}
	return cases
}

func main() {
	kit.Main("C09", "fault_enumeration", func(r *kit.Run) {
		r.Rule("every (file, skip-flag set, procs incl. 0 = one decoder, stop position k=0..N): scan k objects, compare both offsets with the model after EVERY Scan, Close, resume two new scanners at data[F:] and data[P:], and (procs <= 3) a third on one reader over the whole data positioned with Seek(F), whose two reported offsets must be relative to F; " +
			"files: 4-8 small blocks (grouped / interleaved kinds, empty blocks and runs of them at the start / middle / end, no header, header only, block parameters that come and go), 59 blocks, block and BlobHeader sizes of very different widths with block starts at exactly 2^16, 2^24, 2^31 and 2^32 (2 GiB and 4.3 GiB streams of 16 MiB blocks, never materialised; quick: the stops at those marks, thorough: also before / after them, a 32 MiB - 1 blob, runs of 127 emptied blocks), raw and zlib, indexdata absent / empty / up to the 65535-byte BlobHeader limit; " +
			"variants: Header() before the first and after every Scan (offsets still 0 before the first Scan), readers with short reads and with data+EOF, blocks emptied / thinned by Filter functions instead of skip flags; chains: stop the resumed scanner again at every position and resume at start + its reported offset, twice; " +
			"on the large files the resume at P is not run a second time when P == F; " +
			"non-trivial = the stop is not at k=0 and the resumed scan starts at a data block that is not the first file block; distinct = (file,flags,procs,k,variant,chain)")
		// the 2 - 4 GiB cases take 10 - 20 s on an idle machine and many times that on a busy one
		kit.CaseTimeout = 5 * time.Minute
		r.Assume("block offsets come from gen/pbfgen's encoder (sum of 4 + header + blob sizes)")
		r.Note("not judged: the values reported after Scan returned false (the text speaks of the most recently returned object; FullyScannedBytes' comment would also allow the end of the input), files that do not start with a block (empty input)")
		var cases []ccase
		if r.ReplayPath != "" {
			var c ccase
			r.LoadReplay(&c)
			cases = append(cases, c)
		} else {
			cases = enumerate(r)
		}
		r.ParIsolated(len(cases), func(i int) { runCase(r, cases[i]) }, func(i int, what, detail string) {
			c := cases[i]
			r.Violation("process-"+what+"/"+kit.CrashClass(detail), fmt.Sprintf("%s: the scanning process ended in a %s:\n%s", c.String(), what, detail), c)
		})
	})
}

func (c ccase) String() string {
	s := fmt.Sprintf("file=%s flags=%03b procs=%d stop=%d", c.FileName, c.Flags, c.Procs, c.Stop)
	if c.Hdr != 0 || c.Rd != 0 {
		s += fmt.Sprintf(" header-calls=%d reader=%d", c.Hdr, c.Rd)
	}
	if c.Flt != 0 {
		s += fmt.Sprintf(" filters=%d", c.Flt)
	}
	if len(c.Chain) > 0 {
		s += fmt.Sprintf(" then-stops=%v", c.Chain)
	}
	return s
}

// cx is one running case.
type cx struct {
	r      *kit.Run
	c      ccase
	d      *fileDef
	lay    *layout
	objs   []osm.Object
	blocks []int
}

func (x *cx) fail(clause, msg string) {
	x.r.Violation(clause, x.c.String()+": "+msg, x.c)
}

// from returns the index of the first object of a scan that starts at offset base.
func (x *cx) from(base int64) int {
	for i := range x.objs {
		if x.lay.dataStarts[x.blocks[i]] >= base {
			return i
		}
	}
	return len(x.objs)
}

// wantOffsets: what a scanner whose reader started at base must report while
// object i is the most recently returned one. F = start of its block; P = the
// value that was current during the preceding block taken by the consumer, i.e.
// the start of the preceding file block (blocks emptied by skip flags and the
// header block are taken too), 0 when the scanner has not seen such a block.
func (x *cx) wantOffsets(i int, base int64) (f, p int64) {
	b := x.blocks[i]
	f = x.lay.dataStarts[b] - base
	fi := b
	if x.d.file.Header != nil {
		fi++ // index into starts
	}
	if fi > 0 && x.lay.starts[fi-1] >= base {
		p = x.lay.starts[fi-1] - base
	}
	return
}

// wantHeader: the header a scanner started at base must report.
func (x *cx) wantHeader(base int64) *osmpbf.Header {
	if base == 0 {
		return x.d.file.ExpectedHeader() // nil for a file without a header block
	}
	return nil
}

// stage runs one scanner on rd (which starts at absolute offset base), takes stop
// objects, checks both offsets after every Scan and returns the offsets reported
// at the stop. pre names the scanner in violation keys ("" = the first one).
func (x *cx) stage(pre string, base int64, stop int, rd io.Reader, hdr int, toEnd bool) (F, P int64, got []osm.Object, ok bool) {
	from := x.from(base)
	s := osmpbf.New(context.Background(), rd, x.c.Procs)
	configure(x.c.Flags, x.c.Flt)(s)
	defer s.Close()
	header := func(when string) bool {
		if hdr == 0 {
			return true
		}
		h, err := s.Header()
		if err != nil {
			x.fail(pre+"header-call/error", fmt.Sprintf("Header() %s (reader started at %d): %v", when, base, err))
			return false
		}
		if d := pbfgen.DiffHeader(h, x.wantHeader(base)); d != "" {
			x.fail(pre+"header-call/value", fmt.Sprintf("Header() %s (reader started at %d): %s", when, base, d))
			return false
		}
		return true
	}
	if !header("before the first Scan") {
		return
	}
	if hdr != 0 {
		// the pipeline is running and has read ahead; nothing was returned yet
		if f, p := s.FullyScannedBytes(), s.PreviousFullyScannedBytes(); f != 0 || p != 0 {
			x.fail(pre+"offsets-before-first-scan", fmt.Sprintf("after Header() and before the first Scan (reader started at %d): FullyScannedBytes=%d PreviousFullyScannedBytes=%d, want 0 0", base, f, p))
			return
		}
	}
	for k := 0; k < stop; k++ {
		if !s.Scan() {
			x.fail(pre+"scan-ended-early", fmt.Sprintf("reader started at %d: Scan false after %d of %d objects, err=%v", base, k, len(x.objs)-from, s.Err()))
			return
		}
		got = append(got, s.Object())
		if !header(fmt.Sprintf("after object %d", k)) {
			return
		}
		// the offsets must be right after EVERY scan, not only the last
		wantF, wantP := x.wantOffsets(from+k, base)
		if f := s.FullyScannedBytes(); f != wantF {
			x.fail(pre+"fully-scanned-bytes", fmt.Sprintf("reader started at %d: after object %d FullyScannedBytes=%d want %d (block %d at absolute offset %d)", base, k, f, wantF, x.blocks[from+k], wantF+base))
			return
		}
		if p := s.PreviousFullyScannedBytes(); p != wantP {
			x.fail(pre+"previous-fully-scanned-bytes", fmt.Sprintf("reader started at %d: after object %d PreviousFullyScannedBytes=%d want %d (F=%d)", base, k, p, wantP, wantF))
			return
		}
	}
	F, P = s.FullyScannedBytes(), s.PreviousFullyScannedBytes()
	if toEnd {
		// stop is the number of objects left: the next Scan must report the end
		// (the offsets after it are not judged)
		if s.Scan() {
			x.fail(pre+"objects", fmt.Sprintf("reader started at %d: an object (%s) after the %d expected", base, pbfgen.IDs([]osm.Object{s.Object()}), stop))
			return
		}
		if err := s.Err(); err != nil {
			x.fail(pre+"error", fmt.Sprintf("reader started at %d: %v after %d objects", base, err, stop))
			return
		}
	}
	s.Close()
	// the stop: the offsets are still there to be read once the scanner is closed (the
	// library's own restart example closes first and then seeks to FullyScannedBytes)
	if !toEnd && stop > 0 {
		if f2, p2 := s.FullyScannedBytes(), s.PreviousFullyScannedBytes(); f2 != F || p2 != P {
			x.fail(pre+"offsets-after-close", fmt.Sprintf("reader started at %d: after %d objects FullyScannedBytes / PreviousFullyScannedBytes were %d / %d, after Close they are %d / %d", base, stop, F, P, f2, p2))
			return
		}
	}
	if d := pbfgen.DiffObjects(got, x.objs[from:from+stop]); d != "" {
		x.fail(pre+"prefix", d)
		return
	}
	return F, P, got, true
}

type result struct {
	Header    *osmpbf.Header
	HeaderErr error
	Objects   []osm.Object
	Err       error
}

// scanAll: Header(), then scan to the end.
func (x *cx) scanAll(rd io.Reader) (res result) {
	s := osmpbf.New(context.Background(), rd, x.c.Procs)
	configure(x.c.Flags, x.c.Flt)(s)
	res.Header, res.HeaderErr = s.Header()
	for s.Scan() {
		res.Objects = append(res.Objects, s.Object())
	}
	res.Err = s.Err()
	s.Close()
	return
}

// resumeAt starts a new scanner on an independent reader over data[off:] and
// demands exactly the objects of the blocks from off on.
func (x *cx) resumeAt(pre, name string, off int64) (res result, ok bool) {
	if off < 0 || off > x.lay.src.Len() {
		x.fail(pre+"offset-out-of-range", fmt.Sprintf("%s=%d", name, off))
		return
	}
	want := x.objs[x.from(off):]
	res = x.scanAll(x.lay.src.open(off, rdPlain))
	if res.Err != nil || res.HeaderErr != nil {
		x.fail(pre+"resume-error/"+name, fmt.Sprintf("resume at %s=%d: header err %v, scan err %v", name, off, res.HeaderErr, res.Err))
		return
	}
	startsWithHeader := off == 0 && x.d.file.Header != nil
	if !startsWithHeader && res.Header != nil {
		x.fail(pre+"resume-header/"+name, fmt.Sprintf("resume at %s=%d: Header() = %+v for a stream that starts with a data block", name, off, res.Header))
		return
	}
	if d := pbfgen.DiffObjects(res.Objects, want); d != "" {
		x.fail(pre+"resume-objects/"+name, fmt.Sprintf("resume at %s=%d: %s", name, off, d))
		return
	}
	return res, true
}

func runCase(r *kit.Run, c ccase) {
	d := defByName(c.FileName)
	if d == nil {
		kit.Fatalf("unknown file %q", c.FileName)
	}
	x := &cx{r: r, c: c, d: d, lay: d.layout()}
	x.objs, x.blocks = filtered(d.file, c.Flags, c.Flt)
	lay := x.lay

	F, P, got, ok := x.stage("", 0, c.Stop, lay.src.open(0, c.Rd), c.Hdr, false)
	if !ok {
		return
	}
	wantF, wantP := int64(0), int64(0)
	curBlock := -1
	if c.Stop > 0 {
		curBlock = x.blocks[c.Stop-1]
		wantF, wantP = x.wantOffsets(c.Stop-1, 0)
	}
	nt := c.Stop > 0 && wantF > 0
	r.Case(fmt.Sprintf("%s|%d|%d|%d|%d|%d|%d|%v", c.FileName, c.Flags, c.Procs, c.Stop, c.Hdr, c.Rd, c.Flt, c.Chain), nt)
	if r.WantSample() && nt {
		starts := lay.starts
		if len(starts) > 12 {
			starts = starts[:12]
		}
		r.Sample(map[string]interface{}{"file": c.FileName, "flags": c.Flags, "procs": c.Procs, "stop_after": c.Stop, "header_calls": c.Hdr, "reader": c.Rd, "filters": c.Flt, "then_stops": c.Chain, "F": F, "P": P, "block_starts": starts})
	}
	if F != wantF {
		x.fail("fully-scanned-bytes", fmt.Sprintf("FullyScannedBytes=%d want %d", F, wantF))
		return
	}
	if P != wantP {
		x.fail("previous-fully-scanned-bytes", fmt.Sprintf("PreviousFullyScannedBytes=%d want %d (F=%d)", P, wantP, F))
		return
	}

	if len(c.Chain) > 0 {
		// (the resumes of the first stop are judged by the case without a chain)
		x.chain(F, c.Chain)
		return
	}

	// resume at both offsets
	for _, off := range []struct {
		name string
		v    int64
	}{{"F", F}, {"P", P}} {
		if off.name == "P" && P == F && lay.src.Len() > 1<<20 {
			continue // large files: not the same scan of the same bytes twice
		}
		res, ok := x.resumeAt("", off.name, off.v)
		if !ok {
			return
		}
		if off.name != "F" {
			continue
		}
		// the same resume the way a caller with a file does it: one reader over the
		// whole data, positioned with Seek. Offsets are "relative to where the
		// reader started", so this scanner reports them relative to off.v, and a
		// second resume at off.v + reported lands on a block again.
		if c.Procs <= 3 {
			n := len(x.objs) - x.from(off.v)
			if _, _, _, ok := x.stage("resume-seeked-reader/", off.v, n, lay.src.openSeek(off.v, c.Rd), c.Hdr, true); !ok {
				return
			}
		}
		// prefix before the block + resumed suffix == whole sequence (for F)
		if c.Stop > 0 {
			n := 0
			for i := range x.objs {
				if x.blocks[i] < curBlock {
					n++
				}
			}
			whole := append(append([]osm.Object{}, got[:n]...), res.Objects...)
			if d := pbfgen.DiffObjects(whole, x.objs); d != "" {
				x.fail("prefix-plus-suffix", d)
				return
			}
		}
	}
}

// chain: a scanner on a reader over the whole data positioned at base (the
// offset the previous scanner reported, made absolute) stops after stops[0]
// objects; the offsets it reports are relative to base; new scanners at
// base+F and base+P must deliver exactly the rest; then the same again from
// base+F with stops[1:].
func (x *cx) chain(base int64, stops []int) {
	for level, stop := range stops {
		pre := fmt.Sprintf("chain%d/", level+1)
		from := x.from(base)
		if lay := x.lay; base < 0 || base > lay.src.Len() {
			x.fail(pre+"offset-out-of-range", fmt.Sprintf("resume offset %d", base))
			return
		}
		if stop > len(x.objs)-from {
			kit.Fatalf("%s: chained stop %d beyond the %d remaining objects", x.c.String(), stop, len(x.objs)-from)
		}
		F, P, _, ok := x.stage(pre, base, stop, x.lay.src.openSeek(base, x.c.Rd), x.c.Hdr, false)
		if !ok {
			return
		}
		if stop == 0 && (F != 0 || P != 0) {
			x.fail(pre+"offsets-before-first-scan", fmt.Sprintf("resumed at %d, no Scan yet: FullyScannedBytes=%d PreviousFullyScannedBytes=%d, want 0 0", base, F, P))
			return
		}
		// (for stop > 0 stage compared F and P with the model after the last Scan)
		if _, ok := x.resumeAt(pre, "F", base+F); !ok {
			return
		}
		if _, ok := x.resumeAt(pre, "P", base+P); !ok {
			return
		}
		base += F
	}
}
