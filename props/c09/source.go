package main

import (
	"bytes"
	"io"

	"verif/kit"
)

// A source is the byte form of one file: real bytes for ordinary files, a list
// of segments that share their backing arrays for files too large to hold
// (offsets beyond 2^31 / 2^32 need > 4 GiB of input).
type source struct {
	data []byte   // set for materialised files
	segs [][]byte // otherwise: the file is the concatenation of segs
	cum  []int64  // cum[i] = offset of segs[i]; cum[len] = total length
}

func (s *source) Len() int64 {
	if s.segs == nil {
		return int64(len(s.data))
	}
	return s.cum[len(s.segs)]
}

// Reader kinds (dimension Rd of a case).
const (
	rdPlain   = 0 // bytes.Reader (segment reader for virtual files): hands out whatever is asked for
	rdChunked = 1 // short reads: never more than a few bytes per Read
	rdDataEOF = 2 // the last bytes of the stream come together with io.EOF (allowed by io.Reader)
)

// open returns an independent reader over the bytes [off, len): what a caller
// gets from data[off:].
func (s *source) open(off int64, rd int) io.Reader {
	if rd == rdPlain && s.segs == nil {
		return bytes.NewReader(s.data[off:])
	}
	return &vreader{s: s, base: off, pos: off, rd: rd}
}

// openSeek returns one reader over the WHOLE file positioned at off with Seek:
// what a caller with an *os.File does. "Relative to where the reader started"
// means relative to off.
func (s *source) openSeek(off int64, rd int) io.Reader {
	if rd == rdPlain && s.segs == nil {
		r := bytes.NewReader(s.data)
		if _, err := r.Seek(off, io.SeekStart); err != nil {
			kit.Fatalf("seek: %v", err)
		}
		return r
	}
	r := &vreader{s: s, rd: rd}
	if _, err := r.Seek(off, io.SeekStart); err != nil {
		kit.Fatalf("seek: %v", err)
	}
	return r
}

// vreader reads a source from an absolute position.
type vreader struct {
	s    *source
	base int64 // Seek offsets are relative to base (0 for openSeek)
	pos  int64 // absolute
	seg  int   // hint: segment holding pos
	rd   int
}

func (r *vreader) Seek(off int64, whence int) (int64, error) {
	switch whence {
	case io.SeekStart:
		r.pos = r.base + off
	case io.SeekCurrent:
		r.pos += off
	case io.SeekEnd:
		r.pos = r.s.Len() + off
	}
	r.seg = 0
	return r.pos - r.base, nil
}

func (r *vreader) chunk() int {
	if r.rd != rdChunked {
		return 1 << 30
	}
	if r.s.Len() < 1<<20 {
		return 3
	}
	return 65521 // large files: short, misaligned reads without millions of calls
}

func (r *vreader) Read(p []byte) (int, error) {
	total := r.s.Len()
	if r.pos >= total {
		return 0, io.EOF
	}
	if len(p) == 0 {
		return 0, nil
	}
	if c := r.chunk(); len(p) > c {
		p = p[:c]
	}
	var n int
	if r.s.segs == nil {
		n = copy(p, r.s.data[r.pos:])
	} else {
		for r.s.cum[r.seg+1] <= r.pos {
			r.seg++
		}
		n = copy(p, r.s.segs[r.seg][r.pos-r.s.cum[r.seg]:])
	}
	r.pos += int64(n)
	if r.rd == rdDataEOF && r.pos >= total {
		return n, io.EOF
	}
	return n, nil
}
