//go:build verif

// Families added by the boundary audit of C07: scenario shapes, values and
// combinations outside the alphabets of the families in main.go.
package main

import "verif/engine/vexplore"

// auditFamilies returns the added scenarios for the tier. N is the number of
// objects in the standard PBF file.
func auditFamilies(quick bool, N int) []vexplore.Scenario {
	var scs []vexplore.Scenario
	add := func(h history, d int) {
		if h.Format == "xml" {
			h.Procs, h.HeaderAt = 1, -1
		}
		scs = append(scs, scenario(h, d))
	}
	sw := func(h history, d int) {
		sc := scenario(h, d)
		sc.SwitchMode = true
		sc.Name += " switch-mode"
		sc.Family += " switch-mode"
		scs = append(scs, sc)
	}
	// pick: a for the quick tier, b for the thorough tier
	pick := func(a, b []int) []int {
		if quick {
			return a
		}
		return b
	}
	d1 := 1
	d2 := 1
	if !quick {
		d2 = 2
	}
	own := []int{stopClose, stopCancel, stopCancelThenClose, stopCloseThenCancel}
	all5 := []int{stopClose, stopCancel, stopCancelOther, stopCancelThenClose, stopCloseThenCancel}
	cancelling := []int{stopCancel, stopCancelOther, stopCancelThenClose, stopCloseThenCancel}
	kFor := func(stop, k int) int {
		if stop == stopCancelOther {
			return 0
		}
		return k
	}

	// family D: the context ends with context.DeadlineExceeded (the parent's
	// deadline passes): "the context's error" is then that error, not Canceled
	for _, p := range pick([]int{1, 2}, []int{1, 2, 12}) {
		for _, stop := range cancelling {
			add(history{Format: "pbf", Procs: p, K: kFor(stop, 3), HeaderAt: -1, Stop: stop, Post: "SECSEH", CtxKind: ctxDeadline}, d1)
		}
	}
	for _, stop := range cancelling {
		if stop != stopCancelOther {
			add(history{Format: "pbf", Procs: 1, K: 1, HeaderAt: -1, Stop: stop, Post: "SECSEH", CtxKind: ctxDeadline}, 0)
		}
		add(history{Format: "xml", K: kFor(stop, 3), Stop: stop, Post: "SECSE", CtxKind: ctxDeadline}, 2)
	}
	// ... and with a cause (context.WithCancelCause): Err() of the context is still Canceled
	for _, stop := range cancelling {
		add(history{Format: "pbf", Procs: 2, K: kFor(stop, 3), HeaderAt: -1, Stop: stop, Post: "SECSE", CtxKind: ctxCause}, d1)
		add(history{Format: "xml", K: kFor(stop, 3), Stop: stop, Post: "SECSE", CtxKind: ctxCause}, d1)
	}
	add(history{Format: "pbf", Procs: 1, K: 0, HeaderAt: -1, Stop: stopClose, Post: "HSEC", CtxKind: ctxDeadline, PreCancelled: true}, d1)
	add(history{Format: "xml", K: 0, Stop: stopClose, Post: "SEC", CtxKind: ctxDeadline, PreCancelled: true}, d1)

	// family Z: decoder counts the scanner has to correct (0, negative), and in
	// the thorough tier the remaining capacity steps (10/5 = 2, 10/6 = 1) and far
	// more decoders than blocks
	for _, p := range pick([]int{0, -1}, []int{0, -1, -1 << 31, 5, 6, 32}) {
		for _, stop := range all5 {
			add(history{Format: "pbf", Procs: p, K: kFor(stop, 3), HeaderAt: -1, Stop: stop, Post: "SE"}, d1)
		}
	}

	// family F: the reader fails (I/O error) in the header block, in the first
	// data block, in file block 3; then the stop; Err keeps the reader's error.
	// family E': damage at further positions (header block, first and last data block)
	for _, p := range []int{1, 2} {
		for _, at := range []int{-1, 1, 0} {
			for _, stop := range pick([]int{stopClose, stopCancel}, own) {
				d := d1
				if quick && p == 1 && at >= 0 {
					d = 0
				}
				add(history{Format: "pbf", Procs: p, HeaderAt: -1, Stop: stop, Post: "SECSE", IOErr: true, FaultAt: at}, d)
			}
		}
	}
	for _, at := range []int{-1, 1, pbfBlocks} {
		for _, stop := range pick([]int{stopClose, stopCancel}, own) {
			add(history{Format: "pbf", Procs: 2, HeaderAt: -1, Stop: stop, Post: "SECSE", Damaged: true, FaultAt: at}, d1)
		}
	}
	// ... the input ends inside the header block / the first / a later data block: the error
	// of the first attempt stays, whatever is called afterwards
	for _, at := range []int{-1, 1, 3} {
		for _, stop := range pick([]int{stopClose, stopCancel}, own) {
			for _, p := range []int{1, 2} {
				add(history{Format: "pbf", Procs: p, HeaderAt: -1, Stop: stop, Post: "SEHESECSE", Damaged: true, Cut: true, FaultAt: at}, d1)
			}
		}
	}
	for _, at := range []int{-1, 0} {
		for _, stop := range own {
			add(history{Format: "xml", Stop: stop, Post: "SECSE", IOErr: true, FaultAt: at}, 2)
		}
	}
	// a fault AND a second thread that cancels: whichever is seen first is the answer, and it stays
	for _, p := range pick([]int{2}, []int{1, 2, 12}) {
		add(history{Format: "pbf", Procs: p, HeaderAt: -1, Stop: stopCancelOther, Post: "SECSE", IOErr: true}, d1)
		add(history{Format: "pbf", Procs: p, HeaderAt: -1, Stop: stopCancelOther, Post: "SECSE", Damaged: true}, d1)
	}
	add(history{Format: "xml", Stop: stopCancelOther, Post: "SECSE", IOErr: true}, 2)
	add(history{Format: "xml", Stop: stopCancelOther, Post: "SECSE", Damaged: true}, 2)

	// family C: the cancelling goroutine is started in the middle of the scan
	// (child-below: it cancels the moment the consumer waits inside Scan; child-above:
	// between two Scans), every k under the default schedules, a grid with deviations
	for _, p := range []int{1, 2, 12} {
		for _, at := range pick([]int{1, 3}, []int{1, 2, 3, 5, N - 1, N}) {
			// quick: two deviations for 2 decoders, one for 1 and 12; thorough: 2 everywhere
			d := d2
			if p == 2 {
				d = 2
			}
			add(history{Format: "pbf", Procs: p, HeaderAt: -1, Stop: stopCancelOther, Post: "SECSEH", SpawnAt: at}, d)
		}
		for at := 1; at <= N; at++ {
			add(history{Format: "pbf", Procs: p, HeaderAt: -1, Stop: stopCancelOther, Post: "SE", SpawnAt: at}, 0)
		}
	}
	for at := 1; at <= 6; at++ {
		add(history{Format: "xml", Stop: stopCancelOther, Post: "SECSE", SpawnAt: at}, 2)
	}
	// family V: Close by the consumer after k objects while the second thread cancels
	for _, p := range pick([]int{1, 2}, []int{1, 2, 12}) {
		for _, k := range []int{1, 3} {
			for _, at := range []int{0, 1} {
				add(history{Format: "pbf", Procs: p, K: k, HeaderAt: -1, Stop: stopCloseVsCancel, Post: "SECSEH", SpawnAt: at}, d2)
			}
		}
	}
	for k := 0; k <= N+1; k++ {
		ats := []int{0}
		if k >= 1 {
			ats = append(ats, 1)
		}
		if k >= 2 {
			ats = append(ats, k)
		}
		for _, at := range ats {
			add(history{Format: "pbf", Procs: 1, K: k, HeaderAt: -1, Stop: stopCloseVsCancel, Post: "ESE", SpawnAt: at}, 0)
			add(history{Format: "pbf", Procs: 2, K: k, HeaderAt: -1, Stop: stopCloseVsCancel, Post: "ESE", SpawnAt: at}, 0)
		}
	}
	for _, k := range []int{0, 1, 3, 7} {
		for _, at := range []int{0, 1} {
			if at > k {
				continue
			}
			add(history{Format: "xml", K: k, Stop: stopCloseVsCancel, Post: "SECSE", SpawnAt: at}, 2)
		}
	}

	// family B: 30 data blocks - more than the channels hold, so the reader is
	// parked in its send with input unread in the DEFAULT schedules as well (with
	// 6 blocks and <= 10 decoders the reader reaches the end of the input before
	// the consumer has its first object unless a deviation holds it back)
	NB := 60
	for _, p := range []int{1, 2} {
		for _, stop := range all5 {
			for _, k := range []int{1, 3, 8, 30, NB, NB + 1} {
				if stop == stopCancelOther {
					add(history{Format: "pbf", Procs: p, HeaderAt: -1, Stop: stop, Post: "SECSEH", Blocks: 30, SpawnAt: k}, 0)
					continue
				}
				add(history{Format: "pbf", Procs: p, K: k, HeaderAt: -1, Stop: stop, Post: "SECSEH", Blocks: 30}, 0)
			}
		}
	}
	for _, p := range pick([]int{1}, []int{1, 2}) {
		for _, stop := range pick([]int{stopClose, stopCancel, stopCancelOther}, all5) {
			h := history{Format: "pbf", Procs: p, K: 3, HeaderAt: -1, Stop: stop, Post: "SE", Blocks: 30}
			if stop == stopCancelOther {
				h.K, h.SpawnAt = 0, 3
			}
			add(h, d1)
		}
	}

	// family O: nothing to scan (header block only / an empty osm element) and a
	// single data block: the first Scan already is the complete scan
	for _, p := range []int{1, 2} {
		for _, stop := range all5 {
			for _, k := range []int{0, 1} {
				if stop == stopCancelOther && k > 0 {
					continue
				}
				add(history{Format: "pbf", Procs: p, K: k, HeaderAt: -1, Stop: stop, Post: "SECSEH", Empty: true}, d1)
				add(history{Format: "pbf", Procs: p, K: k * 2, HeaderAt: -1, Stop: stop, Post: "SECSEH", Blocks: 1}, d1)
				if p == 1 {
					add(history{Format: "xml", K: k, Stop: stop, Post: "SECSE", Empty: true}, 2)
				}
			}
		}
	}

	// family K: skip flags - a Scan that runs across several blocks when it is stopped
	for _, p := range pick([]int{1, 2}, []int{1, 2, 12}) {
		for _, stop := range all5 {
			add(history{Format: "pbf", Procs: p, K: kFor(stop, 1), HeaderAt: -1, Stop: stop, Post: "SECSEH", Skip: true}, d1)
		}
	}
	for _, p := range []int{1, 2} {
		for _, stop := range all5 {
			for k := 0; k <= 5; k++ {
				if stop == stopCancelOther {
					add(history{Format: "pbf", Procs: p, HeaderAt: -1, Stop: stop, Post: "SE", Skip: true, SpawnAt: k}, 0)
					continue
				}
				add(history{Format: "pbf", Procs: p, K: k, HeaderAt: -1, Stop: stop, Post: "SE", Skip: true}, 0)
			}
		}
	}

	// family T': the input stalls in front of the first data block and in front of
	// the final end-of-input read; 12 decoders
	for _, p := range []int{1, 2, 12} {
		for _, g := range []int{1, 3, pbfBlocks + 1} {
			if g == 3 && p != 12 {
				continue // main.go, family T
			}
			add(history{Format: "pbf", Procs: p, K: 0, HeaderAt: -1, Stop: stopCancelOther, Post: "SE", Stalled: true, GateAt: g}, d1)
		}
	}
	// ... and once the stall ends the input only answers with temporary timeout errors
	for _, p := range []int{1, 2, 12} {
		for _, g := range []int{1, 3} {
			add(history{Format: "pbf", Procs: p, K: 0, HeaderAt: -1, Stop: stopCancelOther, Post: "SEC", Stalled: true, GateAt: g, TempErr: true}, d1)
		}
	}

	// family 2: two scanners on one context
	for _, p := range []int{1, 2} {
		for _, stop := range pick([]int{stopClose, stopCancel, stopCancelOther}, all5) {
			if quick && p == 2 && stop == stopCancel {
				continue
			}
			add(history{Format: "pbf", Procs: p, K: kFor(stop, 3), HeaderAt: -1, Stop: stop, Post: "SE", Twin: true}, d1)
		}
	}
	for _, stop := range all5 {
		add(history{Format: "xml", K: kFor(stop, 3), Stop: stop, Post: "SE", Twin: true}, 2)
		for k := 0; k <= N+1; k++ {
			if stop == stopCancelOther && k > 0 {
				continue
			}
			add(history{Format: "pbf", Procs: 2, K: k, HeaderAt: -1, Stop: stop, Post: "ES", Twin: true}, 0)
		}
	}

	// family W': switch mode (any single context switch) for 1 and 12 decoders with
	// a cancelling second thread, which the delay bound reaches only when all
	// other threads wait
	for _, p := range []int{1, 12} {
		sw(history{Format: "pbf", Procs: p, K: 0, HeaderAt: -1, Stop: stopCancelOther, Post: "SEC"}, 1)
		if !quick || p == 1 {
			for _, stop := range own {
				sw(history{Format: "pbf", Procs: p, K: 3, HeaderAt: -1, Stop: stop, Post: "SEC"}, 1)
			}
		}
	}
	sw(history{Format: "pbf", Procs: 2, K: 1, HeaderAt: -1, Stop: stopCloseVsCancel, Post: "SEC"}, 1)
	return scs
}
