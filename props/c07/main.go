//go:build verif

// C07 — Close and cancellation stop PBF/XML scans promptly, cleanly and race-free.
//
// Engine A. Call histories (Header|Scan)^k ; stop ; (Scan|Err|Close|Header)^m are
// scenario parameters; for each history the schedules of the pipeline threads
// (and of a second, cancelling thread) with at most D deviations are explored
// on the instrumented implementation and judged against a reference state
// machine. "Promptly" is measured in file blocks the reader begins after the
// stop, never in seconds.
package main

import (
	"context"
	"fmt"
	"strings"
	"time"

	"github.com/paulmach/osm"
	"github.com/paulmach/osm/osmpbf"
	"github.com/paulmach/osm/osmxml"
	"github.com/paulmach/osm/vsched"

	"verif/engine/pbfscen"
	"verif/engine/vexplore"
	"verif/gen/pbfgen"
	"verif/kit"
)

const (
	stopClose = iota
	stopCancel
	stopCancelOther
	stopCancelThenClose
	stopCloseThenCancel
)

var stopNames = []string{"Close", "cancel", "cancel-from-second-thread", "cancel-then-Close", "Close-then-cancel"}

type history struct {
	Format   string // "pbf" or "xml"
	Procs    int
	K        int // successful Scans wanted before the stop (ignored for cancel-from-second-thread: scan to the end)
	HeaderAt int // call Header() before the i-th Scan (-1 = never); PBF only
	Stop     int
	Post     string // letters S (Scan), E (Err), C (Close), H (Header)
	// Damaged: the input is corrupt after a valid prefix; the consumer scans
	// until Scan returns false (an error is recorded), then stops, and Err must
	// keep reporting that earlier error.
	Damaged bool
	// FinalClose: call Close once more at the very end (otherwise the threads
	// must have terminated by themselves after the stop).
	FinalClose bool
	// NilCtx: the scanner is created with a nil context (documented as allowed):
	// Close is then the only way to stop it, and it has to work all the same.
	NilCtx bool
	// Stalled: the input stalls (a Read that does not return) before file block 3
	// until the consumer has seen Scan return false: a cancellation from another
	// goroutine must end the Scan in progress although the reader is parked.
	Stalled bool
	// PreCancelled: the context is cancelled BEFORE the scanner is created; the
	// history's own stop comes on top of that.
	PreCancelled bool
	// Headerless: the stream starts with a data block (a scan resumed at a
	// reported offset); the reader goroutine then hands that first block over
	// before its loop starts.
	Headerless bool
}

func (h history) name() string {
	d := ""
	if h.Damaged {
		d = " damaged-input"
	}
	if h.FinalClose {
		d += " final-close"
	}
	if h.NilCtx {
		d += " nil-context"
	}
	if h.Stalled {
		d += " stalled-input"
	}
	if h.PreCancelled {
		d += " context-cancelled-before-New"
	}
	if h.Headerless {
		d += " headerless-stream"
	}
	return fmt.Sprintf("%s%s procs=%d scans=%d headerAt=%d stop=%s post=%s", h.Format, d, h.Procs, h.K, h.HeaderAt, stopNames[h.Stop], h.Post)
}

const pbfBlocks = 6

var (
	pbfFile = pbfscen.File(pbfBlocks, true)
	pbfEnc  = pbfFile.Encode()
	// the same data blocks without the header block: a stream resumed mid-file
	pbfEncNoHeader = pbfscen.File(pbfBlocks, false).Encode()
	pbfWant        = pbfFile.Expected()
	xmlDoc         = buildXML()

	// damaged inputs: two valid data blocks, then a block whose blob is not a
	// protobuf message, then one more valid block / three nodes, then a
	// mismatched end tag
	pbfDamaged, pbfDamagedWant = buildDamagedPBF()
	xmlDamaged                 = []byte(strings.Replace(string(xmlDoc), `<node id="4"`, `<node id="4"></way><node id="44"`, 1))
)

func buildDamagedPBF() ([]byte, []osm.Object) {
	var data []byte
	var want []osm.Object
	data = append(data, pbfgen.EncodeFileBlock("OSMHeader", pbfgen.EncodeBlob(pbfgen.StdHeader().Bytes(), pbfgen.BlobOpts{}), pbfgen.FileBlockOpts{})...)
	for i := range pbfFile.Blocks {
		b := &pbfFile.Blocks[i]
		o := pbfgen.BlobOpts{}
		if i == 2 {
			o.Garbage = true
		}
		data = append(data, pbfgen.EncodeFileBlock("OSMData", pbfgen.EncodeBlob(b.PrimitiveBlock(), o), pbfgen.FileBlockOpts{})...)
		if i < 2 {
			want = append(want, b.Expected()...)
		}
	}
	return data, want
}

func buildXML() []byte {
	var b strings.Builder
	b.WriteString(`<?xml version="1.0" encoding="UTF-8"?>` + "\n<osm version=\"0.6\" generator=\"verif\">\n")
	for i := 1; i <= 6; i++ {
		fmt.Fprintf(&b, " <node id=\"%d\" lat=\"%d.5\" lon=\"-%d.25\" version=\"%d\" visible=\"true\"><tag k=\"name\" v=\"node number %d with some padding text to make the document longer\"/></node>\n", i, i, i, i, i)
		if i == 2 || i == 4 {
			// a long stretch that yields no object: unknown elements and comments
			// (a Scan in progress must still notice a cancellation here)
			for j := 0; j < 16; j++ {
				fmt.Fprintf(&b, " <gpx_file id=\"%d\" name=\"trace %d\" visibility=\"public\"/><!-- nothing to see here, number %d -->\n", j, j, j)
			}
		}
	}
	b.WriteString("</osm>\n")
	return []byte(b.String())
}

// scanner is what the two scanners have in common.
type scanner interface {
	Scan() bool
	Object() osm.Object
	Err() error
	Close() error
}

type postResult struct {
	op  byte
	b   bool
	err error
}

func scenario(h history, bound int) vexplore.Scenario {
	fam := fmt.Sprintf("%s procs=%d stop=%s D=%d", h.Format, h.Procs, stopNames[h.Stop], bound)
	total := len(pbfWant)
	if h.Format == "xml" {
		total = 6
	}
	if h.Damaged {
		fam += " damaged-input"
		total = len(pbfDamagedWant)
		if h.Format == "xml" {
			total = 3
		}
	}
	return vexplore.Scenario{Name: h.name(), Family: fam, Bound: bound, RacesAreFindings: true, MaxSteps: 200000,
		New: func() (func(), func(*vsched.Outcome) ([]vexplore.Finding, string, bool)) {
			var (
				got                []osm.Object
				atReturn           []string
				ended              bool // Scan returned false before the stop was issued by the consumer
				stopIssued         bool
				phase              = "start"
				blocksAtStop       = -1
				blocksAtCall       = -1
				posAtCall          = -1
				posAtStop          = -1
				post               []postResult
				finalCloseReturned bool
				rd                 *pbfscen.Reader
				errBeforeStop      error
				errAtEnd           error
			)
			main := func() {
				ctx, cancel := vsched.WithCancel(nil)
				if h.NilCtx {
					ctx = nil
				}
				if h.PreCancelled {
					cancel()
				}
				var s scanner
				var ps *osmpbf.Scanner
				if h.Format == "pbf" {
					rd = &pbfscen.Reader{Data: pbfEnc.Data, BlockOnly: true}
					if h.Headerless {
						rd.Data = pbfEncNoHeader.Data
					}
					if h.Damaged {
						rd.Data = pbfDamaged
					}
					if h.Stalled {
						rd.Gate, rd.GateAt = vsched.MakeChan[struct{}](0), 3
					}
					ps = osmpbf.New(ctx, rd, h.Procs)
					s = ps
				} else {
					rd = &pbfscen.Reader{Data: xmlDoc, MaxChunk: 160}
					if h.Damaged {
						rd.Data = xmlDamaged
					}
					s = osmxml.New(ctx, rd)
				}
				vsched.OnCancel = func() {
					if blocksAtStop < 0 {
						blocksAtStop, posAtStop = rd.BlocksBegun, rd.Pos
					}
				}
				defer func() { vsched.OnCancel = nil }()
				if h.Stop == stopCancelOther {
					vsched.GoNamed("canceller", func() { cancel() })
				}
				phase = "scanning"
				limit := h.K
				if h.Stop == stopCancelOther || h.Damaged {
					limit = 1 << 20
				}
				for i := 0; i < limit; i++ {
					if ps != nil && i == h.HeaderAt {
						ps.Header()
					}
					if !s.Scan() {
						ended = true
						break
					}
					o := s.Object()
					got = append(got, o)
					d := ""
					if h.Format == "pbf" {
						if len(got) <= len(pbfWant) {
							d = pbfgen.DiffObject(o, pbfWant[len(got)-1])
						} else {
							d = "more objects than the file holds"
						}
					} else if n, ok := o.(*osm.Node); !ok || int(n.ID) != len(got) {
						d = fmt.Sprintf("xml object %d is %v", len(got), o)
					}
					atReturn = append(atReturn, d)
				}
				if ended {
					errBeforeStop = s.Err()
				}
				if rd.Gate != nil {
					rd.Gate.Close() // the stalled Read returns now
				}
				phase = "stopping"
				stopIssued = true
				if h.Stop != stopCancelOther {
					blocksAtCall, posAtCall = rd.BlocksBegun, rd.Pos
				}
				switch h.Stop {
				case stopClose:
					s.Close()
				case stopCancel:
					cancel()
				case stopCancelThenClose:
					cancel()
					s.Close()
				case stopCloseThenCancel:
					s.Close()
					cancel()
				}
				phase = "post"
				for i := 0; i < len(h.Post); i++ {
					switch h.Post[i] {
					case 'S':
						post = append(post, postResult{op: 'S', b: s.Scan()})
					case 'E':
						post = append(post, postResult{op: 'E', err: s.Err()})
					case 'C':
						post = append(post, postResult{op: 'C', err: s.Close()})
					case 'H':
						if ps != nil {
							_, err := ps.Header()
							post = append(post, postResult{op: 'H', err: err})
						}
					}
				}
				phase = "final-close"
				errAtEnd = s.Err()
				if h.FinalClose {
					s.Close()
				}
				finalCloseReturned = true
				phase = "done"
				// no cleanup beyond this point: every thread the scanner started must
				// come to an end by itself once the scan was stopped (or completed)
			}
			check := func(o *vsched.Outcome) ([]vexplore.Finding, string, bool) {
				var fs []vexplore.Finding
				add := func(k, m string) {
					fs = append(fs, vexplore.Finding{Key: h.Format + "/" + k + "/" + stopNames[h.Stop], Msg: m})
				}
				complete := len(got) == total && ended
				// the moment of the stop: the cancelling operation itself when there was
				// one (exact), else the moment the consumer issued the stop call
				if blocksAtStop < 0 {
					blocksAtStop, posAtStop = blocksAtCall, posAtCall
				}
				unreadAtStop := 0
				if blocksAtStop >= 0 {
					unreadAtStop = pbfBlocks + 1 - blocksAtStop // +1: the header block
					if h.Headerless {
						unreadAtStop--
					}
				}
				nonvac := stopIssued && !complete && (h.Format == "xml" || unreadAtStop >= 4 || h.K == 0)
				tag := fmt.Sprintf("%d objs, %d blocks at stop, %d at end, err=%v", len(got), blocksAtStop, rdBlocks(rd), errAtEnd)
				if o.Kind != "ok" {
					add(o.Kind, fmt.Sprintf("execution ended in %s during phase %q: %s", o.Kind, phase, o.Detail))
					return fs, tag, nonvac
				}
				if h.Damaged {
					// reference: the valid prefix, then an error that stays the answer of Err
					if len(got) != total {
						add("damaged/prefix", fmt.Sprintf("%d objects delivered before the error, want %d", len(got), total))
					}
					if !ended || errBeforeStop == nil || errBeforeStop == osm.ErrScannerClosed || errBeforeStop == context.Canceled {
						add("damaged/no-error", fmt.Sprintf("Scan ended=%v with Err()=%v on damaged input", ended, errBeforeStop))
						return fs, tag, true
					}
					for i, p := range post {
						switch p.op {
						case 'S':
							if p.b {
								add("scan-true-after-stop", fmt.Sprintf("post call %d: Scan returned true after an error and %s", i, stopNames[h.Stop]))
							}
						case 'E':
							if p.err == nil || p.err.Error() != errBeforeStop.Error() {
								add("earlier-error-lost", fmt.Sprintf("post call %d: Err()=%v after %s, the error recorded earlier was %v", i, p.err, stopNames[h.Stop], errBeforeStop))
							}
						}
					}
					if errAtEnd == nil || errAtEnd.Error() != errBeforeStop.Error() {
						add("earlier-error-lost", fmt.Sprintf("Err()=%v at the end, the error recorded earlier was %v", errAtEnd, errBeforeStop))
					}
					if !finalCloseReturned {
						add("close-did-not-return", "final Close did not return")
					}
					return fs, tag, true
				}
				for i, d := range atReturn {
					if d != "" {
						add("sequence", fmt.Sprintf("object %d: %s", i, d))
						break
					}
				}
				if h.Format == "pbf" {
					for i, ob := range got {
						if i < len(pbfWant) && atReturn[i] == "" {
							if d := pbfgen.DiffObject(ob, pbfWant[i]); d != "" {
								add("modified-after-return", fmt.Sprintf("object %d: %s", i, d))
								break
							}
						}
					}
				}
				if ended && h.Stop != stopCancelOther && len(got) != total {
					add("scan-ended-early", fmt.Sprintf("Scan returned false after %d of %d objects without any stop, Err=%v", len(got), total, errBeforeStop))
				}
				if ended && h.Stop != stopCancelOther && errBeforeStop != nil {
					add("error-on-complete-scan", fmt.Sprintf("Err()=%v after a complete scan", errBeforeStop))
				}
				// reference machine for the calls after the stop
				closed := h.Stop == stopClose || h.Stop == stopCancelThenClose || h.Stop == stopCloseThenCancel
				cancelled := h.Stop != stopClose || h.PreCancelled
				if h.Stop == stopCancelOther {
					closed = false
				}
				checkErr := func(where string, err error) {
					switch {
					case complete && h.Stop != stopCancelOther:
						if err != nil {
							add("err-after-complete-scan", fmt.Sprintf("%s: Err()=%v, want nil after a complete scan", where, err))
						}
					case complete:
						// All objects were delivered and Scan returned false: either the
						// end of input was seen (nil) or the concurrent cancellation was
						// seen first (context error, or the closed error once Close was called).
						if err != nil && err != context.Canceled && !(closed && err == osm.ErrScannerClosed) {
							add("err-value", fmt.Sprintf("%s: Err()=%v", where, err))
						}
					default:
						okClosed := closed && err == osm.ErrScannerClosed
						okCancelled := cancelled && err == context.Canceled
						if !okClosed && !okCancelled {
							add("err-value", fmt.Sprintf("%s: Err()=%v after %s with %d of %d objects delivered", where, err, stopNames[h.Stop], len(got), total))
						}
					}
				}
				for i, p := range post {
					switch p.op {
					case 'S':
						if p.b {
							add("scan-true-after-stop", fmt.Sprintf("post call %d: Scan returned true after %s", i, stopNames[h.Stop]))
						}
					case 'E':
						checkErr(fmt.Sprintf("post call %d", i), p.err)
					case 'C':
						closed = true
						if p.err != nil {
							add("close-error", fmt.Sprintf("post call %d: Close returned %v", i, p.err))
						}
					}
				}
				if !finalCloseReturned {
					add("close-did-not-return", "final Close did not return")
				}
				// promptness, in blocks / reads
				if h.Format == "pbf" && !h.Damaged && blocksAtStop >= 0 && unreadAtStop >= 4 {
					if begun := rd.BlocksBegun - blocksAtStop; begun > 2 {
						add("reads-on-after-stop", fmt.Sprintf("%d file blocks were still unread when the scan was stopped; the reader began %d more blocks afterwards (at most 2 allowed), %d of %d bytes consumed at the end", unreadAtStop, begun, rd.Pos, len(rd.Data)))
					}
				}
				// XML: a Scan in progress when a second thread cancels may finish its
				// element (about 200 bytes here, read in 160-byte chunks: 480 bytes allowed); judged when at least half of the
				// document was unread at the stop.
				if h.Format == "xml" && posAtStop >= 0 && len(rd.Data)-posAtStop >= len(rd.Data)/2 {
					if more := rd.Pos - posAtStop; more > 480 {
						add("reads-on-after-stop", fmt.Sprintf("the XML scanner consumed %d more bytes after the stop (%d of %d consumed at the stop)", more, posAtStop, len(rd.Data)))
					}
				}
				return fs, tag, nonvac
			}
			return main, check
		}}
}

func rdBlocks(r *pbfscen.Reader) int {
	if r == nil {
		return -1
	}
	return r.BlocksBegun
}

func postSeqs(maxLen int, alphabet string) []string {
	out := []string{""}
	var rec func(cur string)
	rec = func(cur string) {
		if len(cur) == maxLen {
			return
		}
		for i := 0; i < len(alphabet); i++ {
			nx := cur + string(alphabet[i])
			out = append(out, nx)
			rec(nx)
		}
	}
	rec("")
	return out
}

func main() {
	kit.Main("C07", "model_checking", func(r *kit.Run) {
		r.Rule("call histories (Header|Scan)^k ; stop in {Close, cancel, cancel from a second thread, cancel then Close, Close then cancel} ; post calls over {Scan, Err, Close, Header}; " +
			"family T: the input stalls before the third data block until Scan has returned false, cancel from a second thread (a parked reader must not keep the Scan in progress from ending), D=1; family N: scanners created with a nil context, stopped by Close, D=1; family E: damaged input (error recorded, then stop: Err keeps the earlier error), D=1; family S: fixed post sequence SECSEH, k in a grid, every schedule with <= D deviations, both priority configurations; family H: every post sequence of length <= 2 (quick) / 3 (thorough) and every k, default schedules (D=0); " +
			"PBF input: header + 6 data blocks, XML input: 6 nodes and two 1.6 KB stretches of unknown elements and comments, read in 160-byte chunks; non-vacuous = the stop was issued with >= 4 file blocks unread (PBF) or before the end (XML); " +
			"distinct_nontrivial = distinct complete operation sequences among non-vacuous executions")
		r.Assume("promptness is a block count: the reader may begin at most 2 file blocks after the cancellation took effect (measured atomically at the cancelling operation); wall-clock latency is not measured")
		r.Assume("a Header/Scan that first starts the decoder AFTER the stop may read the header block (and one more): it falls under the same 2-block allowance; no final Close is issued, so a thread that survives the stop is a leak")
		var scs []vexplore.Scenario
		N := len(pbfWant)
		ks := []int{0, 1, 3, N + 1}
		procsS := []struct{ p, d int }{{1, 2}, {2, 2}, {12, 1}}
		budget := 7 * time.Minute
		if !r.Quick() {
			ks = []int{0, 1, 2, 3, 5, N, N + 1, N + 2}
			procsS = []struct{ p, d int }{{1, 3}, {2, 3}, {3, 2}, {12, 2}}
			budget = 40 * time.Minute
		}
		// family S: schedules
		for _, pd := range procsS {
			for stop := 0; stop < 5; stop++ {
				kk := ks
				if stop == stopCancelOther {
					kk = []int{0}
				}
				for _, k := range kk {
					hAt := -1
					if k >= 3 {
						hAt = 1
					}
					scs = append(scs, scenario(history{Format: "pbf", Procs: pd.p, K: k, HeaderAt: hAt, Stop: stop, Post: "SECSEH"}, pd.d))
					if pd.p == 1 && (k == 0 || k == 3) {
						scs = append(scs, scenario(history{Format: "pbf", Procs: pd.p, K: k, HeaderAt: hAt, Stop: stop, Post: "SH", FinalClose: true}, 1))
					}
				}
			}
		}
		for stop := 0; stop < 5; stop++ {
			kk := []int{0, 1, 3, 7}
			if stop == stopCancelOther {
				kk = []int{0}
			}
			for _, k := range kk {
				scs = append(scs, scenario(history{Format: "xml", Procs: 1, K: k, HeaderAt: -1, Stop: stop, Post: "SECSE"}, 3))
			}
		}
		// family P: decoder counts around the channel-capacity steps (10/n), one history per stop kind, D=1;
		// family W: switch mode (one context switch to any enabled thread costs 1) for procs 2
		for _, p := range []int{3, 4, 10, 11} {
			for stop := 0; stop < 5; stop++ {
				k := 3
				if stop == stopCancelOther {
					k = 0
				}
				scs = append(scs, scenario(history{Format: "pbf", Procs: p, K: k, HeaderAt: -1, Stop: stop, Post: "SE"}, 1))
			}
		}
		for stop := 0; stop < 5; stop++ {
			k := 3
			if stop == stopCancelOther {
				k = 0
			}
			sc := scenario(history{Format: "pbf", Procs: 2, K: k, HeaderAt: -1, Stop: stop, Post: "SEC"}, 1)
			sc.SwitchMode = true
			sc.Name += " switch-mode"
			sc.Family += " switch-mode"
			scs = append(scs, sc)
		}
		// family E: an error recorded before the stop stays the answer of Err
		for _, p := range []int{1, 2} {
			for stop := 0; stop < 5; stop++ {
				if stop == stopCancelOther {
					continue
				}
				scs = append(scs, scenario(history{Format: "pbf", Procs: p, HeaderAt: -1, Stop: stop, Post: "SECSE", Damaged: true}, 1))
			}
		}
		for stop := 0; stop < 5; stop++ {
			if stop == stopCancelOther {
				continue
			}
			scs = append(scs, scenario(history{Format: "xml", Procs: 1, HeaderAt: -1, Stop: stop, Post: "SECSE", Damaged: true}, 1))
		}
		// family T: stalled input + cancel from a second thread (D=1 lets the canceller run
		// when everything else is parked on the stalled read)
		for _, p := range []int{1, 2} {
			scs = append(scs, scenario(history{Format: "pbf", Procs: p, K: 0, HeaderAt: -1, Stop: stopCancelOther, Post: "SE", Stalled: true}, 1))
		}
		// family L: header-less streams (a resumed scan), decoder counts on both sides of
		// the step to unbuffered channels (10/n = 0 from n = 11), stopped before and
		// after the pipeline has started
		for _, p := range []int{1, 2, 11, 12} {
			for stop := 0; stop < 5; stop++ {
				for _, k := range []int{0, 1, 3} {
					if stop == stopCancelOther && k > 0 {
						continue
					}
					scs = append(scs, scenario(history{Format: "pbf", Procs: p, K: k, HeaderAt: -1, Stop: stop, Post: "SECSEH", Headerless: true}, 1))
				}
			}
			for _, stop := range []int{stopCancel, stopClose} {
				scs = append(scs, scenario(history{Format: "pbf", Procs: p, K: 0, HeaderAt: -1, Stop: stop, Post: "HSEC", PreCancelled: true, Headerless: true}, 1))
			}
		}
		// family R: the context is already cancelled when the scanner is created
		for _, stop := range []int{stopCancel, stopClose} {
			for _, p := range []int{1, 2} {
				scs = append(scs, scenario(history{Format: "pbf", Procs: p, K: 0, HeaderAt: -1, Stop: stop, Post: "SECSEH", PreCancelled: true}, 1))
				scs = append(scs, scenario(history{Format: "pbf", Procs: p, K: 0, HeaderAt: -1, Stop: stop, Post: "HSE", PreCancelled: true}, 1))
			}
			scs = append(scs, scenario(history{Format: "xml", Procs: 1, K: 0, HeaderAt: -1, Stop: stop, Post: "SECSE", PreCancelled: true}, 1))
		}
		// family N: nil context, stopped by Close
		for _, k := range []int{0, 1, 3, N + 1} {
			for _, p := range []int{1, 2} {
				scs = append(scs, scenario(history{Format: "pbf", Procs: p, K: k, HeaderAt: -1, Stop: stopClose, Post: "SECSEH", NilCtx: true}, 1))
			}
			scs = append(scs, scenario(history{Format: "xml", Procs: 1, K: k, HeaderAt: -1, Stop: stopClose, Post: "SECSE", NilCtx: true}, 1))
		}
		// family H: call histories under the default schedules
		postLen, hAts := 2, []int{-1}
		if !r.Quick() {
			postLen, hAts = 3, []int{-1, 0}
		}
		posts := postSeqs(postLen, "SECH")
		for _, p := range []int{1, 2} {
			for stop := 0; stop < 5; stop++ {
				for k := 0; k <= N+2; k++ {
					if stop == stopCancelOther && k > 0 {
						continue
					}
					for _, hAt := range hAts {
						for _, ps := range posts {
							scs = append(scs, scenario(history{Format: "pbf", Procs: p, K: k, HeaderAt: hAt, Stop: stop, Post: ps}, 0))
						}
					}
				}
			}
		}
		for stop := 0; stop < 5; stop++ {
			for k := 0; k <= 8; k++ {
				if stop == stopCancelOther && k > 0 {
					continue
				}
				for _, ps := range postSeqs(postLen, "SEC") {
					scs = append(scs, scenario(history{Format: "xml", Procs: 1, K: k, HeaderAt: -1, Stop: stop, Post: ps}, 0))
				}
			}
		}
		r.Set("scenarios", len(scs))
		e := &vexplore.Explorer{R: r, Scenarios: scs}
		e.Run(budget)
	})
}
