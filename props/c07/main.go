//go:build verif

// C07 — Close and cancellation stop PBF/XML scans promptly, cleanly and race-free.
//
// Engine A. Call histories (Header|Scan)^k ; stop ; (Scan|Err|Close|Header)^m are
// scenario parameters; for each history the schedules of the pipeline threads
// (and of a second, cancelling thread) with at most D deviations are explored
// on the instrumented implementation and judged against a reference state
// machine. "Promptly" is measured in file blocks the reader begins after the
// stop, never in seconds.
//
// main.go: the history type, the scenario driver with its oracle, the families
// S, P, W, E, T, L, R, N, H. families.go: the families of the boundary audit
// (context errors, decoder counts <= 0, failing readers, a canceller started in
// mid-scan, Close against a concurrent cancel, 30 / 1 / 0 data blocks, skip
// flags, stalls at other positions, two scanners on one context, switch mode
// for 1 and 12 decoders). inputs.go: the inputs and the failing reader.
package main

import (
	"context"
	"errors"
	"fmt"
	"io"
	"sort"
	"strings"
	"time"

	"github.com/paulmach/osm"
	"github.com/paulmach/osm/osmpbf"
	"github.com/paulmach/osm/osmxml"
	"github.com/paulmach/osm/vsched"

	"verif/engine/pbfscen"
	"verif/engine/vexplore"
	"verif/gen/pbfgen"
	"verif/kit"
)

const (
	stopClose = iota
	stopCancel
	stopCancelOther
	stopCancelThenClose
	stopCloseThenCancel
	// stopCloseVsCancel: a second thread cancels at a time of its own while the
	// consumer scans K objects and then calls Close (two stops that are each
	// covered alone, together)
	stopCloseVsCancel
)

var stopNames = []string{"Close", "cancel", "cancel-from-second-thread", "cancel-then-Close", "Close-then-cancel", "Close-while-second-thread-cancels"}

const (
	ctxOwn = iota
	// ctxDeadline: the scanner's context is the child of a context that ends
	// with context.DeadlineExceeded (a deadline that passes); "cancel" in the
	// history then means that moment.
	ctxDeadline
	// ctxCause: the scanner's context is the child of a context made with
	// context.WithCancelCause and cancelled with a reason of the caller's: Err()
	// of a context stays context.Canceled, and so does the scanner's.
	ctxCause
)

var callersReason = errors.New("c07: the caller's own reason for cancelling")

type history struct {
	Format   string // "pbf" or "xml"
	Procs    int
	K        int // successful Scans wanted before the stop (ignored for cancel-from-second-thread: scan to the end)
	HeaderAt int // call Header() before the i-th Scan (-1 = never); PBF only
	Stop     int
	Post     string // letters S (Scan), E (Err), C (Close), H (Header)
	// Damaged: the input is corrupt after a valid prefix; the consumer scans
	// until Scan returns false (an error is recorded), then stops, and Err must
	// keep reporting that earlier error.
	Damaged bool
	// Cut (with Damaged): instead of a garbage blob the input simply ENDS inside the fault
	// block; a start-up or a read that is tried again then meets a plain end of input.
	Cut bool
	// FinalClose: call Close once more at the very end (otherwise the threads
	// must have terminated by themselves after the stop).
	FinalClose bool
	// NilCtx: the scanner is created with a nil context (documented as allowed):
	// Close is then the only way to stop it, and it has to work all the same.
	NilCtx bool
	// Stalled: the input stalls (a Read that does not return) before file block 3
	// until the consumer has seen Scan return false: a cancellation from another
	// goroutine must end the Scan in progress although the reader is parked.
	Stalled bool
	// PreCancelled: the context is cancelled BEFORE the scanner is created; the
	// history's own stop comes on top of that.
	PreCancelled bool
	// Headerless: the stream starts with a data block (a scan resumed at a
	// reported offset); the reader goroutine then hands that first block over
	// before its loop starts.
	Headerless bool

	// ---- boundary audit (zero values: the histories as they were) ----

	// Blocks: data blocks of the PBF file (0 = the standard 6). 30 blocks are more
	// than the channels of one decoder hold (10 + 10 + 1): the reader is parked in
	// its send, with input unread, when the stop comes.
	Blocks int
	// Empty: nothing after the header block (PBF) / an osm element without
	// children (XML): the first Scan already is the complete scan.
	Empty bool
	// Skip: SkipNodes and SkipWays are set, only the relation blocks deliver
	// objects: one Scan runs across several blocks.
	Skip bool
	// IOErr: the READER fails (an I/O error, no damage) at the fault position; as
	// with Damaged the consumer scans until Scan returns false, then stops.
	IOErr bool
	// FaultAt: file block number of the fault of Damaged / IOErr histories
	// (0 = the default, file block 3; < 0 = the header block). XML, IOErr only:
	// >= 0 = before node 4, < 0 = the first read.
	FaultAt int
	// CtxKind: ctxOwn or ctxDeadline.
	CtxKind int
	// SpawnAt: the cancelling goroutine of cancel-from-second-thread /
	// Close-while-second-thread-cancels is started after this many successful
	// Scans (0 = before the first Scan, as before): with the child-below
	// configuration it cancels as soon as the consumer waits inside a Scan.
	SpawnAt int
	// GateAt: Stalled histories: file block number the input stalls in front of (0 = 3).
	GateAt int
	// TempErr: Stalled histories: once the stall ends, the stalled Read and every later
	// Read fail with an error whose Temporary() and Timeout() are true (what a
	// connection answers after its read deadline was moved into the past to stop
	// the scan). Such an error must not keep the reader going.
	TempErr bool
	// Twin: a second scanner with its own reader is created on the SAME context and
	// scanned in lock step. Close of the first must leave it alone (it delivers the
	// complete file, Err nil); a cancellation stops both.
	Twin bool
}

func (h history) name() string {
	d := ""
	if h.Damaged {
		d = " damaged-input"
	}
	if h.FinalClose {
		d += " final-close"
	}
	if h.NilCtx {
		d += " nil-context"
	}
	if h.Stalled {
		d += " stalled-input"
	}
	if h.PreCancelled {
		d += " context-cancelled-before-New"
	}
	if h.Headerless {
		d += " headerless-stream"
	}
	if h.Blocks > 0 {
		d += fmt.Sprintf(" %d-data-blocks", h.Blocks)
	}
	if h.Empty {
		d += " no-data"
	}
	if h.Skip {
		d += " skip-nodes-and-ways"
	}
	if h.IOErr {
		d += " failing-reader"
	}
	if h.FaultAt != 0 {
		d += fmt.Sprintf(" fault-in-file-block-%d", h.faultBlock())
	}
	if h.CtxKind == ctxDeadline {
		d += " parent-deadline-exceeded"
	}
	if h.CtxKind == ctxCause {
		d += " parent-cancelled-with-a-cause"
	}
	if h.SpawnAt > 0 {
		d += fmt.Sprintf(" canceller-started-after-%d-scans", h.SpawnAt)
	}
	if h.GateAt > 0 {
		d += fmt.Sprintf(" stall-before-file-block-%d", h.GateAt)
	}
	if h.TempErr {
		d += " then-temporary-timeout-errors-forever"
	}
	if h.Cut {
		d += " input-ends-inside-the-block"
	}
	if h.Twin {
		d += " twin-scanner-on-the-same-context"
	}
	return fmt.Sprintf("%s%s procs=%d scans=%d headerAt=%d stop=%s post=%s", h.Format, d, h.Procs, h.K, h.HeaderAt, stopNames[h.Stop], h.Post)
}

// tempTimeout is the error of a read whose deadline has passed (net.Error style).
type tempTimeout struct{}

func (tempTimeout) Error() string   { return "c07: i/o timeout (temporary)" }
func (tempTimeout) Temporary() bool { return true }
func (tempTimeout) Timeout() bool   { return true }

const pbfBlocks = 6

var (
	// the standard PBF input: header + 6 data blocks of two objects each
	pbfWant = pbfscen.File(pbfBlocks, true).Expected()
	xmlDoc  = buildXML()
	// damaged XML: three nodes, then a mismatched end tag
	xmlDamaged = []byte(strings.Replace(string(xmlDoc), `<node id="4"`, `<node id="4"></way><node id="44"`, 1))
)

func buildXML() []byte {
	var b strings.Builder
	b.WriteString(`<?xml version="1.0" encoding="UTF-8"?>` + "\n<osm version=\"0.6\" generator=\"verif\">\n")
	for i := 1; i <= 6; i++ {
		fmt.Fprintf(&b, " <node id=\"%d\" lat=\"%d.5\" lon=\"-%d.25\" version=\"%d\" visible=\"true\"><tag k=\"name\" v=\"node number %d with some padding text to make the document longer\"/></node>\n", i, i, i, i, i)
		if i == 2 || i == 4 {
			// a long stretch that yields no object: unknown elements and comments
			// (a Scan in progress must still notice a cancellation here)
			for j := 0; j < 16; j++ {
				fmt.Fprintf(&b, " <gpx_file id=\"%d\" name=\"trace %d\" visibility=\"public\"/><!-- nothing to see here, number %d -->\n", j, j, j)
			}
		}
	}
	b.WriteString("</osm>\n")
	return []byte(b.String())
}

// scanner is what the two scanners have in common.
type scanner interface {
	Scan() bool
	Object() osm.Object
	Err() error
	Close() error
}

type postResult struct {
	op  byte
	b   bool
	err error
	// cancelStarted: the second thread had begun its cancel call when this call was made
	cancelStarted bool
}

func scenario(h history, bound int) vexplore.Scenario {
	fam := fmt.Sprintf("%s procs=%d stop=%s D=%d", h.Format, h.Procs, stopNames[h.Stop], bound)
	var inp input
	var total int
	if h.Format == "pbf" {
		inp = pbfInput(h)
		total = len(inp.want)
	} else {
		inp, total = xmlInput(h)
	}
	if h.Damaged {
		fam += " damaged-input"
	}
	if h.IOErr {
		fam += " failing-reader"
	}
	faulty := h.Damaged || h.IOErr
	// a second thread cancels at a time of its own
	concurrent := h.Stop == stopCancelOther || h.Stop == stopCloseVsCancel
	ctxErr := context.Canceled
	if h.CtxKind == ctxDeadline {
		ctxErr = context.DeadlineExceeded
	}
	return vexplore.Scenario{Name: h.name(), Family: fam, Bound: bound, RacesAreFindings: true, MaxSteps: 200000,
		New: func() (func(), func(*vsched.Outcome) ([]vexplore.Finding, string, bool)) {
			var (
				got                []osm.Object
				atReturn           []string
				ended              bool // Scan returned false before the stop was issued by the consumer
				stopIssued         bool
				phase              = "start"
				blocksAtStop       = -1
				blocksAtCall       = -1
				posAtCall          = -1
				readsAtCloseReturn = -1 // Read calls made when the first Close call returned
				lateReads          = 0  // Read calls by a thread other than the consumer's after that
				posAtStop          = -1
				post               []postResult
				finalCloseReturned bool
				rd                 *pbfscen.Reader
				errBeforeStop      error
				errAtEnd           error
				stopCloseErr       error
				cancelStarted      bool // the second thread has begun its cancel call
				startedAtEnded     bool // ... when the Scan of the scan loop returned false
				startedAtEnd       bool // ... when Err was called at the very end
				// twin scanner
				gotB       []osm.Object
				atReturnB  []string
				endedB     bool
				lenBAtStop = -1
				errB       error
			)
			main := func() {
				ctx, cancel := vsched.WithCancel(nil)
				if h.CtxKind == ctxDeadline {
					parent := ctx
					ctx, _ = vsched.WithCancel(parent)
					cancel = func() { parent.(*vsched.Ctx).Cancel(context.DeadlineExceeded) }
				}
				if h.CtxKind == ctxCause {
					parent, cancelCause := vsched.WithCancelCause(nil)
					ctx, _ = vsched.WithCancel(parent)
					cancel = func() { cancelCause(callersReason) }
				}
				if h.NilCtx {
					ctx = nil
				}
				if h.PreCancelled {
					cancel()
				}
				var s, sB scanner
				var ps *osmpbf.Scanner
				newReader := func() (*pbfscen.Reader, io.Reader) {
					r := &pbfscen.Reader{Data: inp.data, BlockOnly: true}
					if h.Format == "xml" {
						r = &pbfscen.Reader{Data: inp.data, MaxChunk: xmlChunk}
					}
					if h.IOErr {
						return r, &faultReader{Reader: r, FailBlock: inp.failBlock, FailPos: inp.failPos}
					}
					return r, r
				}
				var src io.Reader
				rd, src = newReader()
				if h.Format == "pbf" {
					if h.Stalled {
						rd.Gate, rd.GateAt = vsched.MakeChan[struct{}](0), 3
						if h.GateAt > 0 {
							rd.GateAt = h.GateAt
						}
						if h.TempErr {
							rd.AfterGate = tempTimeout{}
						}
					}
					ps = osmpbf.New(ctx, src, h.Procs)
					if h.Skip {
						ps.SkipNodes, ps.SkipWays = true, true
					}
					s = ps
					if h.Twin {
						var srcB io.Reader
						_, srcB = newReader()
						sB = osmpbf.New(ctx, srcB, h.Procs)
					}
				} else {
					s = osmxml.New(ctx, src)
					if h.Twin {
						var srcB io.Reader
						_, srcB = newReader()
						sB = osmxml.New(ctx, srcB)
					}
				}
				vsched.OnCancel = func() {
					if blocksAtStop < 0 {
						blocksAtStop, posAtStop = rd.BlocksBegun, rd.Pos
					}
				}
				defer func() { vsched.OnCancel = nil }()
				spawned := false
				spawn := func() {
					spawned = true
					vsched.GoNamed("canceller", func() {
						cancelStarted = true
						cancel()
					})
				}
				if concurrent && h.SpawnAt <= 0 {
					spawn()
				}
				phase = "scanning"
				limit := h.K
				if h.Stop == stopCancelOther || faulty {
					limit = 1 << 20
				}
				takeB := func() {
					if sB == nil || endedB {
						return
					}
					if !sB.Scan() {
						endedB = true
						return
					}
					o := sB.Object()
					gotB = append(gotB, o)
					atReturnB = append(atReturnB, diffAt(h, inp, len(gotB), o))
				}
				for i := 0; i < limit; i++ {
					if concurrent && h.SpawnAt > 0 && i == h.SpawnAt {
						spawn()
					}
					if ps != nil && i == h.HeaderAt {
						ps.Header()
					}
					if !s.Scan() {
						ended = true
						break
					}
					o := s.Object()
					got = append(got, o)
					atReturn = append(atReturn, diffAt(h, inp, len(got), o))
					takeB()
				}
				if ended {
					errBeforeStop = s.Err()
					startedAtEnded = cancelStarted
				}
				if concurrent && !spawned {
					// the scan came to its end (or to the consumer's Close) before the
					// canceller was due: it starts now
					spawn()
				}
				if rd.Gate != nil {
					rd.Gate.Close() // the stalled Read returns now
				}
				closeReturned := func() {
					if readsAtCloseReturn < 0 {
						readsAtCloseReturn = rd.Reads
						rd.OnRead = func(*pbfscen.Reader) {
							if vsched.ThreadID() != 0 {
								lateReads++
							}
						}
					}
				}
				phase = "stopping"
				stopIssued = true
				if h.Stop != stopCancelOther {
					blocksAtCall, posAtCall = rd.BlocksBegun, rd.Pos
				}
				switch h.Stop {
				case stopClose, stopCloseVsCancel:
					stopCloseErr = s.Close()
					closeReturned()
				case stopCancel:
					cancel()
				case stopCancelThenClose:
					cancel()
					stopCloseErr = s.Close()
					closeReturned()
				case stopCloseThenCancel:
					stopCloseErr = s.Close()
					closeReturned()
					cancel()
				}
				lenBAtStop = len(gotB)
				phase = "post"
				for i := 0; i < len(h.Post); i++ {
					switch h.Post[i] {
					case 'S':
						post = append(post, postResult{op: 'S', b: s.Scan()})
					case 'E':
						post = append(post, postResult{op: 'E', err: s.Err(), cancelStarted: cancelStarted})
					case 'C':
						post = append(post, postResult{op: 'C', err: s.Close()})
						closeReturned()
					case 'H':
						if ps != nil {
							_, err := ps.Header()
							post = append(post, postResult{op: 'H', err: err})
						}
					}
				}
				if sB != nil {
					phase = "twin"
					for !endedB {
						takeB()
					}
					errB = sB.Err()
				}
				phase = "final-close"
				errAtEnd = s.Err()
				startedAtEnd = cancelStarted
				if h.FinalClose {
					s.Close()
					closeReturned()
				}
				finalCloseReturned = true
				phase = "done"
				// no cleanup beyond this point: every thread the scanner started must
				// come to an end by itself once the scan was stopped (or completed)
			}
			check := func(o *vsched.Outcome) ([]vexplore.Finding, string, bool) {
				var fs []vexplore.Finding
				add := func(k, m string) {
					fs = append(fs, vexplore.Finding{Key: h.Format + "/" + k + "/" + stopNames[h.Stop], Msg: m})
				}
				complete := len(got) == total && ended
				// the moment of the stop: the cancelling operation itself when there was
				// one (exact), else the moment the consumer issued the stop call
				if blocksAtStop < 0 {
					blocksAtStop, posAtStop = blocksAtCall, posAtCall
				}
				unreadAtStop := 0
				if blocksAtStop >= 0 {
					unreadAtStop = inp.fblocks - blocksAtStop
				}
				nonvac := stopIssued && !complete && (h.Format == "xml" || unreadAtStop >= 4 || h.K == 0)
				tag := fmt.Sprintf("%d objs, %d blocks at stop, %d at end, err=%v", len(got), blocksAtStop, rdBlocks(rd), errAtEnd)
				if o.Kind != "ok" {
					add(o.Kind, fmt.Sprintf("execution ended in %s during phase %q: %s", o.Kind, phase, o.Detail))
					return fs, tag, nonvac
				}
				for i, d := range atReturn {
					if d != "" {
						add("sequence", fmt.Sprintf("object %d: %s", i, d))
						break
					}
				}
				closeErr := func(where string, err error) {
					if err != nil {
						add("close-error", fmt.Sprintf("%s: Close returned %v", where, err))
					}
				}
				closeErr("the stop", stopCloseErr)
				if faulty {
					// reference: the valid prefix, then an error that stays the answer of Err
					// with a second thread cancelling, whichever comes first is the
					// answer: the fault or the context's error
					ctxFirst := concurrent && errBeforeStop == ctxErr && startedAtEnded
					if h.Damaged && len(got) != total && !ctxFirst {
						add("damaged/prefix", fmt.Sprintf("%d objects delivered before the error, want %d", len(got), total))
					}
					if len(got) > total {
						add("failing-reader/prefix", fmt.Sprintf("%d objects delivered, the input held %d in front of the failing read", len(got), total))
					}
					theFault := func(err error) bool {
						if h.IOErr {
							return isIOErr(err)
						}
						return err != nil && err != osm.ErrScannerClosed && err != ctxErr
					}
					if !ended || !(theFault(errBeforeStop) || ctxFirst) {
						k := "damaged/no-error"
						if h.IOErr {
							k = "failing-reader/no-error"
						}
						add(k, fmt.Sprintf("Scan ended=%v with Err()=%v on faulty input (%s)", ended, errBeforeStop, h.name()))
						return fs, tag, true
					}
					closed := h.Stop != stopCancel && h.Stop != stopCancelOther
					later := func(where string, err error) {
						if ctxFirst {
							// no fault was recorded when the scan ended: the stop answers
							// apply; a fault that surfaces later is not judged
							if !(err == ctxErr || (closed && err == osm.ErrScannerClosed) || theFault(err)) {
								add("err-value", fmt.Sprintf("%s: Err()=%v after the scan had ended with %v", where, err, errBeforeStop))
							}
							return
						}
						if err == nil || err.Error() != errBeforeStop.Error() {
							add("earlier-error-lost", fmt.Sprintf("%s: Err()=%v after %s, the error recorded earlier was %v", where, err, stopNames[h.Stop], errBeforeStop))
						}
					}
					for i, p := range post {
						switch p.op {
						case 'S':
							if p.b {
								add("scan-true-after-stop", fmt.Sprintf("post call %d: Scan returned true after an error and %s", i, stopNames[h.Stop]))
							}
						case 'E':
							later(fmt.Sprintf("post call %d", i), p.err)
						case 'C':
							closed = true
							closeErr(fmt.Sprintf("post call %d", i), p.err)
						}
					}
					later("at the end", errAtEnd)
					if !finalCloseReturned {
						add("close-did-not-return", "final Close did not return")
					}
					return fs, tag, true
				}
				if h.Format == "pbf" {
					for i, ob := range got {
						if i < len(inp.want) && atReturn[i] == "" {
							if d := pbfgen.DiffObject(ob, inp.want[i]); d != "" {
								add("modified-after-return", fmt.Sprintf("object %d: %s", i, d))
								break
							}
						}
					}
				}
				if ended && !concurrent && len(got) != total {
					add("scan-ended-early", fmt.Sprintf("Scan returned false after %d of %d objects without any stop, Err=%v", len(got), total, errBeforeStop))
				}
				if ended && !concurrent && errBeforeStop != nil {
					add("error-on-complete-scan", fmt.Sprintf("Err()=%v after a complete scan", errBeforeStop))
				}
				// reference machine for the calls after the stop
				closed := h.Stop == stopClose || h.Stop == stopCancelThenClose || h.Stop == stopCloseThenCancel || h.Stop == stopCloseVsCancel
				checkErr := func(where string, err error, isClosed, secondThreadStarted bool) {
					// has the context been cancelled when the call was made? own stops: by
					// construction; a second thread: not before it began its call
					cancelled := h.PreCancelled
					switch h.Stop {
					case stopCancel, stopCancelThenClose, stopCloseThenCancel:
						cancelled = true
					case stopCancelOther, stopCloseVsCancel:
						cancelled = cancelled || secondThreadStarted
					}
					switch {
					case complete && !concurrent:
						if err != nil {
							add("err-after-complete-scan", fmt.Sprintf("%s: Err()=%v, want nil after a complete scan", where, err))
						}
					case complete:
						// All objects were delivered and Scan returned false: either the
						// end of input was seen (nil) or the concurrent cancellation was
						// seen first (context error, or the closed error once Close was called).
						if err != nil && !(cancelled && err == ctxErr) && !(isClosed && err == osm.ErrScannerClosed) {
							add("err-value", fmt.Sprintf("%s: Err()=%v", where, err))
						}
					default:
						okClosed := isClosed && err == osm.ErrScannerClosed
						okCancelled := cancelled && err == ctxErr
						if !okClosed && !okCancelled {
							add("err-value", fmt.Sprintf("%s: Err()=%v after %s with %d of %d objects delivered (closed=%v, context ended=%v with %v)", where, err, stopNames[h.Stop], len(got), total, isClosed, cancelled, ctxErr))
						}
					}
				}
				if ended && concurrent {
					// the Scan in progress (or the next one) was ended by the second
					// thread's cancellation - or the scan was complete
					checkErr("right after Scan returned false", errBeforeStop, false, startedAtEnded)
				}
				for i, p := range post {
					switch p.op {
					case 'S':
						if p.b {
							add("scan-true-after-stop", fmt.Sprintf("post call %d: Scan returned true after %s", i, stopNames[h.Stop]))
						}
					case 'E':
						checkErr(fmt.Sprintf("post call %d", i), p.err, closed, p.cancelStarted)
					case 'C':
						closed = true
						closeErr(fmt.Sprintf("post call %d", i), p.err)
					}
				}
				checkErr("at the end", errAtEnd, closed, startedAtEnd)
				if !finalCloseReturned {
					add("close-did-not-return", "final Close did not return")
				}
				// the twin on the same context
				if h.Twin {
					for i, d := range atReturnB {
						if d != "" {
							add("twin/sequence", fmt.Sprintf("second scanner, object %d: %s", i, d))
							break
						}
					}
					switch {
					case h.Stop == stopClose && !h.PreCancelled:
						// Close of the first scanner is not a cancellation of the shared context
						if len(gotB) != total || errB != nil {
							add("twin/stopped-by-the-other-close", fmt.Sprintf("the second scanner delivered %d of %d objects and ended with Err()=%v after the FIRST scanner was closed", len(gotB), total, errB))
						}
					case !concurrent:
						if len(gotB) != lenBAtStop {
							add("twin/scan-true-after-stop", fmt.Sprintf("the second scanner delivered %d more objects after the shared context had ended", len(gotB)-lenBAtStop))
						}
						if errB != ctxErr {
							add("twin/err-value", fmt.Sprintf("second scanner: Err()=%v after the shared context ended with %v", errB, ctxErr))
						}
					default:
						if !(errB == ctxErr || (errB == nil && len(gotB) == total)) {
							add("twin/err-value", fmt.Sprintf("second scanner: Err()=%v with %d of %d objects delivered", errB, len(gotB), total))
						}
					}
				}
				// promptness, in blocks / reads
				// Close is the join point: once it has returned the scanner does not touch
				// the input any more (the caller may close or rewind the reader)
				// (a Scan or Header call made AFTER Close on a scanner that was never started
				// reads the header block on the consumer's own goroutine before it notices:
				// not judged, the text speaks of the Close call and of Scan returning false)
				if lateReads > 0 {
					add("read-after-close-returned", fmt.Sprintf("%d Read calls on the input by the scanner's goroutines after Close had returned (%d reads before)", lateReads, readsAtCloseReturn))
				}
				if h.Format == "pbf" && blocksAtStop >= 0 && unreadAtStop >= 4 {
					if begun := rd.BlocksBegun - blocksAtStop; begun > 2 {
						add("reads-on-after-stop", fmt.Sprintf("%d file blocks were still unread when the scan was stopped; the reader began %d more blocks afterwards (at most 2 allowed), %d of %d bytes consumed at the end", unreadAtStop, begun, rd.Pos, len(rd.Data)))
					}
				}
				// XML: a Scan in progress when a second thread cancels may finish its
				// element (about 200 bytes here, read in 160-byte chunks: 480 bytes allowed); judged when at least half of the
				// document was unread at the stop.
				if h.Format == "xml" && posAtStop >= 0 && len(rd.Data)-posAtStop >= len(rd.Data)/2 {
					if more := rd.Pos - posAtStop; more > 480 {
						add("reads-on-after-stop", fmt.Sprintf("the XML scanner consumed %d more bytes after the stop (%d of %d consumed at the stop)", more, posAtStop, len(rd.Data)))
					}
				}
				return fs, tag, nonvac
			}
			return main, check
		}}
}

// diffAt compares the n-th object (1-based) a scanner returned with the n-th
// object of the input, at the moment it is returned.
func diffAt(h history, inp input, n int, o osm.Object) string {
	if h.Format == "pbf" {
		if n <= len(inp.want) {
			return pbfgen.DiffObject(o, inp.want[n-1])
		}
		return "more objects than the input holds in front of its end / fault"
	}
	if nd, ok := o.(*osm.Node); !ok || int(nd.ID) != n {
		return fmt.Sprintf("xml object %d is %v", n, o)
	}
	return ""
}

func rdBlocks(r *pbfscen.Reader) int {
	if r == nil {
		return -1
	}
	return r.BlocksBegun
}

func postSeqs(maxLen int, alphabet string) []string {
	out := []string{""}
	var rec func(cur string)
	rec = func(cur string) {
		if len(cur) == maxLen {
			return
		}
		for i := 0; i < len(alphabet); i++ {
			nx := cur + string(alphabet[i])
			out = append(out, nx)
			rec(nx)
		}
	}
	rec("")
	return out
}

func main() {
	kit.Main("C07", "model_checking", func(r *kit.Run) {
		r.Rule("call histories (Header|Scan)^k ; stop in {Close, cancel, cancel from a second thread, cancel then Close, Close then cancel} ; post calls over {Scan, Err, Close, Header}; " +
			"family T: the input stalls before the third data block until Scan has returned false, cancel from a second thread (a parked reader must not keep the Scan in progress from ending), D=1; family N: scanners created with a nil context, stopped by Close, D=1; family E: damaged input (error recorded, then stop: Err keeps the earlier error), D=1; family S: fixed post sequence SECSEH, k in a grid, every schedule with <= D deviations, both priority configurations; family H: every post sequence of length <= 2 (quick) / 3 (thorough) and every k, default schedules (D=0); " +
			"PBF input: header + 6 data blocks, XML input: 6 nodes and two 1.6 KB stretches of unknown elements and comments, read in 160-byte chunks; non-vacuous = the stop was issued with >= 4 file blocks unread (PBF) or before the end (XML); " +
			"distinct_nontrivial = distinct complete operation sequences among non-vacuous executions; " +
			"boundary audit (families.go): D context ending with DeadlineExceeded through a parent; Z decoder counts 0 / -1 (thorough: -2^31, 5, 6, 32); F reader failing with an I/O error in the header block / first data block / file block 3 and damage in the header, first and last block, alone and with a cancelling second thread; " +
			"C cancelling thread started after k Scans, every k; V Close by the consumer while a second thread cancels; B 30 data blocks (reader parked in its send with input unread under the default schedules); O header-only file, empty osm element, one data block; K SkipNodes+SkipWays (a Scan across several blocks); " +
			"T' input stalling before the first data block / before the end-of-input read, 12 decoders; 2 two scanners on one context in lock step (Close of one leaves the other alone, cancellation stops both); W' switch mode for 1 and 12 decoders. " +
			"Err is judged at every call: right after the Scan that returned false, in the post calls and at the very end; with a second thread the context error is accepted only once that thread had begun its cancel call")
		r.Assume("promptness is a block count: the reader may begin at most 2 file blocks after the cancellation took effect (measured atomically at the cancelling operation); wall-clock latency is not measured")
		r.Assume("a Header/Scan that first starts the decoder AFTER the stop may read the header block (and one more): it falls under the same 2-block allowance; no final Close is issued, so a thread that survives the stop is a leak")
		r.Assume("not decided by the property text and therefore not enumerated: Close from a goroutine other than the scanning one; Header / Err / FullyScannedBytes called while a Scan is in progress; Close while the input is stalled (a Read that does not return cannot be interrupted); what Header and Object return after the stop; an error that surfaces after the scan had already ended with the context's error; contexts wrapped by context.WithValue cannot be modelled (vsched accepts only its own cancellable contexts)")
		r.Assume("failing reader (family F): the scanner must report the reader's error (errors.Is or its text) and may deliver at most the objects in front of the failing read; that it delivers all of them is C06's subject and is not judged here")
		var scs []vexplore.Scenario
		N := len(pbfWant)
		ks := []int{0, 1, 3, N + 1}
		procsS := []struct{ p, d int }{{1, 2}, {2, 2}, {12, 1}}
		budget := 7 * time.Minute
		if !r.Quick() {
			ks = []int{0, 1, 2, 3, 5, N, N + 1, N + 2}
			procsS = []struct{ p, d int }{{1, 3}, {2, 3}, {3, 2}, {12, 2}}
			budget = 40 * time.Minute
		}
		// family S: schedules
		for _, pd := range procsS {
			for stop := 0; stop < 5; stop++ {
				kk := ks
				if stop == stopCancelOther {
					kk = []int{0}
				}
				for _, k := range kk {
					hAt := -1
					if k >= 3 {
						hAt = 1
					}
					d := pd.d
					if r.Quick() && k > N && d > 1 {
						// After a complete scan nothing is left to stop (vacuous for
						// promptness; the order of a complete scan under two deviations is
						// C02's subject): the quick tier explores these four histories per
						// decoder count with one deviation (they were 37% of its executions)
						// and spends the time on the audit families; thorough keeps D=3.
						d = 1
					}
					scs = append(scs, scenario(history{Format: "pbf", Procs: pd.p, K: k, HeaderAt: hAt, Stop: stop, Post: "SECSEH"}, d))
					if pd.p == 1 && (k == 0 || k == 3) {
						scs = append(scs, scenario(history{Format: "pbf", Procs: pd.p, K: k, HeaderAt: hAt, Stop: stop, Post: "SH", FinalClose: true}, 1))
					}
				}
			}
		}
		nS := len(scs) // family S (PBF) ends here
		for stop := 0; stop < 5; stop++ {
			kk := []int{0, 1, 3, 7}
			if stop == stopCancelOther {
				kk = []int{0}
			}
			for _, k := range kk {
				scs = append(scs, scenario(history{Format: "xml", Procs: 1, K: k, HeaderAt: -1, Stop: stop, Post: "SECSE"}, 3))
			}
		}
		// family P: decoder counts around the channel-capacity steps (10/n), one history per stop kind, D=1;
		// family W: switch mode (one context switch to any enabled thread costs 1) for procs 2
		for _, p := range []int{3, 4, 10, 11} {
			for stop := 0; stop < 5; stop++ {
				k := 3
				if stop == stopCancelOther {
					k = 0
				}
				scs = append(scs, scenario(history{Format: "pbf", Procs: p, K: k, HeaderAt: -1, Stop: stop, Post: "SE"}, 1))
			}
		}
		for stop := 0; stop < 5; stop++ {
			k := 3
			if stop == stopCancelOther {
				k = 0
			}
			sc := scenario(history{Format: "pbf", Procs: 2, K: k, HeaderAt: -1, Stop: stop, Post: "SEC"}, 1)
			sc.SwitchMode = true
			sc.Name += " switch-mode"
			sc.Family += " switch-mode"
			scs = append(scs, sc)
		}
		// family E: an error recorded before the stop stays the answer of Err
		for _, p := range []int{1, 2} {
			for stop := 0; stop < 5; stop++ {
				if stop == stopCancelOther {
					continue
				}
				scs = append(scs, scenario(history{Format: "pbf", Procs: p, HeaderAt: -1, Stop: stop, Post: "SECSE", Damaged: true}, 1))
			}
		}
		for stop := 0; stop < 5; stop++ {
			if stop == stopCancelOther {
				continue
			}
			scs = append(scs, scenario(history{Format: "xml", Procs: 1, HeaderAt: -1, Stop: stop, Post: "SECSE", Damaged: true}, 1))
		}
		// family T: stalled input + cancel from a second thread (D=1 lets the canceller run
		// when everything else is parked on the stalled read)
		for _, p := range []int{1, 2} {
			scs = append(scs, scenario(history{Format: "pbf", Procs: p, K: 0, HeaderAt: -1, Stop: stopCancelOther, Post: "SE", Stalled: true}, 1))
		}
		// family L: header-less streams (a resumed scan), decoder counts on both sides of
		// the step to unbuffered channels (10/n = 0 from n = 11), stopped before and
		// after the pipeline has started
		for _, p := range []int{1, 2, 11, 12} {
			for stop := 0; stop < 5; stop++ {
				for _, k := range []int{0, 1, 3} {
					if stop == stopCancelOther && k > 0 {
						continue
					}
					scs = append(scs, scenario(history{Format: "pbf", Procs: p, K: k, HeaderAt: -1, Stop: stop, Post: "SECSEH", Headerless: true}, 1))
				}
			}
			for _, stop := range []int{stopCancel, stopClose} {
				scs = append(scs, scenario(history{Format: "pbf", Procs: p, K: 0, HeaderAt: -1, Stop: stop, Post: "HSEC", PreCancelled: true, Headerless: true}, 1))
			}
		}
		// family R: the context is already cancelled when the scanner is created
		for _, stop := range []int{stopCancel, stopClose} {
			for _, p := range []int{1, 2} {
				scs = append(scs, scenario(history{Format: "pbf", Procs: p, K: 0, HeaderAt: -1, Stop: stop, Post: "SECSEH", PreCancelled: true}, 1))
				scs = append(scs, scenario(history{Format: "pbf", Procs: p, K: 0, HeaderAt: -1, Stop: stop, Post: "HSE", PreCancelled: true}, 1))
			}
			scs = append(scs, scenario(history{Format: "xml", Procs: 1, K: 0, HeaderAt: -1, Stop: stop, Post: "SECSE", PreCancelled: true}, 1))
		}
		// family N: nil context, stopped by Close
		for _, k := range []int{0, 1, 3, N + 1} {
			for _, p := range []int{1, 2} {
				scs = append(scs, scenario(history{Format: "pbf", Procs: p, K: k, HeaderAt: -1, Stop: stopClose, Post: "SECSEH", NilCtx: true}, 1))
			}
			scs = append(scs, scenario(history{Format: "xml", Procs: 1, K: k, HeaderAt: -1, Stop: stopClose, Post: "SECSE", NilCtx: true}, 1))
		}
		// family H: call histories under the default schedules
		postLen, hAts := 2, []int{-1}
		if !r.Quick() {
			postLen, hAts = 3, []int{-1, 0}
		}
		posts := postSeqs(postLen, "SECH")
		for _, p := range []int{1, 2} {
			for stop := 0; stop < 5; stop++ {
				for k := 0; k <= N+2; k++ {
					if stop == stopCancelOther && k > 0 {
						continue
					}
					for _, hAt := range hAts {
						for _, ps := range posts {
							scs = append(scs, scenario(history{Format: "pbf", Procs: p, K: k, HeaderAt: hAt, Stop: stop, Post: ps}, 0))
						}
					}
				}
			}
		}
		for stop := 0; stop < 5; stop++ {
			for k := 0; k <= 8; k++ {
				if stop == stopCancelOther && k > 0 {
					continue
				}
				for _, ps := range postSeqs(postLen, "SEC") {
					scs = append(scs, scenario(history{Format: "xml", Procs: 1, K: k, HeaderAt: -1, Stop: stop, Post: ps}, 0))
				}
			}
		}
		// the audit families; in the thorough tier (time cap) they go first, the deep
		// family S last
		if r.Quick() {
			scs = append(scs, auditFamilies(true, N)...)
		} else {
			famS := append([]vexplore.Scenario{}, scs[:nS]...)
			sort.SliceStable(famS, func(i, j int) bool { return famS[i].Bound < famS[j].Bound })
			rest := append(append([]vexplore.Scenario{}, scs[nS:]...), auditFamilies(false, N)...)
			scs = append(rest, famS...)
		}
		seen := map[string]bool{}
		for i := range scs {
			if seen[scs[i].Name] {
				kit.Fatalf("two scenarios are named %q", scs[i].Name)
			}
			seen[scs[i].Name] = true
		}
		r.Set("scenarios", len(scs))
		e := &vexplore.Explorer{R: r, Scenarios: scs}
		e.Run(budget)
	})
}
