//go:build verif

// Inputs of the C07 histories: PBF files of several sizes, damaged and failing
// streams, XML documents, and a reader that fails at a chosen point. Everything
// a history expects is derived here from the writer's model (pbfgen) or from the
// document text, never from what the scanners return.
package main

import (
	"bytes"
	"errors"
	"fmt"
	"strings"
	"sync"

	"github.com/paulmach/osm"
	"github.com/paulmach/osm/vsched"

	"verif/engine/pbfscen"
	"verif/gen/pbfgen"
)

// errIO is the I/O error of the failing readers (family F). It is not io.EOF,
// not a context error and not the closed error.
var errIO = errors.New("verif: the input device failed")

// isIOErr: the scanner reports the reader's error (as it is, or wrapped, or at
// least by its text).
func isIOErr(err error) bool {
	return err != nil && (errors.Is(err, errIO) || strings.Contains(err.Error(), errIO.Error()))
}

// input is what one history reads.
type input struct {
	data []byte
	// want: the objects a complete scan delivers, in order; for a damaged or
	// failing stream: the objects of the blocks in front of the fault.
	want []osm.Object
	// fblocks: file blocks in the stream, the header block included.
	fblocks int
	// failBlock / failPos: where the failing reader fails (IOErr histories).
	failBlock int
	failPos   int
}

var (
	inputMu    sync.Mutex
	inputCache = map[string]input{}
)

// faultBlock is the number of the file block (0 = header block) a history's
// fault sits in.
func (h history) faultBlock() int {
	switch {
	case h.FaultAt < 0:
		return 0
	case h.FaultAt == 0:
		return 3
	}
	return h.FaultAt
}

func onlyRelations(objs []osm.Object) []osm.Object {
	var out []osm.Object
	for _, o := range objs {
		if _, ok := o.(*osm.Relation); ok {
			out = append(out, o)
		}
	}
	return out
}

// pbfInput builds (once per distinct shape) the PBF stream of a history.
func pbfInput(h history) input {
	key := fmt.Sprint(h.Blocks, h.Empty, h.Headerless, h.Damaged, h.IOErr, h.FaultAt, h.Skip, h.Cut)
	inputMu.Lock()
	defer inputMu.Unlock()
	if in, ok := inputCache[key]; ok {
		return in
	}
	n := pbfBlocks
	if h.Blocks > 0 {
		n = h.Blocks
	}
	if h.Empty {
		n = 0
	}
	if (h.Damaged || h.IOErr) && h.Headerless {
		panic("faulty header-less streams are not part of the enumeration")
	}
	f := pbfscen.File(n, !h.Headerless)
	in := input{fblocks: n, failBlock: -1}
	if !h.Headerless {
		in.fblocks++
	}
	fb := h.faultBlock()
	switch {
	case h.Damaged:
		// the blob of file block fb is not a protobuf message
		o := pbfgen.BlobOpts{}
		if fb == 0 {
			o.Garbage = true
		}
		in.data = append(in.data, pbfgen.EncodeFileBlock("OSMHeader", pbfgen.EncodeBlob(pbfgen.StdHeader().Bytes(), pbfgen.BlobOpts{Garbage: o.Garbage && !h.Cut}), pbfgen.FileBlockOpts{})...)
		if h.Cut && fb == 0 {
			// the input ends inside the header block (7 bytes: size prefix and a bit of the BlobHeader)
			in.data = in.data[:7]
			break
		}
		for i := range f.Blocks {
			b := &f.Blocks[i]
			o := pbfgen.BlobOpts{}
			if i+1 == fb {
				o.Garbage = true
			}
			if h.Cut && i+1 == fb {
				// the input ends inside this block
				whole := pbfgen.EncodeFileBlock("OSMData", pbfgen.EncodeBlob(b.PrimitiveBlock(), pbfgen.BlobOpts{}), pbfgen.FileBlockOpts{})
				in.data = append(in.data, whole[:len(whole)/2]...)
				break
			}
			in.data = append(in.data, pbfgen.EncodeFileBlock("OSMData", pbfgen.EncodeBlob(b.PrimitiveBlock(), o), pbfgen.FileBlockOpts{})...)
			if i+1 < fb {
				in.want = append(in.want, b.Expected()...)
			}
		}
	case h.IOErr:
		in.data = f.Encode().Data
		in.failBlock = fb
		for i := range f.Blocks {
			if i+1 < fb {
				in.want = append(in.want, f.Blocks[i].Expected()...)
			}
		}
	default:
		in.data = f.Encode().Data
		in.want = f.Expected()
	}
	if h.Skip {
		in.want = onlyRelations(in.want)
	}
	inputCache[key] = in
	return in
}

// xmlInput is the XML document of a history and the number of nodes it delivers.
func xmlInput(h history) (in input, total int) {
	in = input{data: xmlDoc, failBlock: -1, failPos: -1}
	total = 6
	switch {
	case h.Empty:
		in.data = []byte("<?xml version=\"1.0\" encoding=\"UTF-8\"?>\n<osm version=\"0.6\" generator=\"verif\">\n</osm>\n")
		total = 0
	case h.Damaged:
		in.data = xmlDamaged
		total = 3
	case h.IOErr:
		// the read that would pass the start of node 4 fails (FaultAt < 0: the
		// very first read fails); the reader hands out 160 bytes per call, so
		// everything up to the next multiple of 160 was delivered before
		in.failPos = 0
		if h.FaultAt >= 0 {
			in.failPos = bytes.Index(xmlDoc, []byte(`<node id="4"`))
		}
		delivered := (in.failPos + xmlChunk - 1) / xmlChunk * xmlChunk
		if delivered > len(xmlDoc) {
			delivered = len(xmlDoc)
		}
		total = bytes.Count(xmlDoc[:delivered], []byte("</node>"))
	}
	return in, total
}

const xmlChunk = 160

// faultReader is a pbfscen.Reader that fails with errIO: for PBF at the read of
// the size prefix that would begin file block FailBlock, for XML at the first
// read issued at or beyond offset FailPos. The failing read is a scheduling
// point like every other read. The counters stay those of the embedded reader.
type faultReader struct {
	*pbfscen.Reader
	FailBlock int
	FailPos   int
	Failed    int
}

func (f *faultReader) Read(p []byte) (int, error) {
	if (f.FailBlock >= 0 && len(p) == 4 && f.Reader.BlocksBegun == f.FailBlock) || (f.FailPos >= 0 && f.Reader.Pos >= f.FailPos) {
		vsched.Yield("read")
		f.Failed++
		return 0, errIO
	}
	return f.Reader.Read(p)
}
