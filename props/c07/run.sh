#!/bin/bash
# C07: osmpbf pipeline + osmxml scanner instrumented from the current /repo tree, explored under vsched.
exec "$(dirname "$0")/../../engine/run_a.sh" C07 "$1" -pkg osmpbf:decode.go,scanner.go,decode_data.go -pkg osmxml:scanner.go -- "${@:2}"
