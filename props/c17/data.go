package main

import (
	"encoding/json"
	"fmt"
	"hash/fnv"
	"time"

	"github.com/paulmach/orb"
	"github.com/paulmach/osm"
)

// The data set is described in plain types of this package (no osm types), so
// that (1) the oracle states its constraints from a description the code under
// test never sees, (2) two osm.OSM values built from the same description are
// independent deep copies, and (3) the replay file is the description itself.

// Tag is a key/value pair (order of a tag list is kept).
type Tag [2]string

// Meta is the element metadata; zero values mean "not set".
type Meta struct {
	Version   int    `json:"v,omitempty"`
	Changeset int64  `json:"cs,omitempty"`
	User      string `json:"user,omitempty"`
	UID       int64  `json:"uid,omitempty"`
	TS        int64  `json:"ts,omitempty"` // unix seconds; 0 (with NS == 0 and !TSSet) = zero time
	// Boundary audit: the instant is TS seconds + NS nanoseconds; TSSet makes
	// "1970-01-01T00:00:00Z" (TS == 0, NS == 0) a real timestamp; ZoneSec != 0
	// stores the instant in a fixed zone that many seconds east of UTC.
	NS      int64 `json:"ns,omitempty"`
	TSSet   bool  `json:"tsset,omitempty"`
	ZoneSec int   `json:"zone,omitempty"`
}

func (m Meta) zero() bool { return m == Meta{} }

// hasTS tells whether the element carries a timestamp (a non-zero time.Time).
func (m Meta) hasTS() bool { return m.TS != 0 || m.NS != 0 || m.TSSet }

// instant is the timestamp of the description (only meaningful when hasTS).
func (m Meta) instant() time.Time { return time.Unix(m.TS, m.NS) }

// DNode is a node of the input; Lat == Lon == 0 means "not located".
type DNode struct {
	ID   int64   `json:"id"`
	Lat  float64 `json:"lat,omitempty"`
	Lon  float64 `json:"lon,omitempty"`
	Tags []Tag   `json:"tags,omitempty"`
	Meta Meta    `json:"meta"`
}

// DWayNode is a way's node reference, optionally with inline coordinates.
type DWayNode struct {
	ID  int64   `json:"id"`
	Lat float64 `json:"lat,omitempty"`
	Lon float64 `json:"lon,omitempty"`
}

// DWay is a way of the input.
type DWay struct {
	ID    int64      `json:"id"`
	Nodes []DWayNode `json:"nd"`
	Tags  []Tag      `json:"tags,omitempty"`
	Meta  Meta       `json:"meta"`
}

// DMember is a relation member.
type DMember struct {
	Type        string `json:"type"`
	Ref         int64  `json:"ref"`
	Role        string `json:"role,omitempty"`
	Orientation int    `json:"orient,omitempty"`
}

// DRel is a relation of the input.
type DRel struct {
	ID      int64     `json:"id"`
	Tags    []Tag     `json:"tags,omitempty"`
	Members []DMember `json:"members"`
	Meta    Meta      `json:"meta"`
}

// Data is one input data set = one case (all 16 option sets are run on it).
type Data struct {
	Name   string  `json:"name"`
	Family string  `json:"family"`
	Nodes  []DNode `json:"nodes"`
	Ways   []DWay  `json:"ways"`
	Rels   []DRel  `json:"rels"`
	// Extras adds what an osm.OSM can hold besides elements (attributes,
	// bounds, a changeset, a note, a user); none of it is an element.
	Extras bool `json:"extras,omitempty"`
}

// contentHash identifies the data set independent of its name.
func (d *Data) contentHash() uint64 {
	c := *d
	c.Name, c.Family = "", ""
	b, err := json.Marshal(c)
	if err != nil {
		panic(err)
	}
	h := fnv.New64a()
	h.Write(b)
	return h.Sum64()
}

func osmTags(ts []Tag) osm.Tags {
	if ts == nil {
		return nil
	}
	out := make(osm.Tags, len(ts))
	for i, t := range ts {
		out[i] = osm.Tag{Key: t[0], Value: t[1]}
	}
	return out
}

func osmTime(m Meta) time.Time {
	if !m.hasTS() {
		return time.Time{}
	}
	if m.ZoneSec != 0 {
		return time.Unix(m.TS, m.NS).In(time.FixedZone("", m.ZoneSec))
	}
	return time.Unix(m.TS, m.NS).UTC()
}

// metaOf reads the metadata of an element back into the description.
func metaOf(version int, cs osm.ChangesetID, user string, uid osm.UserID, t time.Time) Meta {
	m := Meta{Version: version, Changeset: int64(cs), User: user, UID: int64(uid)}
	if !t.IsZero() {
		m.TS, m.NS = t.Unix(), int64(t.Nanosecond())
		m.TSSet = m.TS == 0 && m.NS == 0
		_, m.ZoneSec = t.Zone()
	}
	return m
}

// build creates a fresh osm.OSM from the description; nothing is shared
// between two results of build.
func build(d *Data) *osm.OSM {
	o := &osm.OSM{}
	if d.Extras {
		o.Version, o.Generator, o.Copyright, o.Attribution, o.License = "0.6", "gen", "c", "a", "l"
		o.Bounds = &osm.Bounds{MinLat: 1, MaxLat: 2, MinLon: 1, MaxLon: 2}
		o.Changesets = osm.Changesets{{ID: 1, User: "user1", UserID: 91, Tags: osm.Tags{{Key: "comment", Value: "c"}}, MinLat: 1, MaxLat: 2, MinLon: 1, MaxLon: 2}}
		o.Notes = osm.Notes{{ID: 1, Lat: 1.5, Lon: 1.5, Status: "open"}}
		o.Users = osm.Users{{ID: 91, Name: "user1"}}
	}
	for _, n := range d.Nodes {
		o.Nodes = append(o.Nodes, &osm.Node{
			ID: osm.NodeID(n.ID), Lat: n.Lat, Lon: n.Lon, Visible: true,
			Tags:    osmTags(n.Tags),
			Version: n.Meta.Version, ChangesetID: osm.ChangesetID(n.Meta.Changeset),
			User: n.Meta.User, UserID: osm.UserID(n.Meta.UID), Timestamp: osmTime(n.Meta),
		})
	}
	for _, w := range d.Ways {
		ow := &osm.Way{
			ID: osm.WayID(w.ID), Visible: true,
			Tags:    osmTags(w.Tags),
			Version: w.Meta.Version, ChangesetID: osm.ChangesetID(w.Meta.Changeset),
			User: w.Meta.User, UserID: osm.UserID(w.Meta.UID), Timestamp: osmTime(w.Meta),
		}
		ow.Nodes = make(osm.WayNodes, len(w.Nodes))
		for i, wn := range w.Nodes {
			ow.Nodes[i] = osm.WayNode{ID: osm.NodeID(wn.ID), Lat: wn.Lat, Lon: wn.Lon}
		}
		o.Ways = append(o.Ways, ow)
	}
	for _, r := range d.Rels {
		or := &osm.Relation{
			ID: osm.RelationID(r.ID), Visible: true,
			Tags:    osmTags(r.Tags),
			Version: r.Meta.Version, ChangesetID: osm.ChangesetID(r.Meta.Changeset),
			User: r.Meta.User, UserID: osm.UserID(r.Meta.UID), Timestamp: osmTime(r.Meta),
		}
		or.Members = make(osm.Members, len(r.Members))
		for i, m := range r.Members {
			or.Members[i] = osm.Member{Type: osm.Type(m.Type), Ref: m.Ref, Role: m.Role,
				Orientation: orb.Orientation(m.Orientation)}
		}
		o.Relations = append(o.Relations, or)
	}
	return o
}

// extract reads an osm.OSM back into the plain description (only the fields
// build sets); used as a second, reflect-free witness that the input is
// unchanged.
func extract(o *osm.OSM, name, family string) (d Data, err error) {
	d.Name, d.Family = name, family
	d.Extras = o.Bounds != nil
	tags := func(ts osm.Tags) []Tag {
		if ts == nil {
			return nil
		}
		out := make([]Tag, len(ts))
		for i, t := range ts {
			out[i] = Tag{t.Key, t.Value}
		}
		return out
	}
	for _, n := range o.Nodes {
		if n == nil {
			return d, fmt.Errorf("nil node")
		}
		d.Nodes = append(d.Nodes, DNode{ID: int64(n.ID), Lat: n.Lat, Lon: n.Lon, Tags: tags(n.Tags),
			Meta: metaOf(n.Version, n.ChangesetID, n.User, n.UserID, n.Timestamp)})
	}
	for _, w := range o.Ways {
		if w == nil {
			return d, fmt.Errorf("nil way")
		}
		dw := DWay{ID: int64(w.ID), Tags: tags(w.Tags),
			Meta: metaOf(w.Version, w.ChangesetID, w.User, w.UserID, w.Timestamp)}
		for _, wn := range w.Nodes {
			dw.Nodes = append(dw.Nodes, DWayNode{ID: int64(wn.ID), Lat: wn.Lat, Lon: wn.Lon})
		}
		d.Ways = append(d.Ways, dw)
	}
	for _, r := range o.Relations {
		if r == nil {
			return d, fmt.Errorf("nil relation")
		}
		dr := DRel{ID: int64(r.ID), Tags: tags(r.Tags),
			Meta: metaOf(r.Version, r.ChangesetID, r.User, r.UserID, r.Timestamp)}
		for _, m := range r.Members {
			dr.Members = append(dr.Members, DMember{Type: string(m.Type), Ref: m.Ref, Role: m.Role, Orientation: int(m.Orientation)})
		}
		d.Rels = append(d.Rels, dr)
	}
	return d, nil
}
