// C17: GeoJSON conversion maps elements to features exactly; options only subtract.
//
// Bounded-exhaustive: every data set of a finite product of small choices
// (gen.go) is converted under all 16 option sets and the output, observed as
// marshalled GeoJSON, is held against constraints transcribed from the
// property text (oracle.go). Nothing here re-implements Convert.
package main

import (
	"encoding/json"
	"fmt"
	"reflect"
	"sort"
	"sync"

	"github.com/paulmach/orb"
	"github.com/paulmach/orb/geojson"
	"github.com/paulmach/osm"
	"github.com/paulmach/osm/osmgeojson"

	"verif/kit"
)

func options(s int, explicitFalse bool) []osmgeojson.Option {
	var o []osmgeojson.Option
	add := func(bit int, f func(bool) osmgeojson.Option) {
		if s&bit != 0 {
			o = append(o, f(true))
		} else if explicitFalse {
			o = append(o, f(false))
		}
	}
	add(optNoID, osmgeojson.NoID)
	add(optNoMeta, osmgeojson.NoMeta)
	add(optNoRel, osmgeojson.NoRelationMembership)
	add(optInvalid, osmgeojson.IncludeInvalidPolygons)
	return o
}

// respelled is option set s said differently: every option that is not in s
// is passed as false, every option of s is passed twice, and the list runs in
// the opposite order. Each option documents one effect that does not depend
// on the others, so this is the same configuration.
func respelled(s int) []osmgeojson.Option {
	var o []osmgeojson.Option
	add := func(bit int, f func(bool) osmgeojson.Option) {
		if s&bit != 0 {
			o = append(o, f(true), f(true))
		} else {
			o = append(o, f(false))
		}
	}
	add(optInvalid, osmgeojson.IncludeInvalidPolygons)
	add(optNoRel, osmgeojson.NoRelationMembership)
	add(optNoMeta, osmgeojson.NoMeta)
	add(optNoID, osmgeojson.NoID)
	return o
}

// convert runs the code under test and returns the marshalled collection.
func convert(o *osm.OSM, s int, explicitFalse bool) (out []byte, err error) {
	_, out, err = convertWith(o, options(s, explicitFalse))
	return out, err
}

// convertWith also hands out the collection itself (kept by one clause while
// later conversions run).
func convertWith(o *osm.OSM, opts []osmgeojson.Option) (fc *geojson.FeatureCollection, out []byte, err error) {
	defer func() {
		if p := recover(); p != nil {
			err = fmt.Errorf("panic: %v", p)
		}
	}()
	fc, err = osmgeojson.Convert(o, opts...)
	if err != nil {
		return nil, nil, err
	}
	out, err = json.Marshal(fc)
	return fc, out, err
}

// scribbleCase: see the sequential pass in main. Returns the number of results written into.
func scribbleCase(r *kit.Run, d *Data) (n int) {
	o := build(d)
	for _, s := range []int{0, 15} {
		b1, err1 := convert(o, s, false)
		fc, _, err := convertWith(o, options(s, false))
		if err1 != nil || err != nil {
			continue // reported by the parallel pass
		}
		scribble(fc)
		n++
		if b2, err := convert(o, s, false); err != nil || string(b2) != string(b1) {
			r.Violation("determinism/after-writing-into-a-result", fmt.Sprintf("[%s, options %s] the conversion that follows a write into every map and coordinate list of an earlier result differs (err=%v):\n%s\n%s", d.Name, optSetName(s), err, b1, b2),
				replayCase{Options: optSetName(s), Data: *d})
			break
		}
	}
	return n
}

// scribble writes into everything of a result that can be written in place.
func scribble(fc *geojson.FeatureCollection) {
	for _, f := range fc.Features {
		for _, v := range f.Properties {
			switch m := v.(type) {
			case map[string]string:
				m["c17-scribble"] = "x"
			case map[string]interface{}:
				m["c17-scribble"] = "x"
			case []interface{}:
				for i := range m {
					m[i] = "c17-scribble"
				}
			case []map[string]interface{}:
				for i := range m {
					if m[i] != nil {
						m[i]["c17-scribble"] = "x"
					}
				}
			}
		}
		f.Properties["c17-scribble"] = 1
		bad := orb.Point{999, 999}
		switch g := f.Geometry.(type) {
		case orb.LineString:
			for i := range g {
				g[i] = bad
			}
		case orb.MultiLineString:
			for _, l := range g {
				for i := range l {
					l[i] = bad
				}
			}
		case orb.Polygon:
			for _, l := range g {
				for i := range l {
					l[i] = bad
				}
			}
		case orb.MultiPolygon:
			for _, pg := range g {
				for _, l := range pg {
					for i := range l {
						l[i] = bad
					}
				}
			}
		}
	}
}

var (
	capOnce    sync.Once
	aggMu      sync.Mutex
	aggSkipped = map[string]int64{}
	aggStats   = map[string]int64{}
	aggFamily  = map[string]int64{}
)

type replayCase struct {
	Options string `json:"options"`
	Data    Data   `json:"data"`
}

func checkCase(r *kit.Run, d *Data) {
	pristine := build(d) // the deep copy made BEFORE any conversion; never passed to Convert
	o := build(d)        // the input
	o2 := build(d)       // an equal input built independently
	pristineX, err := extract(pristine, d.Name, d.Family)
	if err != nil {
		kit.Fatalf("extract: %v", err)
	}
	if !reflect.DeepEqual(o, pristine) {
		kit.Fatalf("build is not deterministic for %s", d.Name)
	}
	ix, err := newIndex(d, pristine)
	if err != nil {
		kit.Fatalf("%s: %v", d.Name, err)
	}
	hash := d.contentHash()
	viol := func(s int, key, what string) {
		r.Violation(key, fmt.Sprintf("[%s, options %s] %s", d.Name, optSetName(s), what),
			replayCase{Options: optSetName(s), Data: *d})
	}

	var outs [16][]byte
	var canon [16]string
	okOut := [16]bool{}
	skipped := map[string]int{}
	stats := map[string]int{}
	nondet := false                      // a determinism violation makes the differential below meaningless for this data set
	var first *geojson.FeatureCollection // the result of the first conversion, kept until all others are done
	for s := 0; s < 16; s++ {
		fc, b, err := convertWith(o, options(s, false))
		if s == 0 {
			first = fc
		}
		if err != nil {
			viol(s, "convert-error", err.Error())
			r.Case(fmt.Sprintf("%x|%d", hash, s), false)
			continue
		}
		outs[s] = b
		feats, err := parseFC(b)
		if err != nil {
			viol(s, "output-not-geojson", err.Error())
			r.Case(fmt.Sprintf("%x|%d", hash, s), false)
			continue
		}
		okOut[s] = true
		r.Case(fmt.Sprintf("%x|%d", hash, s), len(feats) > 0)

		// per-feature and per-element constraints
		c := &checker{ix: ix, opts: s, skipped: skipped, stats: stats}
		c.checkOutput(feats)
		for _, f := range c.out {
			viol(s, f.key, f.what)
		}

		// determinism: same input again, and an equal input built independently
		if b2, err := convert(o, s, false); err != nil || string(b2) != string(b) {
			nondet = true
			viol(s, "determinism/same-input", fmt.Sprintf("second conversion differs (err=%v):\n%s\n%s", err, b, b2))
		}
		if b3, err := convert(o2, s, false); err != nil || string(b3) != string(b) {
			nondet = true
			viol(s, "determinism/independent-copy", fmt.Sprintf("conversion of an equal input differs (err=%v):\n%s\n%s", err, b, b3))
		}

		// the input is never modified
		for _, in := range []*osm.OSM{o, o2} {
			part := false
			if !reflect.DeepEqual(in.Nodes, pristine.Nodes) {
				part = true
				viol(s, "input-mutated/nodes", "nodes differ from the copy made before conversion")
			}
			if !reflect.DeepEqual(in.Ways, pristine.Ways) {
				part = true
				viol(s, "input-mutated/ways", "ways differ from the copy made before conversion")
			}
			if !reflect.DeepEqual(in.Relations, pristine.Relations) {
				part = true
				viol(s, "input-mutated/relations", "relations differ from the copy made before conversion")
			}
			if part {
				continue
			}
			if !reflect.DeepEqual(in, pristine) {
				viol(s, "input-mutated/osm", "osm.OSM differs from the copy made before conversion (outside nodes, ways, relations)")
			} else if x, err := extract(in, d.Name, d.Family); err != nil || !reflect.DeepEqual(x, pristineX) {
				viol(s, "input-mutated/fields", fmt.Sprintf("read-back of the input differs (err=%v)", err))
			}
		}

		v, err := canonical(b)
		if err != nil {
			viol(s, "output-not-geojson", err.Error())
			okOut[s] = false
			continue
		}
		canon[s] = marshalCanon(v)
	}

	if nondet {
		for s := range okOut {
			okOut[s] = false
		}
	}

	// explicit false options are the same as no options
	if okOut[0] {
		if b, err := convert(o, 0, true); err != nil || string(b) != string(outs[0]) {
			// tell an option effect from plain non-determinism before blaming the options
			for i := 0; i < 8 && !nondet; i++ {
				if b2, err := convert(o, 0, false); err != nil || string(b2) != string(outs[0]) {
					nondet = true
				}
			}
			if nondet {
				viol(0, "determinism/same-input", "repeated conversions of the same input differ")
				for s := range okOut {
					okOut[s] = false
				}
			} else {
				viol(0, "option-differential/explicit-false", fmt.Sprintf("all options false differs from no options (err=%v)", err))
			}
		}
	}

	// the same option set spelled differently (explicit false, an option given
	// twice, another order): one option set per data set, in rotation
	if sv := int(hash % 16); okOut[sv] {
		stats["respelled"]++
		if _, b, err := convertWith(o, respelled(sv)); err != nil || string(b) != string(outs[sv]) {
			for i := 0; i < 8 && !nondet; i++ {
				if b2, err := convert(o, sv, false); err != nil || string(b2) != string(outs[sv]) {
					nondet = true
				}
			}
			if nondet {
				viol(sv, "determinism/same-input", "repeated conversions of the same input differ")
				for s := range okOut {
					okOut[s] = false
				}
			} else {
				viol(sv, "option-differential/respelled", fmt.Sprintf("options given as false / twice / in another order change the output (err=%v):\n plain     %s\n respelled %s", err, outs[sv], b))
			}
		}
	}

	// a result stays what it was while later conversions of the same and of an
	// equal input run (49 of them by now)
	if okOut[0] && first != nil {
		stats["result-retained"]++
		if b, err := json.Marshal(first); err != nil || string(b) != string(outs[0]) {
			viol(0, "determinism/result-changed-by-later-conversions", fmt.Sprintf("the first result reads differently after the later conversions (err=%v):\n before %s\n after  %s", err, outs[0], b))
		}
	}

	// option differential: S == base with exactly the documented keys removed.
	// base is the output without options, or with IncludeInvalidPolygons alone.
	failedSingle := map[int]bool{}
	order := []int{1, 2, 4, 3, 5, 6, 7}
	for _, inv := range []int{0, optInvalid} {
		if !okOut[inv] {
			continue
		}
		for _, sub := range order {
			s := sub | inv
			if !okOut[s] {
				continue
			}
			v, _ := canonical(outs[inv])
			strip(v, sub)
			want := marshalCanon(v)
			stats["differential"]++
			if want == canon[s] {
				continue
			}
			single := sub&(sub-1) == 0
			if single {
				failedSingle[sub] = true
			} else {
				attributed := false
				for bit := 1; bit < 8; bit <<= 1 {
					if sub&bit != 0 && failedSingle[bit] {
						attributed = true
					}
				}
				if attributed {
					continue
				}
			}
			viol(s, "option-differential/"+optSetName(sub),
				fmt.Sprintf("output differs from the output without %s by more than the documented keys:\n got  %s\n want %s", optSetName(sub), canon[s], want))
		}
	}
	if okOut[0] && okOut[optInvalid] {
		a, _ := canonical(outs[0])
		b, _ := canonical(outs[optInvalid])
		ix.dropAreaFeatures(a)
		ix.dropAreaFeatures(b)
		stats["differential"]++
		if x, y := marshalCanon(a), marshalCanon(b); x != y {
			viol(optInvalid, "option-differential/IncludeInvalidPolygons",
				fmt.Sprintf("features that do not stem from an area relation differ:\n without %s\n with    %s", x, y))
		}
		if string(outs[0]) != string(outs[optInvalid]) {
			skipped["what IncludeInvalidPolygons adds to area relations"]++
		}
		// the option only ever ADDS polygons that would otherwise be left out: every feature
		// of the output without it is in the output with it, unchanged
		fa, _ := canonical(outs[0])
		fb, _ := canonical(outs[optInvalid])
		with := map[string]bool{}
		for _, f := range featuresOf(fb) {
			with[marshalCanon(f)] = true
		}
		for _, f := range featuresOf(fa) {
			if k := marshalCanon(f); !with[k] {
				viol(optInvalid, "option-differential/IncludeInvalidPolygons-changes-a-valid-feature",
					fmt.Sprintf("a feature of the output without the option is missing from (or different in) the output with it: %s", k))
				break
			}
		}
	}

	if r.WantSample() {
		r.Sample(map[string]interface{}{"data": d, "output_no_options": json.RawMessage(outs[0])})
	}
	aggMu.Lock()
	for k, v := range skipped {
		aggSkipped[k] += int64(v)
	}
	for k, v := range stats {
		aggStats[k] += int64(v)
	}
	aggFamily[d.Family]++
	aggMu.Unlock()
}

func main() {
	kit.Main("C17", "exploration", func(r *kit.Run) {
		r.Rule("Every data set of the finite product in gen.go (families node, unint-key, way, route, route-long, route-topology, area, other, nested, mixed, meta-values, strings, degenerate, oriented, long; " +
			"choices: tag class, located, role, way shape, missing-node subset, coordinate source, metadata pattern, member order and direction, relation kind, relation-in-relation membership with and without ids shared across kinds; " +
			"boundary classes: every 9th data set again with ids beyond 2^40, every 8th with one of 11 id ranges (0, around 2^31 / 2^32 / 2^40, up to 2^44, beyond 2^53 and 2^62, negative, beyond 2^44 / 2^45, below 2^63; int64 extremes), " +
			"every 6th with one of 8 coordinate maps (prime meridian, equator, all four quadrants, mirrored, +-180/+-90, 15-17 digit fractions, 1e-7); metadata at 1 / 2^31 / 2^53+1 / 2^63-1, timestamps at the epoch, before it, sub-second, in other zones, after 2262, year 9999; " +
			"strings with blanks, non-ASCII, quotes, line breaks, 5000 characters; empty data set, ways without refs, relations without members, ways visiting a node twice, oriented route members, lists of 128-300 entries) " +
			"is converted under all 16 option sets; one evaluation = (data set, option set). A case is non-trivial when the conversion emitted at least one feature; " +
			"it is distinct by the hash of the data set content (not its name) plus the option set.")
		r.Assume("Way.Polygon() decides which ways are areas (checked by C18); orb/geojson marshalling shows the feature collection faithfully; " +
			"multipolygon geometry is C16's subject and only per-feature identity/props constraints are applied to it here.")
		r.Assume("Not judged (counted under skipped_clauses): presence of features for ways without interesting tags, for ways consumed by an area relation, " +
			"for relations that are neither route nor area; nodes stored at 0,0; what IncludeInvalidPolygons adds. " +
			"Not enumerated: negative ids and ids from 2^44 that share their number across kinds (the packed feature id the membership map is keyed by collides: reported, see gen.go idShifts); " +
			"duplicate tag keys, duplicate element ids, contradicting repeated options, member types other than node/way/relation, invisible elements, NaN coordinates, years beyond 9999 (the property text does not decide them).")
		if r.ReplayPath != "" {
			var c replayCase
			r.LoadReplay(&c)
			checkCase(r, &c.Data)
			scribbleCase(r, &c.Data)
			report(r)
			return
		}
		cases := enumerate(r.Quick())
		r.Par(len(cases), func(i int) {
			if r.TimeUp() {
				capOnce.Do(func() { r.Capped("time budget reached before all data sets were converted") })
				return
			}
			checkCase(r, &cases[i])
		})
		r.Set("datasets", len(cases))
		// The caller owns what Convert returned: after writing into every map and every
		// coordinate list of a result, the next conversion of the same input still gives the
		// same output (nothing a result holds may be shared with later results). Sequential:
		// if the library did share something, the writes of parallel workers would end the
		// process with "concurrent map writes" instead of a report.
		nscribble := 0
		for i := range cases {
			if r.TimeUp() {
				break
			}
			nscribble += scribbleCase(r, &cases[i])
		}
		r.Set("conversions_after_a_write_into_the_previous_result", nscribble)
		report(r)
	})
}

func report(r *kit.Run) {
	r.Set("option_sets", 16)
	r.Set("datasets_per_family", sorted(aggFamily))
	r.Set("skipped_clauses", sorted(aggSkipped))
	r.Set("clause_applications", sorted(aggStats))
}

func sorted(m map[string]int64) map[string]int64 {
	// json.Marshal sorts map keys; copy to detach from the aggregate.
	out := map[string]int64{}
	keys := make([]string, 0, len(m))
	for k := range m {
		keys = append(keys, k)
	}
	sort.Strings(keys)
	for _, k := range keys {
		out[k] = m[k]
	}
	return out
}
