package main

import "fmt"

// ---- building blocks ----

// coord gives every node id its own coordinate (lon, lat). Ids 1-4 are a unit
// square listed counter-clockwise, 5-8 a smaller square inside it, also
// counter-clockwise; higher ids lie to the east with distinct longitudes.
func coord(id int64) (lon, lat float64) {
	switch id {
	case 1:
		return 1, 1
	case 2:
		return 2, 1
	case 3:
		return 2, 2
	case 4:
		return 1, 2
	case 5:
		return 1.25, 1.25
	case 6:
		return 1.75, 1.25
	case 7:
		return 1.75, 1.75
	case 8:
		return 1.25, 1.75
	}
	return 3 + 0.5*float64(id-9), 1 + 0.25*float64((id*7)%5)
}

// metaPat returns metadata pattern p for an element; salt keeps the values of
// different elements and different fields apart.
func metaPat(p int, salt int64) Meta {
	full := Meta{Version: int(3 + salt), Changeset: 700 + salt, User: fmt.Sprintf("user%d", salt), UID: 90 + salt, TS: 1500000000 + 3600*salt}
	switch p % 5 {
	case 0:
		return Meta{}
	case 1:
		return full
	case 2:
		return Meta{Version: full.Version}
	case 3:
		return Meta{User: full.User, TS: full.TS}
	default:
		return Meta{Changeset: full.Changeset, UID: full.UID}
	}
}

// node tag classes
const (
	tcNone = iota
	tcUnint
	tcInteresting
	tcMixedUnsorted
	tcUnintTwo
	tcEmptyValue // an interesting key whose value is the empty string: still a tag
	tcValueTrue  // values that look like flags
	numTagClasses
)

func classTags(c int) []Tag {
	switch c {
	case tcUnint:
		return []Tag{{"source", "survey"}}
	case tcInteresting:
		return []Tag{{"name", "N"}}
	case tcMixedUnsorted:
		return []Tag{{"source", "x"}, {"amenity", "cafe"}}
	case tcUnintTwo:
		return []Tag{{"created_by", "JOSM"}, {"attribution", "a"}}
	case tcEmptyValue:
		return []Tag{{"name", ""}}
	case tcValueTrue:
		return []Tag{{"source", "true"}, {"ref", "true"}}
	}
	return nil
}

func mkNode(id int64, located bool, tags []Tag, m Meta) DNode {
	n := DNode{ID: id, Tags: tags, Meta: m}
	if located {
		n.Lon, n.Lat = coord(id)
	}
	return n
}

func mkWay(id int64, tags []Tag, m Meta, ids ...int64) DWay {
	w := DWay{ID: id, Tags: tags, Meta: m}
	for _, n := range ids {
		w.Nodes = append(w.Nodes, DWayNode{ID: n})
	}
	return w
}

func rev(ids []int64) []int64 {
	out := make([]int64, len(ids))
	for i := range ids {
		out[len(ids)-1-i] = ids[i]
	}
	return out
}

func perms(n int) [][]int {
	if n == 0 {
		return [][]int{{}}
	}
	var out [][]int
	for _, p := range perms(n - 1) {
		for pos := 0; pos <= len(p); pos++ {
			q := make([]int, 0, n)
			q = append(q, p[:pos]...)
			q = append(q, n-1)
			q = append(q, p[pos:]...)
			out = append(out, q)
		}
	}
	return out
}

// nodesFor adds a plain located node for every id a way references and that
// is not yet in the set and not listed in missing.
func nodesFor(d *Data, missing map[int64]bool, mp int) {
	have := map[int64]bool{}
	for _, n := range d.Nodes {
		have[n.ID] = true
	}
	for _, w := range d.Ways {
		for _, wn := range w.Nodes {
			if !have[wn.ID] && !missing[wn.ID] {
				have[wn.ID] = true
				d.Nodes = append(d.Nodes, mkNode(wn.ID, true, nil, metaPat(mp, wn.ID)))
			}
		}
	}
}

// ---- families ----

// family node: one probe node over tag class x located x role, inside a
// small context of one way and one relation.
func genNode(quick bool, emit func(Data)) {
	type ctx struct {
		name string
		ids  []int64
		tags []Tag
	}
	ctxs := []ctx{
		{"open3", []int64{1, 2, 3}, nil},
		{"area", []int64{1, 2, 3, 4, 1}, []Tag{{"building", "yes"}}},
		{"closedline", []int64{1, 2, 3, 4, 1}, []Tag{{"highway", "residential"}}},
	}
	roles := []string{"free", "way", "rel", "both"}
	metas := []int{0, 1, 2, 3, 4}
	if quick {
		metas = []int{0, 1, 3}
	}
	for _, cx := range ctxs {
		for pos := 0; pos < 2; pos++ {
			for ri, role := range roles {
				inWay := ri == 1 || ri == 3
				inRel := ri >= 2
				if !inWay && pos > 0 {
					continue
				}
				relKinds := []string{"absent", "route-way-only"}
				if inRel {
					relKinds = []string{"route", "multipolygon", "site", "notype"}
				}
				for _, rk := range relKinds {
					for _, located := range []bool{true, false} {
						for tc := 0; tc < numTagClasses; tc++ {
							for _, mp := range metas {
								probe := int64(9)
								if inWay {
									probe = cx.ids[pos]
								}
								d := Data{Family: "node", Name: fmt.Sprintf("node/%s/pos%d/%s/%s/located=%v/tags%d/meta%d", cx.name, pos, role, rk, located, tc, mp)}
								d.Nodes = append(d.Nodes, mkNode(probe, located, classTags(tc), metaPat(mp, probe)))
								d.Ways = append(d.Ways, mkWay(1, cx.tags, metaPat(mp+2, 1), cx.ids...))
								nodesFor(&d, nil, mp+1)
								wrole := ""
								var rtags []Tag
								switch rk {
								case "route", "route-way-only":
									rtags = []Tag{{"type", "route"}, {"route", "bus"}}
								case "multipolygon":
									rtags = []Tag{{"type", "multipolygon"}, {"landuse", "forest"}}
									wrole = "outer"
								case "site":
									rtags = []Tag{{"type", "site"}}
								}
								if rk != "absent" {
									rel := DRel{ID: 1, Tags: rtags, Meta: metaPat(mp+3, 1)}
									rel.Members = append(rel.Members, DMember{Type: "way", Ref: 1, Role: wrole})
									if inRel {
										rel.Members = append(rel.Members, DMember{Type: "node", Ref: probe, Role: "stop"})
									}
									d.Rels = append(d.Rels, rel)
								}
								emit(d)
							}
						}
					}
				}
			}
		}
	}
}

// family unint-key: a way-member node with a single tag, for each of the nine
// uninteresting keys and for near misses.
func genUnintKey(emit func(Data)) {
	keys := []string{"source", "source_ref", "source:ref", "history", "attribution", "created_by",
		"tiger:county", "tiger:tlid", "tiger:upload_uuid",
		"Source", "source:date", "tiger:reviewed", "created-by", "note", "",
		// boundary audit: near misses by whitespace, case and bare prefix
		" source", "source ", "SOURCE", "tiger:", "source:", "tiger:upload_uuid "}
	for _, k := range keys {
		for _, second := range []string{"", "created_by", "name"} {
			tags := []Tag{{k, "v"}}
			if second != "" && second != k {
				tags = append(tags, Tag{second, "w"})
			}
			d := Data{Family: "unint-key", Name: fmt.Sprintf("unint-key/%q+%q", k, second)}
			d.Nodes = append(d.Nodes, mkNode(2, true, tags, metaPat(1, 2)))
			d.Ways = append(d.Ways, mkWay(1, []Tag{{"highway", "path"}}, Meta{}, 1, 2, 3))
			nodesFor(&d, nil, 0)
			emit(d)
		}
	}
}

// family way: shape x tags x every subset of missing nodes x coordinate
// source x a second way sharing nodes x metadata.
func genWay(quick bool, emit func(Data)) {
	type shape struct {
		name string
		ids  []int64
	}
	shapes := []shape{
		{"open2", []int64{1, 2}},
		{"open3", []int64{1, 2, 3}},
		{"closed4ccw", []int64{1, 2, 3, 4, 1}},
		{"closed4cw", []int64{1, 4, 3, 2, 1}},
		{"closed3", []int64{1, 2, 3, 1}},
		{"closed2", []int64{1, 2, 1}},
		{"closed4-from3", []int64{3, 4, 1, 2, 3}},
	}
	tagSets := [][]Tag{
		nil,
		{{"source", "bing"}},
		{{"name", "x"}},
		{{"building", "yes"}},
		{{"area", "yes"}},
		{{"building", "yes"}, {"area", "no"}},
		{{"highway", "residential"}},
		{{"source", "bing"}, {"building", "yes"}},
		{{"natural", "water"}},
	}
	modes := []string{"set", "inline", "both"}
	seconds := []string{"none", "shares-end", "same-nodes", "crossing"}
	metas := []int{0, 1, 3}
	if quick {
		seconds = []string{"none", "shares-end", "same-nodes"}
		metas = []int{0, 1}
	}
	for _, sh := range shapes {
		var distinct []int64
		seen := map[int64]bool{}
		for _, id := range sh.ids {
			if !seen[id] {
				seen[id] = true
				distinct = append(distinct, id)
			}
		}
		for ti, tags := range tagSets {
			for mask := 0; mask < 1<<len(distinct); mask++ {
				missing := map[int64]bool{}
				for i, id := range distinct {
					if mask&(1<<i) != 0 {
						missing[id] = true
					}
				}
				for _, mode := range modes {
					for _, sec := range seconds {
						for _, mp := range metas {
							if quick && mode != "set" && (sec != "none" || mp != 1) {
								continue // quick: coordinate source varies only on the single-way data sets
							}
							d := Data{Family: "way", Name: fmt.Sprintf("way/%s/tags%d/missing%b/%s/%s/meta%d", sh.name, ti, mask, mode, sec, mp)}
							w := mkWay(1, tags, metaPat(mp, 1), sh.ids...)
							if mode != "set" {
								for i := range w.Nodes {
									if !missing[w.Nodes[i].ID] {
										w.Nodes[i].Lon, w.Nodes[i].Lat = coord(w.Nodes[i].ID)
									}
								}
							}
							d.Ways = append(d.Ways, w)
							switch sec {
							case "shares-end":
								d.Ways = append(d.Ways, mkWay(2, []Tag{{"highway", "service"}}, metaPat(mp+1, 2), sh.ids[len(sh.ids)-1], 9))
							case "same-nodes":
								d.Ways = append(d.Ways, mkWay(2, []Tag{{"barrier", "fence"}}, metaPat(mp+1, 2), sh.ids...))
							case "crossing":
								d.Ways = append(d.Ways, mkWay(2, nil, metaPat(mp+1, 2), 9, sh.ids[1], 10))
							}
							if mode == "inline" {
								// nodes are not in the set at all, except those only the second way needs
								skip := map[int64]bool{}
								for _, id := range distinct {
									skip[id] = true
								}
								if sec != "none" {
									// the second way has no inline coordinates: it resolves from the set
									skip = missing
								}
								nodesFor(&d, skip, mp+2)
							} else {
								nodesFor(&d, missing, mp+2)
							}
							emit(d)
						}
					}
				}
			}
		}
	}
}

// family route: k ways in a chain, every direction mask, every member order.
func genRoute(quick bool, emit func(Data)) {
	metas := []int{0, 1, 3}
	missWay := []int{0, 1, 2}
	if quick {
		metas = []int{0, 1}
		missWay = []int{0, 1}
	}
	for k := 1; k <= 3; k++ {
		for lm := 0; lm < 1<<k; lm++ {
			if quick && lm != 0 && lm != (5&((1<<k)-1)) {
				continue
			}
			// way j has 2 nodes, or 3 when bit j of lm is set; consecutive ways share an end node
			var wayIDs [][]int64
			next := int64(11)
			for j := 0; j < k; j++ {
				n := 2
				if lm&(1<<j) != 0 {
					n = 3
				}
				ids := []int64{}
				for i := 0; i < n; i++ {
					ids = append(ids, next+int64(i))
				}
				next += int64(n - 1)
				wayIDs = append(wayIDs, ids)
			}
			for dirs := 0; dirs < 1<<k; dirs++ {
				for pi, perm := range perms(k) {
					for tagMode := 0; tagMode < 3; tagMode++ {
						for nodeMember := 0; nodeMember < 3; nodeMember++ {
							for _, mw := range missWay {
								for _, mp := range metas {
									d := Data{Family: "route", Name: fmt.Sprintf("route/k%d/len%b/dirs%b/perm%d/waytags%d/nodemember%d/missingway%d/meta%d", k, lm, dirs, pi, tagMode, nodeMember, mw, mp)}
									for j := 0; j < k; j++ {
										ids := wayIDs[j]
										if dirs&(1<<j) != 0 {
											ids = rev(ids)
										}
										var tags []Tag
										switch {
										case tagMode == 1:
											tags = []Tag{{"highway", "primary"}}
										case tagMode == 2 && j == 0:
											tags = []Tag{{"source", "gps"}}
										}
										d.Ways = append(d.Ways, mkWay(int64(j+1), tags, metaPat(mp+j, int64(j+1)), ids...))
									}
									rel := DRel{ID: 1, Tags: []Tag{{"type", "route"}, {"route", "bus"}, {"ref", "7"}}, Meta: metaPat(mp+1, 1)}
									if mw == 1 {
										rel.Members = append(rel.Members, DMember{Type: "way", Ref: 9})
									}
									for i, j := range perm {
										role := ""
										if i%2 == 1 {
											role = "forward"
										}
										rel.Members = append(rel.Members, DMember{Type: "way", Ref: int64(j + 1), Role: role})
									}
									switch nodeMember {
									case 1:
										rel.Members = append(rel.Members, DMember{Type: "node", Ref: 11, Role: "stop"})
									case 2:
										d.Nodes = append(d.Nodes, mkNode(30, true, []Tag{{"name", "Stop"}}, metaPat(mp, 30)))
										rel.Members = append(rel.Members, DMember{Type: "node", Ref: 30, Role: "platform"})
									}
									if mw == 2 {
										rel.Members = append(rel.Members, DMember{Type: "way", Ref: 9, Role: "backward"})
									}
									d.Rels = append(d.Rels, rel)
									nodesFor(&d, nil, mp+2)
									emit(d)
								}
							}
						}
					}
				}
			}
		}
	}
}

// family route-doubled-joint: two member ways that connect at a node which one of them
// lists twice in a row at that end (a zero-length segment right at the seam: it is a segment
// of the member way like any other).
func genRouteDoubledJoint(emit func(Data)) {
	shapes := [][2][]int64{{{11, 12, 12}, {12, 13}}, {{11, 12}, {12, 12, 13}}, {{11, 12, 12}, {12, 12, 13}}, {{11, 11, 12}, {12, 13, 13}}}
	for si, sh := range shapes {
		for dirs := 0; dirs < 4; dirs++ {
			for pi, perm := range perms(2) {
				d := Data{Family: "route-doubled-joint", Name: fmt.Sprintf("route-doubled-joint/shape%d/dirs%b/perm%d", si, dirs, pi)}
				for j := 0; j < 2; j++ {
					ids := sh[j]
					if dirs&(1<<j) != 0 {
						ids = rev(ids)
					}
					d.Ways = append(d.Ways, mkWay(int64(j+1), []Tag{{"highway", "primary"}}, metaPat(j, int64(j+1)), ids...))
				}
				rel := DRel{ID: 1, Tags: []Tag{{"type", "route"}, {"route", "bus"}}, Meta: metaPat(1, 1)}
				for _, j := range perm {
					rel.Members = append(rel.Members, DMember{Type: "way", Ref: int64(j + 1)})
				}
				d.Rels = append(d.Rels, rel)
				nodesFor(&d, nil, 2)
				emit(d)
			}
		}
	}
}

// family route-shared-tags: member ways whose tags repeat tags of the route relation (a way
// keeps its own feature whatever the relations it belongs to are tagged with).
func genRouteSharedTags(emit func(Data)) {
	relTags := []Tag{{"type", "route"}, {"route", "bus"}, {"ref", "7"}, {"name", "Rennsteig"}}
	wayTagSets := [][]Tag{{{"name", "Rennsteig"}}, {{"ref", "7"}, {"name", "Rennsteig"}}, {{"route", "bus"}}, {{"name", "Rennsteig"}, {"highway", "path"}}, {{"type", "route"}, {"route", "bus"}, {"ref", "7"}, {"name", "Rennsteig"}}}
	for ti, wt := range wayTagSets {
		for second := 0; second < 2; second++ {
			for mp := 0; mp < 2; mp++ {
				d := Data{Family: "route-shared-tags", Name: fmt.Sprintf("route-shared-tags/tags%d/second%d/meta%d", ti, second, mp)}
				d.Ways = append(d.Ways, mkWay(1, wt, metaPat(mp, 1), 11, 12, 13))
				var t2 []Tag
				if second == 1 {
					t2 = wt
				}
				d.Ways = append(d.Ways, mkWay(2, t2, metaPat(mp+1, 2), 13, 14))
				d.Rels = append(d.Rels, DRel{ID: 1, Tags: relTags, Meta: metaPat(mp, 1), Members: []DMember{{Type: "way", Ref: 1}, {Type: "way", Ref: 2, Role: "forward"}}})
				nodesFor(&d, nil, mp)
				emit(d)
			}
		}
	}
}

// family route-long: 5 (thorough: also 6) two-node ways in a chain, EVERY member
// order. The joiner removes a matched segment from a list that it keeps in
// two halves; with five or more members the match can sit deep in the first
// half, which three-member routes never reach.
func genRouteLong(quick bool, emit func(Data)) {
	ks := []int{5}
	if !quick {
		ks = []int{5, 6}
	}
	for _, k := range ks {
		for _, dirs := range []int{0, 0b010101 & (1<<uint(k) - 1), 1<<uint(k) - 1} {
			for pi, perm := range perms(k) {
				for tagMode := 0; tagMode < 2; tagMode++ {
					d := Data{Family: "route-long", Name: fmt.Sprintf("route-long/k%d/dirs%b/perm%d/waytags%d", k, dirs, pi, tagMode)}
					for j := 0; j < k; j++ {
						ids := []int64{int64(11 + j), int64(12 + j)}
						if dirs&(1<<uint(j)) != 0 {
							ids = rev(ids)
						}
						var tags []Tag
						if tagMode == 1 {
							tags = []Tag{{"highway", "primary"}}
						}
						d.Ways = append(d.Ways, mkWay(int64(j+1), tags, metaPat(j, int64(j+1)), ids...))
					}
					rel := DRel{ID: 1, Tags: []Tag{{"type", "route"}, {"route", "bus"}}, Meta: metaPat(1, 1)}
					for _, j := range perm {
						rel.Members = append(rel.Members, DMember{Type: "way", Ref: int64(j + 1)})
					}
					d.Rels = append(d.Rels, rel)
					nodesFor(&d, nil, 2)
					emit(d)
				}
			}
		}
	}
}

// family nested: a relation that produces a feature (route, multipolygon,
// boundary, old-style multipolygon emitted under its outer way's identity) or
// does not (site) is itself a member of one or two parent relations
// (route_master, site, untyped, route). The child's numeric id (7) is shared
// by no other element, by a way, by a node, or by both; with "cross" the
// parent also lists way 7, node 7 and a relation whose id only a way carries,
// so that ids overlap across kinds in both directions. The feature of the
// child must list exactly its memberships, like any other feature.
func genNested(quick bool, emit func(Data)) {
	childKinds := []string{"route", "multipolygon", "boundary", "oldstyle-multipolygon", "site"}
	parentTags := map[string][]Tag{
		"route_master": {{"type", "route_master"}, {"route_master", "bus"}, {"ref", "7"}},
		"site":         {{"type", "site"}, {"name", "S"}},
		"untyped":      nil,
		"route":        {{"type", "route"}, {"route", "hiking"}},
	}
	parentKinds := []string{"route_master", "site", "untyped", "route"}
	metas := []int{0, 1, 3}
	if quick {
		metas = []int{1}
	}
	const child = 7
	for _, ck := range childKinds {
		for share := 0; share < 4; share++ { // bit 0: a way has id 7, bit 1: a node has id 7
			for _, pk := range parentKinds {
				for _, role := range []string{"", "variant"} {
					for second := 0; second < 2; second++ {
						for order := 0; order < 2; order++ {
							for cross := 0; cross < 2; cross++ {
								for _, mp := range metas {
									d := Data{Family: "nested", Name: fmt.Sprintf("nested/%s/share%b/parent=%s/role=%q/second%d/order%d/cross%d/meta%d", ck, share, pk, role, second, order, cross, mp)}
									c := DRel{ID: child, Meta: metaPat(mp, child)}
									switch ck {
									case "route":
										d.Ways = append(d.Ways, mkWay(1, nil, metaPat(mp, 1), 11, 12), mkWay(2, []Tag{{"highway", "primary"}}, metaPat(mp+1, 2), 13, 12))
										c.Tags = []Tag{{"type", "route"}, {"route", "bus"}}
										c.Members = []DMember{{Type: "way", Ref: 1}, {Type: "way", Ref: 2, Role: "forward"}}
									case "multipolygon", "boundary":
										d.Ways = append(d.Ways, mkWay(1, nil, metaPat(mp, 1), 1, 2, 3, 4, 1))
										c.Tags = []Tag{{"type", ck}, {"landuse", "forest"}}
										c.Members = []DMember{{Type: "way", Ref: 1, Role: "outer"}}
									case "oldstyle-multipolygon":
										d.Ways = append(d.Ways, mkWay(1, []Tag{{"building", "yes"}}, metaPat(mp, 1), 1, 2, 3, 4, 1))
										c.Tags = []Tag{{"type", "multipolygon"}}
										c.Members = []DMember{{Type: "way", Ref: 1, Role: "outer"}}
									case "site":
										d.Ways = append(d.Ways, mkWay(1, []Tag{{"highway", "path"}}, metaPat(mp, 1), 11, 12))
										c.Tags = []Tag{{"type", "site"}}
										c.Members = []DMember{{Type: "way", Ref: 1}}
									}
									if share&1 != 0 {
										d.Ways = append(d.Ways, mkWay(child, []Tag{{"highway", "path"}}, metaPat(mp+2, child), 15, 16))
									}
									if share&2 != 0 {
										d.Nodes = append(d.Nodes, mkNode(child, true, []Tag{{"name", "seven"}}, metaPat(mp+3, child)))
									}
									p := DRel{ID: 8, Tags: parentTags[pk], Meta: metaPat(mp+1, 8)}
									if pk == "route" {
										// a parent that has a geometry of its own
										d.Ways = append(d.Ways, mkWay(3, nil, metaPat(mp, 3), 17, 18))
										p.Members = append(p.Members, DMember{Type: "way", Ref: 3})
									}
									p.Members = append(p.Members, DMember{Type: "relation", Ref: child, Role: role})
									if cross == 1 {
										p.Members = append(p.Members,
											DMember{Type: "way", Ref: child, Role: "w"},
											DMember{Type: "node", Ref: child, Role: "n"},
											DMember{Type: "relation", Ref: 1, Role: "ghost"}, // way 1 exists, relation 1 does not
											DMember{Type: "relation", Ref: 8, Role: "self"})
									}
									rels := []DRel{c, p}
									if second == 1 {
										// a second parent lists the child again and the first parent
										rels = append(rels, DRel{ID: 9, Tags: []Tag{{"type", "network"}, {"network", "N"}}, Meta: metaPat(mp+2, 9), Members: []DMember{
											{Type: "relation", Ref: 8, Role: "master"},
											{Type: "relation", Ref: child, Role: "direct"},
											{Type: "relation", Ref: child, Role: role},
										}})
									}
									if order == 1 {
										for i, j := 0, len(rels)-1; i < j; i, j = i+1, j-1 {
											rels[i], rels[j] = rels[j], rels[i]
										}
									}
									d.Rels = rels
									nodesFor(&d, nil, mp+1)
									emit(d)
								}
							}
						}
					}
				}
			}
		}
	}
}

// family route-topology: three member ways in other arrangements than a chain.
func genRouteTopology(emit func(Data)) {
	type topo struct {
		name    string
		ways    [][]int64
		missing []int64
		extra   []DMember
	}
	topos := []topo{
		{name: "Y", ways: [][]int64{{11, 12}, {12, 13}, {12, 14, 15}}},
		{name: "triangle", ways: [][]int64{{11, 12}, {12, 13, 14}, {14, 11}}},
		{name: "disjoint", ways: [][]int64{{11, 12}, {12, 13}, {15, 16}}},
		{name: "duplicate-member", ways: [][]int64{{11, 12, 13}, {13, 14}}, extra: []DMember{{Type: "way", Ref: 1}}},
		{name: "roundabout", ways: [][]int64{{1, 2, 3, 4, 1}, {3, 11}, {11, 12}}},
		{name: "junction-node-missing", ways: [][]int64{{11, 12}, {12, 13}, {13, 14}}, missing: []int64{12}},
		{name: "middle-node-missing", ways: [][]int64{{11, 12, 13}, {13, 14}}, missing: []int64{12}},
		{name: "end-node-missing", ways: [][]int64{{11, 12, 13}, {13, 14, 15}}, missing: []int64{15}},
		{name: "one-node-way", ways: [][]int64{{11, 12}, {12, 13}}, missing: []int64{13}},
		{name: "only-one-node-ways", ways: [][]int64{{11, 12}}, missing: []int64{12}},
		{name: "relation-member", ways: [][]int64{{11, 12}, {12, 13}}, extra: []DMember{{Type: "relation", Ref: 2, Role: "sub"}, {Type: "relation", Ref: 9}}},
		{name: "all-ways-absent", ways: nil, extra: []DMember{{Type: "way", Ref: 7}, {Type: "node", Ref: 11}}},
		{name: "crossing-interior", ways: [][]int64{{11, 12, 13}, {14, 12, 15}}},
		{name: "two-parallel", ways: [][]int64{{11, 12}, {11, 13, 12}}},
	}
	for _, tp := range topos {
		k := len(tp.ways)
		for dirs := 0; dirs < 1<<k; dirs++ {
			for pi, perm := range perms(k) {
				for tagMode := 0; tagMode < 2; tagMode++ {
					d := Data{Family: "route-topology", Name: fmt.Sprintf("route-topology/%s/dirs%b/perm%d/waytags%d", tp.name, dirs, pi, tagMode)}
					for j := 0; j < k; j++ {
						ids := tp.ways[j]
						if dirs&(1<<j) != 0 {
							ids = rev(ids)
						}
						var tags []Tag
						if tagMode == 1 {
							tags = []Tag{{"railway", "tram"}}
						}
						d.Ways = append(d.Ways, mkWay(int64(j+1), tags, metaPat(j, int64(j+1)), ids...))
					}
					rel := DRel{ID: 1, Tags: []Tag{{"route", "tram"}, {"type", "route"}}, Meta: metaPat(1, 1)}
					for _, j := range perm {
						rel.Members = append(rel.Members, DMember{Type: "way", Ref: int64(j + 1)})
					}
					rel.Members = append(rel.Members, tp.extra...)
					d.Rels = append(d.Rels, rel)
					if tp.name == "relation-member" {
						d.Rels = append(d.Rels, DRel{ID: 2, Tags: []Tag{{"type", "route"}}, Meta: metaPat(3, 2),
							Members: []DMember{{Type: "way", Ref: 2, Role: "x"}}})
					}
					if tp.name == "all-ways-absent" {
						d.Nodes = append(d.Nodes, mkNode(11, true, nil, metaPat(1, 11)))
					}
					miss := map[int64]bool{}
					for _, id := range tp.missing {
						miss[id] = true
					}
					nodesFor(&d, miss, 2)
					emit(d)
				}
			}
		}
	}
}

// family area: one simple multipolygon / boundary (geometry is C16's), for
// the per-feature constraints and the option differential.
func genArea(emit func(Data)) {
	relExtra := [][]Tag{nil, {{"building", "yes"}}, {{"name", "Lake"}, {"natural", "water"}}}
	outerTags := [][]Tag{nil, {{"building", "yes"}}, {{"natural", "water"}}, {{"source", "x"}}}
	innerTags := [][]Tag{nil, {{"natural", "wood"}}}
	for _, typ := range []string{"multipolygon", "boundary"} {
		for _, inner := range []bool{false, true} {
			for ri, rx := range relExtra {
				for oi, ot := range outerTags {
					for ii, it := range innerTags {
						if !inner && ii > 0 {
							continue
						}
						for nodeMember := 0; nodeMember < 3; nodeMember++ {
							for _, missing := range []int64{0, 3} {
								for _, mp := range []int{0, 1, 3} {
									d := Data{Family: "area", Name: fmt.Sprintf("area/%s/inner=%v/reltags%d/outertags%d/innertags%d/nodemember%d/missing%d/meta%d", typ, inner, ri, oi, ii, nodeMember, missing, mp)}
									d.Ways = append(d.Ways, mkWay(1, ot, metaPat(mp, 1), 1, 2, 3, 4, 1))
									rel := DRel{ID: 1, Tags: append([]Tag{{"type", typ}}, rx...), Meta: metaPat(mp+1, 1)}
									rel.Members = append(rel.Members, DMember{Type: "way", Ref: 1, Role: "outer"})
									if inner {
										d.Ways = append(d.Ways, mkWay(2, it, metaPat(mp+2, 2), 5, 6, 7, 8, 5))
										rel.Members = append(rel.Members, DMember{Type: "way", Ref: 2, Role: "inner"})
									}
									switch nodeMember {
									case 1:
										rel.Members = append(rel.Members, DMember{Type: "node", Ref: 1, Role: "admin_centre"})
									case 2:
										d.Nodes = append(d.Nodes, mkNode(9, true, nil, metaPat(mp, 9)))
										rel.Members = append(rel.Members, DMember{Type: "node", Ref: 9, Role: "label"})
									}
									d.Rels = append(d.Rels, rel)
									nodesFor(&d, map[int64]bool{missing: true}, mp+3)
									emit(d)
								}
							}
						}
					}
				}
			}
		}
	}
}

// family other: relations that are neither route nor area, relations as
// members of relations, absent members.
func genOther(emit func(Data)) {
	types := [][]Tag{{{"type", "site"}}, nil, {{"type", "restriction"}, {"restriction", "no_left_turn"}}, {{"name", "no type"}}, {{"type", ""}}}
	for ti, tt := range types {
		for wayTags := 0; wayTags < 3; wayTags++ {
			for _, mp := range []int{0, 1, 3} {
				for order := 0; order < 2; order++ {
					d := Data{Family: "other", Name: fmt.Sprintf("other/type%d/waytags%d/meta%d/order%d", ti, wayTags, mp, order)}
					d.Ways = append(d.Ways, mkWay(1, classTags(wayTags), metaPat(mp, 1), 1, 2, 3))
					d.Ways = append(d.Ways, mkWay(2, []Tag{{"highway", "track"}}, metaPat(mp+1, 2), 3, 9))
					d.Nodes = append(d.Nodes, mkNode(10, true, nil, metaPat(mp, 10)))
					other := DRel{ID: 1, Tags: tt, Meta: metaPat(mp+2, 1), Members: []DMember{
						{Type: "way", Ref: 1, Role: "from"},
						{Type: "node", Ref: 2, Role: "via"},
						{Type: "node", Ref: 10, Role: "label"},
						{Type: "relation", Ref: 2, Role: "part"},
						{Type: "relation", Ref: 77, Role: "gone"},
						{Type: "way", Ref: 77, Role: "gone"},
						{Type: "node", Ref: 77, Role: "gone"},
						{Type: "way", Ref: 1, Role: "to"},
					}}
					route := DRel{ID: 2, Tags: []Tag{{"type", "route"}, {"route", "hiking"}}, Meta: metaPat(mp+3, 2), Members: []DMember{
						{Type: "way", Ref: 1}, {Type: "way", Ref: 2}, {Type: "relation", Ref: 1, Role: "loop"},
					}}
					if order == 0 {
						d.Rels = append(d.Rels, other, route)
					} else {
						d.Rels = append(d.Rels, route, other)
					}
					nodesFor(&d, nil, mp+1)
					emit(d)
				}
			}
		}
	}
}

// family mixed: everything in one data set, ids overlapping across kinds,
// elements in several relations, element order permuted.
func genMixed(quick bool, emit func(Data)) {
	metas := []int{0, 1, 2, 3, 4}
	if quick {
		metas = []int{0, 1, 3}
	}
	for _, mp := range metas {
		for tc := 0; tc < numTagClasses; tc++ {
			for order := 0; order < 4; order++ {
				for _, missing := range []int64{0, 12, 3} {
					for _, inline := range []bool{false, true} {
						d := Data{Family: "mixed", Name: fmt.Sprintf("mixed/meta%d/tags%d/order%d/missing%d/inline=%v", mp, tc, order, missing, inline)}
						ways := []DWay{
							mkWay(1, classTags(tc), metaPat(mp, 1), 11, 12),
							mkWay(2, nil, metaPat(mp+1, 2), 13, 12),
							mkWay(3, []Tag{{"highway", "primary"}, {"bridge", "yes"}}, metaPat(mp+2, 3), 13, 14, 15),
							mkWay(4, []Tag{{"building", "yes"}}, metaPat(mp+3, 4), 1, 4, 3, 2, 1),
							mkWay(5, []Tag{{"waterway", "stream"}}, metaPat(mp+4, 5), 15, 16, 3),
							mkWay(6, []Tag{{"landuse", "grass"}}, metaPat(mp, 6), 5, 6, 7, 8, 5),
						}
						if inline {
							for i := range ways[2].Nodes {
								ways[2].Nodes[i].Lon, ways[2].Nodes[i].Lat = coord(ways[2].Nodes[i].ID)
							}
						}
						rels := []DRel{
							{ID: 1, Tags: []Tag{{"type", "route"}, {"route", "bus"}}, Meta: metaPat(mp, 1), Members: []DMember{
								{Type: "way", Ref: 3, Role: "forward"}, {Type: "way", Ref: 1}, {Type: "way", Ref: 2}, {Type: "node", Ref: 14, Role: "stop"}}},
							{ID: 2, Tags: []Tag{{"type", "route"}, {"route", "bicycle"}}, Meta: metaPat(mp+1, 2), Members: []DMember{
								{Type: "way", Ref: 2}, {Type: "way", Ref: 3}, {Type: "way", Ref: 5}, {Type: "way", Ref: 3, Role: "again"}}},
							{ID: 3, Tags: []Tag{{"type", "multipolygon"}, {"landuse", "park"}}, Meta: metaPat(mp+2, 3), Members: []DMember{
								{Type: "way", Ref: 4, Role: "outer"}, {Type: "way", Ref: 6, Role: "inner"}}},
							{ID: 4, Tags: []Tag{{"type", "network"}}, Meta: metaPat(mp+3, 4), Members: []DMember{
								{Type: "relation", Ref: 1}, {Type: "relation", Ref: 2, Role: "alt"}, {Type: "way", Ref: 5}, {Type: "node", Ref: 20, Role: "info"}, {Type: "node", Ref: 16}}},
						}
						d.Nodes = append(d.Nodes,
							mkNode(20, true, classTags(tc), metaPat(mp, 20)),
							mkNode(21, true, classTags((tc+1)%numTagClasses), metaPat(mp+1, 21)),
							mkNode(22, false, classTags(tc), Meta{}),
							mkNode(13, true, classTags(tc), metaPat(mp+2, 13)),
							mkNode(2, true, classTags((tc+2)%numTagClasses), metaPat(mp+3, 2)),
						)
						d.Ways, d.Rels = ways, rels
						skip := map[int64]bool{missing: true}
						if inline {
							skip[15] = true // resolvable only through way 3's inline coordinate
						}
						nodesFor(&d, skip, mp+1)
						switch order {
						case 1:
							reverseNodes(d.Nodes)
						case 2:
							d.Ways[0], d.Ways[5] = d.Ways[5], d.Ways[0]
							d.Ways[1], d.Ways[3] = d.Ways[3], d.Ways[1]
							d.Rels[0], d.Rels[3] = d.Rels[3], d.Rels[0]
						case 3:
							reverseNodes(d.Nodes)
							d.Ways[2], d.Ways[4] = d.Ways[4], d.Ways[2]
							d.Rels[1], d.Rels[2] = d.Rels[2], d.Rels[1]
						}
						emit(d)
					}
				}
			}
		}
	}
}

func reverseNodes(n []DNode) {
	for i, j := 0, len(n)-1; i < j; i, j = i+1, j-1 {
		n[i], n[j] = n[j], n[i]
	}
}

// enumerate lists the complete space of the tier.
// shifted returns a copy of d with every id and ref moved by off (coordinates,
// tags and metadata stay): ids of 2^40 and above do not fit the ref bits of the
// packed osm.FeatureID / ElementID, a feature must carry the element's own id.
func shifted(d Data, off int64) Data {
	o := Data{Name: d.Name + fmt.Sprintf("/ids+%d", off), Family: d.Family, Extras: d.Extras}
	for _, n := range d.Nodes {
		n.ID += off
		o.Nodes = append(o.Nodes, n)
	}
	for _, w := range d.Ways {
		w.ID += off
		nd := make([]DWayNode, len(w.Nodes))
		for i, x := range w.Nodes {
			x.ID += off
			nd[i] = x
		}
		w.Nodes = nd
		o.Ways = append(o.Ways, w)
	}
	for _, r := range d.Rels {
		r.ID += off
		ms := make([]DMember, len(r.Members))
		for i, m := range r.Members {
			m.Ref += off
			ms[i] = m
		}
		r.Members = ms
		o.Rels = append(o.Rels, r)
	}
	return o
}

func enumerate(quick bool) []Data {
	var out []Data
	k := 0
	emit := func(d Data) {
		out = append(out, d)
		k++
		// every 9th data set of every family once more with ids beyond 40 bits
		if k%9 == 0 {
			out = append(out, shifted(d, 1<<40+1<<33))
		}
		// boundary audit: every 8th data set once more with one of the id ranges
		// of idShifts, every 6th with one of the coordinate maps of coordMaps
		// (both in rotation, so every family meets every range and every map)
		if k%8 == 3 {
			sh := idShifts[(k/8)%len(idShifts)]
			out = append(out, shiftedByKind(d, sh))
		}
		if k%6 == 1 {
			cm := coordMaps[(k/6)%len(coordMaps)]
			out = append(out, recoord(d, cm))
		}
	}
	genNode(quick, emit)
	genUnintKey(emit)
	genWay(quick, emit)
	genRoute(quick, emit)
	genRouteDoubledJoint(emit)
	genRouteSharedTags(emit)
	genRouteLong(quick, emit)
	genRouteTopology(emit)
	genArea(emit)
	genOther(emit)
	genNested(quick, emit)
	genMixed(quick, emit)
	genMetaValues(emit)
	genStrings(emit)
	genDegenerate(emit)
	genOriented(emit)
	genLong(quick, emit)
	out = append(out, extremeIDs()...) // not through emit: these ids cannot be shifted
	return out
}

// extremeIDs: the largest and the smallest int64 as element ids (numbers kept
// apart across kinds, see idShifts).
func extremeIDs() []Data {
	var out []Data
	for _, c := range []struct {
		name                 string
		n1, n2, w, w2, r, r2 int64
	}{
		{"max", 1<<63 - 1, 1<<63 - 2, 1<<63 - 3, 1<<63 - 4, 1<<63 - 5, 1<<63 - 6},
		{"min", -1 << 63, -1<<63 + 1, -1<<63 + 2, -1<<63 + 3, -1<<63 + 4, -1<<63 + 5},
	} {
		for _, mp := range []int{0, 1} {
			d := Data{Family: "degenerate", Name: fmt.Sprintf("degenerate/extreme-ids/%s/meta%d", c.name, mp)}
			a, b := mkNode(11, true, []Tag{{"name", "N"}}, metaPat(mp, 1)), mkNode(12, true, nil, metaPat(mp, 2))
			a.ID, b.ID = c.n1, c.n2
			d.Nodes = append(d.Nodes, a, b)
			d.Ways = append(d.Ways,
				mkWay(c.w, []Tag{{"highway", "path"}}, metaPat(mp, 3), c.n1, c.n2),
				mkWay(c.w2, []Tag{{"building", "yes"}}, metaPat(mp, 4), c.n1, c.n2, c.n1))
			d.Rels = append(d.Rels,
				DRel{ID: c.r, Tags: []Tag{{"type", "route"}, {"route", "bus"}}, Meta: metaPat(mp, 5), Members: []DMember{
					{Type: "way", Ref: c.w, Role: "w"}, {Type: "node", Ref: c.n2, Role: "stop"}}},
				DRel{ID: c.r2, Tags: []Tag{{"type", "network"}}, Meta: metaPat(mp, 6), Members: []DMember{
					{Type: "relation", Ref: c.r, Role: "line"}, {Type: "way", Ref: c.w2, Role: "depot"}}})
			out = append(out, d)
		}
	}
	return out
}

// ---- boundary audit: value classes outside the alphabets above ----

// idShift moves the ids of a data set into another range; node, way and
// relation ids (and the refs to them) get their own offset.
type idShift struct {
	name           string
	node, way, rel int64
}

func uniform(name string, off int64) idShift { return idShift{name, off, off, off} }

// The library keeps relation memberships in a map keyed by the packed
// osm.FeatureID (type bits | id<<16, NOT masked). For 0 <= id < 2^44 the key is
// unique; ids whose bits 44-47 are set, and negative ids, run into the type
// bits, and elements of DIFFERENT kinds (or, for bit 44, ids 2^44 apart) share
// a key: way -5 then lists the memberships of node -5 and relation -5, node
// 2^45+5 those of relation 5. That breaks "carrying ... its relation
// memberships" on the unchanged tree (reported by the boundary audit; see the
// commented entries below). Until it is decided, negative ids and ids from
// 2^44 are enumerated with the three kinds in separate number ranges (generated
// numbers stay below 1000), which no key collision can reach; everything
// else about such ids (feature id, properties.id, lookups of ways, nodes and
// members) is judged as for any other id.
var idShifts = []idShift{
	uniform("ids-from-0", -1),              // id 1 becomes 0
	uniform("ids-around-2^31", 1<<31-2),    // 2^31-1, 2^31, ...
	uniform("ids-around-2^32", 1<<32-2),    // 2^32-1, 2^32, ...
	uniform("ids-around-2^40", 1<<40-2),    // 2^40-1 is the last id that fits the 40 ref bits
	uniform("ids-above-2^43", 1<<44-1000),  // the last ids whose packed key is still unique
	uniform("ids-above-2^53", 1<<53+1),     // odd ids are not representable in a float64
	uniform("ids-above-2^62", 1<<62+1<<35), //
	{"ids-negative", -1000, -2000, -3000},  // -999.., -1999.., -2999..
	{"ids-above-2^44", 1<<44 + 1000, 1<<44 + 2000, 1<<44 + 3000},
	{"ids-above-2^45", 1<<45 + 1000, 1<<45 + 2000, 1<<45 + 3000},
	{"ids-below-2^63", 1<<63 - 1 - 3999, 1<<63 - 1 - 2999, 1<<63 - 1 - 1999}, // up to 2^63-1001; 2^63-1 itself: extremeIDs
	// ids that collide across kinds in a packed osm.FeatureID key (the defect
	// described above, repaired in /repo by "fix: osmgeojson: relation memberships
	// are kept by member type and id")
	uniform("ids-negative-shared-across-kinds", -1000),
	uniform("ids-above-2^44-shared-across-kinds", 1<<44),
	uniform("ids-above-2^45-shared-across-kinds", 1<<45),
}

func shiftedByKind(d Data, sh idShift) Data {
	o := Data{Name: d.Name + "/" + sh.name, Family: d.Family, Extras: d.Extras}
	if sh.node != sh.way || sh.way != sh.rel {
		// separate ranges only work while the generated numbers stay inside one range
		chk := func(id int64) {
			if id < 0 || id >= 1000 {
				panic(fmt.Sprintf("generator: id %d of %s outside 0..999", id, d.Name))
			}
		}
		for _, n := range d.Nodes {
			chk(n.ID)
		}
		for _, w := range d.Ways {
			chk(w.ID)
			for _, x := range w.Nodes {
				chk(x.ID)
			}
		}
		for _, r := range d.Rels {
			chk(r.ID)
			for _, m := range r.Members {
				chk(m.Ref)
			}
		}
	}
	for _, n := range d.Nodes {
		n.ID += sh.node
		o.Nodes = append(o.Nodes, n)
	}
	for _, w := range d.Ways {
		w.ID += sh.way
		nd := make([]DWayNode, len(w.Nodes))
		for i, x := range w.Nodes {
			x.ID += sh.node
			nd[i] = x
		}
		w.Nodes = nd
		o.Ways = append(o.Ways, w)
	}
	for _, r := range d.Rels {
		r.ID += sh.rel
		ms := make([]DMember, len(r.Members))
		for i, m := range r.Members {
			switch m.Type {
			case "node":
				m.Ref += sh.node
			case "way":
				m.Ref += sh.way
			default:
				m.Ref += sh.rel
			}
			ms[i] = m
		}
		r.Members = ms
		o.Rels = append(o.Rels, r)
	}
	return o
}

// coordMap moves every located coordinate (of nodes and of inline way nodes);
// 0,0 stays "not located". All maps are injective, so distinct nodes keep
// distinct coordinates.
type coordMap struct {
	name string
	f    func(lon, lat float64) (float64, float64)
}

var coordMaps = []coordMap{
	{"lon0", func(lon, lat float64) (float64, float64) { return lon - 1, lat }},                                   // nodes 1 and 4 on the prime meridian
	{"lat0", func(lon, lat float64) (float64, float64) { return lon, lat - 1 }},                                   // nodes 1, 2 and others on the equator
	{"quadrants", func(lon, lat float64) (float64, float64) { return lon - 1.5, lat - 1.5 }},                      // the squares straddle 0,0; negative coordinates
	{"mirrored", func(lon, lat float64) (float64, float64) { return -lon, lat }},                                  // western hemisphere, every ring's winding flipped
	{"upper-limits", func(lon, lat float64) (float64, float64) { return 180 - (lon-1)/1000, 90 - (lat-1)/100 }},   // node 1 at 180,90
	{"lower-limits", func(lon, lat float64) (float64, float64) { return -180 + (lon-1)/1000, -90 + (lat-1)/100 }}, // node 1 at -180,-90
	{"decimals", func(lon, lat float64) (float64, float64) { return lon/3 + 0.1, lat/7 + 1e-7 }},                  // 15-17 significant digits
	{"tiny", func(lon, lat float64) (float64, float64) { return lon * 1e-7, lat * 1e-7 }},                         // one unit of OSM's resolution from 0
}

func recoord(d Data, cm coordMap) Data {
	o := Data{Name: d.Name + "/coords-" + cm.name, Family: d.Family, Rels: d.Rels, Extras: d.Extras}
	mv := func(lon, lat float64) (float64, float64) {
		if lon == 0 && lat == 0 {
			return 0, 0
		}
		x, y := cm.f(lon, lat)
		if x == 0 && y == 0 {
			panic(fmt.Sprintf("generator: %s maps %v,%v of %s to 0,0", cm.name, lon, lat, d.Name))
		}
		return x, y
	}
	for _, n := range d.Nodes {
		n.Lon, n.Lat = mv(n.Lon, n.Lat)
		o.Nodes = append(o.Nodes, n)
	}
	for _, w := range d.Ways {
		nd := make([]DWayNode, len(w.Nodes))
		for i, x := range w.Nodes {
			x.Lon, x.Lat = mv(x.Lon, x.Lat)
			nd[i] = x
		}
		w.Nodes = nd
		o.Ways = append(o.Ways, w)
	}
	return o
}

// metaValues: one field (or all) at a boundary value. Version, changeset and
// uid: 1, around 2^31, 2^32, beyond 2^53, the largest value; timestamps: the
// unix epoch, one second either side of it, the 19th century, sub-second
// parts, other zones, osm.CommitInfoStart, after 2262 (outside UnixNano),
// the last second of year 9999, one nanosecond after the zero time.
var metaValues = []Meta{
	{Version: 1}, {Version: 1<<31 - 1}, {Version: 1 << 31}, {Version: 1 << 62},
	{Changeset: 1}, {Changeset: 1 << 31}, {Changeset: 1<<32 + 1}, {Changeset: 1<<53 + 1}, {Changeset: 1<<63 - 1},
	{UID: 1}, {UID: 1 << 31}, {UID: 1<<53 + 1}, {UID: 1<<63 - 1},
	{TSSet: true}, {TSSet: true, ZoneSec: 3600}, {TS: 1}, {TS: -1}, {TS: -3155760000},
	{NS: 1}, {TS: 1500000000, NS: 1}, {TS: 1500000000, NS: 500000000}, {TS: 1500000000, NS: 999999999},
	{TS: 1500000000, ZoneSec: 19800}, {TS: 1500000000, NS: 123456789, ZoneSec: -28800},
	{TS: 1347442203}, {TS: 1347442202}, {TS: 10413792000}, {TS: 253402300799},
	{TS: -62135596800, NS: 1}, {TS: -62135596799},
	{Version: 1 << 31, Changeset: 1<<53 + 1, User: "u", UID: 1<<53 + 1, TS: 1500000000, NS: 1, ZoneSec: 19800},
	{User: "only a name"},
}

// family meta-values: a node, a line way, an area way, a route, a tagged
// multipolygon and an old-style multipolygon (emitted under its outer way's
// identity) in one data set; element j carries metaValues[i+j].
func genMetaValues(emit func(Data)) {
	n := len(metaValues)
	for i := range metaValues {
		mv := func(j int) Meta { return metaValues[(i+j)%n] }
		d := Data{Family: "meta-values", Name: fmt.Sprintf("meta-values/%d", i)}
		d.Nodes = append(d.Nodes, mkNode(9, true, []Tag{{"name", "N"}}, mv(0)), mkNode(12, true, nil, mv(1)))
		d.Ways = append(d.Ways,
			mkWay(1, []Tag{{"highway", "path"}}, mv(2), 11, 12, 13),
			mkWay(2, []Tag{{"building", "yes"}}, mv(3), 1, 2, 3, 4, 1),
			mkWay(3, nil, mv(4), 13, 14),
			mkWay(4, nil, mv(5), 5, 6, 7, 8, 5),
			mkWay(5, []Tag{{"natural", "water"}}, mv(6), 21, 22, 23, 21))
		d.Rels = append(d.Rels,
			DRel{ID: 1, Tags: []Tag{{"type", "route"}, {"route", "bus"}}, Meta: mv(7), Members: []DMember{
				{Type: "way", Ref: 1}, {Type: "way", Ref: 3}, {Type: "node", Ref: 12, Role: "stop"}}},
			DRel{ID: 2, Tags: []Tag{{"type", "multipolygon"}, {"landuse", "forest"}}, Meta: mv(8), Members: []DMember{
				{Type: "way", Ref: 4, Role: "outer"}}},
			DRel{ID: 3, Tags: []Tag{{"type", "multipolygon"}}, Meta: mv(9), Members: []DMember{
				{Type: "way", Ref: 5, Role: "outer"}}})
		nodesFor(&d, nil, 0)
		emit(d)
	}
}

// family strings: one string class used as tag key, tag value, user name and
// member role of a node, a way and a relation.
func genStrings(emit func(Data)) {
	long := make([]byte, 5000)
	for i := range long {
		long[i] = 'x'
	}
	longU := ""
	for i := 0; i < 2000; i++ {
		longU += "\u00fc"
	}
	strs := []string{" ", "\t", " lead", "trail ", "na\u00efve caf\u00e9", "\u65e5\u672c\u8a9e", "a\"b\\c/", "<&>'", "line\nbreak\ttab",
		"\u2028\u2029", "\U0001F6B2", string(long), longU, "true", "null", "0", "-1"}
	for i, s := range strs {
		for _, empty := range []bool{false, true} {
			d := Data{Family: "strings", Name: fmt.Sprintf("strings/%d/emptytaglists=%v", i, empty)}
			m := Meta{Version: 2, User: s, UID: 7}
			d.Nodes = append(d.Nodes,
				mkNode(12, true, []Tag{{s, "v"}}, m),
				mkNode(9, true, []Tag{{"k", s}}, Meta{User: s}),
				mkNode(13, true, []Tag{{"source", s}}, m)) // an uninteresting key stays uninteresting whatever its value
			d.Ways = append(d.Ways, mkWay(1, []Tag{{"highway", "path"}, {s, s}}, m, 11, 12, 13, 14))
			d.Rels = append(d.Rels, DRel{ID: 1, Tags: []Tag{{"type", "route"}, {s, s}}, Meta: m, Members: []DMember{
				{Type: "way", Ref: 1, Role: s}, {Type: "node", Ref: 14, Role: s}, {Type: "node", Ref: 9, Role: s + s}}})
			if empty {
				// present-but-empty tag lists instead of absent ones
				d.Nodes = append(d.Nodes, mkNode(30, true, []Tag{}, m))
				d.Ways = append(d.Ways, mkWay(2, []Tag{}, m, 14, 15))
				d.Rels = append(d.Rels, DRel{ID: 2, Tags: []Tag{}, Meta: m, Members: []DMember{{Type: "way", Ref: 2, Role: s}}})
			}
			nodesFor(&d, nil, 0)
			emit(d)
		}
	}
}

// family degenerate: nothing at all, empty lists, ways that visit a node twice.
func genDegenerate(emit func(Data)) {
	emit(Data{Family: "degenerate", Name: "degenerate/no-elements"})
	emit(Data{Family: "degenerate", Name: "degenerate/empty-lists", Nodes: []DNode{}, Ways: []DWay{}, Rels: []DRel{}})
	emit(Data{Family: "degenerate", Name: "degenerate/one-free-node", Nodes: []DNode{mkNode(9, true, nil, Meta{})}})
	emit(Data{Family: "degenerate", Name: "degenerate/one-unlocated-node", Nodes: []DNode{mkNode(9, false, []Tag{{"name", "N"}}, Meta{})}})

	// an osm.OSM that also holds bounds, a changeset, a note and a user
	for _, base := range []string{"empty", "elements"} {
		d := Data{Family: "degenerate", Name: "degenerate/with-bounds-changeset-note-user/" + base, Extras: true}
		if base == "elements" {
			d.Nodes = append(d.Nodes, mkNode(1, true, []Tag{{"name", "N"}}, metaPat(1, 1)), mkNode(9, true, nil, metaPat(1, 9)))
			d.Ways = append(d.Ways, mkWay(1, []Tag{{"building", "yes"}}, metaPat(1, 1), 1, 2, 3, 4, 1))
			d.Rels = append(d.Rels, DRel{ID: 1, Tags: []Tag{{"type", "route"}}, Meta: metaPat(1, 1), Members: []DMember{{Type: "way", Ref: 1}}})
			nodesFor(&d, nil, 1)
		}
		emit(d)
	}

	// a way whose coordinates come partly from its own refs and partly from the node set
	for _, ids := range [][]int64{{11, 12, 13}, {1, 2, 3, 4, 1}} {
		for mask := 1; mask < 1<<len(ids)-1; mask++ {
			for ti, tags := range [][]Tag{{{"highway", "path"}}, {{"building", "yes"}}} {
				d := Data{Family: "degenerate", Name: fmt.Sprintf("degenerate/partly-inline/len%d/inline%b/tags%d", len(ids), mask, ti)}
				w := mkWay(1, tags, metaPat(1, 1), ids...)
				for i := range w.Nodes {
					if mask&(1<<i) != 0 {
						w.Nodes[i].Lon, w.Nodes[i].Lat = coord(w.Nodes[i].ID)
					}
				}
				d.Ways = append(d.Ways, w)
				// a node whose every reference is inline is not in the set
				skip := map[int64]bool{}
				for i, id := range ids {
					if mask&(1<<i) != 0 {
						skip[id] = true
					}
				}
				for i, id := range ids {
					if mask&(1<<i) == 0 {
						delete(skip, id)
					}
				}
				nodesFor(&d, skip, 1)
				emit(d)
			}
		}
	}

	// a way without node refs: alone, as a route member, as an outer
	for _, tags := range [][]Tag{nil, {{"highway", "path"}}, {{"building", "yes"}}} {
		for ctx := 0; ctx < 4; ctx++ {
			d := Data{Family: "degenerate", Name: fmt.Sprintf("degenerate/way-without-refs/tags%d/ctx%d", len(tags), ctx)}
			d.Ways = append(d.Ways, DWay{ID: 1, Tags: tags, Meta: metaPat(1, 1)}, mkWay(2, []Tag{{"highway", "path"}}, metaPat(1, 2), 11, 12))
			d.Nodes = append(d.Nodes, mkNode(9, true, nil, metaPat(1, 9)))
			switch ctx {
			case 1:
				d.Rels = append(d.Rels, DRel{ID: 1, Tags: []Tag{{"type", "route"}}, Members: []DMember{{Type: "way", Ref: 1}}})
			case 2:
				d.Rels = append(d.Rels, DRel{ID: 1, Tags: []Tag{{"type", "route"}}, Members: []DMember{{Type: "way", Ref: 1}, {Type: "way", Ref: 2}}})
			case 3:
				d.Rels = append(d.Rels, DRel{ID: 1, Tags: []Tag{{"type", "multipolygon"}, {"landuse", "forest"}}, Members: []DMember{{Type: "way", Ref: 1, Role: "outer"}}})
			}
			nodesFor(&d, nil, 0)
			emit(d)
		}
	}

	// relations without members, or with node members only
	relTags := [][]Tag{{{"type", "route"}, {"route", "bus"}}, {{"type", "multipolygon"}, {"landuse", "forest"}},
		{{"type", "boundary"}}, {{"type", "site"}}, nil}
	for ti, tt := range relTags {
		for mm := 0; mm < 3; mm++ {
			d := Data{Family: "degenerate", Name: fmt.Sprintf("degenerate/relation-without-ways/type%d/members%d", ti, mm)}
			r := DRel{ID: 1, Tags: tt, Meta: metaPat(1, 1)}
			switch mm {
			case 1:
				r.Members = []DMember{}
			case 2:
				r.Members = []DMember{{Type: "node", Ref: 9, Role: "stop"}, {Type: "node", Ref: 12}}
			}
			d.Rels = append(d.Rels, r)
			d.Nodes = append(d.Nodes, mkNode(9, true, nil, metaPat(1, 9)))
			d.Ways = append(d.Ways, mkWay(1, []Tag{{"highway", "path"}}, metaPat(1, 1), 11, 12))
			nodesFor(&d, nil, 0)
			emit(d)
		}
	}

	// ways that visit a node more than once
	shapes := []struct {
		name string
		ids  []int64
	}{
		{"twice-in-a-row", []int64{1, 1, 2}},
		{"twice-at-the-end", []int64{1, 2, 2}},
		{"back-and-forth", []int64{1, 2, 3, 2}},
		{"only-one-node-twice", []int64{1, 1}},
		{"ring-with-a-spur", []int64{1, 2, 3, 4, 2, 1}},
		{"ring-listed-twice", []int64{1, 2, 3, 4, 1, 2, 3, 4, 1}},
	}
	tagSets := [][]Tag{{{"highway", "path"}}, {{"building", "yes"}}, nil}
	for _, sh := range shapes {
		var distinct []int64
		seen := map[int64]bool{}
		for _, id := range sh.ids {
			if !seen[id] {
				seen[id] = true
				distinct = append(distinct, id)
			}
		}
		for ti, tags := range tagSets {
			for mask := 0; mask < 1<<len(distinct); mask++ {
				for _, inline := range []bool{false, true} {
					for _, inRoute := range []bool{false, true} {
						if inRoute && inline {
							continue
						}
						missing := map[int64]bool{}
						for i, id := range distinct {
							if mask&(1<<i) != 0 {
								missing[id] = true
							}
						}
						d := Data{Family: "degenerate", Name: fmt.Sprintf("degenerate/repeated-node/%s/tags%d/missing%b/inline=%v/route=%v", sh.name, ti, mask, inline, inRoute)}
						w := mkWay(1, tags, metaPat(1, 1), sh.ids...)
						if inline {
							for i := range w.Nodes {
								if !missing[w.Nodes[i].ID] {
									w.Nodes[i].Lon, w.Nodes[i].Lat = coord(w.Nodes[i].ID)
								}
							}
							missing = map[int64]bool{}
							for _, id := range distinct {
								missing[id] = true
							}
						}
						d.Ways = append(d.Ways, w)
						if inRoute {
							d.Ways = append(d.Ways, mkWay(2, nil, metaPat(1, 2), sh.ids[len(sh.ids)-1], 11))
							d.Rels = append(d.Rels, DRel{ID: 1, Tags: []Tag{{"type", "route"}, {"route", "hiking"}}, Meta: metaPat(1, 1),
								Members: []DMember{{Type: "way", Ref: 2}, {Type: "way", Ref: 1}}})
						}
						nodesFor(&d, missing, 0)
						emit(d)
					}
				}
			}
		}
	}
}

// family oriented: route members that carry an Orientation (annotated
// relations); the joined line must still hold every segment.
func genOriented(emit func(Data)) {
	ways := [][]int64{{11, 12}, {12, 13, 14}, {14, 15}}
	patterns := [][]int{{-1, -1, -1}, {1, 1, 1}, {-1, 0, 1}}
	for _, dirs := range []int{0, 0b010, 0b111, 0b101} {
		for pi, perm := range perms(3) {
			for oi, pat := range patterns {
				d := Data{Family: "oriented", Name: fmt.Sprintf("oriented/dirs%b/perm%d/orient%d", dirs, pi, oi)}
				for j, ids := range ways {
					if dirs&(1<<j) != 0 {
						ids = rev(ids)
					}
					var tags []Tag
					if j == 1 {
						tags = []Tag{{"highway", "primary"}}
					}
					d.Ways = append(d.Ways, mkWay(int64(j+1), tags, metaPat(j, int64(j+1)), ids...))
				}
				rel := DRel{ID: 1, Tags: []Tag{{"type", "route"}, {"route", "bus"}}, Meta: metaPat(1, 1)}
				for _, j := range perm {
					rel.Members = append(rel.Members, DMember{Type: "way", Ref: int64(j + 1), Orientation: pat[j]})
				}
				d.Rels = append(d.Rels, rel)
				nodesFor(&d, nil, 2)
				emit(d)
			}
		}
	}
}

// family long: list lengths beyond one-byte counts - a way of 128 / 300
// nodes, a route over 130 ways, a relation of 300 members, a node in 130
// relations and listed 150 times by one of them, 130 tags on one element.
func genLong(quick bool, emit func(Data)) {
	lens := []int{128, 300}
	for _, n := range lens {
		for _, missingEvery := range []int{0, 7} {
			d := Data{Family: "long", Name: fmt.Sprintf("long/way%d/missing-every%d", n, missingEvery)}
			ids := make([]int64, n)
			miss := map[int64]bool{}
			for i := range ids {
				ids[i] = int64(11 + i)
				if missingEvery != 0 && i%missingEvery == 3 {
					miss[ids[i]] = true
				}
			}
			d.Ways = append(d.Ways, mkWay(1, []Tag{{"highway", "path"}}, metaPat(1, 1), ids...))
			nodesFor(&d, miss, 0)
			emit(d)
		}
	}
	const k = 130
	for order := 0; order < 4; order++ {
		d := Data{Family: "long", Name: fmt.Sprintf("long/route%d/order%d", k, order)}
		var seq []int
		switch order {
		case 0:
			for j := 0; j < k; j++ {
				seq = append(seq, j)
			}
		case 1:
			for j := k - 1; j >= 0; j-- {
				seq = append(seq, j)
			}
		case 2:
			for j := 0; j < k; j += 2 {
				seq = append(seq, j)
			}
			for j := 1; j < k; j += 2 {
				seq = append(seq, j)
			}
		default:
			for j := 0; j < k; j++ {
				seq = append(seq, (j*37)%k) // 37 and 130 are coprime: every way once
			}
		}
		for j := 0; j < k; j++ {
			ids := []int64{int64(11 + j), int64(12 + j)}
			if (j+order)%3 == 0 {
				ids = rev(ids)
			}
			d.Ways = append(d.Ways, mkWay(int64(j+1), nil, metaPat(j, int64(j+1)), ids...))
		}
		rel := DRel{ID: 1, Tags: []Tag{{"type", "route"}, {"route", "train"}}, Meta: metaPat(1, 1)}
		for _, j := range seq {
			rel.Members = append(rel.Members, DMember{Type: "way", Ref: int64(j + 1)})
		}
		d.Rels = append(d.Rels, rel)
		nodesFor(&d, nil, 0)
		emit(d)
	}
	{
		d := Data{Family: "long", Name: "long/memberships"}
		d.Nodes = append(d.Nodes, mkNode(9, true, nil, metaPat(1, 9)), mkNode(12, true, nil, metaPat(1, 12)))
		d.Ways = append(d.Ways, mkWay(1, []Tag{{"highway", "path"}}, metaPat(1, 1), 11, 12, 13))
		big := DRel{ID: 200, Tags: []Tag{{"type", "site"}}, Meta: metaPat(1, 200)}
		for i := 0; i < 150; i++ {
			big.Members = append(big.Members, DMember{Type: "node", Ref: 12, Role: fmt.Sprintf("r%d", i)}, DMember{Type: "way", Ref: 1, Role: fmt.Sprintf("w%d", i%3)})
		}
		d.Rels = append(d.Rels, big)
		for i := 0; i < 130; i++ {
			d.Rels = append(d.Rels, DRel{ID: int64(1 + i), Tags: []Tag{{"type", "collection"}, {"n", fmt.Sprint(i)}}, Meta: metaPat(i, int64(1+i)),
				Members: []DMember{{Type: "node", Ref: 9, Role: fmt.Sprint(i)}, {Type: "way", Ref: 1}}})
		}
		nodesFor(&d, nil, 0)
		emit(d)
	}
	{
		d := Data{Family: "long", Name: "long/tags"}
		var tags []Tag
		for i := 0; i < 130; i++ {
			tags = append(tags, Tag{fmt.Sprintf("key%03d", 129-i), fmt.Sprintf("value%d", i)})
		}
		d.Nodes = append(d.Nodes, mkNode(12, true, tags, metaPat(1, 12)))
		d.Ways = append(d.Ways, mkWay(1, tags, metaPat(1, 1), 11, 12, 13))
		d.Rels = append(d.Rels, DRel{ID: 1, Tags: append([]Tag{{"type", "route"}}, tags...), Meta: metaPat(1, 1), Members: []DMember{{Type: "way", Ref: 1}}})
		nodesFor(&d, nil, 0)
		emit(d)
	}
	_ = quick
}
