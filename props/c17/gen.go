package main

import "fmt"

// ---- building blocks ----

// coord gives every node id its own coordinate (lon, lat). Ids 1-4 are a unit
// square listed counter-clockwise, 5-8 a smaller square inside it, also
// counter-clockwise; higher ids lie to the east with distinct longitudes.
func coord(id int64) (lon, lat float64) {
	switch id {
	case 1:
		return 1, 1
	case 2:
		return 2, 1
	case 3:
		return 2, 2
	case 4:
		return 1, 2
	case 5:
		return 1.25, 1.25
	case 6:
		return 1.75, 1.25
	case 7:
		return 1.75, 1.75
	case 8:
		return 1.25, 1.75
	}
	return 3 + 0.5*float64(id-9), 1 + 0.25*float64((id*7)%5)
}

// metaPat returns metadata pattern p for an element; salt keeps the values of
// different elements and different fields apart.
func metaPat(p int, salt int64) Meta {
	full := Meta{Version: int(3 + salt), Changeset: 700 + salt, User: fmt.Sprintf("user%d", salt), UID: 90 + salt, TS: 1500000000 + 3600*salt}
	switch p % 5 {
	case 0:
		return Meta{}
	case 1:
		return full
	case 2:
		return Meta{Version: full.Version}
	case 3:
		return Meta{User: full.User, TS: full.TS}
	default:
		return Meta{Changeset: full.Changeset, UID: full.UID}
	}
}

// node tag classes
const (
	tcNone = iota
	tcUnint
	tcInteresting
	tcMixedUnsorted
	tcUnintTwo
	tcEmptyValue // an interesting key whose value is the empty string: still a tag
	tcValueTrue  // values that look like flags
	numTagClasses
)

func classTags(c int) []Tag {
	switch c {
	case tcUnint:
		return []Tag{{"source", "survey"}}
	case tcInteresting:
		return []Tag{{"name", "N"}}
	case tcMixedUnsorted:
		return []Tag{{"source", "x"}, {"amenity", "cafe"}}
	case tcUnintTwo:
		return []Tag{{"created_by", "JOSM"}, {"attribution", "a"}}
	case tcEmptyValue:
		return []Tag{{"name", ""}}
	case tcValueTrue:
		return []Tag{{"source", "true"}, {"ref", "true"}}
	}
	return nil
}

func mkNode(id int64, located bool, tags []Tag, m Meta) DNode {
	n := DNode{ID: id, Tags: tags, Meta: m}
	if located {
		n.Lon, n.Lat = coord(id)
	}
	return n
}

func mkWay(id int64, tags []Tag, m Meta, ids ...int64) DWay {
	w := DWay{ID: id, Tags: tags, Meta: m}
	for _, n := range ids {
		w.Nodes = append(w.Nodes, DWayNode{ID: n})
	}
	return w
}

func rev(ids []int64) []int64 {
	out := make([]int64, len(ids))
	for i := range ids {
		out[len(ids)-1-i] = ids[i]
	}
	return out
}

func perms(n int) [][]int {
	if n == 0 {
		return [][]int{{}}
	}
	var out [][]int
	for _, p := range perms(n - 1) {
		for pos := 0; pos <= len(p); pos++ {
			q := make([]int, 0, n)
			q = append(q, p[:pos]...)
			q = append(q, n-1)
			q = append(q, p[pos:]...)
			out = append(out, q)
		}
	}
	return out
}

// nodesFor adds a plain located node for every id a way references and that
// is not yet in the set and not listed in missing.
func nodesFor(d *Data, missing map[int64]bool, mp int) {
	have := map[int64]bool{}
	for _, n := range d.Nodes {
		have[n.ID] = true
	}
	for _, w := range d.Ways {
		for _, wn := range w.Nodes {
			if !have[wn.ID] && !missing[wn.ID] {
				have[wn.ID] = true
				d.Nodes = append(d.Nodes, mkNode(wn.ID, true, nil, metaPat(mp, wn.ID)))
			}
		}
	}
}

// ---- families ----

// family node: one probe node over tag class x located x role, inside a
// small context of one way and one relation.
func genNode(quick bool, emit func(Data)) {
	type ctx struct {
		name string
		ids  []int64
		tags []Tag
	}
	ctxs := []ctx{
		{"open3", []int64{1, 2, 3}, nil},
		{"area", []int64{1, 2, 3, 4, 1}, []Tag{{"building", "yes"}}},
		{"closedline", []int64{1, 2, 3, 4, 1}, []Tag{{"highway", "residential"}}},
	}
	roles := []string{"free", "way", "rel", "both"}
	metas := []int{0, 1, 2, 3, 4}
	if quick {
		metas = []int{0, 1, 3}
	}
	for _, cx := range ctxs {
		for pos := 0; pos < 2; pos++ {
			for ri, role := range roles {
				inWay := ri == 1 || ri == 3
				inRel := ri >= 2
				if !inWay && pos > 0 {
					continue
				}
				relKinds := []string{"absent", "route-way-only"}
				if inRel {
					relKinds = []string{"route", "multipolygon", "site", "notype"}
				}
				for _, rk := range relKinds {
					for _, located := range []bool{true, false} {
						for tc := 0; tc < numTagClasses; tc++ {
							for _, mp := range metas {
								probe := int64(9)
								if inWay {
									probe = cx.ids[pos]
								}
								d := Data{Family: "node", Name: fmt.Sprintf("node/%s/pos%d/%s/%s/located=%v/tags%d/meta%d", cx.name, pos, role, rk, located, tc, mp)}
								d.Nodes = append(d.Nodes, mkNode(probe, located, classTags(tc), metaPat(mp, probe)))
								d.Ways = append(d.Ways, mkWay(1, cx.tags, metaPat(mp+2, 1), cx.ids...))
								nodesFor(&d, nil, mp+1)
								wrole := ""
								var rtags []Tag
								switch rk {
								case "route", "route-way-only":
									rtags = []Tag{{"type", "route"}, {"route", "bus"}}
								case "multipolygon":
									rtags = []Tag{{"type", "multipolygon"}, {"landuse", "forest"}}
									wrole = "outer"
								case "site":
									rtags = []Tag{{"type", "site"}}
								}
								if rk != "absent" {
									rel := DRel{ID: 1, Tags: rtags, Meta: metaPat(mp+3, 1)}
									rel.Members = append(rel.Members, DMember{Type: "way", Ref: 1, Role: wrole})
									if inRel {
										rel.Members = append(rel.Members, DMember{Type: "node", Ref: probe, Role: "stop"})
									}
									d.Rels = append(d.Rels, rel)
								}
								emit(d)
							}
						}
					}
				}
			}
		}
	}
}

// family unint-key: a way-member node with a single tag, for each of the nine
// uninteresting keys and for near misses.
func genUnintKey(emit func(Data)) {
	keys := []string{"source", "source_ref", "source:ref", "history", "attribution", "created_by",
		"tiger:county", "tiger:tlid", "tiger:upload_uuid",
		"Source", "source:date", "tiger:reviewed", "created-by", "note", ""}
	for _, k := range keys {
		for _, second := range []string{"", "created_by", "name"} {
			tags := []Tag{{k, "v"}}
			if second != "" && second != k {
				tags = append(tags, Tag{second, "w"})
			}
			d := Data{Family: "unint-key", Name: fmt.Sprintf("unint-key/%q+%q", k, second)}
			d.Nodes = append(d.Nodes, mkNode(2, true, tags, metaPat(1, 2)))
			d.Ways = append(d.Ways, mkWay(1, []Tag{{"highway", "path"}}, Meta{}, 1, 2, 3))
			nodesFor(&d, nil, 0)
			emit(d)
		}
	}
}

// family way: shape x tags x every subset of missing nodes x coordinate
// source x a second way sharing nodes x metadata.
func genWay(quick bool, emit func(Data)) {
	type shape struct {
		name string
		ids  []int64
	}
	shapes := []shape{
		{"open2", []int64{1, 2}},
		{"open3", []int64{1, 2, 3}},
		{"closed4ccw", []int64{1, 2, 3, 4, 1}},
		{"closed4cw", []int64{1, 4, 3, 2, 1}},
		{"closed3", []int64{1, 2, 3, 1}},
		{"closed2", []int64{1, 2, 1}},
		{"closed4-from3", []int64{3, 4, 1, 2, 3}},
	}
	tagSets := [][]Tag{
		nil,
		{{"source", "bing"}},
		{{"name", "x"}},
		{{"building", "yes"}},
		{{"area", "yes"}},
		{{"building", "yes"}, {"area", "no"}},
		{{"highway", "residential"}},
		{{"source", "bing"}, {"building", "yes"}},
		{{"natural", "water"}},
	}
	modes := []string{"set", "inline", "both"}
	seconds := []string{"none", "shares-end", "same-nodes", "crossing"}
	metas := []int{0, 1, 3}
	if quick {
		seconds = []string{"none", "shares-end", "same-nodes"}
		metas = []int{0, 1}
	}
	for _, sh := range shapes {
		var distinct []int64
		seen := map[int64]bool{}
		for _, id := range sh.ids {
			if !seen[id] {
				seen[id] = true
				distinct = append(distinct, id)
			}
		}
		for ti, tags := range tagSets {
			for mask := 0; mask < 1<<len(distinct); mask++ {
				missing := map[int64]bool{}
				for i, id := range distinct {
					if mask&(1<<i) != 0 {
						missing[id] = true
					}
				}
				for _, mode := range modes {
					for _, sec := range seconds {
						for _, mp := range metas {
							if quick && mode != "set" && (sec != "none" || mp != 1) {
								continue // quick: coordinate source varies only on the single-way data sets
							}
							d := Data{Family: "way", Name: fmt.Sprintf("way/%s/tags%d/missing%b/%s/%s/meta%d", sh.name, ti, mask, mode, sec, mp)}
							w := mkWay(1, tags, metaPat(mp, 1), sh.ids...)
							if mode != "set" {
								for i := range w.Nodes {
									if !missing[w.Nodes[i].ID] {
										w.Nodes[i].Lon, w.Nodes[i].Lat = coord(w.Nodes[i].ID)
									}
								}
							}
							d.Ways = append(d.Ways, w)
							switch sec {
							case "shares-end":
								d.Ways = append(d.Ways, mkWay(2, []Tag{{"highway", "service"}}, metaPat(mp+1, 2), sh.ids[len(sh.ids)-1], 9))
							case "same-nodes":
								d.Ways = append(d.Ways, mkWay(2, []Tag{{"barrier", "fence"}}, metaPat(mp+1, 2), sh.ids...))
							case "crossing":
								d.Ways = append(d.Ways, mkWay(2, nil, metaPat(mp+1, 2), 9, sh.ids[1], 10))
							}
							if mode == "inline" {
								// nodes are not in the set at all, except those only the second way needs
								skip := map[int64]bool{}
								for _, id := range distinct {
									skip[id] = true
								}
								if sec != "none" {
									// the second way has no inline coordinates: it resolves from the set
									skip = missing
								}
								nodesFor(&d, skip, mp+2)
							} else {
								nodesFor(&d, missing, mp+2)
							}
							emit(d)
						}
					}
				}
			}
		}
	}
}

// family route: k ways in a chain, every direction mask, every member order.
func genRoute(quick bool, emit func(Data)) {
	metas := []int{0, 1, 3}
	missWay := []int{0, 1, 2}
	if quick {
		metas = []int{0, 1}
		missWay = []int{0, 1}
	}
	for k := 1; k <= 3; k++ {
		for lm := 0; lm < 1<<k; lm++ {
			if quick && lm != 0 && lm != (5&((1<<k)-1)) {
				continue
			}
			// way j has 2 nodes, or 3 when bit j of lm is set; consecutive ways share an end node
			var wayIDs [][]int64
			next := int64(11)
			for j := 0; j < k; j++ {
				n := 2
				if lm&(1<<j) != 0 {
					n = 3
				}
				ids := []int64{}
				for i := 0; i < n; i++ {
					ids = append(ids, next+int64(i))
				}
				next += int64(n - 1)
				wayIDs = append(wayIDs, ids)
			}
			for dirs := 0; dirs < 1<<k; dirs++ {
				for pi, perm := range perms(k) {
					for tagMode := 0; tagMode < 3; tagMode++ {
						for nodeMember := 0; nodeMember < 3; nodeMember++ {
							for _, mw := range missWay {
								for _, mp := range metas {
									d := Data{Family: "route", Name: fmt.Sprintf("route/k%d/len%b/dirs%b/perm%d/waytags%d/nodemember%d/missingway%d/meta%d", k, lm, dirs, pi, tagMode, nodeMember, mw, mp)}
									for j := 0; j < k; j++ {
										ids := wayIDs[j]
										if dirs&(1<<j) != 0 {
											ids = rev(ids)
										}
										var tags []Tag
										switch {
										case tagMode == 1:
											tags = []Tag{{"highway", "primary"}}
										case tagMode == 2 && j == 0:
											tags = []Tag{{"source", "gps"}}
										}
										d.Ways = append(d.Ways, mkWay(int64(j+1), tags, metaPat(mp+j, int64(j+1)), ids...))
									}
									rel := DRel{ID: 1, Tags: []Tag{{"type", "route"}, {"route", "bus"}, {"ref", "7"}}, Meta: metaPat(mp+1, 1)}
									if mw == 1 {
										rel.Members = append(rel.Members, DMember{Type: "way", Ref: 9})
									}
									for i, j := range perm {
										role := ""
										if i%2 == 1 {
											role = "forward"
										}
										rel.Members = append(rel.Members, DMember{Type: "way", Ref: int64(j + 1), Role: role})
									}
									switch nodeMember {
									case 1:
										rel.Members = append(rel.Members, DMember{Type: "node", Ref: 11, Role: "stop"})
									case 2:
										d.Nodes = append(d.Nodes, mkNode(30, true, []Tag{{"name", "Stop"}}, metaPat(mp, 30)))
										rel.Members = append(rel.Members, DMember{Type: "node", Ref: 30, Role: "platform"})
									}
									if mw == 2 {
										rel.Members = append(rel.Members, DMember{Type: "way", Ref: 9, Role: "backward"})
									}
									d.Rels = append(d.Rels, rel)
									nodesFor(&d, nil, mp+2)
									emit(d)
								}
							}
						}
					}
				}
			}
		}
	}
}

// family route-long: 5 (thorough: also 6) two-node ways in a chain, EVERY member
// order. The joiner removes a matched segment from a list that it keeps in
// two halves; with five or more members the match can sit deep in the first
// half, which three-member routes never reach.
func genRouteLong(quick bool, emit func(Data)) {
	ks := []int{5}
	if !quick {
		ks = []int{5, 6}
	}
	for _, k := range ks {
		for _, dirs := range []int{0, 0b010101 & (1<<uint(k) - 1), 1<<uint(k) - 1} {
			for pi, perm := range perms(k) {
				for tagMode := 0; tagMode < 2; tagMode++ {
					d := Data{Family: "route-long", Name: fmt.Sprintf("route-long/k%d/dirs%b/perm%d/waytags%d", k, dirs, pi, tagMode)}
					for j := 0; j < k; j++ {
						ids := []int64{int64(11 + j), int64(12 + j)}
						if dirs&(1<<uint(j)) != 0 {
							ids = rev(ids)
						}
						var tags []Tag
						if tagMode == 1 {
							tags = []Tag{{"highway", "primary"}}
						}
						d.Ways = append(d.Ways, mkWay(int64(j+1), tags, metaPat(j, int64(j+1)), ids...))
					}
					rel := DRel{ID: 1, Tags: []Tag{{"type", "route"}, {"route", "bus"}}, Meta: metaPat(1, 1)}
					for _, j := range perm {
						rel.Members = append(rel.Members, DMember{Type: "way", Ref: int64(j + 1)})
					}
					d.Rels = append(d.Rels, rel)
					nodesFor(&d, nil, 2)
					emit(d)
				}
			}
		}
	}
}

// family nested: a relation that produces a feature (route, multipolygon,
// boundary, old-style multipolygon emitted under its outer way's identity) or
// does not (site) is itself a member of one or two parent relations
// (route_master, site, untyped, route). The child's numeric id (7) is shared
// by no other element, by a way, by a node, or by both; with "cross" the
// parent also lists way 7, node 7 and a relation whose id only a way carries,
// so that ids overlap across kinds in both directions. The feature of the
// child must list exactly its memberships, like any other feature.
func genNested(quick bool, emit func(Data)) {
	childKinds := []string{"route", "multipolygon", "boundary", "oldstyle-multipolygon", "site"}
	parentTags := map[string][]Tag{
		"route_master": {{"type", "route_master"}, {"route_master", "bus"}, {"ref", "7"}},
		"site":         {{"type", "site"}, {"name", "S"}},
		"untyped":      nil,
		"route":        {{"type", "route"}, {"route", "hiking"}},
	}
	parentKinds := []string{"route_master", "site", "untyped", "route"}
	metas := []int{0, 1, 3}
	if quick {
		metas = []int{1}
	}
	const child = 7
	for _, ck := range childKinds {
		for share := 0; share < 4; share++ { // bit 0: a way has id 7, bit 1: a node has id 7
			for _, pk := range parentKinds {
				for _, role := range []string{"", "variant"} {
					for second := 0; second < 2; second++ {
						for order := 0; order < 2; order++ {
							for cross := 0; cross < 2; cross++ {
								for _, mp := range metas {
									d := Data{Family: "nested", Name: fmt.Sprintf("nested/%s/share%b/parent=%s/role=%q/second%d/order%d/cross%d/meta%d", ck, share, pk, role, second, order, cross, mp)}
									c := DRel{ID: child, Meta: metaPat(mp, child)}
									switch ck {
									case "route":
										d.Ways = append(d.Ways, mkWay(1, nil, metaPat(mp, 1), 11, 12), mkWay(2, []Tag{{"highway", "primary"}}, metaPat(mp+1, 2), 13, 12))
										c.Tags = []Tag{{"type", "route"}, {"route", "bus"}}
										c.Members = []DMember{{Type: "way", Ref: 1}, {Type: "way", Ref: 2, Role: "forward"}}
									case "multipolygon", "boundary":
										d.Ways = append(d.Ways, mkWay(1, nil, metaPat(mp, 1), 1, 2, 3, 4, 1))
										c.Tags = []Tag{{"type", ck}, {"landuse", "forest"}}
										c.Members = []DMember{{Type: "way", Ref: 1, Role: "outer"}}
									case "oldstyle-multipolygon":
										d.Ways = append(d.Ways, mkWay(1, []Tag{{"building", "yes"}}, metaPat(mp, 1), 1, 2, 3, 4, 1))
										c.Tags = []Tag{{"type", "multipolygon"}}
										c.Members = []DMember{{Type: "way", Ref: 1, Role: "outer"}}
									case "site":
										d.Ways = append(d.Ways, mkWay(1, []Tag{{"highway", "path"}}, metaPat(mp, 1), 11, 12))
										c.Tags = []Tag{{"type", "site"}}
										c.Members = []DMember{{Type: "way", Ref: 1}}
									}
									if share&1 != 0 {
										d.Ways = append(d.Ways, mkWay(child, []Tag{{"highway", "path"}}, metaPat(mp+2, child), 15, 16))
									}
									if share&2 != 0 {
										d.Nodes = append(d.Nodes, mkNode(child, true, []Tag{{"name", "seven"}}, metaPat(mp+3, child)))
									}
									p := DRel{ID: 8, Tags: parentTags[pk], Meta: metaPat(mp+1, 8)}
									if pk == "route" {
										// a parent that has a geometry of its own
										d.Ways = append(d.Ways, mkWay(3, nil, metaPat(mp, 3), 17, 18))
										p.Members = append(p.Members, DMember{Type: "way", Ref: 3})
									}
									p.Members = append(p.Members, DMember{Type: "relation", Ref: child, Role: role})
									if cross == 1 {
										p.Members = append(p.Members,
											DMember{Type: "way", Ref: child, Role: "w"},
											DMember{Type: "node", Ref: child, Role: "n"},
											DMember{Type: "relation", Ref: 1, Role: "ghost"}, // way 1 exists, relation 1 does not
											DMember{Type: "relation", Ref: 8, Role: "self"})
									}
									rels := []DRel{c, p}
									if second == 1 {
										// a second parent lists the child again and the first parent
										rels = append(rels, DRel{ID: 9, Tags: []Tag{{"type", "network"}, {"network", "N"}}, Meta: metaPat(mp+2, 9), Members: []DMember{
											{Type: "relation", Ref: 8, Role: "master"},
											{Type: "relation", Ref: child, Role: "direct"},
											{Type: "relation", Ref: child, Role: role},
										}})
									}
									if order == 1 {
										for i, j := 0, len(rels)-1; i < j; i, j = i+1, j-1 {
											rels[i], rels[j] = rels[j], rels[i]
										}
									}
									d.Rels = rels
									nodesFor(&d, nil, mp+1)
									emit(d)
								}
							}
						}
					}
				}
			}
		}
	}
}

// family route-topology: three member ways in other arrangements than a chain.
func genRouteTopology(emit func(Data)) {
	type topo struct {
		name    string
		ways    [][]int64
		missing []int64
		extra   []DMember
	}
	topos := []topo{
		{name: "Y", ways: [][]int64{{11, 12}, {12, 13}, {12, 14, 15}}},
		{name: "triangle", ways: [][]int64{{11, 12}, {12, 13, 14}, {14, 11}}},
		{name: "disjoint", ways: [][]int64{{11, 12}, {12, 13}, {15, 16}}},
		{name: "duplicate-member", ways: [][]int64{{11, 12, 13}, {13, 14}}, extra: []DMember{{Type: "way", Ref: 1}}},
		{name: "roundabout", ways: [][]int64{{1, 2, 3, 4, 1}, {3, 11}, {11, 12}}},
		{name: "junction-node-missing", ways: [][]int64{{11, 12}, {12, 13}, {13, 14}}, missing: []int64{12}},
		{name: "middle-node-missing", ways: [][]int64{{11, 12, 13}, {13, 14}}, missing: []int64{12}},
		{name: "end-node-missing", ways: [][]int64{{11, 12, 13}, {13, 14, 15}}, missing: []int64{15}},
		{name: "one-node-way", ways: [][]int64{{11, 12}, {12, 13}}, missing: []int64{13}},
		{name: "only-one-node-ways", ways: [][]int64{{11, 12}}, missing: []int64{12}},
		{name: "relation-member", ways: [][]int64{{11, 12}, {12, 13}}, extra: []DMember{{Type: "relation", Ref: 2, Role: "sub"}, {Type: "relation", Ref: 9}}},
		{name: "all-ways-absent", ways: nil, extra: []DMember{{Type: "way", Ref: 7}, {Type: "node", Ref: 11}}},
		{name: "crossing-interior", ways: [][]int64{{11, 12, 13}, {14, 12, 15}}},
		{name: "two-parallel", ways: [][]int64{{11, 12}, {11, 13, 12}}},
	}
	for _, tp := range topos {
		k := len(tp.ways)
		for dirs := 0; dirs < 1<<k; dirs++ {
			for pi, perm := range perms(k) {
				for tagMode := 0; tagMode < 2; tagMode++ {
					d := Data{Family: "route-topology", Name: fmt.Sprintf("route-topology/%s/dirs%b/perm%d/waytags%d", tp.name, dirs, pi, tagMode)}
					for j := 0; j < k; j++ {
						ids := tp.ways[j]
						if dirs&(1<<j) != 0 {
							ids = rev(ids)
						}
						var tags []Tag
						if tagMode == 1 {
							tags = []Tag{{"railway", "tram"}}
						}
						d.Ways = append(d.Ways, mkWay(int64(j+1), tags, metaPat(j, int64(j+1)), ids...))
					}
					rel := DRel{ID: 1, Tags: []Tag{{"route", "tram"}, {"type", "route"}}, Meta: metaPat(1, 1)}
					for _, j := range perm {
						rel.Members = append(rel.Members, DMember{Type: "way", Ref: int64(j + 1)})
					}
					rel.Members = append(rel.Members, tp.extra...)
					d.Rels = append(d.Rels, rel)
					if tp.name == "relation-member" {
						d.Rels = append(d.Rels, DRel{ID: 2, Tags: []Tag{{"type", "route"}}, Meta: metaPat(3, 2),
							Members: []DMember{{Type: "way", Ref: 2, Role: "x"}}})
					}
					if tp.name == "all-ways-absent" {
						d.Nodes = append(d.Nodes, mkNode(11, true, nil, metaPat(1, 11)))
					}
					miss := map[int64]bool{}
					for _, id := range tp.missing {
						miss[id] = true
					}
					nodesFor(&d, miss, 2)
					emit(d)
				}
			}
		}
	}
}

// family area: one simple multipolygon / boundary (geometry is C16's), for
// the per-feature constraints and the option differential.
func genArea(emit func(Data)) {
	relExtra := [][]Tag{nil, {{"building", "yes"}}, {{"name", "Lake"}, {"natural", "water"}}}
	outerTags := [][]Tag{nil, {{"building", "yes"}}, {{"natural", "water"}}, {{"source", "x"}}}
	innerTags := [][]Tag{nil, {{"natural", "wood"}}}
	for _, typ := range []string{"multipolygon", "boundary"} {
		for _, inner := range []bool{false, true} {
			for ri, rx := range relExtra {
				for oi, ot := range outerTags {
					for ii, it := range innerTags {
						if !inner && ii > 0 {
							continue
						}
						for nodeMember := 0; nodeMember < 3; nodeMember++ {
							for _, missing := range []int64{0, 3} {
								for _, mp := range []int{0, 1, 3} {
									d := Data{Family: "area", Name: fmt.Sprintf("area/%s/inner=%v/reltags%d/outertags%d/innertags%d/nodemember%d/missing%d/meta%d", typ, inner, ri, oi, ii, nodeMember, missing, mp)}
									d.Ways = append(d.Ways, mkWay(1, ot, metaPat(mp, 1), 1, 2, 3, 4, 1))
									rel := DRel{ID: 1, Tags: append([]Tag{{"type", typ}}, rx...), Meta: metaPat(mp+1, 1)}
									rel.Members = append(rel.Members, DMember{Type: "way", Ref: 1, Role: "outer"})
									if inner {
										d.Ways = append(d.Ways, mkWay(2, it, metaPat(mp+2, 2), 5, 6, 7, 8, 5))
										rel.Members = append(rel.Members, DMember{Type: "way", Ref: 2, Role: "inner"})
									}
									switch nodeMember {
									case 1:
										rel.Members = append(rel.Members, DMember{Type: "node", Ref: 1, Role: "admin_centre"})
									case 2:
										d.Nodes = append(d.Nodes, mkNode(9, true, nil, metaPat(mp, 9)))
										rel.Members = append(rel.Members, DMember{Type: "node", Ref: 9, Role: "label"})
									}
									d.Rels = append(d.Rels, rel)
									nodesFor(&d, map[int64]bool{missing: true}, mp+3)
									emit(d)
								}
							}
						}
					}
				}
			}
		}
	}
}

// family other: relations that are neither route nor area, relations as
// members of relations, absent members.
func genOther(emit func(Data)) {
	types := [][]Tag{{{"type", "site"}}, nil, {{"type", "restriction"}, {"restriction", "no_left_turn"}}, {{"name", "no type"}}, {{"type", ""}}}
	for ti, tt := range types {
		for wayTags := 0; wayTags < 3; wayTags++ {
			for _, mp := range []int{0, 1, 3} {
				for order := 0; order < 2; order++ {
					d := Data{Family: "other", Name: fmt.Sprintf("other/type%d/waytags%d/meta%d/order%d", ti, wayTags, mp, order)}
					d.Ways = append(d.Ways, mkWay(1, classTags(wayTags), metaPat(mp, 1), 1, 2, 3))
					d.Ways = append(d.Ways, mkWay(2, []Tag{{"highway", "track"}}, metaPat(mp+1, 2), 3, 9))
					d.Nodes = append(d.Nodes, mkNode(10, true, nil, metaPat(mp, 10)))
					other := DRel{ID: 1, Tags: tt, Meta: metaPat(mp+2, 1), Members: []DMember{
						{Type: "way", Ref: 1, Role: "from"},
						{Type: "node", Ref: 2, Role: "via"},
						{Type: "node", Ref: 10, Role: "label"},
						{Type: "relation", Ref: 2, Role: "part"},
						{Type: "relation", Ref: 77, Role: "gone"},
						{Type: "way", Ref: 77, Role: "gone"},
						{Type: "node", Ref: 77, Role: "gone"},
						{Type: "way", Ref: 1, Role: "to"},
					}}
					route := DRel{ID: 2, Tags: []Tag{{"type", "route"}, {"route", "hiking"}}, Meta: metaPat(mp+3, 2), Members: []DMember{
						{Type: "way", Ref: 1}, {Type: "way", Ref: 2}, {Type: "relation", Ref: 1, Role: "loop"},
					}}
					if order == 0 {
						d.Rels = append(d.Rels, other, route)
					} else {
						d.Rels = append(d.Rels, route, other)
					}
					nodesFor(&d, nil, mp+1)
					emit(d)
				}
			}
		}
	}
}

// family mixed: everything in one data set, ids overlapping across kinds,
// elements in several relations, element order permuted.
func genMixed(quick bool, emit func(Data)) {
	metas := []int{0, 1, 2, 3, 4}
	if quick {
		metas = []int{0, 1, 3}
	}
	for _, mp := range metas {
		for tc := 0; tc < numTagClasses; tc++ {
			for order := 0; order < 4; order++ {
				for _, missing := range []int64{0, 12, 3} {
					for _, inline := range []bool{false, true} {
						d := Data{Family: "mixed", Name: fmt.Sprintf("mixed/meta%d/tags%d/order%d/missing%d/inline=%v", mp, tc, order, missing, inline)}
						ways := []DWay{
							mkWay(1, classTags(tc), metaPat(mp, 1), 11, 12),
							mkWay(2, nil, metaPat(mp+1, 2), 13, 12),
							mkWay(3, []Tag{{"highway", "primary"}, {"bridge", "yes"}}, metaPat(mp+2, 3), 13, 14, 15),
							mkWay(4, []Tag{{"building", "yes"}}, metaPat(mp+3, 4), 1, 4, 3, 2, 1),
							mkWay(5, []Tag{{"waterway", "stream"}}, metaPat(mp+4, 5), 15, 16, 3),
							mkWay(6, []Tag{{"landuse", "grass"}}, metaPat(mp, 6), 5, 6, 7, 8, 5),
						}
						if inline {
							for i := range ways[2].Nodes {
								ways[2].Nodes[i].Lon, ways[2].Nodes[i].Lat = coord(ways[2].Nodes[i].ID)
							}
						}
						rels := []DRel{
							{ID: 1, Tags: []Tag{{"type", "route"}, {"route", "bus"}}, Meta: metaPat(mp, 1), Members: []DMember{
								{Type: "way", Ref: 3, Role: "forward"}, {Type: "way", Ref: 1}, {Type: "way", Ref: 2}, {Type: "node", Ref: 14, Role: "stop"}}},
							{ID: 2, Tags: []Tag{{"type", "route"}, {"route", "bicycle"}}, Meta: metaPat(mp+1, 2), Members: []DMember{
								{Type: "way", Ref: 2}, {Type: "way", Ref: 3}, {Type: "way", Ref: 5}, {Type: "way", Ref: 3, Role: "again"}}},
							{ID: 3, Tags: []Tag{{"type", "multipolygon"}, {"landuse", "park"}}, Meta: metaPat(mp+2, 3), Members: []DMember{
								{Type: "way", Ref: 4, Role: "outer"}, {Type: "way", Ref: 6, Role: "inner"}}},
							{ID: 4, Tags: []Tag{{"type", "network"}}, Meta: metaPat(mp+3, 4), Members: []DMember{
								{Type: "relation", Ref: 1}, {Type: "relation", Ref: 2, Role: "alt"}, {Type: "way", Ref: 5}, {Type: "node", Ref: 20, Role: "info"}, {Type: "node", Ref: 16}}},
						}
						d.Nodes = append(d.Nodes,
							mkNode(20, true, classTags(tc), metaPat(mp, 20)),
							mkNode(21, true, classTags((tc+1)%numTagClasses), metaPat(mp+1, 21)),
							mkNode(22, false, classTags(tc), Meta{}),
							mkNode(13, true, classTags(tc), metaPat(mp+2, 13)),
							mkNode(2, true, classTags((tc+2)%numTagClasses), metaPat(mp+3, 2)),
						)
						d.Ways, d.Rels = ways, rels
						skip := map[int64]bool{missing: true}
						if inline {
							skip[15] = true // resolvable only through way 3's inline coordinate
						}
						nodesFor(&d, skip, mp+1)
						switch order {
						case 1:
							reverseNodes(d.Nodes)
						case 2:
							d.Ways[0], d.Ways[5] = d.Ways[5], d.Ways[0]
							d.Ways[1], d.Ways[3] = d.Ways[3], d.Ways[1]
							d.Rels[0], d.Rels[3] = d.Rels[3], d.Rels[0]
						case 3:
							reverseNodes(d.Nodes)
							d.Ways[2], d.Ways[4] = d.Ways[4], d.Ways[2]
							d.Rels[1], d.Rels[2] = d.Rels[2], d.Rels[1]
						}
						emit(d)
					}
				}
			}
		}
	}
}

func reverseNodes(n []DNode) {
	for i, j := 0, len(n)-1; i < j; i, j = i+1, j-1 {
		n[i], n[j] = n[j], n[i]
	}
}

// enumerate lists the complete space of the tier.
// shifted returns a copy of d with every id and ref moved by off (coordinates,
// tags and metadata stay): ids of 2^40 and above do not fit the ref bits of the
// packed osm.FeatureID / ElementID, a feature must carry the element's own id.
func shifted(d Data, off int64) Data {
	o := Data{Name: d.Name + fmt.Sprintf("/ids+%d", off), Family: d.Family}
	for _, n := range d.Nodes {
		n.ID += off
		o.Nodes = append(o.Nodes, n)
	}
	for _, w := range d.Ways {
		w.ID += off
		nd := make([]DWayNode, len(w.Nodes))
		for i, x := range w.Nodes {
			x.ID += off
			nd[i] = x
		}
		w.Nodes = nd
		o.Ways = append(o.Ways, w)
	}
	for _, r := range d.Rels {
		r.ID += off
		ms := make([]DMember, len(r.Members))
		for i, m := range r.Members {
			m.Ref += off
			ms[i] = m
		}
		r.Members = ms
		o.Rels = append(o.Rels, r)
	}
	return o
}

func enumerate(quick bool) []Data {
	var out []Data
	k := 0
	emit := func(d Data) {
		out = append(out, d)
		// every 9th data set of every family once more with ids beyond 40 bits
		if k++; k%9 == 0 {
			out = append(out, shifted(d, 1<<40+1<<33))
		}
	}
	genNode(quick, emit)
	genUnintKey(emit)
	genWay(quick, emit)
	genRoute(quick, emit)
	genRouteLong(quick, emit)
	genRouteTopology(emit)
	genArea(emit)
	genOther(emit)
	genNested(quick, emit)
	genMixed(quick, emit)
	return out
}
