package main

import (
	"bytes"
	"encoding/json"
	"fmt"
	"sort"
	"strings"
	"time"

	"github.com/paulmach/osm"
)

// Option bits. The four options of osmgeojson/options.go.
const (
	optNoID = 1 << iota
	optNoMeta
	optNoRel
	optInvalid
)

var optNames = []string{"NoID", "NoMeta", "NoRelationMembership", "IncludeInvalidPolygons"}

func optSetName(s int) string {
	if s == 0 {
		return "none"
	}
	var p []string
	for i, n := range optNames {
		if s&(1<<i) != 0 {
			p = append(p, n)
		}
	}
	return strings.Join(p, "+")
}

// uninteresting is an independent transcription of the nine keys the library
// documents as uninteresting (tag.go).
var uninteresting = map[string]bool{
	"source": true, "source_ref": true, "source:ref": true, "history": true,
	"attribution": true, "created_by": true, "tiger:county": true,
	"tiger:tlid": true, "tiger:upload_uuid": true,
}

func interesting(ts []Tag) bool {
	for _, t := range ts {
		if !uninteresting[t[0]] {
			return true
		}
	}
	return false
}

func tagMap(ts []Tag) map[string]string {
	m := map[string]string{}
	for _, t := range ts {
		m[t[0]] = t[1]
	}
	return m
}

func findTag(ts []Tag, k string) string {
	for _, t := range ts {
		if t[0] == k {
			return t[1]
		}
	}
	return ""
}

// P is a coordinate (lon, lat).
type P [2]float64

type resolved struct {
	coords       []P
	unresolvable bool // some node had no coordinate anywhere
	ambiguous    bool // some node is in the set but not located: property silent
}

type memb struct {
	Rel  int64
	Role string
	Tags map[string]string
}

type elemKey struct {
	kind string
	id   int64
}

// index holds what the constraints need, derived from the description only
// (plus Way.Polygon(), which is trusted here and checked by C18).
type index struct {
	d       *Data
	node    map[int64]*DNode
	way     map[int64]*DWay
	rel     map[int64]*DRel
	inWay   map[int64]bool
	members map[elemKey][]memb
	mpWay   map[int64]bool
	polygon map[int64]bool
	res     map[int64]*resolved
}

func isAreaRelation(r *DRel) bool {
	t := findTag(r.Tags, "type")
	return t == "multipolygon" || t == "boundary"
}

func newIndex(d *Data, o *osm.OSM) (*index, error) {
	ix := &index{d: d, node: map[int64]*DNode{}, way: map[int64]*DWay{}, rel: map[int64]*DRel{},
		inWay: map[int64]bool{}, members: map[elemKey][]memb{}, mpWay: map[int64]bool{},
		polygon: map[int64]bool{}, res: map[int64]*resolved{}}
	for i := range d.Nodes {
		n := &d.Nodes[i]
		if ix.node[n.ID] != nil {
			return nil, fmt.Errorf("generator: duplicate node %d", n.ID)
		}
		ix.node[n.ID] = n
	}
	for i := range d.Ways {
		w := &d.Ways[i]
		if ix.way[w.ID] != nil {
			return nil, fmt.Errorf("generator: duplicate way %d", w.ID)
		}
		ix.way[w.ID] = w
		for _, wn := range w.Nodes {
			ix.inWay[wn.ID] = true
		}
		ix.polygon[w.ID] = o.Ways[i].Polygon()
	}
	for i := range d.Rels {
		r := &d.Rels[i]
		if ix.rel[r.ID] != nil {
			return nil, fmt.Errorf("generator: duplicate relation %d", r.ID)
		}
		ix.rel[r.ID] = r
	}
	for i := range d.Rels {
		r := &d.Rels[i]
		for _, m := range r.Members {
			k := elemKey{m.Type, m.Ref}
			ix.members[k] = append(ix.members[k], memb{Rel: r.ID, Role: m.Role, Tags: tagMap(r.Tags)})
			if m.Type == "way" && isAreaRelation(r) {
				ix.mpWay[m.Ref] = true
			}
		}
	}
	for i := range d.Ways {
		w := &d.Ways[i]
		rs := &resolved{}
		for _, wn := range w.Nodes {
			if wn.Lon != 0 || wn.Lat != 0 {
				rs.coords = append(rs.coords, P{wn.Lon, wn.Lat})
			} else if n := ix.node[wn.ID]; n != nil {
				if n.Lon != 0 || n.Lat != 0 {
					rs.coords = append(rs.coords, P{n.Lon, n.Lat})
				} else {
					rs.ambiguous = true
				}
			} else {
				rs.unresolvable = true
			}
		}
		ix.res[w.ID] = rs
	}
	return ix, nil
}

// ---- parsed output ----

type pFeature struct {
	Top      map[string]json.RawMessage
	Props    map[string]json.RawMessage
	GeomType string
	Coords   json.RawMessage
	Kind     string
	EID      int64
}

func parseFC(b []byte) ([]pFeature, error) {
	var fc struct {
		Type     string            `json:"type"`
		Features []json.RawMessage `json:"features"`
	}
	if err := json.Unmarshal(b, &fc); err != nil {
		return nil, err
	}
	if fc.Type != "FeatureCollection" {
		return nil, fmt.Errorf("type %q", fc.Type)
	}
	out := make([]pFeature, 0, len(fc.Features))
	for _, raw := range fc.Features {
		var f pFeature
		if err := json.Unmarshal(raw, &f.Top); err != nil {
			return nil, err
		}
		var g struct {
			Type        string          `json:"type"`
			Coordinates json.RawMessage `json:"coordinates"`
		}
		if gr, ok := f.Top["geometry"]; ok && string(gr) != "null" {
			if err := json.Unmarshal(gr, &g); err != nil {
				return nil, err
			}
		}
		f.GeomType, f.Coords = g.Type, g.Coordinates
		if pr, ok := f.Top["properties"]; ok && string(pr) != "null" {
			if err := json.Unmarshal(pr, &f.Props); err != nil {
				return nil, err
			}
		}
		out = append(out, f)
	}
	return out, nil
}

func present(m map[string]json.RawMessage, k string) bool {
	v, ok := m[k]
	return ok && string(v) != "null"
}

func decodeLine(raw json.RawMessage) ([]P, error) {
	var c [][]float64
	if err := json.Unmarshal(raw, &c); err != nil {
		return nil, err
	}
	out := make([]P, len(c))
	for i, p := range c {
		if len(p) != 2 {
			return nil, fmt.Errorf("coordinate with %d numbers", len(p))
		}
		out[i] = P{p[0], p[1]}
	}
	return out, nil
}

func decodeLines(raw json.RawMessage) ([][]P, error) {
	var c []json.RawMessage
	if err := json.Unmarshal(raw, &c); err != nil {
		return nil, err
	}
	out := make([][]P, len(c))
	for i, r := range c {
		l, err := decodeLine(r)
		if err != nil {
			return nil, err
		}
		out[i] = l
	}
	return out, nil
}

func eqLine(a, b []P) bool {
	if len(a) != len(b) {
		return false
	}
	for i := range a {
		if a[i] != b[i] {
			return false
		}
	}
	return true
}

func reversed(a []P) []P {
	out := make([]P, len(a))
	for i := range a {
		out[len(a)-1-i] = a[i]
	}
	return out
}

// area2 is twice the signed area (shoelace); > 0 means counter-clockwise in
// the lon/lat plane.
func area2(r []P) float64 {
	s := 0.0
	for i := 0; i+1 < len(r); i++ {
		s += r[i][0]*r[i+1][1] - r[i+1][0]*r[i][1]
	}
	return s
}

// ---- the constraints ----

type finding struct {
	key  string
	what string
}

type checker struct {
	ix      *index
	opts    int
	out     []finding
	skipped map[string]int
	stats   map[string]int
}

func (c *checker) fail(key, format string, a ...interface{}) {
	c.out = append(c.out, finding{key, fmt.Sprintf(format, a...)})
}

func (c *checker) skip(why string) { c.skipped[why]++ }

// checkOutput applies every per-feature and per-element constraint of the
// property to the marshalled output of one conversion.
func (c *checker) checkOutput(feats []pFeature) {
	ix := c.ix
	count := map[elemKey]int{}
	for i := range feats {
		f := &feats[i]
		if string(f.Top["type"]) != `"Feature"` {
			c.fail("feature-shape/type", "feature %d has type %s", i, f.Top["type"])
		}
		var kind string
		var id int64
		if err := json.Unmarshal(f.Props["type"], &kind); err != nil || (kind != "node" && kind != "way" && kind != "relation") {
			c.fail("props/type", "feature %d: properties.type = %s", i, f.Props["type"])
			continue
		}
		if err := json.Unmarshal(f.Props["id"], &id); err != nil {
			c.fail("props/id", "feature %d: properties.id = %s", i, f.Props["id"])
			continue
		}
		f.Kind, f.EID = kind, id
		k := elemKey{kind, id}
		var tags []Tag
		var meta Meta
		switch kind {
		case "node":
			if e := ix.node[id]; e != nil {
				tags, meta = e.Tags, e.Meta
			} else {
				c.fail("feature-count/unknown-node", "feature %d is for node %d which is not an input element", i, id)
				continue
			}
		case "way":
			if e := ix.way[id]; e != nil {
				tags, meta = e.Tags, e.Meta
			} else {
				c.fail("feature-count/unknown-way", "feature %d is for way %d which is not an input element", i, id)
				continue
			}
		case "relation":
			if e := ix.rel[id]; e != nil {
				tags, meta = e.Tags, e.Meta
			} else {
				c.fail("feature-count/unknown-relation", "feature %d is for relation %d which is not an input element", i, id)
				continue
			}
		}
		count[k]++
		if count[k] == 2 {
			c.fail("feature-count/duplicate-"+kind, "%s %d has more than one feature", kind, id)
		}
		c.stats["features"]++

		// feature id
		wantID := fmt.Sprintf("%s/%d", kind, id)
		if c.opts&optNoID == 0 {
			var got string
			if err := json.Unmarshal(f.Top["id"], &got); err != nil || got != wantID {
				c.fail("feature-id/"+kind, "feature id %s, want %q", f.Top["id"], wantID)
			}
		} else if present(f.Top, "id") {
			c.fail("feature-id/present-under-NoID", "feature id %s although NoID", f.Top["id"])
		}

		// tags
		gotTags := map[string]string{}
		if present(f.Props, "tags") {
			if err := json.Unmarshal(f.Props["tags"], &gotTags); err != nil {
				c.fail("props/tags-"+kind, "%s: tags %s", wantID, f.Props["tags"])
			}
		}
		if !eqStrMap(gotTags, tagMap(tags)) {
			c.fail("props/tags-"+kind, "%s: tags %v, element has %v", wantID, gotTags, tagMap(tags))
		}

		// meta
		c.checkMeta(f, kind, wantID, meta)

		// relations
		c.checkRelations(f, k, wantID)

		// geometry
		switch kind {
		case "node":
			c.checkNodeGeometry(f, ix.node[id], wantID)
		case "way":
			c.checkWayGeometry(f, ix.way[id], wantID)
		case "relation":
			r := ix.rel[id]
			switch {
			case findTag(r.Tags, "type") == "route":
				c.checkRouteGeometry(f, r, wantID)
			case isAreaRelation(r):
				c.skip("multipolygon geometry (C16)")
			default:
				c.skip("feature for a relation that is neither route nor area")
			}
		}
	}

	// the node rule, both directions
	for i := range ix.d.Nodes {
		n := &ix.d.Nodes[i]
		has := count[elemKey{"node", n.ID}] > 0
		located := n.Lon != 0 || n.Lat != 0
		if !located {
			if n.Meta.Version != 0 {
				c.skip("node at 0,0 with a version: located or not is not defined")
			} else if has {
				c.fail("node-point-rule/unlocated-node-emitted", "node %d has no location but got a feature", n.ID)
			}
			continue
		}
		free := !ix.inWay[n.ID]
		intr := interesting(n.Tags)
		relm := len(ix.members[elemKey{"node", n.ID}]) > 0
		want := free || intr || relm
		c.stats["node-rule"]++
		if want && !has {
			why := "free"
			if !free && intr {
				why = "interesting-tag"
			} else if !free && relm {
				why = "relation-member"
			}
			c.fail("node-point-rule/missing-"+why, "located node %d (in way=%v interesting=%v relation member=%v) has no point", n.ID, !free, intr, relm)
		} else if !want && has {
			c.fail("node-point-rule/unexpected", "node %d is part of a way, has no interesting tag and is no relation member but got a point", n.ID)
		}
	}

	// ways the property certainly wants: interesting tags and a real line
	for i := range ix.d.Ways {
		w := &ix.d.Ways[i]
		rs := ix.res[w.ID]
		has := count[elemKey{"way", w.ID}] > 0
		switch {
		case ix.mpWay[w.ID]:
			c.skip("presence of a way consumed by an area relation")
		case rs.ambiguous:
			c.skip("way with a node that is in the set but not located")
		case len(rs.coords) < 2:
			c.skip("way with fewer than two resolvable coordinates")
			if has {
				// present anyway: its geometry was checked above
			}
		case !interesting(w.Tags):
			c.skip("presence of a way without interesting tags")
		case !has:
			c.fail("way-presence/tagged-way-missing", "way %d has interesting tags and %d resolvable coordinates but no feature", w.ID, len(rs.coords))
		}
	}

	// route relations that certainly have a geometry
	for i := range ix.d.Rels {
		r := &ix.d.Rels[i]
		if findTag(r.Tags, "type") != "route" {
			continue
		}
		has := count[elemKey{"relation", r.ID}] > 0
		real, amb := false, false
		for _, m := range r.Members {
			if m.Type != "way" || ix.way[m.Ref] == nil {
				continue
			}
			rs := ix.res[m.Ref]
			if rs.ambiguous {
				amb = true
			}
			if len(rs.coords) >= 2 {
				real = true
			}
		}
		if amb || !real {
			c.skip("presence of a route relation without a resolvable member line")
		} else if !has {
			c.fail("route-geometry/feature-missing", "route relation %d has member ways with coordinates but no feature", r.ID)
		}
	}
}

func eqStrMap(a, b map[string]string) bool {
	if len(a) != len(b) {
		return false
	}
	for k, v := range a {
		if w, ok := b[k]; !ok || v != w {
			return false
		}
	}
	return true
}

func (c *checker) checkMeta(f *pFeature, kind, name string, m Meta) {
	if c.opts&optNoMeta != 0 {
		if _, ok := f.Props["meta"]; ok {
			c.fail("props/meta-present-under-NoMeta", "%s: meta %s although NoMeta", name, f.Props["meta"])
		}
		return
	}
	got := map[string]json.RawMessage{}
	if present(f.Props, "meta") {
		if err := json.Unmarshal(f.Props["meta"], &got); err != nil {
			c.fail("props/meta-"+kind, "%s: meta %s", name, f.Props["meta"])
			return
		}
	}
	want := map[string]string{}
	if m.Version != 0 {
		want["version"] = fmt.Sprint(m.Version)
	}
	if m.Changeset != 0 {
		want["changeset"] = fmt.Sprint(m.Changeset)
	}
	if m.UID != 0 {
		want["uid"] = fmt.Sprint(m.UID)
	}
	if m.User != "" {
		b, _ := json.Marshal(m.User)
		want["user"] = string(b)
	}
	bad := false
	for k, v := range got {
		if k == "timestamp" {
			continue
		}
		if w, ok := want[k]; !ok || w != string(v) {
			bad = true
		}
	}
	for k := range want {
		if _, ok := got[k]; !ok {
			bad = true
		}
	}
	if ts, ok := got["timestamp"]; ok {
		// the instant must be the element's, to the nanosecond; the zone it is
		// spelled in is not part of the property
		var s string
		if !m.hasTS() {
			bad = true
		} else if err := json.Unmarshal(ts, &s); err != nil {
			bad = true
		} else if t, err := time.Parse(time.RFC3339Nano, s); err != nil || !t.Equal(m.instant()) {
			bad = true
		}
	} else if m.hasTS() {
		bad = true
	}
	if bad {
		c.fail("props/meta-"+kind, "%s: meta %s, element metadata %+v", name, f.Props["meta"], m)
	}
	if !m.zero() {
		c.stats["meta-nonzero"]++
	}
}

func (c *checker) checkRelations(f *pFeature, k elemKey, name string) {
	if c.opts&optNoRel != 0 {
		if _, ok := f.Props["relations"]; ok {
			c.fail("props/relations-present-under-NoRelationMembership", "%s: relations %s", name, f.Props["relations"])
		}
		return
	}
	type rs struct {
		ID   *int64            `json:"id"`
		Role *string           `json:"role"`
		Tags map[string]string `json:"tags"`
	}
	var got []rs
	if present(f.Props, "relations") {
		if err := json.Unmarshal(f.Props["relations"], &got); err != nil {
			c.fail("props/relations-"+k.kind, "%s: relations %s", name, f.Props["relations"])
			return
		}
	}
	canon := func(id int64, role string, tags map[string]string) string {
		keys := make([]string, 0, len(tags))
		for k := range tags {
			keys = append(keys, k)
		}
		sort.Strings(keys)
		var sb strings.Builder
		fmt.Fprintf(&sb, "%d|%q|", id, role)
		for _, k := range keys {
			fmt.Fprintf(&sb, "%q=%q;", k, tags[k])
		}
		return sb.String()
	}
	var g, w []string
	for _, r := range got {
		if r.ID == nil || r.Role == nil {
			c.fail("props/relations-"+k.kind, "%s: relations entry without id or role: %s", name, f.Props["relations"])
			return
		}
		g = append(g, canon(*r.ID, *r.Role, r.Tags))
	}
	for _, m := range c.ix.members[k] {
		w = append(w, canon(m.Rel, m.Role, m.Tags))
	}
	sort.Strings(g)
	sort.Strings(w)
	if strings.Join(g, "\n") != strings.Join(w, "\n") {
		c.fail("props/relations-"+k.kind, "%s: relations %s, memberships in the input %v", name, f.Props["relations"], w)
	}
	if len(w) > 0 {
		c.stats["memberships"]++
	}
}

func (c *checker) checkNodeGeometry(f *pFeature, n *DNode, name string) {
	if n.Lon == 0 && n.Lat == 0 {
		c.skip("geometry of a node at 0,0")
		return
	}
	var p []float64
	if f.GeomType != "Point" || json.Unmarshal(f.Coords, &p) != nil || len(p) != 2 || p[0] != n.Lon || p[1] != n.Lat {
		c.fail("node-point-rule/geometry", "%s: geometry %s %s, node is at lon %v lat %v", name, f.GeomType, f.Coords, n.Lon, n.Lat)
	}
	c.stats["geom-point"]++
}

func (c *checker) checkWayGeometry(f *pFeature, w *DWay, name string) {
	ix := c.ix
	if ix.mpWay[w.ID] {
		c.skip("geometry of a way consumed by an area relation")
		return
	}
	rs := ix.res[w.ID]
	if rs.ambiguous {
		c.skip("geometry of a way with a node that is in the set but not located")
		return
	}
	// tainted iff a coordinate was unresolvable
	tainted := false
	if raw, ok := f.Props["tainted"]; ok {
		if err := json.Unmarshal(raw, &tainted); err != nil {
			c.fail("way-geometry/tainted", "%s: tainted = %s", name, raw)
		}
	}
	if tainted != rs.unresolvable {
		c.fail("way-geometry/tainted", "%s: tainted=%v but unresolvable node present=%v", name, tainted, rs.unresolvable)
	}
	if ix.polygon[w.ID] {
		c.stats["geom-polygon"]++
		if f.GeomType != "Polygon" {
			c.fail("way-geometry/type-area", "%s: area way has geometry %s", name, f.GeomType)
			return
		}
		rings, err := decodeLines(f.Coords)
		if err != nil || len(rings) != 1 {
			c.fail("way-geometry/polygon-rings", "%s: polygon %s", name, f.Coords)
			return
		}
		ring := rings[0]
		if len(ring) < 2 || ring[0] != ring[len(ring)-1] {
			c.fail("way-geometry/polygon-not-closed", "%s: ring %v", name, ring)
			return
		}
		want := append([]P{}, rs.coords...)
		if len(want) > 0 && want[0] != want[len(want)-1] {
			want = append(want, want[0])
		}
		if !eqLine(ring, want) && !eqLine(ring, reversed(want)) {
			c.fail("way-geometry/polygon-ring", "%s: ring %v, resolvable coordinates in order (closed) %v", name, ring, want)
			return
		}
		a := area2(ring)
		if a == 0 {
			c.skip("winding of a zero-area ring")
		} else if a < 0 {
			c.fail("way-geometry/polygon-winding", "%s: ring %v is wound clockwise", name, ring)
		}
		return
	}
	c.stats["geom-line"]++
	if f.GeomType != "LineString" {
		c.fail("way-geometry/type-line", "%s: non-area way has geometry %s", name, f.GeomType)
		return
	}
	line, err := decodeLine(f.Coords)
	if err != nil || !eqLine(line, rs.coords) {
		c.fail("way-geometry/linestring-coords", "%s: line %s, resolvable coordinates in order %v", name, f.Coords, rs.coords)
	}
}

type seg [2]P

func mkseg(a, b P) seg {
	if a[0] > b[0] || (a[0] == b[0] && a[1] > b[1]) {
		a, b = b, a
	}
	return seg{a, b}
}

func (c *checker) checkRouteGeometry(f *pFeature, r *DRel, name string) {
	ix := c.ix
	want := map[seg]bool{}
	type edge struct{ a, b P }
	var edges []edge
	for _, m := range r.Members {
		if m.Type != "way" || ix.way[m.Ref] == nil {
			continue
		}
		rs := ix.res[m.Ref]
		if rs.ambiguous {
			c.skip("geometry of a route with a member node that is in the set but not located")
			return
		}
		for i := 0; i+1 < len(rs.coords); i++ {
			want[mkseg(rs.coords[i], rs.coords[i+1])] = true
		}
		if len(rs.coords) >= 2 {
			edges = append(edges, edge{rs.coords[0], rs.coords[len(rs.coords)-1]})
		}
	}
	var lines [][]P
	var err error
	switch f.GeomType {
	case "LineString":
		var l []P
		l, err = decodeLine(f.Coords)
		lines = [][]P{l}
	case "MultiLineString":
		lines, err = decodeLines(f.Coords)
	default:
		c.fail("route-geometry/type", "%s: geometry %s", name, f.GeomType)
		return
	}
	if err != nil {
		c.fail("route-geometry/type", "%s: coordinates %s: %v", name, f.Coords, err)
		return
	}
	c.stats["geom-route"]++
	got := map[seg]bool{}
	for _, l := range lines {
		for i := 0; i+1 < len(l); i++ {
			got[mkseg(l[i], l[i+1])] = true
		}
	}
	for s := range want {
		if !got[s] {
			c.fail("route-geometry/segment-lost", "%s: segment %v of a member way is not in %s", name, s, f.Coords)
			break
		}
	}
	for s := range got {
		if !want[s] {
			c.fail("route-geometry/extra-segment", "%s: segment %v of %s is in no member way", name, s, f.Coords)
			break
		}
	}
	// "joined": when the member lines form one simple path or cycle when
	// connected at their end points, the result is one line.
	if len(edges) > 0 {
		deg := map[P]int{}
		loop := false
		for _, e := range edges {
			if e.a == e.b {
				loop = true
			}
			deg[e.a]++
			deg[e.b]++
		}
		maxDeg := 0
		for _, d := range deg {
			if d > maxDeg {
				maxDeg = d
			}
		}
		// connectivity by union-find over end points
		parent := map[P]P{}
		var find func(p P) P
		find = func(p P) P {
			if q, ok := parent[p]; ok && q != p {
				r := find(q)
				parent[p] = r
				return r
			}
			parent[p] = p
			return p
		}
		for _, e := range edges {
			parent[find(e.a)] = find(e.b)
		}
		comps := map[P]bool{}
		for p := range deg {
			comps[find(p)] = true
		}
		if !loop && maxDeg <= 2 && len(comps) == 1 {
			if f.GeomType != "LineString" {
				c.fail("route-geometry/not-joined", "%s: member ways connect end to end into one line but geometry is %s %s", name, f.GeomType, f.Coords)
			}
			c.stats["route-joinable"]++
		} else {
			c.skip("number of pieces of a route whose ways do not form one simple line")
		}
	}
}

// ---- option differential ----

func canonical(b []byte) (interface{}, error) {
	dec := json.NewDecoder(bytes.NewReader(b))
	dec.UseNumber()
	var v interface{}
	err := dec.Decode(&v)
	return v, err
}

func featuresOf(v interface{}) []interface{} {
	m, _ := v.(map[string]interface{})
	if m == nil {
		return nil
	}
	fs, _ := m["features"].([]interface{})
	return fs
}

// strip deletes, in place, exactly the keys the options in s document.
func strip(v interface{}, s int) {
	for _, f := range featuresOf(v) {
		fm, _ := f.(map[string]interface{})
		if fm == nil {
			continue
		}
		if s&optNoID != 0 {
			delete(fm, "id")
		}
		pm, _ := fm["properties"].(map[string]interface{})
		if pm == nil {
			continue
		}
		if s&optNoMeta != 0 {
			delete(pm, "meta")
		}
		if s&optNoRel != 0 {
			delete(pm, "relations")
		}
	}
}

// dropAreaFeatures removes the features IncludeInvalidPolygons is documented
// to influence: those of multipolygon/boundary relations (which may be emitted
// under the identity of a member way).
func (ix *index) dropAreaFeatures(v interface{}) {
	m, _ := v.(map[string]interface{})
	if m == nil {
		return
	}
	var keep []interface{}
	for _, f := range featuresOf(v) {
		fm, _ := f.(map[string]interface{})
		pm, _ := fm["properties"].(map[string]interface{})
		kind, _ := pm["type"].(string)
		num, _ := pm["id"].(json.Number)
		id, _ := num.Int64()
		if kind == "relation" {
			if r := ix.rel[id]; r != nil && isAreaRelation(r) {
				continue
			}
		}
		if kind == "way" && ix.mpWay[id] {
			continue
		}
		keep = append(keep, f)
	}
	m["features"] = keep
}

func marshalCanon(v interface{}) string {
	b, err := json.Marshal(v)
	if err != nil {
		return "marshal error: " + err.Error()
	}
	return string(b)
}
