// Check C15: applying updates is exact, composable and agrees with
// geometry-at-time.
//
// Bounded-exhaustive: every way with n in {1,2,3} nodes (every annotated /
// unannotated mask) and every relation with n in {1,2,3} members (member kinds
// node / way-CW / way-CCW) x EVERY update list up to a length bound over
// index in {0..n} (n = one past the end), timestamp in {1,2,3}, reverse in
// {false,true} (relations), every update carrying values unique to its list
// position x every t in {0..4} and every t1 <= t2.
//
// Boundary classes (Case.Scale / Pal / Far / BaseVar, n = 0) run on shorter
// lists: each class alone, and every combination of them on still shorter ones.
//
// The reference model (model.go) is written here and never calls /repo.
package main

import (
	"errors"
	"fmt"
	"sort"
	"sync"
	"sync/atomic"
	"time"

	"github.com/paulmach/orb"
	"github.com/paulmach/osm"

	"verif/kit"
)

const maxT = 5 // t ranges over 0..maxT; timestamps over 1..3; t = maxT is a far-future "apply everything" instant

var (
	epoch = time.Date(2020, 3, 1, 0, 0, 0, 0, time.UTC)
	// t is given in another zone than the update timestamps: times are instants.
	otherZone = time.FixedZone("plus5", 5*3600)
)

// Time scales: what the abstract timestamps 1..3 and query times 0..maxT stand
// for. Every scale is strictly monotone and stamp(i) and at(i) are the same
// instant, so "stamped at or before t" is ts <= t in every scale.
const nScales = 3

var stampTab, atTab [nScales][maxT + 2]time.Time

func init() {
	// scale 0: whole hours in 2020
	for i := range stampTab[0] {
		stampTab[0][i] = epoch.Add(time.Duration(i) * time.Hour)
		atTab[0][i] = epoch.Add(time.Duration(i) * time.Hour).In(otherZone)
	}
	// outside the range of int64 nanoseconds since 1970 (ends in 2262): times are
	// compared as instants, not as nanosecond counts
	atTab[0][maxT] = time.Date(9999, 12, 31, 23, 59, 59, 0, time.UTC)

	// scale 1: one nanosecond apart, around the instant from which update
	// timestamps are commit times (osm.CommitInfoStart, written out here), the
	// stored timestamps in two zones, the query times in a third one. at(maxT) is
	// one nanosecond after the last timestamp, not a far-future instant.
	commitInfoStart := time.Date(2012, 9, 12, 9, 30, 3, 0, time.UTC)
	west := time.FixedZone("minus7", -7*3600)
	nepal := time.FixedZone("plus0545", 5*3600+45*60)
	for i := range stampTab[1] {
		tm := commitInfoStart.Add(time.Duration(i-2) * time.Nanosecond)
		stampTab[1][i] = tm
		if i%2 == 1 {
			stampTab[1][i] = tm.In(west)
		}
		atTab[1][i] = tm.In(nepal)
	}

	// scale 2: the ends of what a time.Time usually holds: an update without a
	// timestamp (the zero time, year 1), 1970-01-01 (Unix time 0), an instant
	// after 2262-04-11 (no int64 nanosecond count); the query times are the same
	// instants, one nanosecond before the zero time, and the years 2300 and 9999.
	var zero time.Time
	after2262 := time.Date(2262, 4, 12, 0, 0, 0, 0, time.UTC)
	stampTab[2] = [maxT + 2]time.Time{zero.Add(-time.Nanosecond), zero, time.Unix(0, 0).UTC(), after2262,
		time.Date(2300, 1, 1, 0, 0, 0, 0, time.UTC), time.Date(9999, 12, 31, 23, 59, 59, 0, time.UTC), time.Date(9999, 12, 31, 23, 59, 59, 1, time.UTC)}
	atTab[2] = stampTab[2]
	atTab[2][2] = time.Unix(0, 0).In(otherZone)
	atTab[2][3] = after2262.In(west)

	for sc := 0; sc < nScales; sc++ {
		for i := 0; i < maxT; i++ {
			if !atTab[sc][i].Before(atTab[sc][i+1]) {
				kit.Fatalf("time scale %d: query times are not increasing at %d", sc, i)
			}
		}
		for ts := 1; ts <= 3; ts++ {
			if !stampTab[sc][ts].Equal(atTab[sc][ts]) {
				kit.Fatalf("time scale %d: timestamp %d and query time %d are different instants", sc, ts, ts)
			}
		}
	}
}

func stamp(scale, ts int) time.Time { return stampTab[scale][ts] }
func at(scale, t int) time.Time     { return atTab[scale][t] }

// ---------------------------------------------------------------- real side

const (
	maxKids = 3
	maxUpd  = 6
)

// element is the real object under test plus what is needed to observe it.
// One element is reused by a worker for all its cases; build re-initialises
// every field, so no state survives from one evaluation to the next.
type element struct {
	isWay    bool
	way      osm.Way
	rel      osm.Relation
	wBacking [maxKids + 1]osm.WayNode // way.Nodes == wBacking[:n]; wBacking[n] is a sentinel
	rBacking [maxKids + 1]osm.Member
	updBuf   [maxUpd]osm.Update
	tagBuf   [1]osm.Tag

	// per case, set by prepare
	c    Case
	tmpl [maxUpd]osm.Update
	base [maxKids]kid
}

var roles = [...]string{"role0", "role1", "role2", "role3"}

var (
	sentinelNode   = osm.WayNode{ID: 999, Version: 77, ChangesetID: 777, Lat: 77.5, Lon: -77.5}
	sentinelMember = osm.Member{Type: osm.TypeRelation, Ref: 999, Role: "sentinel", Version: 77, ChangesetID: 777, Lat: 77.5, Lon: -77.5, Orientation: orb.CCW}
)

// prepare fixes the case the element is built for.
func (e *element) prepare(c Case) {
	e.c = c
	e.isWay = c.Kind == "way"
	for p, u := range c.Upd {
		v := valuesAt(c, p)
		e.tmpl[p] = osm.Update{
			Index:       c.realIdx(u),
			Version:     v.Ver,
			Timestamp:   stamp(c.Scale, u.TS),
			ChangesetID: osm.ChangesetID(v.CS),
			Lat:         v.Lat,
			Lon:         v.Lon,
			Reverse:     u.Rev,
		}
	}
	copy(e.base[:], baseKids(c))
}

// build puts the element back into the case's initial state.
func (e *element) build() *element {
	c := e.c
	var us osm.Updates
	if len(c.Upd) > 0 {
		copy(e.updBuf[:], e.tmpl[:len(c.Upd)])
		us = e.updBuf[:len(c.Upd):len(c.Upd)]
	}
	e.tagBuf[0] = osm.Tag{Key: "k", Value: "v"}
	if e.isWay {
		for i := 0; i < c.N; i++ {
			k := e.base[i]
			e.wBacking[i] = osm.WayNode{ID: osm.NodeID(1000 + i), Version: k.Ver, ChangesetID: osm.ChangesetID(k.CS), Lat: k.Lat, Lon: k.Lon}
		}
		if c.Ring && c.N >= 2 {
			e.wBacking[c.N-1].ID = e.wBacking[0].ID // closed way: the first node again
		}
		e.wBacking[c.N] = sentinelNode
		e.way = osm.Way{
			ID: 7, User: "u", UserID: 9, Visible: true, Version: 3, ChangesetID: 33,
			Timestamp: epoch,
			Nodes:     e.wBacking[:c.N],
			Tags:      e.tagBuf[:],
			Updates:   us,
		}
		return e
	}
	for i := 0; i < c.N; i++ {
		k := e.base[i]
		typ := osm.TypeWay
		if memberKind(c, i) == 0 {
			typ = osm.TypeNode
		}
		e.rBacking[i] = osm.Member{Type: typ, Ref: int64(2000 + i), Role: roles[i],
			Version: k.Ver, ChangesetID: osm.ChangesetID(k.CS), Lat: k.Lat, Lon: k.Lon, Orientation: k.Orient}
	}
	if c.Ring && c.N >= 2 {
		// the same member listed twice
		e.rBacking[c.N-1].Type, e.rBacking[c.N-1].Ref = e.rBacking[0].Type, e.rBacking[0].Ref
	}
	e.rBacking[c.N] = sentinelMember
	e.rel = osm.Relation{
		ID: 8, User: "u", UserID: 9, Visible: true, Version: 3, ChangesetID: 33,
		Timestamp: epoch,
		Members:   e.rBacking[:c.N],
		Tags:      e.tagBuf[:],
		Updates:   us,
	}
	return e
}

// apply calls the real ApplyUpdatesUpTo, turning a panic into a value.
func (e *element) apply(t int) (err error, panicked interface{}) {
	defer func() {
		if p := recover(); p != nil {
			panicked = p
		}
	}()
	if e.isWay {
		return e.way.ApplyUpdatesUpTo(at(e.c.Scale, t)), nil
	}
	return e.rel.ApplyUpdatesUpTo(at(e.c.Scale, t)), nil
}

// pend is a pending update as observed on the real object, in model terms.
type pend struct {
	Idx, TS int
	Rev     bool
	Val     kid // Ver, CS, Lat, Lon
}

// state is what the property talks about, read off the real object.
type state struct {
	Kids        []kid // backed by kbuf unless the code under test grew the child list
	kbuf        [maxKids]kid
	pbuf        [maxUpd]pend
	IdentityOK  bool // child ids / types / refs / roles unchanged
	ParentOK    bool // fields of the parent itself unchanged
	BeyondOK    bool // child slice still n long, sentinel behind it untouched
	Pending     []pend
	beyondWhat  string
	parentWhat  string
	identityWhy string
}

// tsOf: the abstract timestamp an instant stands for in the scale (-999: none).
func tsOf(scale int, tm time.Time) int {
	for ts := 1; ts <= 3; ts++ {
		if tm.Equal(stampTab[scale][ts]) {
			return ts
		}
	}
	return -999
}

func snapUpdates(out []pend, us osm.Updates, scale int) []pend {
	for _, u := range us {
		out = append(out, pend{Idx: u.Index, TS: tsOf(scale, u.Timestamp), Rev: u.Reverse,
			Val: kid{Ver: u.Version, CS: int64(u.ChangesetID), Lat: u.Lat, Lon: u.Lon}})
	}
	return out
}

// snap reads the state of the real object into s (s must not be copied afterwards:
// its slices point into its own buffers).
func (e *element) snap(s *state) {
	c := e.c
	*s = state{IdentityOK: true, ParentOK: true, BeyondOK: true}
	s.Kids = s.kbuf[:0]
	if e.isWay {
		w := &e.way
		if len(w.Nodes) != c.N {
			s.BeyondOK, s.beyondWhat = false, fmt.Sprintf("len(Nodes)=%d want %d", len(w.Nodes), c.N)
		} else if e.wBacking[c.N] != sentinelNode {
			s.BeyondOK, s.beyondWhat = false, fmt.Sprintf("element behind the slice changed to %+v", e.wBacking[c.N])
		}
		for i, nd := range w.Nodes {
			s.Kids = append(s.Kids, kid{Ver: nd.Version, CS: int64(nd.ChangesetID), Lat: nd.Lat, Lon: nd.Lon})
			wantID := osm.NodeID(1000 + i)
			if c.Ring && c.N >= 2 && i == c.N-1 {
				wantID = 1000
			}
			if nd.ID != wantID {
				s.IdentityOK, s.identityWhy = false, fmt.Sprintf("node %d has id %d", i, nd.ID)
			}
		}
		if w.ID != 7 || w.User != "u" || w.UserID != 9 || !w.Visible || w.Version != 3 || w.ChangesetID != 33 ||
			!w.Timestamp.Equal(epoch) || len(w.Tags) != 1 || w.Tags[0] != (osm.Tag{Key: "k", Value: "v"}) || w.Committed != nil || w.Bounds != nil {
			s.ParentOK, s.parentWhat = false, fmt.Sprintf("way fields changed: id=%d v=%d cs=%d ts=%v tags=%v", w.ID, w.Version, w.ChangesetID, w.Timestamp, w.Tags)
		}
		s.Pending = snapUpdates(s.pbuf[:0], w.Updates, c.Scale)
		return
	}
	r := &e.rel
	if len(r.Members) != c.N {
		s.BeyondOK, s.beyondWhat = false, fmt.Sprintf("len(Members)=%d want %d", len(r.Members), c.N)
	} else if m := e.rBacking[c.N]; m.Type != sentinelMember.Type || m.Ref != sentinelMember.Ref || m.Role != sentinelMember.Role ||
		m.Version != sentinelMember.Version || m.ChangesetID != sentinelMember.ChangesetID || m.Lat != sentinelMember.Lat ||
		m.Lon != sentinelMember.Lon || m.Orientation != sentinelMember.Orientation || m.Nodes != nil {
		s.BeyondOK, s.beyondWhat = false, fmt.Sprintf("element behind the slice changed to %+v", m)
	}
	for i, m := range r.Members {
		s.Kids = append(s.Kids, kid{Ver: m.Version, CS: int64(m.ChangesetID), Lat: m.Lat, Lon: m.Lon, Orient: m.Orientation})
		typ := osm.TypeWay
		if memberKind(c, i) == 0 {
			typ = osm.TypeNode
		}
		wantRef := int64(2000 + i)
		if c.Ring && c.N >= 2 && i == c.N-1 {
			wantRef = 2000
			typ = osm.TypeWay
			if memberKind(c, 0) == 0 {
				typ = osm.TypeNode
			}
		}
		if m.Type != typ || m.Ref != wantRef || m.Role != roles[i] || m.Nodes != nil {
			s.IdentityOK, s.identityWhy = false, fmt.Sprintf("member %d is now %s/%d role %q", i, m.Type, m.Ref, m.Role)
		}
	}
	if r.ID != 8 || r.User != "u" || r.UserID != 9 || !r.Visible || r.Version != 3 || r.ChangesetID != 33 ||
		!r.Timestamp.Equal(epoch) || len(r.Tags) != 1 || r.Tags[0] != (osm.Tag{Key: "k", Value: "v"}) || r.Committed != nil || r.Bounds != nil {
		s.ParentOK, s.parentWhat = false, fmt.Sprintf("relation fields changed: id=%d v=%d cs=%d ts=%v tags=%v", r.ID, r.Version, r.ChangesetID, r.Timestamp, r.Tags)
	}
	s.Pending = snapUpdates(s.pbuf[:0], r.Updates, c.Scale)
}

func sameKids(a, b []kid) bool {
	if len(a) != len(b) {
		return false
	}
	for i := range a {
		if a[i] != b[i] {
			return false
		}
	}
	return true
}

// sameKidsButOrient: equal when orientation is ignored.
func sameKidsButOrient(a, b []kid) bool {
	if len(a) != len(b) {
		return false
	}
	for i := range a {
		x, y := a[i], b[i]
		x.Orient, y.Orient = 0, 0
		if x != y {
			return false
		}
	}
	return true
}

func samePending(a, b []pend) bool {
	if len(a) != len(b) { // nil == empty
		return false
	}
	for i := range a {
		if a[i] != b[i] {
			return false
		}
	}
	return true
}

func sameLine(a, b orb.LineString) bool {
	if len(a) != len(b) { // nil == empty
		return false
	}
	for i := range a {
		if a[i] != b[i] {
			return false
		}
	}
	return true
}

// ---------------------------------------------------------------- the check

// collector gathers the failing cases per violation key, so that the case
// handed to kit first (the stored replay) is the smallest one whatever the
// scheduling of the workers was.
type collector struct {
	mu   sync.Mutex
	keys map[string]*failing
}

type failing struct {
	count int64
	what  string
	c     Case
}

var found = collector{keys: map[string]*failing{}}

// smaller orders cases: shorter list, fewer children, way before relation,
// smaller base, then the list itself.
func smaller(a, b Case) bool {
	if x, y := a.variantWeight(), b.variantWeight(); x != y {
		return x < y // the plain case before any boundary variant
	}
	if len(a.Upd) != len(b.Upd) {
		return len(a.Upd) < len(b.Upd)
	}
	if a.N != b.N {
		return a.N < b.N
	}
	if a.Kind != b.Kind {
		return a.Kind == "way"
	}
	if a.Base != b.Base {
		return a.Base < b.Base
	}
	for p := range a.Upd {
		x, y := a.Upd[p], b.Upd[p]
		if x.Idx != y.Idx {
			return x.Idx < y.Idx
		}
		if x.TS != y.TS {
			return x.TS < y.TS
		}
		if x.Rev != y.Rev {
			return !x.Rev
		}
	}
	for _, d := range [...][2]int{{a.Scale, b.Scale}, {a.Pal, b.Pal}, {a.Far, b.Far}, {a.BaseVar, b.BaseVar}} {
		if d[0] != d[1] {
			return d[0] < d[1]
		}
	}
	return false
}

func (k *collector) add(key, what string, c Case) {
	k.mu.Lock()
	defer k.mu.Unlock()
	f := k.keys[key]
	if f == nil {
		k.keys[key] = &failing{count: 1, what: what, c: c}
		return
	}
	f.count++
	if smaller(c, f.c) {
		f.what, f.c = what, c
	}
}

// report hands every failing case to kit, per key in sorted order, smallest case first.
func (k *collector) report(r *kit.Run) {
	names := make([]string, 0, len(k.keys))
	for key := range k.keys {
		names = append(names, key)
	}
	sort.Strings(names)
	perKey := map[string]int64{}
	for _, key := range names {
		f := k.keys[key]
		perKey[key] = f.count
		what := fmt.Sprintf("%s | smallest of %d failing cases: %s", f.what, f.count, f.c)
		for i := int64(0); i < f.count; i++ {
			r.Violation(key, what, f.c) // kit keeps the first per key and counts the rest
		}
	}
	if len(perKey) > 0 {
		r.Set("failing_cases_per_key", perKey)
	}
}

type stats struct {
	upToJudged, applyJudged, applyErrJudged                       int64
	composeJudged, composeSkipUnordered, composeSkipErr int64
	geomJudged, geomSkipUnannotated, geomSkipRange      int64
	lateBeforeInTime, unorderedLists, outOfRangeLists   int64
	sameChildTwice, reversing                           int64
	wayCases, relCases                                  int64
	variantCases                                        [5]int64 // scale, payloads, far index, base children, no children
	geomPurityJudged                                    int64
}

var variantCounterNames = [...]string{
	"cases_time_scale_other_than_hours", "cases_boundary_payloads", "cases_far_out_of_range_index",
	"cases_boundary_children", "cases_without_children"}

func (s *stats) flush(r *kit.Run) {
	r.Add("upto_evaluations_judged", s.upToJudged)
	r.Add("apply_evaluations_state_judged", s.applyJudged)
	r.Add("apply_evaluations_error_judged", s.applyErrJudged)
	r.Add("compose_pairs_judged", s.composeJudged)
	r.Add("compose_pairs_skipped_child_updates_not_in_time_order", s.composeSkipUnordered)
	r.Add("compose_pairs_skipped_direct_apply_errors", s.composeSkipErr)
	r.Add("geometry_evaluations_judged", s.geomJudged)
	r.Add("geometry_cases_skipped_not_fully_annotated", s.geomSkipUnannotated)
	r.Add("geometry_cases_skipped_index_out_of_range", s.geomSkipRange)
	r.Add("cases_with_late_update_stored_before_in_time_update", s.lateBeforeInTime)
	r.Add("cases_child_updates_not_in_time_order", s.unorderedLists)
	r.Add("cases_with_index_one_past_end", s.outOfRangeLists)
	r.Add("cases_same_child_updated_more_than_once", s.sameChildTwice)
	r.Add("cases_with_reversing_update", s.reversing)
	r.Add("way_cases", s.wayCases)
	r.Add("relation_cases", s.relCases)
	for i, n := range s.variantCases {
		r.Add(variantCounterNames[i], n)
	}
	r.Add("geometry_evaluations_query_left_the_way_unchanged_judged", s.geomPurityJudged)
}

func checkCase(r *kit.Run, el *element, c Case, st *stats) {
	if c.N > maxKids || len(c.Upd) > maxUpd {
		kit.Fatalf("case outside the supported bounds: %s", c)
	}
	el.prepare(c)
	n := c.N
	kind := c.Kind
	ordered := childOrdered(c)
	inRange := allInRange(c)
	shape := "time-ordered-list"
	if !ordered {
		shape = "out-of-order-list"
		st.unorderedLists++
	}
	if !inRange {
		st.outOfRangeLists++
	}
	if hasLateBeforeInTime(c) {
		st.lateBeforeInTime++
	}
	if sameChildTwice(c) {
		st.sameChildTwice++
	}
	for i, on := range [...]bool{c.Scale != 0, c.Pal != 0, c.Far != 0, c.BaseVar != 0, c.N == 0} {
		if on {
			st.variantCases[i]++
		}
	}
	if kind == "way" {
		st.wayCases++
	} else {
		st.relCases++
		for _, u := range c.Upd {
			if u.Rev {
				st.reversing++
				break
			}
		}
	}
	r.Eval(1)
	if nonTrivial(c) {
		r.NontrivialHash(c.hash())
	}

	var reported map[string]bool // one violation per key and case
	viol := func(key, what string) {
		if reported[key] {
			return
		}
		if reported == nil {
			reported = map[string]bool{}
		}
		reported[key] = true
		found.add(key, what, c)
	}

	// ---- clause 1-3: one ApplyUpdatesUpTo(t) against the reference model
	var direct [maxT + 1]state  // result of one ApplyUpdatesUpTo(t)
	var directOK [maxT + 1]bool // false where the direct application errs / panics
	var exp expectedT
	for t := 0; t <= maxT; t++ {
		model(c, t, &exp)
		e := el.build()
		// ---- Updates.UpTo(t): the sub-list of the updates stamped at or before t, in their
		// stored order (what ApplyUpdatesUpTo(t) consumes), the list itself untouched
		if len(c.Upd) > 0 && kind == "way" {
			us := e.way.Updates
			tt := at(c.Scale, t)
			var want osm.Updates
			for _, u := range e.tmpl[:len(c.Upd)] {
				if !u.Timestamp.After(tt) {
					want = append(want, u)
				}
			}
			got, pan := func() (g osm.Updates, p interface{}) {
				defer func() { p = recover() }()
				return us.UpTo(tt), nil
			}()
			st.upToJudged++
			switch {
			case pan != nil:
				viol("upto/panic", fmt.Sprintf("t=%d: Updates.UpTo panicked: %v", t, pan))
			case len(got) != len(want):
				viol("upto/selection-"+shape, fmt.Sprintf("t=%d: UpTo returned %d updates, %d are stamped at or before t: got %v want %v", t, len(got), len(want), got, want))
			default:
				for i := range got {
					if got[i] != want[i] {
						viol("upto/selection-"+shape, fmt.Sprintf("t=%d: UpTo()[%d] = %v, want %v (stored order)", t, i, got[i], want[i]))
						break
					}
				}
			}
			for i := range us {
				if us[i] != e.tmpl[i] {
					viol("upto/list-modified", fmt.Sprintf("t=%d: UpTo changed entry %d of the list it was called on", t, i))
					break
				}
			}
		}
		err, pan := e.apply(t)
		// the update list handed in belongs to whoever else holds it (a shallow copy of the
		// element, a slice saved before the call): its entries are not rewritten in place
		for i := 0; i < len(c.Upd); i++ {
			if e.updBuf[i] != e.tmpl[i] {
				viol("apply-exact/"+kind+"-update-list-rewritten-in-place", fmt.Sprintf("t=%d: entry %d of the update list the element was given is %v after the call, was %v", t, i, e.updBuf[i], e.tmpl[i]))
				break
			}
		}
		got := &direct[t]
		e.snap(got)
		if pan != nil {
			if exp.ErrExpected {
				viol("index-out-of-range/"+kind+"-panic", fmt.Sprintf("t=%d: ApplyUpdatesUpTo panicked (%v) instead of returning *UpdateIndexOutOfRangeError", t, pan))
			} else {
				viol("apply-exact/"+kind+"-panic", fmt.Sprintf("t=%d: ApplyUpdatesUpTo panicked: %v", t, pan))
			}
			continue
		}
		if !got.BeyondOK {
			viol("index-out-of-range/"+kind+"-touched-beyond-slice", fmt.Sprintf("t=%d: %s", t, got.beyondWhat))
		}
		if exp.ErrExpected {
			st.applyErrJudged++
			var oor *osm.UpdateIndexOutOfRangeError
			switch {
			case err == nil:
				viol("index-out-of-range/"+kind+"-no-error", fmt.Sprintf("t=%d: an update stamped <= t has index >= %d but ApplyUpdatesUpTo returned nil", t, n))
			case !errors.As(err, &oor):
				viol("index-out-of-range/"+kind+"-wrong-error-type", fmt.Sprintf("t=%d: got error %T %v, want *UpdateIndexOutOfRangeError", t, err, err))
			case !exp.ErrIdx.has(oor.Index):
				viol("index-out-of-range/"+kind+"-wrong-index-reported", fmt.Sprintf("t=%d: error reports index %d, which is not the index of an applied out-of-range update", t, oor.Index))
			}
			continue // the state after an error is not described by the property
		}
		if err != nil {
			viol("index-out-of-range/"+kind+"-spurious-error", fmt.Sprintf("t=%d: no update stamped <= t is out of range, got error %v", t, err))
			continue
		}
		st.applyJudged++
		directOK[t] = true
		if !sameKids(got.Kids, exp.Kids) {
			if kind == "relation" && sameKidsButOrient(got.Kids, exp.Kids) {
				viol("relation-reverse/orientation-"+shape, fmt.Sprintf("t=%d: members after apply %v, want %v (orientation flips once per applied reversing update)", t, got.Kids, exp.Kids))
			} else {
				viol("apply-exact/"+kind+"-child-values-"+shape, fmt.Sprintf("t=%d: children after apply %v, want %v", t, got.Kids, exp.Kids))
			}
		}
		if !got.IdentityOK {
			viol("apply-exact/"+kind+"-child-identity", fmt.Sprintf("t=%d: %s", t, got.identityWhy))
		}
		if !got.ParentOK {
			viol("apply-exact/"+kind+"-parent-fields", fmt.Sprintf("t=%d: %s", t, got.parentWhat))
		}
		if !samePending(got.Pending, exp.Pending) {
			viol("pending-order/"+kind+"-"+pendingShape(got.Pending, exp.Pending), fmt.Sprintf("t=%d: pending updates %v, want %v", t, got.Pending, exp.Pending))
		}
	}

	// ---- clause 4: apply(t1) then apply(t2) == apply(t2), t1 <= t2
	var two state
	for t2 := 0; t2 <= maxT; t2++ {
		for t1 := 0; t1 <= t2; t1++ {
			if !ordered {
				st.composeSkipUnordered++
				continue
			}
			if !directOK[t2] {
				st.composeSkipErr++
				continue
			}
			st.composeJudged++
			e := el.build()
			err1, pan1 := e.apply(t1)
			if pan1 != nil || err1 != nil {
				viol("compose/"+kind+"-first-step-fails", fmt.Sprintf("t1=%d t2=%d: first step err=%v panic=%v although apply(t2) succeeds", t1, t2, err1, pan1))
				continue
			}
			err2, pan2 := e.apply(t2)
			if pan2 != nil || err2 != nil {
				viol("compose/"+kind+"-second-step-fails", fmt.Sprintf("t1=%d t2=%d: second step err=%v panic=%v although apply(t2) succeeds", t1, t2, err2, pan2))
				continue
			}
			e.snap(&two)
			got, want := &two, &direct[t2]
			if !sameKids(got.Kids, want.Kids) {
				if kind == "relation" && sameKidsButOrient(got.Kids, want.Kids) {
					viol("compose/relation-orientation", fmt.Sprintf("t1=%d t2=%d: two steps give %v, one step gives %v", t1, t2, got.Kids, want.Kids))
				} else {
					viol("compose/"+kind+"-child-values", fmt.Sprintf("t1=%d t2=%d: two steps give %v, one step gives %v", t1, t2, got.Kids, want.Kids))
				}
			}
			if !samePending(got.Pending, want.Pending) {
				viol("compose/"+kind+"-pending", fmt.Sprintf("t1=%d t2=%d: two steps leave %v pending, one step leaves %v", t1, t2, got.Pending, want.Pending))
			}
			if !got.IdentityOK || !got.ParentOK || !got.BeyondOK {
				viol("compose/"+kind+"-other-fields", fmt.Sprintf("t1=%d t2=%d: %s %s %s", t1, t2, got.identityWhy, got.parentWhat, got.beyondWhat))
			}
		}
	}

	// ---- clause 5: LineStringAt(t) == LineString() of a copy after ApplyUpdatesUpTo(t)
	if kind != "way" {
		return
	}
	if !fullyAnnotated(c) {
		st.geomSkipUnannotated++
		return
	}
	if !inRange {
		st.geomSkipRange++
		return
	}
	var untouched expectedT // the way as built: no update applied, all pending
	model(c, -1, &untouched)
	var after state
	for t := 0; t <= maxT; t++ {
		st.geomJudged++
		var lsAt, lsAgain, lsApplied orb.LineString
		var applyErr error
		pan := func() (p interface{}) {
			defer func() { p = recover() }()
			q := el.build()
			lsAt = q.way.LineStringAt(at(c.Scale, t))
			q.snap(&after)
			// the same query once more on the same object
			lsAgain = append(lsAgain, q.way.LineStringAt(at(c.Scale, t))...)
			lsAt = append(orb.LineString(nil), lsAt...)
			cp := el.build() // the same element re-initialised; both results were copied above
			applyErr = cp.way.ApplyUpdatesUpTo(at(c.Scale, t))
			lsApplied = cp.way.LineString()
			return nil
		}()
		if pan != nil {
			viol("linestringat-vs-apply/panic", fmt.Sprintf("t=%d: panic %v", t, pan))
			continue
		}
		if applyErr != nil {
			continue // reported by the index-out-of-range clause above
		}
		// a query: the way itself is as it was (the property applies the updates "on a copy")
		st.geomPurityJudged++
		if !sameKids(after.Kids, untouched.Kids) || !samePending(after.Pending, untouched.Pending) || !after.IdentityOK || !after.ParentOK || !after.BeyondOK {
			viol("linestringat-vs-apply/query-changed-the-way", fmt.Sprintf("t=%d: after LineStringAt the way has nodes %v pending %v %s %s %s, before it had nodes %v pending %v",
				t, after.Kids, after.Pending, after.identityWhy, after.parentWhat, after.beyondWhat, untouched.Kids, untouched.Pending))
		}
		if !sameLine(lsAgain, lsAt) {
			viol("linestringat-vs-apply/second-call-differs", fmt.Sprintf("t=%d: LineStringAt=%v, asked again on the same way=%v", t, lsAt, lsAgain))
		}
		if sameLine(lsAt, lsApplied) {
			continue
		}
		sub := "other"
		if sameLine(lsAt, modelBreakAtFirstLate(c, t)) && hasLateBeforeInTimeAt(c, t) {
			// exactly what "stop at the first too-late update" produces
			sub = "late-update-stored-before-in-time-update"
		}
		viol("linestringat-vs-apply/"+sub, fmt.Sprintf("t=%d: LineStringAt=%v but LineString after ApplyUpdatesUpTo=%v (reference model %v)", t, lsAt, lsApplied, modelLine(c, t)))
	}
}

// pendingShape names how the pending list is wrong.
func pendingShape(got, want []pend) string {
	switch {
	case len(got) > len(want):
		return "applied-updates-kept"
	case len(got) < len(want):
		return "later-updates-dropped"
	default:
		return "reordered-or-altered"
	}
}

// ---------------------------------------------------------------- enumeration

type job struct {
	kind   string
	n      int
	base   int
	length int
	lo, hi int // list codes [lo,hi)
	ring   bool
	v      variant
}

// variant: the boundary classes switched on for a family of cases (see Case).
type variant struct{ scale, pal, far, baseVar int }

func (v variant) weight() int {
	return Case{Scale: v.scale, Pal: v.pal, Far: v.far, BaseVar: v.baseVar}.variantWeight()
}

// allVariants: every combination of time scale x payload palette x far index x base children.
func allVariants() []variant {
	var vs []variant
	for sc := 0; sc < nScales; sc++ {
		for pal := 0; pal <= 1; pal++ {
			for far := 0; far <= 3; far++ {
				for bv := 0; bv <= 1; bv++ {
					vs = append(vs, variant{sc, pal, far, bv})
				}
			}
		}
	}
	return vs
}

func pow(a, b int) int {
	p := 1
	for i := 0; i < b; i++ {
		p *= a
	}
	return p
}

func alphabet(kind string, n int) int {
	a := (n + 1) * 3
	if kind == "relation" {
		a *= 2
	}
	return a
}

// decode turns a list code into the update list (digit p = update at position p).
func decode(kind string, n, base, length, code int) Case {
	c := Case{Kind: kind, N: n, Base: base, Upd: make([]U, length)}
	a := alphabet(kind, n)
	for p := 0; p < length; p++ {
		d := code % a
		code /= a
		c.Upd[p] = U{Idx: d % (n + 1), TS: 1 + (d/(n+1))%3, Rev: d/(3*(n+1)) == 1}
	}
	return c
}

// rotations of (node, way-CW, way-CCW): every position sees every member kind.
var coveringRelBases3 = []int{
	0 + 1*3 + 2*9,
	1 + 2*3 + 0*9,
	2 + 0*3 + 1*9,
}

func isCovering(b int) bool {
	for _, x := range coveringRelBases3 {
		if x == b {
			return true
		}
	}
	return false
}

type bounds struct {
	wayFull, wayOther int // max list length: fully annotated ways / ways with unannotated nodes
	relSmall          int // max list length: relations with n <= 2 (all 3^n bases)
	relDeep           int // max list length: n = 3, base (node, way CW, way CCW)
	relCover          int // max list length: n = 3, the two other rotations of that base
	relAll            int // max list length: n = 3, the remaining 24 bases
	// boundary variants, run on: ways with every mask, relations with n = 3 on the
	// three rotations of (node, way CW, way CCW), n = 2 on the pairs (node,CW)
	// (CW,CCW) (CCW,node), n = 1 on every kind; the ring shapes; elements without children
	oneVariant    int // max list length: exactly one boundary class switched on
	oneVariantWay int // the same for fully annotated ways (the geometry clause)
	mixVariants   int // max list length: every combination of two or more classes, and the rings and childless elements under every combination
}

// rotations of (node, way-CW, way-CCW) cut to two members
var coveringRelBases2 = []int{0 + 1*3, 1 + 2*3, 2 + 0*3}

func enumerate(b bounds) []job {
	var jobs []job
	ring := false
	var v variant
	add := func(kind string, n, base, maxLen int) {
		a := alphabet(kind, n)
		for l := 0; l <= maxLen; l++ {
			total := pow(a, l)
			const chunk = 4096
			for lo := 0; lo < total; lo += chunk {
				hi := lo + chunk
				if hi > total {
					hi = total
				}
				jobs = append(jobs, job{kind, n, base, l, lo, hi, ring, v})
			}
		}
	}
	for n := 1; n <= 3; n++ {
		full := 1<<uint(n) - 1
		for mask := 0; mask <= full; mask++ {
			if mask == full {
				add("way", n, mask, b.wayFull)
			} else {
				add("way", n, mask, b.wayOther)
			}
		}
		for base := 0; base < pow(3, n); base++ {
			switch {
			case n < 3:
				add("relation", n, base, b.relSmall)
			case base == coveringRelBases3[0]:
				add("relation", n, base, b.relDeep)
			case isCovering(base):
				add("relation", n, base, b.relCover)
			default:
				add("relation", n, base, b.relAll)
			}
		}
	}
	// rings: a child referenced twice (closed way, repeated member), fully
	// annotated, lists one shorter than the deepest bound
	ring = true
	for n := 2; n <= 3; n++ {
		add("way", n, 1<<uint(n)-1, b.wayOther)
		add("relation", n, 0, b.relCover)                       // all members nodes
		add("relation", n, pow(3, n)-1-pow(3, n-1), b.relCover) // ways CCW, last one CW... first and last get the same ref
	}
	ring = false

	// elements without children: every index is out of range, the geometry is empty
	add("way", 0, 0, b.wayOther)
	add("relation", 0, 0, b.relSmall)

	// boundary variants
	for _, v = range allVariants() {
		w := v.weight()
		if w == 0 {
			continue
		}
		l, lFull := b.mixVariants, b.mixVariants
		if w == 1 {
			l, lFull = b.oneVariant, b.oneVariantWay
		}
		ring = false
		for n := 1; n <= 3; n++ {
			full := 1<<uint(n) - 1
			for mask := 0; mask < full; mask++ {
				add("way", n, mask, l)
			}
			add("way", n, full, lFull)
		}
		for base := 0; base < 3; base++ {
			add("relation", 1, base, l)
		}
		for _, base := range coveringRelBases2 {
			add("relation", 2, base, l)
		}
		for _, base := range coveringRelBases3 {
			add("relation", 3, base, l)
		}
		add("way", 0, 0, b.mixVariants)
		add("relation", 0, 0, b.mixVariants)
		ring = true
		for n := 2; n <= 3; n++ {
			add("way", n, 1<<uint(n)-1, b.mixVariants)
			add("relation", n, 0, b.mixVariants)
			add("relation", n, pow(3, n)-1-pow(3, n-1), b.mixVariants)
		}
	}
	return jobs
}

func main() {
	kit.Main("C15", "exploration", func(r *kit.Run) {
		r.Rule("case = (element, stored update list): ways with n in {1,2,3} nodes x every annotated/unannotated mask, relations with n in {1,2,3} members x member kinds {node, way CW, way CCW}; " +
			"EVERY list up to the tier's length bound over index in {0..n} (n = one past the end) x timestamp in {1h,2h,3h} x reverse in {false,true} (relations), each update carrying version/changeset/lat/lon unique to its list position " +
			"(so every stored order of every multiset occurs and the winning update is observable). Inside a case: every t in {0h..4h} (t equal to a timestamp included, given in another time zone) and every pair t1<=t2. " +
			"Boundary classes, each alone on shorter lists and all combinations on still shorter ones (max_list_length, boundary_classes in the evidence): elements without children; " +
			"the out-of-range index n+1, 2^32, largest int instead of n; timestamps and query times one nanosecond apart around 2012-09-12T09:30:03Z in three zones; the zero time, one nanosecond before it, 1970-01-01 and a time after 2262 as timestamps and as query times; " +
			"updates carrying changeset 0, lon 0, the largest int / int64, values beyond 32 and 53 bits, +-90/+-180, 1e-7, two equal payloads; children at 0/0 that have a version and children with the largest values. " +
			"For fully annotated ways LineStringAt is also asked twice on one object and the way is compared with what it was before the query. " +
			"Non-trivial = at least two updates with at least two distinct timestamps (some t splits the list into applied and pending). Fingerprint = (kind,n,base,list), injective.")
		r.Assume("Go memory safety: a write beyond len(slice) can only show as a panic or in the spare capacity element placed behind the child slice, both are observed")
		r.Assume("update values by list position stand for arbitrary distinct values: the code under test copies them and never branches on version/changeset/location")
		r.Assume("out-of-order lists: 'applying updates' means in stored order (the property's time-order precondition on composability presupposes it), so the last stored update stamped <= t wins; violations there carry their own key suffix out-of-order-list")
		r.Assume("negative indices are outside the property's domain (annotation never produces them) and are not enumerated; the state of an element after an index error is not judged")
		r.Assume("a way node with version 0 that has a location, and an update with version 0, are neither clearly annotated nor clearly unannotated: not enumerated; geometry-at-time for lists with an out-of-range index is not judged (DESIGN section 6)")
		r.Assume("LineStringAt is a query: the property applies the updates 'on a copy', so the way it is asked about must be the same afterwards (own key linestringat-vs-apply/query-changed-the-way)")
		r.Assume("internal/mputil (consumer of LineStringAt) cannot be imported from another module and is not exercised here")

		if r.ReplayPath != "" {
			var c Case
			r.LoadReplay(&c)
			if (c.Kind != "way" && c.Kind != "relation") || c.N < 0 || c.Scale < 0 || c.Scale >= nScales || c.Pal < 0 || c.Pal > 1 || c.Far < 0 || c.Far > 3 || c.BaseVar < 0 || c.BaseVar > 1 {
				kit.Fatalf("replay: bad case %+v", c)
			}
			var st stats
			checkCase(r, &element{}, c, &st)
			st.flush(r)
			r.Sample(c)
			found.report(r)
			return
		}

		b := bounds{wayFull: 5, wayOther: 4, relSmall: 4, relDeep: 4, relCover: 4, relAll: 3, oneVariant: 3, oneVariantWay: 4, mixVariants: 2}
		if !r.Quick() {
			b = bounds{wayFull: 6, wayOther: 5, relSmall: 5, relDeep: 5, relCover: 4, relAll: 4, oneVariant: 4, oneVariantWay: 5, mixVariants: 3}
		}
		r.Set("max_list_length", map[string]int{
			"way_fully_annotated": b.wayFull, "way_with_unannotated_nodes": b.wayOther,
			"relation_n<=2_all_bases": b.relSmall, "relation_n=3_base_node_cw_ccw": b.relDeep,
			"relation_n=3_two_rotations_of_that_base": b.relCover, "relation_n=3_remaining_24_bases": b.relAll,
			"one_boundary_class": b.oneVariant, "one_boundary_class_fully_annotated_way": b.oneVariantWay, "combined_boundary_classes_rings_childless": b.mixVariants})
		r.Set("boundary_classes", map[string]interface{}{
			"time_scales":        scaleNames,
			"out_of_range_index": farNames,
			"payloads":           []string{"distinct small values, 0/0, lat 0", "changeset 0, lon 0, largest int / int64, 2^31, 2^40, 2^53+1, +-90/+-180, 1e-7, a repeated payload"},
			"children":           []string{"distinct small values", "child 0 at 0/0 with a version, child 1 with the largest version, changeset 0, 90/-180"},
			"child_counts":       []int{0, 1, 2, 3}})
		r.Set("t_values_h", []int{0, 1, 2, 3, 4})
		r.Set("timestamps_h", []int{1, 2, 3})

		// deterministic samples, independent of scheduling
		r.Sample(decode("way", 2, 3, 2, 6+1*9)) // [idx0@3h idx1@1h]: a late update stored before an in-time one
		r.Sample(decode("way", 3, 7, 4, 12345))
		r.Sample(decode("way", 3, 5, 3, 777))
		r.Sample(decode("relation", 3, coveringRelBases3[0], 4, 200001))
		r.Sample(decode("relation", 2, 5, 3, 2222))
		r.Sample(decode("relation", 1, 1, 4, 4000))
		for _, v := range []variant{{scale: 1}, {scale: 2, far: 3}, {pal: 1, baseVar: 1}} {
			c := decode("way", 2, 3, 3, 5+3*9+8*81) // [idx2@2h idx0@2h idx2@3h]
			c.Scale, c.Pal, c.Far, c.BaseVar = v.scale, v.pal, v.far, v.baseVar
			r.Sample(c)
		}

		jobs := enumerate(b)
		r.Set("jobs", len(jobs))
		var capped int32
		r.Par(len(jobs), func(i int) {
			if r.TimeUp() {
				if atomic.CompareAndSwapInt32(&capped, 0, 1) {
					r.Capped("time budget reached before all lists were enumerated")
				}
				return
			}
			j := jobs[i]
			var st stats
			el := &element{}
			for code := j.lo; code < j.hi; code++ {
				c := decode(j.kind, j.n, j.base, j.length, code)
				c.Ring = j.ring
				c.Scale, c.Pal, c.Far, c.BaseVar = j.v.scale, j.v.pal, j.v.far, j.v.baseVar
				if c.Far != 0 && allInRange(c) {
					continue // no update uses the index n: the same case as with Far = 0
				}
				checkCase(r, el, c, &st)
			}
			st.flush(r)
		})
		found.report(r)
	})
}
