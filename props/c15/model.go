package main

// The reference model of C15. Nothing in this file calls code from /repo
// (only orb's two orientation constants and the LineString type are used as
// plain values).

import (
	"fmt"
	"strings"

	"github.com/paulmach/orb"
)

// U is one stored update of the case alphabet. Its version, changeset and
// location are a function of its position in the list (valuesAt).
type U struct {
	Idx int  `json:"idx"`
	TS  int  `json:"ts_h"` // hours after the epoch, 1..3
	Rev bool `json:"rev,omitempty"`
}

// Case is one enumerated case; it is also the replay value.
type Case struct {
	Kind string `json:"kind"` // "way" or "relation"
	N    int    `json:"n"`    // number of children
	// Base: way = bit i set when node i is annotated; relation = base-3 digit
	// i is the kind of member i (0 node, 1 way clockwise, 2 way counter-clockwise).
	Base int `json:"base"`
	Upd  []U `json:"updates"`
	// Ring: the last child is a second reference to the first child (a closed
	// way: same node id; a relation listing one member twice). Updates name
	// children by index, so the two references stay independent.
	Ring bool `json:"ring,omitempty"`

	// Boundary variants (all zero = the plain case; a replay written before they
	// existed decodes to the plain case).
	// Scale: which instants the abstract times stand for (timeScales in main.go):
	// 0 whole hours in 2020, 1 single nanoseconds around 2012-09-12T09:30:03Z given
	// in three zones, 2 the zero time / 1970-01-01 / a time after 2262.
	Scale int `json:"scale,omitempty"`
	// Pal: the payload palette of the updates (valuesAt): 0 plain, 1 boundary values.
	Pal int `json:"pal,omitempty"`
	// Far: the real index an update with Idx == N carries: 0 N (one past the
	// end), 1 N+1, 2 2^32, 3 the largest int.
	Far int `json:"far,omitempty"`
	// BaseVar: the children before any update: 0 plain, 1 boundary values
	// (a child at 0/0 that has a version, a child with the largest values).
	BaseVar int `json:"basevar,omitempty"`
}

const maxInt = int(^uint(0) >> 1)

// realIdx is the index the stored update really carries.
func (c Case) realIdx(u U) int {
	if u.Idx != c.N {
		return u.Idx
	}
	switch c.Far {
	case 1:
		return c.N + 1
	case 2:
		return 1 << 32
	case 3:
		return maxInt
	}
	return c.N
}

// variantWeight: how many boundary variants are switched on.
func (c Case) variantWeight() int {
	w := 0
	for _, v := range [...]int{c.Scale, c.Pal, c.Far, c.BaseVar} {
		if v != 0 {
			w++
		}
	}
	return w
}

var (
	scaleNames = [...]string{"hours", "nanoseconds-around-2012-09-12T09:30:03Z", "zero-time/1970/after-2262"}
	farNames   = [...]string{"n", "n+1", "2^32", "maxint"}
)

func (c Case) String() string {
	var sb strings.Builder
	ring := ""
	if c.Ring {
		ring = " ring"
	}
	if c.Scale != 0 && c.Scale < len(scaleNames) {
		ring += " times=" + scaleNames[c.Scale]
	}
	if c.Pal != 0 {
		ring += " boundary-payloads"
	}
	if c.Far != 0 && c.Far < len(farNames) {
		ring += " idx" + fmt.Sprint(c.N) + "-means-" + farNames[c.Far]
	}
	if c.BaseVar != 0 {
		ring += " boundary-children"
	}
	fmt.Fprintf(&sb, "%s n=%d base=%d%s updates=[", c.Kind, c.N, c.Base, ring)
	for p, u := range c.Upd {
		if p > 0 {
			sb.WriteString(" ")
		}
		if c.Scale == 0 {
			fmt.Fprintf(&sb, "idx%d@%dh", u.Idx, u.TS)
		} else {
			fmt.Fprintf(&sb, "idx%d@time%d", u.Idx, u.TS) // the ts-th timestamp of the scale, not hours
		}
		if u.Rev {
			sb.WriteString("/rev")
		}
	}
	sb.WriteString("]")
	return sb.String()
}

// hash is an injective fingerprint of the case (bijective mixing of a packed id).
func (c Case) hash() uint64 {
	a := uint64((c.N + 1) * 3 * 2)
	var code uint64
	for p := len(c.Upd) - 1; p >= 0; p-- {
		u := c.Upd[p]
		d := uint64(u.Idx) + uint64(c.N+1)*uint64(u.TS-1)
		if u.Rev {
			d += uint64(3 * (c.N + 1))
		}
		code = code*a + d
	}
	x := code // < 24^6 < 2^28
	x = x<<3 | uint64(len(c.Upd))
	x = x<<5 | uint64(c.Base)
	x = x<<2 | uint64(c.N)
	x <<= 1
	if c.Kind == "relation" {
		x |= 1
	}
	x <<= 1
	if c.Ring {
		x |= 1
	}
	x = x<<2 | uint64(c.Scale)
	x = x<<1 | uint64(c.Pal)
	x = x<<2 | uint64(c.Far)
	x = x<<1 | uint64(c.BaseVar) // 46 bits in all
	// splitmix64 finaliser: a bijection on 64 bits
	x += 0x9e3779b97f4a7c15
	x = (x ^ (x >> 30)) * 0xbf58476d1ce4e5b9
	x = (x ^ (x >> 27)) * 0x94d049bb133111eb
	return x ^ (x >> 31)
}

// kid is the part of a child the property talks about.
type kid struct {
	Ver      int
	CS       int64
	Lat, Lon float64
	Orient   orb.Orientation
}

// valuesAt gives the payload of the update stored at list position p.
func valuesAt(c Case, p int) kid {
	if c.Pal == 1 {
		return boundaryValues[p]
	}
	k := kid{Ver: 2 + p, CS: int64(100 + p), Lat: 10.5 + float64(p), Lon: 20.25 + float64(p)}
	switch p % 4 {
	case 1:
		k.Lat, k.Lon = 0, 0 // a child moved to 0/0: still a location, it replaces the old one
	case 3:
		k.Lat = 0 // on the equator
	}
	return k
}

// boundaryValues is palette 1: what an update may legitimately carry at the
// edges. Position 3 repeats position 0 (two stored updates that are equal in
// every field when they also share index and timestamp).
var boundaryValues = [...]kid{
	{Ver: 2, CS: 0, Lat: 45.5, Lon: 0},                                // no changeset (the attribute is optional); on the prime meridian
	{Ver: maxInt, CS: 1<<63 - 1, Lat: 90, Lon: 180},                   // the largest values
	{Ver: 1 << 31, CS: 1 << 40, Lat: -90, Lon: -180},                  // beyond 32 bits; the smallest coordinates
	{Ver: 2, CS: 0, Lat: 45.5, Lon: 0},                                // = position 0
	{Ver: 1, CS: 1, Lat: 1e-7, Lon: -1e-7},                            // the version the child already has; the 7th decimal
	{Ver: 1<<31 - 1, CS: 1<<53 + 1, Lat: -12.3456789, Lon: 0.0000001}, // around the widths of int32 / float64
}

func memberKind(c Case, i int) int {
	b := c.Base
	for k := 0; k < i; k++ {
		b /= 3
	}
	return b % 3
}

func annotated(c Case, i int) bool { return c.Kind != "way" || c.Base>>uint(i)&1 == 1 }

func fullyAnnotated(c Case) bool {
	for i := 0; i < c.N; i++ {
		if !annotated(c, i) {
			return false
		}
	}
	return true
}

// baseKids is the state of the children before any update.
func baseKids(c Case) []kid {
	ks := make([]kid, c.N)
	for i := range ks {
		if !annotated(c, i) {
			continue // an unannotated way node: all zero
		}
		ks[i] = kid{Ver: 1, CS: int64(50 + i), Lat: float64(1 + i), Lon: -float64(1 + i)}
		if c.BaseVar == 1 {
			switch i {
			case 0: // annotated (it has a version) and located at 0/0
				ks[i] = kid{Ver: 1, CS: 50, Lat: 0, Lon: 0}
			case 1: // the largest values, no changeset
				ks[i] = kid{Ver: maxInt, CS: 0, Lat: 90, Lon: -180}
			}
		}
		if c.Kind == "relation" {
			switch memberKind(c, i) {
			case 1:
				ks[i].Orient = orb.CW
			case 2:
				ks[i].Orient = orb.CCW
			}
		}
	}
	return ks
}

func flip(o orb.Orientation) orb.Orientation {
	switch o {
	case orb.CW:
		return orb.CCW
	case orb.CCW:
		return orb.CW
	}
	return o
}

// idxSet: the indices of the out-of-range updates stamped at or before t.
type idxSet []int

func (s idxSet) has(i int) bool {
	for _, x := range s {
		if x == i {
			return true
		}
	}
	return false
}

// model: what ApplyUpdatesUpTo(t) must leave behind. Written as "for each
// child, the last stored update naming it and stamped at or before t" rather
// than as a sequential replay.
func model(c Case, t int, e *expectedT) {
	*e = expectedT{}
	e.Kids = append(e.kbuf[:0], baseKids(c)...)
	e.Pending = e.pbuf[:0]
	e.ErrIdx = idxSet(e.ibuf[:0])
	for i := range e.Kids {
		last := -1
		flips := 0
		for p, u := range c.Upd {
			if u.Idx != i || u.TS > t {
				continue
			}
			last = p
			if u.Rev {
				flips++
			}
		}
		if last < 0 {
			continue
		}
		v := valuesAt(c, last)
		o := e.Kids[i].Orient
		if flips%2 == 1 {
			o = flip(o)
		}
		v.Orient = o
		e.Kids[i] = v
	}
	for p, u := range c.Upd {
		if u.TS > t {
			e.Pending = append(e.Pending, pend{Idx: c.realIdx(u), TS: u.TS, Rev: u.Rev, Val: valuesAt(c, p)})
		} else if u.Idx >= c.N {
			e.ErrExpected = true
			e.ErrIdx = append(e.ErrIdx, c.realIdx(u))
		}
	}
}

type expectedT struct {
	kbuf        [maxKids]kid
	pbuf        [maxUpd]pend
	ibuf        [maxUpd]int
	Kids        []kid
	Pending     []pend
	ErrExpected bool
	ErrIdx      idxSet
}

// childOrdered: for every child, the updates naming it appear in the list in
// non-decreasing time order (the precondition of the composability clause).
func childOrdered(c Case) bool {
	for i := 0; i < c.N; i++ {
		prev := 0
		for _, u := range c.Upd {
			if u.Idx != i {
				continue
			}
			if u.TS < prev {
				return false
			}
			prev = u.TS
		}
	}
	return true
}

func allInRange(c Case) bool {
	for _, u := range c.Upd {
		if u.Idx < 0 || u.Idx >= c.N {
			return false
		}
	}
	return true
}

// hasLateBeforeInTimeAt: some update stamped after t is stored before one stamped at or before t.
func hasLateBeforeInTimeAt(c Case, t int) bool {
	late := false
	for _, u := range c.Upd {
		if u.TS > t {
			late = true
		} else if late {
			return true
		}
	}
	return false
}

func hasLateBeforeInTime(c Case) bool {
	for t := 0; t <= maxT; t++ {
		if hasLateBeforeInTimeAt(c, t) {
			return true
		}
	}
	return false
}

func sameChildTwice(c Case) bool {
	seen := uint(0)
	for _, u := range c.Upd {
		if seen>>uint(u.Idx)&1 == 1 {
			return true
		}
		seen |= 1 << uint(u.Idx)
	}
	return false
}

// nonTrivial: at least two updates with at least two distinct timestamps, so
// that some t splits the list into an applied and a pending part.
func nonTrivial(c Case) bool {
	if len(c.Upd) < 2 {
		return false
	}
	for _, u := range c.Upd[1:] {
		if u.TS != c.Upd[0].TS {
			return true
		}
	}
	return false
}

// modelLine: geometry at time t of a way (annotated nodes only).
func modelLine(c Case, t int) orb.LineString {
	var e expectedT
	model(c, t, &e)
	ls := orb.LineString{}
	for i, k := range e.Kids {
		if !annotated(c, i) {
			continue
		}
		ls = append(ls, orb.Point{k.Lon, k.Lat})
	}
	return ls
}

// modelBreakAtFirstLate is NOT part of the oracle. It only names a failure:
// the geometry produced by a scan that stops at the first update stamped
// after t instead of skipping it.
func modelBreakAtFirstLate(c Case, t int) orb.LineString {
	cut := c
	for p, u := range c.Upd {
		if u.TS > t {
			cut.Upd = c.Upd[:p]
			break
		}
	}
	return modelLine(cut, t)
}
