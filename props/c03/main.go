// Check C03: OSM XML decoding is faithful; streaming scan equals
// whole-document decode.
//
// Documents are written by the independent template writer gen/xmlgen from an
// abstract model that also yields the expected Go values (assembled from the
// same constants, never by decoding). Oracles per document:
//
//	decode         xml.Unmarshal into osm.OSM / osm.Change / osm.Diff equals the model
//	scan           osmxml.Scanner yields, in document order, objects equal to the
//	               model's document-order object list
//	scan-vs-whole  for <osm> documents: the scanned objects grouped by kind equal
//	               the whole-document decode of the same text
package main

import (
	"bytes"
	"context"
	"encoding/xml"
	"fmt"
	"io"
	"strconv"
	"strings"

	"github.com/paulmach/osm"
	"github.com/paulmach/osm/osmxml"

	"verif/gen/osmeq"
	"verif/gen/xmlgen"
	"verif/kit"
)

// Case identifies one enumerated document: family + index in the family's
// mixed-radix space. Everything is deterministic, so -replay rebuilds it.
type Case struct {
	Family string `json:"family"`
	Index  int    `json:"index"`
	Tier   string `json:"tier"` // the family spaces differ between the tiers
}

// doc is one generated document with its expectations.
type doc struct {
	kind  string // "osm", "osmChange", "diff"
	root  *xmlgen.Elem
	want  interface{} // *osm.OSM, *osm.Change or *osm.Diff
	order []osm.Object
	style xmlgen.Style
	// caseVariant marks documents of the element-name-case family: the
	// model says the odd-case elements are unknown elements (XML names are
	// case sensitive), reported under their own key.
	caseVariant bool
	desc        string
	// before: texts that are decoded and scanned (results discarded, errors
	// expected for damaged ones) before the document itself: nothing decoded
	// earlier may show in a later document.
	before []string
}

type family struct {
	name string
	n    int
	gen  func(i int) doc
}

func radix(i int, dims ...int) []int {
	out := make([]int, len(dims))
	for k := len(dims) - 1; k >= 0; k-- {
		out[k] = i % dims[k]
		i /= dims[k]
	}
	return out
}

func prod(dims ...int) int {
	p := 1
	for _, d := range dims {
		p *= d
	}
	return p
}

var (
	ndChoices  = [][]uint{nil, {1}, {1, 1, 1}, {31, 0b01101, 0b10010}}
	updChoices = [][]uint{nil, {127}, {127, 0b0000111, 0b1011011}}
	memChoices = [][]xmlgen.MemberCfg{
		nil,
		{{Attrs: 7, Type: 0}},
		{{Attrs: 7, Type: 0}, {Attrs: 7, Type: 1}, {Attrs: 7, Type: 2}},
		{{Attrs: 255, Type: 0, Orient: 0}, {Attrs: 255, Type: 1, Orient: 1, Nds: []uint{0b11001, 0b11001}}, {Attrs: 0b10000101, Type: 2, Orient: 0}},
	}
	// the eight layout styles
	styles8 = func() []xmlgen.Style {
		var out []xmlgen.Style
		for l := 0; l < xmlgen.NumLayouts; l++ {
			for _, sc := range []bool{false, true} {
				out = append(out, xmlgen.Style{Layout: l, SelfClose: sc})
			}
		}
		return out
	}()
)

func obj(kind int, e *xmlgen.Elem, v osm.Object) xmlgen.Obj {
	return xmlgen.Obj{Kind: kind, Elem: e, Val: v}
}

// single wraps the object under test, followed by a small neighbour of the
// same kind (so that nothing leaks from one element into the next), into an
// <osm> document.
func single(b *xmlgen.B, o xmlgen.Obj, st xmlgen.Style) doc {
	objs := []xmlgen.Obj{o}
	if o.Kind != xmlgen.KindBounds {
		objs = append(objs, b.Small(o.Kind))
	}
	d := b.OSMDocOf(0, objs)
	return doc{kind: "osm", root: d.Root, want: d.Want, order: d.Order, style: st}
}

func families(quick bool) []family {
	var fs []family
	add := func(name string, dims []int, gen func(d []int, idx int) doc) {
		fs = append(fs, family{name, prod(dims...), func(i int) doc { return gen(radix(i, dims...), i) }})
	}
	ns, na := len(styles8), xmlgen.NumArrangements
	if quick {
		ns, na = 1, 1
	}

	// ---------------------------------------------------------- presence lattices
	add("bounds", []int{16, len(styles8)}, func(d []int, _ int) doc {
		b := xmlgen.NewB(1)
		e, v := b.Bounds(uint(d[0]))
		return single(b, obj(xmlgen.KindBounds, e, v), styles8[d[1]])
	})
	add("node", []int{1 << xmlgen.NumNodeAttrs, 2, ns}, func(d []int, _ int) doc {
		b := xmlgen.NewB(d[0])
		e, v := b.Node(xmlgen.NodeCfg{Attrs: uint(d[0]), Tags: 2 * d[1]})
		return single(b, obj(xmlgen.KindNode, e, v), styles8[d[2]])
	})
	add("way", []int{1 << xmlgen.NumWayAttrs, 4, 2, 3, 2, ns, na}, func(d []int, _ int) doc {
		b := xmlgen.NewB(d[0])
		e, v := b.Way(xmlgen.WayCfg{Attrs: uint(d[0]), Nds: ndChoices[d[1]], Tags: d[2], Updates: updChoices[d[3]], Bounds: d[4] * 16, Arrange: d[6]})
		return single(b, obj(xmlgen.KindWay, e, v), styles8[d[5]])
	})
	add("way-nd", []int{32, 32, ns}, func(d []int, _ int) doc {
		b := xmlgen.NewB(3)
		e, v := b.Way(xmlgen.WayCfg{Attrs: 1, Nds: []uint{uint(d[0]), uint(d[1])}})
		return single(b, obj(xmlgen.KindWay, e, v), styles8[d[2]])
	})
	pair := func(d []int) []uint {
		if quick {
			if d[1] == 0 {
				return []uint{uint(d[0]), 127}
			}
			return []uint{127, uint(d[0])}
		}
		return []uint{uint(d[0]), uint(d[1])}
	}
	pairDims := []int{128, 128}
	if quick {
		pairDims = []int{128, 2}
	}
	add("way-update", pairDims, func(d []int, _ int) doc {
		b := xmlgen.NewB(5)
		e, v := b.Way(xmlgen.WayCfg{Attrs: 1, Nds: []uint{1, 1}, Updates: pair(d)})
		return single(b, obj(xmlgen.KindWay, e, v), styles8[0])
	})
	add("relation", []int{1 << xmlgen.NumWayAttrs, 4, 2, 3, 2, ns, na}, func(d []int, _ int) doc {
		b := xmlgen.NewB(d[0])
		e, v := b.Relation(xmlgen.RelationCfg{Attrs: uint(d[0]), Members: memChoices[d[1]], Tags: d[2], Updates: updChoices[d[3]], Bounds: d[4] * 16, Arrange: d[6]})
		return single(b, obj(xmlgen.KindRelation, e, v), styles8[d[5]])
	})
	add("relation-member", []int{1 << xmlgen.NumMemberAttrs, 3, 2, 2, ns}, func(d []int, _ int) doc {
		m := xmlgen.MemberCfg{Attrs: uint(d[0]), Type: d[1], Orient: d[2]}
		if d[3] == 1 {
			m.Nds = []uint{1, 0b11001}
		}
		b := xmlgen.NewB(7)
		e, v := b.Relation(xmlgen.RelationCfg{Attrs: 1, Members: []xmlgen.MemberCfg{m, {Attrs: 255, Type: 1, Orient: 1 - d[2]}}})
		return single(b, obj(xmlgen.KindRelation, e, v), styles8[d[4]])
	})
	add("changeset", []int{1 << xmlgen.NumChangesetAttrs, 4, ns}, func(d []int, _ int) doc {
		cfg := xmlgen.ChangesetCfg{Attrs: uint(d[0]), Tags: 1}
		switch d[1] {
		case 1:
			cfg.Discussion = 1
		case 2:
			cfg.Discussion, cfg.Comments = 1, []uint{15}
		case 3:
			cfg.Discussion, cfg.Comments = 1, []uint{15, 15}
		}
		b := xmlgen.NewB(d[0])
		e, v := b.Changeset(cfg)
		return single(b, obj(xmlgen.KindChangeset, e, v), styles8[d[2]])
	})
	add("changeset-comment", []int{16, 16, len(styles8)}, func(d []int, _ int) doc {
		b := xmlgen.NewB(9)
		e, v := b.Changeset(xmlgen.ChangesetCfg{Attrs: 1, Discussion: 1, Comments: []uint{uint(d[0]), uint(d[1])}})
		return single(b, obj(xmlgen.KindChangeset, e, v), styles8[d[2]])
	})
	add("note", []int{1 << xmlgen.NumNoteParts, 3, ns}, func(d []int, _ int) doc {
		cfg := xmlgen.NoteCfg{Parts: uint(d[0])}
		switch d[1] {
		case 1:
			cfg.HasComments = true
		case 2:
			cfg.HasComments, cfg.Comments = true, []uint{127, 127}
		}
		b := xmlgen.NewB(d[0])
		e, v := b.Note(cfg)
		return single(b, obj(xmlgen.KindNote, e, v), styles8[d[2]])
	})
	add("note-comment", pairDims, func(d []int, _ int) doc {
		b := xmlgen.NewB(11)
		e, v := b.Note(xmlgen.NoteCfg{Parts: 4, HasComments: true, Comments: pair(d)})
		return single(b, obj(xmlgen.KindNote, e, v), styles8[0])
	})
	add("user", []int{1 << xmlgen.NumUserParts, ns}, func(d []int, _ int) doc {
		cfg := xmlgen.FullUser()
		cfg.Parts = uint(d[0])
		b := xmlgen.NewB(d[0])
		e, v := b.User(cfg)
		return single(b, obj(xmlgen.KindUser, e, v), styles8[d[1]])
	})
	if quick {
		add("user-nested", []int{2 + 4 + 8 + 3 + 8 + 32, len(styles8)}, func(d []int, _ int) doc {
			cfg := xmlgen.FullUser()
			i := d[0]
			switch {
			case i < 2:
				cfg.Img = uint(i)
			case i < 6:
				cfg.Counts = uint(i - 2)
			case i < 14:
				cfg.Home = uint(i - 6)
			case i < 17:
				cfg.Langs = i - 14
			case i < 25:
				cfg.Blocks = uint(i - 17)
			default:
				cfg.Msgs = uint(i - 25)
			}
			b := xmlgen.NewB(13)
			e, v := b.User(cfg)
			return single(b, obj(xmlgen.KindUser, e, v), styles8[d[1]])
		})
	} else {
		add("user-nested", []int{2, 4, 8, 3, 8, 32}, func(d []int, _ int) doc {
			cfg := xmlgen.FullUser()
			cfg.Img, cfg.Counts, cfg.Home, cfg.Langs, cfg.Blocks, cfg.Msgs = uint(d[0]), uint(d[1]), uint(d[2]), d[3], uint(d[4]), uint(d[5])
			b := xmlgen.NewB(13)
			e, v := b.User(cfg)
			return single(b, obj(xmlgen.KindUser, e, v), styles8[0])
		})
	}

	// ---------------------------------------------------------- child arrangements (interleaved nd/tag/update/bounds ...)
	add("arrange", []int{xmlgen.NumKinds - 1, xmlgen.NumArrangements, len(styles8)}, func(d []int, _ int) doc {
		b := xmlgen.NewB(17)
		var o xmlgen.Obj
		switch kind := d[0] + 1; kind {
		case xmlgen.KindNode:
			o = b.Full(kind)
		case xmlgen.KindWay:
			c := xmlgen.FullWay()
			c.Arrange = d[1]
			e, v := b.Way(c)
			o = obj(kind, e, v)
		case xmlgen.KindRelation:
			c := xmlgen.FullRelation()
			c.Arrange = d[1]
			e, v := b.Relation(c)
			o = obj(kind, e, v)
		case xmlgen.KindChangeset:
			c := xmlgen.FullChangeset()
			c.Arrange = d[1]
			e, v := b.Changeset(c)
			o = obj(kind, e, v)
		case xmlgen.KindNote:
			c := xmlgen.FullNote()
			c.Arrange = d[1]
			e, v := b.Note(c)
			o = obj(kind, e, v)
		case xmlgen.KindUser:
			c := xmlgen.FullUser()
			c.Arrange = d[1]
			e, v := b.User(c)
			o = obj(kind, e, v)
		}
		return single(b, o, styles8[d[2]])
	})

	// ---------------------------------------------------------- text classes in every string position
	textLayouts := []int{xmlgen.LayoutCompact, xmlgen.LayoutComments}
	if !quick {
		textLayouts = []int{0, 1, 2, 3}
	}
	for kind := xmlgen.KindNode; kind < xmlgen.NumKinds; kind++ {
		kind := kind
		probe := xmlgen.NewB(1)
		probe.Full(kind)
		npos := probe.Positions()
		add("text-"+xmlgen.KindNames[kind], []int{npos, xmlgen.NumTextClasses, xmlgen.NumEntityStyles, 2, len(textLayouts)}, func(d []int, _ int) doc {
			b := xmlgen.NewB(1)
			b.TextPos, b.TextClass = d[0], d[1]
			o := b.Full(kind)
			dd := single(b, o, xmlgen.Style{Layout: textLayouts[d[4]], Entity: d[2], Single: d[3] == 1})
			dd.desc = fmt.Sprintf("string position %d class %d", d[0], d[1])
			return dd
		})
	}
	add("text-root", []int{xmlgen.NumRootAttrs + 2, xmlgen.NumTextClasses, xmlgen.NumEntityStyles, 2, 3}, func(d []int, _ int) doc {
		b := xmlgen.NewB(1)
		b.TextPos, b.TextClass = d[0], d[1]
		st := xmlgen.Style{Entity: d[2], Single: d[3] == 1}
		switch d[4] {
		case 0:
			x := b.OSMDocOf(31, []xmlgen.Obj{b.Small(xmlgen.KindNode)})
			return doc{kind: "osm", root: x.Root, want: x.Want, order: x.Order, style: st}
		case 1:
			x := b.ChangeDocOf(31, []xmlgen.Block{{Action: "modify", Objs: []xmlgen.Obj{b.Small(xmlgen.KindNode)}}})
			return doc{kind: "osmChange", root: x.Root, want: x.Want, order: x.Order, style: st}
		}
		// diff: the only string position is the action type (position 0)
		n := b.Small(xmlgen.KindNode)
		x := b.DiffDocOf([]xmlgen.ActionCfg{{Type: "create", Direct: &n}}, nil)
		return doc{kind: "diff", root: x.Root, want: x.Want, order: x.Order, style: st}
	})

	// ---------------------------------------------------------- layouts x quoting x attribute orders on complete objects
	for kind := 0; kind < xmlgen.NumKinds; kind++ {
		kind := kind
		pb := xmlgen.NewB(19)
		po := pb.Full(kind)
		norders := xmlgen.MaxOrders(single(pb, po, xmlgen.Style{}).root)
		add("style-"+xmlgen.KindNames[kind], []int{norders, xmlgen.NumLayouts, 2, 2, xmlgen.NumEntityStyles}, func(d []int, _ int) doc {
			b := xmlgen.NewB(19)
			o := b.Full(kind)
			return single(b, o, xmlgen.Style{Order: d[0], Layout: d[1], SelfClose: d[2] == 1, Single: d[3] == 1, Entity: d[4]})
		})
	}

	// ---------------------------------------------------------- unknown attributes / elements at every position
	type base struct {
		name string
		mk   func() doc
	}
	var bases []base
	for kind := 0; kind < xmlgen.NumKinds; kind++ {
		kind := kind
		bases = append(bases, base{xmlgen.KindNames[kind], func() doc {
			b := xmlgen.NewB(23)
			x := b.OSMDocOf(31, []xmlgen.Obj{b.Full(kind)})
			return doc{kind: "osm", root: x.Root, want: x.Want, order: x.Order}
		}})
	}
	bases = append(bases, base{"osmChange", func() doc {
		b := xmlgen.NewB(29)
		x := b.ChangeDocOf(31, []xmlgen.Block{
			{Action: "create", Objs: []xmlgen.Obj{b.Small(xmlgen.KindNode), b.Small(xmlgen.KindWay)}},
			{Action: "modify", Objs: []xmlgen.Obj{b.Small(xmlgen.KindRelation)}},
			{Action: "delete", Objs: nil},
			{Action: "create", Objs: []xmlgen.Obj{b.Small(xmlgen.KindNode)}},
		})
		return doc{kind: "osmChange", root: x.Root, want: x.Want, order: x.Order}
	}})
	bases = append(bases, base{"diff", func() doc {
		b := xmlgen.NewB(31)
		n1, n2, n3 := b.Small(xmlgen.KindNode), b.Small(xmlgen.KindWay), b.Small(xmlgen.KindWay)
		x := b.DiffDocOf([]xmlgen.ActionCfg{
			{Type: "create", Direct: &n1},
			{Type: "modify", HasOld: true, Old: []xmlgen.Obj{n2}, HasNew: true, New: []xmlgen.Obj{n3}},
			{Type: "delete", HasOld: true, Old: []xmlgen.Obj{b.Small(xmlgen.KindRelation)}, HasNew: true, New: []xmlgen.Obj{b.Small(xmlgen.KindRelation)}},
		}, []xmlgen.Obj{b.Small(xmlgen.KindChangeset)})
		return doc{kind: "diff", root: x.Root, want: x.Want, order: x.Order}
	}})
	for _, bs := range bases {
		bs := bs
		as, ks := xmlgen.UnknownSlots(bs.mk().root)
		add("unknown-attr-"+bs.name, []int{as, len(styles8), 2}, func(d []int, _ int) doc {
			x := bs.mk()
			x.root = xmlgen.WithUnknownAttr(x.root, d[0])
			x.style = styles8[d[1]]
			x.style.Order = d[2] * 3
			return x
		})
		add("unknown-elem-"+bs.name, []int{ks, len(styles8)}, func(d []int, _ int) doc {
			x := bs.mk()
			x.root = xmlgen.WithUnknownKid(x.root, d[0])
			x.style = styles8[d[1]]
			return x
		})
	}

	// ---------------------------------------------------------- <osm> documents over every subset of the kinds
	osmStyles := []xmlgen.Style{{}, {Layout: xmlgen.LayoutIndent, SelfClose: true}}
	if !quick {
		osmStyles = styles8
	}
	add("osm-subsets", []int{1 << xmlgen.NumKinds, 1 << xmlgen.NumRootAttrs, 3, len(osmStyles)}, func(d []int, _ int) doc {
		b := xmlgen.NewB(d[0])
		var objs []xmlgen.Obj
		kinds := []int{}
		for k := 0; k < xmlgen.NumKinds; k++ {
			if d[0]&(1<<uint(k)) != 0 {
				kinds = append(kinds, k)
			}
		}
		switch d[2] {
		case 0: // canonical order, one of each
			for _, k := range kinds {
				objs = append(objs, b.Small(k))
			}
		case 1: // reversed order (bounds last), one of each
			for i := len(kinds) - 1; i >= 0; i-- {
				objs = append(objs, b.Small(kinds[i]))
			}
		case 2: // two of each, interleaved: k1 k2 k3 ... k1 k2 k3 (a single bounds)
			for rep := 0; rep < 2; rep++ {
				for _, k := range kinds {
					if k == xmlgen.KindBounds && rep == 1 {
						continue
					}
					objs = append(objs, b.Small(k))
				}
			}
		}
		x := b.OSMDocOf(uint(d[1]), objs)
		return doc{kind: "osm", root: x.Root, want: x.Want, order: x.Order, style: osmStyles[d[3]]}
	})
	add("osm-full", []int{1 << xmlgen.NumKinds, len(styles8)}, func(d []int, _ int) doc {
		b := xmlgen.NewB(d[0])
		var objs []xmlgen.Obj
		for k := 0; k < xmlgen.NumKinds; k++ {
			if d[0]&(1<<uint(k)) != 0 {
				objs = append(objs, b.Full(k))
			}
		}
		x := b.OSMDocOf(31, objs)
		return doc{kind: "osm", root: x.Root, want: x.Want, order: x.Order, style: styles8[d[1]]}
	})

	// ---------------------------------------------------------- osmChange: every sequence of <= 4 blocks, 0-2 elements each
	type seq struct {
		acts   []int
		counts []int
	}
	var seqs []seq
	for l := 0; l <= 4; l++ {
		na, nc := prod(rep(3, l)...), prod(rep(3, l)...)
		for a := 0; a < na; a++ {
			for c := 0; c < nc; c++ {
				seqs = append(seqs, seq{radix(a, rep(3, l)...), radix(c, rep(3, l)...)})
			}
		}
	}
	chStyles := []xmlgen.Style{{}}
	if !quick {
		chStyles = styles8
	}
	add("change-seq", []int{len(seqs), len(chStyles)}, func(d []int, _ int) doc {
		s := seqs[d[0]]
		b := xmlgen.NewB(d[0])
		var blocks []xmlgen.Block
		k := 0
		for i, a := range s.acts {
			var objs []xmlgen.Obj
			for j := 0; j < s.counts[i]; j++ {
				objs = append(objs, b.Small(xmlgen.KindNode+k%3))
				k++
			}
			blocks = append(blocks, xmlgen.Block{Action: actNames[a], Objs: objs})
		}
		x := b.ChangeDocOf(uint(d[0]%32), blocks)
		return doc{kind: "osmChange", root: x.Root, want: x.Want, order: x.Order, style: chStyles[d[1]]}
	})
	// blocks that also carry bounds / all kinds, alone and repeated
	add("change-block-kinds", []int{3, 1 << xmlgen.NumKinds, 2, 2}, func(d []int, _ int) doc {
		b := xmlgen.NewB(d[1])
		var objs []xmlgen.Obj
		for k := 0; k < xmlgen.NumKinds; k++ {
			if d[1]&(1<<uint(k)) != 0 {
				objs = append(objs, b.Small(k))
			}
		}
		blocks := []xmlgen.Block{{Action: actNames[d[0]], Objs: objs}}
		if d[2] == 1 { // the same action again later, after another one
			blocks = append(blocks, xmlgen.Block{Action: actNames[(d[0]+1)%3], Objs: []xmlgen.Obj{b.Small(xmlgen.KindNode)}},
				xmlgen.Block{Action: actNames[d[0]], Objs: []xmlgen.Obj{b.Small(xmlgen.KindWay), b.Small(xmlgen.KindNode)}})
		}
		x := b.ChangeDocOf(31, blocks)
		return doc{kind: "osmChange", root: x.Root, want: x.Want, order: x.Order, style: styles8[d[3]*3]}
	})

	// ---------------------------------------------------------- augmented diffs
	sideChoices := 6
	mkSide := func(b *xmlgen.B, ch int) ([]xmlgen.Obj, bool) {
		switch ch {
		case 0:
			return nil, false
		case 1:
			return nil, true
		case 2, 3, 4:
			return []xmlgen.Obj{b.Small(xmlgen.KindNode + ch - 2)}, true
		}
		return []xmlgen.Obj{b.Small(xmlgen.KindNode), b.Full(xmlgen.KindWay), b.Full(xmlgen.KindRelation)}, true
	}
	mkAction := func(b *xmlgen.B, typ, direct, old, nw int, newFirst bool) xmlgen.ActionCfg {
		a := xmlgen.ActionCfg{NewFirst: newFirst}
		if typ < 3 {
			a.Type = actNames[typ]
		} else {
			a.NoType = true
		}
		if direct > 0 {
			o := b.Small(xmlgen.KindNode + direct - 1)
			a.Direct = &o
		}
		a.Old, a.HasOld = mkSide(b, old)
		a.New, a.HasNew = mkSide(b, nw)
		return a
	}
	dStyles := []xmlgen.Style{{}, {Layout: xmlgen.LayoutComments, SelfClose: true}}
	if !quick {
		dStyles = styles8
	}
	add("diff", []int{4, 4, sideChoices, sideChoices, 2, 2, len(dStyles)}, func(d []int, idx int) doc {
		b := xmlgen.NewB(idx % 1000)
		acts := []xmlgen.ActionCfg{mkAction(b, d[0], d[1], d[2], d[3], d[4] == 1)}
		var cs []xmlgen.Obj
		if d[5] == 1 {
			cs = append(cs, b.Small(xmlgen.KindChangeset))
		}
		x := b.DiffDocOf(acts, cs)
		return doc{kind: "diff", root: x.Root, want: x.Want, order: x.Order, style: dStyles[d[6]]}
	})
	neighbours := [][4]int{{0, 1, 0, 0}, {1, 0, 2, 2}, {2, 0, 3, 0}, {1, 0, 0, 4}}
	add("diff-pair", []int{3, 4, sideChoices, sideChoices, len(neighbours), 2}, func(d []int, idx int) doc {
		b := xmlgen.NewB(idx % 1000)
		n := neighbours[d[4]]
		a1 := mkAction(b, d[0], d[1], d[2], d[3], false)
		a2 := mkAction(b, n[0], n[1], n[2], n[3], false)
		acts := []xmlgen.ActionCfg{a1, a2}
		if d[5] == 1 {
			acts = []xmlgen.ActionCfg{a2, a1}
		}
		x := b.DiffDocOf(acts, nil)
		return doc{kind: "diff", root: x.Root, want: x.Want, order: x.Order, style: xmlgen.Style{Layout: xmlgen.LayoutIndent}}
	})

	// ---------------------------------------------------------- timestamp spellings
	add("time-forms", []int{xmlgen.NumKinds - 1, 3, 2, 2}, func(d []int, _ int) doc {
		b := xmlgen.NewB(37)
		b.ZoneForm, b.Nanos = d[1], d[2] == 1
		o := b.Full(d[0] + 1)
		return single(b, o, styles8[d[3]])
	})

	// ---------------------------------------------------------- boundary ids in every id-carrying place
	// ids: placeholder -1, int32 limits, 2^40 and beyond (their bits reach the
	// type bits of packed object ids); kinds node/way/relation; the id lands in
	// the element id, in nd/member refs, in changeset ids or in all of them;
	// placements: <osm>, each osmChange block, a bare element in each diff
	// action type, <old>+<new> of each diff action type.
	wheres := []uint{xmlgen.IDAtElem, xmlgen.IDAtNdRef | xmlgen.IDAtMemberRef, xmlgen.IDAtChangeset, xmlgen.IDAtAll}
	add("id-range", []int{len(xmlgen.IDRange), 3, 10, len(wheres), 2}, func(d []int, _ int) doc {
		return idRangeDoc(xmlgen.IDRange[d[0]], xmlgen.KindNode+d[1], d[2], wheres[d[3]], styles8[d[4]*3])
	})

	// ---------------------------------------------------------- spellings of numbers and booleans
	numForms := []string{"0", "-0.0", "90", "1e-7", "51.50740000", ".5", "-180.0000000", "007.25"}
	boolForms := []string{"true", "false"}
	add("value-forms", []int{len(numForms), len(numForms), len(boolForms), 2}, func(d []int, _ int) doc {
		b := xmlgen.NewB(43)
		e, v := b.Node(xmlgen.NodeCfg{Attrs: xmlgen.All(xmlgen.NumNodeAttrs), Tags: 1})
		set := func(name, val string) {
			for i := range e.Attrs {
				if e.Attrs[i].Name == name {
					e.Attrs[i].Val = val
				}
			}
		}
		set("lat", numForms[d[0]])
		set("lon", numForms[d[1]])
		set("visible", boolForms[d[2]])
		v.Lat, _ = strconv.ParseFloat(numForms[d[0]], 64)
		v.Lon, _ = strconv.ParseFloat(numForms[d[1]], 64)
		v.Visible = boolForms[d[2]] == "true"
		return single(b, obj(xmlgen.KindNode, e, v), styles8[d[3]*5])
	})

	// ---------------------------------------------------------- element names differing only in case are unknown elements
	add("name-case", []int{xmlgen.NumKinds, 2, 3}, func(d []int, _ int) doc {
		b := xmlgen.NewB(41)
		o := b.Small(d[0])
		if d[0] == xmlgen.KindNote {
			// the alphabet's rule for unknown elements: no descendant uses an
			// OSM object element name (a note comment's <user> would)
			e, v := b.Note(xmlgen.NoteCfg{Parts: 0b1010000111})
			o = obj(xmlgen.KindNote, e, v)
		}
		odd := o.Elem.Clone()
		if d[1] == 0 {
			odd.Name = strings.ToUpper(odd.Name[:1]) + odd.Name[1:]
		} else {
			odd.Name = strings.ToUpper(odd.Name)
		}
		odd.Unknown = true
		var x doc
		switch d[2] {
		case 0:
			m := b.OSMDocOf(1, []xmlgen.Obj{b.Small(xmlgen.KindNode)})
			m.Root.Kids = append([]*xmlgen.Elem{odd}, m.Root.Kids...)
			x = doc{kind: "osm", root: m.Root, want: m.Want, order: m.Order}
		case 1:
			m := b.ChangeDocOf(1, []xmlgen.Block{{Action: "create", Objs: []xmlgen.Obj{b.Small(xmlgen.KindNode)}}})
			m.Root.Kids[0].Kids = append(m.Root.Kids[0].Kids, odd)
			x = doc{kind: "osmChange", root: m.Root, want: m.Want, order: m.Order}
		default:
			n := b.Small(xmlgen.KindNode)
			m := b.DiffDocOf([]xmlgen.ActionCfg{{Type: "modify", HasOld: true, Old: []xmlgen.Obj{n}, HasNew: true, New: []xmlgen.Obj{b.Small(xmlgen.KindNode)}}}, nil)
			m.Root.Kids[0].Kids[0].Kids = append(m.Root.Kids[0].Kids[0].Kids, odd)
			x = doc{kind: "diff", root: m.Root, want: m.Want, order: m.Order}
		}
		x.caseVariant = true
		x.desc = "unknown element <" + odd.Name + ">"
		return x
	})

	// ---------------------------------------------------------- boundary values in every numeric / boolean / time position
	// Every integer, decimal, timestamp, note date and boolean position of a
	// complete object gets, one position at a time, every boundary class of its
	// type (xmlgen.IntClasses, FloatClasses, TimeClasses, NoteDateClasses,
	// BoolClasses), and then all positions at once (an element whose numbers are
	// all 0, all 2^63-1, ...). Not in the alphabet, because the property's text
	// does not decide them: numbers padded with white space, booleans spelled
	// 1/0, NaN/Inf, lower-case t/z in timestamps, note dates in other zones.
	valStyles := []xmlgen.Style{{}, {Layout: xmlgen.LayoutProlog, Order: 1, Single: true}}
	for kind := 0; kind < xmlgen.NumKinds; kind++ {
		kind := kind
		probe := xmlgen.NewB(53)
		probe.Full(kind)
		types := probe.NumTypes()
		type pc struct{ pos, class int }
		var pcs []pc
		for p, t := range types {
			for c := 0; c < xmlgen.NumClassCount(t); c++ {
				pcs = append(pcs, pc{p + 1, c})
			}
		}
		for c := 0; c < len(xmlgen.IntClasses); c++ {
			pcs = append(pcs, pc{xmlgen.NumAll, c})
		}
		add("value-"+xmlgen.KindNames[kind], []int{len(pcs), len(valStyles)}, func(d []int, _ int) doc {
			b := xmlgen.NewB(53)
			b.NumPos, b.NumClass = pcs[d[0]].pos, pcs[d[0]].class
			o := b.Full(kind)
			dd := single(b, o, valStyles[d[1]])
			dd.desc = fmt.Sprintf("value position %d class %d", b.NumPos, b.NumClass)
			return dd
		})
	}

	// ---------------------------------------------------------- more text classes and reference spellings in every string position
	// (class, entity style) pairs outside the product of the text-* families:
	// white space only, ~4.6 KB, edge code points, "0"; references with leading
	// zeros and lower-case hexadecimal digits.
	type ce struct{ class, entity int }
	var ces []ce
	for c := 0; c < xmlgen.NumTextClassesExt; c++ {
		for e := 0; e < xmlgen.NumEntityStylesExt; e++ {
			if quick && c == xmlgen.TextLong && (e == xmlgen.EntDec || e == xmlgen.EntHex) {
				continue // quick: the long text with named, CDATA and padded references only
			}
			if c >= xmlgen.NumTextClasses || e >= xmlgen.NumEntityStyles {
				ces = append(ces, ce{c, e})
			}
		}
	}
	textxLayouts := textLayouts
	if quick {
		textxLayouts = []int{xmlgen.LayoutCompact}
	}
	for kind := xmlgen.KindNode; kind < xmlgen.NumKinds; kind++ {
		kind := kind
		probe := xmlgen.NewB(1)
		probe.Full(kind)
		npos := probe.Positions()
		add("textx-"+xmlgen.KindNames[kind], []int{npos, len(ces), 2, len(textxLayouts)}, func(d []int, _ int) doc {
			b := xmlgen.NewB(1)
			b.TextPos, b.TextClass = d[0], ces[d[1]].class
			o := b.Full(kind)
			dd := single(b, o, xmlgen.Style{Layout: textxLayouts[d[3]], Entity: ces[d[1]].entity, Single: d[2] == 1})
			dd.desc = fmt.Sprintf("string position %d class %d", d[0], ces[d[1]].class)
			return dd
		})
	}
	add("textx-root", []int{xmlgen.NumRootAttrs + 2, len(ces), 2, 3}, func(d []int, _ int) doc {
		b := xmlgen.NewB(1)
		b.TextPos, b.TextClass = d[0], ces[d[1]].class
		st := xmlgen.Style{Entity: ces[d[1]].entity, Single: d[2] == 1}
		switch d[3] {
		case 0:
			x := b.OSMDocOf(31, []xmlgen.Obj{b.Small(xmlgen.KindNode)})
			return doc{kind: "osm", root: x.Root, want: x.Want, order: x.Order, style: st}
		case 1:
			x := b.ChangeDocOf(31, []xmlgen.Block{{Action: "modify", Objs: []xmlgen.Obj{b.Small(xmlgen.KindNode)}}})
			return doc{kind: "osmChange", root: x.Root, want: x.Want, order: x.Order, style: st}
		}
		n := b.Small(xmlgen.KindNode)
		x := b.DiffDocOf([]xmlgen.ActionCfg{{Type: "create", Direct: &n}}, nil)
		return doc{kind: "diff", root: x.Root, want: x.Want, order: x.Order, style: st}
	})

	// ---------------------------------------------------------- more layouts: DOCTYPE, byte order mark, namespace declarations
	for _, bs := range bases {
		bs := bs
		add("layoutx-"+bs.name, []int{xmlgen.NumLayoutsExt - xmlgen.NumLayouts, 2, xmlgen.NumEntityStylesExt, 2}, func(d []int, _ int) doc {
			x := bs.mk()
			x.style = xmlgen.Style{Layout: xmlgen.NumLayouts + d[0], SelfClose: d[1] == 1, Entity: d[2], Single: d[3] == 1, Order: d[2]}
			return x
		})
	}

	// ---------------------------------------------------------- unknown attributes / elements with names close to known ones, at every position
	for _, bs := range bases {
		bs := bs
		as, ks := xmlgen.UnknownSlots(bs.mk().root)
		add("unknown-attrx-"+bs.name, []int{as, len(xmlgen.UnknownAttrsExt)}, func(d []int, _ int) doc {
			x := bs.mk()
			x.root = xmlgen.WithUnknownAttrOf(x.root, d[0], xmlgen.UnknownAttrsExt[d[1]])
			x.style = styles8[(d[0]+d[1])%len(styles8)]
			x.style.Order = d[0] % 4
			x.desc = "unknown attribute " + xmlgen.UnknownAttrsExt[d[1]].Name
			return x
		})
		add("unknown-elemx-"+bs.name, []int{ks, xmlgen.NumUnknownKidsExt, 2}, func(d []int, _ int) doc {
			x := bs.mk()
			u := xmlgen.UnknownKidExt(d[1])
			x.root = xmlgen.WithUnknownKidOf(x.root, d[0], u)
			x.style = styles8[d[2]*3]
			x.desc = "unknown element <" + u.Name + ">"
			return x
		})
	}

	// ---------------------------------------------------------- more boundary ids and one more place (uid)
	// (id, place) pairs outside the product of the id-range family: zero, the
	// units, 127/128, 2^31-1, 2^32, 2^40-1, -2^40, 2^53, 2^53+1, the int64 limits
	// in the four places, and every id in the uid attributes.
	wheresX := append(append([]uint(nil), wheres...), xmlgen.IDAtUID)
	type iw struct {
		id    int64
		where uint
	}
	var iws []iw
	for i, id := range xmlgen.IDRangeExt {
		for w, where := range wheresX {
			if i >= len(xmlgen.IDRange) || w >= len(wheres) {
				iws = append(iws, iw{id, where})
			}
		}
	}
	idxStyles := 2
	if quick {
		idxStyles = 1
	}
	add("id-range-ext", []int{len(iws), 3, 10, idxStyles}, func(d []int, _ int) doc {
		return idRangeDoc(iws[d[0]].id, xmlgen.KindNode+d[1], d[2], iws[d[0]].where, styles8[d[3]*3])
	})

	// ---------------------------------------------------------- list lengths: 255, 256, 257; 2001 (and 65537 in the thorough tier)
	const numLongShapes = 14
	add("list-length", []int{numLongShapes, 3, 2}, func(d []int, _ int) doc {
		dd := longDoc(d[0], 255+d[1])
		dd.style = styles8[d[2]*3]
		dd.desc = fmt.Sprintf("list shape %d length %d", d[0], 255+d[1])
		return dd
	})
	lens := []int{2001} // one more than the API's limit of nodes per way
	lenStyles := 1
	if !quick {
		lens, lenStyles = []int{2001, 65537}, 2
	}
	add("list-length-long", []int{numLongShapes, len(lens), lenStyles}, func(d []int, _ int) doc {
		dd := longDoc(d[0], lens[d[1]])
		dd.style = styles8[d[2]*3]
		dd.desc = fmt.Sprintf("list shape %d length %d", d[0], lens[d[1]])
		return dd
	})

	// ---------------------------------------------------------- repeated and reordered elements
	add("repeat", []int{numRepeatShapes, 2}, func(d []int, _ int) doc {
		dd := repeatDoc(d[0])
		dd.style = styles8[d[1]*3]
		return dd
	})

	// ---------------------------------------------------------- member types beyond node/way/relation, orientation 0
	memTypes := []string{"", "changeset", "bounds", "user", "note"}
	add("member-ext", []int{len(memTypes), 3, 3, 2, 2}, func(d []int, _ int) doc {
		m := xmlgen.MemberCfg{Attrs: 255, Type: d[1], Orient: d[2], TypeText: memTypes[d[0]]}
		if d[3] == 1 {
			m.Nds = []uint{1, 0b11001}
		}
		b := xmlgen.NewB(59)
		e, v := b.Relation(xmlgen.RelationCfg{Attrs: 1, Members: []xmlgen.MemberCfg{m, {Attrs: 255, Type: 1, Orient: 2}, m}})
		return single(b, obj(xmlgen.KindRelation, e, v), styles8[d[4]*3])
	})

	// ---------------------------------------------------------- tags with k / v present or absent
	add("tag-shape", []int{4, 4, 2}, func(d []int, _ int) doc {
		b := xmlgen.NewB(61)
		o := b.Full(xmlgen.KindNode + d[0])
		// the first <tag> child and the first expected tag lose k (bit 0 clear) and / or v (bit 1 clear)
		var tags osm.Tags
		switch v := o.Val.(type) {
		case *osm.Node:
			tags = v.Tags
		case *osm.Way:
			tags = v.Tags
		case *osm.Relation:
			tags = v.Tags
		case *osm.Changeset:
			tags = v.Tags
		}
		for _, k := range o.Elem.Kids {
			if k.Name != "tag" {
				continue
			}
			var at []xmlgen.Attr
			if d[1]&1 != 0 {
				at = append(at, k.Attrs[0])
			} else {
				tags[0].Key = ""
			}
			if d[1]&2 != 0 {
				at = append(at, k.Attrs[1])
			} else {
				tags[0].Value = ""
			}
			k.Attrs = at
			break
		}
		dd := single(b, o, styles8[d[2]*3])
		dd.desc = fmt.Sprintf("first tag with k/v mask %d", d[1])
		return dd
	})

	// ---------------------------------------------------------- augmented diffs: no action, 0-2 changesets, changesets first
	add("diff-shape", []int{3, 3, 2, 2}, func(d []int, _ int) doc {
		b := xmlgen.NewB(67)
		var acts []xmlgen.ActionCfg
		for i := 0; i < d[0]; i++ {
			acts = append(acts, mkAction(b, i, 1-i, 2*i, 3*i, false))
		}
		var cs []xmlgen.Obj
		for i := 0; i < d[1]; i++ {
			cs = append(cs, b.Small(xmlgen.KindChangeset))
		}
		x := b.DiffDocOf(acts, cs)
		if d[2] == 1 && d[1] > 0 {
			// the changesets before the actions
			n, k := len(x.Root.Kids), d[1]
			x.Root.Kids = append(append([]*xmlgen.Elem(nil), x.Root.Kids[n-k:]...), x.Root.Kids[:n-k]...)
			m := len(x.Order)
			x.Order = append(append([]osm.Object(nil), x.Order[m-k:]...), x.Order[:m-k]...)
		}
		return doc{kind: "diff", root: x.Root, want: x.Want, order: x.Order, style: styles8[d[3]*3]}
	})

	// ---------------------------------------------------------- a document after other documents
	// Before the document, a sibling with the same ids but other strings, times
	// and coordinates is decoded and scanned, and so is a truncated (failing)
	// text of the document itself: every call starts from nothing.
	add("sequence", []int{len(bases), 2}, func(d []int, _ int) doc {
		x := bases[d[0]].mk()
		x.style = styles8[d[1]*3]
		text := xmlgen.Render(x.root, x.style)
		sib := strings.NewReplacer("mapper", "other", "editor", "other", "value", "wert", ".", ".1", "T0", "T1", "Some Mapper", "Nobody").Replace(text)
		x.before = []string{sib, text[:len(text)*2/3], text[:len(text)-3]}
		return x
	})
	return fs
}

var actNames = []string{"create", "modify", "delete"}

// idRangeDoc puts a complete object of the kind, with id in the places of
// where, into placement pl: <osm>, one of the osmChange blocks, a bare element
// in each diff action type, <old>+<new> of each diff action type.
func idRangeDoc(id int64, kind, pl int, where uint, st xmlgen.Style) doc {
	b := xmlgen.NewB(47)
	forced := func() xmlgen.Obj {
		b.ForceID, b.ForceWhere = &id, where
		o := b.Full(kind)
		b.ForceID = nil
		return o
	}
	desc := fmt.Sprintf("id %d kind %s placement %d where %#x", id, xmlgen.KindNames[kind], pl, where)
	switch {
	case pl == 0:
		x := b.OSMDocOf(1, []xmlgen.Obj{b.Small(kind), forced(), b.Small(kind)})
		return doc{kind: "osm", root: x.Root, want: x.Want, order: x.Order, style: st, desc: desc}
	case pl <= 3:
		x := b.ChangeDocOf(1, []xmlgen.Block{{Action: actNames[pl-1], Objs: []xmlgen.Obj{b.Small(kind), forced(), b.Small(xmlgen.KindNode)}}})
		return doc{kind: "osmChange", root: x.Root, want: x.Want, order: x.Order, style: st, desc: desc}
	case pl <= 6:
		o := forced()
		n := b.Small(xmlgen.KindNode)
		x := b.DiffDocOf([]xmlgen.ActionCfg{{Type: actNames[pl-4], Direct: &o}, {Type: "create", Direct: &n}}, nil)
		return doc{kind: "diff", root: x.Root, want: x.Want, order: x.Order, style: st, desc: desc}
	default:
		x := b.DiffDocOf([]xmlgen.ActionCfg{{Type: actNames[pl-7], HasOld: true, Old: []xmlgen.Obj{forced()}, HasNew: true, New: []xmlgen.Obj{forced()}}}, nil)
		return doc{kind: "diff", root: x.Root, want: x.Want, order: x.Order, style: st, desc: desc}
	}
}

func ones(n int) []uint {
	out := make([]uint, n)
	for i := range out {
		out[i] = 1
	}
	return out
}

// longDoc builds a document with one list of length n.
func longDoc(shape, n int) doc {
	b := xmlgen.NewB(71)
	osmOf := func(o xmlgen.Obj) doc {
		return single(b, o, xmlgen.Style{})
	}
	switch shape {
	case 0: // <nd> of a way
		e, v := b.Way(xmlgen.WayCfg{Attrs: 1, Nds: ones(n), Tags: 1})
		return osmOf(obj(xmlgen.KindWay, e, v))
	case 1: // <member> of a relation
		ms := make([]xmlgen.MemberCfg, n)
		for i := range ms {
			ms[i] = xmlgen.MemberCfg{Attrs: 7, Type: i}
		}
		e, v := b.Relation(xmlgen.RelationCfg{Attrs: 1, Members: ms, Tags: 1})
		return osmOf(obj(xmlgen.KindRelation, e, v))
	case 2: // <nd> of a member
		e, v := b.Relation(xmlgen.RelationCfg{Attrs: 1, Members: []xmlgen.MemberCfg{{Attrs: 7, Type: 1, Nds: ones(n)}, {Attrs: 7, Type: 0}}})
		return osmOf(obj(xmlgen.KindRelation, e, v))
	case 3: // tags of a node
		e, v := b.Node(xmlgen.NodeCfg{Attrs: 7, Tags: n})
		return osmOf(obj(xmlgen.KindNode, e, v))
	case 4: // tags of a way, interleaved with its nds
		e, v := b.Way(xmlgen.WayCfg{Attrs: 1, Nds: ones(n), Tags: n, Arrange: 2})
		return osmOf(obj(xmlgen.KindWay, e, v))
	case 5: // tags of a relation
		e, v := b.Relation(xmlgen.RelationCfg{Attrs: 1, Members: []xmlgen.MemberCfg{{Attrs: 7}}, Tags: n})
		return osmOf(obj(xmlgen.KindRelation, e, v))
	case 6: // tags and discussion comments of a changeset
		cm := make([]uint, n)
		for i := range cm {
			cm[i] = uint(i) % 16
		}
		e, v := b.Changeset(xmlgen.ChangesetCfg{Attrs: 1, Tags: n, Discussion: 1, Comments: cm})
		return osmOf(obj(xmlgen.KindChangeset, e, v))
	case 7: // comments of a note
		cm := make([]uint, n)
		for i := range cm {
			cm[i] = uint(i) % 128
		}
		e, v := b.Note(xmlgen.NoteCfg{Parts: 7, HasComments: true, Comments: cm})
		return osmOf(obj(xmlgen.KindNote, e, v))
	case 8: // languages of a user
		c := xmlgen.FullUser()
		c.Langs = n
		e, v := b.User(c)
		return osmOf(obj(xmlgen.KindUser, e, v))
	case 9: // updates of a way
		up := make([]uint, n)
		for i := range up {
			up[i] = uint(i) % 128
		}
		e, v := b.Way(xmlgen.WayCfg{Attrs: 1, Nds: []uint{1, 1}, Updates: up})
		return osmOf(obj(xmlgen.KindWay, e, v))
	case 10: // objects of an <osm> document, kinds cycling
		var objs []xmlgen.Obj
		for i := 0; i < n; i++ {
			objs = append(objs, b.Small(xmlgen.KindNode+i%(xmlgen.NumKinds-1)))
		}
		x := b.OSMDocOf(1, objs)
		return doc{kind: "osm", root: x.Root, want: x.Want, order: x.Order}
	case 11: // blocks of an osmChange, actions cycling, 0-2 objects each
		var blocks []xmlgen.Block
		for i := 0; i < n; i++ {
			var objs []xmlgen.Obj
			for j := 0; j < i%3; j++ {
				objs = append(objs, b.Small(xmlgen.KindNode+(i+j)%3))
			}
			blocks = append(blocks, xmlgen.Block{Action: actNames[i%3], Objs: objs})
		}
		x := b.ChangeDocOf(1, blocks)
		return doc{kind: "osmChange", root: x.Root, want: x.Want, order: x.Order}
	case 12: // objects of one osmChange block
		var objs []xmlgen.Obj
		for i := 0; i < n; i++ {
			objs = append(objs, b.Small(xmlgen.KindNode+i%3))
		}
		x := b.ChangeDocOf(1, []xmlgen.Block{{Action: "modify", Objs: objs}, {Action: "delete", Objs: []xmlgen.Obj{b.Small(xmlgen.KindWay)}}})
		return doc{kind: "osmChange", root: x.Root, want: x.Want, order: x.Order}
	}
	// actions of an augmented diff: create with a bare element, modify and delete with old + new
	var acts []xmlgen.ActionCfg
	for i := 0; i < n; i++ {
		k := xmlgen.KindNode + i%3
		if i%3 == 0 {
			o := b.Small(k)
			acts = append(acts, xmlgen.ActionCfg{Type: "create", Direct: &o})
		} else {
			acts = append(acts, xmlgen.ActionCfg{Type: actNames[i%3], HasOld: true, Old: []xmlgen.Obj{b.Small(k)}, HasNew: true, New: []xmlgen.Obj{b.Small(k)}})
		}
	}
	x := b.DiffDocOf(acts, []xmlgen.Obj{b.Small(xmlgen.KindChangeset)})
	return doc{kind: "diff", root: x.Root, want: x.Want, order: x.Order}
}

const numRepeatShapes = 12

// repeatDoc builds documents in which something occurs twice or in an
// unusual order. The element tree and the expected value are edited in the
// same way, side by side.
func repeatDoc(shape int) doc {
	b := xmlgen.NewB(73)
	osmOf := func(desc string, objs ...xmlgen.Obj) doc {
		x := b.OSMDocOf(1, objs)
		return doc{kind: "osm", root: x.Root, want: x.Want, order: x.Order, desc: desc}
	}
	kidsNamed := func(e *xmlgen.Elem, name string) []int {
		var idx []int
		for i, k := range e.Kids {
			if k.Name == name {
				idx = append(idx, i)
			}
		}
		return idx
	}
	switch shape {
	case 0: // closed way: the last nd repeats the first
		e, v := b.Way(xmlgen.WayCfg{Attrs: 1, Nds: []uint{1, 1, 1, 1}, Tags: 1})
		nd := kidsNamed(e, "nd")
		e.Kids[nd[3]] = e.Kids[nd[0]].Clone()
		v.Nodes[3] = v.Nodes[0]
		return osmOf("closed way", obj(xmlgen.KindWay, e, v), b.Small(xmlgen.KindWay))
	case 1: // every nd is the same annotated node
		e, v := b.Way(xmlgen.WayCfg{Attrs: 1, Nds: []uint{31, 31, 31}})
		nd := kidsNamed(e, "nd")
		for _, i := range nd[1:] {
			e.Kids[i] = e.Kids[nd[0]].Clone()
		}
		v.Nodes[1], v.Nodes[2] = v.Nodes[0], v.Nodes[0]
		return osmOf("way of one repeated nd", obj(xmlgen.KindWay, e, v))
	case 2: // the same key twice with different values, and one tag twice
		e, v := b.Node(xmlgen.NodeCfg{Attrs: 7, Tags: 4})
		tg := kidsNamed(e, "tag")
		e.Kids[tg[1]].Attrs[0].Val = e.Kids[tg[0]].Attrs[0].Val
		v.Tags[1].Key = v.Tags[0].Key
		e.Kids[tg[3]] = e.Kids[tg[2]].Clone()
		v.Tags[3] = v.Tags[2]
		return osmOf("duplicate tag keys and duplicate tags", obj(xmlgen.KindNode, e, v), b.Small(xmlgen.KindNode))
	case 3: // the same member twice, next to each other and apart
		e, v := b.Relation(xmlgen.RelationCfg{Attrs: 1, Members: []xmlgen.MemberCfg{{Attrs: 255, Type: 1, Nds: []uint{1, 1}}, {Attrs: 7, Type: 1}, {Attrs: 7, Type: 0}, {Attrs: 7, Type: 1}}})
		m := kidsNamed(e, "member")
		e.Kids[m[1]] = e.Kids[m[0]].Clone()
		v.Members[1] = v.Members[0]
		e.Kids[m[3]] = e.Kids[m[0]].Clone()
		v.Members[3] = v.Members[0]
		return osmOf("repeated members", obj(xmlgen.KindRelation, e, v))
	case 4, 5, 6: // the same element text twice in a row, then once more after another one
		kind := xmlgen.KindNode + shape - 4
		o, other := b.Full(kind), b.Small(kind)
		return osmOf("the same "+xmlgen.KindNames[kind]+" three times", o, o, other, o)
	case 7: // one id in three versions, newest first (history order reversed)
		id := int64(4242)
		b.ForceID, b.ForceWhere = &id, xmlgen.IDAtElem
		o1, o2, o3 := b.Full(xmlgen.KindNode), b.Full(xmlgen.KindNode), b.Full(xmlgen.KindNode)
		b.ForceID = nil
		return osmOf("one node id, versions descending", o3, o2, o1)
	case 8: // ids descending, kinds in reverse of the canonical order
		var objs []xmlgen.Obj
		for k := xmlgen.KindNode; k < xmlgen.NumKinds; k++ {
			objs = append(objs, b.Small(k), b.Small(k), b.Small(k))
		}
		for i, j := 0, len(objs)-1; i < j; i, j = i+1, j-1 {
			objs[i], objs[j] = objs[j], objs[i]
		}
		return osmOf("descending ids", objs...)
	case 9: // the same language twice
		c := xmlgen.FullUser()
		c.Langs = 3
		e, v := b.User(c)
		for _, k := range e.Kids {
			if k.Name == "languages" {
				k.Kids[2] = k.Kids[0].Clone()
			}
		}
		v.Languages[2] = v.Languages[0]
		return osmOf("repeated language", obj(xmlgen.KindUser, e, v))
	case 10: // old and new of a diff action hold the same element; the same action twice
		o := b.Full(xmlgen.KindWay)
		a := xmlgen.ActionCfg{Type: "modify", HasOld: true, Old: []xmlgen.Obj{o}, HasNew: true, New: []xmlgen.Obj{o}}
		x := b.DiffDocOf([]xmlgen.ActionCfg{a, a}, nil)
		return doc{kind: "diff", root: x.Root, want: x.Want, order: x.Order, desc: "identical old and new, action repeated"}
	}
	// the same element in create, modify and delete of one osmChange, and twice in one block
	o := b.Full(xmlgen.KindNode)
	x := b.ChangeDocOf(1, []xmlgen.Block{{Action: "create", Objs: []xmlgen.Obj{o, o}}, {Action: "modify", Objs: []xmlgen.Obj{o}}, {Action: "delete", Objs: []xmlgen.Obj{o}}, {Action: "create", Objs: []xmlgen.Obj{o}}})
	return doc{kind: "osmChange", root: x.Root, want: x.Want, order: x.Order, desc: "one element in every block"}
}

func rep(v, n int) []int {
	out := make([]int, n)
	for i := range out {
		out[i] = v
	}
	return out
}

// ------------------------------------------------------------------ oracles

var idxStrip = strings.NewReplacer("0", "", "1", "", "2", "", "3", "", "4", "", "5", "", "6", "", "7", "", "8", "", "9", "", "[", "", "]", "")

func shape(d doc, path string) string {
	return d.kind + ":" + idxStrip.Replace(path)
}

// key builds the violation key. All scanner clauses of the element-name-case
// family share one key: they have one cause (the scanner's case-insensitive
// dispatch on element names).
func key(clause string, d doc, path string) string {
	if d.caseVariant && strings.HasPrefix(clause, "scan") {
		return "scan/element-name-case-variant"
	}
	return clause + "/" + shape(d, path)
}

func clip(s string, n int) string {
	if len(s) > n {
		return s[:n] + "..."
	}
	return s
}

func checkDoc(r *kit.Run, c Case, d doc) {
	text := xmlgen.Render(d.root, d.style)
	r.Case(c.Family+"|"+text, len(d.order) > 0)
	if r.WantSample() && c.Index%211 == 7 {
		r.Sample(map[string]interface{}{"case": c, "style": d.style, "document": clip(text, 500)})
	}
	info := fmt.Sprintf("%+v %s [%s]", c, d.desc, d.style)

	// documents decoded earlier (some of them damaged) leave nothing behind
	for _, t := range d.before {
		guard(func() error {
			switch d.kind {
			case "osm":
				xml.Unmarshal([]byte(t), &osm.OSM{})
			case "osmChange":
				xml.Unmarshal([]byte(t), &osm.Change{})
			case "diff":
				xml.Unmarshal([]byte(t), &osm.Diff{})
			}
			pre := osmxml.New(context.Background(), strings.NewReader(t))
			for pre.Scan() {
			}
			pre.Close()
			return nil
		})
	}

	// (a) whole-document decode equals the model
	var got interface{}
	switch d.kind {
	case "osm":
		got = &osm.OSM{}
	case "osmChange":
		got = &osm.Change{}
	case "diff":
		got = &osm.Diff{}
	}
	if err, pan := guard(func() error { return xml.Unmarshal([]byte(text), got) }); pan != "" {
		// a panic inside the library is an observation about this document, not the end of the run
		r.Violation("decode-panic/"+d.kind, fmt.Sprintf("%s: xml.Unmarshal panicked: %s\ndocument: %s", info, pan, clip(text, 700)), c)
		got = nil
	} else if err != nil {
		r.Violation(key("decode-error", d, ""), fmt.Sprintf("%s: %v\ndocument: %s", info, err, clip(text, 700)), c)
		return
	} else if df := osmeq.Diff(d.want, got); df != "" {
		r.Violation(key("decode", d, osmeq.Path(df)), fmt.Sprintf("%s: model != decoded at %s\ndocument: %s", info, df, clip(text, 700)), c)
	}

	// Element names that differ from an OSM element name only in case are in
	// the alphabet for clause (a) only. The streaming scanner dispatches on the
	// lower-cased name (it used to have to read this library's own <Bounds>
	// output) while XML names are case sensitive for the whole-document
	// decoder; like unknown elements that contain OSM element names this is a
	// documented divergence outside the judged domain: counted, not reported.
	if d.caseVariant {
		r.Add("name_case_variant_docs_scanner_not_judged", 1)
		return
	}

	// (b) the streaming scanner yields the model's objects in document order.
	// Two scanners read the same text in lock step: the first from a reader
	// that hands out everything at once, the second (made with a nil context)
	// from a reader that hands out 1, 2, 3, 5, 8, ... bytes per call, so that
	// tokens straddle the refills. What a scanner yields may depend neither on
	// how the bytes arrive nor on another scanner running next to it; Object()
	// asked twice gives the same object; once Scan has returned false it keeps
	// returning false.
	var sc, sc2 *osmxml.Scanner
	var objs, objs2 []osm.Object
	again, again2 := false, false
	// quick tier: the large presence lattices and the unknown-attribute /
	// unknown-element families run one scanner only (see oneScanner); every
	// other family, and the thorough tier everywhere, runs both
	second := !(c.Tier == "quick" && oneScanner(c.Family))
	if !second {
		r.Add("documents_with_one_scanner_only_quick_tier", 1)
	}
	var err1, err2 error
	_, pan := guard(func() error {
		sc = osmxml.New(context.Background(), bytes.NewReader([]byte(text)))
		sc2 = osmxml.New(nil, &chunkReader{data: text}) //nolint:staticcheck // the nil context is the point
		for more, more2 := true, second; more || more2; {
			if more {
				if more = sc.Scan(); more {
					o := sc.Object()
					if o2 := sc.Object(); o2 != o {
						r.Violation(key("scan-object-twice", d, fmt.Sprintf("%T", o)), fmt.Sprintf("%s: Object() called twice after one Scan gave two different objects (object %d)\ndocument: %s", info, len(objs), clip(text, 700)), c)
					}
					objs = append(objs, o)
				}
			}
			if more2 {
				if more2 = sc2.Scan(); more2 {
					objs2 = append(objs2, sc2.Object())
				}
			}
		}
		again, again2 = sc.Scan() || sc.Scan(), second && sc2.Scan()
		err1, err2 = sc.Err(), sc2.Err()
		sc.Close()
		sc2.Close()
		return nil
	})
	if pan != "" {
		r.Violation("scan-panic/"+d.kind, fmt.Sprintf("%s: osmxml.Scanner panicked after %d objects: %s\ndocument: %s", info, len(objs), pan, clip(text, 700)), c)
		return
	}
	if err1 != nil {
		r.Violation(key("scan-error", d, ""), fmt.Sprintf("%s: %v\ndocument: %s", info, err1, clip(text, 700)), c)
		return
	}
	if again || again2 {
		r.Violation(key("scan-after-end", d, ""), fmt.Sprintf("%s: Scan returned true after it had returned false (%d objects before)\ndocument: %s", info, len(objs), clip(text, 700)), c)
	}
	ok1 := true
	if len(objs) != len(d.order) {
		ok1 = false
		r.Violation(key("scan", d, "count"), fmt.Sprintf("%s: scanner yielded %d objects %v, document holds %d\ndocument: %s", info, len(objs), types(objs), len(d.order), clip(text, 700)), c)
	} else {
		for i := range objs {
			if df := osmeq.Diff(d.order[i], objs[i]); df != "" {
				ok1 = false
				r.Violation(key("scan", d, fmt.Sprintf("%T.%s", d.order[i], osmeq.Path(df))), fmt.Sprintf("%s: object %d in document order: model != scanned at %s\ndocument: %s", info, i, df, clip(text, 700)), c)
				break
			}
		}
	}
	// the second scanner is reported only where the first one was right: a
	// difference is then due to the chunked reader, the nil context or the
	// neighbour, not to the document
	if ok1 && second {
		switch {
		case err2 != nil:
			r.Violation(key("scan-chunked-error", d, ""), fmt.Sprintf("%s: second scanner (nil context, reader handing out 1,2,3,5,8,... bytes, run in lock step with the first): %v\ndocument: %s", info, err2, clip(text, 700)), c)
		case len(objs2) != len(d.order):
			r.Violation(key("scan-chunked", d, "count"), fmt.Sprintf("%s: second scanner (nil context, reader handing out 1,2,3,5,8,... bytes, run in lock step with the first) yielded %d objects %v, document holds %d\ndocument: %s", info, len(objs2), types(objs2), len(d.order), clip(text, 700)), c)
		default:
			for i := range objs2 {
				if df := osmeq.Diff(d.order[i], objs2[i]); df != "" {
					r.Violation(key("scan-chunked", d, fmt.Sprintf("%T.%s", d.order[i], osmeq.Path(df))), fmt.Sprintf("%s: second scanner (nil context, reader handing out 1,2,3,5,8,... bytes, run in lock step with the first), object %d in document order: model != scanned at %s\ndocument: %s", info, i, df, clip(text, 700)), c)
					break
				}
			}
		}
	}

	// (c) <osm> documents: scanned objects grouped by kind equal the whole-document decode
	if whole, ok := got.(*osm.OSM); ok {
		grouped := &osm.OSM{Version: whole.Version, Generator: whole.Generator, Copyright: whole.Copyright, Attribution: whole.Attribution, License: whole.License}
		for _, o := range objs {
			switch v := o.(type) {
			case *osm.Bounds:
				grouped.Bounds = v
			case *osm.Node:
				grouped.Nodes = append(grouped.Nodes, v)
			case *osm.Way:
				grouped.Ways = append(grouped.Ways, v)
			case *osm.Relation:
				grouped.Relations = append(grouped.Relations, v)
			case *osm.Changeset:
				grouped.Changesets = append(grouped.Changesets, v)
			case *osm.Note:
				grouped.Notes = append(grouped.Notes, v)
			case *osm.User:
				grouped.Users = append(grouped.Users, v)
			}
		}
		if df := osmeq.Diff(whole, grouped); df != "" {
			r.Violation(key("scan-vs-whole", d, osmeq.Path(df)), fmt.Sprintf("%s: whole-document decode != streaming scan at %s\ndocument: %s", info, df, clip(text, 700)), c)
		}
	}
}

// oneScanner: the families that run a single scanner in the quick tier. They
// hold most of the documents and vary what the other families hold once:
// which attributes are present, where an unknown attribute or element sits,
// which two diff actions meet.
func oneScanner(family string) bool {
	switch family {
	case "changeset", "way", "relation", "osm-subsets", "diff-pair", "way-nd", "way-update", "relation-member",
		"changeset-comment", "note-comment", "user-nested":
		return true
	}
	return strings.HasPrefix(family, "unknown-")
}

// chunkReader hands out its data in pieces of 1, 2, 3, 5, 8, 13, 21, 34, 1, 2, ...
// bytes; the last piece comes together with io.EOF.
type chunkReader struct {
	data string
	off  int
	k    int
}

var chunkSizes = [...]int{1, 2, 3, 5, 8, 13, 21, 34}

func (c *chunkReader) Read(p []byte) (int, error) {
	if c.off >= len(c.data) {
		return 0, io.EOF
	}
	n := chunkSizes[c.k%len(chunkSizes)]
	c.k++
	if n > len(p) {
		n = len(p)
	}
	if n > len(c.data)-c.off {
		n = len(c.data) - c.off
	}
	copy(p, c.data[c.off:c.off+n])
	c.off += n
	if c.off >= len(c.data) {
		return n, io.EOF
	}
	return n, nil
}

// guard runs f and turns a panic into a description instead of killing the run.
func guard(f func() error) (err error, panicked string) {
	defer func() {
		if p := recover(); p != nil {
			panicked = fmt.Sprint(p)
			if panicked == "" {
				panicked = "panic with empty value"
			}
		}
	}()
	return f(), ""
}

func types(objs []osm.Object) []string {
	var out []string
	for _, o := range objs {
		out = append(out, fmt.Sprintf("%T", o))
	}
	return out
}

func main() {
	kit.Main("C03", "exploration", func(r *kit.Run) {
		r.Rule("complete mixed-radix products per family: per-kind presence lattices of every optional attribute/child (plus nested nd/update/member/comment lattices), " +
			"child arrangements, every string position x text class x entity style x quoting, layouts x self-closing x quoting x attribute orders (all permutations up to 4 attributes, rotations of the order and of its reversal beyond), " +
			"an unknown attribute / element at every position, <osm> over every subset of the 7 kinds x root attribute subsets x 3 orderings, osmChange over every sequence of <=4 action blocks x 0-2 elements per block, " +
			"augmented diffs over type x direct element x old x new x order, boundary ids (-1, int32 limits, 2^31, 2^40, 2^40+1, 2^44+5, 2^62) x node/way/relation x {element id, nd/member refs, changeset ids, all} x every placement (<osm>, each osmChange block, bare element and old/new of each diff action type). " +
			"Boundary audit: every integer / decimal / timestamp / note date / boolean position of a complete object of each kind x every boundary class of its type, one position at a time and all at once " +
			"(integers 0, +-1, 127/128, 255/256, 2^15, 2^16, 2^31-1, 2^31, -2^31-1, 2^32-1, 2^32, 2^40-1, 2^40, 2^53, 2^53+1, int64 limits; 20 decimal spellings incl. 0, -0.0, +-90, +-180, no point, exponent, sign, 16-20 digits, denormal, max; " +
			"instants: zero time, 1970, 1969, 1901, 2038, committed-at start, last int64 nanosecond and the day after, 9999, leap day, 1/3/9 digit fractions, -08:00 and +14:00; true/false); " +
			"every string position x {white space only, 4.6 KB, edge code points, \"0\"} x 5 reference spellings and x zero-padded lower-case references for the older classes; DOCTYPE / byte order mark / xmlns layouts; unknown attributes and elements whose names are close to known ones (idx, ID, refs, la, empty value; nodes, tags, ndx, ids) at every position; " +
			"12 more ids (0, 1, 127, 128, 2^31-1, 2^32, 2^40-1, -2^40, 2^53, 2^53+1, int64 limits) x place (also uid) x placement; lists of 255, 256, 257 and 2001 (thorough: 65537) nds, members, member nds, tags, comments, languages, updates, objects, blocks, actions; " +
			"repeated nds / tags / members / languages / whole elements, descending ids and versions; member types beyond node/way/relation and orientation 0; tags without k or v; diffs with 0-2 actions x 0-2 changesets before or after; a document after a sibling and after damaged texts. " +
			"Every document is scanned by two scanners in lock step (the second with a nil context and a reader handing out 1-34 bytes per call; quick tier: not for the large lattices, counted), Object() is asked twice, Scan is called again after the end. A document is non-trivial when it holds at least one object; distinct = distinct (family, document text).")
		r.Assume("documents are written by gen/xmlgen (no encoding/xml, no /repo code); the expected values are assembled next to the text from the same constants; strconv.ParseFloat and package time are trusted for the value of a decimal / a calendar date")
		r.Assume("equality is gen/osmeq: nil==empty, times as instants, an empty changeset discussion equals an absent one")
		r.Assume("not in the alphabet because the property's text does not decide them: numbers padded with white space, booleans spelled 1/0, NaN/Inf, note dates in zones other than UTC or padded with white space, empty date elements, two <bounds> in one <osm>, several bare elements in one diff action, attributes or elements in a foreign namespace whose local name is an OSM name (x:id, x:node)")
		r.Assume("clause scan is applied to all three document types: the scanner dispatches on element names wherever they occur, so its object stream is defined for osmChange and augmented diffs too")
		fs := families(r.Quick())
		if r.ReplayPath != "" {
			var c Case
			r.LoadReplay(&c)
			if c.Tier != "" {
				fs = families(c.Tier == "quick")
			}
			for _, f := range fs {
				if f.name == c.Family {
					if c.Index < 0 || c.Index >= f.n {
						kit.Fatalf("replay index %d outside family %s (%d cases) in this tier", c.Index, f.name, f.n)
					}
					checkDoc(r, c, f.gen(c.Index))
					return
				}
			}
			kit.Fatalf("replay: unknown family %q", c.Family)
		}
		sizes := map[string]int{}
		total := 0
		starts := make([]int, len(fs))
		for i, f := range fs {
			starts[i] = total
			total += f.n
			sizes[f.name] = f.n
		}
		r.Set("family_sizes", sizes)
		r.Set("documents", total)
		r.Par(total, func(i int) {
			k := len(fs) - 1
			for starts[k] > i {
				k--
			}
			c := Case{Family: fs[k].name, Index: i - starts[k], Tier: r.Tier}
			checkDoc(r, c, fs[k].gen(c.Index))
		})
	})
}
