package main

import (
	"bytes"
	"context"
	"fmt"
	"io"
	"reflect"

	"github.com/paulmach/osm"
	"github.com/paulmach/osm/osmpbf"

	"verif/gen/pbfgen"
	"verif/gen/pbfrun"
	"verif/kit"
)

// scanMode runs one of the call sequences of family F16 and returns what the
// standard oracle judges (header as first reported, objects, Err) plus a
// description of what the extra calls of the sequence got wrong ("" = nothing).
//
//	scan-first      Scan to the end without calling Header(); Header() afterwards
//	header-twice    Header() twice, Scan to the end, Header() a third time
//	header-between  Header() before every Scan call
//	scan-past-end   Header(), Scan to the end, then Scan three more times
//	three-scans     the file is scanned three times in a row by three scanners: the objects
//	                of the first scan are still what they were after the second one ran; the
//	                caller then writes into every object of the second scan (they are the
//	                caller's), and the third scan is the one the standard oracle judges
//	caller-appends  the consumer keeps a copy of every object as it is returned and then
//	                appends a tag (and a node / a member) to the returned object itself: the
//	                objects are the caller's, growing one must not reach into the next
//	reader-*        the usual calls, but the io.Reader hands the stream over in
//	                pieces of at most 1 / 7 bytes, or returns io.EOF together
//	                with the last bytes (all allowed by the io.Reader contract)
//
// Judged on the extra calls: every Header() VALUE equals the model header (the
// same every time); a Header() call made BEFORE the scan ended reports no error;
// Scan after the end returns false and Err() stays nil. Not judged (counted in
// header_err_after_scan_not_judged): the error of a Header() call made after the
// scan ended - the property says what Header() reports, not which error
// accompanies it once the input is used up.
func scanMode(r *kit.Run, data []byte, procs int, mode string, want *osmpbf.Header) (pbfrun.Result, string) {
	var in io.Reader = bytes.NewReader(data)
	switch mode {
	case "reader-1-byte":
		in = &chunkReader{data: data, max: 1}
	case "reader-7-bytes":
		in = &chunkReader{data: data, max: 7}
	case "reader-eof-with-data":
		in = &chunkReader{data: data, max: 4096, eofWithData: true}
	}
	var res pbfrun.Result
	var wrong string
	note := func(format string, a ...interface{}) {
		if wrong == "" {
			wrong = fmt.Sprintf(format, a...)
		}
	}
	if mode == "three-scans" {
		full := func() []osm.Object {
			sc := osmpbf.New(context.Background(), bytes.NewReader(data), procs)
			defer sc.Close()
			var out []osm.Object
			for sc.Scan() {
				out = append(out, sc.Object())
			}
			return out
		}
		first := full()
		kept := kit.DeepCopy(first)
		second := full()
		if !reflect.DeepEqual(first, kept) {
			note("the objects returned by the first scan changed while a second scanner read the same file")
		}
		for _, o := range second {
			switch x := o.(type) {
			case *osm.Node:
				x.Lat, x.Lon, x.User, x.Version = 99, 99, "scribble", -1
				for i := range x.Tags {
					x.Tags[i] = osm.Tag{Key: "scribble", Value: "x"}
				}
			case *osm.Way:
				x.User, x.Version = "scribble", -1
				for i := range x.Tags {
					x.Tags[i] = osm.Tag{Key: "scribble", Value: "x"}
				}
				for i := range x.Nodes {
					x.Nodes[i] = osm.WayNode{ID: -1, Lat: 99, Lon: 99}
				}
			case *osm.Relation:
				x.User, x.Version = "scribble", -1
				for i := range x.Tags {
					x.Tags[i] = osm.Tag{Key: "scribble", Value: "x"}
				}
				for i := range x.Members {
					x.Members[i] = osm.Member{Type: "scribble", Ref: -1, Role: "x"}
				}
			}
		}
	}
	s := osmpbf.New(context.Background(), in, procs)
	defer s.Close()
	header := func(when string, ended bool) *osmpbf.Header {
		h, err := s.Header()
		if err != nil {
			if ended {
				r.Add("header_err_after_scan_not_judged", 1)
			} else {
				note("Header() %s: error %v", when, err)
			}
		}
		if d := pbfgen.DiffHeader(h, want); d != "" {
			note("Header() %s: %s", when, d)
		}
		return h
	}
	switch mode {
	case "scan-first":
		for s.Scan() {
			res.Objects = append(res.Objects, s.Object())
		}
		res.Err = s.Err()
		res.Header = header("after a scan that never asked for it", true)
	case "header-twice":
		res.Header, res.HeaderErr = s.Header()
		header("asked a second time", false)
		for s.Scan() {
			res.Objects = append(res.Objects, s.Object())
		}
		res.Err = s.Err()
		header("asked after the scan", true)
	case "header-between":
		res.Header, res.HeaderErr = s.Header()
		for s.Scan() {
			res.Objects = append(res.Objects, s.Object())
			header(fmt.Sprintf("asked after object %d", len(res.Objects)), false)
		}
		res.Err = s.Err()
	case "scan-past-end":
		res.Header, res.HeaderErr = s.Header()
		for s.Scan() {
			res.Objects = append(res.Objects, s.Object())
		}
		res.Err = s.Err()
		for i := 1; i <= 3; i++ {
			if s.Scan() {
				note("Scan call %d after the end returned true (object %v)", i, s.Object())
			}
			if err := s.Err(); err != nil && res.Err == nil {
				note("Err() after Scan call %d past the end: %v", i, err)
			}
		}
		header("asked after the scan", true)
	case "caller-appends":
		res.Header, res.HeaderErr = s.Header()
		for s.Scan() {
			o := s.Object()
			res.Objects = append(res.Objects, kit.DeepCopy(o).(osm.Object))
			switch x := o.(type) {
			case *osm.Node:
				x.Tags = append(x.Tags, osm.Tag{Key: "appended", Value: "by the caller"})
			case *osm.Way:
				x.Tags = append(x.Tags, osm.Tag{Key: "appended", Value: "by the caller"})
				x.Nodes = append(x.Nodes, osm.WayNode{ID: -7})
			case *osm.Relation:
				x.Tags = append(x.Tags, osm.Tag{Key: "appended", Value: "by the caller"})
				x.Members = append(x.Members, osm.Member{Type: osm.TypeNode, Ref: -7, Role: "appended"})
			}
		}
		res.Err = s.Err()
	case "reader-1-byte", "reader-7-bytes", "reader-eof-with-data", "three-scans":
		res.Header, res.HeaderErr = s.Header()
		for s.Scan() {
			res.Objects = append(res.Objects, s.Object())
		}
		res.Err = s.Err()
	default:
		note("unknown mode %q", mode)
	}
	return res, wrong
}

// chunkReader delivers data in pieces of at most max bytes.
type chunkReader struct {
	data        []byte
	max         int
	eofWithData bool
}

func (c *chunkReader) Read(p []byte) (int, error) {
	if len(c.data) == 0 {
		return 0, io.EOF
	}
	n := len(p)
	if n > c.max {
		n = c.max
	}
	if n > len(c.data) {
		n = len(c.data)
	}
	copy(p, c.data[:n])
	c.data = c.data[n:]
	if c.eofWithData && len(c.data) == 0 {
		return n, io.EOF
	}
	return n, nil
}
