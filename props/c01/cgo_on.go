//go:build cgo

package main

const cgoEnabled = true
