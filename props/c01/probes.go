package main

import (
	"fmt"

	"verif/gen/pbfgen"
)

// genProbes holds inputs that are deliberately NOT part of the enumeration. They
// run only with C01_PROBE=1 (to look at what the library does with them) and are
// never part of the evidence.
//
//  1. Timestamps after 2262-04-11T23:47:16Z (units * date_granularity >
//     9223372036854 ms). The format defines the instant (int64 units of
//     date_granularity milliseconds since 1970), so by the property's text these
//     are in the domain. On the unchanged tree the library computes
//     time.Duration(units*dateGranularity) * time.Millisecond, an int64 count of
//     nanoseconds that wraps: units=9223372037 (dategran 1000) is reported as
//     1677-09-21T00:12:43.290448384Z instead of 2262-04-11T23:47:17Z, for dense
//     nodes, ways and relations alike. Repaired in /repo; enumerated as family
//     F19 (genLateTimestamps) since then.
//  2. A keys_vals column that is present with length 0 while the group has nodes.
//     In protobuf an empty packed field is the same as an absent one, so this is
//     a valid, if unusual, encoding of "no node has tags". The library returns
//     io.ErrUnexpectedEOF for the block. Whether such a file is inside "valid PBF
//     files" is not decided by the property text (no known writer produces it):
//     not judged.
//  3. Decoder counts 0 and -1: osmpbf.New documents nothing for them (the code
//     uses one decoder); "every decoder count" does not say: not judged.
//
// genLateTimestamps: item 1 above, part of the enumeration since the repair in
// /repo ("fix: osmpbf: timestamps after 2262 ...").
func genLateTimestamps(add func(tcase)) {
	for _, ts := range []int64{9223372036, 9223372037, 1 << 34, 253402300799} {
		n1, n2 := pbfgen.DenseNode(1, 1), pbfgen.DenseNode(2, 2)
		n2.Timestamp = ts
		d := &pbfgen.Dense{Info: true, Cols: pbfgen.ColsMask(63), KeysVals: true, Nodes: []pbfgen.DNode{n1, n2}}
		wi, ri := pbfgen.FullInfo(3), pbfgen.FullInfo(4)
		wi.Timestamp, ri.Timestamp = pbfgen.I64(ts), pbfgen.I64(ts)
		for k, g := range []pbfgen.Group{{Dense: d}, {Ways: []pbfgen.Way{{ID: 3, Info: wi, Refs: []int64{1}}}}, {Relations: []pbfgen.Relation{{ID: 4, Info: ri, NoMembers: true}}}} {
			add(tcase{Family: "F19", Desc: fmt.Sprintf("timestamp %d s (around and after 2262-04-11T23:47:16Z), kind %d", ts, k), NonTrivial: true,
				File: &pbfgen.File{Header: pbfgen.StdHeader(), Blocks: []pbfgen.Block{{Groups: []pbfgen.Group{g}}}}})
		}
	}
}

func genProbes(add func(tcase), setProcs func([]int)) {
	n1, n2 := pbfgen.DenseNode(1, 1), pbfgen.DenseNode(2, 2)
	n1.Tags, n2.Tags = nil, nil
	d := &pbfgen.Dense{Info: true, Cols: pbfgen.ColsMask(63), KeysVals: true, EmptyKeysVals: true, Nodes: []pbfgen.DNode{n1, n2}}
	add(tcase{Family: "PROBE", Desc: "keys_vals present with length 0, two tagless nodes", NonTrivial: true,
		File: &pbfgen.File{Header: pbfgen.StdHeader(), Blocks: []pbfgen.Block{{Groups: []pbfgen.Group{{Dense: d}}}}}})
	setProcs([]int{0, -1})
	add(tcase{Family: "PROBE", Desc: "decoder count below 1", NonTrivial: true,
		File: &pbfgen.File{Header: pbfgen.StdHeader(), Blocks: []pbfgen.Block{{Groups: mixedGroups(100, true)}, {Groups: mixedGroups(200, true)}}}})
	setProcs(nil)
}
