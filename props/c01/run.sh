#!/bin/bash
# C01: quick = pure-Go zlib build; thorough = the same enumeration again with CGO_ENABLED=1
# (the czlib decompression path of osmpbf/zlib_cgo.go), merged into one evidence file.
ROOT=$(cd "$(dirname "$0")/../.." && pwd)
cd "$ROOT"; . ./env.sh
tier=$1; shift
ov=()
[ -n "${VERIF_OVERLAY:-}" ] && ov=(-overlay "$VERIF_OVERLAY")
bin="${VERIF_BIN:-$ROOT/bin}"
mkdir -p "$bin"
if ! CGO_ENABLED=0 go build "${ov[@]+"${ov[@]}"}" -o "$bin/c01" ./props/c01 2> "$bin/c01.buildlog"; then
  echo "HARNESS-ERROR build of C01 failed"; head -40 "$bin/c01.buildlog"; exit 2
fi
"$bin/c01" -tier "$tier" "$@"; rc1=$?
[ $rc1 -ge 2 ] && exit $rc1
case " $* " in *" -replay "*) exit $rc1;; esac
[ "$tier" = thorough ] || exit $rc1
if ! command -v gcc >/dev/null 2>&1 || ! CGO_ENABLED=1 go build "${ov[@]+"${ov[@]}"}" -o "$bin/c01cgo" ./props/c01 2> "$bin/c01cgo.buildlog"; then
  echo "note: cgo build not available, czlib pass skipped"; exit $rc1
fi
VERIF_EVIDENCE_PART=cgo-czlib C01_PROCS="1 3" "$bin/c01cgo" -tier "$tier" "$@"; rc2=$?
[ $rc2 -ge 2 ] && exit $rc2
[ $rc1 -ne 0 ] && exit $rc1
exit $rc2
