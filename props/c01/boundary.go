// Boundary families F12..F18 (boundary audit of C01): values and situations the
// families F1..F11 do not reach because their alphabets are small "ordinary"
// numbers - extreme and encoding-boundary values of every numeric field, block
// parameters beyond 32 bits, the string-table index 0 used as a real string,
// tag-list shapes, other call sequences on the scanner, framing limits and zlib
// stream variants. Expected values always come from the model (pbfgen.Expected*).
package main

import (
	"encoding/hex"
	"fmt"
	"math"
	"strings"

	"github.com/paulmach/osm"

	"verif/gen/pbfgen"
)

func hexOf(b []byte) string {
	if len(b) > 1<<20 {
		return hex.EncodeToString(b[:1<<20]) + fmt.Sprintf("...(%d bytes in all; rebuild the file from family and desc)", len(b))
	}
	return hex.EncodeToString(b)
}

func sampleIDs(objs []osm.Object) []string {
	ids := pbfgen.IDs(objs)
	if len(ids) > 40 {
		ids = append(ids[:40:40], fmt.Sprintf("... %d in all", len(ids)))
	}
	return ids
}

func genBoundaries(add func(tcase), setProcs func([]int), quick bool) {
	genF12(add)
	genF13(add)
	genF14(add, setProcs)
	genF15(add)
	genF16(add)
	genF17(add, quick)
	genF18(add)
}

// ---- F12: every numeric field at its boundary values, one field at a time ----

var (
	// ids and refs are int64 (sint64 deltas in dense nodes, way refs and member
	// ids; a plain int64 varint for way and relation ids)
	idVals = []int64{0, 1, -1, 127, 128, 1<<31 - 1, 1 << 31, 1 << 32, 1 << 40, 1<<53 + 1, math.MaxInt64, math.MinInt64}
	// version is int32
	versionVals = []int64{0, 1, 127, 128, 16384, 1<<31 - 1, -1}
	// timestamps in units of the default date granularity (seconds): the epoch
	// (present-but-zero is 1970-01-01, not "no timestamp"), before 1970, 2038,
	// 2106 and the last second whose nanosecond count fits an int64 (2262-04-11).
	// Later instants are kept out, see probes.go.
	timestampVals = []int64{0, 1, -1, 1<<31 - 1, 1 << 31, 1 << 32, 9223372036}
	changesetVals = []int64{0, 1, -1, 1 << 31, 1 << 32, 1<<53 + 1, math.MaxInt64}
	// uid is int32 (sint32 deltas in dense nodes)
	uidVals = []int64{0, 1, 127, 128, 1<<31 - 1, -1, math.MinInt32}
	// raw coordinates at the default granularity 100: the equator / prime meridian
	// (0 is a value, not "absent"), one unit either side, the poles and the antimeridian
	latVals = []int64{0, 1, -1, 900000000, -900000000}
	lonVals = []int64{0, 1, -1, 1800000000, -1800000000}
)

// near returns a small neighbour of the same sign as v so that the delta coding
// between neighbours never leaves the field's range.
func near(v, k int64) int64 {
	if v < 0 {
		return -k
	}
	return k
}

func genF12(add func(tcase)) {
	type field struct {
		name string
		col  int // DenseInfo column / Info field index, -1 = not part of the info
		vals []int64
	}
	info := []field{{"version", 0, versionVals}, {"timestamp", 1, timestampVals}, {"changeset", 2, changesetVals}, {"uid", 3, uidVals}}
	emit := func(desc string, groups []pbfgen.Group) {
		f := &pbfgen.File{Header: pbfgen.StdHeader(), Blocks: []pbfgen.Block{{Groups: groups}, {Groups: mixedGroups(500, true)}}}
		add(tcase{Family: "F12", Desc: desc, File: f, NonTrivial: true})
	}
	// dense nodes: the node under test between two ordinary ones, then once more
	// at the end (a delta up, a delta down, a delta up)
	denseFields := append([]field{{"id", -1, idVals}, {"lat", -1, latVals}, {"lon", -1, lonVals}}, info...)
	for _, fl := range denseFields {
		for _, v := range fl.vals {
			for _, only := range []bool{false, true} {
				d := &pbfgen.Dense{Info: true, Cols: pbfgen.ColsMask(63), KeysVals: true}
				if only {
					// only this column (for id/lat/lon: no DenseInfo at all)
					d.Cols = pbfgen.ColsMask(0)
					d.Info = fl.col >= 0
					if fl.col >= 0 {
						d.Cols[fl.col] = true
					}
				}
				for i, k := range []int64{3, 4, 5, 6} {
					n := pbfgen.DenseNode(k, k)
					x := v
					if i%2 == 0 {
						x = near(v, k)
					}
					switch fl.name {
					case "id":
						n.ID = x
						if i == 3 {
							n.ID = near(v, 9) // ids stay distinct
						}
					case "lat":
						n.Lat = x
					case "lon":
						n.Lon = x
					case "version":
						n.Version = int32(x)
					case "timestamp":
						n.Timestamp = x
					case "changeset":
						n.Changeset = x
					case "uid":
						n.UID = int32(x)
					}
					d.Nodes = append(d.Nodes, n)
				}
				emit(fmt.Sprintf("dense %s=%d only=%v", fl.name, v, only), []pbfgen.Group{{Dense: d}})
			}
		}
	}
	// repeated values (every delta 0): a history file holds the same node id
	// several times, a degenerate way the same ref, a relation the same member
	for _, cols := range []int{63, 0} {
		d := &pbfgen.Dense{Info: true, Cols: pbfgen.ColsMask(cols), KeysVals: true}
		for i := 0; i < 4; i++ {
			n := pbfgen.DenseNode(77, 7)
			if i == 2 {
				n.Version++
			}
			d.Nodes = append(d.Nodes, n)
		}
		w := pbfgen.Way{ID: 42, Info: pbfgen.FullInfo(9), Refs: []int64{7, 7, 7, 8, 8, 7}, Lats: []int64{5, 5, 5, 5, 5, 5}, Lons: []int64{0, 0, 0, 0, 0, 0}}
		w0 := pbfgen.Way{ID: 42, Info: pbfgen.FullInfo(10), Refs: []int64{0, 0}}
		rl := pbfgen.Relation{ID: 52, Info: pbfgen.FullInfo(8), Members: []pbfgen.Member{{Type: 1, Ref: 42, Role: "r"}, {Type: 1, Ref: 42, Role: "r"}, {Type: 0, Ref: 42, Role: "r"}, {Type: 1, Ref: 42, Role: ""}, {Type: 2, Ref: 0, Role: ""}}}
		emit(fmt.Sprintf("repeated values: same node four times (cols=%06b), repeated refs, repeated members, same way id twice", cols),
			[]pbfgen.Group{{Dense: d}, {Ways: []pbfgen.Way{w, w0, w}}, {Relations: []pbfgen.Relation{rl, rl}}})
	}
	// ways and relations: the element under test between two fat ones
	setInfo := func(in *pbfgen.Info, name string, v int64) {
		switch name {
		case "version":
			in.Version = pbfgen.I32(int32(v))
		case "timestamp":
			in.Timestamp = pbfgen.I64(v)
		case "changeset":
			in.Changeset = pbfgen.I64(v)
		case "uid":
			in.UID = pbfgen.I32(int32(v))
		}
	}
	elemFields := append([]field{{"id", -1, idVals}, {"ref", -1, idVals}, {"lat", -1, latVals}, {"lon", -1, lonVals}}, info...)
	for _, fl := range elemFields {
		for _, v := range fl.vals {
			for _, only := range []bool{false, true} {
				in := pbfgen.FullInfo(9)
				if only {
					in = &pbfgen.Info{}
					if fl.col < 0 {
						in = nil
					}
				}
				if fl.col >= 0 {
					setInfo(in, fl.name, v)
				}
				refs := []int64{near(v, 3), 77, near(v, 5), 1000000000000}
				id := int64(42)
				switch fl.name {
				case "id":
					id = v
				case "ref":
					refs = []int64{near(v, 3), v, near(v, 5), v}
				}
				// way
				w := pbfgen.Way{ID: id, Info: in, Tags: [][2]string{{"k", "v"}}, Refs: refs}
				if fl.name == "lat" || fl.name == "lon" || !only {
					w.Lats = []int64{515000000, 515000001, 514999999, 515000000}
					w.Lons = []int64{-1200000, -1200001, -1199999, -1200000}
					if fl.name == "lat" {
						w.Lats = []int64{near(v, 3), v, near(v, 5), v}
					}
					if fl.name == "lon" {
						w.Lons = []int64{near(v, 3), v, near(v, 5), v}
					}
				}
				emit(fmt.Sprintf("way %s=%d only=%v", fl.name, v, only),
					[]pbfgen.Group{{Ways: []pbfgen.Way{fatWay(41), w, fatWay(43)}}})
				if fl.name == "lat" || fl.name == "lon" {
					continue
				}
				// relation: the refs become member refs of all three types
				var ms []pbfgen.Member
				for i, ref := range refs {
					ms = append(ms, pbfgen.Member{Type: i % 3, Ref: ref, Role: []string{"outer", "", "inner"}[i%3]})
				}
				rl := pbfgen.Relation{ID: id, Info: in, Tags: [][2]string{{"type", "x"}}, Members: ms}
				emit(fmt.Sprintf("relation %s=%d only=%v", fl.name, v, only),
					[]pbfgen.Group{{Relations: []pbfgen.Relation{fatRelation(51), rl, fatRelation(53)}}})
			}
		}
	}
}

// ---- F13: block parameters at their boundaries ----
//
// Granularities from 1 nanodegree to 2^31-1, offsets of either sign beyond 32
// bits up to the full +-90 / +-180 degrees, date granularities from 10 ms to
// 2^31-1 ms; raw values are chosen so that the coordinates stay on the globe and
// the instants inside 1970..2262. Every block holds dense nodes, a way with
// locations, a way WITHOUT locations (its nodes stay at 0,0: offsets are not
// locations) and a relation. As in F2 the block stands before, after and without
// a block that sets nothing.

func paramGroups(seed int64, gran, latOff, lonOff int64, tsUnits []int64) []pbfgen.Group {
	raws := func(off, span int64) []int64 {
		m := span / gran
		switch {
		case off > 1<<34:
			return []int64{0, -1, -m, -2 * m, -m / 2}
		case off < -(1 << 34):
			return []int64{0, 1, m, 2 * m, m / 2}
		}
		return []int64{0, 1, -1, m, -m}
	}
	lats, lons := raws(latOff, 80000000000), raws(lonOff, 170000000000)
	d := &pbfgen.Dense{Info: true, Cols: pbfgen.ColsMask(63), KeysVals: true}
	for i := range lats {
		n := pbfgen.DenseNode(seed+int64(i), seed+int64(i))
		n.Lat, n.Lon = lats[i], lons[(i+2)%len(lons)]
		n.Timestamp = tsUnits[i%len(tsUnits)]
		d.Nodes = append(d.Nodes, n)
	}
	wi, wi2, ri := pbfgen.FullInfo(seed+3), pbfgen.FullInfo(seed+5), pbfgen.FullInfo(seed+4)
	wi.Timestamp, wi2.Timestamp, ri.Timestamp = pbfgen.I64(tsUnits[0]), pbfgen.I64(tsUnits[len(tsUnits)-1]), pbfgen.I64(tsUnits[1%len(tsUnits)])
	w := pbfgen.Way{ID: seed + 10, Info: wi, Tags: [][2]string{{"highway", "path"}}, Refs: []int64{1, 2, 3, 4, 5}, Lats: lats, Lons: lons}
	w2 := pbfgen.Way{ID: seed + 11, Info: wi2, Refs: []int64{5, 4, 3}}
	rl := pbfgen.Relation{ID: seed + 20, Info: ri, Members: []pbfgen.Member{{Type: 0, Ref: 1, Role: "a"}, {Type: 1, Ref: seed + 10, Role: ""}}}
	return []pbfgen.Group{{Dense: d}, {Ways: []pbfgen.Way{w, w2}}, {Relations: []pbfgen.Relation{rl}}}
}

func genF13(add func(tcase)) {
	emit := func(desc string, set pbfgen.Block) {
		plain := pbfgen.Block{Groups: mixedGroups(200, true)}
		add(tcase{Family: "F13", Desc: "P,default: " + desc, NonTrivial: true,
			File: &pbfgen.File{Header: pbfgen.StdHeader(), Blocks: []pbfgen.Block{set, plain}}})
		add(tcase{Family: "F13", Desc: "default,P: " + desc, NonTrivial: true,
			File: &pbfgen.File{Header: pbfgen.StdHeader(), Blocks: []pbfgen.Block{plain, set}}})
		add(tcase{Family: "F13", Desc: "P alone: " + desc, NonTrivial: true,
			File: &pbfgen.File{Header: pbfgen.StdHeader(), Blocks: []pbfgen.Block{set}}})
	}
	stdTs := []int64{0, 1600000000, -86400}
	type offPair struct{ lat, lon *int64 }
	offs := []offPair{
		{pbfgen.I64(1), pbfgen.I64(-1)},
		{pbfgen.I64(-1), pbfgen.I64(1)},
		{pbfgen.I64(1<<31 - 1), pbfgen.I64(-(1 << 31))},
		{pbfgen.I64(-(1 << 31) - 1), pbfgen.I64(1 << 31)},
		{pbfgen.I64(1<<32 + 1), pbfgen.I64(-(1 << 32) - 1)},
		{pbfgen.I64(90000000000), pbfgen.I64(-180000000000)},
		{pbfgen.I64(-90000000000), pbfgen.I64(180000000000)},
		{nil, pbfgen.I64(180000000000)},
		{pbfgen.I64(-90000000000), nil},
		{nil, nil},
	}
	deref := func(p *int64) int64 {
		if p == nil {
			return 0
		}
		return *p
	}
	ps := func(p *int64) string {
		if p == nil {
			return "-"
		}
		return fmt.Sprint(*p)
	}
	for _, g := range []int32{1, 10, 100, 1000000000, 1<<31 - 1} {
		for _, o := range offs {
			set := pbfgen.Block{Granularity: pbfgen.I32(g), LatOffset: o.lat, LonOffset: o.lon,
				Groups: paramGroups(100, int64(g), deref(o.lat), deref(o.lon), stdTs)}
			emit(fmt.Sprintf("gran=%d latoff=%s lonoff=%s", g, ps(o.lat), ps(o.lon)), set)
		}
	}
	// offsets with the default granularity left out
	for _, o := range offs[2:7] {
		set := pbfgen.Block{LatOffset: o.lat, LonOffset: o.lon, Groups: paramGroups(100, 100, deref(o.lat), deref(o.lon), stdTs)}
		emit(fmt.Sprintf("gran=- latoff=%s lonoff=%s", ps(o.lat), ps(o.lon)), set)
	}
	for _, dg := range []int32{10, 100, 999, 1001, 3600000, 86400000, 1<<31 - 1} {
		// units: the epoch, one unit either side, and about the year 2096
		ts := []int64{0, 1, -1, 4000000000000 / int64(dg)}
		set := pbfgen.Block{DateGranularity: pbfgen.I32(dg), Groups: paramGroups(100, 100, 0, 0, ts)}
		emit(fmt.Sprintf("dategran=%d", dg), set)
		set.Granularity, set.LatOffset = pbfgen.I32(1), pbfgen.I64(1<<32+1)
		set.Groups = paramGroups(100, 1, 1<<32+1, 0, ts)
		emit(fmt.Sprintf("dategran=%d gran=1 latoff=2^32+1", dg), set)
	}
}

// ---- F14: two features that are each covered alone ----
//
// Non-default block parameters (F2) together with every dense column-presence
// variant (F1): the block with parameters carries variant v, its neighbour on the
// same decoder is a default block with the full or the empty variant.
func genF14(add func(tcase), setProcs func([]int)) {
	// the dense part is about state kept inside one decoder: one decoder only
	setProcs([]int{1})
	for v := 0; v < 130; v++ {
		for _, other := range []int{129, 0} {
			da, sa := denseVariant(v, 100)
			db, sb := denseVariant(other, 207)
			p := pbfgen.Block{Granularity: pbfgen.I32(1), LatOffset: pbfgen.I64(-3000000000), LonOffset: pbfgen.I64(5000000001),
				DateGranularity: pbfgen.I32(1), Groups: []pbfgen.Group{{Dense: da}}}
			q := pbfgen.Block{Groups: []pbfgen.Group{{Dense: db}}}
			add(tcase{Family: "F14", Desc: "params+A:" + sa + " then default B:" + sb, NonTrivial: true,
				File: &pbfgen.File{Header: pbfgen.StdHeader(), Blocks: []pbfgen.Block{p, q}}})
			add(tcase{Family: "F14", Desc: "default B:" + sb + " then params+A:" + sa, NonTrivial: true,
				File: &pbfgen.File{Header: pbfgen.StdHeader(), Blocks: []pbfgen.Block{q, p}}})
		}
	}
	setProcs(nil)
	// the same for way / relation Info subsets: date granularity and an absent timestamp
	for iv := 0; iv <= 64; iv++ {
		w := pbfgen.Way{ID: 42, Refs: []int64{1, 2}, Lats: []int64{10, 20}, Lons: []int64{30, 40}}
		rl := pbfgen.Relation{ID: 52, Members: []pbfgen.Member{{Type: 1, Ref: 42, Role: "r"}}}
		if iv > 0 {
			w.Info = pbfgen.SubInfo(pbfgen.FullInfo(9), iv-1)
			rl.Info = pbfgen.SubInfo(pbfgen.FullInfo(8), iv-1)
		}
		p := pbfgen.Block{Granularity: pbfgen.I32(1000), LatOffset: pbfgen.I64(7), LonOffset: pbfgen.I64(-7), DateGranularity: pbfgen.I32(60000),
			Groups: []pbfgen.Group{{Ways: []pbfgen.Way{fatWay(41), w}}, {Relations: []pbfgen.Relation{fatRelation(51), rl}}}}
		q := pbfgen.Block{Groups: []pbfgen.Group{{Ways: []pbfgen.Way{w, fatWay(43)}}, {Relations: []pbfgen.Relation{rl, fatRelation(53)}}}}
		add(tcase{Family: "F14", Desc: fmt.Sprintf("params + way/relation info=%d, then default", iv-1), NonTrivial: true,
			File: &pbfgen.File{Header: pbfgen.StdHeader(), Blocks: []pbfgen.Block{p, q, p}}})
	}
}

// ---- F15: tag-list shapes and the string-table index 0 ----

func genF15(add func(tcase)) {
	manyTags := func(n int) [][2]string {
		var t [][2]string
		for i := 0; i < n; i++ {
			t = append(t, [2]string{fmt.Sprintf("k%03d", i), fmt.Sprintf("v%d", i%3)})
		}
		return t
	}
	shapes := []struct {
		name string
		tags [][2]string
	}{
		{"one tag", [][2]string{{"a", "b"}}},
		{"duplicate key", [][2]string{{"k", "1"}, {"k", "2"}, {"k", "1"}}},
		{"key equals value", [][2]string{{"x", "x"}, {"y", "x"}, {"x", "y"}}},
		{"empty key and empty value", [][2]string{{"", ""}, {"a", ""}, {"", "b"}}},
		{"unsorted keys", [][2]string{{"z", "1"}, {"a", "2"}, {"m", "3"}}},
		{"127 tags", manyTags(127)},
		{"128 tags", manyTags(128)},
		{"129 tags", manyTags(129)},
	}
	for _, sh := range shapes {
		for _, z := range []bool{false, true} {
			// the shape on every kind, each between elements with other tag counts
			d := &pbfgen.Dense{Info: true, Cols: pbfgen.ColsMask(63), KeysVals: true}
			for i, tg := range [][][2]string{{{"p", "q"}}, sh.tags, nil, sh.tags, manyTags(2)} {
				n := pbfgen.DenseNode(int64(i+1), int64(i+1))
				n.Tags = tg
				d.Nodes = append(d.Nodes, n)
			}
			w := pbfgen.Way{ID: 42, Tags: sh.tags, Refs: []int64{1, 2}}
			rl := pbfgen.Relation{ID: 52, Tags: sh.tags, Members: []pbfgen.Member{{Type: 0, Ref: 1, Role: ""}, {Type: 1, Ref: 42, Role: "x"}}}
			b := pbfgen.Block{EmptyAtZero: z, Groups: []pbfgen.Group{{Dense: d}, {Ways: []pbfgen.Way{fatWay(41), w, {ID: 44, Refs: []int64{1}}, w}},
				{Relations: []pbfgen.Relation{fatRelation(51), rl, {ID: 54, NoMembers: true}, rl}}}}
			add(tcase{Family: "F15", Desc: fmt.Sprintf("tags: %s, empty string at index 0=%v", sh.name, z), NonTrivial: true,
				File: &pbfgen.File{Header: pbfgen.StdHeader(), Blocks: []pbfgen.Block{b, {Groups: mixedGroups(300, false)}}}})
		}
	}
	// a real string at string-table index 0, used as a role, a tag key, a tag value and a user
	// name from there (0 is only special in the keys of dense nodes)
	for _, zs := range []string{"x", "outer", "a"} {
		for _, withDense := range []bool{false, true} {
			w := pbfgen.Way{ID: 42, Tags: [][2]string{{zs, "v"}, {"k", zs}}, Refs: []int64{1, 2}, Info: pbfgen.FullInfo(42)}
			u := zs
			w.Info.User = &u
			rl := pbfgen.Relation{ID: 52, Tags: [][2]string{{"type", zs}}, Members: []pbfgen.Member{{Type: 0, Ref: 1, Role: zs}, {Type: 1, Ref: 42, Role: "x"}, {Type: 2, Ref: 7, Role: zs}}}
			gs := []pbfgen.Group{{Relations: []pbfgen.Relation{rl, fatRelation(51)}}, {Ways: []pbfgen.Way{w, fatWay(41)}}}
			if withDense {
				d := &pbfgen.Dense{Info: true, Cols: pbfgen.ColsMask(63), KeysVals: true}
				for i := 1; i <= 3; i++ {
					n := pbfgen.DenseNode(int64(i), int64(i))
					n.Tags = [][2]string{{zs, "dense value"}, {"dense key", zs}}
					n.User = zs
					d.Nodes = append(d.Nodes, n)
				}
				gs = append(gs, pbfgen.Group{Dense: d})
			}
			add(tcase{Family: "F15", Desc: fmt.Sprintf("string %q at string-table index 0, dense group=%v", zs, withDense), NonTrivial: true,
				File: &pbfgen.File{Header: pbfgen.StdHeader(), Blocks: []pbfgen.Block{{ZeroString: zs, Groups: gs}, {Groups: mixedGroups(300, false)}}}})
		}
	}
	// the fields of Way and Relation messages written in the opposite order (vals before keys,
	// lons before lats before refs, types before memids before roles, info before the id)
	for _, withLoc := range []bool{false, true} {
		w := pbfgen.Way{ID: 42, Tags: [][2]string{{"highway", "path"}, {"name", "x"}}, Refs: []int64{1, 2, 3}, Info: pbfgen.FullInfo(42), FieldsReversed: true}
		if withLoc {
			w.Lats, w.Lons = []int64{10, 20, 30}, []int64{40, 50, 60}
		}
		rl := pbfgen.Relation{ID: 52, Tags: [][2]string{{"type", "route"}}, Info: pbfgen.FullInfo(52), FieldsReversed: true,
			Members: []pbfgen.Member{{Type: 0, Ref: 1, Role: "stop"}, {Type: 1, Ref: 42, Role: ""}, {Type: 2, Ref: 7, Role: "x"}}}
		add(tcase{Family: "F15", Desc: fmt.Sprintf("way and relation fields in reverse order, way locations=%v", withLoc), NonTrivial: true,
			File: &pbfgen.File{Header: pbfgen.StdHeader(), Blocks: []pbfgen.Block{{Groups: []pbfgen.Group{{Ways: []pbfgen.Way{fatWay(41), w, fatWay(43)}},
				{Relations: []pbfgen.Relation{fatRelation(51), rl, fatRelation(53)}}}}, {Groups: mixedGroups(300, false)}}}})
	}
	// keys_vals present although no node has a tag (one 0 per node), first / last node tagless
	for _, pat := range []string{"---", "t--", "--t", "-t-", "ttt"} {
		d := &pbfgen.Dense{Info: true, Cols: pbfgen.ColsMask(63), KeysVals: true}
		for i, c := range pat {
			n := pbfgen.DenseNode(int64(i+1), int64(i+1))
			if c == '-' {
				n.Tags = nil
			}
			d.Nodes = append(d.Nodes, n)
		}
		add(tcase{Family: "F15", Desc: "dense tag pattern " + pat + " with keys_vals present", NonTrivial: true,
			File: &pbfgen.File{Header: pbfgen.StdHeader(), Blocks: []pbfgen.Block{{Groups: []pbfgen.Group{{Dense: d}, {Dense: d}}}, {Groups: mixedGroups(300, false)}}}})
	}
	// string-table index 0 as a real (empty) string: anonymous users, empty roles,
	// empty tag values, in every kind and with every user pattern of F11
	for _, full := range []bool{true, false} {
		n1, n2, n3 := pbfgen.DenseNode(1, 1), pbfgen.DenseNode(2, 2), pbfgen.DenseNode(3, 3)
		n1.User, n1.UID = "", 0
		n2.Tags = [][2]string{{"note", ""}, {"", "empty key"}}
		n3.User = ""
		d := &pbfgen.Dense{Info: true, Cols: pbfgen.ColsMask(63), KeysVals: true, Nodes: []pbfgen.DNode{n1, n2, n3}}
		wi, ri := pbfgen.FullInfo(3), pbfgen.FullInfo(4)
		wi.User, ri.User = pbfgen.Str(""), pbfgen.Str("")
		if !full {
			wi, ri = &pbfgen.Info{User: pbfgen.Str("")}, &pbfgen.Info{User: pbfgen.Str(""), UID: pbfgen.I32(0)}
			d.Cols = pbfgen.ColsMask(16)
		}
		w := pbfgen.Way{ID: 3, Info: wi, Tags: [][2]string{{"name", ""}, {"", ""}}, Refs: []int64{1, 2}}
		rl := pbfgen.Relation{ID: 4, Info: ri, Tags: [][2]string{{"", "v"}},
			Members: []pbfgen.Member{{Type: 0, Ref: 1, Role: ""}, {Type: 1, Ref: 3, Role: ""}, {Type: 2, Ref: 9, Role: "x"}, {Type: 0, Ref: 2, Role: ""}}}
		for _, extra := range []int{0, 200} {
			var es []string
			for i := 0; i < extra; i++ {
				es = append(es, fmt.Sprintf("unused-%d", i))
			}
			b := pbfgen.Block{EmptyAtZero: true, ExtraStrings: es, Groups: []pbfgen.Group{{Dense: d}, {Ways: []pbfgen.Way{fatWay(41), w, fatWay(43)}},
				{Relations: []pbfgen.Relation{fatRelation(51), rl, fatRelation(53)}}}}
			add(tcase{Family: "F15", Desc: fmt.Sprintf("empty user / role / value at string index 0, full info=%v, %d unused strings", full, extra), NonTrivial: true,
				File: &pbfgen.File{Header: pbfgen.StdHeader(), Blocks: []pbfgen.Block{b, {Groups: mixedGroups(300, false)}, b}}})
		}
	}
}

// ---- F16: other call sequences on the scanner ----
//
// The property is about what Scan/Object/Err and Header deliver, not about one
// order of calls or one way of delivering the bytes: Scan without a Header() call first; Header() asked twice and
// again after the scan; Scan called again after it returned false. Judged: the
// objects and Err() as always, every Header() VALUE (the error of a Header()
// call made after the scan ended is not judged: the text does not say what it
// is), a Scan after the end delivers nothing more.

func genF16(add func(tcase)) {
	for _, mode := range []string{"scan-first", "header-twice", "scan-past-end", "header-between", "reader-1-byte", "reader-7-bytes", "reader-eof-with-data", "three-scans", "caller-appends"} {
		for _, nb := range []int{0, 1, 2, 5, 14} {
			var blocks []pbfgen.Block
			for i := 0; i < nb; i++ {
				g := mixedGroups(int64(100*(i+1)), i%2 == 0)
				b := pbfgen.Block{Groups: []pbfgen.Group{g[i%3]}, Enc: pbfgen.Enc{Raw: i%3 == 1}}
				if i == 3 {
					b.Groups = nil
				}
				blocks = append(blocks, b)
			}
			for _, hdr := range []int{0, 1, 2} {
				if hdr == 0 && nb == 0 {
					continue
				}
				f := &pbfgen.File{Blocks: blocks}
				switch hdr {
				case 1:
					f.Header = pbfgen.StdHeader()
				case 2:
					f.Header = &pbfgen.Header{BBox: &[4]int64{-1, 1, 1, -1}, Required: []string{"OsmSchema-V0.6"}, Optional: []string{"x"},
						WritingProgram: pbfgen.Str("w"), Source: pbfgen.Str("s"), ReplTimestamp: pbfgen.I64(0), ReplSeq: pbfgen.I64(0), ReplURL: pbfgen.Str("u")}
				}
				add(tcase{Family: "F16", Desc: fmt.Sprintf("%s: %d blocks, header variant %d", mode, nb, hdr), File: f, Mode: mode, NonTrivial: nb >= 2})
			}
		}
	}
}

// ---- F17: framing limits and zlib stream variants ----

// indexFor returns indexdata of the length that makes the BlobHeader of the file
// block exactly want bytes long.
func indexFor(typ string, blob []byte, want int) []byte {
	for n := want - 40; n <= want; n++ {
		if n < 0 {
			continue
		}
		idx := make([]byte, n)
		fb := pbfgen.EncodeFileBlock(typ, blob, pbfgen.FileBlockOpts{IndexData: idx})
		if len(fb)-4-len(blob) == want {
			return idx
		}
	}
	panic("no indexdata length gives the wanted BlobHeader size")
}

func genF17(add func(tcase), quick bool) {
	// BlobHeader sizes up to the documented limit (must be less than 64 KiB)
	for _, size := range []int{127, 128, 16383, 16384, 65534, 65535} {
		size := size
		add(tcase{Family: "F17", Desc: fmt.Sprintf("BlobHeader of %d bytes (indexdata) on the header block and on the second data block", size), NonTrivial: true,
			Lazy: func() *pbfgen.File {
				h := pbfgen.StdHeader()
				h.Enc.IndexData = indexFor("OSMHeader", pbfgen.EncodeBlob(h.Bytes(), pbfgen.BlobOpts{}), size)
				b := pbfgen.Block{Groups: mixedGroups(100, true), Enc: pbfgen.Enc{Raw: true}}
				b.Enc.IndexData = indexFor("OSMData", pbfgen.EncodeBlob(b.PrimitiveBlock(), pbfgen.BlobOpts{Raw: true}), size)
				return &pbfgen.File{Header: h, Blocks: []pbfgen.Block{{Groups: mixedGroups(200, false)}, b, {Groups: mixedGroups(300, true)}}}
			}})
	}
	// zlib streams of every kind a writer may produce: stored blocks, fastest,
	// best, Huffman only; on the header and on blocks of different sizes
	for _, lvl := range []int{0, 1, 9, -2} {
		lvl := lvl
		enc := pbfgen.Enc{ZlibLevel: &lvl}
		h := pbfgen.StdHeader()
		h.Enc = enc
		big := make([]string, 3000)
		for i := range big {
			big[i] = fmt.Sprintf("string number %d %s", i, strings.Repeat("x", i%50))
		}
		f := &pbfgen.File{Header: h, Blocks: []pbfgen.Block{
			{Groups: mixedGroups(100, true), Enc: enc},
			{Groups: mixedGroups(200, false), ExtraStrings: big, Enc: enc},
			{Enc: enc},
			{Groups: mixedGroups(300, true)},
			{Groups: mixedGroups(400, true), Enc: enc},
		}}
		add(tcase{Family: "F17", Desc: fmt.Sprintf("zlib level %d", lvl), File: f, NonTrivial: true})
	}
	// many groups in one block, many blocks in one file (F5/F10 stop at 3 groups, 27 blocks)
	for _, n := range []int{64, 200} {
		var gs []pbfgen.Group
		var blocks []pbfgen.Block
		for i := 0; i < n; i++ {
			g := mixedGroups(int64(100*(i+1)), i%2 == 0)[i%3]
			if i%7 == 6 {
				g = pbfgen.Group{} // an empty group in the rotation
			}
			gs = append(gs, g)
			blocks = append(blocks, pbfgen.Block{Groups: []pbfgen.Group{g}, Enc: pbfgen.Enc{Raw: i%3 == 1}})
		}
		add(tcase{Family: "F17", Desc: fmt.Sprintf("%d groups in one block", n), NonTrivial: true,
			File: &pbfgen.File{Header: pbfgen.StdHeader(), Blocks: []pbfgen.Block{{Groups: gs}, {Groups: mixedGroups(7, true)}, {Groups: gs}}}})
		add(tcase{Family: "F17", Desc: fmt.Sprintf("%d blocks of one group", n), NonTrivial: true,
			File: &pbfgen.File{Header: pbfgen.StdHeader(), Blocks: blocks}})
	}
	if quick {
		return
	}
	// thorough: blobs up to the documented limit (a Blob must be less than 32 MiB;
	// uncompressed data of up to 32 MiB), raw and zlib, then a small block on the
	// same decoder
	const maxBlob = 32 * 1024 * 1024
	for _, kind := range []string{"raw blob of 32 MiB - 1", "raw blob of 16 MiB", "zlib blob of 32 MiB - 1 uncompressed", "stored zlib blob of 32 MiB - 1 in all"} {
		kind := kind
		add(tcase{Family: "F17", Desc: kind + ", then small blocks", NonTrivial: true, Lazy: func() *pbfgen.File {
			mk := func(pad int, enc pbfgen.Enc) pbfgen.Block {
				return pbfgen.Block{ExtraStrings: []string{strings.Repeat("p", pad)}, Groups: mixedGroups(100, true), Enc: enc}
			}
			zero := 0
			var enc pbfgen.Enc
			var target int
			size := func(b *pbfgen.Block) int { // the quantity that has to hit target
				pb := b.PrimitiveBlock()
				if kind == "zlib blob of 32 MiB - 1 uncompressed" {
					return len(pb)
				}
				return len(pbfgen.EncodeBlob(pb, pbfgen.BlobOpts{Raw: enc.Raw, ZlibLevel: enc.ZlibLevel}))
			}
			switch kind {
			case "raw blob of 32 MiB - 1":
				enc, target = pbfgen.Enc{Raw: true}, maxBlob-1
			case "raw blob of 16 MiB":
				enc, target = pbfgen.Enc{Raw: true}, maxBlob/2
			case "zlib blob of 32 MiB - 1 uncompressed":
				enc, target = pbfgen.Enc{}, maxBlob-1
			default:
				enc, target = pbfgen.Enc{ZlibLevel: &zero}, maxBlob-1
			}
			pad := target - 4096
			b := mk(pad, enc)
			for i := 0; i < 4; i++ {
				got := size(&b)
				if got == target {
					break
				}
				pad += target - got
				b = mk(pad, enc)
			}
			if size(&b) != target {
				panic(fmt.Sprintf("F17: cannot build a %s (got %d)", kind, size(&b)))
			}
			return &pbfgen.File{Header: pbfgen.StdHeader(), Blocks: []pbfgen.Block{{Groups: mixedGroups(200, false)}, b, {Groups: mixedGroups(300, true)}, b, {Groups: mixedGroups(400, true)}}}
		}})
	}
}

// ---- F18: header values at their boundaries (widens F6) and more string classes (widens F7) ----

func genF18(add func(tcase)) {
	data := []pbfgen.Block{{Groups: mixedGroups(10, false)}}
	hdr := func(desc string, h *pbfgen.Header) {
		for _, raw := range []bool{false, true} {
			hh := *h
			hh.Enc = pbfgen.Enc{Raw: raw}
			add(tcase{Family: "F18", Desc: fmt.Sprintf("header %s raw=%v", desc, raw), NonTrivial: true, File: &pbfgen.File{Header: &hh, Blocks: data}})
		}
	}
	for _, seq := range []int64{127, 128, 1<<31 - 1, 1 << 31, 1 << 32, 1<<53 + 1, math.MaxInt64} {
		hdr(fmt.Sprintf("replication sequence number %d", seq), &pbfgen.Header{ReplSeq: pbfgen.I64(seq)})
	}
	for _, ts := range []int64{1<<31 - 1, 1 << 32, 9223372036, 9223372037, -2208988800} {
		// seconds: 2038, 2106, either side of the last int64 nanosecond, 1900
		hdr(fmt.Sprintf("replication timestamp %d", ts), &pbfgen.Header{ReplTimestamp: pbfgen.I64(ts), ReplSeq: pbfgen.I64(1)})
	}
	boxes := map[string][4]int64{
		"the whole world":       {-180000000000, 180000000000, 90000000000, -90000000000},
		"one nanodegree":        {-1, 1, 1, -1},
		"a point at 0,0":        {0, 0, 0, 0},
		"beyond 2^32 and 2^31":  {1<<32 + 1, 1<<32 + 2, 1<<31 + 1, 1 << 31},
		"antimeridian (l > r)":  {179000000000, -179000000000, 10, -10},
		"negative beyond -2^32": {-(1 << 32) - 2, -(1 << 32) - 1, -(1 << 31) - 1, -(1 << 31) - 2},
	}
	for _, name := range []string{"the whole world", "one nanodegree", "a point at 0,0", "beyond 2^32 and 2^31", "antimeridian (l > r)", "negative beyond -2^32"} {
		bb := boxes[name]
		hdr("bbox "+name, &pbfgen.Header{BBox: &bb, Required: []string{"OsmSchema-V0.6"}})
	}
	var many []string
	for i := 0; i < 300; i++ {
		many = append(many, fmt.Sprintf("Feature-%d", i))
	}
	long := strings.Repeat("0123456789abcdef", 70000/16)
	hdr("optional features: empty string, duplicates, non-ASCII", &pbfgen.Header{Optional: []string{"", "Sort.Type_then_ID", "Sort.Type_then_ID", "größe", " "}})
	hdr("300 optional features", &pbfgen.Header{Optional: many})
	hdr("required features repeated", &pbfgen.Header{Required: []string{"DenseNodes", "OsmSchema-V0.6", "DenseNodes", "DenseNodes"}})
	hdr("one required, one optional", &pbfgen.Header{Required: []string{"HistoricalInformation"}, Optional: []string{"HistoricalInformation"}})
	hdr("70000-byte strings", &pbfgen.Header{WritingProgram: pbfgen.Str(long), Source: pbfgen.Str(long[1:]), ReplURL: pbfgen.Str(long[2:]), Optional: []string{long[3:]}})
	hdr("strings with NUL, newline and only blanks", &pbfgen.Header{WritingProgram: pbfgen.Str("a\x00b"), Source: pbfgen.Str("line1\nline2\t"), ReplURL: pbfgen.Str("  ")})

	// more string classes in every string position of the data blocks (as F7)
	classes := []struct{ name, s string }{
		{"blank", " "}, {"blanks and newlines", " \n\t\r "}, {"NUL inside", "a\x00b"}, {"only NUL", "\x00"}, {"DEL and control", "\x7f\x01\x1f"},
		{"127 bytes", strings.Repeat("a", 127)}, {"128 bytes", strings.Repeat("b", 128)}, {"16383 bytes", strings.Repeat("c", 16383)},
		{"16384 bytes", strings.Repeat("d", 16384)}, {"70000 bytes", long}, {"combining and RTL", "é שלום ‏"},
		{"4-byte runes only", "\U0001F600\U00010348"}, {"BOM first", "\ufeffx"}, {"digits", "0"}, {"looks like an index", "\x01"},
		{"2-byte rune ends at byte 128", strings.Repeat("a", 126) + "é"},
	}
	for _, cl := range classes {
		for _, pos := range f7Positions {
			add(tcase{Family: "F18", Desc: "string class " + cl.name + " at " + pos, File: f7File(cl.s, pos), NonTrivial: true})
		}
	}
}
