//go:build !cgo

package main

const cgoEnabled = false
