// C01 — PBF scan yields exactly the encoded header and elements, field for field.
//
// Bounded-exhaustive enumeration (Engine B): complete cartesian products of
// optional-part presence, block parameters, element shapes, file structures,
// header subsets and string classes, written by the independent encoder
// gen/pbfgen, scanned by the real osmpbf.Scanner with several decoder counts and
// compared field for field with the objects the format defines for the abstract
// model. Nothing is sampled.
package main

import (
	"fmt"
	"hash/fnv"
	"os"
	"sort"
	"strconv"
	"strings"

	"verif/gen/pbfgen"
	"verif/gen/pbfrun"
	"verif/kit"
)

type tcase struct {
	Family string
	Desc   string
	File   *pbfgen.File
	Procs  int
	// NonTrivial by the evidence rule: >= 2 blocks or >= 1 absent optional part.
	NonTrivial bool
	// Mode selects the call sequence on the scanner: "" = Header(), Scan to the
	// end, Err(); the others are described at scanMode (F16).
	Mode string
	// Lazy builds File on first use (files that are expensive to build are built
	// by the one worker that runs them, not by every worker process).
	Lazy func() *pbfgen.File
}

func (c *tcase) file() *pbfgen.File {
	if c.File == nil {
		c.File = c.Lazy()
	}
	return c.File
}

type replayCase struct {
	Family string
	Desc   string
	Procs  int
	Mode   string
	Hex    string
}

func main() {
	kit.Main("C01", "exploration", func(r *kit.Run) {
		r.Rule("complete products per family F1..F8 (F8: string tables large enough for 2- and 3-byte string ids; F9: element counts 63..8001 and id/coordinate magnitudes that cross varint and length boundaries; F10: every decoder count 1..34 on files of 0..8 blocks with and without header; F12: every numeric field at 0, +-1, 127/128, 2^31, 2^32, 2^40, 2^53+1 and the ends of its type, one field at a time, and repeated values; F13: granularity 1..2^31-1, offsets beyond 32 bits up to +-90/+-180 degrees, date granularity 10 ms..2^31-1 ms, ways without locations in blocks with offsets; F14: block parameters x column/field presence; F15: tag-list shapes and string-table index 0 as the empty string; F16: other call sequences and piecewise readers; F17: BlobHeader up to 65535 bytes, zlib levels, thorough: blobs up to 32 MiB - 1; F18: header values and string classes at their boundaries) (see DESIGN.md C01 and props/c01/boundary.go; quick restricts F1's A x B square to B = A with one column flipped / info removed / keys_vals flipped / complement / full / empty) x decoder counts; a case is one (file, procs) scan; " +
			"non-trivial = file has >= 2 data blocks or at least one optional column/field/part absent; distinct = FNV of file bytes + procs")
		r.Assume("gen/pbfgen's hand-written protobuf encoder and its expected-object computation follow osmformat.proto/fileformat.proto")
		r.Assume("zlib blobs without raw_size, non-packed repeated fields and plain Node groups are outside the enumerated valid-file domain")
		r.Assume("not judged: instants after 2262-04-11T23:47:16Z (kept out, see props/c01/probes.go), a keys_vals column present with length 0, decoder counts below 1, the error value of a Header() call made after the scan ended")
		procs := []int{1, 3}
		if !r.Quick() {
			procs = []int{1, 2, 3, 8, 16, 32}
		}
		if v := os.Getenv("C01_PROCS"); v != "" {
			// the cgo pass of the thorough tier repeats the enumeration with fewer decoder counts
			procs = nil
			for _, f := range strings.Fields(v) {
				if n, err := strconv.Atoi(f); err == nil {
					procs = append(procs, n)
				}
			}
		}
		r.Set("procs", procs)
		r.Set("cgo_build", cgoEnabled)
		var cases []tcase
		fams := map[string]int{}
		only := []int(nil)
		onlyFamily := os.Getenv("C01_ONLY") // debugging aid: run one family (never used by ./check)
		add := func(c tcase) {
			if onlyFamily != "" && c.Family != onlyFamily {
				return
			}
			ps := procs
			if only != nil {
				ps = only
			}
			for _, p := range ps {
				c.Procs = p
				cases = append(cases, c)
				fams[c.Family]++
			}
		}
		// F1 is about state cached inside ONE decoder: the full square runs with a
		// single decoder (both blocks on the same worker); the multi-decoder
		// settings get the diagonal band.
		only = []int{1}
		if r.Quick() {
			genF1(add, 2)
		} else {
			genF1(add, 0)
		}
		only = procs[1:]
		genF1(add, 1)
		only = nil
		genF2(add)
		genF3(add)
		genF4(add)
		genF5(add, r.Quick())
		genF6(add)
		genF7(add)
		genF8(add)
		genF9(add)
		genF11(add)
		genBoundaries(add, func(p []int) { only = p }, r.Quick())
		genLateTimestamps(add)
		if os.Getenv("C01_PROBE") != "" {
			genProbes(add, func(p []int) { only = p }) // inputs kept out of the enumeration, see probes.go
		}
		// F10: every decoder count 1..34 (channel capacities 10/n change at 2,3,4,6,11) on files of 0..8, 14, 15, 20 and 27 blocks
		if os.Getenv("C01_PROCS") == "" {
			only = nil
			for p := 1; p <= 34; p++ {
				only = append(only, p)
			}
			genF10(add)
			only = nil
		}
		r.Set("family_counts", fams)
		r.ParIsolated(len(cases), func(i int) { runCase(r, &cases[i]) }, func(i int, what, detail string) {
			c := &cases[i]
			r.Violation(c.Family+"/process-"+what+"/"+kit.CrashClass(detail), fmt.Sprintf("%s procs=%d: the scanning process ended in a %s:\n%s", c.Desc, c.Procs, what, detail),
				replayCase{Family: c.Family, Desc: c.Desc, Procs: c.Procs, Mode: c.Mode, Hex: hexOf(c.file().Encode().Data)})
		})
	})
}

func runCase(r *kit.Run, c *tcase) {
	file := c.file()
	enc := file.Encode()
	h := fnv.New64a()
	h.Write(enc.Data)
	fmt.Fprintf(h, "|%d", c.Procs)
	if c.Mode != "" {
		fmt.Fprintf(h, "|%s", c.Mode)
	}
	r.Eval(1)
	if c.NonTrivial {
		r.NontrivialHash(h.Sum64())
	}
	if r.WantSample() {
		r.Sample(map[string]interface{}{"family": c.Family, "desc": c.Desc, "procs": c.Procs, "bytes": len(enc.Data), "objects": sampleIDs(file.Expected())})
	}
	fail := func(clause, diff string) {
		r.Violation(c.Family+"/"+clause+"/"+pbfgen.Class(diff),
			fmt.Sprintf("%s procs=%d: %s", c.Desc, c.Procs, diff),
			replayCase{Family: c.Family, Desc: c.Desc, Procs: c.Procs, Mode: c.Mode, Hex: hexOf(enc.Data)})
	}
	var res pbfrun.Result
	if c.Mode == "" {
		res = pbfrun.Scan(enc.Data, c.Procs, nil)
	} else {
		var seq string
		res, seq = scanMode(r, enc.Data, c.Procs, c.Mode, file.ExpectedHeader())
		if seq != "" {
			fail("call-sequence", seq)
			return
		}
	}
	if res.HeaderErr != nil {
		fail("header-error", res.HeaderErr.Error())
		return
	}
	if d := pbfgen.DiffHeader(res.Header, file.ExpectedHeader()); d != "" {
		fail("header", d)
		return
	}
	if res.Err != nil {
		fail("scan-error", res.Err.Error())
		return
	}
	if d := pbfgen.DiffObjects(res.Objects, file.Expected()); d != "" {
		fail("objects", d)
	}
}

// ---- F1: consecutive-block dense column presence ----

func denseVariant(v int, base int64) (*pbfgen.Dense, string) {
	// v in [0,130): kv = v%2, info variant = v/2: 0 = no info, 1..64 = column subset mask (iv-1)
	kv := v%2 == 1
	iv := v / 2
	d := &pbfgen.Dense{KeysVals: kv}
	desc := "noinfo"
	if iv > 0 {
		d.Info = true
		d.Cols = pbfgen.ColsMask(iv - 1)
		desc = fmt.Sprintf("cols=%06b", iv-1)
	}
	if kv {
		desc += "+kv"
	}
	for i := int64(0); i < 2; i++ {
		n := pbfgen.DenseNode(base+i, base+i)
		if !kv {
			n.Tags = nil
		}
		if i == 1 && kv {
			n.Tags = nil // a tagless node among tagged ones
		}
		d.Nodes = append(d.Nodes, n)
	}
	return d, desc
}

// f1Neighbour selects, for the quick tier, the B variants that matter for state
// cached from block A: B = A with exactly one column removed or added, A without
// info, A with keys_vals flipped, the complement of A's columns, the full and
// the empty variant, and A itself. (The thorough tier runs the full square.)
func f1Neighbour(a, b int) bool {
	if b == a || b <= 1 || b >= 128 || b == a^1 {
		return true
	}
	ia, ib := a/2, b/2 // 0 = no info, k+1 = column mask k
	if a%2 != b%2 {
		return false
	}
	if ia == 0 || ib == 0 {
		return true
	}
	x := (ia - 1) ^ (ib - 1)
	return x&(x-1) == 0 || x == 63
}

func genF1(add func(tcase), band int) {
	for a := 0; a < 130; a++ {
		for b := 0; b < 130; b++ {
			if band == 1 && !(b == a || b == 0 || b == 129 || b == 129-a) {
				continue
			}
			if band == 2 && !f1Neighbour(a, b) {
				continue
			}
			da, sa := denseVariant(a, 100)
			db, sb := denseVariant(b, 207)
			f := &pbfgen.File{Header: pbfgen.StdHeader(), Blocks: []pbfgen.Block{
				{Groups: []pbfgen.Group{{Dense: da}}},
				{Groups: []pbfgen.Group{{Dense: db}}},
			}}
			add(tcase{Family: "F1", Desc: "A:" + sa + " B:" + sb, File: f, NonTrivial: true})
		}
	}
	// two dense groups inside ONE block (same decoder, same block)
	for a := 0; a < 130; a++ {
		for _, b := range []int{0, 1, 2 * 64, 2*64 + 1, 2 * 33, 2*22 + 1} {
			da, sa := denseVariant(a, 100)
			db, sb := denseVariant(b, 207)
			f := &pbfgen.File{Header: pbfgen.StdHeader(), Blocks: []pbfgen.Block{
				{Groups: []pbfgen.Group{{Dense: da}, {Dense: db}}},
				{Groups: []pbfgen.Group{{Dense: db}, {Dense: da}}},
			}}
			add(tcase{Family: "F1", Desc: "one block, groups A:" + sa + " B:" + sb, File: f, NonTrivial: true})
		}
	}
}

// ---- F2: block parameters ----

func mixedGroups(seed int64, withLoc bool) []pbfgen.Group {
	d := &pbfgen.Dense{Info: true, Cols: pbfgen.ColsMask(63), KeysVals: true,
		Nodes: []pbfgen.DNode{pbfgen.DenseNode(seed+1, seed+1), pbfgen.DenseNode(seed+2, seed+2)}}
	w := pbfgen.Way{ID: seed + 10, Tags: [][2]string{{"highway", "residential"}}, Info: pbfgen.FullInfo(seed + 3),
		Refs: []int64{seed + 1, seed + 2, seed - 5}}
	if withLoc {
		w.Lats = []int64{515000000 + seed, 515000999, 514000000}
		w.Lons = []int64{-1200000, -1300000 + seed, 25}
	}
	rel := pbfgen.Relation{ID: seed + 20, Tags: [][2]string{{"type", "route"}}, Info: pbfgen.FullInfo(seed + 4),
		Members: []pbfgen.Member{{Type: 0, Ref: seed + 1, Role: "stop"}, {Type: 1, Ref: seed + 10, Role: ""}, {Type: 2, Ref: 3, Role: "sub"}}}
	return []pbfgen.Group{{Dense: d}, {Ways: []pbfgen.Way{w}}, {Relations: []pbfgen.Relation{rel}}}
}

func genF2(add func(tcase)) {
	grans := []*int32{nil, pbfgen.I32(1), pbfgen.I32(100), pbfgen.I32(1000), pbfgen.I32(12345)}
	offs := []*int64{nil, pbfgen.I64(0), pbfgen.I64(987654321), pbfgen.I64(-123456789)}
	dgs := []*int32{nil, pbfgen.I32(1), pbfgen.I32(1000), pbfgen.I32(60000)}
	ps := func(p interface{}) string {
		switch v := p.(type) {
		case *int32:
			if v == nil {
				return "-"
			}
			return fmt.Sprint(*v)
		case *int64:
			if v == nil {
				return "-"
			}
			return fmt.Sprint(*v)
		}
		return "?"
	}
	for _, g := range grans {
		for _, la := range offs {
			for _, lo := range offs {
				for _, dg := range dgs {
					for _, first := range []bool{false, true} {
						set := pbfgen.Block{Granularity: g, LatOffset: la, LonOffset: lo, DateGranularity: dg, ParamsFirst: first, Groups: mixedGroups(100, true)}
						set2 := set
						set2.Groups = mixedGroups(300, true)
						plain := pbfgen.Block{Groups: mixedGroups(200, true)}
						desc := fmt.Sprintf("gran=%s latoff=%s lonoff=%s dategran=%s paramsFirst=%v", ps(g), ps(la), ps(lo), ps(dg), first)
						nt := g == nil || la == nil || lo == nil || dg == nil
						add(tcase{Family: "F2", Desc: "P,default: " + desc, NonTrivial: true,
							File: &pbfgen.File{Header: pbfgen.StdHeader(), Blocks: []pbfgen.Block{set, plain}}})
						add(tcase{Family: "F2", Desc: "default,P: " + desc, NonTrivial: true,
							File: &pbfgen.File{Header: pbfgen.StdHeader(), Blocks: []pbfgen.Block{plain, set}}})
						add(tcase{Family: "F2", Desc: "P alone: " + desc, NonTrivial: nt,
							File: &pbfgen.File{Header: pbfgen.StdHeader(), Blocks: []pbfgen.Block{set}}})
						_ = set2
					}
				}
			}
		}
	}
}

// ---- F3: way shapes ----

func fatWay(id int64) pbfgen.Way {
	return pbfgen.Way{ID: id, Tags: [][2]string{{"a", "1"}, {"b", "2"}, {"c", "3"}}, Info: pbfgen.FullInfo(id),
		Refs: []int64{10, 20, 30, 5}, Lats: []int64{1, 2, 3, 4}, Lons: []int64{5, 6, 7, 8}}
}

func genF3(add func(tcase)) {
	tagSets := [][][2]string{nil, {{"k", "v"}}, {{"k", "v"}, {"z", ""}}}
	type refShape struct {
		name   string
		noRefs bool
		refs   []int64
	}
	refShapes := []refShape{{"norefs", true, nil}, {"emptyrefs", false, []int64{}}, {"1ref", false, []int64{77}}, {"3refs", false, []int64{1000, 3, 1000000000000}}}
	for iv := 0; iv <= 64; iv++ {
		for ti, tags := range tagSets {
			for _, rs := range refShapes {
				for _, loc := range []bool{false, true} {
					if loc && len(rs.refs) == 0 {
						continue
					}
					w := pbfgen.Way{ID: 42, Tags: tags, Refs: rs.refs, NoRefs: rs.noRefs}
					if iv > 0 {
						w.Info = pbfgen.SubInfo(pbfgen.FullInfo(9), iv-1)
					}
					if loc {
						w.Lats = []int64{-900000000, 5, 77}[:len(rs.refs)]
						w.Lons = []int64{1800000000, -6, 0}[:len(rs.refs)]
					}
					desc := fmt.Sprintf("way info=%d tags=%d %s loc=%v", iv-1, ti, rs.name, loc)
					// the fat predecessor in the same group: nothing may be inherited
					f := &pbfgen.File{Header: pbfgen.StdHeader(), Blocks: []pbfgen.Block{
						{Groups: []pbfgen.Group{{Ways: []pbfgen.Way{fatWay(41), w, fatWay(43)}}}},
						{Groups: []pbfgen.Group{{Ways: []pbfgen.Way{w}}}},
					}}
					add(tcase{Family: "F3", Desc: desc, File: f, NonTrivial: true})
				}
			}
		}
	}
}

// ---- F4: relation shapes ----

func fatRelation(id int64) pbfgen.Relation {
	return pbfgen.Relation{ID: id, Tags: [][2]string{{"a", "1"}, {"b", "2"}, {"c", "3"}}, Info: pbfgen.FullInfo(id),
		Members: []pbfgen.Member{{0, 1, "x"}, {1, 2, "y"}, {2, 3, "z"}, {1, 4, "w"}}}
}

func genF4(add func(tcase)) {
	tagSets := [][][2]string{nil, {{"type", "multipolygon"}}, {{"k", "v"}, {"", "empty key"}}}
	type memShape struct {
		name string
		no   bool
		ms   []pbfgen.Member
	}
	shapes := []memShape{{"nomembers", true, nil}, {"emptymembers", false, []pbfgen.Member{}},
		{"1member", false, []pbfgen.Member{{2, 99, "outer"}}},
		{"3members", false, []pbfgen.Member{{0, 1000000000000, ""}, {1, 5, "inner"}, {2, 4, "rôle"}}}}
	for iv := 0; iv <= 64; iv++ {
		for ti, tags := range tagSets {
			for _, ms := range shapes {
				rl := pbfgen.Relation{ID: 52, Tags: tags, Members: ms.ms, NoMembers: ms.no}
				if iv > 0 {
					rl.Info = pbfgen.SubInfo(pbfgen.FullInfo(8), iv-1)
				}
				desc := fmt.Sprintf("relation info=%d tags=%d %s", iv-1, ti, ms.name)
				f := &pbfgen.File{Header: pbfgen.StdHeader(), Blocks: []pbfgen.Block{
					{Groups: []pbfgen.Group{{Relations: []pbfgen.Relation{fatRelation(51), rl, fatRelation(53)}}}},
					{Groups: []pbfgen.Group{{Relations: []pbfgen.Relation{rl}}}},
				}}
				add(tcase{Family: "F4", Desc: desc, File: f, NonTrivial: true})
			}
		}
	}
}

// ---- F5: file structure ----

func groupMenu(seed int64) [][]pbfgen.Group {
	mg := mixedGroups(seed, false)
	d, w, rl := mg[0], mg[1], mg[2]
	emptyDense := pbfgen.Group{Dense: &pbfgen.Dense{Info: true, Cols: pbfgen.ColsMask(63), KeysVals: true}}
	w2 := pbfgen.Group{Ways: []pbfgen.Way{fatWay(seed + 30), {ID: seed + 31, NoRefs: true}}}
	return [][]pbfgen.Group{
		{},
		{d},
		{w},
		{rl},
		{d, w, rl},
		{w, d},
		{rl, w2},
		{emptyDense, w},
		{{Changesets: []int64{1, 2}}, d},
		{{}, rl}, // an empty primitive group
	}
}

func genF5(add func(tcase), quick bool) {
	encs := []pbfgen.Enc{{}, {Raw: true}, {Raw: true, RawSizeOnRaw: true}, {IndexData: []byte{1, 2, 3}}}
	encName := []string{"zlib", "raw", "raw+rawsize", "zlib+indexdata"}
	nmenu := len(groupMenu(0))
	var rec func(blocks []pbfgen.Block, desc []string, depth, max int, ei int)
	emit := func(blocks []pbfgen.Block, desc []string, ei int) {
		bs := make([]pbfgen.Block, len(blocks))
		copy(bs, blocks)
		for i := range bs {
			bs[i].Enc = encs[ei]
			if ei == 0 && i%2 == 1 {
				bs[i].Enc = encs[1] // alternate zlib/raw inside one file
			}
			if i == 1 {
				bs[i].ExtraStrings = []string{"unused", "also unused"}
			}
		}
		h := pbfgen.StdHeader()
		h.Enc = encs[ei]
		add(tcase{Family: "F5", Desc: fmt.Sprintf("%d blocks [%s] enc=%s", len(bs), strings.Join(desc, " | "), encName[ei]),
			File: &pbfgen.File{Header: h, Blocks: bs}, NonTrivial: len(bs) >= 2})
	}
	rec = func(blocks []pbfgen.Block, desc []string, depth, max int, ei int) {
		if depth == max {
			emit(blocks, desc, ei)
			return
		}
		menu := groupMenu(int64(1000 * (depth + 1)))
		for mi := 0; mi < nmenu; mi++ {
			rec(append(blocks, pbfgen.Block{Groups: menu[mi]}), append(desc, fmt.Sprintf("m%d", mi)), depth+1, max, ei)
		}
	}
	for ei := range encs {
		for nb := 0; nb <= 3; nb++ {
			if quick && nb == 3 && ei > 1 {
				continue // quick: 3-block products for zlib and raw only
			}
			rec(nil, nil, 0, nb, ei)
		}
	}
}

// ---- F6: header ----

func genF6(add func(tcase)) {
	feats := []string{"OsmSchema-V0.6", "DenseNodes", "HistoricalInformation"}
	for mask := 0; mask < 256; mask++ {
		h := &pbfgen.Header{}
		if mask&1 != 0 {
			h.BBox = &[4]int64{-123456789012, 98765432109, 89999999999, -45000000001}
		}
		if mask&2 != 0 {
			h.Required = []string{feats[0], feats[1]}
		}
		if mask&4 != 0 {
			h.Optional = []string{"Sort.Type_then_ID", "LocationsOnWays"}
		}
		if mask&8 != 0 {
			h.WritingProgram = pbfgen.Str("osmium/1.14 é")
		}
		if mask&16 != 0 {
			h.Source = pbfgen.Str("http://www.openstreetmap.org/api/0.6")
		}
		if mask&32 != 0 {
			h.ReplTimestamp = pbfgen.I64(1609459200 + int64(mask))
		}
		if mask&64 != 0 {
			h.ReplSeq = pbfgen.I64(4242 + int64(mask))
		}
		if mask&128 != 0 {
			h.ReplURL = pbfgen.Str("https://planet.osm.org/replication/minute")
		}
		for _, raw := range []bool{false, true} {
			hh := *h
			hh.Enc = pbfgen.Enc{Raw: raw}
			add(tcase{Family: "F6", Desc: fmt.Sprintf("header mask=%08b raw=%v", mask, raw), NonTrivial: mask != 255,
				File: &pbfgen.File{Header: &hh, Blocks: []pbfgen.Block{{Groups: mixedGroups(10, false)}}}})
		}
	}
	// every subset of the three supported required features, in both orders
	for mask := 0; mask < 8; mask++ {
		var req []string
		for i, f := range feats {
			if mask&(1<<uint(i)) != 0 {
				req = append(req, f)
			}
		}
		for _, rev := range []bool{false, true} {
			rq := append([]string{}, req...)
			if rev {
				for i, j := 0, len(rq)-1; i < j; i, j = i+1, j-1 {
					rq[i], rq[j] = rq[j], rq[i]
				}
			}
			add(tcase{Family: "F6", Desc: fmt.Sprintf("required=%v", rq), NonTrivial: true,
				File: &pbfgen.File{Header: &pbfgen.Header{Required: rq, BBox: &[4]int64{0, 0, 0, 0}}, Blocks: []pbfgen.Block{{Groups: mixedGroups(10, false)}}}})
		}
	}
	// present-but-zero header fields: a field that is present with its zero value
	// is still present (replication timestamp 0 is 1970-01-01, not "no timestamp")
	for _, ts := range []int64{0, -1, 1, 1 << 31, 253402300799} {
		for _, seq := range []int64{0, 1} {
			h := &pbfgen.Header{ReplTimestamp: pbfgen.I64(ts), ReplSeq: pbfgen.I64(seq), ReplURL: pbfgen.Str(""), WritingProgram: pbfgen.Str(""), Source: pbfgen.Str("")}
			add(tcase{Family: "F6", Desc: fmt.Sprintf("replication timestamp=%d seq=%d, empty strings", ts, seq), NonTrivial: true,
				File: &pbfgen.File{Header: h, Blocks: []pbfgen.Block{{Groups: mixedGroups(10, false)}}}})
		}
	}
	// header only, no data blocks
	add(tcase{Family: "F6", Desc: "header only", NonTrivial: true, File: &pbfgen.File{Header: pbfgen.StdHeader()}})
}

// ---- F7: strings ----

var f7Positions = []string{"dense-user", "dense-key", "dense-val", "way-user", "way-key", "way-val", "rel-user", "rel-key", "rel-val", "rel-role", "all"}

// f7File puts s at one string position (or at all of them) of a block with a
// dense group, a way and a relation.
func f7File(s, pos string) *pbfgen.File {
	pick := func(p, def string) string {
		if pos == p || pos == "all" {
			return s
		}
		return def
	}
	dn := pbfgen.DenseNode(1, 1)
	dn.User = pick("dense-user", "du")
	dn.Tags = [][2]string{{pick("dense-key", "dk"), pick("dense-val", "dv")}, {"k2", "v2"}}
	dn2 := pbfgen.DenseNode(2, 2)
	wi := pbfgen.FullInfo(3)
	wi.User = pbfgen.Str(pick("way-user", "wu"))
	w := pbfgen.Way{ID: 3, Info: wi, Refs: []int64{1, 2}, Tags: [][2]string{{pick("way-key", "wk"), pick("way-val", "wv")}}}
	ri := pbfgen.FullInfo(4)
	ri.User = pbfgen.Str(pick("rel-user", "ru"))
	rl := pbfgen.Relation{ID: 4, Info: ri, Tags: [][2]string{{pick("rel-key", "rk"), pick("rel-val", "rv")}},
		Members: []pbfgen.Member{{1, 3, pick("rel-role", "role")}, {0, 1, "other"}}}
	return &pbfgen.File{Header: pbfgen.StdHeader(), Blocks: []pbfgen.Block{{Groups: []pbfgen.Group{
		{Dense: &pbfgen.Dense{Info: true, Cols: pbfgen.ColsMask(63), KeysVals: true, Nodes: []pbfgen.DNode{dn, dn2}}},
		{Ways: []pbfgen.Way{w}}, {Relations: []pbfgen.Relation{rl}}}}}}
}

func genF7(add func(tcase)) {
	long := strings.Repeat("0123456789", 30)
	classes := map[string]string{"ascii": "plain", "utf8": "naïve 日本語 \U0001F600", "empty": "", "long300": long}
	order := []string{"ascii", "utf8", "empty", "long300"}
	for _, cn := range order {
		for _, pos := range f7Positions {
			add(tcase{Family: "F7", Desc: "string class " + cn + " at " + pos, File: f7File(classes[cn], pos), NonTrivial: cn != "ascii"})
		}
	}
}

// ---- F8: large string tables (string ids that need 2- and 3-byte varints) ----

func genF8(add func(tcase)) {
	for _, n := range []int{100, 126, 127, 128, 129, 255, 256, 1000, 16382, 16383, 16384, 16390} {
		extra := make([]string, n)
		for i := range extra {
			extra[i] = fmt.Sprintf("unused-%d", i)
		}
		groups := mixedGroups(40, true)
		groups = append(groups, pbfgen.Group{Ways: []pbfgen.Way{fatWay(61), {ID: 62, Tags: [][2]string{{"only", "tag"}}, Refs: []int64{1}}}},
			pbfgen.Group{Relations: []pbfgen.Relation{fatRelation(71), {ID: 72, Tags: [][2]string{{"k", "v"}}, Members: []pbfgen.Member{{Type: 0, Ref: 5, Role: "r"}}}}})
		blk := pbfgen.Block{ExtraStrings: extra, Groups: groups}
		plain := pbfgen.Block{Groups: mixedGroups(50, false)}
		add(tcase{Family: "F8", Desc: fmt.Sprintf("%d unused string table entries before the used ones", n), NonTrivial: true,
			File: &pbfgen.File{Header: pbfgen.StdHeader(), Blocks: []pbfgen.Block{blk, plain, blk}}})
	}
}

// ---- F9: element counts and values that cross varint / length boundaries ----

func genF9(add func(tcase)) {
	for _, n := range []int{63, 64, 127, 128, 129, 1000, 8000, 8001} {
		d := &pbfgen.Dense{Info: true, Cols: pbfgen.ColsMask(63), KeysVals: true}
		for i := 0; i < n; i++ {
			nd := pbfgen.DenseNode(int64(i)*3-50, int64(i%17))
			switch i % 5 {
			case 0:
				nd.ID = int64(i) + 1<<40 // large deltas up and down
			case 1:
				nd.ID = -int64(i) - 7
				nd.Lat, nd.Lon = -900000000+int64(i), 1800000000-int64(i)
			case 2:
				nd.Tags = nil
			}
			d.Nodes = append(d.Nodes, nd)
		}
		refs := make([]int64, n)
		lats := make([]int64, n)
		lons := make([]int64, n)
		var members []pbfgen.Member
		var tags [][2]string
		for i := 0; i < n; i++ {
			refs[i] = int64(i*i) - int64(n)*3 + (int64(i%3) << 33)
			lats[i], lons[i] = int64(i)*1000-4000, -int64(i)*999
			if i < 600 {
				members = append(members, pbfgen.Member{Type: i % 3, Ref: refs[i], Role: fmt.Sprintf("role%d", i%5)})
			}
			if i < 300 {
				tags = append(tags, [2]string{fmt.Sprintf("key%d", i), fmt.Sprintf("value %d", i%7)})
			}
		}
		w := pbfgen.Way{ID: 1<<35 + int64(n), Info: pbfgen.FullInfo(3), Tags: tags, Refs: refs, Lats: lats, Lons: lons}
		w2 := pbfgen.Way{ID: 5, Refs: []int64{1, 2}}
		rl := pbfgen.Relation{ID: 1<<36 + int64(n), Info: pbfgen.FullInfo(4), Tags: tags, Members: members}
		f := &pbfgen.File{Header: pbfgen.StdHeader(), Blocks: []pbfgen.Block{
			{Groups: []pbfgen.Group{{Dense: d}, {Ways: []pbfgen.Way{w, w2}}, {Relations: []pbfgen.Relation{rl}}}},
			{Groups: mixedGroups(70, true)},
			{Groups: []pbfgen.Group{{Ways: []pbfgen.Way{w2, w}}, {Dense: d}}, Enc: pbfgen.Enc{Raw: true}},
		}}
		add(tcase{Family: "F9", Desc: fmt.Sprintf("%d dense nodes / way refs / members per element, large and negative ids", n), File: f, NonTrivial: true})
	}
}

// ---- F11: uid / user name combinations ----
//
// The same uid under different user names (a user who renamed), the same name
// under different uids, uid 0 with a name, a uid without name - inside one
// block, in consecutive groups and in consecutive blocks: what one element
// says about a user says nothing about the next.
func genF11(add func(tcase)) {
	type who struct {
		uid  int32
		name string
	}
	patterns := map[string][]who{
		"one uid, three names":    {{777, "first"}, {777, "second"}, {777, ""}, {777, "third"}, {777, "first"}, {777, "fourth"}},
		"one name, three uids":    {{1, "same"}, {2, "same"}, {0, "same"}, {3, "same"}, {1, "same"}, {2, "same"}},
		"uid 0 and anonymous":     {{0, "ghost"}, {0, ""}, {5, ""}, {0, "ghost2"}, {5, "five"}, {0, ""}},
		"names swap between uids": {{10, "a"}, {11, "b"}, {10, "b"}, {11, "a"}, {10, "a"}, {11, "b"}},
	}
	names := make([]string, 0, len(patterns))
	for n := range patterns {
		names = append(names, n)
	}
	sort.Strings(names)
	for _, pn := range names {
		ws := patterns[pn]
		mk := func(kind int, id int64, w who) pbfgen.Group {
			switch kind {
			case 0:
				n1, n2 := pbfgen.DenseNode(id, id), pbfgen.DenseNode(id+1, id+1)
				n1.UID, n1.User = w.uid, w.name
				n2.UID, n2.User = ws[(int(id)+1)%len(ws)].uid, ws[(int(id)+1)%len(ws)].name
				return pbfgen.Group{Dense: &pbfgen.Dense{Info: true, Cols: pbfgen.ColsMask(63), KeysVals: true, Nodes: []pbfgen.DNode{n1, n2}}}
			case 1:
				in := pbfgen.FullInfo(id)
				in.UID, in.User = pbfgen.I32(w.uid), pbfgen.Str(w.name)
				return pbfgen.Group{Ways: []pbfgen.Way{{ID: id, Info: in, Refs: []int64{1, 2}}}}
			}
			in := pbfgen.FullInfo(id)
			in.UID, in.User = pbfgen.I32(w.uid), pbfgen.Str(w.name)
			return pbfgen.Group{Relations: []pbfgen.Relation{{ID: id, Info: in, Members: []pbfgen.Member{{Type: 0, Ref: 1, Role: "r"}}}}}
		}
		// layouts: all in one block as consecutive groups / one group per block / two per block
		for _, perBlock := range []int{6, 1, 2} {
			for _, rot := range []int{0, 1, 2} {
				var blocks []pbfgen.Block
				var cur pbfgen.Block
				for i, w := range ws {
					cur.Groups = append(cur.Groups, mk((i+rot)%3, int64(10*(i+1)), w))
					if len(cur.Groups) == perBlock {
						blocks = append(blocks, cur)
						cur = pbfgen.Block{}
					}
				}
				if len(cur.Groups) > 0 {
					blocks = append(blocks, cur)
				}
				add(tcase{Family: "F11", Desc: fmt.Sprintf("%s, %d groups per block, kinds rotated by %d", pn, perBlock, rot), NonTrivial: true,
					File: &pbfgen.File{Header: pbfgen.StdHeader(), Blocks: blocks}})
			}
		}
	}
}

// ---- F10: decoder-count sweep ----

func genF10(add func(tcase)) {
	// 14 and more blocks: one decoder runs further ahead of the consumer than any
	// fixed pool of buffers it may recycle (channel capacities add up to ~13 blocks)
	for _, nb := range []int{0, 1, 2, 3, 4, 5, 6, 7, 8, 14, 15, 20, 27} {
		var blocks []pbfgen.Block
		for i := 0; i < nb; i++ {
			g := mixedGroups(int64(100*(i+1)), i%2 == 0)
			b := pbfgen.Block{Groups: []pbfgen.Group{g[i%3]}}
			if i%4 == 3 {
				b.Groups = nil // an empty block in the rotation
			}
			b.Enc = pbfgen.Enc{Raw: i%3 == 1}
			blocks = append(blocks, b)
		}
		for _, hdr := range []bool{true, false} {
			if !hdr && nb == 0 {
				continue
			}
			f := &pbfgen.File{Blocks: blocks}
			if hdr {
				f.Header = pbfgen.StdHeader()
			}
			add(tcase{Family: "F10", Desc: fmt.Sprintf("%d blocks, header=%v", nb, hdr), File: f, NonTrivial: nb >= 2})
		}
	}
}
