// C06 — Truncated or damaged PBF input ends in an error after a correct prefix.
//
// Fault enumeration (Engine B, crash-isolated worker processes):
//
//	(a) every byte offset of every base file as a cut point x decoder counts;
//	(b) every damage class of a catalogue x every block position x decoder counts.
//
// Oracle: delivered objects == objects of the intact blocks before the fault;
// Err()==nil iff a cut is on a block boundary (never nil for damage); the
// process neither crashes nor hangs.
package main

import (
	"bytes"
	"context"
	"fmt"
	"os"
	"sort"
	"strconv"
	"strings"

	"github.com/paulmach/osm"
	"github.com/paulmach/osm/osmpbf"

	"verif/gen/pbfgen"
	"verif/gen/pbfrun"
	"verif/kit"
)

type fcase struct {
	Kind   string // "cut" or "damage"
	File   string // base file name
	Cut    int    // cut offset (Kind cut)
	Damage string // damage class (Kind damage)
	Pos    int    // file block index the damage is applied to (0 = header block when the file has one)
	Procs  int
	// Mode "" = Header() is called before the first Scan (as the other PBF checks do);
	// "scan" = Scan is the first call, and after it returned false Scan and Err are called once more.
	Mode string `json:",omitempty"`
}

// fileBlock is one framed block of a base file, kept in pieces so that the
// damage catalogue can tamper with any layer.
type fileBlock struct {
	typ     string
	payload []byte // HeaderBlock or PrimitiveBlock bytes
	blob    pbfgen.BlobOpts
	frame   pbfgen.FileBlockOpts
	objects []osm.Object
	block   *pbfgen.Block // nil for the header block
	whole   []byte        // hand-made bytes of the whole file block (extra.go)
}

func (fb *fileBlock) bytes() []byte {
	if fb.whole != nil {
		return fb.whole
	}
	return pbfgen.EncodeFileBlock(fb.typ, pbfgen.EncodeBlob(fb.payload, fb.blob), fb.frame)
}

func baseFile(name string) []fileBlock {
	mk := func(seed int64) []pbfgen.Group {
		d := &pbfgen.Dense{Info: true, Cols: pbfgen.ColsMask(63), KeysVals: true,
			Nodes: []pbfgen.DNode{pbfgen.DenseNode(seed+1, seed+1), pbfgen.DenseNode(seed+2, seed+2)}}
		w := pbfgen.Way{ID: seed + 10, Tags: [][2]string{{"highway", "path"}, {"name", fmt.Sprint(seed)}}, Info: pbfgen.FullInfo(seed + 3),
			Refs: []int64{seed + 1, seed + 2, seed + 7}, Lats: []int64{1, 2, 3}, Lons: []int64{4, 5, 6}}
		rl := pbfgen.Relation{ID: seed + 20, Tags: [][2]string{{"type", "route"}}, Info: pbfgen.FullInfo(seed + 4),
			Members: []pbfgen.Member{{Type: 0, Ref: seed + 1, Role: "stop"}, {Type: 1, Ref: seed + 10, Role: "forward"}}}
		return []pbfgen.Group{{Dense: d}, {Ways: []pbfgen.Way{w}}, {Relations: []pbfgen.Relation{rl}}}
	}
	if name == "multi" {
		// two dense groups, two ways and two relations per block (damage in the second one of
		// each must still void the whole block), and string tables that shrink from block to
		// block (the first invalid index of a block is a valid one of the block before it)
		mk = func(seed int64) []pbfgen.Group {
			d1 := &pbfgen.Dense{Info: true, Cols: pbfgen.ColsMask(63), KeysVals: true,
				Nodes: []pbfgen.DNode{pbfgen.DenseNode(seed+1, seed+1), pbfgen.DenseNode(seed+2, seed+2)}}
			d2 := &pbfgen.Dense{Info: true, Cols: pbfgen.ColsMask(1 | 4 | 16), KeysVals: true,
				Nodes: []pbfgen.DNode{pbfgen.DenseNode(seed+3, seed+3), pbfgen.DenseNode(seed+4, seed+5)}}
			way := func(k int64) pbfgen.Way {
				return pbfgen.Way{ID: seed + 10 + k, Tags: [][2]string{{"highway", "path"}, {"name", fmt.Sprint(seed + k)}}, Info: pbfgen.FullInfo(seed + 3 + k),
					Refs: []int64{seed + 1, seed + 2, seed + 7 + k}, Lats: []int64{1, 2, 3 + k}, Lons: []int64{4, 5, 6 + k}}
			}
			rel := func(k int64) pbfgen.Relation {
				return pbfgen.Relation{ID: seed + 20 + k, Tags: [][2]string{{"type", "route"}, {"ref", fmt.Sprint(k)}}, Info: pbfgen.FullInfo(seed + 4 + k),
					Members: []pbfgen.Member{{Type: 0, Ref: seed + 1, Role: "stop"}, {Type: 1, Ref: seed + 10 + k, Role: "forward"}}}
			}
			return []pbfgen.Group{{Dense: d1}, {Dense: d2}, {Ways: []pbfgen.Way{way(0), way(1)}}, {Relations: []pbfgen.Relation{rel(0), rel(1)}}}
		}
	}
	raw := name == "raw"
	var out []fileBlock
	if name != "noheader" {
		h := pbfgen.StdHeader()
		out = append(out, fileBlock{typ: "OSMHeader", payload: h.Bytes(), blob: pbfgen.BlobOpts{Raw: raw}})
	}
	for i := 0; i < 3; i++ {
		b := &pbfgen.Block{Groups: mk(int64(100 * (i + 1)))}
		if name == "multi" {
			// the four block parameters written out with their default values
			b.Granularity, b.DateGranularity, b.LatOffset, b.LonOffset = pbfgen.I32(100), pbfgen.I32(1000), pbfgen.I64(0), pbfgen.I64(0)
			for k := 0; k < 2*(2-i); k++ {
				b.ExtraStrings = append(b.ExtraStrings, fmt.Sprintf("unused%d", k))
			}
		}
		out = append(out, fileBlock{typ: "OSMData", payload: b.PrimitiveBlock(), blob: pbfgen.BlobOpts{Raw: raw}, objects: b.Expected(), block: b})
	}
	return out
}

var baseNames = []string{"zlib", "raw", "noheader"}

// damage catalogue: name -> where it applies and how it tampers
type damage struct {
	name   string
	header bool // applicable to the header block
	data   bool // applicable to data blocks
	apply  func(fb *fileBlock)
}

func catalogue() []damage {
	inner := func(target, name string) damage {
		return damage{name: target + ":" + name, data: true, apply: func(fb *fileBlock) {
			b := *fb.block
			b.Damage = target + ":" + name
			fb.payload = b.PrimitiveBlock()
		}}
	}
	ds := []damage{
		{"frame:headersize-64k", true, true, func(fb *fileBlock) { fb.frame.HeaderSizeSet, fb.frame.HeaderSize = true, 64*1024 }},
		{"frame:headersize-topbit", true, true, func(fb *fileBlock) { fb.frame.HeaderSizeSet, fb.frame.HeaderSize = true, 0x80000010 }},
		{"frame:datasize-32m", true, true, func(fb *fileBlock) { fb.frame.DatasizeSet, fb.frame.Datasize = true, 32*1024*1024 }},
		{"frame:datasize-negative", true, true, func(fb *fileBlock) { fb.frame.DatasizeSet, fb.frame.Datasize = true, -5 }},
		{"frame:garbage-blobheader", true, true, func(fb *fileBlock) { fb.frame.GarbageHeader = true }},
		{"blob:garbage", true, true, func(fb *fileBlock) { fb.blob.Garbage = true }},
		{"blob:lzma-only", true, true, func(fb *fileBlock) { fb.blob.LZMA = true }},
		{"blob:no-data", true, true, func(fb *fileBlock) { fb.blob.Empty = true }},
		{"blob:zlib-corrupt", true, true, func(fb *fileBlock) { fb.blob.Raw, fb.blob.CorruptZlib = false, true }},
		{"blob:zlib-truncated", true, true, func(fb *fileBlock) { fb.blob.Raw, fb.blob.TruncateZlib = false, true }},
		{"blob:rawsize-too-small", true, true, func(fb *fileBlock) { fb.blob.Raw, fb.blob.RawSizeDelta = false, -3 }},
		{"blob:rawsize-too-large", true, true, func(fb *fileBlock) { fb.blob.Raw, fb.blob.RawSizeDelta = false, 3 }},
		{"blob:zlib-bad-checksum", true, true, func(fb *fileBlock) { fb.blob.Raw, fb.blob.BadChecksum = false, true }},
		{"type:osmheader-again", false, true, func(fb *fileBlock) {
			fb.typ = "OSMHeader"
			fb.payload = pbfgen.StdHeader().Bytes()
		}},
		{"type:unknown", true, true, func(fb *fileBlock) { fb.typ = "OSMBlobby" }},
		{"header:unsupported-required-feature", true, false, func(fb *fileBlock) {
			h := pbfgen.StdHeader()
			h.Required = append(h.Required, "Sort.Type_then_ID_v9")
			fb.payload = h.Bytes()
		}},
		{"block:plain-nodes", false, true, func(fb *fileBlock) {
			b := *fb.block
			b.Groups = append([]pbfgen.Group{{PlainNodes: []pbfgen.DNode{pbfgen.DenseNode(7, 7)}}}, b.Groups...)
			fb.payload = b.PrimitiveBlock()
		}},
	}
	for _, n := range []string{"no-ids", "no-lats", "no-lons", "lats-short", "lons-short", "versions-short", "timestamps-short",
		"changesets-short", "uids-short", "usids-short", "visibles-short", "keyvals-short", "keyvals-unterminated", "keyvals-odd",
		"user-sid-out-of-range", "keyvals-key-out-of-range", "keyvals-val-out-of-range"} {
		ds = append(ds, inner("dense", n))
	}
	for _, n := range []string{"tag-key-out-of-range", "tag-val-out-of-range", "tag-vals-short", "info-user-sid-out-of-range",
		"lats-longer-than-refs", "lons-longer-than-refs"} {
		ds = append(ds, inner("way", n))
	}
	for _, n := range []string{"tag-key-out-of-range", "tag-val-out-of-range", "tag-vals-short", "info-user-sid-out-of-range",
		"role-out-of-range", "more-roles-than-types", "memids-short"} {
		ds = append(ds, inner("rel", n))
	}
	for _, n := range []string{"no-stringtable", "truncated-varint", "bad-length"} {
		ds = append(ds, inner("block", n))
	}
	return ds
}

func main() {
	kit.Main("C06", "fault_enumeration", func(r *kit.Run) {
		procsCut := []int{1, 2, 3}
		procsDmg := []int{1, 2}
		if !r.Quick() {
			procsCut = []int{1, 2, 3, 8}
			procsDmg = []int{1, 2, 3, 8}
		}
		r.Rule(fmt.Sprintf("(a) every byte offset 0..len of base files %v (thorough: plus multi) as a cut point x procs %v, plus Scan-first mode and procs 0 / 11 around every structural boundary; "+
			"(b) every damage class of the catalogue (plus every wrong raw_size value 0..len+2) x every applicable file-block position x procs %v, files zlib and noheader (header block and middle block also Scan-first and procs 0 / 11); "+
			"(c) structural damage: every node of the protobuf tree of a data block (file zlib: first and last data block; file multi: the second dense group / way / relation of the middle block; thorough: every data block of zlib, noheader, multi), of a header block with every optional field, of BlobHeader and Blob (header block and middle block) x {message ends inside a key, truncated unknown varint / fixed64 / known length-delimited field, declared length = rest of the parent + 1 and 2^31-1, 2^63, 2^64-1 (thorough also 2^31, 2^32-1, on every node), 11-byte varint, column one element short / present but empty / absent}; string-table indexes {table length, -1, 2^31-1, 2^31} at every indexing site; zlib container {bad method, window, check bits, preset dictionary, cut at 0,1,2,3,len-5,len-4,len-1 (thorough: every length)}; raw_size {-1, -2^31, 2^31-1, 32 MiB}; blob encodings 5,6,7,15; "+
			"(d) fault sequences: 6 x 7 pairs of (damaged block, damaged next block | cut inside the next block) x procs; "+
			"non-trivial = the fault is not at offset 0 / not in the first block, so a non-empty correct prefix must be delivered, or the cut is exactly on a block boundary; distinct = the case tuple", baseNames, procsCut, procsDmg))
		r.Assume("block boundaries and per-block expected objects come from gen/pbfgen; each case runs in a worker process so that a panic in a library goroutine is attributed to its case")
		r.Assume("not judged: id/type columns longer than the other columns, way lat/lon columns shorter than refs (silently tolerated by the format's readers)")
		r.Assume("not judged (the property text does not decide them): bytes after the last needed element of a column that is not walked to its end; messages that only lack a field the format calls required (way / relation id, sides of the header bbox, an empty DenseNodes message, a block without string table that nothing references); wire types 3, 4, 6, 7 in unknown fields; a wrong raw_size on a raw blob, a zlib blob without raw_size, bytes after the end of the zlib stream; varints wider than their field (an index of 2^32+k); Skip* options and filters on damaged input")
		{
			keys := []string{}
			for k := range pendingClasses {
				keys = append(keys, k)
			}
			sort.Strings(keys)
			r.Assume("known findings (known_findings.json): structurally damaged elements the library accepts silently are enumerated and reported under the stable key accepted-silently/<class>: " + strings.Join(keys, ", "))
			if cgoBuild {
				r.Assume("not enumerated on the cgo build: " + pendingCgo + " (czlib does not insist on the stream trailer)")
			}
		}
		cat := append(catalogue(), extraCatalogue()...)
		nOriginal := len(catalogue())
		var cases []fcase
		classCount := map[string]int{}
		if r.ReplayPath != "" {
			var c fcase
			r.LoadReplay(&c)
			cases = append(cases, c)
		} else {
			addDamage := func(file, name string, pos int, procs []int, modes ...string) {
				if why, bad := pendingClasses[pendingKey(name)]; bad && os.Getenv("C06_NO_KNOWN") != "" {
					_ = why
					classCount["pending (not enumerated)"]++
					return
				}
				if len(modes) == 0 {
					modes = []string{""}
				}
				fam := name
				if i := strings.Index(name, ":"); i > 0 {
					fam = name[:i]
				}
				for _, p := range procs {
					for _, m := range modes {
						cases = append(cases, fcase{Kind: "damage", File: file, Damage: name, Pos: pos, Procs: p, Mode: m})
						classCount[fam]++
					}
				}
			}
			totals := map[string]int{}
			bounds := map[string][]int{} // start of every block, then the length
			for _, bn := range append(append([]string{}, baseNames...), "multi") {
				total := 0
				for _, fb := range baseFile(bn) {
					bounds[bn] = append(bounds[bn], total)
					total += len(fb.bytes())
				}
				bounds[bn] = append(bounds[bn], total)
				totals[bn] = total
			}
			cutFiles := baseNames
			if !r.Quick() {
				cutFiles = append(append([]string{}, baseNames...), "multi")
			}
			for _, bn := range cutFiles {
				for cut := 0; cut <= totals[bn]; cut++ {
					for _, p := range procsCut {
						cases = append(cases, fcase{Kind: "cut", File: bn, Cut: cut, Procs: p})
					}
					// Scan as the first call, Scan / Err again after the end (quick: one decoder count)
					if bn == "zlib" || !r.Quick() {
						cases = append(cases, fcase{Kind: "cut", File: bn, Cut: cut, Procs: 2, Mode: "scan"})
					}
				}
			}
			// decoder counts 0 (documented as "at least one") and 11 (the first count with unbuffered
			// channels, 10/procs == 0): the offsets around every structural boundary
			for _, b := range bounds["zlib"] {
				for _, d := range []int{-1, 0, 1, 4, 5, 20} {
					if cut := b + d; cut >= 0 && cut <= totals["zlib"] {
						for _, p := range []int{0, 11} {
							cases = append(cases, fcase{Kind: "cut", File: "zlib", Cut: cut, Procs: p})
						}
					}
				}
			}
			for _, bn := range []string{"zlib", "noheader"} {
				fbs := baseFile(bn)
				for di, d := range cat {
					for pos := range fbs {
						isHeader := fbs[pos].block == nil
						if (isHeader && !d.header) || (!isHeader && !d.data) {
							continue
						}
						if d.name == "type:osmheader-again" && pos == 0 {
							continue // a header as the first block is simply a valid file
						}
						if di >= nOriginal && strings.Contains(d.name, "-32m-real-") && (pos != len(fbs)-1 && pos != 0 || bn != "zlib") {
							continue // 32 MiB of input per case: header block and last block of one file
						}
						addDamage(bn, d.name, pos, procsDmg)
						if bn == "zlib" && (pos == 0 || pos == 2) {
							addDamage(bn, d.name, pos, []int{1}, "scan")
							addDamage(bn, d.name, pos, []int{0, 11})
						}
					}
				}
				// every wrong value of raw_size for every block (0 .. payload length + 2)
				for pos := range fbs {
					for k := 0; k <= len(fbs[pos].payload)+2; k++ {
						if k == len(fbs[pos].payload) {
							continue
						}
						addDamage(bn, fmt.Sprintf("blob:rawsize=%d", k), pos, procsDmg)
					}
				}
			}
			// structural damage at every nesting level and the string index alphabet (wiretree.go, extra.go)
			full := !r.Quick()
			type fp struct {
				file string
				pos  []int
			}
			plan := []fp{{"zlib", []int{1, 3}}, {"multi", []int{2}}}
			if full {
				plan = []fp{{"zlib", []int{1, 2, 3}}, {"noheader", []int{0, 1, 2}}, {"multi", []int{1, 2, 3}}}
			}
			for _, pl := range plan {
				fbs := baseFile(pl.file)
				for _, pos := range pl.pos {
					root := parseMsg("PrimitiveBlock", "", fbs[pos].payload)
					for _, op := range append(structuralOps(root, full), stringIndexOps(root)...) {
						if pl.file == "multi" && !full && !(strings.Contains(op, "group1.") || strings.Contains(op, ".way1") || strings.Contains(op, ".rel1") || strings.Contains(op, "granularity:") || strings.Contains(op, "_offset:")) {
							continue // quick: only the second dense group / way / relation of the block and the block parameters
						}
						addDamage(pl.file, "pb:"+op, pos, procsDmg)
					}
				}
			}
			{
				fbs := baseFile("zlib")
				for _, op := range structuralOps(parseMsg("HeaderBlock", "", richHeader().Bytes()), full) {
					addDamage("zlib", "hb:"+op, 0, procsDmg)
				}
				poss := []int{0, 2}
				if full {
					poss = []int{0, 1, 2, 3}
				}
				for _, pos := range poss {
					for _, op := range blobHeaderOps(&fbs[pos], full) {
						addDamage("zlib", "bh:"+op, pos, procsDmg)
					}
					for _, op := range blobOps(&fbs[pos], full) {
						if i := strings.Index(op, ":zcut-"); i > 0 && cgoBuild && os.Getenv("C06_PENDING") == "" {
							if k, _ := strconv.Atoi(op[i+len(":zcut-"):]); zcutYieldsAll(&fbs[pos], k) {
								classCount["pending (not enumerated)"]++
								continue
							}
						}
						addDamage("zlib", "bl:"+op, pos, procsDmg)
					}
				}
			}
			// fault sequences: two damaged blocks in a row (reader-side and decoder-side faults in
			// both orders), and a damaged block followed by a cut: the first fault decides
			seq := []string{"blob:garbage", "type:unknown", "frame:datasize-negative", "blob:zlib-corrupt", "way:tag-key-out-of-range", "dense:no-lats"}
			procsSeq := []int{1, 2, 3}
			if full {
				procsSeq = procsCut
			}
			for _, a := range seq {
				for _, b := range append(append([]string{}, seq...), "cut") {
					addDamage("zlib", "seq:"+a+"+"+b, 2, procsSeq)
					if full {
						addDamage("zlib", "seq:"+a+"+"+b, 1, procsSeq)
						addDamage("noheader", "seq:"+a+"+"+b, 0, procsSeq)
					}
				}
			}
		}
		r.Set("damage_cases_by_family", classCount)
		names := []string{}
		for _, d := range cat {
			names = append(names, d.name)
		}
		sort.Strings(names)
		r.Set("damage_classes", names)
		r.ParIsolated(len(cases), func(i int) { runCase(r, cases[i], cat) }, func(i int, what, detail string) {
			c := cases[i]
			r.Violation(key(c, "process-"+what), fmt.Sprintf("%s: the scanning process ended in a %s:\n%s", desc(c), what, detail), c)
		})
	})
}

func desc(c fcase) string {
	mode := ""
	if c.Mode != "" {
		mode = " mode=" + c.Mode
	}
	if c.Kind == "cut" {
		return fmt.Sprintf("file=%s cut at byte %d procs=%d%s", c.File, c.Cut, c.Procs, mode)
	}
	return fmt.Sprintf("file=%s damage=%s in file block %d procs=%d%s", c.File, c.Damage, c.Pos, c.Procs, mode)
}

// key: oracle clause + fault class. For cuts the class is the position of the
// cut inside its block (prefix / header / blob), for damage the damage name and
// whether the first block or a later one is hit.
func key(c fcase, clause string) string {
	if c.Kind == "cut" {
		return clause + "/cut-" + cutClass(c)
	}
	where := "later-block"
	if c.Pos == 0 {
		where = "first-block"
	}
	dmg := c.Damage
	if _, known := pendingClasses[pendingKey(dmg)]; known && clause == "invented-or-extra-objects" {
		// the recorded behaviour of a known finding: one key per class
		return "accepted-silently/" + pendingKey(dmg)
	}
	if strings.HasPrefix(dmg, "blob:rawsize=") {
		dmg = "blob:rawsize-wrong"
	}
	if strings.Contains(dmg, ":zcut-") {
		dmg = dmg[:strings.Index(dmg, ":zcut-")] + ":zcut"
	}
	return clause + "/" + dmg + "/" + where
}

func cutClass(c fcase) string {
	off := 0
	for bi, fb := range baseFile(c.File) {
		b := fb.bytes()
		if c.Cut < off+len(b) {
			rel := c.Cut - off
			hs := int(b[0])<<24 | int(b[1])<<16 | int(b[2])<<8 | int(b[3])
			first := ""
			if bi == 0 {
				first = "first-block-"
			}
			switch {
			case rel == 0:
				return "on-block-boundary"
			case rel < 4:
				return first + "inside-length-prefix"
			case rel == 4:
				return first + "right-after-length-prefix"
			case rel < 4+hs:
				return first + "inside-blobheader"
			case rel == 4+hs:
				return first + "right-after-blobheader"
			default:
				return first + "inside-blob"
			}
		}
		off += len(b)
	}
	return "on-block-boundary"
}

func runCase(r *kit.Run, c fcase, cat []damage) {
	fbs := baseFile(c.File)
	var data []byte
	var want []osm.Object
	wantErr := true
	nontrivial := false
	switch c.Kind {
	case "cut":
		off := 0
		wantErr = false
		for _, fb := range fbs {
			b := fb.bytes()
			if c.Cut >= off+len(b) {
				want = append(want, fb.objects...)
			} else if c.Cut > off {
				wantErr = true
			}
			off += len(b)
			data = append(data, b...)
		}
		data = data[:c.Cut]
		nontrivial = len(want) > 0 || !wantErr
	case "damage":
		// fault sequences: "seq:<first>+<second>" damages block Pos and block Pos+1,
		// "seq:<first>+cut" damages block Pos and cuts the stream in the middle of block Pos+1
		first, second := c.Damage, ""
		if strings.HasPrefix(c.Damage, "seq:") {
			i := strings.LastIndex(c.Damage, "+")
			first, second = c.Damage[len("seq:"):i], c.Damage[i+1:]
		}
		d := lookupDamage(cat, first)
		for i := range fbs {
			if i == c.Pos {
				d.apply(&fbs[i])
			}
			if i == c.Pos+1 && second != "" && second != "cut" {
				lookupDamage(cat, second).apply(&fbs[i])
			}
			if i < c.Pos {
				want = append(want, fbs[i].objects...)
			}
			b := fbs[i].bytes()
			if i == c.Pos+1 && second == "cut" {
				data = append(data, b[:len(b)/2]...)
				break
			}
			data = append(data, b...)
		}
		nontrivial = len(want) > 0
	}
	r.Case(fmt.Sprintf("%+v", c), nontrivial)
	if r.WantSample() && nontrivial {
		r.Sample(map[string]interface{}{"case": desc(c), "bytes": len(data), "expected_prefix": pbfgen.IDs(want), "expect_error": wantErr})
	}
	fail := func(clause, msg string) { r.Violation(key(c, clause), desc(c)+": "+msg, c) }
	var res pbfrun.Result
	if c.Mode == "scan" {
		s := osmpbf.New(context.Background(), bytes.NewReader(data), c.Procs)
		for s.Scan() {
			res.Objects = append(res.Objects, s.Object())
			if len(res.Objects) > len(want)+64 {
				break
			}
		}
		res.Err = s.Err()
		again := s.Scan()
		err2 := s.Err()
		s.Close()
		if again {
			fail("scan-true-after-the-end", fmt.Sprintf("Scan returned false after %d objects (Err()=%v) and true when called once more", len(res.Objects), res.Err))
			return
		}
		if (res.Err == nil) != (err2 == nil) {
			fail("error-not-sticky", fmt.Sprintf("Err()=%v right after the scan ended, %v after one more Scan", res.Err, err2))
			return
		}
	} else {
		res = pbfrun.Scan(data, c.Procs, nil)
	}
	if d := pbfgen.DiffObjects(res.Objects, want); d != "" {
		if len(res.Objects) > len(want) {
			fail("invented-or-extra-objects", d)
		} else {
			fail("prefix", d)
		}
		return
	}
	if wantErr && res.Err == nil {
		fail("silent-success", fmt.Sprintf("Err() is nil after %d objects although the input is cut/damaged", len(res.Objects)))
		return
	}
	if !wantErr && res.Err != nil {
		fail("error-on-clean-boundary", fmt.Sprintf("Err()=%v for a stream that ends on a block boundary", res.Err))
	}
}

// pendingKey maps a damage name to its entry of pendingClasses: the name itself, or
// for the structural classes the name without indexes in the path.
func pendingKey(name string) string {
	if _, ok := pendingClasses[name]; ok {
		return name
	}
	out := []byte{}
	for i := 0; i < len(name); i++ {
		ch := name[i]
		if ch >= '0' && ch <= '9' && i > 0 && (name[i-1] >= 'a' && name[i-1] <= 'z') && (i+1 == len(name) || name[i+1] == '.' || name[i+1] == ':') && strings.HasPrefix(name, "pb:") {
			continue
		}
		out = append(out, ch)
	}
	return string(out)
}

func lookupDamage(cat []damage, name string) *damage {
	for i := range cat {
		if cat[i].name == name {
			return &cat[i]
		}
	}
	if strings.HasPrefix(name, "blob:rawsize=") {
		// every wrong uncompressed size, not only +-3
		k, _ := strconv.Atoi(strings.TrimPrefix(name, "blob:rawsize="))
		return &damage{name: name, apply: func(fb *fileBlock) {
			fb.blob.Raw, fb.blob.RawSizeDelta = false, int64(k-len(fb.payload))
		}}
	}
	if d := parametric(name); d != nil {
		return d
	}
	kit.Fatalf("unknown damage %q", name)
	return nil
}
