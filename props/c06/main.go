// C06 — Truncated or damaged PBF input ends in an error after a correct prefix.
//
// Fault enumeration (Engine B, crash-isolated worker processes):
//
//	(a) every byte offset of every base file as a cut point x decoder counts;
//	(b) every damage class of a catalogue x every block position x decoder counts.
//
// Oracle: delivered objects == objects of the intact blocks before the fault;
// Err()==nil iff a cut is on a block boundary (never nil for damage); the
// process neither crashes nor hangs.
package main

import (
	"fmt"
	"sort"
	"strconv"
	"strings"

	"github.com/paulmach/osm"

	"verif/gen/pbfgen"
	"verif/gen/pbfrun"
	"verif/kit"
)

type fcase struct {
	Kind   string // "cut" or "damage"
	File   string // base file name
	Cut    int    // cut offset (Kind cut)
	Damage string // damage class (Kind damage)
	Pos    int    // file block index the damage is applied to (0 = header block when the file has one)
	Procs  int
}

// fileBlock is one framed block of a base file, kept in pieces so that the
// damage catalogue can tamper with any layer.
type fileBlock struct {
	typ     string
	payload []byte // HeaderBlock or PrimitiveBlock bytes
	blob    pbfgen.BlobOpts
	frame   pbfgen.FileBlockOpts
	objects []osm.Object
	block   *pbfgen.Block // nil for the header block
}

func (fb *fileBlock) bytes() []byte {
	return pbfgen.EncodeFileBlock(fb.typ, pbfgen.EncodeBlob(fb.payload, fb.blob), fb.frame)
}

func baseFile(name string) []fileBlock {
	mk := func(seed int64) []pbfgen.Group {
		d := &pbfgen.Dense{Info: true, Cols: pbfgen.ColsMask(63), KeysVals: true,
			Nodes: []pbfgen.DNode{pbfgen.DenseNode(seed+1, seed+1), pbfgen.DenseNode(seed+2, seed+2)}}
		w := pbfgen.Way{ID: seed + 10, Tags: [][2]string{{"highway", "path"}, {"name", fmt.Sprint(seed)}}, Info: pbfgen.FullInfo(seed + 3),
			Refs: []int64{seed + 1, seed + 2, seed + 7}, Lats: []int64{1, 2, 3}, Lons: []int64{4, 5, 6}}
		rl := pbfgen.Relation{ID: seed + 20, Tags: [][2]string{{"type", "route"}}, Info: pbfgen.FullInfo(seed + 4),
			Members: []pbfgen.Member{{Type: 0, Ref: seed + 1, Role: "stop"}, {Type: 1, Ref: seed + 10, Role: "forward"}}}
		return []pbfgen.Group{{Dense: d}, {Ways: []pbfgen.Way{w}}, {Relations: []pbfgen.Relation{rl}}}
	}
	raw := name == "raw"
	var out []fileBlock
	if name != "noheader" {
		h := pbfgen.StdHeader()
		out = append(out, fileBlock{typ: "OSMHeader", payload: h.Bytes(), blob: pbfgen.BlobOpts{Raw: raw}})
	}
	for i := 0; i < 3; i++ {
		b := &pbfgen.Block{Groups: mk(int64(100 * (i + 1)))}
		out = append(out, fileBlock{typ: "OSMData", payload: b.PrimitiveBlock(), blob: pbfgen.BlobOpts{Raw: raw}, objects: b.Expected(), block: b})
	}
	return out
}

var baseNames = []string{"zlib", "raw", "noheader"}

// damage catalogue: name -> where it applies and how it tampers
type damage struct {
	name   string
	header bool // applicable to the header block
	data   bool // applicable to data blocks
	apply  func(fb *fileBlock)
}

func catalogue() []damage {
	inner := func(target, name string) damage {
		return damage{name: target + ":" + name, data: true, apply: func(fb *fileBlock) {
			b := *fb.block
			b.Damage = target + ":" + name
			fb.payload = b.PrimitiveBlock()
		}}
	}
	ds := []damage{
		{"frame:headersize-64k", true, true, func(fb *fileBlock) { fb.frame.HeaderSizeSet, fb.frame.HeaderSize = true, 64*1024 }},
		{"frame:headersize-topbit", true, true, func(fb *fileBlock) { fb.frame.HeaderSizeSet, fb.frame.HeaderSize = true, 0x80000010 }},
		{"frame:datasize-32m", true, true, func(fb *fileBlock) { fb.frame.DatasizeSet, fb.frame.Datasize = true, 32*1024*1024 }},
		{"frame:datasize-negative", true, true, func(fb *fileBlock) { fb.frame.DatasizeSet, fb.frame.Datasize = true, -5 }},
		{"frame:garbage-blobheader", true, true, func(fb *fileBlock) { fb.frame.GarbageHeader = true }},
		{"blob:garbage", true, true, func(fb *fileBlock) { fb.blob.Garbage = true }},
		{"blob:lzma-only", true, true, func(fb *fileBlock) { fb.blob.LZMA = true }},
		{"blob:no-data", true, true, func(fb *fileBlock) { fb.blob.Empty = true }},
		{"blob:zlib-corrupt", true, true, func(fb *fileBlock) { fb.blob.Raw, fb.blob.CorruptZlib = false, true }},
		{"blob:zlib-truncated", true, true, func(fb *fileBlock) { fb.blob.Raw, fb.blob.TruncateZlib = false, true }},
		{"blob:rawsize-too-small", true, true, func(fb *fileBlock) { fb.blob.Raw, fb.blob.RawSizeDelta = false, -3 }},
		{"blob:rawsize-too-large", true, true, func(fb *fileBlock) { fb.blob.Raw, fb.blob.RawSizeDelta = false, 3 }},
		{"blob:zlib-bad-checksum", true, true, func(fb *fileBlock) { fb.blob.Raw, fb.blob.BadChecksum = false, true }},
		{"type:osmheader-again", false, true, func(fb *fileBlock) {
			fb.typ = "OSMHeader"
			fb.payload = pbfgen.StdHeader().Bytes()
		}},
		{"type:unknown", true, true, func(fb *fileBlock) { fb.typ = "OSMBlobby" }},
		{"header:unsupported-required-feature", true, false, func(fb *fileBlock) {
			h := pbfgen.StdHeader()
			h.Required = append(h.Required, "Sort.Type_then_ID_v9")
			fb.payload = h.Bytes()
		}},
		{"block:plain-nodes", false, true, func(fb *fileBlock) {
			b := *fb.block
			b.Groups = append([]pbfgen.Group{{PlainNodes: []pbfgen.DNode{pbfgen.DenseNode(7, 7)}}}, b.Groups...)
			fb.payload = b.PrimitiveBlock()
		}},
	}
	for _, n := range []string{"no-ids", "no-lats", "no-lons", "lats-short", "lons-short", "versions-short", "timestamps-short",
		"changesets-short", "uids-short", "usids-short", "visibles-short", "keyvals-short", "keyvals-unterminated", "keyvals-odd",
		"user-sid-out-of-range", "keyvals-key-out-of-range", "keyvals-val-out-of-range"} {
		ds = append(ds, inner("dense", n))
	}
	for _, n := range []string{"tag-key-out-of-range", "tag-val-out-of-range", "tag-vals-short", "info-user-sid-out-of-range",
		"lats-longer-than-refs", "lons-longer-than-refs"} {
		ds = append(ds, inner("way", n))
	}
	for _, n := range []string{"tag-key-out-of-range", "tag-val-out-of-range", "tag-vals-short", "info-user-sid-out-of-range",
		"role-out-of-range", "more-roles-than-types", "memids-short"} {
		ds = append(ds, inner("rel", n))
	}
	for _, n := range []string{"no-stringtable", "truncated-varint", "bad-length"} {
		ds = append(ds, inner("block", n))
	}
	return ds
}

func main() {
	kit.Main("C06", "fault_enumeration", func(r *kit.Run) {
		procsCut := []int{1, 2, 3}
		procsDmg := []int{1, 2}
		if !r.Quick() {
			procsCut = []int{1, 2, 3, 8}
			procsDmg = []int{1, 2, 3, 8}
		}
		r.Rule(fmt.Sprintf("(a) every byte offset 0..len of base files %v as a cut point x procs %v; (b) every damage class of the catalogue (plus every wrong raw_size value 0..len+2) x every applicable file-block position x procs %v, files zlib and noheader; "+
			"non-trivial = the fault is not at offset 0 / not in the first block, so a non-empty correct prefix must be delivered, or the cut is exactly on a block boundary; distinct = the case tuple", baseNames, procsCut, procsDmg))
		r.Assume("block boundaries and per-block expected objects come from gen/pbfgen; each case runs in a worker process so that a panic in a library goroutine is attributed to its case")
		r.Assume("not judged: id/type columns longer than the other columns, way lat/lon columns shorter than refs (silently tolerated by the format's readers)")
		cat := catalogue()
		var cases []fcase
		if r.ReplayPath != "" {
			var c fcase
			r.LoadReplay(&c)
			cases = append(cases, c)
		} else {
			for _, bn := range baseNames {
				total := 0
				for _, fb := range baseFile(bn) {
					total += len(fb.bytes())
				}
				for cut := 0; cut <= total; cut++ {
					for _, p := range procsCut {
						cases = append(cases, fcase{Kind: "cut", File: bn, Cut: cut, Procs: p})
					}
				}
			}
			for _, bn := range []string{"zlib", "noheader"} {
				fbs := baseFile(bn)
				for _, d := range cat {
					for pos := range fbs {
						isHeader := fbs[pos].block == nil
						if (isHeader && !d.header) || (!isHeader && !d.data) {
							continue
						}
						if d.name == "type:osmheader-again" && pos == 0 {
							continue // a header as the first block is simply a valid file
						}
						for _, p := range procsDmg {
							cases = append(cases, fcase{Kind: "damage", File: bn, Damage: d.name, Pos: pos, Procs: p})
						}
					}
				}
				// every wrong value of raw_size for every block (0 .. payload length + 2)
				for pos := range fbs {
					for k := 0; k <= len(fbs[pos].payload)+2; k++ {
						if k == len(fbs[pos].payload) {
							continue
						}
						for _, p := range procsDmg {
							cases = append(cases, fcase{Kind: "damage", File: bn, Damage: fmt.Sprintf("blob:rawsize=%d", k), Pos: pos, Procs: p})
						}
					}
				}
			}
		}
		names := []string{}
		for _, d := range cat {
			names = append(names, d.name)
		}
		sort.Strings(names)
		r.Set("damage_classes", names)
		r.ParIsolated(len(cases), func(i int) { runCase(r, cases[i], cat) }, func(i int, what, detail string) {
			c := cases[i]
			r.Violation(key(c, "process-"+what), fmt.Sprintf("%s: the scanning process ended in a %s:\n%s", desc(c), what, detail), c)
		})
	})
}

func desc(c fcase) string {
	if c.Kind == "cut" {
		return fmt.Sprintf("file=%s cut at byte %d procs=%d", c.File, c.Cut, c.Procs)
	}
	return fmt.Sprintf("file=%s damage=%s in file block %d procs=%d", c.File, c.Damage, c.Pos, c.Procs)
}

// key: oracle clause + fault class. For cuts the class is the position of the
// cut inside its block (prefix / header / blob), for damage the damage name and
// whether the first block or a later one is hit.
func key(c fcase, clause string) string {
	if c.Kind == "cut" {
		return clause + "/cut-" + cutClass(c)
	}
	where := "later-block"
	if c.Pos == 0 {
		where = "first-block"
	}
	dmg := c.Damage
	if strings.HasPrefix(dmg, "blob:rawsize=") {
		dmg = "blob:rawsize-wrong"
	}
	return clause + "/" + dmg + "/" + where
}

func cutClass(c fcase) string {
	off := 0
	for bi, fb := range baseFile(c.File) {
		b := fb.bytes()
		if c.Cut < off+len(b) {
			rel := c.Cut - off
			hs := int(b[0])<<24 | int(b[1])<<16 | int(b[2])<<8 | int(b[3])
			first := ""
			if bi == 0 {
				first = "first-block-"
			}
			switch {
			case rel == 0:
				return "on-block-boundary"
			case rel < 4:
				return first + "inside-length-prefix"
			case rel == 4:
				return first + "right-after-length-prefix"
			case rel < 4+hs:
				return first + "inside-blobheader"
			case rel == 4+hs:
				return first + "right-after-blobheader"
			default:
				return first + "inside-blob"
			}
		}
		off += len(b)
	}
	return "on-block-boundary"
}

func runCase(r *kit.Run, c fcase, cat []damage) {
	fbs := baseFile(c.File)
	var data []byte
	var want []osm.Object
	wantErr := true
	nontrivial := false
	switch c.Kind {
	case "cut":
		off := 0
		wantErr = false
		for _, fb := range fbs {
			b := fb.bytes()
			if c.Cut >= off+len(b) {
				want = append(want, fb.objects...)
			} else if c.Cut > off {
				wantErr = true
			}
			off += len(b)
			data = append(data, b...)
		}
		data = data[:c.Cut]
		nontrivial = len(want) > 0 || !wantErr
	case "damage":
		var d *damage
		for i := range cat {
			if cat[i].name == c.Damage {
				d = &cat[i]
			}
		}
		if strings.HasPrefix(c.Damage, "blob:rawsize=") {
			// every wrong uncompressed size, not only +-3
			k, _ := strconv.Atoi(strings.TrimPrefix(c.Damage, "blob:rawsize="))
			d = &damage{name: c.Damage, apply: func(fb *fileBlock) {
				fb.blob.Raw, fb.blob.RawSizeDelta = false, int64(k-len(fb.payload))
			}}
		}
		if d == nil {
			kit.Fatalf("unknown damage %q", c.Damage)
		}
		for i := range fbs {
			if i == c.Pos {
				d.apply(&fbs[i])
			}
			if i < c.Pos {
				want = append(want, fbs[i].objects...)
			}
			data = append(data, fbs[i].bytes()...)
		}
		nontrivial = len(want) > 0
	}
	r.Case(fmt.Sprintf("%+v", c), nontrivial)
	if r.WantSample() && nontrivial {
		r.Sample(map[string]interface{}{"case": desc(c), "bytes": len(data), "expected_prefix": pbfgen.IDs(want), "expect_error": wantErr})
	}
	res := pbfrun.Scan(data, c.Procs, nil)
	fail := func(clause, msg string) { r.Violation(key(c, clause), desc(c)+": "+msg, c) }
	if d := pbfgen.DiffObjects(res.Objects, want); d != "" {
		if len(res.Objects) > len(want) {
			fail("invented-or-extra-objects", d)
		} else {
			fail("prefix", d)
		}
		return
	}
	if wantErr && res.Err == nil {
		fail("silent-success", fmt.Sprintf("Err() is nil after %d objects although the input is cut/damaged", len(res.Objects)))
		return
	}
	if !wantErr && res.Err != nil {
		fail("error-on-clean-boundary", fmt.Sprintf("Err()=%v for a stream that ends on a block boundary", res.Err))
	}
}
