//go:build !cgo

package main

// cgoBuild: the library decompresses with compress/zlib (osmpbf/zlib_go.go).
const cgoBuild = false
