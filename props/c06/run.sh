#!/bin/bash
# C06 = two programs, one evidence file:
#  1. props/c06 (Engine B): every cut offset and the damage catalogue on the unmodified package, crash-isolated;
#  2. props/c06/sched (Engine A): error ordering of damaged / cut input under every schedule with <= D deviations
#     on the instrumented pipeline (regenerated from the current /repo tree).
ROOT=$(cd "$(dirname "$0")/../.." && pwd)
cd "$ROOT"; . ./env.sh
tier=$1; shift
ov=()
[ -n "${VERIF_OVERLAY:-}" ] && ov=(-overlay "$VERIF_OVERLAY")
bin="${VERIF_BIN:-$ROOT/bin}"
mkdir -p "$bin"
if ! go build "${ov[@]+"${ov[@]}"}" -o "$bin/c06" ./props/c06 2> "$bin/c06.buildlog"; then
  echo "HARNESS-ERROR build of C06 failed"; head -40 "$bin/c06.buildlog"; exit 2
fi
# a replay file written by the schedule part goes to the schedule part
rp=""
prev=""
for a in "$@"; do [ "$prev" = "-replay" ] && rp="$a"; prev="$a"; done
if [ -n "$rp" ] && grep -q '"Scenario"' "$rp" 2>/dev/null; then
  exec "$ROOT/engine/run_a.sh" C06 "$tier" -pkg osmpbf:decode.go,scanner.go,decode_data.go -sub sched -- "$@"
fi
"$bin/c06" -tier "$tier" "$@"; rc1=$?
[ $rc1 -ge 2 ] && exit $rc1
case " $* " in *" -replay "*) exit $rc1;; esac
if [ "$tier" = thorough ] && command -v gcc >/dev/null 2>&1 && CGO_ENABLED=1 go build "${ov[@]+"${ov[@]}"}" -o "$bin/c06cgo" ./props/c06 2> "$bin/c06cgo.buildlog"; then
  # the same fault enumeration on the czlib decompression path (osmpbf/zlib_cgo.go)
  VERIF_EVIDENCE_PART=cgo-czlib "$bin/c06cgo" -tier "$tier" "$@"; rc3=$?
  [ $rc3 -ge 2 ] && exit $rc3
  [ $rc3 -ne 0 ] && rc1=$rc3
fi
VERIF_EVIDENCE_PART=schedules LC_NAME=c06sched "$ROOT/engine/run_a.sh" C06 "$tier" -pkg osmpbf:decode.go,scanner.go,decode_data.go -sub sched -- "$@"; rc2=$?
[ $rc2 -ge 2 ] && exit $rc2
[ $rc1 -ne 0 ] && exit $rc1
exit $rc2
