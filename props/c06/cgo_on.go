//go:build cgo

package main

// cgoBuild: the library decompresses with czlib (osmpbf/zlib_cgo.go).
const cgoBuild = true
