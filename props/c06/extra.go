package main

// Boundary classes of the damage catalogue that need hand-made framing or a
// tampered protobuf tree (see wiretree.go). All of them are addressed by name,
// so a replay file is just the case tuple.
//
//	pb:<path>:<op>   PrimitiveBlock payload of a data block
//	hb:<path>:<op>   HeaderBlock payload (a header with every optional field)
//	bh:<path>:<op>   BlobHeader
//	bl:<path>:<op>   Blob

import (
	"bytes"
	"compress/flate"
	"encoding/binary"
	"fmt"
	"io"
	"strconv"
	"strings"

	"verif/gen/pbfgen"
)

const (
	kib64 = 64 * 1024
	mib32 = 32 * 1024 * 1024
)

// richHeader has every optional header field, so that the structural ops reach
// the nested bounding box and every string.
func richHeader() *pbfgen.Header {
	h := pbfgen.StdHeader()
	h.BBox = &[4]int64{-1200000000, 1300000000, 51500000000, 50100000000}
	h.Optional = []string{"Sort.Type_then_ID"}
	h.Source = pbfgen.Str("c06")
	h.ReplTimestamp = pbfgen.I64(1400000000)
	h.ReplSeq = pbfgen.I64(77)
	h.ReplURL = pbfgen.Str("https://example.invalid/replication")
	return h
}

func frameBytes(hb, blob []byte) []byte {
	out := make([]byte, 4, 4+len(hb)+len(blob))
	binary.BigEndian.PutUint32(out, uint32(len(hb)))
	out = append(out, hb...)
	return append(out, blob...)
}

// intactParts returns the BlobHeader and Blob bytes of the (possibly already tampered) block.
func intactParts(fb *fileBlock) (hb, blob []byte) {
	blob = pbfgen.EncodeBlob(fb.payload, fb.blob)
	all := pbfgen.EncodeFileBlock(fb.typ, blob, fb.frame)
	hs := int(binary.BigEndian.Uint32(all))
	return all[4 : 4+hs], blob
}

// padTo returns payload followed by one unknown length-delimited field (number
// 15, which every reader of the format has to skip) so that the total is size bytes.
func padTo(payload []byte, size int) []byte {
	for l := size - len(payload); l >= 0; l-- {
		var w wbuf
		w.varint(15<<3 | 2)
		w.varint(uint64(l))
		if len(payload)+len(w.b)+l == size {
			out := append(append([]byte{}, payload...), w.b...)
			return append(out, make([]byte, l)...)
		}
	}
	panic("padTo: cannot reach the size")
}

// extraCatalogue: named classes next to the original ones.
func extraCatalogue() []damage {
	setType := func(t string) func(fb *fileBlock) { return func(fb *fileBlock) { fb.typ = t } }
	hsize := func(v uint32) func(fb *fileBlock) {
		return func(fb *fileBlock) { fb.frame.HeaderSizeSet, fb.frame.HeaderSize = true, v }
	}
	dsize := func(v int64) func(fb *fileBlock) {
		return func(fb *fileBlock) { fb.frame.DatasizeSet, fb.frame.Datasize = true, v }
	}
	feature := func(mod func(h *pbfgen.Header)) func(fb *fileBlock) {
		return func(fb *fileBlock) {
			h := pbfgen.StdHeader()
			mod(h)
			fb.payload = h.Bytes()
		}
	}
	return []damage{
		// block sizes: 0, the limit itself with real content behind it, the largest representable values
		{"frame:headersize-0", true, true, hsize(0)},
		{"frame:headersize-2g-1", true, true, hsize(0x7fffffff)},
		{"frame:headersize-max", true, true, hsize(0xffffffff)},
		{"frame:headersize-64k-real", true, true, func(fb *fileBlock) {
			// a complete, well-formed block whose BlobHeader is exactly 64 KiB long (padded index data)
			blob := pbfgen.EncodeBlob(fb.payload, fb.blob)
			for n := kib64 - 40; n < kib64; n++ {
				b := pbfgen.EncodeFileBlock(fb.typ, blob, pbfgen.FileBlockOpts{IndexData: make([]byte, n)})
				if binary.BigEndian.Uint32(b) == kib64 {
					fb.whole = b
					return
				}
			}
			panic("no 64 KiB BlobHeader")
		}},
		{"frame:headersize-70k-real-after-a-large-block", false, true, func(fb *fileBlock) {
			// the same kind of block, its BlobHeader 70 KiB long (over the limit), right behind a
			// well-formed raw block of 96 KiB that holds no objects: whatever the reader keeps
			// from the block before (a buffer that grew, a limit checked only when growing) must
			// not let the oversized header through
			big := pbfgen.EncodeFileBlock("OSMData", pbfgen.EncodeBlob(padTo((&pbfgen.Block{}).PrimitiveBlock(), 96*1024), pbfgen.BlobOpts{Raw: true}), pbfgen.FileBlockOpts{})
			blob := pbfgen.EncodeBlob(fb.payload, fb.blob)
			fb.whole = append(big, pbfgen.EncodeFileBlock(fb.typ, blob, pbfgen.FileBlockOpts{IndexData: make([]byte, 70*1024)})...)
		}},
		{"frame:datasize-minus1", true, true, dsize(-1)},
		{"frame:datasize-minint32", true, true, dsize(-1 << 31)},
		{"frame:datasize-maxint32", true, true, dsize(1<<31 - 1)},
		{"frame:payload-32m-real-raw", true, true, func(fb *fileBlock) {
			// a complete raw block whose uncompressed content is exactly 32 MiB (the format: "must be less than 32 MiB")
			fb.payload = padTo(fb.payload, mib32)
			fb.blob = pbfgen.BlobOpts{Raw: true}
		}},
		{"frame:payload-32m-real-zlib", true, true, func(fb *fileBlock) {
			// the same content in a zlib blob: datasize is small, raw_size says 32 MiB and is correct
			fb.payload = padTo(fb.payload, mib32)
			fb.blob = pbfgen.BlobOpts{}
		}},
		// block type: empty, other case, a longer name
		{"type:empty", true, true, setType("")},
		{"type:lower-case", true, true, func(fb *fileBlock) { fb.typ = strings.ToLower(fb.typ) }},
		{"type:osmdata-suffix", true, true, func(fb *fileBlock) { fb.typ = fb.typ + "2" }},
		// required features
		{"header:required-empty-string", true, false, feature(func(h *pbfgen.Header) { h.Required = append(h.Required, "") })},
		{"header:required-other-case", true, false, feature(func(h *pbfgen.Header) { h.Required = []string{"OsmSchema-V0.6", "densenodes"} })},
		{"header:required-unknown-first", true, false, feature(func(h *pbfgen.Header) { h.Required = append([]string{"LocationsOnWays2"}, h.Required...) })},
		{"header:required-trailing-space", true, false, feature(func(h *pbfgen.Header) { h.Required = []string{"OsmSchema-V0.6", "DenseNodes "} })},
		{"header:required-only-unknown", true, false, feature(func(h *pbfgen.Header) { h.Required = []string{"X"} })},
		// a plain-nodes group that is not the first thing of the block
		{"block:plain-nodes-last-group", false, true, func(fb *fileBlock) {
			b := *fb.block
			b.Groups = append(append([]pbfgen.Group{}, b.Groups...), pbfgen.Group{PlainNodes: []pbfgen.DNode{pbfgen.DenseNode(7, 7)}})
			fb.payload = b.PrimitiveBlock()
		}},
		{"block:plain-node-after-dense-in-one-group", false, true, func(fb *fileBlock) {
			root := parseMsg("PrimitiveBlock", "", fb.payload)
			g := root.find("group0")
			g.kids = append(g.kids, &wnode{field: 1, wt: 2, kind: kBytes, raw: []byte{0x08, 0x0e, 0x40, 0x02, 0x48, 0x04}})
			fb.payload = root.content()
		}},
		{"block:empty-stringtable", false, true, func(fb *fileBlock) {
			root := parseMsg("PrimitiveBlock", "", fb.payload)
			root.find("stringtable").kids = nil
			fb.payload = root.content()
		}},
	}
}

// parametric resolves the pb:/hb:/bh:/bl: names.
func parametric(name string) *damage {
	if len(name) < 4 || name[2] != ':' {
		return nil
	}
	layer, op := name[:2], name[3:]
	switch layer {
	case "pb":
		return &damage{name: name, data: true, apply: func(fb *fileBlock) {
			root := parseMsg("PrimitiveBlock", "", fb.payload)
			applyOp(root, op)
			fb.payload = root.content()
		}}
	case "hb":
		return &damage{name: name, header: true, apply: func(fb *fileBlock) {
			root := parseMsg("HeaderBlock", "", richHeader().Bytes())
			applyOp(root, op)
			fb.payload = root.content()
		}}
	case "bh":
		return &damage{name: name, header: true, data: true, apply: func(fb *fileBlock) {
			hb, blob := intactParts(fb)
			root := parseMsg("BlobHeader", "", hb)
			applyOp(root, op)
			fb.whole = frameBytes(root.content(), blob)
		}}
	case "bl":
		return &damage{name: name, header: true, data: true, apply: func(fb *fileBlock) {
			fb.blob.Raw = false
			_, blob := intactParts(fb)
			root := parseMsg("Blob", "", blob)
			applyBlobOp(root, op)
			fb.whole = pbfgen.EncodeFileBlock(fb.typ, root.content(), fb.frame)
		}}
	}
	return nil
}

// applyBlobOp: the ops of applyOp plus values of raw_size, other encodings and
// damage of the zlib container.
func applyBlobOp(root *wnode, pathOp string) {
	i := strings.LastIndex(pathOp, ":")
	path, op := pathOp[:i], pathOp[i+1:]
	n := root.find(path)
	fcheck := func(z []byte) { // make the two header bytes a multiple of 31 again
		z[1] &^= 0x1f
		z[1] |= byte(31-(int(z[0])<<8|int(z[1]))%31) % 31
	}
	switch {
	case strings.HasPrefix(op, "value="):
		v, err := strconv.ParseInt(op[len("value="):], 10, 64)
		if err != nil {
			panic(err)
		}
		n.val = uint64(v)
	case strings.HasPrefix(op, "field="):
		f, _ := strconv.Atoi(op[len("field="):])
		n.field = f
	case strings.HasPrefix(op, "zcut-"):
		k, _ := strconv.Atoi(op[len("zcut-"):])
		n.raw = n.raw[:k]
	case op == "z-bad-method":
		z := append([]byte{}, n.raw...)
		z[0] = z[0]&0xf0 | 7 // compression method 7 instead of 8 (deflate)
		fcheck(z)
		n.raw = z
	case op == "z-bad-window":
		z := append([]byte{}, n.raw...)
		z[0] = 0x88 // window size 2^16: not allowed
		fcheck(z)
		n.raw = z
	case op == "z-bad-fcheck":
		z := append([]byte{}, n.raw...)
		z[1] ^= 0x01
		n.raw = z
	case op == "z-preset-dictionary":
		z := append([]byte{}, n.raw...)
		z[1] |= 0x20
		fcheck(z)
		n.raw = z
	default:
		applyOp(root, pathOp)
	}
}

// blobOps enumerates the bl: classes for a block whose zlib stream has zlen bytes.
func blobOps(fb *fileBlock, full bool) []string {
	b := *fb
	b.blob.Raw = false
	_, blob := intactParts(&b)
	root := parseMsg("Blob", "", blob)
	z := root.find("zlib_data")
	ops := structuralOps(root, full)
	for _, v := range []int64{-1, -1 << 31, 1<<31 - 1, 1<<31 - 1 - 512, mib32} {
		ops = append(ops, fmt.Sprintf("raw_size:value=%d", v))
	}
	for _, f := range []int{5, 6, 7, 15} { // bzip2 (obsolete), lz4, zstd of later format versions, unassigned
		ops = append(ops, fmt.Sprintf("zlib_data:field=%d", f))
	}
	ops = append(ops, "zlib_data:z-bad-method", "zlib_data:z-bad-window", "zlib_data:z-bad-fcheck", "zlib_data:z-preset-dictionary")
	zl := len(z.raw)
	if full {
		for k := 0; k < zl; k++ {
			ops = append(ops, fmt.Sprintf("zlib_data:zcut-%d", k))
		}
	} else {
		for _, k := range []int{0, 1, 2, 3, zl - 5, zl - 4, zl - 1} {
			ops = append(ops, fmt.Sprintf("zlib_data:zcut-%d", k))
		}
	}
	return ops
}

func blobHeaderOps(fb *fileBlock, full bool) []string {
	hb, _ := intactParts(fb)
	root := parseMsg("BlobHeader", "", hb)
	ops := structuralOps(root, full)
	// both fields are "required" in the format's definition; without them a reader
	// knows neither what the block is nor where it ends
	return append(ops, "type:absent", "datasize:absent", "datasize:value-truncated", "datasize:value-overlong")
}

// zcutYieldsAll reports whether the first k bytes of the block's zlib stream
// already decompress to the complete content (only the end of the deflate
// stream and / or the Adler-32 trailer are missing). Used to name the pending
// class of the cgo build below; compress/flate is used for this classification only.
func zcutYieldsAll(fb *fileBlock, k int) bool {
	b := *fb
	b.blob.Raw = false
	_, blob := intactParts(&b)
	z := parseMsg("Blob", "", blob).find("zlib_data").raw
	// czlib needs up to two bytes less than compress/flate for the last symbols
	for kk := k; kk <= k+2 && kk <= len(z); kk++ {
		if kk < 2 {
			continue
		}
		if got, _ := io.ReadAll(flate.NewReader(bytes.NewReader(z[2:kk]))); bytes.Equal(got, fb.payload) {
			return true
		}
	}
	return false
}

// pendingCgo: on the cgo build (czlib) a zlib stream that is cut after the last
// byte needed to produce the content is decoded without an error (the end of the
// stream and the checksum are never demanded); the pure Go build reports
// "unexpected EOF". Reported to the lead; not enumerated on the cgo build.
const pendingCgo = "bl:zlib_data:zcut-<k> where the first k bytes already yield the whole content (cgo build only)"

// pendingClasses: structurally damaged elements the library accepts silently
// (found by the boundary audit). They are genuine violations of the property
// ("out-of-range ... column references ... never ends in silent success, an
// invented object") that are recorded, not repaired: making the reader stricter
// could reject files that load today. They are always enumerated; when the
// library shows exactly the recorded behaviour (objects delivered, Err()==nil)
// the violation gets the stable key "accepted-silently/<class>" listed in
// known_findings.json; anything else (a crash, a hang, another clause) keeps its
// ordinary key and is reported. C06_NO_KNOWN=1 leaves the classes out.
//
// Two further classes found by the audit were repaired in /repo ("fix: osmpbf:
// the uncompressed size of a blob is validated before it is allocated"): a zlib
// blob with raw_size near 2^31 (int32 overflow of the buffer capacity, panic in
// make) and one whose content is exactly 32 MiB; both are ordinary classes now.
var pendingClasses = map[string]string{
	"pb:group.way.vals:absent":                 "keys without a vals column: the way is delivered without tags, Err()==nil (one val fewer than keys is an error)",
	"pb:group.rel.vals:absent":                 "keys without a vals column: the relation is delivered without tags, Err()==nil",
	"pb:group.rel.memids:absent":               "roles and types without a memids column: the relation is delivered without members, Err()==nil (one memid fewer is an error)",
	"pb:group.rel.types:absent":                "roles and memids without a types column: the relation is delivered without members, Err()==nil (one type fewer is an error)",
	"pb:group.way.refs:absent":                 "lat/lon columns without refs: the way is delivered with node ids 0, Err()==nil (one lat more than refs is an error)",
	"pb:group.way.lats:longer-and-before-refs": "4 lats written before the 3 refs (fields may come in any order): the way is delivered with a 4th node of id 0, Err()==nil (the same columns in field-number order are an error)",
	"pb:group.way.lons:longer-and-before-refs": "as lats",
	"pb:group.way.refs:empty":                  "as refs:absent, the refs field is present with zero length",
	"pb:group.dense.ids:empty":                 "ids field of zero length (on the wire the same message as one without ids, which is an error): the group's nodes vanish, Err()==nil",
}
