package main

// A small protobuf wire-format tree used by the structural part of the damage
// catalogue: an intact message written by gen/pbfgen is parsed along the
// (hand-written) schema of the OSM PBF format below, one node is tampered with,
// and the message is serialized again with the lengths of all enclosing
// messages recomputed - so the damage sits at exactly one nesting level and
// every layer around it stays well-formed. Nothing here comes from /repo.

import (
	"fmt"
	"strings"
)

const (
	kMsg    = iota // embedded message
	kPacked        // packed repeated varints
	kBytes         // string / bytes
	kVarint        // varint scalar
	kFixed         // fixed32 / fixed64 (not used by the format, kept verbatim)
)

type fdesc struct {
	name string
	kind int
	sub  string // message type of a kMsg field
}

var schema = map[string]map[int]fdesc{
	"BlobHeader": {1: {"type", kBytes, ""}, 2: {"indexdata", kBytes, ""}, 3: {"datasize", kVarint, ""}},
	"Blob":       {1: {"raw", kBytes, ""}, 2: {"raw_size", kVarint, ""}, 3: {"zlib_data", kBytes, ""}, 4: {"lzma_data", kBytes, ""}},
	"HeaderBlock": {1: {"bbox", kMsg, "HeaderBBox"}, 4: {"required", kBytes, ""}, 5: {"optional", kBytes, ""},
		16: {"writingprogram", kBytes, ""}, 17: {"source", kBytes, ""}, 32: {"repl_ts", kVarint, ""}, 33: {"repl_seq", kVarint, ""}, 34: {"repl_url", kBytes, ""}},
	"HeaderBBox":     {1: {"left", kVarint, ""}, 2: {"right", kVarint, ""}, 3: {"top", kVarint, ""}, 4: {"bottom", kVarint, ""}},
	"PrimitiveBlock": {1: {"stringtable", kMsg, "StringTable"}, 2: {"group", kMsg, "Group"}, 17: {"granularity", kVarint, ""}, 18: {"date_granularity", kVarint, ""}, 19: {"lat_offset", kVarint, ""}, 20: {"lon_offset", kVarint, ""}},
	"StringTable":    {1: {"s", kBytes, ""}},
	"Group":          {1: {"node", kMsg, "Node"}, 2: {"dense", kMsg, "Dense"}, 3: {"way", kMsg, "Way"}, 4: {"rel", kMsg, "Relation"}, 5: {"changeset", kMsg, "ChangeSet"}},
	"Node":           {1: {"id", kVarint, ""}, 2: {"keys", kPacked, ""}, 3: {"vals", kPacked, ""}, 4: {"info", kMsg, "Info"}, 8: {"lat", kVarint, ""}, 9: {"lon", kVarint, ""}},
	"ChangeSet":      {1: {"id", kVarint, ""}},
	"Dense":          {1: {"ids", kPacked, ""}, 5: {"info", kMsg, "DenseInfo"}, 8: {"lats", kPacked, ""}, 9: {"lons", kPacked, ""}, 10: {"keys_vals", kPacked, ""}},
	"DenseInfo":      {1: {"versions", kPacked, ""}, 2: {"timestamps", kPacked, ""}, 3: {"changesets", kPacked, ""}, 4: {"uids", kPacked, ""}, 5: {"user_sids", kPacked, ""}, 6: {"visibles", kPacked, ""}},
	"Way":            {1: {"id", kVarint, ""}, 2: {"keys", kPacked, ""}, 3: {"vals", kPacked, ""}, 4: {"info", kMsg, "Info"}, 8: {"refs", kPacked, ""}, 9: {"lats", kPacked, ""}, 10: {"lons", kPacked, ""}},
	"Relation":       {1: {"id", kVarint, ""}, 2: {"keys", kPacked, ""}, 3: {"vals", kPacked, ""}, 4: {"info", kMsg, "Info"}, 8: {"roles", kPacked, ""}, 9: {"memids", kPacked, ""}, 10: {"types", kPacked, ""}},
	"Info":           {1: {"version", kVarint, ""}, 2: {"timestamp", kVarint, ""}, 3: {"changeset", kVarint, ""}, 4: {"uid", kVarint, ""}, 5: {"user_sid", kVarint, ""}, 6: {"visible", kVarint, ""}},
}

type wnode struct {
	field int
	wt    int
	kind  int
	typ   string // message type (kMsg and the root)
	path  string
	kids  []*wnode // kMsg
	elems []uint64 // kPacked, values as they are on the wire (zigzag not undone)
	raw   []byte   // kBytes, kFixed
	val   uint64   // kVarint

	// tampering
	tail    []byte // appended to the node's content (inside its declared length)
	lenSet  bool   // declared length = lenVal
	lenVal  uint64
	lenOver bool   // declared length = bytes that remain in the parent + 1
	lastRaw []byte // encoding used for the last element of a packed column
	drop    bool   // the field is not written at all
}

type wbuf struct{ b []byte }

func (w *wbuf) varint(v uint64) {
	for v >= 0x80 {
		w.b = append(w.b, byte(v)|0x80)
		v >>= 7
	}
	w.b = append(w.b, byte(v))
}

func readVarint(p []byte, i int) (uint64, int) {
	var v uint64
	for s := uint(0); ; s += 7 {
		if i >= len(p) {
			panic("wiretree: generator produced a truncated varint")
		}
		c := p[i]
		i++
		v |= uint64(c&0x7f) << s
		if c < 0x80 {
			return v, i
		}
	}
}

// parseMsg parses well-formed bytes of message type typ.
func parseMsg(typ, path string, p []byte) *wnode {
	n := &wnode{kind: kMsg, typ: typ, path: path, wt: 2}
	seen := map[int]int{}
	for i := 0; i < len(p); {
		var tag uint64
		tag, i = readVarint(p, i)
		f, wt := int(tag>>3), int(tag&7)
		d, known := schema[typ][f]
		name := d.name
		if !known {
			name = fmt.Sprintf("f%d", f)
		}
		cp := name
		if k := seen[f]; k > 0 || (known && (typ == "PrimitiveBlock" && f == 2 || typ == "Group" || typ == "StringTable" || typ == "HeaderBlock" && (f == 4 || f == 5))) {
			cp = fmt.Sprintf("%s%d", name, k)
		}
		seen[f]++
		if path != "" {
			cp = path + "." + cp
		}
		var c *wnode
		switch wt {
		case 0:
			var v uint64
			v, i = readVarint(p, i)
			c = &wnode{kind: kVarint, val: v}
		case 1:
			c = &wnode{kind: kFixed, raw: p[i : i+8]}
			i += 8
		case 5:
			c = &wnode{kind: kFixed, raw: p[i : i+4]}
			i += 4
		case 2:
			var l uint64
			l, i = readVarint(p, i)
			body := p[i : i+int(l)]
			i += int(l)
			switch {
			case known && d.kind == kMsg:
				c = parseMsg(d.sub, cp, body)
			case known && d.kind == kPacked:
				c = &wnode{kind: kPacked}
				for j := 0; j < len(body); {
					var v uint64
					v, j = readVarint(body, j)
					c.elems = append(c.elems, v)
				}
			default:
				c = &wnode{kind: kBytes, raw: body}
			}
		default:
			panic("wiretree: unexpected wire type from the generator")
		}
		c.field, c.wt, c.path = f, wt, cp
		n.kids = append(n.kids, c)
	}
	return n
}

// content is what goes inside the node's length (for the root: the message).
func (n *wnode) content() []byte {
	var out []byte
	switch n.kind {
	case kMsg:
		parts := make([][]byte, len(n.kids))
		after := 0
		for i := len(n.kids) - 1; i >= 0; i-- {
			k := n.kids[i]
			if k.drop {
				continue
			}
			var w wbuf
			if k.wt == -1 { // verbatim bytes (key included)
				parts[i] = k.raw
				after += len(k.raw)
				continue
			}
			w.varint(uint64(k.field)<<3 | uint64(k.wt))
			switch k.wt {
			case 0:
				w.varint(k.val)
				w.b = append(w.b, k.tail...)
			case 2:
				c := k.content()
				l := uint64(len(c))
				if k.lenSet {
					l = k.lenVal
				} else if k.lenOver {
					l = uint64(len(c) + after + 1)
				}
				w.varint(l)
				w.b = append(w.b, c...)
			default:
				w.b = append(w.b, k.raw...)
			}
			parts[i] = w.b
			after += len(w.b)
		}
		for _, p := range parts {
			out = append(out, p...)
		}
	case kPacked:
		var w wbuf
		for i, v := range n.elems {
			if i == len(n.elems)-1 && n.lastRaw != nil {
				w.b = append(w.b, n.lastRaw...)
			} else {
				w.varint(v)
			}
		}
		out = w.b
	default:
		out = append(out, n.raw...)
	}
	return append(out, n.tail...)
}

func (n *wnode) walk(f func(*wnode)) {
	f(n)
	for _, k := range n.kids {
		k.walk(f)
	}
}

func (n *wnode) find(path string) *wnode {
	var hit *wnode
	n.walk(func(c *wnode) {
		if c.path == path && hit == nil {
			hit = c
		}
	})
	return hit
}

func zz(v int64) uint64   { return uint64(v<<1) ^ uint64(v>>63) }
func unzz(v uint64) int64 { return int64(v>>1) ^ -int64(v&1) }

// overlong is a varint of 11 bytes: longer than any 64-bit value can be.
var overlong = []byte{0x80, 0x80, 0x80, 0x80, 0x80, 0x80, 0x80, 0x80, 0x80, 0x80, 0x01}

// hugeLengths: declared lengths that no buffer can satisfy, at the widths where
// a length computation changes representation.
var hugeLengths = map[string]uint64{"len-2g-1": 1<<31 - 1, "len-2g": 1 << 31, "len-4g-1": 1<<32 - 1, "len-2e63": 1 << 63, "len-max": 1<<64 - 1}

// indexTargets: out-of-range string-table indexes. "len" is the first invalid
// index of the block's own table.
var indexTargets = []string{"len", "neg1", "2g-1", "2g"}

func indexValue(t string, tableLen int) int64 {
	switch t {
	case "len":
		return int64(tableLen)
	case "neg1":
		return -1
	case "2g-1":
		return 1<<31 - 1
	case "2g":
		return 1 << 31
	}
	panic("unknown index target " + t)
}

// columnsShort: packed columns for which "one element fewer than its sibling
// columns" (and "present with zero elements") is a reference into a column that
// does not exist, in the direction the property judges (see the Assume line of
// main.go for the directions that are not judged). Key: message type + "." + field name.
var columnsShort = map[string]bool{
	"Dense.lats": true, "Dense.lons": true, "Dense.keys_vals": true,
	"DenseInfo.versions": true, "DenseInfo.timestamps": true, "DenseInfo.changesets": true, "DenseInfo.uids": true, "DenseInfo.user_sids": true, "DenseInfo.visibles": true,
	"Way.vals": true, "Way.refs": true, // fewer refs than lats/lons = lat/lon longer than refs
	"Relation.vals": true, "Relation.memids": true, "Relation.types": true,
}

// columnsDriving: the columns whose length gives the number of entries.
var columnsDriving = map[string]bool{"Dense.ids": true, "Way.keys": true, "Way.refs": true, "Relation.keys": true, "Relation.roles": true}

// structuralOps lists "path:op" for every tampering of message root (of type
// typ) that yields bytes which are certainly not a well-formed message of the
// format, or columns that certainly reference missing entries.
func structuralOps(root *wnode, full bool) []string {
	var ops []string
	parentType := map[*wnode]string{}
	root.walk(func(n *wnode) {
		for _, k := range n.kids {
			parentType[k] = n.typ
		}
	})
	hugeDone := map[string]bool{}
	root.walk(func(n *wnode) {
		add := func(op string) { ops = append(ops, n.path+":"+op) }
		if n.kind == kMsg {
			add("dangling-tag")       // the message ends inside a field key
			add("truncated-unknown")  // an unknown varint field whose value is missing
			add("truncated-fixed64")  // an unknown fixed64 field with 3 of 8 bytes
			add("truncated-known-ld") // a length-delimited field 1 or 2 whose length is missing
		}
		if n == root {
			return
		}
		if n.wt == 2 {
			if parentType[n] == "StringTable" && !full && n != lastKid(root.find("stringtable")) && !strings.HasSuffix(n.path, ".s0") && !strings.HasSuffix(n.path, ".s1") {
				return // quick: the first two and the last string only
			}
			add("overrun") // declared length = what is left in the parent + 1
			cls := fmt.Sprint(n.kind, n.typ)
			huge := []string{"len-2g-1", "len-2e63", "len-max"}
			if full {
				huge = []string{"len-2g-1", "len-2g", "len-4g-1", "len-2e63", "len-max"}
			}
			if full || !hugeDone[cls] {
				// quick: one node of every message type, one packed column, one string
				hugeDone[cls] = true
				for _, h := range huge {
					add(h)
				}
			}
		}
		if n.kind == kPacked && len(n.elems) > 0 {
			name := parentType[n] + "." + schema[parentType[n]][n.field].name
			if columnsDriving[name] {
				// bytes after the last needed element: only in the columns a reader walks to
				// their end (in the others they are "a column longer than its siblings": not judged)
				add("elem-truncated") // an extra last varint that keeps its continuation bit
			}
			add("elem-overlong") // the last element has 11 bytes
			if columnsShort[name] {
				add("drop-last")
				add("empty")
				if name != "Dense.keys_vals" && !strings.HasPrefix(name, "DenseInfo.") {
					// keys_vals and the info columns are optional as a whole: absent is valid
					add("absent")
				}
			}
			if name == "Way.lats" || name == "Way.lons" {
				// one coordinate more than refs (judged in the format's field order by the original
				// catalogue), here with the column written before the refs column
				add("longer-and-before-refs")
			}
			if name == "Dense.ids" {
				add("empty") // on the wire the same message as one without the ids field
			}
		}
		if n.kind == kVarint && n.wt == 0 {
			if pt := parentType[n]; pt == "Way" || pt == "Relation" || pt == "Info" || pt == "PrimitiveBlock" {
				add("value-truncated") // the field's varint keeps its continuation bit; the enclosing message ends there
				add("value-overlong")
			}
		}
	})
	return ops
}

// stringIndexOps lists "path:index-<target>" for every site that holds a string-table index.
func stringIndexOps(root *wnode) []string {
	var ops []string
	parentType := map[*wnode]string{}
	root.walk(func(n *wnode) {
		for _, k := range n.kids {
			parentType[k] = n.typ
		}
	})
	root.walk(func(n *wnode) {
		pt := parentType[n]
		var sites []string
		switch {
		case n.kind == kPacked && (pt == "Way" || pt == "Relation") && (n.field == 2 || n.field == 3) && len(n.elems) > 0:
			sites = []string{"index", "indexfirst"}
		case n.kind == kPacked && pt == "Relation" && n.field == 8 && len(n.elems) > 0:
			sites = []string{"index", "indexfirst"}
		case n.kind == kPacked && pt == "DenseInfo" && n.field == 5 && len(n.elems) > 0:
			// the last and the first entry of the column (the first one is the value a
			// running sum or a "previous" variable starts from)
			sites = []string{"sindex", "sindexfirst"}
		case n.kind == kPacked && pt == "Dense" && n.field == 10 && len(n.elems) > 1 && n.elems[0] != 0:
			sites = []string{"kvkey", "kvval"}
		case n.kind == kVarint && pt == "Info" && n.field == 5:
			sites = []string{"index"}
		}
		for _, s := range sites {
			for _, t := range indexTargets {
				ops = append(ops, n.path+":"+s+"-"+t)
			}
		}
	})
	return ops
}

// applyOp tampers with root according to "path:op".
func applyOp(root *wnode, pathOp string) {
	i := strings.LastIndex(pathOp, ":")
	path, op := pathOp[:i], pathOp[i+1:]
	n := root.find(path)
	if n == nil {
		panic("wiretree: no node " + path)
	}
	tableLen := 0
	if st := root.find("stringtable"); st != nil {
		tableLen = len(st.kids)
	}
	setLast := func(v uint64) {
		if n.kind == kVarint {
			n.val = v
		} else {
			n.elems[len(n.elems)-1] = v
		}
	}
	switch {
	case op == "dangling-tag":
		n.tail = []byte{0x80}
	case op == "truncated-unknown":
		n.tail = []byte{0x78} // field 15, varint, no value
	case op == "truncated-fixed64":
		n.tail = []byte{0x79, 1, 2, 3} // field 15, fixed64, 3 bytes
	case op == "truncated-known-ld":
		f := 1
		if n.typ == "PrimitiveBlock" || n.typ == "Group" || n.typ == "Way" || n.typ == "Relation" {
			f = 2 // group / dense / keys
		}
		if n.typ == "Info" || n.typ == "HeaderBBox" || n.typ == "ChangeSet" {
			n.tail = []byte{byte(1<<3 | 0)} // these have varint fields only: field 1 without a value
		} else {
			n.tail = []byte{byte(f<<3 | 2)}
		}
	case op == "overrun":
		n.lenOver = true
	case hugeLengths[op] != 0:
		n.lenSet, n.lenVal = true, hugeLengths[op]
	case op == "elem-truncated":
		n.tail = []byte{0x80}
	case op == "elem-overlong":
		n.lastRaw = overlong
	case op == "value-truncated":
		// certain only as the last thing of its message: move the field to the end
		moveLast(root, n)
		n.rawTag(0, []byte{0x80})
	case op == "value-overlong":
		n.rawTag(0, overlong)
	case op == "longer-and-before-refs":
		n.elems = append(n.elems, zz(7))
		moveLast(root, n)
		root.walk(func(p *wnode) {
			if k := len(p.kids); k > 0 && p.kids[k-1] == n {
				p.kids = append([]*wnode{n}, p.kids[:k-1]...)
			}
		})
	case op == "drop-last":
		n.elems = n.elems[:len(n.elems)-1]
	case op == "empty":
		n.elems = nil
	case op == "absent":
		n.drop = true
	case strings.HasPrefix(op, "index-"):
		setLast(uint64(indexValue(op[len("index-"):], tableLen)))
	case strings.HasPrefix(op, "indexfirst-"):
		n.elems[0] = uint64(indexValue(op[len("indexfirst-"):], tableLen))
	case strings.HasPrefix(op, "sindexfirst-"):
		n.elems[0] = zz(indexValue(op[len("sindexfirst-"):], tableLen))
	case strings.HasPrefix(op, "sindex-"):
		// delta coded sint32: make the running sum end at the target
		var sum int64
		for _, e := range n.elems[:len(n.elems)-1] {
			sum += unzz(e)
		}
		setLast(zz(indexValue(op[len("sindex-"):], tableLen) - sum))
	case strings.HasPrefix(op, "kvkey-"):
		n.elems[0] = uint64(indexValue(op[len("kvkey-"):], tableLen))
	case strings.HasPrefix(op, "kvval-"):
		n.elems[1] = uint64(indexValue(op[len("kvval-"):], tableLen))
	default:
		panic("wiretree: unknown op " + op)
	}
}

// rawTag turns the node into verbatim bytes: its own key with wire type wt followed by body.
func (n *wnode) rawTag(wt int, body []byte) {
	var w wbuf
	w.varint(uint64(n.field)<<3 | uint64(wt))
	n.raw = append(w.b, body...)
	n.wt = -1
}

func moveLast(root, n *wnode) {
	root.walk(func(p *wnode) {
		for i, k := range p.kids {
			if k == n {
				p.kids = append(append(append([]*wnode{}, p.kids[:i]...), p.kids[i+1:]...), n)
				return
			}
		}
	})
}

func lastKid(n *wnode) *wnode {
	if n == nil || len(n.kids) == 0 {
		return nil
	}
	return n.kids[len(n.kids)-1]
}
