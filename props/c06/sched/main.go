//go:build verif

// C06, schedule part (Engine A): the error of a damaged or cut PBF stream must
// surface after exactly the objects of the intact blocks before it under every
// schedule of reader, decoders, serializer and consumer with <= D deviations.
package main

import (
	"fmt"
	"strings"
	"time"

	"github.com/paulmach/osm"
	"github.com/paulmach/osm/osmpbf"
	"github.com/paulmach/osm/vsched"

	"verif/engine/pbfscen"
	"verif/engine/vexplore"
	"verif/gen/pbfgen"
	"verif/kit"
)

type fault struct {
	name  string
	build func() (data []byte, want []osm.Object, wantErr bool)
}

func faults(quick bool) []fault {
	file := pbfscen.File(4, true)
	blocks := func() ([][]byte, [][]osm.Object) {
		var bs [][]byte
		var objs [][]osm.Object
		bs = append(bs, pbfgen.EncodeFileBlock("OSMHeader", pbfgen.EncodeBlob(pbfgen.StdHeader().Bytes(), pbfgen.BlobOpts{}), pbfgen.FileBlockOpts{}))
		objs = append(objs, nil)
		for i := range file.Blocks {
			b := &file.Blocks[i]
			bs = append(bs, pbfgen.EncodeFileBlock("OSMData", pbfgen.EncodeBlob(b.PrimitiveBlock(), pbfgen.BlobOpts{}), pbfgen.FileBlockOpts{}))
			objs = append(objs, b.Expected())
		}
		return bs, objs
	}
	join := func(bs [][]byte, objs [][]osm.Object, upto int) ([]byte, []osm.Object) {
		var d []byte
		var w []osm.Object
		for i := range bs {
			d = append(d, bs[i]...)
			if i < upto {
				w = append(w, objs[i]...)
			}
		}
		return d, w
	}
	all := []fault{
		{"reader-side: blob of data block 2 is not a protobuf message", func() ([]byte, []osm.Object, bool) {
			bs, objs := blocks()
			b := &file.Blocks[1]
			bs[2] = pbfgen.EncodeFileBlock("OSMData", pbfgen.EncodeBlob(b.PrimitiveBlock(), pbfgen.BlobOpts{Garbage: true}), pbfgen.FileBlockOpts{})
			d, w := join(bs, objs, 2)
			return d, w, true
		}},
		{"decoder-side: out-of-range string index in data block 2", func() ([]byte, []osm.Object, bool) {
			bs, objs := blocks()
			b := file.Blocks[1]
			b.Damage = "way:tag-key-out-of-range"
			bs[2] = pbfgen.EncodeFileBlock("OSMData", pbfgen.EncodeBlob(b.PrimitiveBlock(), pbfgen.BlobOpts{}), pbfgen.FileBlockOpts{})
			d, w := join(bs, objs, 2)
			return d, w, true
		}},
		{"decoder-side: wrong raw_size in data block 3", func() ([]byte, []osm.Object, bool) {
			bs, objs := blocks()
			b := &file.Blocks[2]
			bs[3] = pbfgen.EncodeFileBlock("OSMData", pbfgen.EncodeBlob(b.PrimitiveBlock(), pbfgen.BlobOpts{RawSizeDelta: -1}), pbfgen.FileBlockOpts{})
			d, w := join(bs, objs, 3)
			return d, w, true
		}},
		{"cut inside data block 3", func() ([]byte, []osm.Object, bool) {
			bs, objs := blocks()
			d, w := join(bs, objs, 3)
			cut := len(bs[0]) + len(bs[1]) + len(bs[2]) + len(bs[3])/2
			return d[:cut], w, true
		}},
		{"cut right after the size prefix of data block 4", func() ([]byte, []osm.Object, bool) {
			bs, objs := blocks()
			d, w := join(bs, objs, 4)
			cut := len(bs[0]) + len(bs[1]) + len(bs[2]) + len(bs[3]) + 4
			return d[:cut], w, true
		}},
		{"cut on the boundary after data block 2", func() ([]byte, []osm.Object, bool) {
			bs, objs := blocks()
			d, w := join(bs, objs, 3)
			cut := len(bs[0]) + len(bs[1]) + len(bs[2])
			return d[:cut], w, false
		}},
		{"thorough: decoder-side: out-of-range string index in the last data block (the error is followed by the end of input)", func() ([]byte, []osm.Object, bool) {
			bs, objs := blocks()
			b := file.Blocks[3]
			b.Damage = "dense:user-sid-out-of-range"
			bs[4] = pbfgen.EncodeFileBlock("OSMData", pbfgen.EncodeBlob(b.PrimitiveBlock(), pbfgen.BlobOpts{}), pbfgen.FileBlockOpts{})
			d, w := join(bs, objs, 4)
			return d, w, true
		}},
		{"fault sequence: decoder-side fault in data block 2, reader-side fault in data block 3", func() ([]byte, []osm.Object, bool) {
			bs, objs := blocks()
			b := file.Blocks[1]
			b.Damage = "way:tag-val-out-of-range"
			bs[2] = pbfgen.EncodeFileBlock("OSMData", pbfgen.EncodeBlob(b.PrimitiveBlock(), pbfgen.BlobOpts{}), pbfgen.FileBlockOpts{})
			bs[3] = pbfgen.EncodeFileBlock("OSMData", pbfgen.EncodeBlob(file.Blocks[2].PrimitiveBlock(), pbfgen.BlobOpts{Garbage: true}), pbfgen.FileBlockOpts{})
			d, w := join(bs, objs, 2)
			return d, w, true
		}},
		{"unexpected block type at data block 3", func() ([]byte, []osm.Object, bool) {
			bs, objs := blocks()
			b := &file.Blocks[2]
			bs[3] = pbfgen.EncodeFileBlock("OSMBlobby", pbfgen.EncodeBlob(b.PrimitiveBlock(), pbfgen.BlobOpts{}), pbfgen.FileBlockOpts{})
			d, w := join(bs, objs, 3)
			return d, w, true
		}},
	}
	if !quick {
		return all
	}
	var out []fault
	for _, f := range all {
		if !strings.HasPrefix(f.name, "thorough: ") {
			out = append(out, f)
		}
	}
	return out
}

func scenario(f fault, procs, bound int) vexplore.Scenario {
	data, want, wantErr := f.build()
	name := fmt.Sprintf("%s procs=%d", f.name, procs)
	return vexplore.Scenario{Name: name, Family: fmt.Sprintf("fault procs=%d D=%d", procs, bound), Bound: bound, MaxSteps: 100000,
		New: func() (func(), func(*vsched.Outcome) ([]vexplore.Finding, string, bool)) {
			var col pbfscen.Collected
			var scanErr error
			finished := false
			main := func() {
				ctx, cancel := vsched.WithCancel(nil)
				defer cancel()
				rd := &pbfscen.Reader{Data: data, BlockOnly: true}
				s := osmpbf.New(ctx, rd, procs)
				s.FilterNode = func(*osm.Node) bool { vsched.Yield("filter"); return true }
				s.FilterWay = func(*osm.Way) bool { vsched.Yield("filter"); return true }
				s.FilterRelation = func(*osm.Relation) bool { vsched.Yield("filter"); return true }
				for s.Scan() {
					col.Take(s.Object(), append(append([]osm.Object{}, want...), make([]osm.Object, 0)...))
					if len(col.Objects) > len(want)+4 {
						break
					}
				}
				scanErr = s.Err()
				finished = true
				s.Close()
			}
			check := func(o *vsched.Outcome) ([]vexplore.Finding, string, bool) {
				var fs []vexplore.Finding
				add := func(k, m string) { fs = append(fs, vexplore.Finding{Key: "schedule/" + k + "/" + f.name, Msg: m}) }
				tag := fmt.Sprintf("%v err=%v", pbfgen.IDs(col.Objects), scanErr != nil)
				if o.Kind != "ok" {
					add(o.Kind, fmt.Sprintf("execution ended in %s (scan finished=%v): %s", o.Kind, finished, o.Detail))
					return fs, tag, true
				}
				if len(col.Objects) > len(want) {
					add("extra-objects", fmt.Sprintf("delivered %v, only %v precede the fault", pbfgen.IDs(col.Objects), pbfgen.IDs(want)))
				} else if k, m := col.Judge(want, true); k != "" {
					add("prefix", m)
				}
				if wantErr && scanErr == nil {
					add("silent-success", fmt.Sprintf("Err() is nil after %v", pbfgen.IDs(col.Objects)))
				}
				if !wantErr && scanErr != nil {
					add("error-on-clean-boundary", fmt.Sprintf("Err()=%v", scanErr))
				}
				return fs, tag, o.Threads > 3
			}
			return main, check
		}}
}

func main() {
	kit.Main("C06", "fault_enumeration", func(r *kit.Run) {
		r.Rule("schedule part: 8 faults (reader-side, decoder-side, cuts, block type, two faults in a row; thorough: plus a fault in the last block) in a 4-block file x procs x every schedule with <= D deviations of the instrumented pipeline, filters yield per element; non-vacuous = more than one decoder thread")
		r.Assume("vinst's rewrite preserves behaviour; sequentially consistent scheduler")
		var scs []vexplore.Scenario
		type pd struct{ p, d int }
		cfg := []pd{{1, 1}, {2, 2}, {3, 1}}
		budget := 5 * time.Minute
		if !r.Quick() {
			cfg = []pd{{1, 2}, {2, 3}, {3, 2}, {12, 1}}
			budget = 30 * time.Minute
		}
		for _, f := range faults(r.Quick()) {
			for _, c := range cfg {
				scs = append(scs, scenario(f, c.p, c.d))
			}
		}
		e := &vexplore.Explorer{R: r, Scenarios: scs}
		e.Run(budget)
	})
}
