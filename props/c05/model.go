package main

// The abstract model of C05: small integer descriptions of top-level fields and
// elements. From one description two things are derived side by side from
// paired literal tables, neither of them through the code under test:
//
//   - the osm value (struct literals), used as marshal input and as the
//     expected result of decoding;
//   - an ordered list of (key, JSON text) pairs, which write.go turns into an
//     osmjson document with text templates.
//
// Every value in a table is written twice by hand: once as JSON text and once
// as the Go value that text denotes.

import (
	"fmt"
	"strconv"
	"time"

	"github.com/paulmach/osm"
)

type sv struct {
	J string // JSON text, with quotes
	G string // the string it denotes
}

var strTab = []sv{
	{`"alice"`, "alice"},
	{`"café \"q\" \\ <b>&amp;\n\ttab"`, "café \"q\" \\ <b>&amp;\n\ttab"},
	{`"日本 😀 \/ é"`, "日本 \U0001F600 / é"},
	{`" lead & trail "`, " lead & trail "},
	// control characters and DEL: JSON escapes them as \u00XX, Go-literal quoting does not
	{`"ctl \u0007 \u000b \u007f \u0001 end"`, "ctl \a \v \x7f \x01 end"},
	// a non-printable code point outside the BMP and the JS line separators
	{`"tagchar \udb40\udc01 ls \u2028 ps \u2029"`, "tagchar \U000E0001 ls \u2028 ps \u2029"},
}

type fv struct {
	J string
	G float64
}

var fltTab = []fv{
	{"51.5074", 51.5074},
	{"-0.1278", -0.1278},
	{"1e-7", 1e-7},
	{"179.9999999", 179.9999999},
	{"-90", -90},
	{"12.5E0", 12.5},
}

type tv struct {
	J string
	G time.Time
}

var timTab = []tv{
	{`"2012-03-04T05:06:07Z"`, time.Date(2012, 3, 4, 5, 6, 7, 0, time.UTC)},
	{`"2020-12-31T23:59:59.5+01:00"`, time.Date(2020, 12, 31, 23, 59, 59, 500000000, time.FixedZone("", 3600))},
	{`"1999-01-01T00:00:00Z"`, time.Date(1999, 1, 1, 0, 0, 0, 0, time.UTC)},
}

// ids beyond 2^53 check that ids are never routed through float64.
var idTab = []int64{1, 4294967297, 9007199254740993, -3}

// Kinds of elements.
const (
	kNode = iota
	kWay
	kRelation
	kChangeset
	kNote
	kUser
	nKinds
)

var kindName = [...]string{"node", "way", "relation", "changeset", "note", "user"}
var kindTitle = [...]string{"Node", "Way", "Relation", "Changeset", "Note", "User"}

// Elem describes one element.
//
// Mask bits, node/way/relation: 0 user, 1 uid, 2 version, 3 changeset,
// 4 timestamp, 5 committed; node: 6 lat+lon; way/relation: 6 updates, 7 bounds.
// changeset: 0 user, 1 uid, 2 created_at, 3 closed_at, 4 open, 5 num_changes,
// 6 bbox, 7 comments_count. note: 0 lat+lon, 1 url, 2 comment_url, 3 close_url,
// 4 reopen_url, 5 date_created, 6 date_closed. user: 0 name, 1 description,
// 2 img, 3 changesets, 4 traces, 5 home, 6 languages, 7 blocks, 8 messages,
// 9 created_at.
//
// Vis: 0 absent (false), 1 true, 2 explicit false (documents only).
// Tags: 0 absent/nil, 1 one tag, 2 three tags, 3 empty object / empty non-nil.
// Sub: way nodes / relation members: 0 absent/nil, 1 empty, 2 two plain,
// 3 three rich (annotated in the value direction); changeset discussion:
// 0 nil, 1 no comments, 2 two comments; note status: 0 none, 1 open, 2 closed;
// Sub2: changeset change 0/1; note comments 0 nil, 1 empty, 2 two.
// Order and Unk only matter for documents: key order and unknown keys.
type Elem struct {
	Kind  int
	ID    int64
	Mask  uint32
	Vis   int
	Tags  int
	Sub   int
	Sub2  int
	Salt  int
	Order int
	Unk   int
}

func (e Elem) has(bit uint) bool { return e.Mask&(1<<bit) != 0 }
func (e Elem) s(k int) sv        { return strTab[(e.Salt+k)%len(strTab)] }
func (e Elem) f(k int) fv        { return fltTab[(e.Salt+k)%len(fltTab)] }
func (e Elem) t(k int) tv        { return timTab[(e.Salt+k)%len(timTab)] }

// optionalCount is used by the non-triviality rule.
func (e Elem) optionalCount() int {
	n := 0
	for m := e.Mask; m != 0; m &= m - 1 {
		n++
	}
	if e.Vis != 0 {
		n++
	}
	if e.Tags != 0 {
		n++
	}
	if e.Sub != 0 {
		n++
	}
	if e.Sub2 != 0 {
		n++
	}
	return n
}

type kv struct {
	K string
	V string // JSON text
}

func itoa(v int64) string { return strconv.FormatInt(v, 10) }

func obj(kvs ...kv) string { return writeObject(kvs, false) }

func arr(items []string) string {
	s := "["
	for i, it := range items {
		if i > 0 {
			s += ","
		}
		s += it
	}
	return s + "]"
}

// ---- shared pieces -------------------------------------------------------

func buildTags(e Elem) (osm.Tags, []kv) {
	switch e.Tags {
	case 1:
		v := e.s(5)
		return osm.Tags{{Key: "name", Value: v.G}}, []kv{{"tags", obj(kv{"name", v.J})}}
	case 2:
		// not in key order, so that a sorted re-encoding differs from the input order
		a, b, c := e.s(5), e.s(6), e.s(7)
		k := strTab[1] // a key that needs escaping
		return osm.Tags{{Key: "zebra", Value: a.G}, {Key: k.G, Value: b.G}, {Key: "amenity", Value: c.G}},
			[]kv{{"tags", "{" + `"zebra":` + a.J + "," + k.J + ":" + b.J + "," + `"amenity":` + c.J + "}"}}
	case 3:
		return osm.Tags{}, []kv{{"tags", "{}"}}
	}
	return nil, nil
}

type meta struct {
	User      string
	UID       osm.UserID
	Visible   bool
	Version   int
	Changeset osm.ChangesetID
	Timestamp time.Time
	Tags      osm.Tags
	Committed *time.Time
}

// buildMeta returns the attributes shared by node, way and relation; the key
// order is the one Overpass uses (timestamp, version, changeset, user, uid).
func buildMeta(e Elem) (m meta, pre []kv, post []kv) {
	if e.has(4) {
		t := e.t(0)
		m.Timestamp = t.G
		pre = append(pre, kv{"timestamp", t.J})
	}
	if e.has(2) {
		m.Version = 3 + e.Salt
		pre = append(pre, kv{"version", itoa(int64(m.Version))})
	}
	if e.has(3) {
		m.Changeset = osm.ChangesetID(4000000000 + int64(e.Salt))
		pre = append(pre, kv{"changeset", itoa(int64(m.Changeset))})
	}
	if e.has(0) {
		u := e.s(0)
		m.User = u.G
		pre = append(pre, kv{"user", u.J})
	}
	if e.has(1) {
		m.UID = osm.UserID(70 + e.Salt)
		pre = append(pre, kv{"uid", itoa(int64(m.UID))})
	}
	switch e.Vis {
	case 1:
		m.Visible = true
		pre = append(pre, kv{"visible", "true"})
	case 2:
		pre = append(pre, kv{"visible", "false"})
	}
	var tk []kv
	m.Tags, tk = buildTags(e)
	post = append(post, tk...)
	if e.has(5) {
		t := e.t(1)
		c := t.G
		m.Committed = &c
		post = append(post, kv{"committed", t.J})
	}
	return
}

func buildUpdates(e Elem) (osm.Updates, []kv) {
	if !e.has(6) {
		return nil, nil
	}
	t0, t1 := e.t(1), e.t(2)
	la, lo := e.f(2), e.f(3)
	us := osm.Updates{
		{Index: 0, Version: 2, Timestamp: t0.G, ChangesetID: 55, Lat: la.G, Lon: lo.G},
		{Index: 1, Version: 3, Timestamp: t1.G, Reverse: true},
	}
	txt := arr([]string{
		obj(kv{"index", "0"}, kv{"version", "2"}, kv{"timestamp", t0.J}, kv{"changeset", "55"}, kv{"lat", la.J}, kv{"lon", lo.J}),
		obj(kv{"reverse", "true"}, kv{"timestamp", t1.J}, kv{"version", "3"}, kv{"index", "1"}),
	})
	return us, []kv{{"updates", txt}}
}

// buildBounds: element-level bounds. Overpass ("out bb") writes lower-case
// keys; the library has no key names of its own for them.
func buildBounds(e Elem) (*osm.Bounds, []kv) {
	if !e.has(7) {
		return nil, nil
	}
	a, b, c, d := e.f(0), e.f(1), e.f(2), e.f(3)
	return &osm.Bounds{MinLat: a.G, MinLon: b.G, MaxLat: c.G, MaxLon: d.G},
		[]kv{{"bounds", obj(kv{"minlat", a.J}, kv{"minlon", b.J}, kv{"maxlat", c.J}, kv{"maxlon", d.J})}}
}

// buildWayNodes: sub as in Elem.Sub. annot adds the per-way-node annotations
// osmjson has no place for (value direction only).
func buildWayNodes(e Elem, sub int, annot bool) (osm.WayNodes, []kv) {
	switch sub {
	case 1:
		return osm.WayNodes{}, []kv{{"nodes", "[]"}}
	case 2:
		return osm.WayNodes{{ID: 11}, {ID: 12}}, []kv{{"nodes", "[11,12]"}}
	case 3:
		wn := osm.WayNodes{{ID: 9007199254740993}, {ID: -3}, {ID: osm.NodeID(20 + e.Salt)}}
		if annot {
			for i := range wn {
				wn[i].Version = i + 1
				wn[i].ChangesetID = osm.ChangesetID(100 + i)
				wn[i].Lat = fltTab[i%len(fltTab)].G
				wn[i].Lon = fltTab[(i+1)%len(fltTab)].G
			}
		}
		return wn, []kv{{"nodes", "[9007199254740993,-3," + itoa(int64(20+e.Salt)) + "]"}}
	}
	return nil, nil
}

func buildMembers(e Elem, annot bool) (osm.Members, []kv) {
	geom := ""
	if e.Unk == 2 {
		geom = `,"geometry":[{"lat":1.5,"lon":2.5},null]`
	}
	switch e.Sub {
	case 1:
		return osm.Members{}, []kv{{"members", "[]"}}
	case 2:
		r := e.s(2)
		return osm.Members{{Type: osm.TypeNode, Ref: 5, Role: r.G}, {Type: osm.TypeWay, Ref: 6, Role: ""}},
			[]kv{{"members", `[{"type":"node","ref":5,"role":` + r.J + `},{"type":"way","ref":6,"role":""` + geom + `}]`}}
	case 3:
		r := e.s(3)
		la, lo := e.f(4), e.f(5)
		wn, wk := buildWayNodes(e, 3, annot)
		ms := osm.Members{
			{Type: osm.TypeNode, Ref: 9007199254740993, Role: r.G, Version: 4, ChangesetID: 77, Lat: la.G, Lon: lo.G},
			{Type: osm.TypeWay, Ref: -8, Role: "outer", Orientation: -1, Nodes: wn},
			{Type: osm.TypeRelation, Ref: 9, Role: ""},
		}
		txt := `[{"type":"node","ref":9007199254740993,"role":` + r.J + `,"version":4,"changeset":77,"lat":` + la.J + `,"lon":` + lo.J + `},` +
			`{"role":"outer","ref":-8,"orientation":-1,"nodes":` + wk[0].V + geom + `,"type":"way"},` +
			`{"type":"relation","ref":9,"role":""}]`
		return ms, []kv{{"members", txt}}
	}
	return nil, nil
}

// ---- the six kinds -------------------------------------------------------

func buildNode(e Elem) (*osm.Node, []kv) {
	m, pre, post := buildMeta(e)
	n := &osm.Node{ID: osm.NodeID(e.ID), User: m.User, UserID: m.UID, Visible: m.Visible, Version: m.Version,
		ChangesetID: m.Changeset, Timestamp: m.Timestamp, Tags: m.Tags, Committed: m.Committed}
	kvs := []kv{{"type", `"node"`}, {"id", itoa(e.ID)}}
	if e.has(6) {
		la, lo := e.f(0), e.f(1)
		n.Lat, n.Lon = la.G, lo.G
		kvs = append(kvs, kv{"lat", la.J}, kv{"lon", lo.J})
	}
	kvs = append(kvs, pre...)
	kvs = append(kvs, post...)
	return n, kvs
}

func buildWay(e Elem, annot bool) (*osm.Way, []kv) {
	m, pre, post := buildMeta(e)
	w := &osm.Way{ID: osm.WayID(e.ID), User: m.User, UserID: m.UID, Visible: m.Visible, Version: m.Version,
		ChangesetID: m.Changeset, Timestamp: m.Timestamp, Tags: m.Tags, Committed: m.Committed}
	kvs := []kv{{"type", `"way"`}, {"id", itoa(e.ID)}}
	kvs = append(kvs, pre...)
	var k []kv
	w.Bounds, k = buildBounds(e)
	kvs = append(kvs, k...)
	w.Nodes, k = buildWayNodes(e, e.Sub, annot)
	kvs = append(kvs, k...)
	kvs = append(kvs, post...)
	w.Updates, k = buildUpdates(e)
	kvs = append(kvs, k...)
	return w, kvs
}

func buildRelation(e Elem, annot bool) (*osm.Relation, []kv) {
	m, pre, post := buildMeta(e)
	r := &osm.Relation{ID: osm.RelationID(e.ID), User: m.User, UserID: m.UID, Visible: m.Visible, Version: m.Version,
		ChangesetID: m.Changeset, Timestamp: m.Timestamp, Tags: m.Tags, Committed: m.Committed}
	kvs := []kv{{"type", `"relation"`}, {"id", itoa(e.ID)}}
	kvs = append(kvs, pre...)
	var k []kv
	r.Bounds, k = buildBounds(e)
	kvs = append(kvs, k...)
	r.Members, k = buildMembers(e, annot)
	kvs = append(kvs, k...)
	kvs = append(kvs, post...)
	r.Updates, k = buildUpdates(e)
	kvs = append(kvs, k...)
	return r, kvs
}

func buildChangeset(e Elem) (*osm.Changeset, []kv) {
	c := &osm.Changeset{ID: osm.ChangesetID(e.ID)}
	kvs := []kv{{"type", `"changeset"`}, {"id", itoa(e.ID)}}
	if e.has(0) {
		u := e.s(0)
		c.User = u.G
		kvs = append(kvs, kv{"user", u.J})
	}
	if e.has(1) {
		c.UserID = osm.UserID(70 + e.Salt)
		kvs = append(kvs, kv{"uid", itoa(int64(c.UserID))})
	}
	if e.has(2) {
		t := e.t(0)
		c.CreatedAt = t.G
		kvs = append(kvs, kv{"created_at", t.J})
	}
	if e.has(3) {
		t := e.t(1)
		c.ClosedAt = t.G
		kvs = append(kvs, kv{"closed_at", t.J})
	}
	if e.has(4) {
		c.Open = true
		kvs = append(kvs, kv{"open", "true"})
	}
	if e.has(5) {
		c.ChangesCount = 17 + e.Salt
		kvs = append(kvs, kv{"num_changes", itoa(int64(c.ChangesCount))})
	}
	if e.has(6) {
		a, b, cc, d := e.f(0), e.f(1), e.f(2), e.f(3)
		c.MinLat, c.MaxLat, c.MinLon, c.MaxLon = a.G, b.G, cc.G, d.G
		kvs = append(kvs, kv{"min_lat", a.J}, kv{"max_lat", b.J}, kv{"min_lon", cc.J}, kv{"max_lon", d.J})
	}
	if e.has(7) {
		c.CommentsCount = 2 + e.Salt
		kvs = append(kvs, kv{"comments_count", itoa(int64(c.CommentsCount))})
	}
	var tk []kv
	c.Tags, tk = buildTags(e)
	kvs = append(kvs, tk...)
	switch e.Sub {
	case 1:
		c.Discussion = &osm.ChangesetDiscussion{Comments: []*osm.ChangesetComment{}}
		kvs = append(kvs, kv{"discussion", `{"comments":[]}`})
	case 2:
		u, t, x := e.s(1), e.t(2), e.s(2)
		c.Discussion = &osm.ChangesetDiscussion{Comments: []*osm.ChangesetComment{
			{User: u.G, UserID: 8, Timestamp: t.G, Text: x.G},
			{Text: "second"},
		}}
		kvs = append(kvs, kv{"discussion", `{"comments":[{"user":` + u.J + `,"uid":8,"date":` + t.J + `,"text":` + x.J + `},{"text":"second"}]}`})
	}
	if e.Sub2 == 1 {
		// a nested change whose block carries its own version, so that the
		// nested document is complete
		n, nk := buildNode(Elem{Kind: kNode, ID: 31, Mask: 1<<6 | 1<<2, Tags: 1, Salt: e.Salt})
		c.Change = &osm.Change{Version: "0.6", Create: &osm.OSM{Version: "0.6", Nodes: osm.Nodes{n}}}
		kvs = append(kvs, kv{"change", `{"version":"0.6","create":{"version":"0.6","elements":[` + writeObject(nk, false) + `]}}`})
	}
	return c, kvs
}

func buildNote(e Elem) (*osm.Note, []kv) {
	n := &osm.Note{ID: osm.NoteID(e.ID)}
	kvs := []kv{{"type", `"note"`}, {"id", itoa(e.ID)}}
	if e.has(0) {
		la, lo := e.f(0), e.f(1)
		n.Lat, n.Lon = la.G, lo.G
		kvs = append(kvs, kv{"lat", la.J}, kv{"lon", lo.J})
	}
	urls := []struct {
		bit uint
		key string
		dst *string
	}{{1, "url", &n.URL}, {2, "comment_url", &n.CommentURL}, {3, "close_url", &n.CloseURL}, {4, "reopen_url", &n.ReopenURL}}
	for i, u := range urls {
		if e.has(u.bit) {
			*u.dst = "https://api.example/notes/" + u.key + "?a=1&b=<" + strconv.Itoa(i) + ">"
			kvs = append(kvs, kv{u.key, `"https://api.example/notes/` + u.key + `?a=1&b=<` + strconv.Itoa(i) + `>"`})
		}
	}
	if e.has(5) {
		t := e.t(0)
		n.DateCreated = osm.Date{Time: t.G}
		kvs = append(kvs, kv{"date_created", t.J})
	}
	if e.has(6) {
		t := e.t(1)
		n.DateClosed = osm.Date{Time: t.G}
		kvs = append(kvs, kv{"date_closed", t.J})
	}
	switch e.Sub {
	case 1:
		n.Status = osm.NoteOpen
		kvs = append(kvs, kv{"status", `"open"`})
	case 2:
		n.Status = osm.NoteClosed
		kvs = append(kvs, kv{"status", `"closed"`})
	}
	switch e.Sub2 {
	case 1:
		n.Comments = []*osm.NoteComment{}
		kvs = append(kvs, kv{"comments", "[]"})
	case 2:
		t0, t1, u, x, h := e.t(1), e.t(2), e.s(0), e.s(1), e.s(2)
		n.Comments = []*osm.NoteComment{
			{Date: osm.Date{Time: t0.G}, UserID: 5, User: u.G, UserURL: "https://example/u", Action: osm.NoteCommentOpened, Text: x.G, HTML: h.G},
			{Date: osm.Date{Time: t1.G}, Action: osm.NoteCommentClosed},
		}
		kvs = append(kvs, kv{"comments", `[{"date":` + t0.J + `,"uid":5,"user":` + u.J + `,"user_url":"https://example/u","action":"opened","text":` + x.J + `,"html":` + h.J + `},` +
			`{"action":"closed","date":` + t1.J + `,"text":"","html":""}]`})
	}
	return n, kvs
}

func buildUser(e Elem) (*osm.User, []kv) {
	u := &osm.User{ID: osm.UserID(e.ID)}
	kvs := []kv{{"type", `"user"`}, {"id", itoa(e.ID)}}
	if e.has(0) {
		s := e.s(0)
		u.Name = s.G
		kvs = append(kvs, kv{"name", s.J})
	}
	if e.has(1) {
		s := e.s(1)
		u.Description = s.G
		kvs = append(kvs, kv{"description", s.J})
	}
	if e.has(2) {
		u.Img.Href = "https://example/a.png"
		kvs = append(kvs, kv{"img", `{"href":"https://example/a.png"}`})
	}
	if e.has(3) {
		u.Changesets.Count = 12 + e.Salt
		kvs = append(kvs, kv{"changesets", `{"count":` + itoa(int64(12+e.Salt)) + `}`})
	}
	if e.has(4) {
		u.Traces.Count = 3
		kvs = append(kvs, kv{"traces", `{"count":3}`})
	}
	if e.has(5) {
		la, lo := e.f(0), e.f(1)
		u.Home.Lat, u.Home.Lon, u.Home.Zoom = la.G, lo.G, 14
		kvs = append(kvs, kv{"home", `{"lat":` + la.J + `,"lon":` + lo.J + `,"zoom":14}`})
	}
	if e.has(6) {
		u.Languages = []string{"en-GB", "de"}
		kvs = append(kvs, kv{"languages", `["en-GB","de"]`})
	}
	if e.has(7) {
		u.Blocks.Received.Count, u.Blocks.Received.Active = 2, 1
		kvs = append(kvs, kv{"blocks", `{"received":{"count":2,"active":1}}`})
	}
	if e.has(8) {
		u.Messages.Received.Count, u.Messages.Received.Unread, u.Messages.Sent.Count = 9, 4, 6
		kvs = append(kvs, kv{"messages", `{"received":{"count":9,"unread":4},"sent":{"count":6}}`})
	}
	if e.has(9) {
		t := e.t(0)
		u.CreatedAt = t.G
		kvs = append(kvs, kv{"created_at", t.J})
	}
	return u, kvs
}

// build returns the osm value (a pointer to the element struct) and the
// canonical key/value list of one element.
func build(e Elem, annot bool) (interface{}, []kv) {
	switch e.Kind {
	case kNode:
		return buildNode(e)
	case kWay:
		return buildWay(e, annot)
	case kRelation:
		return buildRelation(e, annot)
	case kChangeset:
		return buildChangeset(e)
	case kNote:
		return buildNote(e)
	case kUser:
		return buildUser(e)
	}
	panic(fmt.Sprintf("bad kind %d", e.Kind))
}

// add appends an element value to its list in o (own code, not OSM.Append).
func add(o *osm.OSM, v interface{}) {
	switch x := v.(type) {
	case *osm.Node:
		o.Nodes = append(o.Nodes, x)
	case *osm.Way:
		o.Ways = append(o.Ways, x)
	case *osm.Relation:
		o.Relations = append(o.Relations, x)
	case *osm.Changeset:
		o.Changesets = append(o.Changesets, x)
	case *osm.Note:
		o.Notes = append(o.Notes, x)
	case *osm.User:
		o.Users = append(o.Users, x)
	default:
		panic(fmt.Sprintf("bad element %T", v))
	}
}

// ---- top level -----------------------------------------------------------

// Top describes the document level.
//
// Version: 0 absent / "", 1 number 0.6, 2 string "0.6" (values: 1 and 2 both
// mean "0.6"), 3 string "0.6.1-dev". Bounds: value direction OSM.Bounds set; documents: a top-level
// "bounds" key as the OSM API writes it (not judged, the library does not
// model it). Unknown, ElemPos, WS only matter for documents: unknown top-level
// keys, the position of "elements" among the keys, compact or indented text.
// NoElems: documents without an "elements" key at all.
type Top struct {
	Version int
	Gen     bool
	Copy    bool
	Attr    bool
	Lic     bool
	Bounds  bool
	Unknown int
	ElemPos int
	WS      int
	NoElems bool
}

var (
	topGen  = sv{`"Overpass API 0.7.62 \"x\""`, `Overpass API 0.7.62 "x"`}
	topCopy = sv{`"OpenStreetMap and contributors"`, "OpenStreetMap and contributors"}
	topAttr = sv{`"http:\/\/www.openstreetmap.org\/copyright"`, "http://www.openstreetmap.org/copyright"}
	topLic  = sv{`"http://opendatacommons.org/licenses/odbl/1-0/"`, "http://opendatacommons.org/licenses/odbl/1-0/"}
)

func (t Top) optionalCount() int {
	n := 0
	for _, b := range []bool{t.Version != 0, t.Gen, t.Copy, t.Attr, t.Lic, t.Bounds, t.Unknown != 0} {
		if b {
			n++
		}
	}
	return n
}

var topBounds = osm.Bounds{MinLat: 1.25, MinLon: -2.5, MaxLat: 3.75, MaxLon: 4}

const topBoundsJSON = `{"minlat":1.25,"minlon":-2.5,"maxlat":3.75,"maxlon":4}`

// buildTop returns the osm container (without elements) and the top-level
// keys other than "elements".
func buildTop(t Top) (*osm.OSM, []kv) {
	o := &osm.OSM{}
	var kvs []kv
	switch t.Version {
	case 1:
		o.Version = "0.6"
		kvs = append(kvs, kv{"version", "0.6"})
	case 2:
		o.Version = "0.6"
		kvs = append(kvs, kv{"version", `"0.6"`})
	case 3:
		// a version string that is not a number literal
		o.Version = "0.6.1-dev"
		kvs = append(kvs, kv{"version", `"0.6.1-dev"`})
	}
	if t.Gen {
		o.Generator = topGen.G
		kvs = append(kvs, kv{"generator", topGen.J})
	}
	if t.Copy {
		o.Copyright = topCopy.G
		kvs = append(kvs, kv{"copyright", topCopy.J})
	}
	if t.Attr {
		o.Attribution = topAttr.G
		kvs = append(kvs, kv{"attribution", topAttr.J})
	}
	if t.Lic {
		o.License = topLic.G
		kvs = append(kvs, kv{"license", topLic.J})
	}
	if t.Bounds {
		b := topBounds
		o.Bounds = &b
		kvs = append(kvs, kv{"bounds", topBoundsJSON})
	}
	return o, kvs
}

// buildOSM assembles the container value for elems.
func buildOSM(t Top, elems []Elem, annot bool) *osm.OSM {
	o, _ := buildTop(t)
	for _, e := range elems {
		v, _ := build(e, annot)
		add(o, v)
	}
	return o
}
