package main

// The abstract model of C05: small integer descriptions of top-level fields and
// elements. From one description two things are derived side by side from
// paired literal tables, neither of them through the code under test:
//
//   - the osm value (struct literals), used as marshal input and as the
//     expected result of decoding;
//   - an ordered list of (key, JSON text) pairs, which write.go turns into an
//     osmjson document with text templates.
//
// Every value in a table is written twice by hand: once as JSON text and once
// as the Go value that text denotes.

import (
	"fmt"
	"strconv"
	"strings"
	"time"

	"github.com/paulmach/osm"
)

type sv struct {
	J string // JSON text, with quotes
	G string // the string it denotes
}

var strTab = []sv{
	{`"alice"`, "alice"},
	{`"café \"q\" \\ <b>&amp;\n\ttab"`, "café \"q\" \\ <b>&amp;\n\ttab"},
	{`"日本 😀 \/ é"`, "日本 \U0001F600 / é"},
	{`" lead & trail "`, " lead & trail "},
	// control characters and DEL: JSON escapes them as \u00XX, Go-literal quoting does not
	{`"ctl \u0007 \u000b \u007f \u0001 end"`, "ctl \a \v \x7f \x01 end"},
	// a non-printable code point outside the BMP and the JS line separators
	{`"tagchar \udb40\udc01 ls \u2028 ps \u2029"`, "tagchar \U000E0001 ls \u2028 ps \u2029"},
	// boundary audit: the empty string (a key that is present and empty), blanks only, NUL, text that
	// looks like a JSON literal or a number, the replacement character, a long string
	{`""`, ""},
	{`" "`, " "},
	{`"nul \u0000 end"`, "nul \x00 end"},
	{`"null"`, "null"},
	{`"0123"`, "0123"},
	{`"repl \ufffd \u00e9"`, "repl \uFFFD é"},
	// longer than a 64-byte scratch buffer (the 6 KB string is longSV below)
	{`"seventy characters: 3456789 123456789 123456789 123456789 123456789 1234567890"`, "seventy characters: 3456789 123456789 123456789 123456789 123456789 1234567890"},
}

// longText: about 6 KB, longer than any scratch buffer of a few hundred bytes or 4 KiB; no character
// of it needs escaping, so the JSON text is the string between quotes.
var longText = strings.Repeat("long é text ", 500)

// longSV is drawn by every second string field of an element whose Salt is saltRange itself (one
// past the ordinary range; edge families only, it makes documents 20 times larger).
var longSV = sv{`"` + longText + `"`, longText}

type fv struct {
	J string
	G float64
}

var fltTab = []fv{
	{"51.5074", 51.5074},
	{"-0.1278", -0.1278},
	{"1e-7", 1e-7},
	{"179.9999999", 179.9999999},
	{"-90", -90},
	{"12.5E0", 12.5},
	// boundary audit: zero (present and zero), the limits of latitude and longitude, 7, 8 and 17
	// significant decimals, exponent forms, magnitudes at which Go switches to exponent output
	// (< 1e-6, >= 1e21), the largest and smallest finite magnitudes
	{"0", 0},
	{"180", 180},
	{"-180", -180},
	{"90", 90},
	{"0.1234567", 0.1234567},
	{"-0.12345678", -0.12345678},
	{"0.30000000000000004", 0.30000000000000004},
	{"1E+2", 100},
	{"1e21", 1e21},
	{"1.7976931348623157e308", 1.7976931348623157e308},
	{"5e-324", 5e-324},
}

type tv struct {
	J string
	G time.Time
}

var timTab = []tv{
	{`"2012-03-04T05:06:07Z"`, time.Date(2012, 3, 4, 5, 6, 7, 0, time.UTC)},
	{`"2020-12-31T23:59:59.5+01:00"`, time.Date(2020, 12, 31, 23, 59, 59, 500000000, time.FixedZone("", 3600))},
	{`"1999-01-01T00:00:00Z"`, time.Date(1999, 1, 1, 0, 0, 0, 0, time.UTC)},
	// boundary audit: Unix time 0, the zero time.Time written out (present and zero), the last
	// nanosecond of the domain, an instant after 2262-04-11 (beyond int64 nanoseconds), before 1970
	// with a negative zone, nanoseconds with a quarter-hour zone, +00:00 instead of Z on a leap day
	{`"1970-01-01T00:00:00Z"`, time.Date(1970, 1, 1, 0, 0, 0, 0, time.UTC)},
	{`"0001-01-01T00:00:00Z"`, time.Time{}},
	{`"9999-12-31T23:59:59.999999999Z"`, time.Date(9999, 12, 31, 23, 59, 59, 999999999, time.UTC)},
	{`"2262-04-12T00:00:00Z"`, time.Date(2262, 4, 12, 0, 0, 0, 0, time.UTC)},
	{`"1969-07-20T15:17:40-05:00"`, time.Date(1969, 7, 20, 15, 17, 40, 0, time.FixedZone("", -5*3600))},
	{`"2012-09-12T15:15:03.123456789+05:45"`, time.Date(2012, 9, 12, 15, 15, 3, 123456789, time.FixedZone("", 5*3600+45*60))},
	{`"2016-02-29T12:00:00+00:00"`, time.Date(2016, 2, 29, 12, 0, 0, 0, time.UTC)},
}

// numTab: versions, user ids, changeset ids and counts. Boundary audit: 0 (present and zero), 1, -1,
// 127/128, 2^31-1, 2^31, 2^32, 2^53+1 (not a float64), 2^63-1. The struct fields are int or int64;
// the harness runs on a 64-bit platform (checked in main).
var numTab = []int64{3, 0, 1, 70, 127, 128, 2147483647, 2147483648, 4000000000, 4294967296, 9007199254740993, 9223372036854775807, -1}

// saltRange: Salt runs over 0..saltRange-1; it is at least as long as every table, so that a field
// that is present in every Salt sees every value of its table.
const saltRange = 17

// ids beyond 2^53 check that ids are never routed through float64.
// Boundary audit: 0, -1, 2^31, 2^40-1 / 2^40 / 2^44 (ref bits of the packed osm.FeatureID /
// osm.ElementID, which JSON must not route ids through), both ends of int64.
var idTab = []int64{1, 4294967297, 9007199254740993, -3, 0, 2147483648, 1099511627775, 1099511627776,
	17592186044416, 9223372036854775807, -9223372036854775808, -1}

// Kinds of elements.
const (
	kNode = iota
	kWay
	kRelation
	kChangeset
	kNote
	kUser
	nKinds
)

var kindName = [...]string{"node", "way", "relation", "changeset", "note", "user"}
var kindTitle = [...]string{"Node", "Way", "Relation", "Changeset", "Note", "User"}

// Elem describes one element.
//
// Mask bits, node/way/relation: 0 user, 1 uid, 2 version, 3 changeset,
// 4 timestamp, 5 committed; node: 6 lat+lon; way/relation: 6 updates, 7 bounds.
// changeset: 0 user, 1 uid, 2 created_at, 3 closed_at, 4 open, 5 num_changes,
// 6 bbox, 7 comments_count. note: 0 lat+lon, 1 url, 2 comment_url, 3 close_url,
// 4 reopen_url, 5 date_created, 6 date_closed. user: 0 name, 1 description,
// 2 img, 3 changesets, 4 traces, 5 home, 6 languages, 7 blocks, 8 messages,
// 9 created_at.
//
// Vis: 0 absent (false), 1 true, 2 explicit false (documents only).
// Tags: 0 absent/nil, 1 one tag, 2 three tags, 3 empty object / empty non-nil;
// edge families only: 4 boundary keys and values (empty value, empty key, keys
// that differ in case only, blanks), 5 forty tags in no particular order.
// Sub: way nodes / relation members: 0 absent/nil, 1 empty, 2 two plain,
// 3 three rich (annotated in the value direction); edge families only: 4 a
// single one, 5 boundary ids / repeated entries, 6 many (2000 way nodes, 300
// members); changeset discussion: 0 nil, 1 no comments, 2 two comments, edge: 3
// one comment of zero values; note status: 0 none, 1 open, 2 closed, edge: 3
// "hidden"; Sub2: changeset change 0/1; note comments 0 nil, 1 empty, 2 two,
// edge: 3 one comment of the third action with zero / null dates.
// Order and Unk only matter for documents: key order and unknown keys.
type Elem struct {
	Kind  int
	ID    int64
	Mask  uint32
	Vis   int
	Tags  int
	Sub   int
	Sub2  int
	Salt  int
	Order int
	Unk   int
	Zero  int // documents only: 1 = absent optional scalars are written with their zero value
	// UID, if non-zero, is the uid of the element instead of the table value (several
	// elements of one document then share a uid under different user names)
	UID int64 `json:",omitempty"`
	// Same, if 1, makes every field of one class draw the same table entry: committed equals
	// timestamp, uid equals changeset equals version, lat equals lon, user equals every tag value
	// (an encoder that leaves out a field because it equals another one loses it)
	Same int `json:",omitempty"`
}

func (e Elem) has(bit uint) bool { return e.Mask&(1<<bit) != 0 }
func (e Elem) s(k int) sv {
	k *= 1 - e.Same
	if e.Salt == saltRange && k%2 == 0 {
		return longSV
	}
	return strTab[(e.Salt+k)%len(strTab)]
}
func (e Elem) f(k int) fv    { return fltTab[(e.Salt+k*(1-e.Same))%len(fltTab)] }
func (e Elem) t(k int) tv    { return timTab[(e.Salt+k*(1-e.Same))%len(timTab)] }
func (e Elem) n(k int) int64 { return numTab[(e.Salt+k*(1-e.Same))%len(numTab)] }

// z: documents with Zero == 1 write every absent optional scalar explicitly with its zero value
// ("user":"", "uid":0, "open":false, "timestamp":"0001-01-01T00:00:00Z", ...): present-but-zero has to
// decode to the same value as absent.
func (e Elem) z(kvs []kv, key, zero string) []kv {
	if e.Zero == 1 {
		return append(kvs, kv{key, zero})
	}
	return kvs
}

const zeroTimeJSON = `"0001-01-01T00:00:00Z"`

// optionalCount is used by the non-triviality rule.
func (e Elem) optionalCount() int {
	n := 0
	for m := e.Mask; m != 0; m &= m - 1 {
		n++
	}
	if e.Vis != 0 {
		n++
	}
	if e.Tags != 0 {
		n++
	}
	if e.Sub != 0 {
		n++
	}
	if e.Sub2 != 0 {
		n++
	}
	return n
}

type kv struct {
	K string
	V string // JSON text
}

func itoa(v int64) string { return strconv.FormatInt(v, 10) }

func obj(kvs ...kv) string { return writeObject(kvs, false) }

func arr(items []string) string {
	s := "["
	for i, it := range items {
		if i > 0 {
			s += ","
		}
		s += it
	}
	return s + "]"
}

// ---- shared pieces -------------------------------------------------------

func buildTags(e Elem) (osm.Tags, []kv) {
	switch e.Tags {
	case 1:
		v := e.s(5)
		return osm.Tags{{Key: "name", Value: v.G}}, []kv{{"tags", obj(kv{"name", v.J})}}
	case 2:
		// not in key order, so that a sorted re-encoding differs from the input order
		a, b, c := e.s(5), e.s(6), e.s(7)
		k := strTab[1] // a key that needs escaping
		return osm.Tags{{Key: "zebra", Value: a.G}, {Key: k.G, Value: b.G}, {Key: "amenity", Value: c.G}},
			[]kv{{"tags", "{" + `"zebra":` + a.J + "," + k.J + ":" + b.J + "," + `"amenity":` + c.J + "}"}}
	case 3:
		return osm.Tags{}, []kv{{"tags", "{}"}}
	case 4:
		v := e.s(5)
		return osm.Tags{{Key: "name", Value: ""}, {Key: "", Value: "empty key"}, {Key: "Name", Value: "upper"}, {Key: "NAME", Value: v.G},
				{Key: " ", Value: " "}, {Key: "name:de", Value: "0"}, {Key: "k=v", Value: "a=b;c"}, {Key: "ünï", Value: "null"}},
			[]kv{{"tags", `{"name":"","":"empty key","Name":"upper","NAME":` + v.J + `," ":" ","name:de":"0","k=v":"a=b;c","ünï":"null"}`}}
	case 5:
		// 40 keys, written in an order that is neither sorted nor reversed
		var ts osm.Tags
		var items []string
		for i := 0; i < 40; i++ {
			j := (i*17 + 5) % 40
			k := "key" + strconv.Itoa(j/10) + strconv.Itoa(j%10)
			v := strTab[j%6]
			ts = append(ts, osm.Tag{Key: k, Value: v.G})
			items = append(items, `"`+k+`":`+v.J)
		}
		return ts, []kv{{"tags", "{" + strings.Join(items, ",") + "}"}}
	}
	return nil, nil
}

type meta struct {
	User      string
	UID       osm.UserID
	Visible   bool
	Version   int
	Changeset osm.ChangesetID
	Timestamp time.Time
	Tags      osm.Tags
	Committed *time.Time
}

// buildMeta returns the attributes shared by node, way and relation; the key
// order is the one Overpass uses (timestamp, version, changeset, user, uid).
func buildMeta(e Elem) (m meta, pre []kv, post []kv) {
	if e.has(4) {
		t := e.t(0)
		m.Timestamp = t.G
		pre = append(pre, kv{"timestamp", t.J})
	} else {
		pre = e.z(pre, "timestamp", zeroTimeJSON)
	}
	if e.has(2) {
		m.Version = int(e.n(0))
		pre = append(pre, kv{"version", itoa(int64(m.Version))})
	} else {
		pre = e.z(pre, "version", "0")
	}
	if e.has(3) {
		m.Changeset = osm.ChangesetID(e.n(8))
		pre = append(pre, kv{"changeset", itoa(int64(m.Changeset))})
	} else {
		pre = e.z(pre, "changeset", "0")
	}
	if e.has(0) {
		u := e.s(0)
		m.User = u.G
		pre = append(pre, kv{"user", u.J})
	} else {
		pre = e.z(pre, "user", `""`)
	}
	if e.has(1) {
		m.UID = osm.UserID(e.n(3))
		if e.UID != 0 {
			m.UID = osm.UserID(e.UID)
		}
		pre = append(pre, kv{"uid", itoa(int64(m.UID))})
	} else {
		pre = e.z(pre, "uid", "0")
	}
	switch e.Vis {
	case 1:
		m.Visible = true
		pre = append(pre, kv{"visible", "true"})
	case 2:
		pre = append(pre, kv{"visible", "false"})
	}
	var tk []kv
	m.Tags, tk = buildTags(e)
	post = append(post, tk...)
	if e.has(5) {
		t := e.t(1)
		c := t.G
		m.Committed = &c
		post = append(post, kv{"committed", t.J})
	}
	return
}

func buildUpdates(e Elem) (osm.Updates, []kv) {
	if !e.has(6) {
		return nil, nil
	}
	t0, t1 := e.t(1), e.t(2)
	la, lo := e.f(2), e.f(3)
	us := osm.Updates{
		{Index: 0, Version: 2, Timestamp: t0.G, ChangesetID: osm.ChangesetID(e.n(5)), Lat: la.G, Lon: lo.G},
		{Index: int(e.n(6)), Version: int(e.n(7)), Timestamp: t1.G, Reverse: true},
		// every optional field of an update at once (a reversed way member whose point moved)
		{Index: 1, Version: 3, Timestamp: t0.G, ChangesetID: osm.ChangesetID(e.n(4)), Lat: lo.G, Lon: la.G, Reverse: true},
	}
	txt := arr([]string{
		obj(kv{"index", "0"}, kv{"version", "2"}, kv{"timestamp", t0.J}, kv{"changeset", itoa(e.n(5))}, kv{"lat", la.J}, kv{"lon", lo.J}),
		obj(kv{"reverse", "true"}, kv{"timestamp", t1.J}, kv{"version", itoa(e.n(7))}, kv{"index", itoa(e.n(6))}),
		obj(kv{"index", "1"}, kv{"version", "3"}, kv{"timestamp", t0.J}, kv{"changeset", itoa(e.n(4))}, kv{"lat", lo.J}, kv{"lon", la.J}, kv{"reverse", "true"}),
	})
	return us, []kv{{"updates", txt}}
}

// buildBounds: element-level bounds. Overpass ("out bb") writes lower-case
// keys; the library has no key names of its own for them.
func buildBounds(e Elem) (*osm.Bounds, []kv) {
	if !e.has(7) {
		return nil, nil
	}
	a, b, c, d := e.f(0), e.f(1), e.f(2), e.f(3)
	return &osm.Bounds{MinLat: a.G, MinLon: b.G, MaxLat: c.G, MaxLon: d.G},
		[]kv{{"bounds", obj(kv{"minlat", a.J}, kv{"minlon", b.J}, kv{"maxlat", c.J}, kv{"maxlon", d.J})}}
}

// buildWayNodes: sub as in Elem.Sub. annot adds the per-way-node annotations
// osmjson has no place for (value direction only).
func buildWayNodes(e Elem, sub int, annot bool) (osm.WayNodes, []kv) {
	switch sub {
	case 1:
		return osm.WayNodes{}, []kv{{"nodes", "[]"}}
	case 2:
		return osm.WayNodes{{ID: 11}, {ID: 12}}, []kv{{"nodes", "[11,12]"}}
	case 3:
		wn := osm.WayNodes{{ID: 9007199254740993}, {ID: -3}, {ID: osm.NodeID(20 + e.Salt)}}
		if annot {
			for i := range wn {
				wn[i].Version = i + 1
				wn[i].ChangesetID = osm.ChangesetID(100 + i)
				wn[i].Lat = fltTab[i%len(fltTab)].G
				wn[i].Lon = fltTab[(i+1)%len(fltTab)].G
			}
		}
		return wn, []kv{{"nodes", "[9007199254740993,-3," + itoa(int64(20+e.Salt)) + "]"}}
	case 4:
		id := idTab[e.Salt%len(idTab)]
		return osm.WayNodes{{ID: osm.NodeID(id)}}, []kv{{"nodes", "[" + itoa(id) + "]"}}
	case 5:
		// a closed ring over boundary ids: zero, both ends of int64, 2^40, an id twice in a row
		wn := osm.WayNodes{{ID: 0}, {ID: 9223372036854775807}, {ID: -9223372036854775808}, {ID: 1099511627776}, {ID: 1099511627776}, {ID: -1}, {ID: 0}}
		if annot {
			for i := range wn {
				wn[i].Version = int(numTab[i%len(numTab)])
				wn[i].ChangesetID = osm.ChangesetID(numTab[(i+3)%len(numTab)])
				wn[i].Lat = fltTab[(i+6)%len(fltTab)].G
				wn[i].Lon = fltTab[(i+7)%len(fltTab)].G
			}
		}
		return wn, []kv{{"nodes", "[0,9223372036854775807,-9223372036854775808,1099511627776,1099511627776,-1,0]"}}
	case 6:
		// the API limit of 2000 nodes per way, first = last
		wn := make(osm.WayNodes, 2000)
		items := make([]string, 2000)
		for i := range wn {
			id := 5000000000 + int64(i%1999)*7
			wn[i].ID = osm.NodeID(id)
			items[i] = itoa(id)
		}
		return wn, []kv{{"nodes", arr(items)}}
	}
	return nil, nil
}

func buildMembers(e Elem, annot bool) (osm.Members, []kv) {
	geom := ""
	if e.Unk == 2 {
		geom = `,"geometry":[{"lat":1.5,"lon":2.5},null]`
	}
	switch e.Sub {
	case 1:
		return osm.Members{}, []kv{{"members", "[]"}}
	case 2:
		r := e.s(2)
		return osm.Members{{Type: osm.TypeNode, Ref: 5, Role: r.G}, {Type: osm.TypeWay, Ref: 6, Role: ""}},
			[]kv{{"members", `[{"type":"node","ref":5,"role":` + r.J + `},{"type":"way","ref":6,"role":""` + geom + `}]`}}
	case 3:
		r := e.s(3)
		la, lo := e.f(4), e.f(5)
		wn, wk := buildWayNodes(e, 3, annot)
		ms := osm.Members{
			{Type: osm.TypeNode, Ref: 9007199254740993, Role: r.G, Version: 4, ChangesetID: 77, Lat: la.G, Lon: lo.G},
			{Type: osm.TypeWay, Ref: -8, Role: "outer", Orientation: -1, Nodes: wn},
			{Type: osm.TypeRelation, Ref: 9, Role: ""},
		}
		txt := `[{"type":"node","ref":9007199254740993,"role":` + r.J + `,"version":4,"changeset":77,"lat":` + la.J + `,"lon":` + lo.J + `},` +
			`{"role":"outer","ref":-8,"orientation":-1,"nodes":` + wk[0].V + geom + `,"type":"way"},` +
			`{"type":"relation","ref":9,"role":""}]`
		return ms, []kv{{"members", txt}}
	case 4:
		ref := idTab[e.Salt%len(idTab)]
		return osm.Members{{Type: osm.TypeRelation, Ref: ref, Role: ""}}, []kv{{"members", `[{"type":"relation","ref":` + itoa(ref) + `,"role":""}]`}}
	case 5:
		// boundary refs, the same member twice, a member referring to the relation's own id, the
		// optional member annotations at boundary values, a way member with the boundary ring
		r := e.s(4)
		wn, wk := buildWayNodes(e, 5, annot)
		ms := osm.Members{
			{Type: osm.TypeNode, Ref: 0, Role: r.G, Version: int(e.n(1)), ChangesetID: osm.ChangesetID(e.n(2)), Lat: e.f(6).G, Lon: e.f(7).G},
			{Type: osm.TypeWay, Ref: 9223372036854775807, Role: "inner", Orientation: 1, Nodes: wn},
			{Type: osm.TypeWay, Ref: 9223372036854775807, Role: "inner", Orientation: 1, Nodes: wn},
			{Type: osm.TypeRelation, Ref: -9223372036854775808, Role: " "},
			{Type: osm.TypeRelation, Ref: e.ID, Role: "self"},
			{Type: osm.TypeNode, Ref: 1099511627776, Role: ""},
		}
		way := `{"type":"way","ref":9223372036854775807,"role":"inner","orientation":1,"nodes":` + wk[0].V + `}`
		txt := `[{"type":"node","ref":0,"role":` + r.J + `,"version":` + itoa(e.n(1)) + `,"changeset":` + itoa(e.n(2)) + `,"lat":` + e.f(6).J + `,"lon":` + e.f(7).J + `},` +
			way + `,` + way + `,{"type":"relation","ref":-9223372036854775808,"role":" "},` +
			`{"role":"self","type":"relation","ref":` + itoa(e.ID) + `},{"type":"node","ref":1099511627776,"role":""}]`
		return ms, []kv{{"members", txt}}
	case 6:
		ms := make(osm.Members, 300)
		items := make([]string, 300)
		types := []osm.Type{osm.TypeNode, osm.TypeWay, osm.TypeRelation}
		for i := range ms {
			ref := 6000000000 + int64(i)*3
			role := strTab[i%6]
			ms[i] = osm.Member{Type: types[i%3], Ref: ref, Role: role.G}
			items[i] = `{"type":"` + kindName[i%3] + `","ref":` + itoa(ref) + `,"role":` + role.J + `}`
		}
		return ms, []kv{{"members", arr(items)}}
	}
	return nil, nil
}

// ---- the six kinds -------------------------------------------------------

func buildNode(e Elem) (*osm.Node, []kv) {
	m, pre, post := buildMeta(e)
	n := &osm.Node{ID: osm.NodeID(e.ID), User: m.User, UserID: m.UID, Visible: m.Visible, Version: m.Version,
		ChangesetID: m.Changeset, Timestamp: m.Timestamp, Tags: m.Tags, Committed: m.Committed}
	kvs := []kv{{"type", `"node"`}, {"id", itoa(e.ID)}}
	if e.has(6) {
		la, lo := e.f(0), e.f(1)
		n.Lat, n.Lon = la.G, lo.G
		kvs = append(kvs, kv{"lat", la.J}, kv{"lon", lo.J})
	} else {
		kvs = e.z(e.z(kvs, "lat", "0"), "lon", "0.0")
	}
	kvs = append(kvs, pre...)
	kvs = append(kvs, post...)
	return n, kvs
}

func buildWay(e Elem, annot bool) (*osm.Way, []kv) {
	m, pre, post := buildMeta(e)
	w := &osm.Way{ID: osm.WayID(e.ID), User: m.User, UserID: m.UID, Visible: m.Visible, Version: m.Version,
		ChangesetID: m.Changeset, Timestamp: m.Timestamp, Tags: m.Tags, Committed: m.Committed}
	kvs := []kv{{"type", `"way"`}, {"id", itoa(e.ID)}}
	kvs = append(kvs, pre...)
	var k []kv
	w.Bounds, k = buildBounds(e)
	kvs = append(kvs, k...)
	w.Nodes, k = buildWayNodes(e, e.Sub, annot)
	kvs = append(kvs, k...)
	kvs = append(kvs, post...)
	w.Updates, k = buildUpdates(e)
	kvs = append(kvs, k...)
	return w, kvs
}

func buildRelation(e Elem, annot bool) (*osm.Relation, []kv) {
	m, pre, post := buildMeta(e)
	r := &osm.Relation{ID: osm.RelationID(e.ID), User: m.User, UserID: m.UID, Visible: m.Visible, Version: m.Version,
		ChangesetID: m.Changeset, Timestamp: m.Timestamp, Tags: m.Tags, Committed: m.Committed}
	kvs := []kv{{"type", `"relation"`}, {"id", itoa(e.ID)}}
	kvs = append(kvs, pre...)
	var k []kv
	r.Bounds, k = buildBounds(e)
	kvs = append(kvs, k...)
	r.Members, k = buildMembers(e, annot)
	kvs = append(kvs, k...)
	kvs = append(kvs, post...)
	r.Updates, k = buildUpdates(e)
	kvs = append(kvs, k...)
	return r, kvs
}

func buildChangeset(e Elem) (*osm.Changeset, []kv) {
	c := &osm.Changeset{ID: osm.ChangesetID(e.ID)}
	kvs := []kv{{"type", `"changeset"`}, {"id", itoa(e.ID)}}
	if e.has(0) {
		u := e.s(0)
		c.User = u.G
		kvs = append(kvs, kv{"user", u.J})
	} else {
		kvs = e.z(kvs, "user", `""`)
	}
	if e.has(1) {
		c.UserID = osm.UserID(e.n(3))
		if e.UID != 0 {
			c.UserID = osm.UserID(e.UID)
		}
		kvs = append(kvs, kv{"uid", itoa(int64(c.UserID))})
	} else {
		kvs = e.z(kvs, "uid", "0")
	}
	if e.has(2) {
		t := e.t(0)
		c.CreatedAt = t.G
		kvs = append(kvs, kv{"created_at", t.J})
	} else {
		kvs = e.z(kvs, "created_at", zeroTimeJSON)
	}
	if e.has(3) {
		t := e.t(1)
		c.ClosedAt = t.G
		kvs = append(kvs, kv{"closed_at", t.J})
	} else {
		kvs = e.z(kvs, "closed_at", zeroTimeJSON)
	}
	if e.has(4) {
		c.Open = true
		kvs = append(kvs, kv{"open", "true"})
	} else {
		kvs = e.z(kvs, "open", "false")
	}
	if e.has(5) {
		c.ChangesCount = int(e.n(4))
		kvs = append(kvs, kv{"num_changes", itoa(int64(c.ChangesCount))})
	} else {
		kvs = e.z(kvs, "num_changes", "0")
	}
	if e.has(6) {
		a, b, cc, d := e.f(0), e.f(1), e.f(2), e.f(3)
		c.MinLat, c.MaxLat, c.MinLon, c.MaxLon = a.G, b.G, cc.G, d.G
		kvs = append(kvs, kv{"min_lat", a.J}, kv{"max_lat", b.J}, kv{"min_lon", cc.J}, kv{"max_lon", d.J})
	} else {
		kvs = e.z(e.z(e.z(e.z(kvs, "min_lat", "0"), "max_lat", "0"), "min_lon", "0.0"), "max_lon", "0e0")
	}
	if e.has(7) {
		c.CommentsCount = int(e.n(9))
		kvs = append(kvs, kv{"comments_count", itoa(int64(c.CommentsCount))})
	} else {
		kvs = e.z(kvs, "comments_count", "0")
	}
	var tk []kv
	c.Tags, tk = buildTags(e)
	kvs = append(kvs, tk...)
	switch e.Sub {
	case 1:
		c.Discussion = &osm.ChangesetDiscussion{Comments: []*osm.ChangesetComment{}}
		kvs = append(kvs, kv{"discussion", `{"comments":[]}`})
	case 2:
		u, t, x := e.s(1), e.t(2), e.s(2)
		c.Discussion = &osm.ChangesetDiscussion{Comments: []*osm.ChangesetComment{
			{User: u.G, UserID: 8, Timestamp: t.G, Text: x.G},
			{Text: "second"},
		}}
		kvs = append(kvs, kv{"discussion", `{"comments":[{"user":` + u.J + `,"uid":8,"date":` + t.J + `,"text":` + x.J + `},{"text":"second"}]}`})
	case 3:
		// one comment, every key present with its zero value, then one with boundary numbers
		t := e.t(2)
		c.Discussion = &osm.ChangesetDiscussion{Comments: []*osm.ChangesetComment{{}, {UserID: osm.UserID(e.n(10)), Timestamp: t.G}}}
		kvs = append(kvs, kv{"discussion", `{"comments":[{"user":"","uid":0,"date":` + zeroTimeJSON + `,"text":""},{"uid":` + itoa(e.n(10)) + `,"date":` + t.J + `}]}`})
	}
	if e.Sub2 == 1 {
		// a nested change whose block carries its own version, so that the
		// nested document is complete
		n, nk := buildNode(Elem{Kind: kNode, ID: 31, Mask: 1<<6 | 1<<2, Tags: 1, Salt: e.Salt})
		c.Change = &osm.Change{Version: "0.6", Create: &osm.OSM{Version: "0.6", Nodes: osm.Nodes{n}}}
		kvs = append(kvs, kv{"change", `{"version":"0.6","create":{"version":"0.6","elements":[` + writeObject(nk, false) + `]}}`})
	}
	return c, kvs
}

func buildNote(e Elem) (*osm.Note, []kv) {
	n := &osm.Note{ID: osm.NoteID(e.ID)}
	kvs := []kv{{"type", `"note"`}, {"id", itoa(e.ID)}}
	if e.has(0) {
		la, lo := e.f(0), e.f(1)
		n.Lat, n.Lon = la.G, lo.G
		kvs = append(kvs, kv{"lat", la.J}, kv{"lon", lo.J})
	} else {
		kvs = e.z(e.z(kvs, "lat", "0"), "lon", "0")
	}
	urls := []struct {
		bit uint
		key string
		dst *string
	}{{1, "url", &n.URL}, {2, "comment_url", &n.CommentURL}, {3, "close_url", &n.CloseURL}, {4, "reopen_url", &n.ReopenURL}}
	for i, u := range urls {
		if e.has(u.bit) {
			*u.dst = "https://api.example/notes/" + u.key + "?a=1&b=<" + strconv.Itoa(i) + ">"
			kvs = append(kvs, kv{u.key, `"https://api.example/notes/` + u.key + `?a=1&b=<` + strconv.Itoa(i) + `>"`})
		} else {
			kvs = e.z(kvs, u.key, `""`)
		}
	}
	// an absent note date: the library itself writes null for it (Date.MarshalJSON), so documents
	// with Zero == 1 write null here, and the zero time for the second one
	if e.has(5) {
		t := e.t(0)
		n.DateCreated = osm.Date{Time: t.G}
		kvs = append(kvs, kv{"date_created", t.J})
	} else {
		kvs = e.z(kvs, "date_created", "null")
	}
	if e.has(6) {
		t := e.t(1)
		n.DateClosed = osm.Date{Time: t.G}
		kvs = append(kvs, kv{"date_closed", t.J})
	} else {
		kvs = e.z(kvs, "date_closed", zeroTimeJSON)
	}
	switch e.Sub {
	case 1:
		n.Status = osm.NoteOpen
		kvs = append(kvs, kv{"status", `"open"`})
	case 2:
		n.Status = osm.NoteClosed
		kvs = append(kvs, kv{"status", `"closed"`})
	case 3:
		// the API also knows hidden notes; NoteStatus is a string type
		n.Status = osm.NoteStatus("hidden")
		kvs = append(kvs, kv{"status", `"hidden"`})
	default:
		kvs = e.z(kvs, "status", `""`)
	}
	switch e.Sub2 {
	case 1:
		n.Comments = []*osm.NoteComment{}
		kvs = append(kvs, kv{"comments", "[]"})
	case 2:
		t0, t1, u, x, h := e.t(1), e.t(2), e.s(0), e.s(1), e.s(2)
		n.Comments = []*osm.NoteComment{
			{Date: osm.Date{Time: t0.G}, UserID: 5, User: u.G, UserURL: "https://example/u", Action: osm.NoteCommentOpened, Text: x.G, HTML: h.G},
			{Date: osm.Date{Time: t1.G}, Action: osm.NoteCommentClosed},
		}
		kvs = append(kvs, kv{"comments", `[{"date":` + t0.J + `,"uid":5,"user":` + u.J + `,"user_url":"https://example/u","action":"opened","text":` + x.J + `,"html":` + h.J + `},` +
			`{"action":"closed","date":` + t1.J + `,"text":"","html":""}]`})
	case 3:
		// the third action, a comment without a date (null, as the library writes it) and one with
		// every key present and zero
		t0 := e.t(0)
		n.Comments = []*osm.NoteComment{
			{Date: osm.Date{Time: t0.G}, UserID: osm.UserID(e.n(11)), Action: osm.NoteCommentComment, Text: e.s(3).G},
			{Action: osm.NoteCommentAction("reopened")},
			{},
		}
		kvs = append(kvs, kv{"comments", `[{"date":` + t0.J + `,"uid":` + itoa(e.n(11)) + `,"action":"commented","text":` + e.s(3).J + `,"html":""},` +
			`{"date":null,"action":"reopened","text":"","html":""},` +
			`{"date":` + zeroTimeJSON + `,"uid":0,"user":"","user_url":"","action":"","text":"","html":""}]`})
	}
	return n, kvs
}

func buildUser(e Elem) (*osm.User, []kv) {
	u := &osm.User{ID: osm.UserID(e.ID)}
	kvs := []kv{{"type", `"user"`}, {"id", itoa(e.ID)}}
	if e.has(0) {
		s := e.s(0)
		u.Name = s.G
		kvs = append(kvs, kv{"name", s.J})
	} else {
		kvs = e.z(kvs, "name", `""`)
	}
	if e.has(1) {
		s := e.s(1)
		u.Description = s.G
		kvs = append(kvs, kv{"description", s.J})
	} else {
		kvs = e.z(kvs, "description", `""`)
	}
	if e.has(2) {
		u.Img.Href = "https://example/a.png"
		kvs = append(kvs, kv{"img", `{"href":"https://example/a.png"}`})
	} else {
		kvs = e.z(kvs, "img", `{"href":""}`)
	}
	if e.has(3) {
		u.Changesets.Count = int(e.n(0))
		kvs = append(kvs, kv{"changesets", `{"count":` + itoa(e.n(0)) + `}`})
	} else {
		kvs = e.z(kvs, "changesets", `{"count":0}`)
	}
	if e.has(4) {
		u.Traces.Count = int(e.n(1))
		kvs = append(kvs, kv{"traces", `{"count":` + itoa(e.n(1)) + `}`})
	} else {
		kvs = e.z(kvs, "traces", `{}`)
	}
	if e.has(5) {
		la, lo := e.f(0), e.f(1)
		zoom := []int64{14, 0, 19, 1}[e.Salt%4]
		u.Home.Lat, u.Home.Lon, u.Home.Zoom = la.G, lo.G, int(zoom)
		kvs = append(kvs, kv{"home", `{"lat":` + la.J + `,"lon":` + lo.J + `,"zoom":` + itoa(zoom) + `}`})
	} else {
		kvs = e.z(kvs, "home", `{"lat":0,"lon":0,"zoom":0}`)
	}
	if e.has(6) {
		switch e.Salt % 3 {
		case 0:
			u.Languages = []string{"en-GB", "de"}
			kvs = append(kvs, kv{"languages", `["en-GB","de"]`})
		case 1:
			u.Languages = []string{"zh-Hant"}
			kvs = append(kvs, kv{"languages", `["zh-Hant"]`})
		case 2:
			// repeated, empty and non-ASCII entries
			u.Languages = []string{"de", "de", "", "sr-Latn", "日本"}
			kvs = append(kvs, kv{"languages", `["de","de","","sr-Latn","日本"]`})
		}
	} else {
		kvs = e.z(kvs, "languages", `[]`)
	}
	if e.has(7) {
		u.Blocks.Received.Count, u.Blocks.Received.Active = int(e.n(2)), int(e.n(3))
		kvs = append(kvs, kv{"blocks", `{"received":{"count":` + itoa(e.n(2)) + `,"active":` + itoa(e.n(3)) + `}}`})
	} else {
		kvs = e.z(kvs, "blocks", `{"received":{"count":0,"active":0}}`)
	}
	if e.has(8) {
		u.Messages.Received.Count, u.Messages.Received.Unread, u.Messages.Sent.Count = int(e.n(4)), int(e.n(5)), int(e.n(6))
		kvs = append(kvs, kv{"messages", `{"received":{"count":` + itoa(e.n(4)) + `,"unread":` + itoa(e.n(5)) + `},"sent":{"count":` + itoa(e.n(6)) + `}}`})
	} else {
		kvs = e.z(kvs, "messages", `{"received":{},"sent":{"count":0}}`)
	}
	if e.has(9) {
		t := e.t(0)
		u.CreatedAt = t.G
		kvs = append(kvs, kv{"created_at", t.J})
	} else {
		kvs = e.z(kvs, "created_at", zeroTimeJSON)
	}
	return u, kvs
}

// build returns the osm value (a pointer to the element struct) and the
// canonical key/value list of one element.
func build(e Elem, annot bool) (interface{}, []kv) {
	switch e.Kind {
	case kNode:
		return buildNode(e)
	case kWay:
		return buildWay(e, annot)
	case kRelation:
		return buildRelation(e, annot)
	case kChangeset:
		return buildChangeset(e)
	case kNote:
		return buildNote(e)
	case kUser:
		return buildUser(e)
	}
	panic(fmt.Sprintf("bad kind %d", e.Kind))
}

// add appends an element value to its list in o (own code, not OSM.Append).
func add(o *osm.OSM, v interface{}) {
	switch x := v.(type) {
	case *osm.Node:
		o.Nodes = append(o.Nodes, x)
	case *osm.Way:
		o.Ways = append(o.Ways, x)
	case *osm.Relation:
		o.Relations = append(o.Relations, x)
	case *osm.Changeset:
		o.Changesets = append(o.Changesets, x)
	case *osm.Note:
		o.Notes = append(o.Notes, x)
	case *osm.User:
		o.Users = append(o.Users, x)
	default:
		panic(fmt.Sprintf("bad element %T", v))
	}
}

// ---- top level -----------------------------------------------------------

// Top describes the document level.
//
// Version: 0 absent / "", 1 number 0.6, 2 string "0.6" (values: 1 and 2 both
// mean "0.6"), 3 string "0.6.1-dev". Bounds: value direction OSM.Bounds set; documents: a top-level
// "bounds" key as the OSM API writes it (not judged, the library does not
// model it). Unknown, ElemPos, WS only matter for documents: unknown top-level
// keys, the position of "elements" among the keys, compact or indented text.
// NoElems: documents without an "elements" key at all.
//
// Boundary audit. Version 4: the integer number 1 ("1"), 5: the number 0.61 with
// two decimals ("0.61"), 6: the empty string, written out. Alt selects the values
// of the four strings and of the bounds: 0 the classic ones; 1 escapes / a blank
// / text that looks like a literal, bounds all zero; 2 a long string, the text
// "<nil>" as a legitimate value, NUL, a non-BMP character, bounds at the limits of
// latitude and longitude; documents only: 3 every absent string (and an absent
// version) is written as "", 4 as null - absent optional fields stay empty.
type Top struct {
	Version int
	Gen     bool
	Copy    bool
	Attr    bool
	Lic     bool
	Bounds  bool
	Unknown int
	ElemPos int
	WS      int
	NoElems bool
	Alt     int
}

var topAlt = [3][4]sv{
	{topGen, topCopy, topAttr, topLic},
	{{`"日本 \"gen\" \\ <&> \u0001"`, "日本 \"gen\" \\ <&> \x01"}, {`" "`, " "}, {`"null"`, "null"}, {`"0.6"`, "0.6"}},
	{{`"` + longText + `"`, longText}, {`"<nil>"`, "<nil>"}, {`"nul \u0000"`, "nul \x00"}, {`"\ud83d\ude00 😀"`, "\U0001F600 \U0001F600"}},
}

var topBoundsAlt = [3]osm.Bounds{
	{MinLat: 1.25, MinLon: -2.5, MaxLat: 3.75, MaxLon: 4},
	{},
	{MinLat: -90, MinLon: -180, MaxLat: 90, MaxLon: 180},
}

var topBoundsAltJSON = [3]string{
	`{"minlat":1.25,"minlon":-2.5,"maxlat":3.75,"maxlon":4}`,
	`{"minlat":0,"minlon":0,"maxlat":0.0,"maxlon":0}`,
	`{"minlat":-90,"minlon":-180,"maxlat":90,"maxlon":180}`,
}

var (
	topGen  = sv{`"Overpass API 0.7.62 \"x\""`, `Overpass API 0.7.62 "x"`}
	topCopy = sv{`"OpenStreetMap and contributors"`, "OpenStreetMap and contributors"}
	topAttr = sv{`"http:\/\/www.openstreetmap.org\/copyright"`, "http://www.openstreetmap.org/copyright"}
	topLic  = sv{`"http://opendatacommons.org/licenses/odbl/1-0/"`, "http://opendatacommons.org/licenses/odbl/1-0/"}
)

func (t Top) optionalCount() int {
	n := 0
	for _, b := range []bool{t.Version != 0, t.Gen, t.Copy, t.Attr, t.Lic, t.Bounds, t.Unknown != 0} {
		if b {
			n++
		}
	}
	return n
}

// buildTop returns the osm container (without elements) and the top-level
// keys other than "elements".
func buildTop(t Top) (*osm.OSM, []kv) {
	o := &osm.OSM{}
	var kvs []kv
	switch t.Version {
	case 1:
		o.Version = "0.6"
		kvs = append(kvs, kv{"version", "0.6"})
	case 2:
		o.Version = "0.6"
		kvs = append(kvs, kv{"version", `"0.6"`})
	case 3:
		// a version string that is not a number literal
		o.Version = "0.6.1-dev"
		kvs = append(kvs, kv{"version", `"0.6.1-dev"`})
	case 4:
		o.Version = "1"
		kvs = append(kvs, kv{"version", "1"})
	case 5:
		o.Version = "0.61"
		kvs = append(kvs, kv{"version", "0.61"})
	case 6:
		kvs = append(kvs, kv{"version", `""`})
	}
	absent := ""
	switch t.Alt {
	case 3:
		absent = `""`
	case 4:
		absent = "null"
	}
	if t.Version == 0 && absent != "" {
		kvs = append(kvs, kv{"version", absent})
	}
	vals := topAlt[0]
	bi := 0
	if t.Alt == 1 || t.Alt == 2 {
		vals, bi = topAlt[t.Alt], t.Alt
	}
	for i, f := range []struct {
		on  bool
		key string
		dst *string
	}{{t.Gen, "generator", &o.Generator}, {t.Copy, "copyright", &o.Copyright}, {t.Attr, "attribution", &o.Attribution}, {t.Lic, "license", &o.License}} {
		if f.on {
			*f.dst = vals[i].G
			kvs = append(kvs, kv{f.key, vals[i].J})
		} else if absent != "" {
			kvs = append(kvs, kv{f.key, absent})
		}
	}
	if t.Bounds {
		b := topBoundsAlt[bi]
		o.Bounds = &b
		kvs = append(kvs, kv{"bounds", topBoundsAltJSON[bi]})
	}
	return o, kvs
}

// buildOSM assembles the container value for elems.
func buildOSM(t Top, elems []Elem, annot bool) *osm.OSM {
	o, _ := buildTop(t)
	for _, e := range elems {
		v, _ := build(e, annot)
		add(o, v)
	}
	return o
}
