package main

// The finite case space of C05, per tier. Every family is a complete product
// of small alphabets; nothing is sampled.

import (
	"fmt"

	"github.com/paulmach/osm"
)

// Case is one evaluated input; it is also what a replay file stores.
type Case struct {
	Family string
	Top    Top
	Elems  []Elem
	Blocks [3]int // change families: per block 0 absent, 1.. a block variant
}

func (c Case) fingerprint(codec string) string {
	return fmt.Sprintf("%s|%v|%v|%v|%s", c.Family, c.Top, c.Elems, c.Blocks, codec)
}

// nonTrivial: the case has at least one optional field present somewhere
// (top level, element, or a non-empty change block); the bare documents
// ({"elements":[]}, elements with only type and id) are the trivial ones.
func (c Case) nonTrivial() bool {
	n := c.Top.optionalCount()
	for _, e := range c.Elems {
		n += e.optionalCount()
	}
	for _, b := range c.Blocks {
		if b > 1 {
			n++
		}
	}
	return n > 0
}

type family struct {
	name string
	n    int
	at   func(i int) Case
}

var kindBits = [nKinds]uint{7, 8, 8, 8, 7, 10}
var kindSub = [nKinds]int{1, 4, 4, 3, 3, 1}
var kindSub2 = [nKinds]int{1, 1, 1, 2, 3, 1}
var kindHasTags = [nKinds]bool{true, true, true, true, false, false}
var kindHasVis = [nKinds]bool{true, true, true, false, false, false}

// elemVariants: every combination of optional fields of one kind.
func elemVariants(kind int, doc bool, nTags int) []Elem {
	nVis, nT := 1, 1
	if kindHasVis[kind] {
		nVis = 2
		if doc {
			nVis = 3
		}
	}
	if kindHasTags[kind] {
		nT = nTags
	}
	var out []Elem
	idx := 0
	for mask := uint32(0); mask < 1<<kindBits[kind]; mask++ {
		for vis := 0; vis < nVis; vis++ {
			for tg := 0; tg < nT; tg++ {
				for sub := 0; sub < kindSub[kind]; sub++ {
					for sub2 := 0; sub2 < kindSub2[kind]; sub2++ {
						out = append(out, Elem{Kind: kind, ID: idTab[idx%len(idTab)], Mask: mask, Vis: vis, Tags: tg,
							Sub: sub, Sub2: sub2, Salt: idx % saltRange})
						idx++
					}
				}
			}
		}
	}
	return out
}

func allElemVariants(doc bool, nTags int) []Elem {
	var out []Elem
	for k := 0; k < nKinds; k++ {
		out = append(out, elemVariants(k, doc, nTags)...)
	}
	return out
}

// rich: an element of the kind with everything present.
func rich(kind int, id int64, salt int) Elem {
	e := Elem{Kind: kind, ID: id, Mask: 1<<kindBits[kind] - 1, Salt: salt, Sub: kindSub[kind] - 1, Sub2: kindSub2[kind] - 1}
	if kindHasVis[kind] {
		e.Vis = 1
	}
	if kindHasTags[kind] {
		e.Tags = 2
	}
	return e
}

// elemLists: the element lists of the top-level families. In documents the
// mixed list is interleaved; the library groups elements by kind, keeping the
// order inside a kind, and so does the expected value (model.add).
func elemLists() [][]Elem {
	lists := [][]Elem{{}}
	for k := 0; k < nKinds; k++ {
		lists = append(lists, []Elem{rich(k, 100+int64(k), k)})
	}
	lists = append(lists, []Elem{
		rich(kRelation, 1, 0), rich(kNode, 2, 1), rich(kWay, 3, 2), {Kind: kNode, ID: 4, Order: 1},
		rich(kUser, 5, 3), rich(kChangeset, 6, 4), rich(kNote, 7, 5), {Kind: kWay, ID: 8, Sub: 2, Order: 2, Unk: 1},
		{Kind: kRelation, ID: 9}, // a relation without members
		{Kind: kNote, ID: 10}, {Kind: kUser, ID: 11, Mask: 1}, {Kind: kChangeset, ID: 12, Tags: 1},
	})
	lists = append(lists, []Elem{{Kind: kNode, ID: 1}, {Kind: kNode, ID: 9007199254740993}, {Kind: kNode, ID: -3}})
	// boundary audit: the same id several times (a history: versions of one element), also under
	// different kinds, ids not in order
	lists = append(lists, []Elem{
		{Kind: kNode, ID: 5, Mask: 1<<2 | 1<<6, Salt: 2}, {Kind: kWay, ID: 5, Sub: 2}, {Kind: kNode, ID: 5, Mask: 1<<2 | 1<<6, Salt: 1, Tags: 1},
		{Kind: kNode, ID: 5, Mask: 1<<2 | 1<<6, Salt: 1, Tags: 1}, {Kind: kRelation, ID: 5, Sub: 4, Salt: 4}, {Kind: kWay, ID: 5, Sub: 4, Salt: 4},
		{Kind: kNode, ID: 0}, {Kind: kNode, ID: -1}, {Kind: kWay, ID: 0}, {Kind: kRelation, ID: 0}, {Kind: kChangeset, ID: 0}, {Kind: kNote, ID: 0}, {Kind: kUser, ID: 0},
	})
	// one uid under a different user name in every element (a renamed account in a history
	// document), and the same names without any uid: what one element says about a user says
	// nothing about the next
	lists = append(lists, []Elem{
		{Kind: kNode, ID: 21, Mask: 3, Salt: 1, UID: 777}, {Kind: kNode, ID: 22, Mask: 3, Salt: 2, UID: 777}, {Kind: kWay, ID: 23, Mask: 3, Salt: 3, UID: 777, Sub: 2},
		{Kind: kRelation, ID: 24, Mask: 3, Salt: 4, UID: 777, Sub: 2}, {Kind: kChangeset, ID: 25, Mask: 3, Salt: 5, UID: 777}, {Kind: kNode, ID: 26, Mask: 3, Salt: 1, UID: 777},
		{Kind: kNode, ID: 27, Mask: 1, Salt: 2}, {Kind: kNode, ID: 28, Mask: 1, Salt: 3}, {Kind: kWay, ID: 29, Mask: 1, Salt: 4, Sub: 2}, {Kind: kNode, ID: 30, Mask: 2, UID: 777},
	})
	return lists
}

// manyElems: more than 128 elements, kinds interleaved, boundary ids (top-edge families only: as a
// member of elemLists it would be multiplied by the whole doc/top product).
func manyElems() []Elem {
	var many []Elem
	for i := 0; i < 132; i++ {
		id, step := idTab[i%len(idTab)], int64(i/len(idTab))
		if id < 0 {
			step = -step // towards zero, no wrap-around at the ends of int64
		}
		many = append(many, Elem{Kind: (i * 5) % nKinds, ID: id - step, Salt: i % saltRange})
	}
	return many
}

// edgeTemplates: the element shapes of the edge families, which exist to carry every value of every
// table (model.go) to every field: everything present with the classic, the boundary and the large
// lists; nothing present; every optional field on its own.
func edgeTemplates(kind int) []Elem {
	r := rich(kind, 0, 0)
	edge, large := r, r
	switch kind {
	case kWay, kRelation:
		edge.Sub, large.Sub = 5, 6
	case kChangeset:
		edge.Sub = 3
	case kNote:
		edge.Sub, edge.Sub2 = 3, 3
	}
	if kindHasTags[kind] {
		edge.Tags, large.Tags = 4, 5
	}
	out := []Elem{r}
	if edge != r {
		out = append(out, edge)
	}
	if kind == kWay || kind == kRelation || kindHasTags[kind] {
		out = append(out, large)
	}
	bare := Elem{Kind: kind}
	if kind == kWay || kind == kRelation {
		bare.Sub = 4
	}
	out = append(out, bare)
	for b := uint(0); b < kindBits[kind]; b++ {
		out = append(out, Elem{Kind: kind, Mask: 1 << b})
	}
	return out
}

// edgeElems: every template under every Salt (so that a present field sees every table value; the
// id walks through idTab with it), and the first two templates under every id.
func edgeElems() []Elem {
	var out []Elem
	for k := 0; k < nKinds; k++ {
		ts := edgeTemplates(k)
		for ti, t := range ts {
			for salt := 0; salt <= saltRange; salt++ { // saltRange itself: the 6 KB strings
				if (t.Sub == 6 || t.Tags == 5) && salt%8 != 0 && salt != saltRange {
					continue // the large lists are about counts, their values come from three Salts
				}
				e := t
				e.Salt = salt
				e.ID = idTab[(salt+ti)%len(idTab)]
				out = append(out, e)
			}
		}
		// the first template with one value per field class, under every Salt
		for salt := 0; salt < saltRange; salt++ {
			e := ts[0]
			e.Salt, e.Same = salt, 1
			e.ID = idTab[salt%len(idTab)]
			out = append(out, e)
		}
		for ti := 0; ti < 2 && ts[ti].Mask != 0; ti++ { // the rich shapes (a kind without a boundary shape has one)
			for i, id := range idTab {
				e := ts[ti]
				e.ID, e.Salt = id, (i*5+3)%saltRange
				out = append(out, e)
			}
		}
	}
	return out
}

// zeroElems: every optional-field subset of every kind for documents that write the absent scalars
// with their zero value.
func zeroElems() []Elem {
	var out []Elem
	idx := 0
	for k := 0; k < nKinds; k++ {
		for mask := uint32(0); mask < 1<<kindBits[k]; mask++ {
			out = append(out, Elem{Kind: k, ID: idTab[idx%len(idTab)], Mask: mask, Salt: idx % saltRange, Zero: 1, Order: idx % 2 * 3})
			idx++
		}
	}
	return out
}

// changeBlock: content of one osmChange block. 1 empty, 2 node+way+relation
// without a version, 3 versioned with node+way, 4 with top-level bounds.
const nBlockVariants = 4

func changeBlock(variant, which int) (Top, []Elem) {
	id := int64(10 * (which + 1))
	switch variant {
	case 2:
		return Top{}, []Elem{rich(kNode, id, which), rich(kWay, id+1, which+1), rich(kRelation, id+2, which+2)}
	case 3:
		// number in the first block, string in the others (documents)
		ver := 2
		if which == 0 {
			ver = 1
		}
		return Top{Version: ver, Gen: which == 1}, []Elem{{Kind: kNode, ID: id, Mask: 1 << 6}, rich(kWay, id+1, which)}
	case 4:
		return Top{Bounds: true}, []Elem{rich(kNode, id, which)}
	}
	return Top{}, nil
}

func buildChange(t Top, blocks [3]int, annot bool) *osm.Change {
	o, _ := buildTop(Top{Version: t.Version, Gen: t.Gen, Copy: t.Copy, Attr: t.Attr, Lic: t.Lic})
	c := &osm.Change{Version: o.Version, Generator: o.Generator, Copyright: o.Copyright, Attribution: o.Attribution, License: o.License}
	dst := [3]**osm.OSM{&c.Create, &c.Modify, &c.Delete}
	for i, b := range blocks {
		if b == 0 {
			continue
		}
		bt, be := changeBlock(b, i)
		*dst[i] = buildOSM(bt, be, annot)
	}
	return c
}

func (c Case) hasTopBounds() bool {
	if c.Family == "value/change" {
		for _, b := range c.Blocks {
			if b == 4 {
				return true
			}
		}
		return false
	}
	return c.Top.Bounds
}

// the container used around single elements
var plainTop = Top{Version: 1, Gen: true}

func families(quick bool) []family {
	nTags := 4
	nOrd, nUnk := nOrders, nElemUnknown
	if quick {
		nTags = 3
		nOrd, nUnk = 3, 3
	}
	var fams []family

	// value/element: every optional-field combination of every kind, marshalled
	// on its own and inside a container.
	ve := allElemVariants(false, nTags)
	fams = append(fams, family{"value/element", len(ve), func(i int) Case {
		return Case{Family: "value/element", Top: Top{Version: 2, Gen: true}, Elems: []Elem{ve[i]}}
	}})

	// value/top: every top-level combination × every element list.
	lists := elemLists()
	bools := []bool{false, true}
	var vt []Case
	for _, ver := range []int{0, 2, 3} {
		for m := 0; m < 16; m++ {
			for _, b := range bools {
				for li := 1; li < len(lists); li++ {
					vt = append(vt, Case{Family: "value/top", Elems: lists[li],
						Top: Top{Version: ver, Gen: m&1 != 0, Copy: m&2 != 0, Attr: m&4 != 0, Lic: m&8 != 0, Bounds: b}})
				}
			}
		}
	}
	fams = append(fams, family{"value/top", len(vt), func(i int) Case { return vt[i] }})

	// value/change: top-level strings × block variants.
	var vc []Case
	for ver := 0; ver < 2; ver++ {
		for m := 0; m < 16; m++ {
			for b := 0; b < 125; b++ {
				vc = append(vc, Case{Family: "value/change", Blocks: [3]int{b % 5, b / 5 % 5, b / 25},
					Top: Top{Version: ver * 2, Gen: m&1 != 0, Copy: m&2 != 0, Attr: m&4 != 0, Lic: m&8 != 0}})
			}
		}
	}
	fams = append(fams, family{"value/change", len(vc), func(i int) Case { return vc[i] }})

	// doc/element: every optional-field combination × key order × unknown keys.
	de := allElemVariants(true, nTags)
	fams = append(fams, family{"doc/element", len(de) * nOrd * nUnk, func(i int) Case {
		e := de[i/(nOrd*nUnk)]
		e.Order = i / nUnk % nOrd
		e.Unk = i % nUnk
		return Case{Family: "doc/element", Top: plainTop, Elems: []Elem{e}}
	}})

	// doc/top: version × four strings × bounds key × unknown keys × position
	// of "elements" × layout × element list.
	var dt []Case
	for ver := 0; ver < 4; ver++ {
		for m := 0; m < 16; m++ {
			for _, b := range bools {
				for unk := 0; unk < nTopUnknown; unk++ {
					for pos := 0; pos < 3; pos++ {
						for ws := 0; ws < 2; ws++ {
							for li := 0; li < len(lists); li++ {
								if li == 0 && pos != 0 {
									continue
								}
								dt = append(dt, Case{Family: "doc/top", Elems: lists[li],
									Top: Top{Version: ver, Gen: m&1 != 0, Copy: m&2 != 0, Attr: m&4 != 0, Lic: m&8 != 0,
										Bounds: b, Unknown: unk, ElemPos: pos, WS: ws, NoElems: li == 0}})
							}
						}
					}
				}
			}
		}
	}
	fams = append(fams, family{"doc/top", len(dt), func(i int) Case { return dt[i] }})

	// doc/change: version (absent or string: Change.Version is a plain string
	// field, the number-or-string rule is about osmjson documents, i.e. the
	// blocks) × generator × key order × layout × block variants.
	var dc []Case
	for ver := 0; ver < 3; ver += 2 {
		for g := 0; g < 2; g++ {
			for ord := 0; ord < 2; ord++ {
				for ws := 0; ws < 2; ws++ {
					for b := 0; b < 125; b++ {
						dc = append(dc, Case{Family: "doc/change", Blocks: [3]int{b % 5, b / 5 % 5, b / 25},
							Top: Top{Version: ver, Gen: g == 1, ElemPos: ord, WS: ws}})
					}
				}
			}
		}
	}
	fams = append(fams, family{"doc/change", len(dc), func(i int) Case { return dc[i] }})

	// ---- boundary audit families ----

	// value/edge, doc/edge: boundary values of every table in every field (see edgeElems).
	ee := edgeElems()
	fams = append(fams, family{"value/edge", len(ee), func(i int) Case {
		return Case{Family: "value/edge", Top: Top{Version: 2, Gen: true}, Elems: []Elem{ee[i]}}
	}})
	edgeOrders := []int{0, 1, 3}
	if !quick {
		edgeOrders = []int{0, 1, 2, 3, 4, 5, 6, 7}
	}
	// every edge element in canonical key order; the small ones (not the 2000-node / 300-member / 6 KB
	// string shapes, whose documents are 20 to 100 times larger) also in the other key orders and with
	// the absent scalars written as zero values
	var de2 []Elem
	for _, e := range ee {
		de2 = append(de2, e)
		if e.Sub == 6 || e.Tags == 5 || e.Salt == saltRange {
			continue
		}
		for _, ord := range edgeOrders {
			for zero := 0; zero < 2; zero++ {
				if ord == 0 && zero == 0 {
					continue
				}
				v := e
				v.Order, v.Zero = ord, zero
				de2 = append(de2, v)
			}
		}
	}
	fams = append(fams, family{"doc/edge", len(de2), func(i int) Case {
		return Case{Family: "doc/edge", Top: plainTop, Elems: []Elem{de2[i]}}
	}})
	ze := zeroElems()
	fams = append(fams, family{"doc/zero", len(ze), func(i int) Case {
		return Case{Family: "doc/zero", Top: plainTop, Elems: []Elem{ze[i]}}
	}})

	// value/top-edge: boundary top-level strings and bounds × version strings × string subsets ×
	// bounds × three element lists (one rich node, the history list, the 132-element list).
	many := manyElems()
	edgeLists := [][]Elem{lists[1], lists[9], many}
	var vte []Case
	for _, ver := range []int{0, 2, 4, 5} {
		for alt := 1; alt <= 2; alt++ {
			for m := 0; m < 16; m++ {
				for _, b := range bools {
					for li, l := range edgeLists {
						if li == 2 && m%5 != 0 {
							continue // the long list with no, two (twice) and all four strings
						}
						vte = append(vte, Case{Family: "value/top-edge", Elems: l,
							Top: Top{Version: ver, Gen: m&1 != 0, Copy: m&2 != 0, Attr: m&4 != 0, Lic: m&8 != 0, Bounds: b, Alt: alt}})
					}
				}
			}
		}
	}
	fams = append(fams, family{"value/top-edge", len(vte), func(i int) Case { return vte[i] }})

	// doc/top-edge: the version forms and the Alt variants the classic doc/top family does not have
	// (integer and two-decimal numbers, "" and null for absent keys) × string subsets × bounds ×
	// unknown keys 0/1 × no elements key / empty / one rich node / (for 4 of the 16 subsets) the long list.
	var dte []Case
	for ver := 0; ver <= 6; ver++ {
		for alt := 0; alt <= 4; alt++ {
			if ver < 4 && alt == 0 {
				continue // doc/top
			}
			for m := 0; m < 16; m++ {
				for _, b := range bools {
					for unk := 0; unk < 2; unk++ {
						for li, l := range [][]Elem{lists[0], lists[0], lists[1], many} {
							if li == 3 && (m%5 != 0 || unk != 0) {
								continue // the long list with no, two (twice) and all four strings
							}
							dte = append(dte, Case{Family: "doc/top-edge", Elems: l,
								Top: Top{Version: ver, Gen: m&1 != 0, Copy: m&2 != 0, Attr: m&4 != 0, Lic: m&8 != 0,
									Bounds: b, Unknown: unk, ElemPos: (m + li) % 3, WS: unk, NoElems: li == 0, Alt: alt}})
						}
					}
				}
			}
		}
	}
	fams = append(fams, family{"doc/top-edge", len(dte), func(i int) Case { return dte[i] }})
	return fams
}

// smallFamily: the families a one-sided codec configuration (only a marshaler or only an unmarshaler
// installed) is run on.
func smallFamily(name string) bool {
	switch name {
	case "value/top", "doc/zero":
		return true
	}
	return false
}

// codecPathsCase: one container with every kind and every helper involved.
func codecPathsCase() Case {
	return Case{Family: "codec/paths", Top: Top{Version: 2, Gen: true}, Elems: elemLists()[7]}
}

// minimalProbes: the smallest cases of the space (they are also reached by the
// enumeration): {"elements":[]}, a container with nothing but bounds, a change
// with one empty block.
func minimalProbes() []Case {
	return []Case{
		{Family: "doc/top"},
		{Family: "value/top", Top: Top{Version: 2, Bounds: true}},
		{Family: "value/change", Blocks: [3]int{1, 0, 0}},
	}
}
