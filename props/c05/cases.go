package main

// The finite case space of C05, per tier. Every family is a complete product
// of small alphabets; nothing is sampled.

import (
	"fmt"

	"github.com/paulmach/osm"
)

// Case is one evaluated input; it is also what a replay file stores.
type Case struct {
	Family string
	Top    Top
	Elems  []Elem
	Blocks [3]int // change families: per block 0 absent, 1.. a block variant
}

func (c Case) fingerprint(codec string) string {
	return fmt.Sprintf("%s|%v|%v|%v|%s", c.Family, c.Top, c.Elems, c.Blocks, codec)
}

// nonTrivial: the case has at least one optional field present somewhere
// (top level, element, or a non-empty change block); the bare documents
// ({"elements":[]}, elements with only type and id) are the trivial ones.
func (c Case) nonTrivial() bool {
	n := c.Top.optionalCount()
	for _, e := range c.Elems {
		n += e.optionalCount()
	}
	for _, b := range c.Blocks {
		if b > 1 {
			n++
		}
	}
	return n > 0
}

type family struct {
	name string
	n    int
	at   func(i int) Case
}

var kindBits = [nKinds]uint{7, 8, 8, 8, 7, 10}
var kindSub = [nKinds]int{1, 4, 4, 3, 3, 1}
var kindSub2 = [nKinds]int{1, 1, 1, 2, 3, 1}
var kindHasTags = [nKinds]bool{true, true, true, true, false, false}
var kindHasVis = [nKinds]bool{true, true, true, false, false, false}

// elemVariants: every combination of optional fields of one kind.
func elemVariants(kind int, doc bool, nTags int) []Elem {
	nVis, nT := 1, 1
	if kindHasVis[kind] {
		nVis = 2
		if doc {
			nVis = 3
		}
	}
	if kindHasTags[kind] {
		nT = nTags
	}
	var out []Elem
	idx := 0
	for mask := uint32(0); mask < 1<<kindBits[kind]; mask++ {
		for vis := 0; vis < nVis; vis++ {
			for tg := 0; tg < nT; tg++ {
				for sub := 0; sub < kindSub[kind]; sub++ {
					for sub2 := 0; sub2 < kindSub2[kind]; sub2++ {
						out = append(out, Elem{Kind: kind, ID: idTab[idx%len(idTab)], Mask: mask, Vis: vis, Tags: tg,
							Sub: sub, Sub2: sub2, Salt: idx % 7})
						idx++
					}
				}
			}
		}
	}
	return out
}

func allElemVariants(doc bool, nTags int) []Elem {
	var out []Elem
	for k := 0; k < nKinds; k++ {
		out = append(out, elemVariants(k, doc, nTags)...)
	}
	return out
}

// rich: an element of the kind with everything present.
func rich(kind int, id int64, salt int) Elem {
	e := Elem{Kind: kind, ID: id, Mask: 1<<kindBits[kind] - 1, Salt: salt, Sub: kindSub[kind] - 1, Sub2: kindSub2[kind] - 1}
	if kindHasVis[kind] {
		e.Vis = 1
	}
	if kindHasTags[kind] {
		e.Tags = 2
	}
	return e
}

// elemLists: the element lists of the top-level families. In documents the
// mixed list is interleaved; the library groups elements by kind, keeping the
// order inside a kind, and so does the expected value (model.add).
func elemLists() [][]Elem {
	lists := [][]Elem{{}}
	for k := 0; k < nKinds; k++ {
		lists = append(lists, []Elem{rich(k, 100+int64(k), k)})
	}
	lists = append(lists, []Elem{
		rich(kRelation, 1, 0), rich(kNode, 2, 1), rich(kWay, 3, 2), {Kind: kNode, ID: 4, Order: 1},
		rich(kUser, 5, 3), rich(kChangeset, 6, 4), rich(kNote, 7, 5), {Kind: kWay, ID: 8, Sub: 2, Order: 2, Unk: 1},
		{Kind: kRelation, ID: 9}, // a relation without members
		{Kind: kNote, ID: 10}, {Kind: kUser, ID: 11, Mask: 1}, {Kind: kChangeset, ID: 12, Tags: 1},
	})
	lists = append(lists, []Elem{{Kind: kNode, ID: 1}, {Kind: kNode, ID: 9007199254740993}, {Kind: kNode, ID: -3}})
	return lists
}

// changeBlock: content of one osmChange block. 1 empty, 2 node+way+relation
// without a version, 3 versioned with node+way, 4 with top-level bounds.
const nBlockVariants = 4

func changeBlock(variant, which int) (Top, []Elem) {
	id := int64(10 * (which + 1))
	switch variant {
	case 2:
		return Top{}, []Elem{rich(kNode, id, which), rich(kWay, id+1, which+1), rich(kRelation, id+2, which+2)}
	case 3:
		// number in the first block, string in the others (documents)
		ver := 2
		if which == 0 {
			ver = 1
		}
		return Top{Version: ver, Gen: which == 1}, []Elem{{Kind: kNode, ID: id, Mask: 1 << 6}, rich(kWay, id+1, which)}
	case 4:
		return Top{Bounds: true}, []Elem{rich(kNode, id, which)}
	}
	return Top{}, nil
}

func buildChange(t Top, blocks [3]int, annot bool) *osm.Change {
	o, _ := buildTop(Top{Version: t.Version, Gen: t.Gen, Copy: t.Copy, Attr: t.Attr, Lic: t.Lic})
	c := &osm.Change{Version: o.Version, Generator: o.Generator, Copyright: o.Copyright, Attribution: o.Attribution, License: o.License}
	dst := [3]**osm.OSM{&c.Create, &c.Modify, &c.Delete}
	for i, b := range blocks {
		if b == 0 {
			continue
		}
		bt, be := changeBlock(b, i)
		*dst[i] = buildOSM(bt, be, annot)
	}
	return c
}

func (c Case) hasTopBounds() bool {
	if c.Family == "value/change" {
		for _, b := range c.Blocks {
			if b == 4 {
				return true
			}
		}
		return false
	}
	return c.Top.Bounds
}

// the container used around single elements
var plainTop = Top{Version: 1, Gen: true}

func families(quick bool) []family {
	nTags := 4
	nOrd, nUnk := nOrders, nElemUnknown
	if quick {
		nTags = 3
		nOrd, nUnk = 3, 3
	}
	var fams []family

	// value/element: every optional-field combination of every kind, marshalled
	// on its own and inside a container.
	ve := allElemVariants(false, nTags)
	fams = append(fams, family{"value/element", len(ve), func(i int) Case {
		return Case{Family: "value/element", Top: Top{Version: 2, Gen: true}, Elems: []Elem{ve[i]}}
	}})

	// value/top: every top-level combination × every element list.
	lists := elemLists()
	bools := []bool{false, true}
	var vt []Case
	for _, ver := range []int{0, 2, 3} {
		for m := 0; m < 16; m++ {
			for _, b := range bools {
				for li := 1; li < len(lists); li++ {
					vt = append(vt, Case{Family: "value/top", Elems: lists[li],
						Top: Top{Version: ver, Gen: m&1 != 0, Copy: m&2 != 0, Attr: m&4 != 0, Lic: m&8 != 0, Bounds: b}})
				}
			}
		}
	}
	fams = append(fams, family{"value/top", len(vt), func(i int) Case { return vt[i] }})

	// value/change: top-level strings × block variants.
	var vc []Case
	for ver := 0; ver < 2; ver++ {
		for m := 0; m < 16; m++ {
			for b := 0; b < 125; b++ {
				vc = append(vc, Case{Family: "value/change", Blocks: [3]int{b % 5, b / 5 % 5, b / 25},
					Top: Top{Version: ver * 2, Gen: m&1 != 0, Copy: m&2 != 0, Attr: m&4 != 0, Lic: m&8 != 0}})
			}
		}
	}
	fams = append(fams, family{"value/change", len(vc), func(i int) Case { return vc[i] }})

	// doc/element: every optional-field combination × key order × unknown keys.
	de := allElemVariants(true, nTags)
	fams = append(fams, family{"doc/element", len(de) * nOrd * nUnk, func(i int) Case {
		e := de[i/(nOrd*nUnk)]
		e.Order = i / nUnk % nOrd
		e.Unk = i % nUnk
		return Case{Family: "doc/element", Top: plainTop, Elems: []Elem{e}}
	}})

	// doc/top: version × four strings × bounds key × unknown keys × position
	// of "elements" × layout × element list.
	var dt []Case
	for ver := 0; ver < 4; ver++ {
		for m := 0; m < 16; m++ {
			for _, b := range bools {
				for unk := 0; unk < nTopUnknown; unk++ {
					for pos := 0; pos < 3; pos++ {
						for ws := 0; ws < 2; ws++ {
							for li := 0; li < len(lists); li++ {
								if li == 0 && pos != 0 {
									continue
								}
								dt = append(dt, Case{Family: "doc/top", Elems: lists[li],
									Top: Top{Version: ver, Gen: m&1 != 0, Copy: m&2 != 0, Attr: m&4 != 0, Lic: m&8 != 0,
										Bounds: b, Unknown: unk, ElemPos: pos, WS: ws, NoElems: li == 0}})
							}
						}
					}
				}
			}
		}
	}
	fams = append(fams, family{"doc/top", len(dt), func(i int) Case { return dt[i] }})

	// doc/change: version (absent or string: Change.Version is a plain string
	// field, the number-or-string rule is about osmjson documents, i.e. the
	// blocks) × generator × key order × layout × block variants.
	var dc []Case
	for ver := 0; ver < 3; ver += 2 {
		for g := 0; g < 2; g++ {
			for ord := 0; ord < 2; ord++ {
				for ws := 0; ws < 2; ws++ {
					for b := 0; b < 125; b++ {
						dc = append(dc, Case{Family: "doc/change", Blocks: [3]int{b % 5, b / 5 % 5, b / 25},
							Top: Top{Version: ver, Gen: g == 1, ElemPos: ord, WS: ws}})
					}
				}
			}
		}
	}
	fams = append(fams, family{"doc/change", len(dc), func(i int) Case { return dc[i] }})
	return fams
}

// codecPathsCase: one container with every kind and every helper involved.
func codecPathsCase() Case {
	return Case{Family: "codec/paths", Top: Top{Version: 2, Gen: true}, Elems: elemLists()[7]}
}

// minimalProbes: the smallest cases of the space (they are also reached by the
// enumeration): {"elements":[]}, a container with nothing but bounds, a change
// with one empty block.
func minimalProbes() []Case {
	return []Case{
		{Family: "doc/top"},
		{Family: "value/top", Top: Top{Version: 2, Bounds: true}},
		{Family: "value/change", Blocks: [3]int{1, 0, 0}},
	}
}
