package main

// Codec configurations. The osm package keeps the codec in two package-level
// variables, so configurations run one after the other; inside one
// configuration the cases run in parallel.

import (
	"encoding/json"
	"reflect"
	"sort"
	"strings"
	"sync"
	"sync/atomic"

	"github.com/paulmach/osm"
)

type codecCfg struct {
	Name      string
	Install   func()
	Marshal   func(v interface{}) ([]byte, error)    // what a user of this codec calls
	Unmarshal func(data []byte, v interface{}) error // idem
	Counting  *countingCodec                         // non-nil for the delegating codec
	Exact     bool                                   // output expected to equal the standard library's up to JSON equivalence
	Sides     int                                    // counting codecs: 1 marshaler installed, 2 unmarshaler installed, 3 both
	Reduced   bool                                   // run on the small families only (cases.go smallFamily)
}

// countingCodec delegates to encoding/json and counts the calls per Go type
// of the argument, which identifies the helper inside the osm package that
// made the call.
type countingCodec struct {
	m sync.Map // reflect.Type → *int64 (marshal), "u:"+type handled via separate map
	u sync.Map
}

func bump(m *sync.Map, t reflect.Type) {
	if c, ok := m.Load(t); ok {
		atomic.AddInt64(c.(*int64), 1)
		return
	}
	c, _ := m.LoadOrStore(t, new(int64))
	atomic.AddInt64(c.(*int64), 1)
}

func (c *countingCodec) Marshal(v interface{}) ([]byte, error) {
	bump(&c.m, reflect.TypeOf(v))
	return json.Marshal(v)
}

func (c *countingCodec) Unmarshal(data []byte, v interface{}) error {
	bump(&c.u, reflect.TypeOf(v))
	return json.Unmarshal(data, v)
}

// helperPath names the osm helper behind a call from the argument type.
func helperPath(marshal bool, t reflect.Type) string {
	s := t.String()
	if marshal {
		switch {
		case strings.HasPrefix(s, "struct {"):
			return "marshal/OSM.MarshalJSON"
		case s == "map[string]string":
			return "marshal/Tags.MarshalJSON"
		case s == "[]int64":
			return "marshal/WayNodes.MarshalJSON"
		case s == "[]osm.Member":
			return "marshal/Members.MarshalJSON"
		case s == "time.Time":
			return "marshal/Date.MarshalJSON"
		}
		return "marshal/other:" + s
	}
	switch {
	case strings.HasPrefix(s, "*struct {"):
		return "unmarshal/OSM.UnmarshalJSON"
	case s == "*osm.typeStruct":
		return "unmarshal/findType"
	case s == "*[]int64":
		return "unmarshal/WayNodes.UnmarshalJSON"
	case s == "*map[string]string":
		return "unmarshal/Tags.UnmarshalJSON"
	case strings.HasPrefix(s, "*osm."):
		return "unmarshal/element-" + strings.ToLower(strings.TrimPrefix(s, "*osm."))
	}
	return "unmarshal/other:" + s
}

// snapshot returns calls per helper path.
func (c *countingCodec) snapshot() map[string]int64 {
	out := map[string]int64{}
	c.m.Range(func(k, v interface{}) bool {
		out[helperPath(true, k.(reflect.Type))] += atomic.LoadInt64(v.(*int64))
		return true
	})
	c.u.Range(func(k, v interface{}) bool {
		out[helperPath(false, k.(reflect.Type))] += atomic.LoadInt64(v.(*int64))
		return true
	})
	return out
}

// requiredPaths: every helper of the osm package that goes through
// marshalJSON / unmarshalJSON of json.go on the pinned tree.
// (Tags.UnmarshalJSON calls encoding/json directly, tag.go; that gives the
// same results and is reported as a note, not judged.)
var requiredPaths = []string{
	"marshal/OSM.MarshalJSON",
	"marshal/Tags.MarshalJSON",
	"marshal/WayNodes.MarshalJSON",
	"marshal/Members.MarshalJSON",
	"marshal/Date.MarshalJSON",
	"unmarshal/OSM.UnmarshalJSON",
	"unmarshal/findType",
	"unmarshal/element-node",
	"unmarshal/element-way",
	"unmarshal/element-relation",
	"unmarshal/element-changeset",
	"unmarshal/element-note",
	"unmarshal/element-user",
	"unmarshal/WayNodes.UnmarshalJSON",
}

func sortedKeys(m map[string]int64) []string {
	ks := make([]string, 0, len(m))
	for k := range m {
		ks = append(ks, k)
	}
	sort.Strings(ks)
	return ks
}

func stdCodec() codecCfg {
	return codecCfg{
		Name: "std",
		Install: func() {
			osm.CustomJSONMarshaler = nil
			osm.CustomJSONUnmarshaler = nil
		},
		Marshal:   json.Marshal,
		Unmarshal: json.Unmarshal,
		Exact:     true,
	}
}

func customCodec() codecCfg {
	c := &countingCodec{}
	return codecCfg{
		Name: "custom",
		Install: func() {
			osm.CustomJSONMarshaler = c
			osm.CustomJSONUnmarshaler = c
		},
		// the user of a delegating codec enters through encoding/json; the
		// osm helpers underneath must route through the installed codec
		Marshal:   json.Marshal,
		Unmarshal: json.Unmarshal,
		Counting:  c,
		Exact:     true,
		Sides:     3,
	}
}

// oneSidedCodec: the two package-level variables are independent, a user may install only one of
// them. The other direction then has to use the standard library, and nothing may call a nil codec.
func oneSidedCodec(marshal bool) codecCfg {
	c := &countingCodec{}
	cfg := codecCfg{Marshal: json.Marshal, Unmarshal: json.Unmarshal, Counting: c, Exact: true, Reduced: true}
	if marshal {
		cfg.Name, cfg.Sides = "custom-marshal-only", 1
		cfg.Install = func() {
			osm.CustomJSONMarshaler = c
			osm.CustomJSONUnmarshaler = nil
		}
	} else {
		cfg.Name, cfg.Sides = "custom-unmarshal-only", 2
		cfg.Install = func() {
			osm.CustomJSONMarshaler = nil
			osm.CustomJSONUnmarshaler = c
		}
	}
	return cfg
}

// extraCodecs is filled by optional files (jsoniter, added by run.sh through
// a build overlay when the module resolves offline).
var extraCodecs []func() codecCfg
