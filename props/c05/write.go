package main

// The independent osmjson writer: text templates only, no encoding/json and no
// osm marshal code. Input is the key/value lists of model.go.

import (
	"sort"
	"strings"
)

func writeObject(kvs []kv, ws bool) string {
	var b strings.Builder
	b.WriteByte('{')
	for i, p := range kvs {
		if i > 0 {
			b.WriteByte(',')
		}
		if ws {
			b.WriteString("\n\t ")
		}
		b.WriteByte('"')
		b.WriteString(p.K) // keys are plain ASCII identifiers
		b.WriteByte('"')
		if ws {
			b.WriteString(" : ")
		} else {
			b.WriteByte(':')
		}
		b.WriteString(p.V)
	}
	if ws {
		b.WriteString("\r\n")
	}
	b.WriteByte('}')
	return b.String()
}

const nOrders = 8

// permute returns kvs in key order variant ord: 0 canonical (type first),
// 1 reversed (type last), 2 rotated by half, 3 sorted by key, 4 rotated by
// one, 5 reversed then rotated by one, 6 even positions then odd, 7 odd then even.
func permute(kvs []kv, ord int) []kv {
	n := len(kvs)
	out := make([]kv, 0, n)
	rot := func(src []kv, k int) {
		for i := 0; i < n; i++ {
			out = append(out, src[(i+k)%n])
		}
	}
	rev := func() []kv {
		r := make([]kv, n)
		for i, p := range kvs {
			r[n-1-i] = p
		}
		return r
	}
	switch ord % nOrders {
	case 0:
		rot(kvs, 0)
	case 1:
		rot(rev(), 0)
	case 2:
		rot(kvs, n/2)
	case 3:
		out = append(out, kvs...)
		sort.SliceStable(out, func(i, j int) bool { return out[i].K < out[j].K })
	case 4:
		rot(kvs, 1%n)
	case 5:
		rot(rev(), 1%n)
	case 6:
		for i := 0; i < n; i += 2 {
			out = append(out, kvs[i])
		}
		for i := 1; i < n; i += 2 {
			out = append(out, kvs[i])
		}
	case 7:
		for i := 1; i < n; i += 2 {
			out = append(out, kvs[i])
		}
		for i := 0; i < n; i += 2 {
			out = append(out, kvs[i])
		}
	}
	return out
}

const nElemUnknown = 4

// elemUnknown: keys the library does not model, spliced in at the start, the
// middle and the end. None of them equals a modelled key, also not when
// letter case is ignored.
func elemUnknown(variant int) []kv {
	switch variant {
	case 1:
		return []kv{
			{"zz_unknown", "1"},
			{"extra", `{"type":"way","id":99,"tags":[1,2],"nodes":"none","members":null}`},
			{"flags", `[true,null,"x",{"type":"relation"}]`},
		}
	case 2: // what Overpass adds with "out geom" / "out center"
		return []kv{
			{"center", `{"lat":50.5,"lon":7.25}`},
			{"geometry", `[{"lat":50.5,"lon":7.25},null,{"lat":50.75,"lon":7.5}]`},
			{"count", `{"total":3}`},
		}
	case 3: // near misses of modelled keys
		return []kv{
			{"_type", `"way"`},
			{"tag", `{"a":"b"}`},
			{"node", `[5]`},
			{"member", `[]`},
			{"ids", `[1,2]`},
			{"typ", `"node"`},
		}
	}
	return nil
}

func splice(kvs, unk []kv) []kv {
	if len(unk) == 0 {
		return kvs
	}
	out := make([]kv, 0, len(kvs)+len(unk))
	third := (len(unk) + 2) / 3
	a, b := unk[:third], unk[third:]
	var c []kv
	if len(b) > third {
		b, c = b[:third], b[third:]
	}
	mid := len(kvs) / 2
	out = append(out, a...)
	out = append(out, kvs[:mid]...)
	out = append(out, b...)
	out = append(out, kvs[mid:]...)
	out = append(out, c...)
	return out
}

// writeElem writes one element as a document author would.
func writeElem(e Elem, ws bool) string {
	_, kvs := build(e, false)
	return writeObject(splice(permute(kvs, e.Order), elemUnknown(e.Unk)), ws)
}

const nTopUnknown = 4

func topUnknown(variant int) (before, after []kv) {
	osm3s := kv{"osm3s", `{"timestamp_osm_base":"2020-01-01T00:00:00Z","copyright":"nested, must not leak","version":9,"generator":"nested","elements":[{"type":"node","id":777}]}`}
	switch variant {
	case 1:
		return []kv{osm3s}, nil
	case 2:
		return nil, []kv{osm3s, {"remark", `"runtime remark"`}}
	case 3:
		return []kv{{"versions", `"9.9"`}, {"element", `[{"type":"node","id":5}]`}},
			[]kv{{"licence", `"x"`}, {"generators", "null"}, {"note", `[{"type":"note","id":1}]`}}
	}
	return nil, nil
}

// writeDoc writes a whole osmjson document.
func writeDoc(t Top, elems []Elem) string {
	_, kvs := buildTop(t)
	before, after := topUnknown(t.Unknown)
	ws := t.WS == 1
	all := append([]kv{}, before...)
	if !t.NoElems {
		items := make([]string, len(elems))
		for i, e := range elems {
			items[i] = writeElem(e, ws)
		}
		sep := ","
		if ws {
			sep = " ,\n  "
		}
		el := kv{"elements", "[" + strings.Join(items, sep) + "]"}
		switch t.ElemPos {
		case 1:
			kvs = append([]kv{el}, kvs...)
		case 2:
			mid := len(kvs) / 2
			kvs = append(append(append([]kv{}, kvs[:mid]...), el), kvs[mid:]...)
		default:
			kvs = append(kvs, el)
		}
	}
	all = append(all, kvs...)
	all = append(all, after...)
	s := writeObject(all, ws)
	if ws {
		s = " \n" + s + "\n"
	}
	return s
}

// writeChangeDoc writes the JSON form of an osmChange as the library defines
// it: version/generator keys and create/modify/delete blocks, each block an
// osmjson document.
func writeChangeDoc(t Top, blocks [3]int) string {
	_, kvs := buildTop(Top{Version: t.Version, Gen: t.Gen, Copy: t.Copy, Attr: t.Attr, Lic: t.Lic})
	names := [3]string{"create", "modify", "delete"}
	for i, b := range blocks {
		if b == 0 {
			continue
		}
		bt, be := changeBlock(b, i)
		kvs = append(kvs, kv{names[i], writeDoc(bt, be)})
	}
	return writeObject(permute(kvs, t.ElemPos), t.WS == 1)
}
