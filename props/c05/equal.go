package main

// Comparison of decoded osm values with the expected ones, as far as the
// property goes: nil and empty slices are the same, times compare as
// instants, tags compare as key→value maps, way nodes (in ways and in
// relation members) compare by id only because osmjson has no place for their
// version/changeset/lat/lon, and the XMLName shims are ignored.

import (
	"fmt"
	"reflect"
	"sort"
	"strings"
	"time"

	"github.com/paulmach/osm"
)

type mismatch struct {
	Path string // field path without indices, e.g. "OSM.Ways.Tags"
	What string
}

type differ struct {
	out []mismatch
	// boundsFree: OSM.Bounds is not judged when the decoder left it nil
	// (documents with an OSM-API style top-level "bounds" key, which the
	// library may or may not model); when set it must have the written values
	boundsFree bool
}

var (
	timeType     = reflect.TypeOf(time.Time{})
	tagsType     = reflect.TypeOf(osm.Tags{})
	wayNodesType = reflect.TypeOf(osm.WayNodes{})
	osmType      = reflect.TypeOf(osm.OSM{})
)

var restartAt = map[reflect.Type]string{
	osmType:                         "OSM",
	reflect.TypeOf(osm.Change{}):    "Change",
	reflect.TypeOf(osm.Node{}):      "Node",
	reflect.TypeOf(osm.Way{}):       "Way",
	reflect.TypeOf(osm.Relation{}):  "Relation",
	reflect.TypeOf(osm.Changeset{}): "Changeset",
	reflect.TypeOf(osm.Note{}):      "Note",
	reflect.TypeOf(osm.User{}):      "User",
}

func (d *differ) add(path, format string, a ...interface{}) {
	if len(d.out) < 8 {
		d.out = append(d.out, mismatch{path, fmt.Sprintf(format, a...)})
	}
}

// diffValues compares got with want; root names the outermost type.
func diffValues(root string, want, got interface{}, boundsFree bool) []mismatch {
	d := &differ{boundsFree: boundsFree}
	d.walk(root, reflect.ValueOf(want), reflect.ValueOf(got), 0)
	return d.out
}

func tagsMap(v reflect.Value) (map[string]string, bool) {
	ts := v.Interface().(osm.Tags)
	m := make(map[string]string, len(ts))
	for _, t := range ts {
		m[t.Key] = t.Value
	}
	return m, len(m) == len(ts)
}

func (d *differ) walk(path string, w, g reflect.Value, depth int) {
	if w.Type() != g.Type() {
		d.add(path, "type %v vs %v", w.Type(), g.Type())
		return
	}
	switch w.Type() {
	case timeType:
		wt, gt := w.Interface().(time.Time), g.Interface().(time.Time)
		if !wt.Equal(gt) {
			d.add(path, "time want %s got %s", wt.Format(time.RFC3339Nano), gt.Format(time.RFC3339Nano))
		}
		return
	case tagsType:
		wm, _ := tagsMap(w)
		gm, unique := tagsMap(g)
		if !unique || !reflect.DeepEqual(wm, gm) {
			d.add(path, "tags want %v got %v", sortedTags(wm), g.Interface())
		}
		return
	case wayNodesType:
		wn, gn := w.Interface().(osm.WayNodes), g.Interface().(osm.WayNodes)
		if len(wn) != len(gn) {
			d.add(path, "way nodes want %d ids got %d", len(wn), len(gn))
			return
		}
		for i := range wn {
			if wn[i].ID != gn[i].ID {
				d.add(path, "way node %d want id %d got %d", i, wn[i].ID, gn[i].ID)
				return
			}
		}
		return
	}
	switch w.Kind() {
	case reflect.Ptr:
		if w.IsNil() != g.IsNil() {
			d.add(path, "want nil=%v got nil=%v", w.IsNil(), g.IsNil())
			return
		}
		if !w.IsNil() {
			d.walk(path, w.Elem(), g.Elem(), depth)
		}
	case reflect.Struct:
		// paths restart at every container / element type, so that the same
		// field gives the same violation key wherever the element sits
		if name, ok := restartAt[w.Type()]; ok {
			path = name
		}
		for i := 0; i < w.NumField(); i++ {
			f := w.Type().Field(i)
			if f.Name == "XMLName" {
				continue
			}
			if d.boundsFree && w.Type() == osmType && f.Name == "Bounds" {
				gb := g.Field(i)
				if !gb.IsNil() {
					d.walk(path+"."+f.Name, w.Field(i), gb, depth+1)
				}
				continue
			}
			d.walk(path+"."+f.Name, w.Field(i), g.Field(i), depth+1)
		}
	case reflect.Slice:
		if w.Len() != g.Len() {
			d.add(path, "want %d items got %d", w.Len(), g.Len())
			return
		}
		for i := 0; i < w.Len(); i++ {
			d.walk(path, w.Index(i), g.Index(i), depth+1)
		}
	case reflect.String:
		if w.String() != g.String() {
			d.add(path, "want %q got %q", w.String(), g.String())
		}
	case reflect.Bool:
		if w.Bool() != g.Bool() {
			d.add(path, "want %v got %v", w.Bool(), g.Bool())
		}
	case reflect.Int, reflect.Int8, reflect.Int16, reflect.Int32, reflect.Int64:
		if w.Int() != g.Int() {
			d.add(path, "want %d got %d", w.Int(), g.Int())
		}
	case reflect.Float32, reflect.Float64:
		if w.Float() != g.Float() {
			d.add(path, "want %v got %v", w.Float(), g.Float())
		}
	default:
		d.add(path, "unhandled kind %v", w.Kind())
	}
}

func sortedTags(m map[string]string) string {
	keys := make([]string, 0, len(m))
	for k := range m {
		keys = append(keys, k)
	}
	sort.Strings(keys)
	var b strings.Builder
	for _, k := range keys {
		fmt.Fprintf(&b, "%q=%q ", k, m[k])
	}
	return b.String()
}
