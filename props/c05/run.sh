#!/bin/bash
# props/c05/run.sh <tier> [flags for the check binary]   (called by /verif/check)
#
# Builds the C05 harness against /repo's working tree and runs it. For the
# thorough tier and for replays it first tries to link the optional
# json-iterator configuration: the require lines go into a scratch copy of
# go.mod (-modfile), the source comes in through a build overlay, so neither
# /verif/go.mod nor the package directory change. If that build does not
# resolve offline the plain build is used and the evidence says so.
set -u
ROOT=$(cd "$(dirname "$0")/../.." && pwd)
. "$ROOT/env.sh"
cd "$ROOT"
tier=${1:-quick}
shift || true
mkdir -p "$ROOT/bin" "$ROOT/evidence"
# tools/mutate.sh hands in mutated library sources through VERIF_OVERLAY (a go build overlay file) and a
# scratch directory for the binary through VERIF_BIN; both must be honoured or a mutation run silently
# tests the unchanged tree
ov=()
[ -n "${VERIF_OVERLAY:-}" ] && ov=(-overlay "$VERIF_OVERLAY")
bin="${VERIF_BIN:-$ROOT/bin}"
mkdir -p "$bin"
built=0
want_jsi=0
[ "$tier" = thorough ] && want_jsi=1
for a in "$@"; do [ "$a" = "-replay" ] && want_jsi=1; done
if [ "$want_jsi" = 1 ] && [ -z "${C05_NO_JSONITER:-}" ]; then
  cache=$(go env GOMODCACHE)
  jv=$(ls -d "$cache"/github.com/json-iterator/go@v* 2>/dev/null | sort -V | tail -1 | sed 's/.*@//')
  rv=$(ls -d "$cache"/github.com/modern-go/reflect2@v* 2>/dev/null | sort -V | tail -1 | sed 's/.*@//')
  if [ -z "$jv" ]; then
    export C05_JSONITER_SKIPPED="no json-iterator in the module cache"
  else
    scratch=$(mktemp -d /tmp/verif-c05-jsi.XXXXXX)
    cp "$ROOT/go.mod" "$scratch/go.mod"
    cp "$ROOT/go.sum" "$scratch/go.sum" 2>/dev/null
    echo "require github.com/json-iterator/go $jv" >> "$scratch/go.mod"
    [ -n "$rv" ] && echo "require github.com/modern-go/reflect2 $rv" >> "$scratch/go.mod"
    if [ -n "${VERIF_OVERLAY:-}" ]; then
      # one -overlay per build: merge the caller's replacements into ours
      python3 - "$VERIF_OVERLAY" "$ROOT/props/c05/zz_jsoniter.go" "$ROOT/props/c05/jsoniter/codec_jsoniter.go.txt" > "$scratch/o.json" <<'PY'
import json, sys
o = json.load(open(sys.argv[1]))
o.setdefault("Replace", {})[sys.argv[2]] = sys.argv[3]
json.dump(o, sys.stdout)
PY
    else
      printf '{"Replace": {"%s": "%s"}}\n' "$ROOT/props/c05/zz_jsoniter.go" "$ROOT/props/c05/jsoniter/codec_jsoniter.go.txt" > "$scratch/o.json"
    fi
    if go build -modfile="$scratch/go.mod" -overlay "$scratch/o.json" -o "$bin/c05" ./props/c05 2> "$bin/c05.jsoniter.buildlog"; then
      # the cached versions may not run under the installed Go: probe in a process of its own
      if C05_JSONITER_SMOKE=1 "$bin/c05" > "$bin/c05.jsoniter.smoke" 2>&1; then
        built=1
      else
        export C05_JSONITER_SKIPPED="json-iterator $jv with reflect2 ${rv:-?} builds offline but faults at run time under $(go version | cut -d' ' -f3) (smoke test, see bin/c05.jsoniter.smoke)"
      fi
    else
      export C05_JSONITER_SKIPPED="json-iterator $jv does not build offline (see bin/c05.jsoniter.buildlog)"
    fi
    rm -rf "$scratch"
  fi
fi
if [ "$built" = 0 ]; then
  if ! go build "${ov[@]+"${ov[@]}"}" -o "$bin/c05" ./props/c05 2> "$bin/c05.buildlog"; then
    echo "HARNESS-ERROR build of C05 failed (see below)"; head -50 "$bin/c05.buildlog"; exit 2
  fi
fi
exec "$bin/c05" -tier "$tier" "$@"
