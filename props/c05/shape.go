package main

// The shape oracle: library output parsed with encoding/json into generic
// values and checked against what the property says about osmjson.

import (
	"bytes"
	"encoding/json"
	"fmt"
	"strings"
)

type shapeErr struct {
	Clause string // e.g. "element-type"
	What   string
}

func parseGeneric(data []byte) (interface{}, error) {
	dec := json.NewDecoder(bytes.NewReader(data))
	dec.UseNumber()
	var v interface{}
	if err := dec.Decode(&v); err != nil {
		return nil, err
	}
	if dec.More() {
		return nil, fmt.Errorf("trailing data after the JSON value")
	}
	return v, nil
}

func isInt(v interface{}) bool {
	n, ok := v.(json.Number)
	if !ok {
		return false
	}
	s := string(n)
	return s != "" && !strings.ContainsAny(s, ".eE")
}

// shapeDoc checks one osmjson document.
func shapeDoc(v interface{}, where string) []shapeErr {
	var errs []shapeErr
	top, ok := v.(map[string]interface{})
	if !ok {
		return []shapeErr{{"document-object", where + ": document is not an object"}}
	}
	for _, k := range []string{"version", "generator", "copyright", "attribution", "license"} {
		if x, has := top[k]; has {
			switch x.(type) {
			case string, json.Number:
			default:
				errs = append(errs, shapeErr{"top-level-" + k, fmt.Sprintf("%s: %q is %T", where, k, x)})
			}
		}
	}
	els, ok := top["elements"].([]interface{})
	if !ok {
		return append(errs, shapeErr{"elements-array", fmt.Sprintf("%s: \"elements\" is %T, not an array", where, top["elements"])})
	}
	for i, e := range els {
		errs = append(errs, shapeElem(e, fmt.Sprintf("%s.elements[%d]", where, i))...)
	}
	return errs
}

// shapeElem checks one element object.
func shapeElem(v interface{}, where string) []shapeErr {
	var errs []shapeErr
	e, ok := v.(map[string]interface{})
	if !ok {
		return []shapeErr{{"element-object", fmt.Sprintf("%s is %T, not an object", where, v)}}
	}
	typ, ok := e["type"].(string)
	if !ok || typ == "" {
		keys := make([]string, 0, len(e))
		for k := range e {
			keys = append(keys, k)
		}
		return []shapeErr{{"element-type", fmt.Sprintf("%s carries no \"type\" string (keys %v)", where, sortedStrings(keys))}}
	}
	if _, has := e["id"]; has && !isInt(e["id"]) {
		errs = append(errs, shapeErr{"element-id", fmt.Sprintf("%s: id is %v", where, e["id"])})
	}
	if t, has := e["tags"]; has {
		m, ok := t.(map[string]interface{})
		if !ok {
			errs = append(errs, shapeErr{"tags-object", fmt.Sprintf("%s: \"tags\" is %T, not an object", where, t)})
		}
		for k, x := range m {
			if _, ok := x.(string); !ok {
				errs = append(errs, shapeErr{"tags-object", fmt.Sprintf("%s: tag %q has a %T value", where, k, x)})
			}
		}
	}
	nodesOK := func(n interface{}, w string) {
		a, ok := n.([]interface{})
		if !ok {
			errs = append(errs, shapeErr{"way-nodes", fmt.Sprintf("%s: \"nodes\" is %T, not an array", w, n)})
			return
		}
		for i, x := range a {
			if !isInt(x) {
				errs = append(errs, shapeErr{"way-nodes", fmt.Sprintf("%s: nodes[%d] is %v (%T), not an id", w, i, x, x)})
				return
			}
		}
	}
	switch typ {
	case "way":
		if n, has := e["nodes"]; has {
			nodesOK(n, where)
		}
	case "relation":
		if m, has := e["members"]; has {
			a, ok := m.([]interface{})
			if !ok {
				errs = append(errs, shapeErr{"relation-members", fmt.Sprintf("%s: \"members\" is %T (null?), not an array", where, m)})
			}
			for i, x := range a {
				mo, ok := x.(map[string]interface{})
				if !ok {
					errs = append(errs, shapeErr{"relation-members", fmt.Sprintf("%s: members[%d] is %T", where, i, x)})
					continue
				}
				if s, ok := mo["type"].(string); !ok || s == "" {
					errs = append(errs, shapeErr{"relation-members", fmt.Sprintf("%s: members[%d] has no type", where, i)})
				}
				if !isInt(mo["ref"]) {
					errs = append(errs, shapeErr{"relation-members", fmt.Sprintf("%s: members[%d] ref is %v", where, i, mo["ref"])})
				}
				if n, has := mo["nodes"]; has {
					nodesOK(n, fmt.Sprintf("%s.members[%d]", where, i))
				}
			}
		}
	case "changeset":
		if c, has := e["change"]; has {
			errs = append(errs, shapeChange(c, where+".change")...)
		}
	}
	return errs
}

// shapeChange checks the JSON form of an osmChange: every block present is an
// osmjson document.
func shapeChange(v interface{}, where string) []shapeErr {
	c, ok := v.(map[string]interface{})
	if !ok {
		return []shapeErr{{"change-object", fmt.Sprintf("%s is %T, not an object", where, v)}}
	}
	var errs []shapeErr
	for _, k := range []string{"create", "modify", "delete"} {
		if b, has := c[k]; has {
			errs = append(errs, shapeDoc(b, where+"."+k)...)
		}
	}
	return errs
}

func sortedStrings(s []string) []string {
	for i := 1; i < len(s); i++ {
		for j := i; j > 0 && s[j] < s[j-1]; j-- {
			s[j], s[j-1] = s[j-1], s[j]
		}
	}
	return s
}

// canonicalHash: a hash of the generic JSON value with object keys in sorted
// order and numbers as float64, to compare the output of two codecs up to
// JSON equivalence.
func canonical(data []byte) ([]byte, error) {
	var v interface{}
	if err := json.Unmarshal(data, &v); err != nil {
		return nil, err
	}
	return json.Marshal(v)
}
