// C05 — OSM JSON output is osmjson-shaped and round-trips up to tag order,
// for the standard library codec and for a user-installed codec.
//
// Bounded-exhaustive: an abstract model (model.go) of top-level fields and of
// the six element kinds is enumerated completely (cases.go). Each abstract
// case yields, independently of the code under test, an osm value and an
// osmjson text (write.go). Value direction: marshal → shape oracle (shape.go)
// → unmarshal → compare with the input (equal.go). Document direction:
// unmarshal the independently written text → compare with the expected value.
package main

import (
	"bytes"
	"fmt"
	"hash/fnv"
	"os"
	"reflect"
	"strings"
	"sync"
	"sync/atomic"

	"github.com/paulmach/osm"

	"verif/kit"
)

// slot: what the first (standard library) configuration leaves behind for a
// case, so that later configurations can be compared with it.
type slot struct {
	hash uint64   // canonical hash of the marshal output(s)
	keys []string // violation keys raised under the standard codec
}

type runner struct {
	r       *kit.Run
	cfg     codecCfg
	first   bool // cfg is the reference configuration
	perFam  sync.Map
	skipped int64
}

// sampleDoc is what goes into the evidence samples.
type sampleDoc struct {
	Case  Case
	Codec string
	Text  string
}

func main() {
	kit.Main("C05", "exploration", func(r *kit.Run) {
		r.Rule("families value/element, value/top, value/change, doc/element, doc/top, doc/change are complete products of small alphabets " +
			"(per kind: every subset of optional fields × visible × tags 0/1/3(/empty) × way nodes / members / discussion / comments variants; " +
			"documents additionally × key order × unknown keys; top level: version absent/number/string × generator/copyright/attribution/license subsets × bounds × unknown keys × position of elements × layout × 10 element lists: no elements key, empty, one rich element per kind, an interleaved mix of all kinds, three bare nodes), " +
			"each evaluated under every codec configuration; a case is non-trivial when at least one optional field is present; distinct = distinct (case, codec)")
		r.Assume("encoding/json is trusted as the generic parser of the shape oracle and as the backend of the delegating custom codec")
		r.Assume("reference values and document texts are written by hand side by side in props/c05/model.go; documents are produced by text templates, never by json.Marshal of osm types")
		r.Assume("domain: unique tag keys, valid UTF-8, finite floats, years 1..9999; documents use exactly the key names of Overpass / the struct tags; unknown keys differ from modelled keys also when case is ignored")

		cfgs := []codecCfg{stdCodec(), customCodec()}
		if !r.Quick() || r.ReplayPath != "" {
			for _, f := range extraCodecs {
				cfgs = append(cfgs, f())
			}
		}
		names := []string{}
		for _, c := range cfgs {
			names = append(names, c.Name)
		}
		r.Set("codec_configurations", names)
		if !r.Quick() && len(extraCodecs) == 0 {
			why := os.Getenv("C05_JSONITER_SKIPPED")
			if why == "" {
				why = "not linked into this binary; props/c05/run.sh adds it when the module resolves offline"
			}
			r.Note("optional json-iterator configuration skipped: " + why)
		}
		defer stdCodec().Install()

		if r.ReplayPath != "" {
			var c Case
			r.LoadReplay(&c)
			slots := make([]slot, 1)
			for i, cfg := range cfgs {
				cfg.Install()
				rn := &runner{r: r, cfg: cfg, first: i == 0}
				if c.Family == "codec/paths" {
					if cfg.Counting != nil {
						rn.checkCodecPaths()
					}
					continue
				}
				rn.checkCase(c, &slots[0])
			}
			return
		}

		fams := families(r.Quick())
		total := 0
		famCounts := map[string]int{}
		for _, f := range fams {
			total += f.n
			famCounts[f.name] = f.n
		}
		r.Set("cases_per_family", famCounts)
		r.Set("cases_per_configuration", total)
		slots := make([]slot, total)

		for ci, cfg := range cfgs {
			cfg.Install()
			rn := &runner{r: r, cfg: cfg, first: ci == 0}
			if ci == 0 {
				// the smallest members of the space first and one after the other,
				// so that the replay stored for a key is its minimal reproducer
				for _, c := range minimalProbes() {
					rn.checkCase(c, &slot{})
				}
			}
			if cfg.Counting != nil {
				rn.checkCodecPaths()
			}
			off := 0
			for _, f := range fams {
				f, base := f, off
				r.Par(f.n, func(i int) {
					if r.TimeUp() {
						atomic.AddInt64(&rn.skipped, 1)
						return
					}
					rn.checkCase(f.at(i), &slots[base+i])
				})
				off += f.n
			}
			if rn.skipped > 0 {
				r.Capped(fmt.Sprintf("time cap: %d cases skipped under codec %s", rn.skipped, cfg.Name))
			}
			if cfg.Counting != nil {
				snap := cfg.Counting.snapshot()
				r.Set("custom_codec_calls_per_helper", snap)
				if snap["unmarshal/Tags.UnmarshalJSON"] == 0 {
					r.Note("Tags.UnmarshalJSON (tag.go) calls encoding/json directly and never consults osm.CustomJSONUnmarshaler; results are the same, so this is reported and not judged")
				}
			}
		}
		stdCodec().Install()
	})
}

// report raises a violation. Keys raised only under a non-reference codec get
// the codec name in front: that is a different defect (codec dependence).
func (rn *runner) report(c Case, sl *slot, raised *[]string, key, what string) {
	for _, k := range *raised {
		if k == key {
			return
		}
	}
	*raised = append(*raised, key)
	full := key
	if !rn.first {
		seen := false
		for _, k := range sl.keys {
			if k == key {
				seen = true
			}
		}
		if !seen {
			full = "codec-" + rn.cfg.Name + "/" + key
		}
	}
	rn.r.Violation(full, fmt.Sprintf("[codec %s, family %s] %s", rn.cfg.Name, c.Family, what), c)
}

func clip(s string) string {
	if len(s) > 600 {
		return s[:600] + "…"
	}
	return s
}

// mismatchKey maps a comparison mismatch to a violation key.
func mismatchKey(clause string, m mismatch) string {
	if strings.HasSuffix(m.Path, "Version") && m.What == `want "" got "<nil>"` {
		return "absent-top-level/version"
	}
	return clause + "/" + m.Path
}

func hashBytes(parts ...[]byte) uint64 {
	h := fnv.New64a()
	for _, p := range parts {
		h.Write(p)
		h.Write([]byte{0})
	}
	return h.Sum64()
}

// guardedMarshal / guardedUnmarshal turn a panic of the code under test into
// an error, so that it is reported as a violation with a replay file.
func guardedMarshal(cfg codecCfg, v interface{}) (data []byte, err error) {
	defer func() {
		if p := recover(); p != nil {
			err = fmt.Errorf("panic: %v", p)
		}
	}()
	return cfg.Marshal(v)
}

// poisons are documents the decoder has to reject (or may accept: their outcome
// is not judged). Every third decode of a case is preceded by one of them in
// the same goroutine: what a failed decode leaves behind (scratch buffers,
// pooled maps, package-level state) must not leak into the next, valid, decode.
var poisons = []struct {
	text string
	into func() interface{}
}{
	{`{"version":0.6,"elements":[{"type":"node","id":1,"tags":{"ele":412,"name":"Old Mill","tourism":"viewpoint"}}]}`, func() interface{} { return &osm.OSM{} }},
	{`{"type":"node","id":1,"lat":1,"lon":2,"tags":{"zz-left-behind":"x","n":5}}`, func() interface{} { return &osm.Node{} }},
	{`{"elements":[{"type":"way","id":1,"nodes":[7,8,"x"],"tags":{"w":"1"}}]}`, func() interface{} { return &osm.OSM{} }},
	{`{"elements":[{"type":"relation","id":1,"members":[{"type":"node","ref":5,"role":"a"},{"type":"node","ref":"r","role":1}]}]}`, func() interface{} { return &osm.OSM{} }},
	{`{"elements":[{"type":"node","id":1,"lat":"north","user":"u","uid":3}]}`, func() interface{} { return &osm.OSM{} }},
	{`{"version":"0.6","generator":"g","elements":[{"type":"node","id":1,"tags":{"a":"b"`, func() interface{} { return &osm.OSM{} }},
	{`{"type":"way","id":3,"nodes":[1,2],"tags":{"k":"v","bad":[1]}}`, func() interface{} { return &osm.Way{} }},
	{`{"type":"changeset","id":9,"tags":{"comment":"c","n":null,"m":1}}`, func() interface{} { return &osm.Changeset{} }},
}

func poison(cfg codecCfg, seed int) {
	if seed%3 != 0 {
		return
	}
	p := poisons[(seed/3)%len(poisons)]
	_ = guardedUnmarshal(cfg, []byte(p.text), p.into())
}

func guardedUnmarshal(cfg codecCfg, data []byte, v interface{}) (err error) {
	defer func() {
		if p := recover(); p != nil {
			err = fmt.Errorf("panic: %v", p)
		}
	}()
	return cfg.Unmarshal(data, v)
}

// wantTypes: how many elements of each type the output must carry (nil when
// the input is not a container or a single element).
func wantTypes(in interface{}) map[string]int {
	m := map[string]int{}
	put := func(k string, n int) {
		if n > 0 {
			m[k] = n
		}
	}
	switch x := in.(type) {
	case *osm.OSM:
		put("node", len(x.Nodes))
		put("way", len(x.Ways))
		put("relation", len(x.Relations))
		put("changeset", len(x.Changesets))
		put("note", len(x.Notes))
		put("user", len(x.Users))
	case *osm.Node:
		put("node", 1)
	case *osm.Way:
		put("way", 1)
	case *osm.Relation:
		put("relation", 1)
	case *osm.Changeset:
		put("changeset", 1)
	case *osm.Note:
		put("note", 1)
	case *osm.User:
		put("user", 1)
	default:
		return nil
	}
	return m
}

// typeHistogram counts the "type" strings of a document's elements, or of a
// single element object. Elements without a type are left to the shape oracle.
func typeHistogram(g interface{}) map[string]int {
	m := map[string]int{}
	top, _ := g.(map[string]interface{})
	els, isDoc := top["elements"].([]interface{})
	if !isDoc {
		els = []interface{}{g}
	}
	for _, e := range els {
		if eo, ok := e.(map[string]interface{}); ok {
			if t, ok := eo["type"].(string); ok && t != "" {
				m[t]++
			}
		}
	}
	return m
}

func newOf(kind int) interface{} {
	switch kind {
	case kNode:
		return &osm.Node{}
	case kWay:
		return &osm.Way{}
	case kRelation:
		return &osm.Relation{}
	case kChangeset:
		return &osm.Changeset{}
	case kNote:
		return &osm.Note{}
	}
	return &osm.User{}
}

func (rn *runner) checkCase(c Case, sl *slot) {
	r := rn.r
	r.Case(c.fingerprint(rn.cfg.Name), c.nonTrivial())
	var raised []string
	rep := func(key, what string) { rn.report(c, sl, &raised, key, what) }
	var outputs [][]byte
	sampleText := ""

	// marshalled value → shape → back
	roundTrip := func(label string, in interface{}, out interface{}, root string, shape func(v interface{}, where string) []shapeErr) {
		before := kit.DeepCopy(in)
		data, err := guardedMarshal(rn.cfg, in)
		if err != nil {
			rep("roundtrip/marshal-error/"+label, fmt.Sprintf("marshal failed: %v", err))
			return
		}
		// the call itself: input untouched, and the same text when asked again
		if !reflect.DeepEqual(before, in) {
			rep("marshal/input-modified/"+label, "the value differs from the deep copy made before marshalling; output "+clip(string(data)))
		}
		if again, err := guardedMarshal(rn.cfg, in); err != nil || !bytes.Equal(again, data) {
			rep("marshal/not-repeatable/"+label, fmt.Sprintf("second marshal of the same value: err=%v %s vs %s", err, clip(string(again)), clip(string(data))))
		}
		outputs = append(outputs, data)
		if sampleText == "" {
			sampleText = string(data)
		}
		g, err := parseGeneric(data)
		if err != nil {
			rep("shape/not-json/"+label, fmt.Sprintf("output is not JSON: %v: %s", err, clip(string(data))))
			return
		}
		for _, se := range shape(g, label) {
			key := "shape/" + se.Clause
			if se.Clause == "element-type" && c.hasTopBounds() {
				key = "roundtrip/osm-top-level-bounds"
			}
			rep(key, se.What+" in "+clip(string(data)))
		}
		// the decoder may keep references into its input (nocopyRawMessage)
		if want := wantTypes(in); want != nil {
			if got := typeHistogram(g); !reflect.DeepEqual(got, want) {
				rep("shape/element-type-wrong", fmt.Sprintf("elements by type: got %v want %v in %s", got, want, clip(string(data))))
			}
		}
		poison(rn.cfg, len(data))
		if err := guardedUnmarshal(rn.cfg, append([]byte(nil), data...), out); err != nil {
			key := "roundtrip/unmarshal-error/" + label
			if c.hasTopBounds() && strings.Contains(err.Error(), "could not find type") {
				key = "roundtrip/osm-top-level-bounds"
			}
			rep(key, fmt.Sprintf("the library cannot decode its own output: %v: %s", err, clip(string(data))))
			return
		}
		for _, m := range diffValues(root, in, out, false) {
			rep(mismatchKey("roundtrip", m), fmt.Sprintf("%s: %s; output %s", m.Path, m.What, clip(string(data))))
		}
	}

	// independently written text → value
	decode := func(label, text string, want interface{}, out interface{}, root string, boundsFree bool) {
		if sampleText == "" {
			sampleText = text
		}
		if _, err := parseGeneric([]byte(text)); err != nil {
			kit.Fatalf("C05 document writer produced invalid JSON (%v): %s", err, text)
		}
		poison(rn.cfg, len(text))
		if err := guardedUnmarshal(rn.cfg, []byte(text), out); err != nil {
			rep("decode/unmarshal-error/"+label, fmt.Sprintf("valid osmjson rejected: %v: %s", err, clip(text)))
			return
		}
		for _, m := range diffValues(root, want, out, boundsFree) {
			rep(mismatchKey("decode", m), fmt.Sprintf("%s: %s; document %s", m.Path, m.What, clip(text)))
		}
	}

	switch c.Family {
	case "value/element":
		e := c.Elems[0]
		v, _ := build(e, true)
		roundTrip("element-"+kindName[e.Kind], v, newOf(e.Kind), kindTitle[e.Kind], shapeElem)
		roundTrip("osm", buildOSM(c.Top, c.Elems, true), &osm.OSM{}, "OSM", shapeDoc)
	case "value/top":
		roundTrip("osm", buildOSM(c.Top, c.Elems, true), &osm.OSM{}, "OSM", shapeDoc)
	case "value/change":
		roundTrip("change", buildChange(c.Top, c.Blocks, true), &osm.Change{}, "Change", shapeChange)
	case "doc/element":
		e := c.Elems[0]
		want, _ := build(e, false)
		decode("element-"+kindName[e.Kind], writeElem(e, false), want, newOf(e.Kind), kindTitle[e.Kind], false)
		decode("osm", writeDoc(c.Top, c.Elems), buildOSM(c.Top, c.Elems, false), &osm.OSM{}, "OSM", c.Top.Bounds)
	case "doc/top":
		decode("osm", writeDoc(c.Top, c.Elems), buildOSM(c.Top, c.Elems, false), &osm.OSM{}, "OSM", c.Top.Bounds)
	case "doc/change":
		decode("change", writeChangeDoc(c.Top, c.Blocks), buildChange(c.Top, c.Blocks, false), &osm.Change{}, "Change", true)
	default:
		kit.Fatalf("unknown family %q", c.Family)
	}

	// same output under every codec, up to JSON equivalence
	if len(outputs) > 0 {
		canon := make([][]byte, 0, len(outputs))
		for _, o := range outputs {
			if cb, err := canonical(o); err == nil {
				canon = append(canon, cb)
			}
		}
		h := hashBytes(canon...)
		if rn.first {
			sl.hash = h
		} else if rn.cfg.Exact && h != sl.hash && len(canon) == len(outputs) {
			rep("codec/output-differs/"+c.Family, fmt.Sprintf("output under codec %s is not JSON-equivalent to the standard library output: %s", rn.cfg.Name, clip(string(outputs[len(outputs)-1]))))
		}
	}
	if rn.first {
		sl.keys = raised
	}
	// one sample per family: the first case with a reasonably rich element
	if rn.first && c.nonTrivial() && (len(c.Elems) == 0 || c.Elems[0].optionalCount() > 3) {
		if _, dup := rn.perFam.LoadOrStore(c.Family, true); !dup {
			r.Sample(sampleDoc{Case: c, Codec: rn.cfg.Name, Text: clip(sampleText)})
		}
	}
}

// checkCodecPaths: with a fresh counting codec installed, one container with
// every kind is marshalled and decoded; every helper of the osm package that
// is routed through json.go must have consulted the installed codec.
func (rn *runner) checkCodecPaths() {
	c := codecPathsCase()
	rn.r.Case(c.fingerprint(rn.cfg.Name), true)
	cc := &countingCodec{}
	osm.CustomJSONMarshaler, osm.CustomJSONUnmarshaler = cc, cc
	defer rn.cfg.Install()
	in := buildOSM(c.Top, c.Elems, true)
	data, err := rn.cfg.Marshal(in)
	if err != nil {
		rn.r.Violation("codec/paths-marshal-error", err.Error(), c)
		return
	}
	var back osm.OSM
	if err := rn.cfg.Unmarshal(data, &back); err != nil {
		rn.r.Violation("codec/paths-unmarshal-error", err.Error(), c)
		return
	}
	snap := cc.snapshot()
	for _, p := range requiredPaths {
		if snap[p] == 0 {
			rn.r.Violation("codec/not-consulted/"+p, fmt.Sprintf("installed codec was never called by %s while marshalling and decoding a container with all kinds (calls: %v)", p, snap), c)
		}
	}
	for _, k := range sortedKeys(snap) {
		if strings.Contains(k, "/other:") {
			rn.r.Note("custom codec saw an unclassified call: " + k)
		}
	}
}
