// C05 — OSM JSON output is osmjson-shaped and round-trips up to tag order,
// for the standard library codec and for a user-installed codec.
//
// Bounded-exhaustive: an abstract model (model.go) of top-level fields and of
// the six element kinds is enumerated completely (cases.go). Each abstract
// case yields, independently of the code under test, an osm value and an
// osmjson text (write.go). Value direction: marshal → shape oracle (shape.go)
// → unmarshal → compare with the input (equal.go). Document direction:
// unmarshal the independently written text → compare with the expected value.
//
// Boundary audit: the value tables of model.go carry the boundary classes of
// every dimension into the product families; the edge families of cases.go
// (value/edge, doc/edge, doc/zero, value/top-edge, doc/top-edge) guarantee that
// every field meets every table value, and add boundary lists, present-but-zero
// and null forms; checkCase adds call sequences (output retained while another
// value is marshalled, input buffer overwritten and another document decoded
// before the comparison, the same document decoded twice); codec.go adds the
// one-sided codec configurations.
package main

import (
	"fmt"
	"hash/fnv"
	"os"
	"reflect"
	"strconv"
	"strings"
	"sync"
	"sync/atomic"

	"github.com/paulmach/osm"

	"verif/kit"
)

// slot: what the first (standard library) configuration leaves behind for a
// case, so that later configurations can be compared with it.
type slot struct {
	hash uint64   // canonical hash of the marshal output(s)
	keys []string // violation keys raised under the standard codec
}

type runner struct {
	r       *kit.Run
	cfg     codecCfg
	first   bool // cfg is the reference configuration
	perFam  sync.Map
	skipped int64
}

// sampleDoc is what goes into the evidence samples.
type sampleDoc struct {
	Case  Case
	Codec string
	Text  string
}

func main() {
	kit.Main("C05", "exploration", func(r *kit.Run) {
		r.Rule("families value/element, value/top, value/change, doc/element, doc/top, doc/change are complete products of small alphabets " +
			"(per kind: every subset of optional fields × visible × tags 0/1/3(/empty) × way nodes / members / discussion / comments variants; " +
			"documents additionally × key order × unknown keys; top level: version absent/number/string × generator/copyright/attribution/license subsets × bounds × unknown keys × position of elements × layout × 10 element lists: no elements key, empty, one rich element per kind, an interleaved mix of all kinds, three bare nodes), " +
			"each evaluated under every codec configuration; a case is non-trivial when at least one optional field is present; distinct = distinct (case, codec). " +
			"Values come from tables that contain the boundary classes (model.go: strings incl. empty / blank / NUL / literal look-alikes / 70 chars, floats incl. 0, +-90, +-180, 7/8/17 decimals, exponent forms, 1e21, MaxFloat64, 5e-324, " +
			"times incl. 1970, the zero time written out, year 9999 with nanoseconds, after 2262, before 1970, odd zones, numbers 0/1/-1/127/128/2^31-1/2^31/2^32/2^53+1/2^63-1, ids 0/-1/2^31/2^40-1/2^40/2^44/+-2^63); " +
			"edge families (value/edge, doc/edge: everything present / nothing present / each optional field alone × every table position × every id, boundary and large tag, way-node and member lists, 6 KB strings; " +
			"doc/zero: every optional-field subset with the absent scalars written as zero values; value/top-edge, doc/top-edge: boundary top-level strings and bounds, version as integer / two-decimal number / empty string, absent keys written as \"\" or null, a 132-element list, a history list with repeated ids). " +
			"Sequences: marshal twice, marshal something else before the output is used, scribble over the input buffer and (every third case) decode another document before the result is compared, decode after a rejected document (every third), " +
			"decode the same document twice (small doc families); one-sided codec configurations (only a marshaler / only an unmarshaler installed) on value/top and doc/zero")
		r.Assume("encoding/json is trusted as the generic parser of the shape oracle and as the backend of the delegating custom codec")
		r.Assume("reference values and document texts are written by hand side by side in props/c05/model.go; documents are produced by text templates, never by json.Marshal of osm types")
		r.Assume("domain: unique tag keys, valid UTF-8, finite floats, years 1..9999; documents use exactly the key names of Overpass / the struct tags; unknown keys differ from modelled keys also when case is ignored")
		r.Assume("not judged because the property text does not decide them: decoding into a value that already holds data, duplicate keys in one object, key names in another letter case, element types the library does not model (Overpass count/area), " +
			"a number version that is not the shortest decimal form of its value (1.0, 6e-1), null for element fields other than note dates, ids written as strings or floats, lone surrogate escapes")

		if strconv.IntSize != 64 {
			kit.Fatalf("C05 value tables hold 64-bit values for int fields; this platform has %d-bit ints", strconv.IntSize)
		}
		// the one-sided configurations (only a marshaler, only an unmarshaler installed) run on the
		// small families only (cases.go smallFamily)
		cfgs := []codecCfg{stdCodec(), customCodec(), oneSidedCodec(true), oneSidedCodec(false)}
		if !r.Quick() || r.ReplayPath != "" {
			for _, f := range extraCodecs {
				cfgs = append(cfgs, f())
			}
		}
		names := []string{}
		for _, c := range cfgs {
			names = append(names, c.Name)
		}
		r.Set("codec_configurations", names)
		if !r.Quick() && len(extraCodecs) == 0 {
			why := os.Getenv("C05_JSONITER_SKIPPED")
			if why == "" {
				why = "not linked into this binary; props/c05/run.sh adds it when the module resolves offline"
			}
			r.Note("optional json-iterator configuration skipped: " + why)
		}
		defer stdCodec().Install()

		if r.ReplayPath != "" {
			var c Case
			r.LoadReplay(&c)
			slots := make([]slot, 1)
			for i, cfg := range cfgs {
				cfg.Install()
				rn := &runner{r: r, cfg: cfg, first: i == 0}
				if c.Family == "codec/paths" {
					if cfg.Counting != nil {
						rn.checkCodecPaths()
					}
					continue
				}
				// the follow-up decode depends on the case number: every residue, so that a replay sees
				// what the enumeration saw
				for seq := 0; seq < 3*nKinds; seq++ {
					rn.checkCase(c, &slots[0], seq)
				}
			}
			return
		}

		fams := families(r.Quick())
		total := 0
		famCounts := map[string]int{}
		for _, f := range fams {
			total += f.n
			famCounts[f.name] = f.n
		}
		r.Set("cases_per_family", famCounts)
		r.Set("cases_per_configuration", total)
		slots := make([]slot, total)

		for ci, cfg := range cfgs {
			cfg.Install()
			rn := &runner{r: r, cfg: cfg, first: ci == 0}
			if ci == 0 {
				// the smallest members of the space first and one after the other,
				// so that the replay stored for a key is its minimal reproducer
				for i, c := range minimalProbes() {
					rn.checkCase(c, &slot{}, i)
				}
			}
			if cfg.Counting != nil {
				rn.checkCodecPaths()
			}
			off := 0
			for _, f := range fams {
				f, base := f, off
				if cfg.Reduced && !smallFamily(f.name) {
					off += f.n
					continue
				}
				r.Par(f.n, func(i int) {
					if r.TimeUp() {
						atomic.AddInt64(&rn.skipped, 1)
						return
					}
					rn.checkCase(f.at(i), &slots[base+i], i)
				})
				off += f.n
			}
			if rn.skipped > 0 {
				r.Capped(fmt.Sprintf("time cap: %d cases skipped under codec %s", rn.skipped, cfg.Name))
			}
			if cfg.Counting != nil {
				snap := cfg.Counting.snapshot()
				if cfg.Name != "custom" {
					r.Set("custom_codec_calls_per_helper/"+cfg.Name, snap)
					continue
				}
				r.Set("custom_codec_calls_per_helper", snap)
				if snap["unmarshal/Tags.UnmarshalJSON"] == 0 {
					r.Note("Tags.UnmarshalJSON (tag.go) calls encoding/json directly and never consults osm.CustomJSONUnmarshaler; results are the same, so this is reported and not judged")
				}
			}
		}
		stdCodec().Install()
	})
}

// report raises a violation. Keys raised only under a non-reference codec get
// the codec name in front: that is a different defect (codec dependence).
func (rn *runner) report(c Case, sl *slot, raised *[]string, key, what string) {
	for _, k := range *raised {
		if k == key {
			return
		}
	}
	*raised = append(*raised, key)
	full := key
	if !rn.first {
		seen := false
		for _, k := range sl.keys {
			if k == key {
				seen = true
			}
		}
		if !seen {
			full = "codec-" + rn.cfg.Name + "/" + key
		}
	}
	rn.r.Violation(full, fmt.Sprintf("[codec %s, family %s] %s", rn.cfg.Name, c.Family, what), c)
}

func clip(s string) string {
	if len(s) > 600 {
		return s[:600] + "…"
	}
	return s
}

// mismatchKey maps a comparison mismatch to a violation key.
func mismatchKey(clause string, m mismatch) string {
	if strings.HasSuffix(m.Path, "Version") && m.What == `want "" got "<nil>"` {
		return "absent-top-level/version"
	}
	return clause + "/" + m.Path
}

func hashBytes(parts ...[]byte) uint64 {
	h := fnv.New64a()
	for _, p := range parts {
		h.Write(p)
		h.Write([]byte{0})
	}
	return h.Sum64()
}

// guardedMarshal / guardedUnmarshal turn a panic of the code under test into
// an error, so that it is reported as a violation with a replay file.
func guardedMarshal(cfg codecCfg, v interface{}) (data []byte, err error) {
	defer func() {
		if p := recover(); p != nil {
			err = fmt.Errorf("panic: %v", p)
		}
	}()
	return cfg.Marshal(v)
}

// poisons are documents the decoder has to reject (or may accept: their outcome
// is not judged). Every third decode of a case is preceded by one of them in
// the same goroutine: what a failed decode leaves behind (scratch buffers,
// pooled maps, package-level state) must not leak into the next, valid, decode.
var poisons = []struct {
	text string
	into func() interface{}
}{
	{`{"version":0.6,"elements":[{"type":"node","id":1,"tags":{"ele":412,"name":"Old Mill","tourism":"viewpoint"}}]}`, func() interface{} { return &osm.OSM{} }},
	{`{"type":"node","id":1,"lat":1,"lon":2,"tags":{"zz-left-behind":"x","n":5}}`, func() interface{} { return &osm.Node{} }},
	{`{"elements":[{"type":"way","id":1,"nodes":[7,8,"x"],"tags":{"w":"1"}}]}`, func() interface{} { return &osm.OSM{} }},
	{`{"elements":[{"type":"relation","id":1,"members":[{"type":"node","ref":5,"role":"a"},{"type":"node","ref":"r","role":1}]}]}`, func() interface{} { return &osm.OSM{} }},
	{`{"elements":[{"type":"node","id":1,"lat":"north","user":"u","uid":3}]}`, func() interface{} { return &osm.OSM{} }},
	{`{"version":"0.6","generator":"g","elements":[{"type":"node","id":1,"tags":{"a":"b"`, func() interface{} { return &osm.OSM{} }},
	{`{"type":"way","id":3,"nodes":[1,2],"tags":{"k":"v","bad":[1]}}`, func() interface{} { return &osm.Way{} }},
	{`{"type":"changeset","id":9,"tags":{"comment":"c","n":null,"m":1}}`, func() interface{} { return &osm.Changeset{} }},
}

func poison(cfg codecCfg, seed int) {
	if seed%3 != 0 {
		return
	}
	p := poisons[(seed/3)%len(poisons)]
	_ = guardedUnmarshal(cfg, []byte(p.text), p.into())
}

func guardedUnmarshal(cfg codecCfg, data []byte, v interface{}) (err error) {
	defer func() {
		if p := recover(); p != nil {
			err = fmt.Errorf("panic: %v", p)
		}
	}()
	return cfg.Unmarshal(data, v)
}

// wantTypes: how many elements of each type the output must carry (nil when
// the input is not a container or a single element).
func wantTypes(in interface{}) map[string]int {
	m := map[string]int{}
	put := func(k string, n int) {
		if n > 0 {
			m[k] = n
		}
	}
	switch x := in.(type) {
	case *osm.OSM:
		put("node", len(x.Nodes))
		put("way", len(x.Ways))
		put("relation", len(x.Relations))
		put("changeset", len(x.Changesets))
		put("note", len(x.Notes))
		put("user", len(x.Users))
	case *osm.Node:
		put("node", 1)
	case *osm.Way:
		put("way", 1)
	case *osm.Relation:
		put("relation", 1)
	case *osm.Changeset:
		put("changeset", 1)
	case *osm.Note:
		put("note", 1)
	case *osm.User:
		put("user", 1)
	default:
		return nil
	}
	return m
}

// typeHistogram counts the "type" strings of a document's elements, or of a
// single element object. Elements without a type are left to the shape oracle.
func typeHistogram(g interface{}) map[string]int {
	m := map[string]int{}
	top, _ := g.(map[string]interface{})
	els, isDoc := top["elements"].([]interface{})
	if !isDoc {
		els = []interface{}{g}
	}
	for _, e := range els {
		if eo, ok := e.(map[string]interface{}); ok {
			if t, ok := eo["type"].(string); ok && t != "" {
				m[t]++
			}
		}
	}
	return m
}

func newOf(kind int) interface{} {
	switch kind {
	case kNode:
		return &osm.Node{}
	case kWay:
		return &osm.Way{}
	case kRelation:
		return &osm.Relation{}
	case kChangeset:
		return &osm.Changeset{}
	case kNote:
		return &osm.Note{}
	}
	return &osm.User{}
}

// interferer is marshalled between the production of an output and its use: an output that was handed
// out must not change when the library marshals something else (shared or pooled output buffers).
var interferer = &osm.OSM{Version: "9.9", Generator: "interferer", Bounds: &osm.Bounds{MinLat: 9, MaxLat: 9, MinLon: 9, MaxLon: 9},
	Nodes:     osm.Nodes{{ID: 424242, Lat: 42.42, Lon: 24.24, User: "interferer", Tags: osm.Tags{{Key: "zz-interferer", Value: "left behind"}}}},
	Ways:      osm.Ways{{ID: 424243, Nodes: osm.WayNodes{{ID: 424244}, {ID: 424245}}, Tags: osm.Tags{{Key: "zz-interferer", Value: "w"}}}},
	Relations: osm.Relations{{ID: 424246, Members: osm.Members{{Type: osm.TypeNode, Ref: 424247, Role: "zz-interferer"}}}},
}

// followUps: one of them is decoded after the decode under test and before its result is compared: a
// result that was handed out must not change when the library decodes something else. They are small
// (one element each, the kind rotating with the case number) because this runs in every case.
var followUps = [nKinds]string{
	`{"version":"7.7","generator":"follow-up","copyright":"follow-up","bounds":{"minlat":7,"minlon":7,"maxlat":7,"maxlon":7},"elements":[{"type":"node","id":77,"lat":7.7,"lon":7.7,"user":"follow-up","uid":77,"version":77,"timestamp":"2007-07-07T07:07:07Z","tags":{"zz-follow-up":"left behind","name":"follow-up"}}]}`,
	`{"version":7.7,"attribution":"follow-up","license":"follow-up","elements":[{"type":"way","id":77,"user":"follow-up","nodes":[77,78,79,80,81,82,83,84,85],"tags":{"zz-follow-up":"w"}}]}`,
	`{"elements":[{"type":"relation","id":77,"members":[{"type":"way","ref":77,"role":"follow-up"},{"type":"node","ref":78,"role":"follow-up"},{"type":"node","ref":79,"role":"follow-up"},{"type":"node","ref":80,"role":"follow-up"}],"tags":{"zz-follow-up":"r"}}]}`,
	`{"elements":[{"type":"changeset","id":77,"user":"follow-up","tags":{"comment":"follow-up"},"discussion":{"comments":[{"user":"follow-up","text":"follow-up"}]}}]}`,
	`{"elements":[{"type":"note","id":77,"status":"open","date_created":"2007-07-07T07:07:07Z","comments":[{"action":"opened","text":"follow-up","date":"2007-07-07T07:07:07Z"}]}]}`,
	`{"elements":[{"type":"user","id":77,"name":"follow-up","description":"follow-up","languages":["fo","ll","ow"]}]}`,
}

// afterDecode: the caller may do what it likes with its input buffer once Unmarshal has returned
// (encoding/json: an Unmarshaler must copy what it wants to keep), and the library may be used again.
func afterDecode(cfg codecCfg, buf []byte, seq int) {
	for i := range buf {
		buf[i] = '#'
	}
	// every third case, like the poison documents (offset by one, so that both also occur alone)
	if seq%3 == 1 {
		_ = guardedUnmarshal(cfg, []byte(followUps[seq/3%nKinds]), &osm.OSM{})
	}
}

// decodeTwice: families in which every document is decoded a second time into a second fresh value
// (the same call twice; the first result is retained meanwhile).
func decodeTwice(family string) bool {
	switch family {
	case "doc/change", "doc/edge", "doc/zero", "doc/top-edge":
		return true
	}
	return false
}

func (rn *runner) checkCase(c Case, sl *slot, seq int) {
	r := rn.r
	r.Case(c.fingerprint(rn.cfg.Name), c.nonTrivial())
	var raised []string
	rep := func(key, what string) { rn.report(c, sl, &raised, key, what) }
	var outputs [][]byte
	sampleText := ""

	// marshalled value → shape → back
	roundTrip := func(label string, in interface{}, out interface{}, root string, shape func(v interface{}, where string) []shapeErr) {
		before := kit.DeepCopy(in)
		data, err := guardedMarshal(rn.cfg, in)
		if err != nil {
			rep("roundtrip/marshal-error/"+label, fmt.Sprintf("marshal failed: %v", err))
			return
		}
		// the call itself: input untouched, and the same text when asked again
		if !reflect.DeepEqual(before, in) {
			rep("marshal/input-modified/"+label, "the value differs from the deep copy made before marshalling; output "+clip(string(data)))
		}
		keep := string(data)
		// the same value handed over by value (json.Marshal(*o), a struct field, a map
		// value): encoding/json then only finds value-receiver marshalers
		if rv := reflect.ValueOf(in); rv.Kind() == reflect.Ptr && !rv.IsNil() {
			if byVal, err := guardedMarshal(rn.cfg, rv.Elem().Interface()); err != nil || string(byVal) != keep {
				rep("marshal/by-value-differs/"+label, fmt.Sprintf("marshalling the value instead of the pointer: err=%v %s vs %s", err, clip(string(byVal)), clip(keep)))
			}
		}
		if again, err := guardedMarshal(rn.cfg, in); err != nil || string(again) != keep {
			rep("marshal/not-repeatable/"+label, fmt.Sprintf("second marshal of the same value: err=%v %s vs %s", err, clip(string(again)), clip(keep)))
		}
		// the output that was handed out stays what it was while something else is marshalled
		_, _ = guardedMarshal(rn.cfg, interferer)
		if string(data) != keep {
			rep("marshal/output-overwritten/"+label, fmt.Sprintf("the bytes returned by Marshal changed while another value was marshalled: %s, was %s", clip(string(data)), clip(keep)))
			data = []byte(keep)
		}
		outputs = append(outputs, data)
		if sampleText == "" {
			sampleText = string(data)
		}
		g, err := parseGeneric(data)
		if err != nil {
			rep("shape/not-json/"+label, fmt.Sprintf("output is not JSON: %v: %s", err, clip(string(data))))
			return
		}
		for _, se := range shape(g, label) {
			key := "shape/" + se.Clause
			if se.Clause == "element-type" && c.hasTopBounds() {
				key = "roundtrip/osm-top-level-bounds"
			}
			rep(key, se.What+" in "+clip(string(data)))
		}
		// the decoder may keep references into its input (nocopyRawMessage)
		if want := wantTypes(in); want != nil {
			if got := typeHistogram(g); !reflect.DeepEqual(got, want) {
				rep("shape/element-type-wrong", fmt.Sprintf("elements by type: got %v want %v in %s", got, want, clip(string(data))))
			}
		}
		poison(rn.cfg, len(data))
		buf := append([]byte(nil), data...)
		err = guardedUnmarshal(rn.cfg, buf, out)
		afterDecode(rn.cfg, buf, seq)
		if err != nil {
			key := "roundtrip/unmarshal-error/" + label
			if c.hasTopBounds() && strings.Contains(err.Error(), "could not find type") {
				key = "roundtrip/osm-top-level-bounds"
			}
			rep(key, fmt.Sprintf("the library cannot decode its own output: %v: %s", err, clip(string(data))))
			return
		}
		for _, m := range diffValues(root, in, out, false) {
			rep(mismatchKey("roundtrip", m), fmt.Sprintf("%s: %s; output %s", m.Path, m.What, clip(string(data))))
		}
	}

	// independently written text → value
	decode := func(label, text string, want interface{}, out interface{}, root string, boundsFree bool) {
		if sampleText == "" {
			sampleText = text
		}
		if _, err := parseGeneric([]byte(text)); err != nil {
			kit.Fatalf("C05 document writer produced invalid JSON (%v): %s", err, text)
		}
		poison(rn.cfg, len(text))
		buf := []byte(text)
		err := guardedUnmarshal(rn.cfg, buf, out)
		afterDecode(rn.cfg, buf, seq)
		if err != nil {
			rep("decode/unmarshal-error/"+label, fmt.Sprintf("valid osmjson rejected: %v: %s", err, clip(text)))
			return
		}
		if decodeTwice(c.Family) {
			second := reflect.New(reflect.TypeOf(out).Elem()).Interface()
			if err := guardedUnmarshal(rn.cfg, []byte(text), second); err != nil {
				rep("decode/second-call/unmarshal-error/"+label, fmt.Sprintf("the same document decoded a second time is rejected: %v: %s", err, clip(text)))
			} else {
				for _, m := range diffValues(root, want, second, boundsFree) {
					rep("decode/second-call/"+m.Path, fmt.Sprintf("second decode of the same document: %s: %s; document %s", m.Path, m.What, clip(text)))
				}
			}
		}
		for _, m := range diffValues(root, want, out, boundsFree) {
			rep(mismatchKey("decode", m), fmt.Sprintf("%s: %s; document %s", m.Path, m.What, clip(text)))
		}
	}

	switch c.Family {
	case "value/element", "value/edge":
		e := c.Elems[0]
		v, _ := build(e, true)
		roundTrip("element-"+kindName[e.Kind], v, newOf(e.Kind), kindTitle[e.Kind], shapeElem)
		roundTrip("osm", buildOSM(c.Top, c.Elems, true), &osm.OSM{}, "OSM", shapeDoc)
	case "value/top", "value/top-edge":
		roundTrip("osm", buildOSM(c.Top, c.Elems, true), &osm.OSM{}, "OSM", shapeDoc)
	case "value/change":
		roundTrip("change", buildChange(c.Top, c.Blocks, true), &osm.Change{}, "Change", shapeChange)
	case "doc/element", "doc/edge", "doc/zero":
		e := c.Elems[0]
		want, _ := build(e, false)
		decode("element-"+kindName[e.Kind], writeElem(e, false), want, newOf(e.Kind), kindTitle[e.Kind], false)
		decode("osm", writeDoc(c.Top, c.Elems), buildOSM(c.Top, c.Elems, false), &osm.OSM{}, "OSM", c.Top.Bounds)
	case "doc/top", "doc/top-edge":
		decode("osm", writeDoc(c.Top, c.Elems), buildOSM(c.Top, c.Elems, false), &osm.OSM{}, "OSM", c.Top.Bounds)
	case "doc/change":
		decode("change", writeChangeDoc(c.Top, c.Blocks), buildChange(c.Top, c.Blocks, false), &osm.Change{}, "Change", true)
	default:
		kit.Fatalf("unknown family %q", c.Family)
	}

	// same output under every codec, up to JSON equivalence
	if len(outputs) > 0 {
		canon := make([][]byte, 0, len(outputs))
		for _, o := range outputs {
			if cb, err := canonical(o); err == nil {
				canon = append(canon, cb)
			}
		}
		h := hashBytes(canon...)
		if rn.first {
			sl.hash = h
		} else if rn.cfg.Exact && h != sl.hash && len(canon) == len(outputs) {
			rep("codec/output-differs/"+c.Family, fmt.Sprintf("output under codec %s is not JSON-equivalent to the standard library output: %s", rn.cfg.Name, clip(string(outputs[len(outputs)-1]))))
		}
	}
	if rn.first {
		sl.keys = raised
	}
	// one sample per family: the first case with a reasonably rich element
	if rn.first && c.nonTrivial() && (len(c.Elems) == 0 || c.Elems[0].optionalCount() > 3) {
		if _, dup := rn.perFam.LoadOrStore(c.Family, true); !dup {
			r.Sample(sampleDoc{Case: c, Codec: rn.cfg.Name, Text: clip(sampleText)})
		}
	}
}

// checkCodecPaths: with a fresh counting codec installed, one container with
// every kind is marshalled and decoded; every helper of the osm package that
// is routed through json.go must have consulted the installed codec.
func (rn *runner) checkCodecPaths() {
	c := codecPathsCase()
	rn.r.Case(c.fingerprint(rn.cfg.Name), true)
	cc := &countingCodec{}
	osm.CustomJSONMarshaler, osm.CustomJSONUnmarshaler = nil, nil
	if rn.cfg.Sides&1 != 0 {
		osm.CustomJSONMarshaler = cc
	}
	if rn.cfg.Sides&2 != 0 {
		osm.CustomJSONUnmarshaler = cc
	}
	defer rn.cfg.Install()
	in := buildOSM(c.Top, c.Elems, true)
	data, err := guardedMarshal(rn.cfg, in)
	if err != nil {
		rn.r.Violation("codec/paths-marshal-error", err.Error(), c)
		return
	}
	var back osm.OSM
	if err := guardedUnmarshal(rn.cfg, data, &back); err != nil {
		rn.r.Violation("codec/paths-unmarshal-error", err.Error(), c)
		return
	}
	snap := cc.snapshot()
	for _, p := range requiredPaths {
		if strings.HasPrefix(p, "marshal/") && rn.cfg.Sides&1 == 0 || strings.HasPrefix(p, "unmarshal/") && rn.cfg.Sides&2 == 0 {
			continue
		}
		if snap[p] == 0 {
			rn.r.Violation("codec/not-consulted/"+p, fmt.Sprintf("installed codec was never called by %s while marshalling and decoding a container with all kinds (calls: %v)", p, snap), c)
		}
	}
	for _, k := range sortedKeys(snap) {
		if strings.Contains(k, "/other:") {
			rn.r.Note("custom codec saw an unclassified call: " + k)
		}
	}
}
