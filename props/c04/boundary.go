// Boundary value classes of C04 (audit after round 7).
//
// The lattice families of main.go decide WHICH fields are present; the values
// in them come from xmlgen (ids base+seed, versions 2.., years 2009-2015,
// seven text classes in one position at a time, lists of at most 3). The
// families here put boundary VALUES and SHAPES into values built by the same
// generator, by reflection over the Go value (C04 only needs the value, the
// expected result of the round trip is the value itself):
//
//	poke-<class>-<kind>  every numeric / time / string leaf of the complete
//	                     object of the kind x every value of the class
//	                     alphabet, standalone and between two neighbours in
//	                     an <osm> container (round trip + names + scan)
//	text-all             every string of an object carries the class at once
//	textx-root           the further text classes in the root attributes
//	shape                every list reversed / every list doubled (repeated,
//	                     aliased elements, duplicate tag keys), objects and
//	                     containers
//	alias                one pointer used in several places of a container
//	zero-ptr             optional pointers that point at a zero value
//	zero-in-container    zero-valued objects (id 0, nothing set) in every
//	                     container position
//	large                lists far beyond the 0..3 of the lattices
//	empty-diff           a Diff without actions
//	*-indent             xml.MarshalIndent for objects, Change and Diff
//
// Not judged (the property text does not decide them, see the audit report):
// times outside UTC, sub-second note dates (counted), years outside 0..9999,
// strings with characters XML cannot carry, nil elements inside lists, a
// Changeset.Change (tagged xml:"-"), member types / action types / member
// orientations outside their enumerations, several elements held directly by
// one diff action, non-element content held directly by a diff action.
package main

import (
	"fmt"
	"math"
	"reflect"
	"strings"
	"time"

	"github.com/paulmach/osm"

	"verif/gen/xmlgen"
	"verif/kit"
)

// ------------------------------------------------------------------ alphabets

// boundary ids: 0 (present but zero), +-1, width changes of varints and of
// text (127/128), int32 limits, 2^32, the 40 ref bits of packed ids (limit,
// one below, one above is in xmlgen.IDRange), 2^53+1 (not a float64), int64
// limits.
var idVals = []int64{0, 1, -1, 127, 128, math.MaxInt32, 1 << 31, 1 << 32, 1<<40 - 1, 1 << 40, -(1 << 40), 1<<53 + 1, math.MaxInt64, math.MinInt64}

// the ids added to the id-range family of main.go (appended to xmlgen.IDRange
// so that the indices of the existing cases stay what they were)
var idRangeExtra = []int64{0, 1, math.MaxInt32, 1 << 32, 1<<40 - 1, -(1 << 40), 1<<53 + 1, math.MaxInt64, math.MinInt64}

// versions, indices, counts, zoom (Go int): 0, +-1, 127/128, the 16 version
// bits of packed element ids, int32 and int64 limits.
var intVals = []int64{0, 1, -1, 127, 128, 65535, 65536, math.MaxInt32, 1 << 31, math.MaxInt64, math.MinInt64}

// finite float64 values: zero and negative zero, the limits of the coordinate
// ranges, the 1e-7 grid step, a value that needs 17 significant digits, the
// widths where the shortest text switches to exponent form (1e21, 1e-5), more
// digits than a float32 holds, an integer beyond 2^53, the largest and the
// smallest finite magnitudes.
var floatVals = []float64{0, math.Copysign(0, -1), 90, -90, 180, -180, 1e-7, -1e-7, 0.1 + 0.2, 1e21, 1e-5,
	123456789.12345678, 9007199254740993, math.MaxFloat64, -math.MaxFloat64, math.SmallestNonzeroFloat64, 89.99999999999999}

func utc(y int, mo time.Month, d, h, mi, s, ns int) time.Time {
	return time.Date(y, mo, d, h, mi, s, ns, time.UTC)
}

// UTC instants: the zero time (present but zero), its neighbours, the Unix
// epoch and the second before it, osm.CommitInfoStart (2012-09-12T09:30:03Z,
// written out here, not taken from the library) and its neighbours, 2^31
// seconds, the last instant an int64 of nanoseconds holds (2262-04-11) and
// times after it, year 9999, year 0, a leap day, fractions of 1, 3, 6 and 9
// digits.
var timeVals = []time.Time{
	{},
	utc(1, 1, 1, 0, 0, 0, 1),
	utc(1, 1, 1, 0, 0, 1, 0),
	utc(0, 1, 1, 0, 0, 0, 0),
	utc(1969, 12, 31, 23, 59, 59, 0),
	utc(1969, 12, 31, 23, 59, 59, 999999999),
	utc(1970, 1, 1, 0, 0, 0, 0),
	utc(1970, 1, 1, 0, 0, 0, 1),
	utc(2012, 9, 12, 9, 30, 2, 0),
	utc(2012, 9, 12, 9, 30, 3, 0),
	utc(2012, 9, 12, 9, 30, 3, 1),
	utc(2016, 2, 29, 12, 0, 0, 500000000),
	utc(2020, 6, 30, 23, 59, 59, 120000000),
	utc(2020, 6, 30, 23, 59, 59, 1000),
	utc(2038, 1, 19, 3, 14, 7, 0),
	utc(2038, 1, 19, 3, 14, 8, 0),
	utc(2262, 4, 11, 23, 47, 16, 854775807),
	utc(2262, 4, 12, 0, 0, 0, 0),
	utc(2500, 7, 1, 1, 2, 3, 0),
	utc(9999, 12, 31, 23, 59, 59, 0),
	utc(9999, 12, 31, 23, 59, 59, 999999999),
}

// further text classes (the seven of xmlgen.TextOf are enumerated by the
// text-* families of main.go): all of them are strings XML 1.0 can carry.
var textExtra = []struct {
	name string
	f    func(base string) string
}{
	{"long", func(base string) string {
		return base + strings.Repeat("0123456789abcdefghijklmnopqrstuvwxyzé<&", 1800)
	}}, // > 64 KiB
	{"one-space", func(string) string { return " " }},
	{"spaces-only", func(string) string { return "   " }},
	{"newline-only", func(string) string { return "\n" }},
	{"tab-first-newline-last", func(base string) string { return "\t" + base + "\n" }},
	{"crlf", func(base string) string { return base + "\r\n" + base }},
	{"nel-ls-bom", func(base string) string { return "\ufeff" + base + "\u0085\u2028" }},
	{"plane-limits", func(base string) string { return "\ud7ff\ue000" + base + "\ufffd\U00010000\U0010ffff" }},
	{"entity-text", func(base string) string { return "&#10;&lt;" + base + "&#x41;" }},
	{"number-like", func(string) string { return "0" }},
	{"quotes-only", func(string) string { return `"'` }},
}

// ------------------------------------------------------------------ leaves

type leafClass int

const (
	lcID leafClass = iota
	lcInt
	lcFloat
	lcTime
	lcDate // osm.Date: whole seconds only
	lcString
	numLeafClasses
)

var leafClassNames = []string{"id", "int", "float", "time", "date", "string"}

type leaf struct {
	path  string
	v     reflect.Value
	class leafClass
}

var (
	tTime       = reflect.TypeOf(time.Time{})
	tDate       = reflect.TypeOf(osm.Date{})
	tType       = reflect.TypeOf(osm.Type(""))
	tActionType = reflect.TypeOf(osm.ActionType(""))
	tAction     = reflect.TypeOf(osm.Action{})
)

// leavesOf lists the settable leaves below v (a non-nil pointer) in field
// order. XMLName fields, unexported fields, nil pointers, booleans (both
// values are in the lattices) and the enumerated string / int8 types are left
// out.
func leavesOf(v interface{}) []leaf {
	var out []leaf
	var walk func(path string, x reflect.Value)
	walk = func(path string, x reflect.Value) {
		t := x.Type()
		switch {
		case t == tTime:
			out = append(out, leaf{path, x, lcTime})
			return
		case t == tDate:
			out = append(out, leaf{path, x, lcDate})
			return
		case t == tType || t == tActionType:
			return
		}
		switch x.Kind() {
		case reflect.Ptr:
			if !x.IsNil() {
				walk(path, x.Elem())
			}
		case reflect.Struct:
			for i := 0; i < t.NumField(); i++ {
				f := t.Field(i)
				if f.Name == "XMLName" || f.PkgPath != "" {
					continue
				}
				p := f.Name
				if path != "" {
					p = path + "." + f.Name
				}
				walk(p, x.Field(i))
			}
		case reflect.Slice:
			for i := 0; i < x.Len(); i++ {
				walk(fmt.Sprintf("%s[%d]", path, i), x.Index(i))
			}
		case reflect.Int64:
			out = append(out, leaf{path, x, lcID}) // NodeID, WayID, RelationID, ChangesetID, UserID, NoteID, Member.Ref
		case reflect.Int:
			out = append(out, leaf{path, x, lcInt})
		case reflect.Float64:
			out = append(out, leaf{path, x, lcFloat})
		case reflect.String:
			out = append(out, leaf{path, x, lcString})
		}
	}
	walk("", reflect.ValueOf(v))
	return out
}

func leavesOfClass(v interface{}, cl leafClass) []leaf {
	var out []leaf
	for _, l := range leavesOf(v) {
		if l.class == cl {
			out = append(out, l)
		}
	}
	return out
}

// fullValue is the complete object of the kind (every optional part present,
// nanosecond times), rebuilt for every case.
func fullValue(kind int) interface{} { return newB(21, true).Full(kind).Val }

func zeroValue(kind int) interface{} {
	switch kind {
	case xmlgen.KindBounds:
		return &osm.Bounds{}
	case xmlgen.KindNode:
		return &osm.Node{}
	case xmlgen.KindWay:
		return &osm.Way{}
	case xmlgen.KindRelation:
		return &osm.Relation{}
	case xmlgen.KindChangeset:
		return &osm.Changeset{}
	case xmlgen.KindNote:
		return &osm.Note{}
	}
	return &osm.User{}
}

// put adds an object to an OSM the way the generator's appendTo does.
func put(o *osm.OSM, v interface{}) {
	switch x := v.(type) {
	case *osm.Bounds:
		o.Bounds = x
	case *osm.Node:
		o.Nodes = append(o.Nodes, x)
	case *osm.Way:
		o.Ways = append(o.Ways, x)
	case *osm.Relation:
		o.Relations = append(o.Relations, x)
	case *osm.Changeset:
		o.Changesets = append(o.Changesets, x)
	case *osm.Note:
		o.Notes = append(o.Notes, x)
	case *osm.User:
		o.Users = append(o.Users, x)
	default:
		panic(fmt.Sprintf("put %T", v))
	}
}

// between puts v between two small objects of its kind inside an <osm>.
func between(kind int, v interface{}) *osm.OSM {
	o := block(kind, v)
	o.Version, o.Generator = "0.6", "c04 boundary"
	return o
}

// block is between without root attributes: the content of a change block or
// of the old / new side of a diff action (<create>, <old>, ... carry no
// attributes in OSM XML; what happens to Version etc. of such an inner OSM is
// not judged).
func block(kind int, v interface{}) *osm.OSM {
	b := newB(61, false)
	o := &osm.OSM{}
	if kind == xmlgen.KindBounds {
		put(o, b.Small(xmlgen.KindNode).Val)
		put(o, v)
		return o
	}
	put(o, b.Small(kind).Val)
	put(o, v)
	put(o, b.Small(kind).Val)
	return o
}

// anyObject round-trips a standalone object of any kind.
func anyObject(r *kit.Run, c Case, v interface{}, indent bool) {
	switch x := v.(type) {
	case *osm.Bounds:
		objectOpt(r, c, "bounds", x, &osm.Bounds{}, indent)
	case *osm.Node:
		objectOpt(r, c, "node", x, &osm.Node{}, indent)
	case *osm.Way:
		objectOpt(r, c, "way", x, &osm.Way{}, indent)
	case *osm.Relation:
		objectOpt(r, c, "relation", x, &osm.Relation{}, indent)
	case *osm.Changeset:
		objectOpt(r, c, "changeset", x, &osm.Changeset{}, indent)
	case *osm.Note:
		objectOpt(r, c, "note", x, &osm.Note{}, indent)
	case *osm.User:
		objectOpt(r, c, "user", x, &osm.User{}, indent)
	case *osm.OSM:
		osmContainer(r, c, x, indent)
	case *osm.Change:
		changeContainer(r, c, x, indent)
	case *osm.Diff:
		diffContainer(r, c, x, indent)
	default:
		panic(fmt.Sprintf("anyObject %T", v))
	}
}

// ------------------------------------------------------------------ shape transforms

// reverseAll reverses every list below x, at every depth.
func reverseAll(x reflect.Value) {
	switch x.Kind() {
	case reflect.Ptr:
		if !x.IsNil() {
			reverseAll(x.Elem())
		}
	case reflect.Struct:
		if x.Type() == tTime || x.Type() == tDate {
			return
		}
		for i := 0; i < x.NumField(); i++ {
			f := x.Type().Field(i)
			if f.Name == "XMLName" || f.PkgPath != "" {
				continue
			}
			reverseAll(x.Field(i))
		}
	case reflect.Slice:
		n := x.Len()
		for i := 0; i < n; i++ {
			reverseAll(x.Index(i))
		}
		for i, j := 0, n-1; i < j; i, j = i+1, j-1 {
			a, b := x.Index(i).Interface(), x.Index(j).Interface()
			x.Index(i).Set(reflect.ValueOf(b))
			x.Index(j).Set(reflect.ValueOf(a))
		}
	}
}

// doubleAll replaces every list s below x by s followed by s again: repeated
// elements (pointer elements are the same pointer twice), duplicate tag keys,
// a way that visits every node twice. The element a diff action holds
// directly is left single (the type documents one element there).
func doubleAll(x reflect.Value) {
	switch x.Kind() {
	case reflect.Ptr:
		if !x.IsNil() {
			doubleAll(x.Elem())
		}
	case reflect.Struct:
		if x.Type() == tTime || x.Type() == tDate {
			return
		}
		for i := 0; i < x.NumField(); i++ {
			f := x.Type().Field(i)
			if f.Name == "XMLName" || f.PkgPath != "" {
				continue
			}
			if x.Type() == tAction && f.Name == "OSM" {
				continue
			}
			doubleAll(x.Field(i))
		}
	case reflect.Slice:
		n := x.Len()
		if n == 0 {
			return
		}
		for i := 0; i < n; i++ {
			doubleAll(x.Index(i))
		}
		x.Set(reflect.AppendSlice(x.Slice(0, n), x.Slice(0, n)))
	}
}

// shapeSubject builds subject i: the complete object of each kind, then an
// OSM, a Change and a Diff with three objects per list.
func shapeSubject(i int) interface{} {
	if i < xmlgen.NumKinds {
		return fullValue(i)
	}
	b := newB(33, true)
	three := func(full bool) []xmlgen.Obj {
		var objs []xmlgen.Obj
		for k := xmlgen.KindNode; k < xmlgen.NumKinds; k++ {
			for n := 0; n < 3; n++ {
				if full && n == 1 {
					objs = append(objs, b.Full(k))
				} else {
					objs = append(objs, b.Small(k))
				}
			}
		}
		return objs
	}
	elems := func() []xmlgen.Obj {
		var objs []xmlgen.Obj
		for n := 0; n < 2; n++ {
			for k := xmlgen.KindNode; k <= xmlgen.KindRelation; k++ {
				objs = append(objs, b.Small(k))
			}
		}
		return objs
	}
	switch i - xmlgen.NumKinds {
	case 0:
		return b.OSMDocOf(31, append([]xmlgen.Obj{b.Small(xmlgen.KindBounds)}, three(true)...)).Want
	case 1:
		return b.ChangeDocOf(31, []xmlgen.Block{{Action: "create", Objs: elems()}, {Action: "modify", Objs: elems()}, {Action: "delete", Objs: elems()}}).Want
	}
	n := b.Small(xmlgen.KindNode)
	return b.DiffDocOf([]xmlgen.ActionCfg{
		{Type: "create", Direct: &n},
		{Type: "modify", HasOld: true, Old: elems(), HasNew: true, New: elems()},
		{Type: "delete", HasOld: true, Old: elems(), HasNew: true, New: elems()},
	}, []xmlgen.Obj{b.Small(xmlgen.KindChangeset), b.Full(xmlgen.KindChangeset), b.Small(xmlgen.KindChangeset)}).Want
}

const numShapeSubjects = xmlgen.NumKinds + 3

// ------------------------------------------------------------------ large lists

func cyc(n int, masks ...uint) []uint {
	out := make([]uint, n)
	for i := range out {
		out[i] = masks[i%len(masks)]
	}
	return out
}

// largeValue builds case i with lists of about n entries.
func largeValue(i, n int) interface{} {
	b := newB(71, i%2 == 1)
	switch i {
	case 0: // a way at and beyond the API's limit of 2000 nodes, plain and annotated nds
		_, v := b.Way(xmlgen.WayCfg{Attrs: xmlgen.All(xmlgen.NumWayAttrs), Nds: cyc(n, 1, 31, 0b01101), Tags: 2})
		return v
	case 1:
		_, v := b.Way(xmlgen.WayCfg{Attrs: 1, Nds: cyc(3, 1), Tags: n / 4, Updates: cyc(n, 127, 0b0000111, 0b1011011)})
		return v
	case 2:
		ms := make([]xmlgen.MemberCfg, n/2)
		for k := range ms {
			ms[k] = xmlgen.MemberCfg{Attrs: []uint{7, 255, 0b10000111}[k%3], Type: k % 3, Orient: k % 2}
			if k%5 == 1 {
				ms[k].Nds = cyc(4, 0b11001)
			}
		}
		_, v := b.Relation(xmlgen.RelationCfg{Attrs: xmlgen.All(xmlgen.NumWayAttrs), Members: ms, Tags: 3, Updates: cyc(n/4, 127)})
		return v
	case 3:
		_, v := b.Node(xmlgen.NodeCfg{Attrs: xmlgen.All(xmlgen.NumNodeAttrs), Tags: n / 2})
		return v
	case 4:
		_, v := b.Changeset(xmlgen.ChangesetCfg{Attrs: xmlgen.All(xmlgen.NumChangesetAttrs), Tags: n / 8, Discussion: 1, Comments: cyc(n/4, 15, 8, 7)})
		return v
	case 5:
		_, v := b.Note(xmlgen.NoteCfg{Parts: xmlgen.All(xmlgen.NumNoteParts), HasComments: true, Comments: cyc(n/4, 127, 0b0100101)})
		return v
	case 6:
		cfg := xmlgen.FullUser()
		cfg.Langs = n / 4
		_, v := b.User(cfg)
		return v
	case 7:
		var objs []xmlgen.Obj
		for k := 0; k < n/8; k++ {
			for kind := xmlgen.KindNode; kind < xmlgen.NumKinds; kind++ {
				objs = append(objs, b.Small(kind))
			}
		}
		return b.OSMDocOf(31, append([]xmlgen.Obj{b.Small(xmlgen.KindBounds)}, objs...)).Want
	case 8:
		var blocks []xmlgen.Block
		for _, act := range []string{"create", "modify", "delete"} {
			var objs []xmlgen.Obj
			for k := 0; k < n/8; k++ {
				objs = append(objs, b.Small(xmlgen.KindNode+k%3))
			}
			blocks = append(blocks, xmlgen.Block{Action: act, Objs: objs})
		}
		return b.ChangeDocOf(31, blocks).Want
	}
	var acts []xmlgen.ActionCfg
	for k := 0; k < n/8; k++ {
		o, nw := b.Small(xmlgen.KindNode+k%3), b.Small(xmlgen.KindNode+k%3)
		switch k % 3 {
		case 0:
			acts = append(acts, xmlgen.ActionCfg{Type: "create", Direct: &o})
		case 1:
			acts = append(acts, xmlgen.ActionCfg{Type: "modify", HasOld: true, Old: []xmlgen.Obj{o}, HasNew: true, New: []xmlgen.Obj{nw}})
		default:
			acts = append(acts, xmlgen.ActionCfg{Type: "delete", HasOld: true, Old: []xmlgen.Obj{o}, HasNew: true, New: []xmlgen.Obj{nw}})
		}
	}
	var cs []xmlgen.Obj
	for k := 0; k < n/16; k++ {
		cs = append(cs, b.Small(xmlgen.KindChangeset))
	}
	return b.DiffDocOf(acts, cs).Want
}

const numLargeCases = 10

// ------------------------------------------------------------------ families

type addFn func(name string, dims []int, run func(r *kit.Run, c Case, d []int))

func boundaryFamilies(quick bool, add addFn) {
	// every leaf of a class x every value of the class alphabet x placement
	alphaLen := map[leafClass]int{lcID: len(idVals), lcInt: len(intVals), lcFloat: len(floatVals), lcTime: len(timeVals), lcDate: len(timeVals), lcString: len(textExtra)}
	for kind := 0; kind < xmlgen.NumKinds; kind++ {
		kind := kind
		probe := fullValue(kind)
		for cl := leafClass(0); cl < numLeafClasses; cl++ {
			cl := cl
			n := len(leavesOfClass(probe, cl))
			if n == 0 {
				continue
			}
			add("poke-"+leafClassNames[cl]+"-"+xmlgen.KindNames[kind], []int{n, alphaLen[cl], 2}, func(r *kit.Run, c Case, d []int) {
				v := fullValue(kind)
				l := leavesOfClass(v, cl)[d[0]]
				var shown string
				switch cl {
				case lcID:
					l.v.SetInt(idVals[d[1]])
					shown = fmt.Sprint(idVals[d[1]])
				case lcInt:
					l.v.SetInt(intVals[d[1]])
					shown = fmt.Sprint(intVals[d[1]])
				case lcFloat:
					l.v.SetFloat(floatVals[d[1]])
					shown = fmt.Sprint(floatVals[d[1]])
				case lcTime:
					l.v.Set(reflect.ValueOf(timeVals[d[1]]))
					shown = timeVals[d[1]].Format(time.RFC3339Nano)
				case lcDate:
					t := timeVals[d[1]]
					if t.Nanosecond() != 0 {
						// the note date format has no fraction: not judged
						r.Add("skipped_note_date_subsecond", 1)
						return
					}
					l.v.Set(reflect.ValueOf(osm.Date{Time: t}))
					shown = t.Format(time.RFC3339Nano)
				case lcString:
					l.v.SetString(textExtra[d[1]].f(l.v.String()))
					shown = textExtra[d[1]].name
				}
				c.Desc = fmt.Sprintf("%s.%s = %s, placement %d", xmlgen.KindNames[kind], l.path, shown, d[2])
				if d[2] == 0 {
					anyObject(r, c, v, false)
				} else {
					osmContainer(r, c, between(kind, v), false)
				}
			})
		}
	}

	// two leaves of one class carry the same value: an encoder that leaves a
	// field out because it equals another field (committed == timestamp, a
	// member ref equal to the id, uid equal to the changeset, ...) loses it.
	for kind := 0; kind < xmlgen.NumKinds; kind++ {
		kind := kind
		probe := leavesOf(fullValue(kind))
		var pairs [][2]int
		for i := range probe {
			for j := i + 1; j < len(probe); j++ {
				if probe[i].class == probe[j].class && probe[i].v.Type() == probe[j].v.Type() {
					pairs = append(pairs, [2]int{i, j})
				}
			}
		}
		if len(pairs) == 0 {
			continue
		}
		add("equal-leaves-"+xmlgen.KindNames[kind], []int{len(pairs), 2, 2}, func(r *kit.Run, c Case, d []int) {
			v := fullValue(kind)
			ls := leavesOf(v)
			a, b := ls[pairs[d[0]][0]], ls[pairs[d[0]][1]]
			if d[1] == 0 {
				b.v.Set(a.v)
			} else {
				a.v.Set(b.v)
			}
			c.Desc = fmt.Sprintf("%s: %s and %s hold one value (the %s one), placement %d", xmlgen.KindNames[kind], a.path, b.path, []string{"first", "second"}[d[1]], d[2])
			if d[2] == 0 {
				anyObject(r, c, v, false)
			} else {
				osmContainer(r, c, between(kind, v), false)
			}
		})
	}

	// every leaf of one class zero at once (an encoder that leaves out a sub-object because
	// "its" fields are zero forgets the fields of the other classes: a home location with a
	// zoom only, a member with a role only, ...)
	add("zero-class", []int{xmlgen.NumKinds, int(numLeafClasses), 2}, func(r *kit.Run, c Case, d []int) {
		kind := d[0]
		v := fullValue(kind)
		ls := leavesOfClass(v, leafClass(d[1]))
		if len(ls) == 0 {
			return
		}
		for _, l := range ls {
			l.v.Set(reflect.Zero(l.v.Type()))
		}
		c.Desc = fmt.Sprintf("%s: every %s leaf zero, placement %d", xmlgen.KindNames[kind], leafClassNames[d[1]], d[2])
		if d[2] == 0 {
			anyObject(r, c, v, false)
		} else {
			osmContainer(r, c, between(kind, v), false)
		}
	})

	// every string of the object carries the class at once
	add("text-all", []int{xmlgen.NumKinds - 1, xmlgen.NumTextClasses + len(textExtra), 2}, func(r *kit.Run, c Case, d []int) {
		kind := xmlgen.KindNode + d[0]
		v := fullValue(kind)
		name := ""
		for _, l := range leavesOfClass(v, lcString) {
			if d[1] < xmlgen.NumTextClasses {
				l.v.SetString(xmlgen.TextOf(d[1], l.v.String()))
				name = fmt.Sprint("class ", d[1])
			} else {
				l.v.SetString(textExtra[d[1]-xmlgen.NumTextClasses].f(l.v.String()))
				name = textExtra[d[1]-xmlgen.NumTextClasses].name
			}
		}
		c.Desc = fmt.Sprintf("every string of a %s: %s, placement %d", xmlgen.KindNames[kind], name, d[2])
		if d[2] == 0 {
			anyObject(r, c, v, false)
		} else {
			osmContainer(r, c, between(kind, v), false)
		}
	})

	// the further text classes in the root attributes of <osm> and <osmChange>
	rootFields := []string{"Version", "Generator", "Copyright", "Attribution", "License"}
	add("textx-root", []int{len(rootFields), len(textExtra), 2}, func(r *kit.Run, c Case, d []int) {
		b := newB(1, false)
		c.Desc = fmt.Sprintf("root attribute %s: %s, container %d", rootFields[d[0]], textExtra[d[1]].name, d[2])
		if d[2] == 0 {
			v := b.OSMDocOf(31, []xmlgen.Obj{b.Small(xmlgen.KindNode)}).Want
			f := reflect.ValueOf(v).Elem().FieldByName(rootFields[d[0]])
			f.SetString(textExtra[d[1]].f(f.String()))
			osmContainer(r, c, v, false)
		} else {
			v := b.ChangeDocOf(31, []xmlgen.Block{{Action: "create", Objs: []xmlgen.Obj{b.Small(xmlgen.KindNode)}}}).Want
			f := reflect.ValueOf(v).Elem().FieldByName(rootFields[d[0]])
			f.SetString(textExtra[d[1]].f(f.String()))
			changeContainer(r, c, v, false)
		}
	})

	// lists reversed / doubled
	add("shape", []int{numShapeSubjects, 2, 2}, func(r *kit.Run, c Case, d []int) {
		v := shapeSubject(d[0])
		if d[1] == 0 {
			reverseAll(reflect.ValueOf(v))
		} else {
			doubleAll(reflect.ValueOf(v))
		}
		c.Desc = fmt.Sprintf("subject %d, %s, indent %d", d[0], []string{"every list reversed", "every list doubled"}[d[1]], d[2])
		anyObject(r, c, v, d[2] == 1)
	})

	// one pointer in several places
	add("alias", []int{4}, func(r *kit.Run, c Case, d []int) {
		b := newB(39, true)
		blk := b.OSMDocOf(0, []xmlgen.Obj{b.Small(xmlgen.KindBounds), b.Small(xmlgen.KindNode), b.Full(xmlgen.KindWay), b.Small(xmlgen.KindRelation)}).Want
		switch d[0] {
		case 0:
			c.Desc = "one *OSM as create, modify and delete block"
			changeContainer(r, c, &osm.Change{Version: "0.6", Create: blk, Modify: blk, Delete: blk}, false)
		case 1:
			c.Desc = "one *OSM as old and new of two actions"
			diffContainer(r, c, &osm.Diff{Actions: osm.Actions{{Type: osm.ActionModify, Old: blk, New: blk}, {Type: osm.ActionDelete, Old: blk, New: blk}}}, false)
		case 2:
			c.Desc = "one *Bounds as top-level bounds and as bounds of a way and a relation"
			w, rel := b.Full(xmlgen.KindWay).Val.(*osm.Way), b.Full(xmlgen.KindRelation).Val.(*osm.Relation)
			w.Bounds, rel.Bounds = blk.Bounds, blk.Bounds
			osmContainer(r, c, &osm.OSM{Bounds: blk.Bounds, Ways: osm.Ways{w}, Relations: osm.Relations{rel}}, false)
		default:
			c.Desc = "one time value as timestamp and committed of a node, a way and its updates"
			n, w := b.Full(xmlgen.KindNode).Val.(*osm.Node), b.Full(xmlgen.KindWay).Val.(*osm.Way)
			n.Committed = &n.Timestamp
			w.Timestamp = n.Timestamp
			w.Committed = n.Committed
			for i := range w.Updates {
				w.Updates[i].Timestamp = n.Timestamp
			}
			osmContainer(r, c, &osm.OSM{Nodes: osm.Nodes{n}, Ways: osm.Ways{w}}, false)
		}
	})

	// optional pointers that point at a zero value
	add("zero-ptr", []int{9, 2}, func(r *kit.Run, c Case, d []int) {
		b := newB(43, true)
		zt := &time.Time{}
		var v interface{}
		switch d[0] {
		case 0:
			n := b.Full(xmlgen.KindNode).Val.(*osm.Node)
			n.Committed = zt
			v, c.Desc = n, "node committed -> zero time"
		case 1:
			w := b.Full(xmlgen.KindWay).Val.(*osm.Way)
			w.Committed, w.Bounds = zt, &osm.Bounds{}
			v, c.Desc = w, "way committed -> zero time, bounds -> zero bounds"
		case 2:
			rel := b.Full(xmlgen.KindRelation).Val.(*osm.Relation)
			rel.Committed, rel.Bounds = zt, &osm.Bounds{}
			v, c.Desc = rel, "relation committed -> zero time, bounds -> zero bounds"
		case 3:
			w := b.Small(xmlgen.KindWay).Val.(*osm.Way)
			w.Bounds = &osm.Bounds{}
			v, c.Desc = w, "small way with zero bounds"
		case 4:
			v, c.Desc = &osm.OSM{Bounds: &osm.Bounds{}}, "OSM with zero top-level bounds only"
		case 5:
			o := between(xmlgen.KindNode, b.Small(xmlgen.KindNode).Val)
			o.Bounds = &osm.Bounds{}
			v, c.Desc = o, "OSM with zero top-level bounds and nodes"
		case 6:
			blk := func() *osm.OSM {
				return &osm.OSM{Bounds: &osm.Bounds{}, Nodes: osm.Nodes{b.Small(xmlgen.KindNode).Val.(*osm.Node)}}
			}
			v, c.Desc = &osm.Change{Create: blk(), Modify: &osm.OSM{Bounds: &osm.Bounds{}}, Delete: blk()}, "Change blocks with zero bounds"
		case 7:
			blk := func() *osm.OSM {
				return &osm.OSM{Bounds: &osm.Bounds{}, Nodes: osm.Nodes{b.Small(xmlgen.KindNode).Val.(*osm.Node)}}
			}
			v, c.Desc = &osm.Diff{Actions: osm.Actions{{Type: osm.ActionModify, Old: blk(), New: &osm.OSM{Bounds: &osm.Bounds{}}}}}, "Diff old/new with zero bounds"
		default:
			cs := b.Full(xmlgen.KindChangeset).Val.(*osm.Changeset)
			cs.Discussion = &osm.ChangesetDiscussion{Comments: []*osm.ChangesetComment{{}}}
			v, c.Desc = cs, "changeset discussion of one zero comment"
		}
		anyObject(r, c, v, d[1] == 1)
	})

	// zero-valued objects in every container position
	add("zero-in-container", []int{xmlgen.NumKinds, 9}, func(r *kit.Run, c Case, d []int) {
		kind := d[0]
		z := zeroValue(kind)
		elem := kind >= xmlgen.KindNode && kind <= xmlgen.KindRelation
		c.Desc = fmt.Sprintf("zero %s, placement %d", xmlgen.KindNames[kind], d[1])
		side := func() *osm.OSM { o := &osm.OSM{}; put(o, zeroValue(kind)); return o }
		switch pl := d[1]; {
		case pl == 0:
			o := &osm.OSM{}
			put(o, z)
			osmContainer(r, c, o, false)
		case pl == 1:
			osmContainer(r, c, between(kind, z), false)
		case pl == 2:
			o := between(kind, z)
			put(o, zeroValue(kind)) // two zero objects, the second one last
			osmContainer(r, c, o, true)
		case pl <= 5:
			ch := &osm.Change{}
			*[]**osm.OSM{&ch.Create, &ch.Modify, &ch.Delete}[pl-3] = block(kind, z)
			changeContainer(r, c, ch, false)
		case pl <= 7:
			typ := []osm.ActionType{osm.ActionModify, osm.ActionDelete}[pl-6]
			diffContainer(r, c, &osm.Diff{Actions: osm.Actions{{Type: typ, Old: side(), New: block(kind, z)}}}, false)
		default:
			if !elem {
				r.Add("skipped_not_an_element_directly_in_action", 1)
				return
			}
			diffContainer(r, c, &osm.Diff{Actions: osm.Actions{{Type: osm.ActionCreate, OSM: side()}, {Type: osm.ActionCreate, OSM: side()}}}, false)
		}
	})

	// long lists
	n := 2400
	if !quick {
		n = 40000
	}
	add("large", []int{numLargeCases, 2}, func(r *kit.Run, c Case, d []int) {
		c.Desc = fmt.Sprintf("large case %d, lists of about %d, indent %d", d[0], n, d[1])
		anyObject(r, c, largeValue(d[0], n), d[1] == 1)
	})

	// one uid under a different user name in every element (a renamed account in a
	// history file), the same name under different uids, names without uid: what one
	// element says about a user says nothing about the next - in an <osm>, in the
	// blocks of an osmChange and in the actions of a diff (whole-document decode and
	// the streaming scanner both read the marshalled text)
	add("same-uid", []int{3, 3}, func(r *kit.Run, c Case, d []int) {
		b := newB(53, true)
		var objs []interface{}
		for i := 0; i < 3; i++ {
			for _, kind := range []int{xmlgen.KindNode, xmlgen.KindWay, xmlgen.KindRelation, xmlgen.KindChangeset} {
				objs = append(objs, b.Full(kind).Val)
			}
		}
		for i, v := range objs {
			name := fmt.Sprintf("mapper %c", 'A'+i%7)
			uid := osm.UserID(777)
			switch d[0] {
			case 1: // one name, different uids
				name, uid = "same name", osm.UserID(100+i)
			case 2: // names without uid
				uid = 0
			}
			switch x := v.(type) {
			case *osm.Node:
				x.User, x.UserID = name, uid
			case *osm.Way:
				x.User, x.UserID = name, uid
			case *osm.Relation:
				x.User, x.UserID = name, uid
			case *osm.Changeset:
				x.User, x.UserID = name, uid
			}
		}
		c.Desc = fmt.Sprintf("12 elements, user pattern %d, container %d", d[0], d[1])
		switch d[1] {
		case 0:
			o := &osm.OSM{Version: "0.6"}
			for _, v := range objs {
				put(o, v)
			}
			osmContainer(r, c, o, false)
		case 1:
			ch := &osm.Change{Create: &osm.OSM{}, Modify: &osm.OSM{}, Delete: &osm.OSM{}}
			for i, v := range objs {
				put([]*osm.OSM{ch.Create, ch.Modify, ch.Delete}[i%3], v)
			}
			changeContainer(r, c, ch, false)
		case 2:
			df := &osm.Diff{}
			for i, v := range objs {
				if _, cs := v.(*osm.Changeset); cs {
					df.Changesets = append(df.Changesets, v.(*osm.Changeset))
					continue
				}
				o := &osm.OSM{}
				put(o, v)
				n := &osm.OSM{}
				put(n, objs[(i+4)%len(objs)])
				if len(n.Changesets) > 0 {
					n = o
				}
				df.Actions = append(df.Actions, osm.Action{Type: osm.ActionModify, Old: o, New: n})
			}
			diffContainer(r, c, df, false)
		}
	})

	// a Diff without actions
	add("empty-diff", []int{3, 2}, func(r *kit.Run, c Case, d []int) {
		b := newB(45, false)
		v := &osm.Diff{}
		switch d[0] {
		case 1:
			v.Changesets = osm.Changesets{b.Small(xmlgen.KindChangeset).Val.(*osm.Changeset)}
		case 2:
			v.Actions = osm.Actions{}
			v.Changesets = osm.Changesets{b.Full(xmlgen.KindChangeset).Val.(*osm.Changeset), &osm.Changeset{}}
		}
		c.Desc = fmt.Sprintf("Diff without actions, changesets %d, indent %d", len(v.Changesets), d[1])
		diffContainer(r, c, v, d[1] == 1)
	})

	// xml.MarshalIndent for standalone objects
	add("object-indent", []int{xmlgen.NumKinds, 3}, func(r *kit.Run, c Case, d []int) {
		b := newB(49, d[1] == 2)
		var v interface{}
		switch d[1] {
		case 0:
			v = b.Small(d[0]).Val
		default:
			v = b.Full(d[0]).Val
		}
		c.Desc = fmt.Sprintf("%s variant %d, indented", xmlgen.KindNames[d[0]], d[1])
		anyObject(r, c, v, true)
	})
}
