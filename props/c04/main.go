// Check C04: XML marshal/unmarshal round-trips every object and container.
//
// Bounded-exhaustive enumeration of Go values (per-kind presence lattices of
// every field incl. the annotation fields, containers OSM / Change / Diff over
// every subset / block state / action shape) against three oracles:
//
//	roundtrip  xml.Unmarshal(xml.Marshal(v)) equals v (gen/osmeq equivalences)
//	names      the marshalled text, tokenised independently (RawToken stream),
//	           uses only OSM XML element/attribute names valid where they occur
//	           (table gen/xmlgen/names.go)
//	scan       osmxml.Scanner over a marshalled <osm> document yields the same
//	           objects as whole-document decoding of that text
//	regen      marshalling the decoded value and decoding again still gives
//	           the original value
//
// boundary.go adds the boundary value / shape families (audit after round 7).
package main

import (
	"bytes"
	"context"
	"encoding/xml"
	"fmt"
	"io"
	"reflect"
	"strings"

	"github.com/paulmach/osm"
	"github.com/paulmach/osm/osmxml"

	"verif/gen/osmeq"
	"verif/gen/xmlgen"
	"verif/kit"
)

// Case identifies one enumerated value: the family and the index inside the
// family's mixed-radix space (deterministic, so -replay rebuilds the value).
type Case struct {
	Family string `json:"family"`
	Index  int    `json:"index"`
	Tier   string `json:"tier"` // the family spaces differ between the tiers
	Desc   string `json:"desc,omitempty"`
}

type family struct {
	name string
	n    int
	run  func(r *kit.Run, c Case)
}

func radix(i int, dims ...int) []int {
	out := make([]int, len(dims))
	for k := len(dims) - 1; k >= 0; k-- {
		out[k] = i % dims[k]
		i /= dims[k]
	}
	return out
}

func prod(dims ...int) int {
	p := 1
	for _, d := range dims {
		p *= d
	}
	return p
}

var (
	ndChoices  = [][]uint{nil, {1}, {1, 1, 1}, {31, 0b01101, 0b10010}}
	updChoices = [][]uint{nil, {127}, {127, 0b0000111, 0b1011011}}
	memChoices = [][]xmlgen.MemberCfg{
		nil,
		{{Attrs: 7, Type: 0}},
		{{Attrs: 7, Type: 0}, {Attrs: 7, Type: 1}, {Attrs: 7, Type: 2}},
		{{Attrs: 255, Type: 0, Orient: 0}, {Attrs: 255, Type: 1, Orient: 1, Nds: []uint{0b11001, 0b11001}}, {Attrs: 0b10000101, Type: 2, Orient: 0}},
	}
)

func newB(seed int, nanos bool) *xmlgen.B {
	b := xmlgen.NewB(seed)
	b.Nanos = nanos
	return b
}

func families(quick bool) []family {
	quickTier = quick
	var fs []family
	add := func(name string, dims []int, run func(r *kit.Run, c Case, d []int)) {
		fs = append(fs, family{name, prod(dims...), func(r *kit.Run, c Case) { run(r, c, radix(c.Index, dims...)) }})
	}
	full := func(n int) uint { return xmlgen.All(n) }

	add("bounds", []int{16}, func(r *kit.Run, c Case, d []int) {
		_, v := newB(1, false).Bounds(uint(d[0]))
		object(r, c, "bounds", v, &osm.Bounds{})
	})
	add("node", []int{1 << xmlgen.NumNodeAttrs, 2, 2}, func(r *kit.Run, c Case, d []int) {
		_, v := newB(d[0], d[2] == 1).Node(xmlgen.NodeCfg{Attrs: uint(d[0]), Tags: 2 * d[1]})
		object(r, c, "node", v, &osm.Node{})
	})
	add("way", []int{1 << xmlgen.NumWayAttrs, 4, 2, 3, 2, 2}, func(r *kit.Run, c Case, d []int) {
		_, v := newB(d[0], d[5] == 1).Way(xmlgen.WayCfg{Attrs: uint(d[0]), Nds: ndChoices[d[1]], Tags: d[2],
			Updates: updChoices[d[3]], Bounds: d[4] * 16})
		object(r, c, "way", v, &osm.Way{})
	})
	add("way-nd", []int{32, 32}, func(r *kit.Run, c Case, d []int) {
		_, v := newB(3, true).Way(xmlgen.WayCfg{Attrs: full(xmlgen.NumWayAttrs), Nds: []uint{uint(d[0]), uint(d[1])}})
		object(r, c, "way", v, &osm.Way{})
	})
	updPairs := func(d []int) []uint {
		if quick {
			if d[1] == 0 {
				return []uint{uint(d[0]), 127}
			}
			return []uint{127, uint(d[0])}
		}
		return []uint{uint(d[0]), uint(d[1])}
	}
	updDims := []int{128, 128}
	if quick {
		updDims = []int{128, 2}
	}
	add("way-update", updDims, func(r *kit.Run, c Case, d []int) {
		_, v := newB(5, d[0]%2 == 1).Way(xmlgen.WayCfg{Attrs: 1, Nds: []uint{1, 1}, Updates: updPairs(d)})
		object(r, c, "way", v, &osm.Way{})
	})
	add("relation", []int{1 << xmlgen.NumWayAttrs, 4, 2, 3, 2, 2}, func(r *kit.Run, c Case, d []int) {
		_, v := newB(d[0], d[5] == 1).Relation(xmlgen.RelationCfg{Attrs: uint(d[0]), Members: memChoices[d[1]], Tags: d[2],
			Updates: updChoices[d[3]], Bounds: d[4] * 16})
		object(r, c, "relation", v, &osm.Relation{})
	})
	add("relation-member", []int{1 << xmlgen.NumMemberAttrs, 3, 2, 2}, func(r *kit.Run, c Case, d []int) {
		m := xmlgen.MemberCfg{Attrs: uint(d[0]), Type: d[1], Orient: d[2]}
		if d[3] == 1 {
			m.Nds = []uint{1, 0b11001}
		}
		_, v := newB(7, true).Relation(xmlgen.RelationCfg{Attrs: 1, Members: []xmlgen.MemberCfg{m, {Attrs: 255, Type: 1, Orient: 1 - d[2]}}})
		object(r, c, "relation", v, &osm.Relation{})
	})
	add("relation-update", updDims, func(r *kit.Run, c Case, d []int) {
		_, v := newB(5, d[0]%2 == 0).Relation(xmlgen.RelationCfg{Attrs: 1, Members: memChoices[2], Updates: updPairs(d)})
		object(r, c, "relation", v, &osm.Relation{})
	})
	csDims := []int{1 << xmlgen.NumChangesetAttrs, 4, 2, 1}
	if !quick {
		csDims[3] = 3
	}
	add("changeset", csDims, func(r *kit.Run, c Case, d []int) {
		cfg := xmlgen.ChangesetCfg{Attrs: uint(d[0]), Tags: d[3]}
		switch d[1] {
		case 1:
			cfg.Discussion = 1 // empty discussion: equivalent to an absent one
		case 2:
			cfg.Discussion, cfg.Comments = 1, []uint{15}
		case 3:
			cfg.Discussion, cfg.Comments = 1, []uint{15, 15}
		}
		_, v := newB(d[0], d[2] == 1).Changeset(cfg)
		object(r, c, "changeset", v, &osm.Changeset{})
	})
	add("changeset-comment", []int{16, 16, 2}, func(r *kit.Run, c Case, d []int) {
		_, v := newB(9, d[2] == 1).Changeset(xmlgen.ChangesetCfg{Attrs: 1, Discussion: 1, Comments: []uint{uint(d[0]), uint(d[1])}})
		object(r, c, "changeset", v, &osm.Changeset{})
	})
	add("note", []int{1 << xmlgen.NumNoteParts, 3}, func(r *kit.Run, c Case, d []int) {
		cfg := xmlgen.NoteCfg{Parts: uint(d[0])}
		switch d[1] {
		case 1:
			cfg.HasComments = true
		case 2:
			cfg.HasComments, cfg.Comments = true, []uint{127, 127}
		}
		_, v := newB(d[0], false).Note(cfg)
		object(r, c, "note", v, &osm.Note{})
	})
	ncDims := []int{128, 128}
	if quick {
		ncDims = []int{128, 2}
	}
	add("note-comment", ncDims, func(r *kit.Run, c Case, d []int) {
		_, v := newB(11, false).Note(xmlgen.NoteCfg{Parts: 4, HasComments: true, Comments: updPairs(d)})
		object(r, c, "note", v, &osm.Note{})
	})
	add("user", []int{1 << xmlgen.NumUserParts, 2}, func(r *kit.Run, c Case, d []int) {
		cfg := xmlgen.FullUser()
		cfg.Parts = uint(d[0])
		_, v := newB(d[0], d[1] == 1).User(cfg)
		object(r, c, "user", v, &osm.User{})
	})
	if quick {
		// each nested group of the user varied on its own, the others complete
		add("user-nested", []int{2 + 4 + 8 + 3 + 8 + 32}, func(r *kit.Run, c Case, d []int) {
			cfg := xmlgen.FullUser()
			i := d[0]
			switch {
			case i < 2:
				cfg.Img = uint(i)
			case i < 6:
				cfg.Counts = uint(i - 2)
			case i < 14:
				cfg.Home = uint(i - 6)
			case i < 17:
				cfg.Langs = i - 14
			case i < 25:
				cfg.Blocks = uint(i - 17)
			default:
				cfg.Msgs = uint(i - 25)
			}
			_, v := newB(13, true).User(cfg)
			object(r, c, "user", v, &osm.User{})
		})
	} else {
		add("user-nested", []int{2, 4, 8, 3, 8, 32}, func(r *kit.Run, c Case, d []int) {
			cfg := xmlgen.FullUser()
			cfg.Img, cfg.Counts, cfg.Home, cfg.Langs, cfg.Blocks, cfg.Msgs = uint(d[0]), uint(d[1]), uint(d[2]), d[3], uint(d[4]), uint(d[5])
			_, v := newB(13, true).User(cfg)
			object(r, c, "user", v, &osm.User{})
		})
	}

	// every string position of every kind under every text class
	for kind := 0; kind < xmlgen.NumKinds; kind++ {
		kind := kind
		if kind == xmlgen.KindBounds {
			continue
		}
		probe := xmlgen.NewB(1)
		probe.Full(kind)
		npos := probe.Positions()
		add("text-"+xmlgen.KindNames[kind], []int{npos, xmlgen.NumTextClasses}, func(r *kit.Run, c Case, d []int) {
			b := newB(1, false)
			b.TextPos, b.TextClass = d[0], d[1]
			o := b.Full(kind)
			c.Desc = fmt.Sprintf("string position %d class %d", d[0], d[1])
			switch v := o.Val.(type) {
			case *osm.Node:
				object(r, c, "node", v, &osm.Node{})
			case *osm.Way:
				object(r, c, "way", v, &osm.Way{})
			case *osm.Relation:
				object(r, c, "relation", v, &osm.Relation{})
			case *osm.Changeset:
				object(r, c, "changeset", v, &osm.Changeset{})
			case *osm.Note:
				object(r, c, "note", v, &osm.Note{})
			case *osm.User:
				object(r, c, "user", v, &osm.User{})
			}
		})
	}
	add("text-root", []int{xmlgen.NumRootAttrs, xmlgen.NumTextClasses, 2}, func(r *kit.Run, c Case, d []int) {
		b := newB(1, false)
		b.TextPos, b.TextClass = d[0], d[1]
		if d[2] == 0 {
			doc := b.OSMDocOf(31, []xmlgen.Obj{b.Small(xmlgen.KindNode)})
			osmContainer(r, c, doc.Want, false)
		} else {
			doc := b.ChangeDocOf(31, []xmlgen.Block{{Action: "create", Objs: []xmlgen.Obj{b.Small(xmlgen.KindNode)}}})
			changeContainer(r, c, doc.Want, false)
		}
	})

	// OSM with every subset of the seven kinds (top-level bounds is one of them)
	add("osm", []int{1 << xmlgen.NumKinds, 1 << xmlgen.NumRootAttrs, 2, 2}, func(r *kit.Run, c Case, d []int) {
		b := newB(d[0], d[3] == 1)
		var objs []xmlgen.Obj
		for k := 0; k < xmlgen.NumKinds; k++ {
			if d[0]&(1<<uint(k)) == 0 {
				continue
			}
			objs = append(objs, b.Small(k))
			if d[2] == 1 && k != xmlgen.KindBounds {
				objs = append(objs, b.Small(k))
			}
		}
		doc := b.OSMDocOf(uint(d[1]), objs)
		osmContainer(r, c, doc.Want, d[3] == 1)
	})
	add("osm-full", []int{1 << xmlgen.NumKinds, 2}, func(r *kit.Run, c Case, d []int) {
		b := newB(d[0], true)
		var objs []xmlgen.Obj
		for k := 0; k < xmlgen.NumKinds; k++ {
			if d[0]&(1<<uint(k)) != 0 {
				objs = append(objs, b.Full(k))
			}
		}
		doc := b.OSMDocOf(31, objs)
		osmContainer(r, c, doc.Want, d[1] == 1)
	})

	// Change with each block in {nil, empty, elements, bounds only, elements+bounds}
	runChange := func(r *kit.Run, c Case, d []int, indent bool) {
		b := newB(c.Index, d[4] == 2)
		var blocks []xmlgen.Block
		for i, act := range []string{"create", "modify", "delete"} {
			st := d[i]
			if st == 0 {
				continue
			}
			var objs []xmlgen.Obj
			if st == 3 || st == 4 {
				objs = append(objs, b.Small(xmlgen.KindBounds))
			}
			if st == 2 || st == 4 {
				switch d[4] {
				case 0:
					objs = append(objs, b.Small(xmlgen.KindNode))
				case 1:
					objs = append(objs, b.Small(xmlgen.KindNode), b.Small(xmlgen.KindWay), b.Small(xmlgen.KindRelation), b.Small(xmlgen.KindNode))
				default:
					for k := xmlgen.KindNode; k < xmlgen.NumKinds; k++ {
						objs = append(objs, b.Full(k))
					}
				}
			}
			blocks = append(blocks, xmlgen.Block{Action: act, Objs: objs})
		}
		doc := b.ChangeDocOf(uint(d[3]*31), blocks)
		changeContainer(r, c, doc.Want, indent)
	}
	add("change", []int{5, 5, 5, 2, 3}, func(r *kit.Run, c Case, d []int) { runChange(r, c, d, false) })
	// the same space through xml.MarshalIndent: the blocks are written token by
	// token by the library, the decoders then see white space between them
	add("change-indent", []int{5, 5, 5, 2, 3}, func(r *kit.Run, c Case, d []int) { runChange(r, c, d, true) })

	// Diff: every action type x directly held element x old x new
	sideChoices := 6 // absent, empty, node, way, relation, node+way+relation
	mkSide := func(b *xmlgen.B, ch int) ([]xmlgen.Obj, bool) {
		switch ch {
		case 0:
			return nil, false
		case 1:
			return nil, true
		case 2, 3, 4:
			return []xmlgen.Obj{b.Small(xmlgen.KindNode + ch - 2)}, true
		}
		return []xmlgen.Obj{b.Small(xmlgen.KindNode), b.Full(xmlgen.KindWay), b.Full(xmlgen.KindRelation)}, true
	}
	mkAction := func(b *xmlgen.B, typ, direct, old, nw int) xmlgen.ActionCfg {
		a := xmlgen.ActionCfg{Type: []string{"create", "modify", "delete"}[typ]}
		if direct > 0 {
			o := b.Small(xmlgen.KindNode + direct - 1)
			a.Direct = &o
		}
		a.Old, a.HasOld = mkSide(b, old)
		a.New, a.HasNew = mkSide(b, nw)
		return a
	}
	runDiff := func(r *kit.Run, c Case, d []int, indent bool) {
		b := newB(c.Index, d[4] == 1)
		acts := []xmlgen.ActionCfg{mkAction(b, d[0], d[1], d[2], d[3])}
		var cs []xmlgen.Obj
		if d[4] == 1 {
			cs = append(cs, b.Small(xmlgen.KindChangeset))
		}
		doc := b.DiffDocOf(acts, cs)
		diffContainer(r, c, doc.Want, indent)
	}
	add("diff", []int{3, 4, sideChoices, sideChoices, 2}, func(r *kit.Run, c Case, d []int) { runDiff(r, c, d, false) })
	add("diff-indent", []int{3, 4, sideChoices, sideChoices, 2}, func(r *kit.Run, c Case, d []int) { runDiff(r, c, d, true) })
	// two actions: the neighbour must not leak into or out of the action
	neighbours := [][4]int{{0, 1, 0, 0}, {1, 0, 2, 2}, {2, 0, 3, 0}, {1, 0, 0, 4}}
	add("diff-pair", []int{3, 4, sideChoices, sideChoices, len(neighbours), 2}, func(r *kit.Run, c Case, d []int) {
		b := newB(c.Index, false)
		n := neighbours[d[4]]
		a1 := mkAction(b, d[0], d[1], d[2], d[3])
		a2 := mkAction(b, n[0], n[1], n[2], n[3])
		acts := []xmlgen.ActionCfg{a1, a2}
		if d[5] == 1 {
			acts = []xmlgen.ActionCfg{a2, a1}
		}
		doc := b.DiffDocOf(acts, nil)
		diffContainer(r, c, doc.Want, false)
	})
	add("diff-bounds", []int{3, 2, 2}, func(r *kit.Run, c Case, d []int) {
		b := newB(c.Index, false)
		a := xmlgen.ActionCfg{Type: []string{"create", "modify", "delete"}[d[0]], HasOld: true, HasNew: true}
		a.Old = []xmlgen.Obj{b.Small(xmlgen.KindNode)}
		a.New = []xmlgen.Obj{b.Small(xmlgen.KindNode)}
		if d[1] == 1 {
			a.Old = append([]xmlgen.Obj{b.Small(xmlgen.KindBounds)}, a.Old...)
		}
		if d[2] == 1 {
			a.New = append([]xmlgen.Obj{b.Small(xmlgen.KindBounds)}, a.New...)
		}
		doc := b.DiffDocOf([]xmlgen.ActionCfg{a}, nil)
		diffContainer(r, c, doc.Want, false)
	})
	// boundary ids (placeholder -1, int32 limits, 2^31, 2^40 and beyond) in
	// the element id / nd and member refs / changeset ids / all of them, for a
	// standalone object and inside every container position
	wheres := []uint{xmlgen.IDAtElem, xmlgen.IDAtNdRef | xmlgen.IDAtMemberRef, xmlgen.IDAtChangeset, xmlgen.IDAtAll}
	actNames := []string{"create", "modify", "delete"}
	// (idRange = xmlgen.IDRange followed by the further boundary ids of
	// boundary.go: 0, 1, 2^31-1, 2^32, 2^40-1, -2^40, 2^53+1, the int64 limits)
	idRange := append(append([]int64(nil), xmlgen.IDRange...), idRangeExtra...)
	add("id-range", []int{len(idRange), 3, 11, len(wheres)}, func(r *kit.Run, c Case, d []int) {
		b := newB(47, true)
		id := idRange[d[0]]
		kind := xmlgen.KindNode + d[1]
		forced := func() xmlgen.Obj {
			b.ForceID, b.ForceWhere = &id, wheres[d[3]]
			o := b.Full(kind)
			b.ForceID = nil
			return o
		}
		c.Desc = fmt.Sprintf("id %d kind %s placement %d where %#x", id, xmlgen.KindNames[kind], d[2], wheres[d[3]])
		switch pl := d[2]; {
		case pl == 0:
			switch v := forced().Val.(type) {
			case *osm.Node:
				object(r, c, "node", v, &osm.Node{})
			case *osm.Way:
				object(r, c, "way", v, &osm.Way{})
			case *osm.Relation:
				object(r, c, "relation", v, &osm.Relation{})
			}
		case pl == 1:
			x := b.OSMDocOf(1, []xmlgen.Obj{b.Small(kind), forced(), b.Small(kind)})
			osmContainer(r, c, x.Want, false)
		case pl <= 4:
			x := b.ChangeDocOf(1, []xmlgen.Block{{Action: actNames[pl-2], Objs: []xmlgen.Obj{b.Small(kind), forced(), b.Small(xmlgen.KindNode)}}})
			changeContainer(r, c, x.Want, false)
		case pl <= 7:
			o := forced()
			n := b.Small(xmlgen.KindNode)
			x := b.DiffDocOf([]xmlgen.ActionCfg{{Type: actNames[pl-5], Direct: &o}, {Type: "create", Direct: &n}}, nil)
			diffContainer(r, c, x.Want, false)
		default:
			x := b.DiffDocOf([]xmlgen.ActionCfg{{Type: actNames[pl-8], HasOld: true, Old: []xmlgen.Obj{forced()}, HasNew: true, New: []xmlgen.Obj{forced()}}}, nil)
			diffContainer(r, c, x.Want, false)
		}
	})
	boundaryFamilies(quick, add)
	return fs
}

// ------------------------------------------------------------------ oracles

var zeroText = map[string]string{}

func init() {
	for kind, v := range map[string]interface{}{"bounds": &osm.Bounds{}, "node": &osm.Node{}, "way": &osm.Way{},
		"relation": &osm.Relation{}, "changeset": &osm.Changeset{}, "note": &osm.Note{}, "user": &osm.User{},
		"osm": &osm.OSM{}, "osmChange": &osm.Change{}, "diff": &osm.Diff{}} {
		data, _ := xml.Marshal(v)
		zeroText[kind] = string(data)
	}
}

var idx = strings.NewReplacer("0", "", "1", "", "2", "", "3", "", "4", "", "5", "", "6", "", "7", "", "8", "", "9", "", "[", "", "]", "")

// shapeOf turns a field path into the violation key's shape part.
func shapeOf(kind, path string) string {
	p := idx.Replace(path)
	switch {
	case kind == "osm" && p == "Bounds":
		return "osm-top-level-bounds"
	case kind == "osmChange" && (p == "Create.Bounds" || p == "Modify.Bounds" || p == "Delete.Bounds"):
		return "change-block-bounds"
	case kind == "diff" && (p == "Actions.Old.Bounds" || p == "Actions.New.Bounds"):
		return "diff-action-bounds"
	}
	return kind + ":" + p
}

func record(r *kit.Run, c Case, kind string, data []byte) {
	r.Case(c.Family+"|"+string(data), string(data) != zeroText[kind])
	r.Add("cases_"+c.Family, 1)
	if r.WantSample() && c.Index%97 == 13 {
		r.Sample(map[string]interface{}{"case": c, "marshalled": clip(string(data), 400)})
	}
}

func clip(s string, n int) string {
	if len(s) > n {
		return s[:n] + "..."
	}
	return s
}

// object round-trips one standalone object (xml.Marshal).
func object(r *kit.Run, c Case, kind string, v interface{}, into interface{}) {
	objectOpt(r, c, kind, v, into, false)
}

// objectOpt is object with the choice of xml.Marshal / xml.MarshalIndent.
func objectOpt(r *kit.Run, c Case, kind string, v interface{}, into interface{}, indent bool) {
	data, err := marshalChecked(r, c, kind, v, indent)
	if err != nil {
		r.Violation(errClause("marshal", err)+"/"+kind, fmt.Sprintf("%v: %v", c, err), c)
		return
	}
	record(r, c, kind, data)
	byValue(r, c, kind, v, data, indent)
	if err := safeUnmarshal(data, into); err != nil {
		r.Violation(errClause("unmarshal", err)+"/"+kind, fmt.Sprintf("%v: %v\n%s", c, err, clip(string(data), 600)), c)
		return
	}
	if d := osmeq.Diff(v, into); d != "" {
		r.Violation("roundtrip/"+shapeOf(kind, osmeq.Path(d)), fmt.Sprintf("%v: value != Unmarshal(Marshal(value)) at %s\nmarshalled: %s", c, d, clip(string(data), 600)), c)
	}
	// The root element of a standalone Bounds is named by the caller of the
	// encoder (the type carries no element name), so only what is below it is
	// judged; for every other kind the root name is part of the check.
	checkNames(r, c, kind, data, kind == "bounds")
	regen(r, c, kind, v, into, reflect.New(reflect.TypeOf(into).Elem()).Interface(), indent)
}

func osmContainer(r *kit.Run, c Case, v *osm.OSM, indent bool) {
	var data []byte
	var err error
	data, err = marshalChecked(r, c, "osm", v, indent)
	if err != nil {
		r.Violation(errClause("marshal", err)+"/osm", fmt.Sprintf("%v: %v", c, err), c)
		return
	}
	record(r, c, "osm", data)
	byValue(r, c, "osm", v, data, indent)
	got := &osm.OSM{}
	if err := safeUnmarshal(data, got); err != nil {
		r.Violation(errClause("unmarshal", err)+"/osm", fmt.Sprintf("%v: %v\n%s", c, err, clip(string(data), 600)), c)
		return
	}
	if d := osmeq.Diff(v, got); d != "" {
		r.Violation("roundtrip/"+shapeOf("osm", osmeq.Path(d)), fmt.Sprintf("%v: value != Unmarshal(Marshal(value)) at %s\nmarshalled: %s", c, d, clip(string(data), 600)), c)
	}
	checkNames(r, c, "osm", data, false)
	regen(r, c, "osm", v, got, &osm.OSM{}, indent)

	// streaming scan of the same text against whole-document decoding of it
	sc := osmxml.New(context.Background(), bytes.NewReader(data))
	scanned := &osm.OSM{Version: got.Version, Generator: got.Generator, Copyright: got.Copyright, Attribution: got.Attribution, License: got.License}
	var scanPanic string
	for safeScan(sc, &scanPanic) {
		switch o := sc.Object().(type) {
		case *osm.Bounds:
			scanned.Bounds = o
		case *osm.Node:
			scanned.Nodes = append(scanned.Nodes, o)
		case *osm.Way:
			scanned.Ways = append(scanned.Ways, o)
		case *osm.Relation:
			scanned.Relations = append(scanned.Relations, o)
		case *osm.Changeset:
			scanned.Changesets = append(scanned.Changesets, o)
		case *osm.Note:
			scanned.Notes = append(scanned.Notes, o)
		case *osm.User:
			scanned.Users = append(scanned.Users, o)
		default:
			r.Violation("scan/osm:unexpected-object", fmt.Sprintf("%v: scanner yielded %T", c, o), c)
		}
	}
	sc.Close()
	if scanPanic != "" {
		r.Violation("scan-panic/osm", fmt.Sprintf("%v: osmxml.Scanner panicked: %s\nmarshalled: %s", c, scanPanic, clip(string(data), 600)), c)
		return
	}
	if err := sc.Err(); err != nil && err != osm.ErrScannerClosed && err != io.EOF {
		r.Violation("scan-error/osm", fmt.Sprintf("%v: %v", c, err), c)
		return
	}
	if d := osmeq.Diff(got, scanned); d != "" {
		r.Violation("scan/"+shapeOf("osm", osmeq.Path(d)), fmt.Sprintf("%v: whole-document decode != streaming scan of the marshalled text at %s\nmarshalled: %s", c, d, clip(string(data), 600)), c)
	}
}

func changeContainer(r *kit.Run, c Case, v *osm.Change, indent bool) {
	data, err := marshalChecked(r, c, "osmChange", v, indent)
	if err != nil {
		r.Violation(errClause("marshal", err)+"/osmChange", fmt.Sprintf("%v: %v", c, err), c)
		return
	}
	record(r, c, "osmChange", data)
	byValue(r, c, "osmChange", v, data, indent)
	got := &osm.Change{}
	if err := safeUnmarshal(data, got); err != nil {
		r.Violation(errClause("unmarshal", err)+"/osmChange", fmt.Sprintf("%v: %v\n%s", c, err, clip(string(data), 600)), c)
		return
	}
	if d := osmeq.Diff(v, got); d != "" {
		r.Violation("roundtrip/"+shapeOf("osmChange", osmeq.Path(d)), fmt.Sprintf("%v: value != Unmarshal(Marshal(value)) at %s\nmarshalled: %s", c, d, clip(string(data), 600)), c)
	}
	checkNames(r, c, "osmChange", data, false)
	regen(r, c, "osmChange", v, got, &osm.Change{}, indent)
	var want flat
	want.add(got.Create)
	want.add(got.Modify)
	want.add(got.Delete)
	scanAgainst(r, c, "osmChange", data, &want)
}

func diffContainer(r *kit.Run, c Case, v *osm.Diff, indent bool) {
	data, err := marshalChecked(r, c, "diff", v, indent)
	if err != nil {
		r.Violation(errClause("marshal", err)+"/diff", fmt.Sprintf("%v: %v", c, err), c)
		return
	}
	record(r, c, "diff", data)
	byValue(r, c, "diff", v, data, indent)
	got := &osm.Diff{}
	if err := safeUnmarshal(data, got); err != nil {
		r.Violation(errClause("unmarshal", err)+"/diff", fmt.Sprintf("%v: %v\n%s", c, err, clip(string(data), 600)), c)
		return
	}
	if d := osmeq.Diff(v, got); d != "" {
		r.Violation("roundtrip/"+shapeOf("diff", osmeq.Path(d)), fmt.Sprintf("%v: value != Unmarshal(Marshal(value)) at %s\nmarshalled: %s", c, d, clip(string(data), 600)), c)
	}
	checkNames(r, c, "diff", data, false)
	regen(r, c, "diff", v, got, &osm.Diff{}, indent)
	var want flat
	for _, a := range got.Actions {
		want.add(a.OSM)
		want.add(a.Old)
		want.add(a.New)
	}
	// changesets stand next to the actions at the top level of a diff
	want.o.Changesets = append(want.o.Changesets, got.Changesets...)
	scanAgainst(r, c, "diff", data, &want)
}

// flat is the per-kind sequence of objects of a document, in document order.
type flat struct {
	bounds []*osm.Bounds
	o      osm.OSM
}

func (f *flat) add(o *osm.OSM) {
	if o == nil {
		return
	}
	if o.Bounds != nil {
		f.bounds = append(f.bounds, o.Bounds)
	}
	f.o.Nodes = append(f.o.Nodes, o.Nodes...)
	f.o.Ways = append(f.o.Ways, o.Ways...)
	f.o.Relations = append(f.o.Relations, o.Relations...)
	f.o.Changesets = append(f.o.Changesets, o.Changesets...)
	f.o.Notes = append(f.o.Notes, o.Notes...)
	f.o.Users = append(f.o.Users, o.Users...)
}

// scanAgainst: the streaming scanner must read the marshalled text of a
// Change or Diff to the same objects (per kind, in document order) as the
// whole-document decoder did.
func scanAgainst(r *kit.Run, c Case, kind string, data []byte, want *flat) {
	sc := osmxml.New(context.Background(), bytes.NewReader(data))
	var got flat
	var scanPanic string
	for safeScan(sc, &scanPanic) {
		switch o := sc.Object().(type) {
		case *osm.Bounds:
			got.bounds = append(got.bounds, o)
		case *osm.Node:
			got.o.Nodes = append(got.o.Nodes, o)
		case *osm.Way:
			got.o.Ways = append(got.o.Ways, o)
		case *osm.Relation:
			got.o.Relations = append(got.o.Relations, o)
		case *osm.Changeset:
			got.o.Changesets = append(got.o.Changesets, o)
		case *osm.Note:
			got.o.Notes = append(got.o.Notes, o)
		case *osm.User:
			got.o.Users = append(got.o.Users, o)
		default:
			r.Violation("scan/"+kind+":unexpected-object", fmt.Sprintf("%v: scanner yielded %T", c, o), c)
		}
	}
	sc.Close()
	if scanPanic != "" {
		r.Violation("scan-panic/"+kind, fmt.Sprintf("%v: osmxml.Scanner panicked: %s\nmarshalled: %s", c, scanPanic, clip(string(data), 600)), c)
		return
	}
	if err := sc.Err(); err != nil && err != osm.ErrScannerClosed && err != io.EOF {
		r.Violation("scan-error/"+kind, fmt.Sprintf("%v: %v", c, err), c)
		return
	}
	if len(got.bounds) != len(want.bounds) {
		r.Violation("scan/"+kind+":bounds-count", fmt.Sprintf("%v: scanner yielded %d bounds, whole-document decode has %d\nmarshalled: %s", c, len(got.bounds), len(want.bounds), clip(string(data), 600)), c)
		return
	}
	for i := range got.bounds {
		if d := osmeq.Diff(want.bounds[i], got.bounds[i]); d != "" {
			r.Violation("scan/"+kind+":bounds", fmt.Sprintf("%v: bounds %d differ at %s", c, i, d), c)
			return
		}
	}
	if d := osmeq.Diff(&want.o, &got.o); d != "" {
		r.Violation("scan/"+shapeOf(kind, osmeq.Path(d)), fmt.Sprintf("%v: whole-document decode != streaming scan of the marshalled text at %s\nmarshalled: %s", c, d, clip(string(data), 600)), c)
	}
}

// checkNames tokenises the marshalled text (raw tokens: no namespace or name
// translation) and checks every element and attribute name against the OSM
// XML vocabulary of the place where it occurs.
func checkNames(r *kit.Run, c Case, kind string, data []byte, skipRoot bool) {
	rootName := kind
	if kind == "diff" {
		rootName = "osm"
	}
	dec := xml.NewDecoder(bytes.NewReader(data))
	type frame struct {
		name string
		s    *xmlgen.Schema
	}
	var stack []frame
	for {
		tok, err := dec.RawToken()
		if err == io.EOF {
			return
		}
		if err != nil {
			r.Violation("names/"+kind+":not-well-formed", fmt.Sprintf("%v: %v\n%s", c, err, clip(string(data), 600)), c)
			return
		}
		switch t := tok.(type) {
		case xml.StartElement:
			name := t.Name.Local
			if t.Name.Space != "" {
				name = t.Name.Space + ":" + name
			}
			var s *xmlgen.Schema
			if len(stack) == 0 {
				s = xmlgen.Roots[rootName]
				if name != rootName && !skipRoot {
					r.Violation("names/"+kind+":root="+name, fmt.Sprintf("%v: root element <%s>, want <%s>", c, name, rootName), c)
				}
			} else {
				parent := stack[len(stack)-1]
				if parent.s != nil {
					s = parent.s.Kids[name]
				}
				if s == nil && parent.s != nil {
					shape := kind + ":" + parent.name + ">" + name
					if name == "Bounds" {
						switch parent.name {
						case "osm":
							shape = "osm-top-level-bounds"
						case "create", "modify", "delete":
							shape = "change-block-bounds"
						case "old", "new":
							shape = "diff-action-bounds"
						}
					}
					r.Violation("names/"+shape, fmt.Sprintf("%v: element <%s> inside <%s> is not an OSM XML name\nmarshalled: %s", c, name, parent.name, clip(string(data), 600)), c)
				}
			}
			if s != nil {
				for _, a := range t.Attr {
					an := a.Name.Local
					if a.Name.Space != "" {
						an = a.Name.Space + ":" + an
					}
					if !s.HasAttr(an) {
						r.Violation("names/"+kind+":"+name+"@"+an, fmt.Sprintf("%v: attribute %s of <%s> is not an OSM XML name\nmarshalled: %s", c, an, name, clip(string(data), 600)), c)
					}
				}
			}
			stack = append(stack, frame{name, s})
		case xml.EndElement:
			if len(stack) > 0 {
				stack = stack[:len(stack)-1]
			}
		}
	}
}

// quickTier is set by families(): the tier decides how much of the big
// lattices goes through regen.
var quickTier bool

// the families whose space is a plain presence lattice of thousands of
// points: in the quick tier every 11th point also goes through regen (11 is
// coprime to every radix of these spaces, so every digit of every dimension
// still occurs with every digit of every other one somewhere in the subset);
// the thorough tier takes them all
var bigLattice = map[string]bool{"way": true, "relation": true, "changeset": true, "diff-pair": true,
	"osm": true, "node": true, "note": true, "user": true}

// regen: a decoded value is a value too (and the usual one in practice: read,
// change, write). Decoding fills in the XMLName bookkeeping fields and turns
// nil lists into whatever the decoder allocates; marshalling the decoded value
// and decoding that text must still give the original value.
func regen(r *kit.Run, c Case, kind string, v, got, into interface{}, indent bool) {
	if quickTier && bigLattice[c.Family] && c.Index%11 != 0 {
		return
	}
	r.Add("regen_cases", 1)
	data, err := safeMarshal(got, indent)
	if err != nil {
		r.Violation(errClause("marshal", err)+"/decoded-value/"+kind, fmt.Sprintf("%v: marshalling the value that decoding returned: %v", c, err), c)
		return
	}
	if err := safeUnmarshal(data, into); err != nil {
		r.Violation(errClause("unmarshal", err)+"/decoded-value/"+kind, fmt.Sprintf("%v: %v\n%s", c, err, clip(string(data), 600)), c)
		return
	}
	if d := osmeq.Diff(v, into); d != "" {
		r.Violation("roundtrip-decoded-value/"+shapeOf(kind, osmeq.Path(d)), fmt.Sprintf("%v: value != Unmarshal(Marshal(Unmarshal(Marshal(value)))) at %s\nsecond text: %s", c, d, clip(string(data), 600)), c)
	}
}

// A panic inside the library is an observation about one value, not the end
// of the run: the guards turn it into an error with its own violation clause.
type panicErr struct{ msg string }

func (p panicErr) Error() string { return "panic: " + p.msg }

func errClause(base string, err error) string {
	if _, ok := err.(panicErr); ok {
		return base + "-panic"
	}
	return base + "-error"
}

// marshalChecked is safeMarshal plus two clauses about the call itself:
// marshalling does not modify its input, and marshalling the same value again
// gives the same text (nothing is left behind in the value or the package).
func marshalChecked(r *kit.Run, c Case, kind string, v interface{}, indent bool) ([]byte, error) {
	before := kit.DeepCopy(v)
	data, err := safeMarshal(v, indent)
	if err != nil {
		return data, err
	}
	if !reflect.DeepEqual(before, v) {
		r.Violation("marshal/input-modified/"+kind, fmt.Sprintf("%v: the value differs from the deep copy made before xml.Marshal: %s", c, osmeq.Diff(before, v)), c)
	}
	again, err2 := safeMarshal(v, indent)
	if err2 != nil || !bytes.Equal(data, again) {
		r.Violation("marshal/not-repeatable/"+kind, fmt.Sprintf("%v: second xml.Marshal of the same value: err=%v\n%s\nvs\n%s", c, err2, clip(string(again), 600), clip(string(data), 600)), c)
	}
	return data, nil
}

// byValue marshals the value v points to as a plain, non-addressable value
// (xml.Marshal(note) instead of xml.Marshal(&note)): encoding/xml then only
// finds value-receiver marshalers, and the text must not depend on it.
func byValue(r *kit.Run, c Case, kind string, v interface{}, data []byte, indent bool) {
	rv := reflect.ValueOf(v)
	if rv.Kind() != reflect.Ptr || rv.IsNil() {
		return
	}
	data2, err := safeMarshal(rv.Elem().Interface(), indent)
	if err != nil {
		r.Violation(errClause("marshal", err)+"/by-value/"+kind, fmt.Sprintf("%v: marshalling the value instead of the pointer: %v", c, err), c)
		return
	}
	if !bytes.Equal(data, data2) {
		r.Violation("marshal/by-value-differs/"+kind, fmt.Sprintf("%v: xml.Marshal(value) differs from xml.Marshal(&value):\n%s\nvs\n%s", c, clip(string(data2), 600), clip(string(data), 600)), c)
	}
}

func safeMarshal(v interface{}, indent bool) (data []byte, err error) {
	defer func() {
		if p := recover(); p != nil {
			err = panicErr{fmt.Sprint(p)}
		}
	}()
	if indent {
		return xml.MarshalIndent(v, "", " ")
	}
	return xml.Marshal(v)
}

func safeUnmarshal(data []byte, v interface{}) (err error) {
	defer func() {
		if p := recover(); p != nil {
			err = panicErr{fmt.Sprint(p)}
		}
	}()
	return xml.Unmarshal(data, v)
}

func safeScan(sc *osmxml.Scanner, pan *string) (ok bool) {
	defer func() {
		if p := recover(); p != nil {
			*pan = fmt.Sprint(p)
			ok = false
		}
	}()
	return sc.Scan()
}

func main() {
	kit.Main("C04", "exploration", func(r *kit.Run) {
		r.Rule("complete mixed-radix products per family (per-kind presence lattices of every field incl. annotations; " +
			"nested nd/update/member/comment lattices; every string position x text class; OSM over every subset of the 7 kinds x root attribute subsets; " +
			"Change over {nil,empty,elements,bounds,elements+bounds}^3; Diff over type x direct x old x new, singly and in pairs; boundary ids (-1, int32 limits, 2^31, 2^40, 2^40+1, 2^44+5, 2^62) x node/way/relation x {element id, refs, changeset ids, all} x {standalone, OSM, each Change block, bare/old+new of each Diff action type}). " +
			"Boundary families (boundary.go): every id / int / float / time / note-date / string leaf of the complete object of each kind x the class alphabet " +
			"(ids 0,+-1,127,128,2^31-1,2^31,2^32,2^40-1,+-2^40,2^53+1,int64 limits; ints also 65535/65536; floats 0,-0,+-90,+-180,1e-7,0.1+0.2,1e21,1e-5,2^53+1,+-MaxFloat64,5e-324; " +
			"times zero,year 0,1969,1970,CommitInfoStart-1s/+0/+1ns,2038,2262-04-11T23:47:16.854775807Z,2262-04-12,2500,9999, fractions of 1/2/6/9 digits; 11 further text classes incl. >64 KiB, white space only, NEL/LS/BOM, plane limits) " +
			"standalone and between neighbours in an <osm>; every string at once per text class; every list reversed / doubled; aliased pointers; pointers to zero values; zero objects in every container position; " +
			"lists of ~2400 (quick) / ~40000 (thorough); Diff without actions; MarshalIndent for objects, Change and Diff; the id-range family also takes 0, 1, 2^31-1, 2^32, 2^40-1, -2^40, 2^53+1 and the int64 limits. " +
			"regen clause: Unmarshal(Marshal(decoded value)) equals the original value (every 11th point of the big lattices in the quick tier, all in thorough). " +
			"A case is non-trivial when its marshalled text differs from the zero value's; distinct = distinct (family, marshalled text).")
		r.Assume("encoding/xml (standard library) is trusted as the tokenizer of the output and as the engine the library's struct tags run on")
		r.Assume("expected values are the enumerated Go values themselves; equality is gen/osmeq (nil==empty, instants, empty discussion==absent)")
		fs := families(r.Quick())
		if r.ReplayPath != "" {
			var c Case
			r.LoadReplay(&c)
			if c.Tier != "" {
				fs = families(c.Tier == "quick")
			}
			for _, f := range fs {
				if f.name == c.Family {
					if c.Index < 0 || c.Index >= f.n {
						kit.Fatalf("replay index %d outside family %s (%d cases) in this tier", c.Index, f.name, f.n)
					}
					f.run(r, c)
					return
				}
			}
			kit.Fatalf("replay: unknown family %q", c.Family)
		}
		sizes := map[string]int{}
		total := 0
		starts := make([]int, len(fs))
		for i, f := range fs {
			starts[i] = total
			total += f.n
			sizes[f.name] = f.n
		}
		r.Set("family_sizes", sizes)
		r.Par(total, func(i int) {
			k := len(fs) - 1
			for starts[k] > i {
				k--
			}
			fs[k].run(r, Case{Family: fs[k].name, Index: i - starts[k], Tier: r.Tier})
		})
	})
}
