//go:build verif

package main

// The late-child family and what the boundary audit built on top of it: more
// child history kinds, relation parents over members of all kinds, parent
// lists other than [P1, P2], wide ids, custom datasources; and the polygon
// relation family (rings joined from several ways).

import (
	"time"

	"github.com/paulmach/osm"
)

// lateKinds: what the history of one child of the late-child family looks like
// relative to the two parent versions (stamped P1 < P2). The first seven are
// the pre-audit alphabet (baseKinds).
var lateKinds = []string{"normal", "starts-after-P1", "starts-after-P2", "deleted-between-P1-and-P2", "no-history", "two-versions-same-second-after-P1", "forward-grouped-with-P1",
	// boundary audit
	"empty-history", "only-a-deleted-version", "version-stamped-exactly-P1", "history-stored-unsorted", "version-gaps-up-to-70000", "version-exactly-threshold-before-P2"}

const baseKinds = 7

// lateSpec describes one input of the late-child family.
type lateSpec struct {
	kinds []int
	// committed > 0 stamps a commit time (timestamp + 20 s) on SOME versions
	// only - pattern 1: child versions with (version + child) even and the first
	// parent version; pattern 2: every version of the first child and the second
	// parent version; pattern 3: odd versions of every child, no parent; pattern
	// 4 (era): the history starts in March 2012 and exactly the versions stamped
	// at or after osm.CommitInfoStart (2012-09-12) have a commit time, P1 lies
	// before and P2 after it - what real history files look like. Histories that
	// mix versions with and without a commit time are unusual and valid.
	committed int
	// idBase: child c has the id idBase + c + 1 (ids up to the 40 ref bits of
	// osm.FeatureID, the key type of the child map)
	idBase int64
	// plist: the parent list handed to the call (parentLists)
	plist int
	// rel != "": the parent is a relation with this type tag; its members cycle
	// through way (role outer, a small closed ring whose direction alternates
	// with the version), node and relation
	rel string
	ds  dsMode
}

// parentLists: the parent versions handed to one call. P1 (day 100), P2 (day
// 200) are the two versions of the pre-audit family; Pdel is a deleted version
// between them (P2 then is version 3), P3 a third version (day 300, child list
// reversed), Q1/Q2 (days 110, 210) versions of ANOTHER parent over the same
// children in reverse order. The API documents the list as the versions of one
// element, oldest first; what the other lists mean is not judged here, only
// that the call is a function of its input and sorts its update lists.
var parentLists = []string{"P1,P2", "P1", "P2", "P2,P1", "P1,P1(same object)", "P1,P1(copy)", "P1,Pdel,P2", "P1,Pdel(children still listed),P2", "P1,P2,P3", "P1,P3", "P1,Q1,P2,Q2", "P1,P2,Q1,Q2"}

func lateChild(kinds []int) input { return late(lateSpec{kinds: kinds}) }

func lateChildCommitted(kinds []int, committed int) input {
	return late(lateSpec{kinds: kinds, committed: committed})
}

func (s lateSpec) childID(c int) osm.FeatureID {
	ref := s.idBase + int64(c) + 1
	if s.rel == "" {
		return osm.NodeID(ref).FeatureID()
	}
	switch c % 3 {
	case 0:
		return osm.WayID(ref).FeatureID()
	case 1:
		return osm.NodeID(ref).FeatureID()
	}
	return osm.RelationID(ref).FeatureID()
}

func (s lateSpec) children() []osm.FeatureID {
	out := make([]osm.FeatureID, len(s.kinds))
	for c := range s.kinds {
		out[c] = s.childID(c)
	}
	return out
}

// ver is one child version before it is rendered as a node, way or relation.
type ver struct {
	v       int
	t       time.Time
	visible bool
	cs      osm.ChangesetID // 0: 100*(child+1) + v
}

func late(s lateSpec) input {
	return func() (osm.Ways, osm.Relations, osm.HistoryDatasourcer) {
		base := time.Date(2011, 1, 1, 0, 0, 0, 0, time.UTC)
		if s.committed == 4 {
			base = time.Date(2012, 3, 1, 0, 0, 0, 0, time.UTC) // day 100 = 9 June, day 195 = 12 September, day 200 = 17 September 2012
		} else if s.committed > 0 {
			base = time.Date(2014, 1, 1, 0, 0, 0, 0, time.UTC) // commit times before osm.CommitInfoStart (2012-09-12) are ignored by the library
		}
		d := func(day int) time.Time { return base.AddDate(0, 0, day) }
		ds := &osm.HistoryDatasource{Nodes: map[osm.NodeID]osm.Nodes{}, Ways: map[osm.WayID]osm.Ways{}, Relations: map[osm.RelationID]osm.Relations{}}
		p1, p2 := d(100), d(200)
		for c, k := range s.kinds {
			id := s.childID(c)
			stampChild := func(v int, t time.Time) *time.Time {
				if (s.committed == 1 && (v+c)%2 == 0) || (s.committed == 2 && c == 0) || (s.committed == 3 && v%2 == 1) || (s.committed == 4 && !t.Before(osm.CommitInfoStart)) {
					ct := t.Add(20 * time.Second)
					return &ct
				}
				return nil
			}
			mk := func(v int, t time.Time, visible bool) ver { return ver{v: v, t: t, visible: visible} }
			var vs []ver
			missing := false
			switch lateKinds[k] {
			case "normal":
				vs = []ver{mk(1, d(10+c), true), mk(2, d(120+c), true), mk(3, d(150+c), true), mk(4, d(250+c), true)}
			case "starts-after-P1":
				vs = []ver{mk(1, d(130+c), true), mk(2, d(160+c), true), mk(3, d(260+c), true)}
			case "starts-after-P2":
				vs = []ver{mk(1, d(230+c), true), mk(2, d(270+c), true)}
			case "deleted-between-P1-and-P2":
				vs = []ver{mk(1, d(20+c), true), mk(2, d(140+c), false), mk(3, d(170+c), true), mk(4, d(280+c), true)}
			case "no-history":
				missing = true
			case "forward-grouped-with-P1":
				// first version written by P1's own upload, stamped 10 s after the parent:
				// only the same-changeset forward grouping (inside the threshold) finds it
				n1 := mk(1, p1.Add(10*time.Second), true)
				n1.cs = 50
				vs = []ver{n1, mk(2, d(150+c), true), mk(3, d(255+c), true)}
			case "two-versions-same-second-after-P1":
				vs = []ver{mk(1, d(30+c), true), mk(2, d(135), true), mk(3, d(135), true), mk(4, d(290+c), true)}
			case "empty-history":
				// the datasource knows the child and has no version of it
			case "only-a-deleted-version":
				// redacted data: a single deleted version
				vs = []ver{mk(1, d(40+c), false)}
			case "version-stamped-exactly-P1":
				// somebody else's version with exactly the parent's timestamp
				vs = []ver{mk(1, d(15+c), true), mk(2, p1, true), mk(3, d(155+c), true), mk(4, d(265+c), true)}
			case "history-stored-unsorted":
				vs = []ver{mk(3, d(150+c), true), mk(1, d(10+c), true), mk(4, d(250+c), true), mk(2, d(120+c), true)}
			case "version-gaps-up-to-70000":
				// versions need not start at 1 or be sequential
				vs = []ver{mk(3, d(12+c), true), mk(4, d(125+c), true), mk(9, d(145+c), true), mk(70000, d(245+c), true)}
			case "version-exactly-threshold-before-P2":
				vs = []ver{mk(1, d(25+c), true), mk(2, p2.Add(-30*time.Minute), true), mk(3, d(275+c), true)}
			}
			if missing {
				continue
			}
			switch id.Type() {
			case osm.TypeNode:
				l := osm.Nodes{}
				for _, x := range vs {
					cs := x.cs
					if cs == 0 {
						cs = osm.ChangesetID(100*(c+1) + x.v)
					}
					l = append(l, &osm.Node{ID: id.NodeID(), Version: x.v, Visible: x.visible, ChangesetID: cs, Timestamp: x.t, Lat: float64(x.v % 90), Lon: float64(c + 1), Committed: stampChild(x.v, x.t)})
				}
				ds.Nodes[id.NodeID()] = l
			case osm.TypeWay:
				l := osm.Ways{}
				for _, x := range vs {
					cs := x.cs
					if cs == 0 {
						cs = osm.ChangesetID(100*(c+1) + x.v)
					}
					w := &osm.Way{ID: id.WayID(), Version: x.v, Visible: x.visible, ChangesetID: cs, Timestamp: x.t, Committed: stampChild(x.v, x.t)}
					if x.visible {
						w.Nodes = ringNodes(int64(1000*(c+1)), float64(10*c), float64(10*c), 1+float64(x.v%7)/10, x.v%2 == 0)
					}
					l = append(l, w)
				}
				ds.Ways[id.WayID()] = l
			case osm.TypeRelation:
				l := osm.Relations{}
				for _, x := range vs {
					cs := x.cs
					if cs == 0 {
						cs = osm.ChangesetID(100*(c+1) + x.v)
					}
					l = append(l, &osm.Relation{ID: id.RelationID(), Version: x.v, Visible: x.visible, ChangesetID: cs, Timestamp: x.t, Committed: stampChild(x.v, x.t)})
				}
				ds.Relations[id.RelationID()] = l
			}
		}
		// parent versions
		type pver struct {
			id      int64
			v       int
			cs      osm.ChangesetID
			t       time.Time
			visible bool
			refs    []int
			same    int // >= 0: the very object at this position of the list
			stamp   bool
		}
		fwd := make([]int, 0, len(s.kinds)+1)
		for c := range s.kinds {
			fwd = append(fwd, c)
		}
		fwd = append(fwd, 0) // the first child closes the list: one child at two indexes
		rev := make([]int, len(fwd))
		for i, c := range fwd {
			rev[len(fwd)-1-i] = c
		}
		era := func(t time.Time) bool { return s.committed == 4 && !t.Before(osm.CommitInfoStart) }
		P1 := pver{id: 7, v: 1, cs: 50, t: p1, visible: true, refs: fwd, same: -1, stamp: s.committed == 1 || era(p1)}
		P2 := pver{id: 7, v: 2, cs: 60, t: p2, visible: true, refs: fwd, same: -1, stamp: s.committed == 2 || era(p2)}
		Pdel := pver{id: 7, v: 2, cs: 55, t: d(150), visible: false, same: -1, stamp: era(d(150))}
		P2v3 := P2
		P2v3.v = 3
		P3 := pver{id: 7, v: 3, cs: 70, t: d(300), visible: true, refs: rev, same: -1, stamp: era(d(300))}
		Q1 := pver{id: 8, v: 1, cs: 51, t: d(110), visible: true, refs: rev, same: -1, stamp: era(d(110))}
		Q2 := pver{id: 8, v: 2, cs: 61, t: d(210), visible: true, refs: rev, same: -1, stamp: era(d(210))}
		var list []pver
		switch parentLists[s.plist] {
		case "P1,P2":
			list = []pver{P1, P2}
		case "P1":
			list = []pver{P1}
		case "P2":
			list = []pver{P2}
		case "P2,P1":
			list = []pver{P2, P1}
		case "P1,P1(same object)":
			dup := P1
			dup.same = 0
			list = []pver{P1, dup}
		case "P1,P1(copy)":
			list = []pver{P1, P1}
		case "P1,Pdel,P2":
			list = []pver{P1, Pdel, P2v3}
		case "P1,Pdel(children still listed),P2":
			Pdel.refs = fwd
			list = []pver{P1, Pdel, P2v3}
		case "P1,P2,P3":
			list = []pver{P1, P2, P3}
		case "P1,P3":
			list = []pver{P1, P3}
		case "P1,Q1,P2,Q2":
			list = []pver{P1, Q1, P2, Q2}
		case "P1,P2,Q1,Q2":
			list = []pver{P1, P2, Q1, Q2}
		}
		var ways osm.Ways
		var rels osm.Relations
		for _, p := range list {
			var ct *time.Time
			if p.stamp {
				x := p.t.Add(20 * time.Second)
				ct = &x
			}
			if s.rel == "" {
				if p.same >= 0 {
					ways = append(ways, ways[p.same])
					continue
				}
				w := &osm.Way{ID: osm.WayID(p.id), Version: p.v, Visible: p.visible, ChangesetID: p.cs, Timestamp: p.t, Committed: ct}
				for _, c := range p.refs {
					w.Nodes = append(w.Nodes, osm.WayNode{ID: s.childID(c).NodeID()})
				}
				ways = append(ways, w)
				continue
			}
			if p.same >= 0 {
				rels = append(rels, rels[p.same])
				continue
			}
			r := &osm.Relation{ID: osm.RelationID(p.id + 63), Version: p.v, Visible: p.visible, ChangesetID: p.cs, Timestamp: p.t, Committed: ct, Tags: osm.Tags{{Key: "type", Value: s.rel}}}
			for _, c := range p.refs {
				id := s.childID(c)
				m := osm.Member{Type: id.Type(), Ref: id.Ref()}
				switch id.Type() {
				case osm.TypeWay:
					m.Role = "outer"
				case osm.TypeNode:
					m.Role = "label"
				default:
					m.Role = "subarea"
				}
				r.Members = append(r.Members, m)
			}
			rels = append(rels, r)
		}
		// a growing datasource first knows what existed five days after P2
		return ways, rels, wrapDS(ds, s.ds, s.children(), d(205))
	}
}

// ringNodes: annotated nodes of a closed square way (ids base..base+3).
func ringNodes(base int64, x, y, size float64, cw bool) osm.WayNodes {
	pts := [][2]float64{{0, 0}, {size, 0}, {size, size}, {0, size}, {0, 0}}
	if cw {
		pts = [][2]float64{{0, 0}, {0, size}, {size, size}, {size, 0}, {0, 0}}
	}
	var out osm.WayNodes
	for i, p := range pts {
		out = append(out, osm.WayNode{ID: osm.NodeID(base + int64(i%4)), Version: 1, ChangesetID: 9, Lon: x + p[0] + 1, Lat: y + p[1] + 1})
	}
	return out
}

// ---- polygon relations whose rings are joined from several ways ----

var polyShapes = []string{
	"outer=2 open ways, inner ring, label node",
	"outer=3 open ways (one against the direction), inner ring",
	"outer=2 open ways (one without history), inner ring, label node",
	"outer=2 open ways (the first listed twice), inner ring, label node",
	"outer=2 open ways carrying update lists, inner ring, label node",
	"outer=2 open ways, inner ring with a deleted version between the relation versions, label node",
	"outer=3 open ways (one against the direction), inner ring, label node",
}

// polyChildren lists the distinct children of a polygon shape (the positions
// the child filter masks and the failing datasource refer to).
func polyChildren(shape int) []osm.FeatureID {
	w := func(id int64) osm.FeatureID { return osm.WayID(id).FeatureID() }
	n11 := osm.NodeID(11).FeatureID()
	switch shape {
	case 1:
		return []osm.FeatureID{w(11), w(12), w(13), w(14)}
	case 6:
		return []osm.FeatureID{w(11), w(12), w(13), w(14), n11}
	}
	return []osm.FeatureID{w(11), w(12), w(14), n11}
}

// polyRel: multipolygon (or boundary) relation 60, two versions (days 100 and
// 200), over open ways that only together form the outer ring, an inner ring
// and a label node sharing its number with a way. Every child way has three
// versions (days 10, 150, 250); version 2 runs the other way round (a reversal
// by endpoints). commit: every version carries a commit time (2014) or none
// does (2011, grouping by timestamps). layout permutes the member list.
func polyRel(shape, layout int, typ string, commit bool, m dsMode) input {
	return func() (osm.Ways, osm.Relations, osm.HistoryDatasourcer) {
		year := 2011
		if commit {
			year = 2014
		}
		d := func(day int) time.Time { return time.Date(year, 1, 1, 0, 0, 0, 0, time.UTC).AddDate(0, 0, day) }
		ct := func(t time.Time) *time.Time {
			if !commit {
				return nil
			}
			x := t.Add(5 * time.Second)
			return &x
		}
		type pt struct {
			id       int64
			lon, lat float64
		}
		A, B, C, D := pt{201, 0, 0}, pt{202, 4, 0}, pt{203, 4, 4}, pt{204, 0, 4}
		ds := &osm.HistoryDatasource{Nodes: map[osm.NodeID]osm.Nodes{}, Ways: map[osm.WayID]osm.Ways{}, Relations: map[osm.RelationID]osm.Relations{}}
		line := func(id int64, withUpdates bool, pts ...pt) {
			var l osm.Ways
			for v := 1; v <= 3; v++ {
				t := d([]int{10, 150, 250}[v-1] + int(id-11))
				w := &osm.Way{ID: osm.WayID(id), Version: v, Visible: true, ChangesetID: osm.ChangesetID(300 + id*10 + int64(v)), Timestamp: t, Committed: ct(t)}
				for i := range pts {
					p := pts[i]
					if v == 2 {
						p = pts[len(pts)-1-i]
					}
					w.Nodes = append(w.Nodes, osm.WayNode{ID: osm.NodeID(p.id), Version: 1, ChangesetID: 9, Lon: p.lon + 1, Lat: p.lat + 1})
				}
				if withUpdates && len(pts) > 2 {
					// the middle node moved twice before the next way version: annotated minor versions
					for k := 1; k <= 2; k++ {
						ut := t.Add(time.Duration(k) * 48 * time.Hour)
						w.Updates = append(w.Updates, osm.Update{Index: 1, Version: 1 + k, Timestamp: ut, ChangesetID: osm.ChangesetID(700 + k), Lon: w.Nodes[1].Lon + float64(k)/4, Lat: w.Nodes[1].Lat - float64(k)/4})
					}
				}
				l = append(l, w)
			}
			ds.Ways[osm.WayID(id)] = l
		}
		upd := shape == 4
		members := osm.Members{}
		add := func(t osm.Type, ref int64, role string) {
			members = append(members, osm.Member{Type: t, Ref: ref, Role: role})
		}
		switch shape {
		case 1, 6:
			line(11, upd, A, B)
			line(12, upd, C, B)
			line(13, upd, C, D, A)
			add(osm.TypeWay, 11, "outer")
			add(osm.TypeWay, 12, "outer")
			add(osm.TypeWay, 13, "outer")
		default:
			line(11, upd, A, B, C)
			line(12, upd, C, D, A)
			add(osm.TypeWay, 11, "outer")
			add(osm.TypeWay, 12, "outer")
		}
		// inner ring, clockwise in versions 1 and 3
		line(14, false, pt{211, 1, 1}, pt{212, 1, 2}, pt{213, 2, 2}, pt{214, 2, 1}, pt{211, 1, 1})
		add(osm.TypeWay, 14, "inner")
		if shape != 1 {
			ds.Nodes[11] = osm.Nodes{
				{ID: 11, Version: 1, Visible: true, ChangesetID: 411, Timestamp: d(20), Committed: ct(d(20)), Lat: 2.5, Lon: 2.5},
				{ID: 11, Version: 2, Visible: true, ChangesetID: 421, Timestamp: d(160), Committed: ct(d(160)), Lat: 2.75, Lon: 2.5}}
			add(osm.TypeNode, 11, "label")
		}
		switch shape {
		case 2:
			delete(ds.Ways, 12)
		case 3:
			add(osm.TypeWay, 11, "outer")
		case 5:
			l := ds.Ways[14]
			t := d(140)
			l[1] = &osm.Way{ID: 14, Version: 2, Visible: false, ChangesetID: 442, Timestamp: t, Committed: ct(t)}
			l[2].Timestamp, l[2].Committed = d(170), ct(d(170))
		}
		n := len(members)
		perm := make([]int, n)
		for i := range perm {
			switch layout {
			case 0:
				perm[i] = i
			case 1:
				perm[i] = n - 1 - i
			default:
				perm[i] = (i*2 + 1) % n // n odd: a permutation; n even: fixed below
			}
		}
		if layout >= 2 && n%2 == 0 {
			// inner first, then the outer ways from the last to the first, the rest
			for i := range perm {
				perm[i] = (i + n/2) % n
			}
		}
		mk := func(v int, t time.Time) *osm.Relation {
			r := &osm.Relation{ID: 60, Version: v, Visible: true, ChangesetID: osm.ChangesetID(600 + v), Timestamp: t, Committed: ct(t), Tags: osm.Tags{{Key: "type", Value: typ}}}
			for _, i := range perm {
				r.Members = append(r.Members, members[i])
			}
			return r
		}
		return nil, osm.Relations{mk(1, d(100)), mk(2, d(200))}, wrapDS(ds, m, polyChildren(shape))
	}
}

func kindsOf(code, c, alphabet int) []int {
	kinds := make([]int, c)
	for i := range kinds {
		kinds[i] = code % alphabet
		code /= alphabet
	}
	return kinds
}

func pow(b, e int) int {
	n := 1
	for i := 0; i < e; i++ {
		n *= b
	}
	return n
}
