//go:build verif

package main

// Families added by the boundary audit of C12. Everything here is judged by the
// same oracle as the older families: every map order gives the canonical-order
// result (or all fail), and every update list is sorted by (index, timestamp,
// version).

import (
	"fmt"
	"os"
	"time"

	"github.com/paulmach/osm"
	"github.com/paulmach/osm/annotate"

	"verif/engine/vexplore"
	"verif/gen/histsim"
	"verif/kit"
)

var noFail = dsMode{fail: -1}

// cancelledPlan: one call with a context that is already cancelled.
func cancelledPlan() plan {
	return plan{name: "context-already-cancelled", calls: []call{{opts: func() []annotate.Option { return nil }, cancelled: true}}}
}

func auditFamilies(r *kit.Run, add func(vexplore.Scenario), gens *[]vexplore.Generator, counts map[string]int) {
	quick := r.Quick()
	nk := len(lateKinds)
	n := 0
	count := func(key string) {
		counts[key] = n
		n = 0
	}
	put := func(s vexplore.Scenario) {
		add(s)
		n++
	}

	// (A) the late-child histories under option sets nobody passes: zero,
	// negative and very large thresholds, both ignore options at the default
	// threshold, options given twice, a child filter on a first call
	for c := 2; c <= 3; c++ {
		for code := 0; code < pow(nk, c); code++ {
			kinds := kindsOf(code, c, nk)
			for opt := 4; opt <= 10; opt++ {
				if quick && c == 3 && opt != 4+code%7 {
					continue
				}
				put(scenario(fmt.Sprintf("late-child kinds=%v", kinds), fmt.Sprintf("late-child-options/%d-children", c), c, lateChild(kinds), opt))
			}
		}
	}
	if !quick {
		// four children (24 orders) over the pre-audit kinds
		for code := 0; code < pow(baseKinds, 4); code++ {
			kinds := kindsOf(code, 4, baseKinds)
			for _, opt := range []int{0, 1, 5} {
				put(scenario(fmt.Sprintf("late-child kinds=%v", kinds), "late-child-options/4-children", 4, lateChild(kinds), opt))
			}
		}
	}
	count("late-child-options")

	// (B) relation parents over members of all kinds (way = closed ring with
	// role outer, node, relation) with the late-child history kinds; the type
	// tag decides whether member orientation is computed
	for c := 2; c <= 3; c++ {
		for code := 0; code < pow(nk, c); code++ {
			kinds := kindsOf(code, c, nk)
			for ti, typ := range []string{"multipolygon", "site"} {
				for oi, opt := range []int{0, 1, 3, 5} {
					if quick && c == 3 && (oi != code%4 || ti != (code/4)%2) {
						continue
					}
					put(scenario(fmt.Sprintf("late-members type=%s kinds=%v", typ, kinds), fmt.Sprintf("late-members/%d-children", c), c, late(lateSpec{kinds: kinds, rel: typ}), opt))
				}
			}
			if c == 2 || !quick {
				// the era pattern: commit times exactly on the versions after osm.CommitInfoStart
				for _, opt := range []int{0, 5} {
					put(scenario(fmt.Sprintf("late-members type=boundary committed-from-2012-09-12 kinds=%v", kinds), fmt.Sprintf("late-members/%d-children", c), c, late(lateSpec{kinds: kinds, rel: "boundary", committed: 4}), opt))
				}
			}
		}
	}
	count("late-members")

	// (C) parent lists other than [P1, P2]: one version, reversed, the same
	// object twice, an equal copy, a deleted version in between, three versions,
	// a version skipped, versions of two different parents in one call
	for c := 2; c <= 3; c++ {
		alphabet := nk
		if c == 3 {
			alphabet = baseKinds
		}
		for code := 0; code < pow(alphabet, c); code++ {
			kinds := kindsOf(code, c, alphabet)
			for pl := 1; pl < len(parentLists); pl++ {
				if quick && c == 3 && pl != 1+code%(len(parentLists)-1) {
					continue
				}
				for _, opt := range []int{0, 5} {
					put(scenario(fmt.Sprintf("parent-list [%s] kinds=%v", parentLists[pl], kinds), fmt.Sprintf("parent-lists/%d-children", c), c, late(lateSpec{kinds: kinds, plist: pl}), opt))
				}
				if c == 2 {
					put(scenario(fmt.Sprintf("parent-list [%s] committed-from-2012-09-12 kinds=%v", parentLists[pl], kinds), "parent-lists/2-children", c, late(lateSpec{kinds: kinds, plist: pl, committed: 4}), 5))
					put(scenario(fmt.Sprintf("parent-list [%s] relation type=multipolygon kinds=%v", parentLists[pl], kinds), "parent-lists/2-children", c, late(lateSpec{kinds: kinds, plist: pl, rel: "multipolygon"}), 5))
				}
			}
		}
	}
	count("parent-lists")

	// (D) custom datasources: the plain interface (own not-found error, fresh
	// copies, newest first), the AsChildren interfaces (cached children), a
	// backend error for one child (every order must fail), a cancelled context
	modes := []dsMode{{kind: 1, fail: -1}, {kind: 2, fail: -1}, {kind: 1, fail: 0}, {kind: 1, fail: 9}, {kind: 2, fail: 1}}
	for c := 2; c <= 3; c++ {
		alphabet := nk
		if c == 3 {
			alphabet = baseKinds
		}
		for code := 0; code < pow(alphabet, c); code++ {
			kinds := kindsOf(code, c, alphabet)
			for mi, m := range modes {
				if m.fail == 9 {
					m.fail = c - 1
				}
				if quick && c == 3 && mi != code%len(modes) {
					continue
				}
				for _, opt := range []int{0, 5} {
					put(scenario(fmt.Sprintf("custom-datasource %s late-child kinds=%v", m, kinds), fmt.Sprintf("custom-datasource/%d-children", c), c, late(lateSpec{kinds: kinds, ds: m}), opt))
				}
				if c == 2 || !quick {
					put(scenario(fmt.Sprintf("custom-datasource %s late-members type=multipolygon kinds=%v", m, kinds), fmt.Sprintf("custom-datasource/%d-children", c), c, late(lateSpec{kinds: kinds, ds: m, rel: "multipolygon"}), 5))
				}
			}
		}
	}
	for code := 0; code < pow(baseKinds, 2); code++ {
		kinds := kindsOf(code, 2, baseKinds)
		for kind := 1; kind <= 2; kind++ {
			m := dsMode{kind: kind, fail: -1, honourCtx: true}
			put(scenarioP(fmt.Sprintf("custom-datasource %s late-child kinds=%v", m, kinds), "custom-datasource/2-children", late(lateSpec{kinds: kinds, ds: m}), cancelledPlan()))
		}
	}
	count("custom-datasource")

	// (E) call sequences on one set of parents and one datasource
	// E1: a first call that ignores inconsistencies (children stay unannotated),
	// then the incremental call with a child filter over every subset
	for c := 2; c <= 3; c++ {
		alphabet := nk
		if c == 3 {
			alphabet = baseKinds
		}
		for code := 0; code < pow(alphabet, c); code++ {
			kinds := kindsOf(code, c, alphabet)
			sp := lateSpec{kinds: kinds}
			for mask := 0; mask < 1<<uint(c); mask++ {
				if quick && c == 3 && mask != code%8 {
					continue
				}
				firsts := []int{1, 5}
				if c == 3 {
					firsts = []int{5}
				}
				for _, first := range firsts {
					put(scenarioP(fmt.Sprintf("sequence late-child kinds=%v", kinds), fmt.Sprintf("call-sequences/%d-children", c), late(sp), seqPlan(first, false, 5, sp.children(), mask)))
				}
				if c == 2 || !quick {
					// the threshold changes between two successful calls
					for _, second := range []int{4, 7} {
						put(scenarioP(fmt.Sprintf("sequence late-child kinds=%v", kinds), fmt.Sprintf("call-sequences/%d-children", c), late(sp), seqPlan(5, false, second, sp.children(), mask)))
					}
				}
			}
			// E2: a call that may fail (default options), then a call that recomputes
			// every child under the same threshold; and the same call twice
			for _, second := range []int{0, 5} {
				if quick && c == 3 && second != []int{0, 5}[code%2] {
					continue
				}
				put(scenarioP(fmt.Sprintf("sequence late-child kinds=%v", kinds), fmt.Sprintf("call-sequences/%d-children", c), late(sp), seqPlan(0, true, second, nil, 0)))
			}
		}
	}
	// E3: relation parents: polygon relations annotated, then annotated again
	// with a child filter over every subset of their children (typed members)
	for shape := range polyShapes {
		if len(polyChildren(shape)) > 4 {
			continue
		}
		for _, first := range []int{0, 5} {
			if quick && !((shape == 0 || shape == 3) && first == 0 || shape == 5 && first == 5) {
				continue
			}
			ch := polyChildren(shape)
			for mask := 0; mask < 1<<uint(len(ch)); mask++ {
				put(scenarioP(fmt.Sprintf("sequence polygon-relation shape=%q", polyShapes[shape]), "call-sequences/4-children", polyRel(shape, 0, "multipolygon", true, noFail), seqPlan(first, false, 5, ch, mask)))
			}
		}
	}
	for c := 2; c <= 3; c++ {
		for code := 0; code < pow(baseKinds, c); code++ {
			if c == 3 && quick && code != 0 {
				continue
			}
			kinds := kindsOf(code, c, baseKinds)
			sp := lateSpec{kinds: kinds, rel: "multipolygon"}
			for mask := 0; mask < 1<<uint(c); mask++ {
				put(scenarioP(fmt.Sprintf("sequence late-members type=multipolygon kinds=%v", kinds), fmt.Sprintf("call-sequences/%d-children", c), late(sp), seqPlan(5, false, 5, sp.children(), mask)))
			}
		}
	}
	// E4: the incremental workflow over custom datasources (the second call is
	// served the cached children of the first)
	for c := 2; c <= 3; c++ {
		for _, kinds := range [][]int{make([]int, c), kindsOf(5+7*3, c, baseKinds)} {
			for kind := 1; kind <= 2; kind++ {
				sp := lateSpec{kinds: kinds, ds: dsMode{kind: kind, fail: -1}}
				for mask := 0; mask < 1<<uint(c); mask++ {
					put(scenarioP(fmt.Sprintf("sequence %s late-child kinds=%v", sp.ds, kinds), fmt.Sprintf("call-sequences/%d-children", c), late(sp), seqPlan(5, false, 5, sp.children(), mask)))
				}
			}
		}
	}
	// E5: three calls (default, filtered, filtered) over every pair of subsets
	for c := 2; c <= 3; c++ {
		for ki, kinds := range [][]int{make([]int, c), kindsOf(5+7*3, c, baseKinds)} {
			if quick && c == 3 && ki > 0 {
				continue
			}
			sp := lateSpec{kinds: kinds}
			for m1 := 0; m1 < 1<<uint(c); m1++ {
				for m2 := 0; m2 < 1<<uint(c); m2++ {
					put(scenarioP(fmt.Sprintf("sequence late-child kinds=%v", kinds), fmt.Sprintf("call-sequences/%d-children", c), late(sp), seq3Plan(5, sp.children(), m1, m2, false)))
				}
			}
		}
	}
	// E6: the incremental workflow proper: the first call sees the histories as
	// they were five days after P2, then the later child versions arrive and the
	// parents are annotated again with a child filter over every subset
	for c := 2; c <= 3; c++ {
		alphabet := nk
		if c == 3 {
			alphabet = baseKinds
		}
		for code := 0; code < pow(alphabet, c); code++ {
			kinds := kindsOf(code, c, alphabet)
			for kind := 1; kind <= 2; kind++ {
				if quick && c == 3 && kind != 1+code%2 {
					continue
				}
				sp := lateSpec{kinds: kinds, ds: dsMode{kind: kind, fail: -1, grow: true}}
				for mask := 0; mask < 1<<uint(c); mask++ {
					if quick && c == 3 && mask != (code/2)%8 {
						continue
					}
					for _, lastOnly := range []bool{false, true} {
						put(scenarioP(fmt.Sprintf("sequence %s late-child kinds=%v", sp.ds, kinds), fmt.Sprintf("call-sequences/%d-children", c), late(sp), growPlan(5, sp.children(), mask, lastOnly)))
					}
				}
			}
		}
	}
	count("call-sequences")

	// (F) polygon relations whose outer ring is joined from several open ways
	for shape := range polyShapes {
		for layout := 0; layout < 3; layout++ {
			for _, typ := range []string{"multipolygon", "boundary"} {
				for _, commit := range []bool{false, true} {
					for _, m := range []dsMode{noFail, {kind: 2, fail: -1}, {kind: 1, fail: 2}} {
						for _, opt := range []int{0, 5} {
							if quick && len(polyChildren(shape)) > 4 && (typ != "multipolygon" || m.kind == 1) {
								continue
							}
							put(scenario(fmt.Sprintf("polygon-relation shape=%q layout=%d type=%s commit-times=%v datasource=%s", polyShapes[shape], layout, typ, commit, m), fmt.Sprintf("polygon-relations/%d-children", len(polyChildren(shape))), len(polyChildren(shape)), polyRel(shape, layout, typ, commit, m), opt))
						}
					}
				}
			}
		}
	}
	count("polygon-relations")

	// (G) stability family: value classes of times, versions and ids; update
	// lists beyond 50 entries; five to seven children
	type shape struct {
		list  []int
		later []int
	}
	for _, sh := range []shape{{[]int{0, 1, 0}, []int{5, 3}}, {[]int{0, 1, 0, 2}, []int{4, 3, 3}}} {
		// Variant 9: every later version of the first child is stored TWICE (equal
		// version and times, different position). The two updates tie on (index,
		// timestamp, version); before fix 30ccca9 (SortByIndex was not stable) the
		// result then depended on the map order as soon as a parent had more than 12
		// updates. C12_NO_DUPLICATE_VERSIONS=1 leaves the variant out.
		nvar := len(stabVariants)
		for variant := 1; variant < nvar; variant++ {
			if variant == 9 && os.Getenv("C12_NO_DUPLICATE_VERSIONS") != "" {
				continue
			}
			for pat := 0; pat < 1<<uint(sh.later[0]); pat++ {
				for _, other := range []int{0, 0b101010, 0b111111} {
					same := make([]int, len(sh.later))
					same[0] = pat
					for c := 1; c < len(same); c++ {
						same[c] = other
					}
					put(scenario(fmt.Sprintf("stability variant=%q list=%v later=%v same=%v", stabVariants[variant], sh.list, sh.later, same), fmt.Sprintf("stability-values/%d-children", len(sh.later)), len(sh.later), stabilityV(sh.list, sh.later, same, variant), 0))
				}
			}
		}
	}
	count("stability-values")
	long := []int{0, 1<<20 - 1, 0x55555, 0xaaaaa, 0x33333, 0xccccc, 0x1c71c7, 0x003ff, 0xffc00, 0x00400, 0x6db6d, 0x12345}
	// (the last three shapes: update lists that cover one child only - one index, or one child at two / three positions)
	for _, sh := range []shape{{[]int{0, 1, 0}, []int{20, 12}}, {[]int{0, 1, 0, 2}, []int{13, 13, 12}}, {[]int{0, 1, 2, 0, 1}, []int{10, 10, 10}}, {[]int{1, 0, 0, 2, 0}, []int{16, 4, 5}},
		{[]int{0}, []int{16}}, {[]int{0, 0}, []int{14}}, {[]int{0, 1, 0}, []int{13, 0}}} {
		for _, variant := range []int{0, 3, 7, 10} {
			for _, pat := range long {
				for oi, other := range []int{0, 0xaaaaa, 1<<20 - 1} {
					if quick && variant != 0 && oi != 1 {
						continue
					}
					same := make([]int, len(sh.later))
					same[0] = pat & (1<<uint(sh.later[0]) - 1)
					for c := 1; c < len(same); c++ {
						same[c] = other & (1<<uint(sh.later[c]) - 1)
					}
					put(scenario(fmt.Sprintf("stability long variant=%q list=%v later=%v same=%v pattern=%x/%x", stabVariants[variant], sh.list, sh.later, same, pat, other), fmt.Sprintf("stability-long/%d-children", len(sh.later)), len(sh.later), stabilityV(sh.list, sh.later, same, variant), 0))
				}
			}
		}
	}
	count("stability-long")
	wide := []shape{{[]int{0, 1, 2, 3, 4, 0}, []int{3, 3, 3, 3, 3}}, {[]int{0, 1, 2, 3, 4, 5, 0}, []int{2, 2, 2, 2, 2, 2}}}
	if !quick {
		wide = append(wide, shape{[]int{0, 1, 2, 3, 4, 5, 6, 0}, []int{2, 2, 2, 1, 1, 1, 1}})
	}
	for _, sh := range wide {
		for pat := 0; pat < 1<<uint(sh.later[0]); pat++ {
			for _, other := range []int{0, 0b111111} {
				if len(sh.later) >= 6 && pat%3 != 0 {
					continue
				}
				same := make([]int, len(sh.later))
				same[0] = pat
				for c := 1; c < len(same); c++ {
					same[c] = other
				}
				put(scenario(fmt.Sprintf("stability list=%v later=%v same=%v", sh.list, sh.later, same), fmt.Sprintf("stability/%d-children", len(sh.later)), len(sh.later), stability(sh.list, sh.later, same), 0))
			}
		}
	}
	count("stability-wide")

	// (I) child ids up to the 40 ref bits of osm.FeatureID (the key of the child map)
	bases := []int64{1<<31 - 2, 1<<32 - 2, 1<<40 - 4} // the first child below, the second at the width change (2^31, 2^32); the largest ids the 40 bits hold
	for c := 2; c <= 3; c++ {
		alphabet := nk
		if c == 3 {
			alphabet = baseKinds
		}
		for code := 0; code < pow(alphabet, c); code++ {
			kinds := kindsOf(code, c, alphabet)
			for bi, b := range bases {
				if quick && c == 3 && bi != code%3 {
					continue
				}
				for _, opt := range []int{0, 5} {
					put(scenario(fmt.Sprintf("wide-ids first-child-id=%d late-child kinds=%v", b+1, kinds), fmt.Sprintf("wide-ids/%d-children", c), c, late(lateSpec{kinds: kinds, idBase: b}), opt))
				}
				if c == 2 {
					put(scenario(fmt.Sprintf("wide-ids first-child-id=%d late-members type=multipolygon kinds=%v", b+1, kinds), "wide-ids/2-children", c, late(lateSpec{kinds: kinds, idBase: b, rel: "multipolygon"}), 5))
				}
			}
		}
	}
	count("wide-ids")

	// (H) history spaces with the value classes of the simulator: members with
	// equal numbers under a multipolygon tag, ids beyond 32 bits with child ways
	// that change direction and versions 2, 5, 8, ..., children at three and more
	// positions with nodes on the equator / prime meridian served as children,
	// histories that cross osm.CommitInfoStart (commit times only from then on)
	type hspace struct {
		label  string
		fam    string
		regime histsim.Regime
		depth  int
		touch2 bool
		cfg    func(*histsim.Space)
		post   func(osm.Ways, osm.Relations, *osm.HistoryDatasource)
		ds     dsMode
		opts   []int
	}
	tagPolygon := func(_ osm.Ways, rels osm.Relations, _ *osm.HistoryDatasource) {
		for _, r := range rels {
			r.Tags = osm.Tags{{Key: "type", Value: "multipolygon"}}
		}
	}
	stripEarly := func(ways osm.Ways, rels osm.Relations, ds *osm.HistoryDatasource) {
		early := func(t *time.Time) bool { return t != nil && t.Before(osm.CommitInfoStart) }
		for _, w := range ways {
			if early(w.Committed) {
				w.Committed = nil
			}
		}
		for _, x := range rels {
			if early(x.Committed) {
				x.Committed = nil
			}
		}
		for _, l := range ds.Nodes {
			for _, x := range l {
				if early(x.Committed) {
					x.Committed = nil
				}
			}
		}
		for _, l := range ds.Ways {
			for _, x := range l {
				if early(x.Committed) {
					x.Committed = nil
				}
			}
		}
		for _, l := range ds.Relations {
			for _, x := range l {
				if early(x.Committed) {
					x.Committed = nil
				}
			}
		}
	}
	hs := []hspace{
		{label: "members-with-equal-numbers+multipolygon-tag", fam: "rel3eq", regime: histsim.CommitTime, depth: 2, post: tagPolygon, ds: noFail, opts: []int{0, 5}},
		{label: "wide-ids+reversing-ways+versions-2-5-8", fam: "rel3big", regime: histsim.CommitTime, depth: 2, cfg: func(s *histsim.Space) { s.ReverseWays, s.FirstVersion, s.VersionStep = true, 2, 3 }, post: tagPolygon, ds: noFail, opts: []int{0, 1}},
		{label: "children-at-3-to-5-positions+zero-coordinates+as-children-datasource", fam: "way2x", regime: histsim.CommitTime, depth: 2, touch2: true, cfg: func(s *histsim.Space) { s.LocMode = histsim.LocZeros }, ds: dsMode{kind: 2, fail: -1}, opts: []int{0, 5}},
		{label: "crossing-CommitInfoStart", fam: "way3", regime: histsim.CommitTime, depth: 2, cfg: func(s *histsim.Space) { s.Start = osm.CommitInfoStart.Add(-2 * time.Hour) }, post: stripEarly, ds: noFail, opts: []int{0, 5}},
		{label: "plain-datasource", fam: "rel3", regime: histsim.PreCommit, depth: 2, ds: dsMode{kind: 1, fail: -1}, opts: []int{0, 5}},
	}
	for _, h := range hs {
		sp := &histsim.Space{Fam: histsim.FamilyByName(h.fam), Regime: h.regime, Depth: h.depth, Touch2: h.touch2, Skews: []int{0}}
		if h.regime == histsim.CommitTime {
			sp.Gaps = []time.Duration{time.Hour}
			if !quick {
				sp.Gaps = []time.Duration{time.Hour, 100 * time.Millisecond}
			}
		} else {
			sp.Gaps = []time.Duration{2 * time.Hour}
			if !quick {
				sp.Gaps = []time.Duration{2 * time.Hour, 0}
			}
			sp.Delta = time.Minute
			sp.Skews = []int{-1, 0, 1}
		}
		if h.cfg != nil {
			h.cfg(sp)
		}
		label := sp.Name() + "/" + h.label
		counts[label] = h.depth
		*gens = append(*gens, historyGeneratorsV(sp, label, h.opts, h.post, h.ds)...)
	}
}
