#!/bin/bash
# C12: the map range in annotate/internal/core/compute.go is put under explorer control (every iteration order).
exec "$(dirname "$0")/../../engine/run_a.sh" C12 "$1" -maprange annotate/internal/core:compute.go -- "${@:2}"
