//go:build verif

// C12 — Annotation is deterministic and orders updates by index, time, version.
//
// Engine A with free choices: the "for fid, locations := range mapChildLocs(...)"
// loop of annotate/internal/core.Compute is rewritten (tools/vinst -maprange) to
// iterate in an order chosen by the explorer, and EVERY iteration order (all n!
// orders of the child map, not only the rotations Go produces) is executed for
// every history of two families and compared with the canonical-order result.
//
// Files: main.go (oracle, call plans, history spaces, stability / shared-refs /
// re-annotate families), families.go (late-child family generalised: history
// kinds, commit-time patterns, relation parents, parent lists, wide ids; polygon
// relations joined from several ways), ds.go (custom datasources), audit.go (the
// families the boundary audit registered). C12_DUMP=<substring of a scenario
// name> C12_DUMP_FILE=<file> appends what matching scenarios annotate in the
// canonical order to the file (debugging aid).
package main

import (
	"context"
	"encoding/xml"
	"fmt"
	"os"
	"sort"
	"strings"
	"time"

	"github.com/paulmach/osm"
	"github.com/paulmach/osm/annotate"
	"github.com/paulmach/osm/vsched"

	"verif/engine/vexplore"
	"verif/gen/histsim"
	"verif/kit"
)

type result struct {
	err   string
	xml   string
	order string // "" or a description of the first update list that is out of order
	nupd  int
}

// input builds fresh parents and a fresh datasource. The datasource is any
// osm.HistoryDatasourcer (annotate.Ways uses its node part): the library's map
// datasource or one of the custom ones of ds.go.
type input func() (ways osm.Ways, rels osm.Relations, ds osm.HistoryDatasourcer)

// option sets the annotation runs under (index into optSets)
var optNames = []string{"default", "ignore-inconsistency", "ignore-missing-children", "ignore-both+threshold",
	// boundary audit: options nobody passes, zero-valued, combined, given twice, a filter on the first call
	"threshold-0", "ignore-both", "options-twice-last-wins", "ignore-both+threshold-150d", "first-call-filter-none", "first-call-filter-first-child+ignore-inconsistency", "ignore-both+negative-threshold"}

// option sets >= reannotate: the parents are annotated once under the default
// options and then AGAIN with ChildFilter selecting the children whose bit is
// set in (i - reannotate) -- the documented incremental workflow; the result
// judged is the one after the second pass.
const reannotate = 100

// option sets >= reannotateByTime: as reannotate, but between the two calls the
// caller re-orders every parent's update list with Updates.SortByTimestamp (a
// public method; nothing that applies updates needs a particular order).
const reannotateByTime = 200

func optName(i int) string {
	if i >= reannotateByTime {
		return fmt.Sprintf("reannotate-after-sort-by-time-with-child-filter-mask=%b", i-reannotateByTime)
	}
	if i >= reannotate {
		return fmt.Sprintf("reannotate-with-child-filter-mask=%b", i-reannotate)
	}
	return optNames[i]
}

func optSet(i int) []annotate.Option {
	if i >= reannotate {
		mask := i - reannotate
		if i >= reannotateByTime {
			mask = i - reannotateByTime
		}
		return []annotate.Option{annotate.ChildFilter(func(fid osm.FeatureID) bool {
			return mask>>uint(fid.Ref()-1)&1 == 1
		})}
	}
	switch i {
	case 1:
		return []annotate.Option{annotate.IgnoreInconsistency(true)}
	case 2:
		return []annotate.Option{annotate.IgnoreMissingChildren(true)}
	case 3:
		return []annotate.Option{annotate.IgnoreInconsistency(true), annotate.IgnoreMissingChildren(true), annotate.Threshold(time.Minute)}
	case 4:
		return []annotate.Option{annotate.Threshold(0)}
	case 5:
		return []annotate.Option{annotate.IgnoreInconsistency(true), annotate.IgnoreMissingChildren(true)}
	case 6:
		return []annotate.Option{annotate.IgnoreInconsistency(false), annotate.IgnoreMissingChildren(true), annotate.Threshold(time.Second), annotate.IgnoreInconsistency(true), annotate.IgnoreMissingChildren(true), annotate.Threshold(10 * time.Minute), annotate.ChildFilter(nil)}
	case 7:
		return []annotate.Option{annotate.IgnoreInconsistency(true), annotate.IgnoreMissingChildren(true), annotate.Threshold(150 * 24 * time.Hour)}
	case 8:
		// nothing is annotated yet: every child is annotated regardless of the filter
		return []annotate.Option{annotate.ChildFilter(func(osm.FeatureID) bool { return false })}
	case 9:
		return []annotate.Option{annotate.IgnoreInconsistency(true), annotate.ChildFilter(func(fid osm.FeatureID) bool { return fid.Ref()&0xff == 1 })}
	case 10:
		return []annotate.Option{annotate.IgnoreInconsistency(true), annotate.IgnoreMissingChildren(true), annotate.Threshold(-time.Minute)}
	}
	return nil
}

// call is one annotate.Ways / annotate.Relations call of a plan.
type call struct {
	opts func() []annotate.Option
	// tolerate: a failure of this (non-final) call does not end the run, the next
	// call runs on the parents as the failed call left them ("a failing call
	// followed by a good one"). Only used where the next call recomputes every
	// child under the same threshold, so that what the failed call left behind
	// cannot legitimately show in the judged result.
	tolerate bool
	// cancelled: the call gets a context that is already cancelled
	cancelled bool
	// advance: before the call a growing datasource (dsMode.grow) receives the
	// rest of the histories
	advance bool
	// lastOnly: the call is handed the newest parent version only (the result
	// judged is still the whole list)
	lastOnly bool
	// byTime: before the call every parent's update list is sorted by time
	byTime bool
}

// plan is the sequence of calls made on one input; the LAST call is judged.
type plan struct {
	name  string // "" for the single default call
	calls []call
}

func optPlan(opt int) plan {
	p := plan{}
	if opt != 0 {
		p.name = optName(opt)
	}
	if opt >= reannotate {
		p.calls = append(p.calls, call{opts: func() []annotate.Option { return nil }})
	}
	p.calls = append(p.calls, call{opts: func() []annotate.Option { return optSet(opt) }, byTime: opt >= reannotateByTime})
	return p
}

// filterOpt selects the children of the list whose bit is set in mask.
func filterOpt(children []osm.FeatureID, mask int) annotate.Option {
	return annotate.ChildFilter(func(fid osm.FeatureID) bool {
		for i, c := range children {
			if c == fid {
				return mask>>uint(i)&1 == 1
			}
		}
		return false
	})
}

// seqPlan: a first call under option set first (failure tolerated or not), then
// - when children is not nil - a call with a ChildFilter over the subset mask
// of the children combined with option set second, else a plain call under
// option set second.
func seqPlan(first int, tolerate bool, second int, children []osm.FeatureID, mask int) plan {
	p := plan{name: fmt.Sprintf("first-call=%s", optName(first))}
	if tolerate {
		p.name += "(may fail)"
	}
	p.calls = append(p.calls, call{opts: func() []annotate.Option { return optSet(first) }, tolerate: tolerate})
	if children != nil {
		p.name += fmt.Sprintf(" then=%s+child-filter-mask=%b", optName(second), mask)
		p.calls = append(p.calls, call{opts: func() []annotate.Option { return append(optSet(second), filterOpt(children, mask)) }})
	} else {
		p.name += " then=" + optName(second)
		p.calls = append(p.calls, call{opts: func() []annotate.Option { return optSet(second) }})
	}
	return p
}

// seq3Plan: default call, then two filtered calls (masks m1, m2 over children)
// under option set opt; advance: the growing datasource advances before the
// second call.
func seq3Plan(opt int, children []osm.FeatureID, m1, m2 int, advance bool) plan {
	p := plan{name: fmt.Sprintf("first-call=%s then=%s+child-filter-mask=%b then=%s+child-filter-mask=%b", optName(opt), optName(opt), m1, optName(opt), m2)}
	if advance {
		p.name += " (new child versions arrive after the first call)"
	}
	p.calls = append(p.calls, call{opts: func() []annotate.Option { return optSet(opt) }})
	p.calls = append(p.calls, call{opts: func() []annotate.Option { return append(optSet(opt), filterOpt(children, m1)) }, advance: advance})
	p.calls = append(p.calls, call{opts: func() []annotate.Option { return append(optSet(opt), filterOpt(children, m2)) }})
	return p
}

// growPlan: a call under option set opt on the truncated histories, then the
// new child versions arrive and a second call under the same options runs with
// a child filter over mask.
func growPlan(opt int, children []osm.FeatureID, mask int, lastOnly bool) plan {
	p := plan{name: fmt.Sprintf("first-call=%s then-new-child-versions-arrive then=%s+child-filter-mask=%b", optName(opt), optName(opt), mask)}
	if lastOnly {
		p.name += "(newest parent version only)"
	}
	p.calls = append(p.calls, call{opts: func() []annotate.Option { return optSet(opt) }})
	p.calls = append(p.calls, call{opts: func() []annotate.Option { return append(optSet(opt), filterOpt(children, mask)) }, advance: true, lastOnly: lastOnly})
	return p
}

func run(in input, p plan) result {
	ways, rels, ds := in()
	var err error
	var res result
	var lists []osm.Updates
	for ci, c := range p.calls {
		if a, ok := ds.(interface{ advance() }); ok && c.advance {
			a.advance()
		}
		if c.byTime {
			for _, w := range ways {
				w.Updates.SortByTimestamp()
			}
			for _, rl := range rels {
				rl.Updates.SortByTimestamp()
			}
		}
		ctx := context.Background()
		if c.cancelled {
			cctx, cancel := context.WithCancel(ctx)
			cancel()
			ctx = cctx
		}
		switch {
		case ways != nil && c.lastOnly:
			err = annotate.Ways(ctx, ways[len(ways)-1:], ds, c.opts()...)
		case ways != nil:
			err = annotate.Ways(ctx, ways, ds, c.opts()...)
		case c.lastOnly:
			err = annotate.Relations(ctx, rels[len(rels)-1:], ds, c.opts()...)
		default:
			err = annotate.Relations(ctx, rels, ds, c.opts()...)
		}
		if err != nil && (ci == len(p.calls)-1 || !c.tolerate) {
			res.err = "error"
			return res
		}
	}
	if ways != nil {
		for _, w := range ways {
			lists = append(lists, w.Updates)
		}
		data, _ := xml.Marshal(ways)
		res.xml = string(data)
	} else {
		for _, r := range rels {
			lists = append(lists, r.Updates)
		}
		data, _ := xml.Marshal(rels)
		res.xml = string(data)
	}
	for pi, us := range lists {
		res.nupd += len(us)
		for i := 1; i < len(us); i++ {
			a, b := us[i-1], us[i]
			bad := false
			switch {
			case a.Index != b.Index:
				bad = a.Index > b.Index
			case !a.Timestamp.Equal(b.Timestamp):
				bad = a.Timestamp.After(b.Timestamp)
			default:
				bad = a.Version > b.Version
			}
			if bad && res.order == "" {
				res.order = fmt.Sprintf("parent version %d: update %d (index %d, %s, v%d) before update %d (index %d, %s, v%d)", pi, i-1, a.Index, a.Timestamp.Format(time.RFC3339Nano), a.Version, i, b.Index, b.Timestamp.Format(time.RFC3339Nano), b.Version)
			}
		}
	}
	return res
}

func scenario(name, fam string, nchildren int, in input, opt int) vexplore.Scenario {
	return scenarioP(name, fam, in, optPlan(opt))
}

func scenarioP(name, fam string, in input, opt plan) vexplore.Scenario {
	var ref *result
	if opt.name != "" {
		name += " opts=" + opt.name
	}
	return vexplore.Scenario{Name: name, Family: fam, Bound: 0, OnlyChildBelow: true,
		New: func() (func(), func(*vsched.Outcome) ([]vexplore.Finding, string, bool)) {
			if ref == nil {
				// canonical order: MapKeys outside a controlled execution sorts the keys
				r := run(in, opt)
				ref = &r
				if d := os.Getenv("C12_DUMP"); d != "" && strings.Contains(name, d) {
					// debugging aid: show what a scenario annotates in the canonical order
					// (workers are separate processes: appended to the file $C12_DUMP_FILE)
					if f, err := os.OpenFile(os.Getenv("C12_DUMP_FILE"), os.O_APPEND|os.O_CREATE|os.O_WRONLY, 0o644); err == nil {
						fmt.Fprintf(f, "C12_DUMP %s\n  failed=%v updates=%d order=%q\n  %s\n", name, r.err != "", r.nupd, r.order, r.xml)
						f.Close()
					}
				}
			}
			var got result
			main := func() { got = run(in, opt) }
			check := func(o *vsched.Outcome) ([]vexplore.Finding, string, bool) {
				var fs []vexplore.Finding
				nonvac := len(o.Choices) > 0 && ref.nupd >= 2
				if o.Kind != "ok" {
					return []vexplore.Finding{{Key: "annotate/" + o.Kind, Msg: o.Detail}}, "", nonvac
				}
				if got.order != "" {
					fs = append(fs, vexplore.Finding{Key: "updates-order/" + fam, Msg: "update list not ordered by (index, timestamp, version): " + got.order})
				}
				if got.err != ref.err {
					fs = append(fs, vexplore.Finding{Key: "order-dependence/success-vs-failure/" + fam, Msg: fmt.Sprintf("map order %v: outcome %q, canonical order: %q", o.Choices, got.err, ref.err)})
				} else if got.xml != ref.xml {
					fs = append(fs, vexplore.Finding{Key: "order-dependence/result/" + fam, Msg: fmt.Sprintf("map order %v gives a different annotation than the canonical order:\n%s\nvs\n%s", o.Choices, clip(got.xml), clip(ref.xml))})
				}
				return fs, fmt.Sprint(o.Choices), nonvac
			}
			return main, check
		}}
}

func clip(s string) string {
	if len(s) > 1500 {
		return s[:1500] + "..."
	}
	return s
}

// ---- family (i): histories of the C11 edit alphabet ----

// historyGenerators returns one lazy generator per first-level subtree of the
// space (plus one for the initial world), so that no process ever holds the
// whole list of histories.
func historyGenerators(sp *histsim.Space, nopts int) []vexplore.Generator {
	opts := make([]int, nopts)
	for i := range opts {
		opts[i] = i
	}
	return historyGeneratorsV(sp, sp.Name(), opts, nil, dsMode{fail: -1})
}

// historyGeneratorsV: label names the space (family, regime and variant), opts
// are the option sets every history runs under, post (optional) edits the
// rendered parents and histories before the call, m selects the datasource.
func historyGeneratorsV(sp *histsim.Space, label string, opts []int, post func(osm.Ways, osm.Relations, *osm.HistoryDatasource), m dsMode) []vexplore.Generator {
	ops := sp.Ops()
	var gens []vexplore.Generator
	for k := -1; k < len(ops); k++ {
		k := k
		gens = append(gens, vexplore.Generator{Name: fmt.Sprintf("%s subtree %d", label, k), Gen: func(yield func(*vexplore.Scenario) bool) {
			stop := false
			sp.Walk(func(w *histsim.World, trace []histsim.Op) bool {
				if stop {
					return false
				}
				if len(trace) == 0 {
					if k >= 0 {
						return true // descend, the initial world belongs to generator -1
					}
				} else if k < 0 || trace[0].Code() != ops[k].Code() {
					return false
				}
				tr := append([]histsim.Op{}, trace...)
				name := fmt.Sprintf("%s depth %d:", label, len(tr))
				for _, o := range tr {
					name += " " + o.String(&sp.Fam)
				}
				in := func() (osm.Ways, osm.Relations, osm.HistoryDatasourcer) {
					w := histsim.New(sp.Config())
					u, _ := sp.Initial()
					w.Apply(u)
					for _, o := range tr {
						w.Apply(sp.Upload(o))
					}
					ds := w.Datasource()
					var ways osm.Ways
					var rels osm.Relations
					if sp.Fam.IsWay() {
						ways = w.Ways(sp.Fam.Parent.WayID())
					} else {
						rels = w.Relations(sp.Fam.Parent.RelationID())
					}
					if post != nil {
						post(ways, rels, ds)
					}
					return ways, rels, wrapDS(ds, m, sp.Fam.Children)
				}
				for _, opt := range opts {
					sc := scenario(name, "histories/"+label, len(sp.Fam.Children), in, opt)
					if !yield(&sc) {
						stop = true
						return false
					}
				}
				return k >= 0
			})
		}})
	}
	return gens
}

// ---- family (ii): long update lists with equal one-second timestamps ----

// stability builds one way version [list of child indexes] over children with
// the given numbers of later versions; same[c] is a bit pattern: bit k set =
// later version k+1 of child c shares the commit second of the version before.
func stability(list []int, later []int, same []int) input {
	return stabilityV(list, later, same, 0)
}

// stabVariants: value classes of the stability family (boundary audit). The
// equal-timestamp patterns are the same in every variant.
var stabVariants = []string{
	"2015, UTC, versions 1..n, node ids 1..c",
	"first child version stamped with the zero time (year 1), the parent one hour later",
	"the versions straddle 1970-01-01T00:00:00Z (negative and positive Unix times)",
	"the versions straddle 2262-04-11T23:47:16.854775807Z, the last instant that fits into int64 nanoseconds",
	"even versions carry their (equal) instants in the zone +05:30",
	"versions numbered from 2^31-2 upwards",
	"versions of one commit second differ by a quarter of a second each (distinct instants, ascending with the version)",
	"distinct element timestamps, equal commit times inside one commit",
	"node ids 2^40-1, 2^40-2, ... (the largest the 40 ref bits of osm.FeatureID hold)",
	"every later version of the first child is stored twice (same version and times, another position)",
	"clock skew: the middle version of every child carries the instant of the version four before it (the history is stored in version order, its times are not ascending)",
}

func stabilityV(list []int, later []int, same []int, variant int) input {
	return func() (osm.Ways, osm.Relations, osm.HistoryDatasourcer) {
		t0 := time.Date(2015, 3, 1, 12, 0, 0, 0, time.UTC)
		vbase := 0
		zone := time.FixedZone("+0530", 5*3600+1800)
		nid := func(c int) osm.NodeID { return osm.NodeID(c + 1) }
		switch variant {
		case 1:
			t0 = time.Time{}.Add(time.Hour)
		case 2:
			t0 = time.Unix(-350, 0).UTC() // versions 2 and 3 before, the later ones after the epoch
		case 3:
			t0 = time.Date(2262, 4, 11, 23, 41, 27, 0, time.UTC) // versions 2 and 3 before, the later ones after the limit
		case 5:
			vbase = 1<<31 - 3
		case 8:
			nid = func(c int) osm.NodeID { return osm.NodeID(1<<40 - 1 - int64(c)) }
		}
		ds := &osm.HistoryDatasource{Nodes: map[osm.NodeID]osm.Nodes{}}
		for c, nv := range later {
			id := nid(c)
			t := t0.Add(-time.Hour)
			run := 0
			for v := 1; v <= nv+1; v++ {
				if v > 1 {
					if same[c]&(1<<uint(v-2)) != 0 && v > 2 {
						// same second as the previous version (one commit)
						run++
					} else {
						t = t0.Add(time.Duration(v*100+c) * time.Second)
						if variant == 10 && v == nv/2+2 && v > 5 {
							t = t0.Add(time.Duration((v-4)*100+c) * time.Second)
						}
						run = 0
					}
				}
				ts, ct := t, t
				switch variant {
				case 4:
					if v%2 == 0 {
						ts, ct = ts.In(zone), ct.In(zone)
					}
				case 6:
					ts = t.Add(time.Duration(run) * 250 * time.Millisecond)
					ct = ts
				case 7:
					ts = t.Add(time.Duration(run) * time.Second)
				}
				ds.Nodes[id] = append(ds.Nodes[id], &osm.Node{ID: id, Version: vbase + v, Visible: true, ChangesetID: osm.ChangesetID(1000 + v), Lat: float64(v), Lon: float64(c + 1), Timestamp: ts, Committed: &ct})
				if variant == 9 && c == 0 && v > 1 {
					ct2 := ct
					ds.Nodes[id] = append(ds.Nodes[id], &osm.Node{ID: id, Version: vbase + v, Visible: true, ChangesetID: osm.ChangesetID(1000 + v), Lat: float64(v) + 0.5, Lon: float64(c + 1), Timestamp: ts, Committed: &ct2})
				}
			}
		}
		w := &osm.Way{ID: 77, Version: 1, Visible: true, ChangesetID: 5, Timestamp: t0, Committed: &t0}
		for _, c := range list {
			w.Nodes = append(w.Nodes, osm.WayNode{ID: nid(c)})
		}
		return osm.Ways{w}, nil, ds
	}
}

// sharedRefs builds a multipolygon / boundary relation whose way, node and
// relation members share their numbers (member references are typed: way 5,
// node 5 and relation 5 are three different children) over annotated closed
// ways, so that member orientation is computed too. layout permutes the member
// order; two relation versions, the children edited in between.
func sharedRefs(typ string, layout int) input {
	return func() (osm.Ways, osm.Relations, osm.HistoryDatasourcer) {
		d := func(day int) time.Time { return time.Date(2014, 1, 1, 0, 0, 0, 0, time.UTC).AddDate(0, 0, day) }
		ring := func(id osm.WayID, v int, t time.Time, cw bool, size float64) *osm.Way {
			pts := [][2]float64{{0, 0}, {size, 0}, {size, size}, {0, size}, {0, 0}}
			if cw {
				pts = [][2]float64{{0, 0}, {0, size}, {size, size}, {size, 0}, {0, 0}}
			}
			w := &osm.Way{ID: id, Version: v, Visible: true, ChangesetID: osm.ChangesetID(300 + int(id)*10 + v), Timestamp: t}
			for i, p := range pts {
				nid := osm.NodeID(100*int(id) + i%4)
				w.Nodes = append(w.Nodes, osm.WayNode{ID: nid, Version: 1, ChangesetID: 9, Lon: p[0] + float64(id), Lat: p[1] + float64(id)})
			}
			return w
		}
		ds := &osm.HistoryDatasource{Nodes: map[osm.NodeID]osm.Nodes{}, Ways: map[osm.WayID]osm.Ways{}, Relations: map[osm.RelationID]osm.Relations{}}
		for _, id := range []int64{5, 6} {
			ds.Ways[osm.WayID(id)] = osm.Ways{ring(osm.WayID(id), 1, d(10), id == 5, 4), ring(osm.WayID(id), 2, d(150), id != 5, 3)}
			ds.Nodes[osm.NodeID(id)] = osm.Nodes{
				{ID: osm.NodeID(id), Version: 1, Visible: true, ChangesetID: osm.ChangesetID(400 + id), Timestamp: d(20), Lat: float64(id), Lon: 1},
				{ID: osm.NodeID(id), Version: 2, Visible: true, ChangesetID: osm.ChangesetID(410 + id), Timestamp: d(160), Lat: float64(id), Lon: 2}}
			ds.Relations[osm.RelationID(id)] = osm.Relations{
				{ID: osm.RelationID(id), Version: 1, Visible: true, ChangesetID: osm.ChangesetID(500 + id), Timestamp: d(30)},
				{ID: osm.RelationID(id), Version: 2, Visible: true, ChangesetID: osm.ChangesetID(510 + id), Timestamp: d(170)}}
		}
		members := osm.Members{
			{Type: osm.TypeWay, Ref: 5, Role: "outer"}, {Type: osm.TypeNode, Ref: 5, Role: "label"}, {Type: osm.TypeRelation, Ref: 5, Role: "subarea"},
			{Type: osm.TypeWay, Ref: 6, Role: "inner"}, {Type: osm.TypeNode, Ref: 6, Role: "admin_centre"}, {Type: osm.TypeRelation, Ref: 6, Role: "subarea"},
		}
		perm := [][]int{{0, 1, 2, 3, 4, 5}, {1, 0, 2, 4, 3, 5}, {2, 1, 0, 5, 4, 3}, {5, 4, 3, 2, 1, 0}, {1, 2, 4, 5, 0, 3}}[layout]
		mk := func(v int, t time.Time) *osm.Relation {
			r := &osm.Relation{ID: 50, Version: v, Visible: true, ChangesetID: osm.ChangesetID(600 + v), Timestamp: t,
				Tags: osm.Tags{{Key: "type", Value: typ}}}
			for _, i := range perm {
				r.Members = append(r.Members, members[i])
			}
			return r
		}
		return nil, osm.Relations{mk(1, d(100)), mk(2, d(200))}, ds
	}
}

func main() {
	kit.Main("C12", "model_checking", func(r *kit.Run) {
		r.Rule("every iteration order (all n! orders, free explorer choices) of the child map in core.Compute for (i) every history of edit-alphabet spaces (gen/histsim: way over 3 nodes, relation over 4 members, repeated-node churn way) up to the tier's depth and (ii) a stability family: one way version over 2-4 children (one repeated) with 13-24 updates and every pattern of equal one-second timestamps; (iii) a late-child family: two parent versions over 2-3 children whose histories are normal / start after a parent version / contain a deleted version between the parents / are missing / have same-second versions, under four option sets; (v) a mixed-committed family: the late-child histories with a commit time on some versions only; (vi) a shared-refs family: a multipolygon / boundary / route relation whose way, node and relation members share their numbers, over annotated rings (orientation is part of the result); (iv) a re-annotate family: parents annotated once, then again with ChildFilter over every subset of the children; histories of (i) run under the default options and with IgnoreInconsistency; " +
			"boundary audit: 13 child history kinds (empty history, a single deleted version, a version stamped exactly like the parent, an unsorted history, version gaps up to 70000, a version exactly one threshold before P2) and a fourth commit-time pattern (commit times exactly from osm.CommitInfoStart on); (A) 7 more option sets (thresholds 0 / negative / 150 days, both ignore options, options given twice, a child filter on a first call); (B) relation parents over way / node / relation members with those history kinds; (C) 11 parent lists other than [P1, P2] (one version, reversed, same object twice, a copy, deleted version in between, three versions, versions of two parents); (D) custom datasources (plain interface with its own not-found error and unsorted fresh copies, the AsChildren interfaces with cached children, a backend error for one child, a cancelled context); (E) call sequences (first call ignoring inconsistencies then a filtered call; a failing call then a good one; polygon relations and custom datasources annotated twice); (F) polygon relations whose outer ring is joined from 2-3 open ways (member listed twice, way without history, ways with update lists, deleted ring version); (G) stability value classes (zero time, 1970, year 2300, mixed zones, versions around 2^31, sub-second instants, equal commit times over distinct timestamps, ids at 2^40-1), update lists of 50-57 entries, 5-7 children; (I) child ids around 2^31, 2^32, 2^40; (H) history spaces with equal member numbers under a multipolygon tag, wide ids + reversing ways + version steps, children at 3-5 positions served as children, histories crossing osm.CommitInfoStart, a plain datasource; " +
			"oracle: result identical to the canonical-order result (or both fail) and every update list sorted by (index, timestamp, version); non-vacuous = at least one order choice was made and the history has >= 2 updates; states = execution-tree nodes (order choices), transitions = choices taken")
		r.Assume("vinst replaces only the map range in compute.go (vsched.MapKeys); outside a controlled execution the canonical order is sorted keys")
		r.Assume("not enumerated because the property text does not decide them: negative child ids and ids >= 2^40 (annotate keys children by the 40 bit osm.FeatureID by design), relation members of an unsupported type (osm.Member.FeatureID panics before the map is built), child version 0 (the 'not annotated' marker of WayNode / Member), datasources that are not functions of the id (fail on the k-th request), a second call with a DIFFERENT threshold after a failed call (what the failed call annotated legitimately stays when the second call finds no version), an Option that returns an error (no map is built)")
		var scs []vexplore.Scenario
		add := func(s vexplore.Scenario) { scs = append(scs, s) }
		counts := map[string]int{}
		var gens []vexplore.Generator
		// histories run under the default options and with inconsistencies ignored
		nopts := 2
		type spc struct {
			fam    string
			regime histsim.Regime
			depth  int
			touch2 bool
		}
		spaces := []spc{{"way3", histsim.CommitTime, 2, true}, {"rel4", histsim.CommitTime, 2, false}, {"way2r", histsim.CommitTime, 4, true}, {"way3", histsim.PreCommit, 2, false}}
		if !r.Quick() {
			spaces = []spc{{"way3", histsim.CommitTime, 3, false}, {"way3", histsim.CommitTime, 2, true}, {"rel4", histsim.CommitTime, 2, true}, {"rel3", histsim.CommitTime, 2, true}, {"way2r", histsim.CommitTime, 5, true}, {"way3", histsim.PreCommit, 2, false}, {"rel4", histsim.PreCommit, 2, false}}
		}
		for _, s := range spaces {
			sp := &histsim.Space{Fam: histsim.FamilyByName(s.fam), Regime: s.regime, Depth: s.depth, Touch2: s.touch2, Skews: []int{0}}
			if s.regime == histsim.CommitTime {
				sp.Gaps = []time.Duration{time.Hour, 100 * time.Millisecond}
			} else {
				sp.Gaps = []time.Duration{2 * time.Hour, 0}
				sp.Delta = time.Minute
				sp.Skews = []int{-1, 0, 1}
			}
			counts[sp.Name()] = s.depth
			gens = append(gens, historyGenerators(sp, nopts)...)
		}
		// stability family
		type shape struct {
			list  []int
			later []int
		}
		shapes := []shape{
			{[]int{0, 1, 0}, []int{5, 3}}, {[]int{0, 1, 0}, []int{6, 6}}, {[]int{0, 1, 0}, []int{4, 6}},
			{[]int{0, 1, 0, 2}, []int{4, 3, 3}}, {[]int{0, 1, 2, 0}, []int{5, 4, 6}}, {[]int{2, 0, 1, 0}, []int{6, 6, 6}},
			{[]int{0, 1, 0, 2, 3}, []int{4, 3, 3, 3}}, {[]int{3, 0, 1, 2, 0}, []int{6, 4, 4, 6}},
			// a child at three and four positions of one parent version (more locations than 2 per parent)
			{[]int{0, 1, 0, 2, 0}, []int{4, 4, 4}}, {[]int{1, 0, 0, 0, 0, 2}, []int{3, 4, 4}},
		}
		nst := 0
		for si, sh := range shapes {
			if r.Quick() && si%2 == 1 && len(sh.later) > 3 {
				continue
			}
			// child 0 runs through every pattern; the others share one of two fixed patterns
			for pat := 0; pat < 1<<uint(sh.later[0]); pat++ {
				for _, other := range []int{0, 0b101010, 0b111111} {
					same := make([]int, len(sh.later))
					same[0] = pat
					for c := 1; c < len(same); c++ {
						same[c] = other
					}
					name := fmt.Sprintf("stability list=%v later=%v same=%v", sh.list, sh.later, same)
					add(scenario(name, fmt.Sprintf("stability/%d-children", len(sh.later)), len(sh.later), stability(sh.list, sh.later, same), 0))
					nst++
				}
			}
		}
		counts["stability"] = nst
		// late-child family: children whose whole history starts after a parent
		// version, a deleted version between parent versions, a child without
		// history - the inconsistent inputs the ignore options exist for - x every
		// option set x every map order
		nlate := 0
		for c := 2; c <= 3; c++ {
			total := 1
			for i := 0; i < c; i++ {
				total *= len(lateKinds)
			}
			for code := 0; code < total; code++ {
				kinds := make([]int, c)
				x := code
				for i := range kinds {
					kinds[i] = x % len(lateKinds)
					x /= len(lateKinds)
				}
				for opt := 0; opt < 4; opt++ {
					name := fmt.Sprintf("late-child kinds=%v", kinds)
					add(scenario(name, fmt.Sprintf("late-child/%d-children", c), c, lateChild(kinds), opt))
					nlate++
				}
			}
		}
		counts["late-child"] = nlate
		// mixed-committed family: the same histories with a commit time on some
		// versions only, default options and both ignore options
		nmix := 0
		for c := 2; c <= 3; c++ {
			total := 1
			for i := 0; i < c; i++ {
				total *= len(lateKinds)
			}
			for code := 0; code < total; code++ {
				kinds := make([]int, c)
				x := code
				for i := range kinds {
					kinds[i] = x % len(lateKinds)
					x /= len(lateKinds)
				}
				for pat := 1; pat <= 4; pat++ {
					if r.Quick() && c == 3 && pat != 1+code%4 {
						continue
					}
					for _, opt := range []int{0, 3} {
						name := fmt.Sprintf("mixed-committed kinds=%v pattern=%d", kinds, pat)
						add(scenario(name, fmt.Sprintf("mixed-committed/%d-children", c), c, lateChildCommitted(kinds, pat), opt))
						nmix++
					}
				}
			}
		}
		counts["mixed-committed"] = nmix
		// shared-refs family: way / node / relation members with equal numbers in a
		// multipolygon or boundary relation (member orientation is annotated too)
		nshared := 0
		for _, typ := range []string{"multipolygon", "boundary", "route"} {
			for layout := 0; layout < 5; layout++ {
				for _, opt := range []int{0, 1} {
					add(scenario(fmt.Sprintf("shared-refs type=%s layout=%d", typ, layout), "shared-refs", 6, sharedRefs(typ, layout), opt))
					nshared++
				}
			}
		}
		counts["shared-refs"] = nshared
		// re-annotate family: annotate, then annotate again with a ChildFilter
		// over every subset of the children (skipped children at lower and at
		// higher indexes than recomputed ones), every map order of both passes
		nre := 0
		for si, sh := range shapes {
			if r.Quick() && si%2 == 1 {
				continue
			}
			same := make([]int, len(sh.later))
			for mask := 0; mask < 1<<uint(len(sh.later)); mask++ {
				name := fmt.Sprintf("reannotate list=%v later=%v", sh.list, sh.later)
				add(scenario(name, fmt.Sprintf("reannotate/%d-children", len(sh.later)), len(sh.later), stability(sh.list, sh.later, same), reannotate+mask))
				nre++
				if mask%3 == 1 {
					add(scenario(name, fmt.Sprintf("reannotate/%d-children", len(sh.later)), len(sh.later), stability(sh.list, sh.later, same), reannotateByTime+mask))
					nre++
				}
			}
		}
		for c := 2; c <= 3; c++ {
			for mask := 0; mask < 1<<uint(c); mask++ {
				add(scenario(fmt.Sprintf("reannotate late-child all-normal %d children", c), fmt.Sprintf("reannotate/%d-children", c), c, lateChild(make([]int, c)), reannotate+mask))
				nre++
			}
		}
		counts["reannotate"] = nre
		auditFamilies(r, add, &gens, counts)
		r.Set("history_space_depths", counts)
		// replays identify a scenario by its name
		seen := map[string]bool{}
		for i := range scs {
			if seen[scs[i].Name] {
				kit.Fatalf("two scenarios are called %q", scs[i].Name)
			}
			seen[scs[i].Name] = true
		}
		sort.SliceStable(scs, func(i, j int) bool { return false })
		e := &vexplore.Explorer{R: r, Scenarios: scs, Generators: gens}
		budget := 6 * time.Minute
		if !r.Quick() {
			budget = 30 * time.Minute
		}
		e.Run(budget)
	})
}
