//go:build verif

// C12 — Annotation is deterministic and orders updates by index, time, version.
//
// Engine A with free choices: the "for fid, locations := range mapChildLocs(...)"
// loop of annotate/internal/core.Compute is rewritten (tools/vinst -maprange) to
// iterate in an order chosen by the explorer, and EVERY iteration order (all n!
// orders of the child map, not only the rotations Go produces) is executed for
// every history of two families and compared with the canonical-order result.
package main

import (
	"context"
	"encoding/xml"
	"fmt"
	"sort"
	"time"

	"github.com/paulmach/osm"
	"github.com/paulmach/osm/annotate"
	"github.com/paulmach/osm/vsched"

	"verif/engine/vexplore"
	"verif/gen/histsim"
	"verif/kit"
)

type result struct {
	err   string
	xml   string
	order string // "" or a description of the first update list that is out of order
	nupd  int
}

// input builds fresh parents and a fresh datasource.
type input func() (ways osm.Ways, rels osm.Relations, ds *osm.HistoryDatasource)

// option sets the annotation runs under (index into optSets)
var optNames = []string{"default", "ignore-inconsistency", "ignore-missing-children", "ignore-both+threshold"}

// option sets >= reannotate: the parents are annotated once under the default
// options and then AGAIN with ChildFilter selecting the children whose bit is
// set in (i - reannotate) -- the documented incremental workflow; the result
// judged is the one after the second pass.
const reannotate = 100

func optName(i int) string {
	if i >= reannotate {
		return fmt.Sprintf("reannotate-with-child-filter-mask=%b", i-reannotate)
	}
	return optNames[i]
}

func optSet(i int) []annotate.Option {
	if i >= reannotate {
		mask := i - reannotate
		return []annotate.Option{annotate.ChildFilter(func(fid osm.FeatureID) bool {
			return mask>>uint(fid.Ref()-1)&1 == 1
		})}
	}
	switch i {
	case 1:
		return []annotate.Option{annotate.IgnoreInconsistency(true)}
	case 2:
		return []annotate.Option{annotate.IgnoreMissingChildren(true)}
	case 3:
		return []annotate.Option{annotate.IgnoreInconsistency(true), annotate.IgnoreMissingChildren(true), annotate.Threshold(time.Minute)}
	}
	return nil
}

func run(in input, opt int) result {
	ways, rels, ds := in()
	var err error
	var res result
	var lists []osm.Updates
	if opt >= reannotate {
		if ways != nil {
			err = annotate.Ways(context.Background(), ways, ds)
		} else {
			err = annotate.Relations(context.Background(), rels, ds)
		}
		if err != nil {
			res.err = "error"
			return res
		}
	}
	if ways != nil {
		err = annotate.Ways(context.Background(), ways, ds, optSet(opt)...)
		for _, w := range ways {
			lists = append(lists, w.Updates)
		}
		if err == nil {
			data, _ := xml.Marshal(ways)
			res.xml = string(data)
		}
	} else {
		err = annotate.Relations(context.Background(), rels, ds, optSet(opt)...)
		for _, r := range rels {
			lists = append(lists, r.Updates)
		}
		if err == nil {
			data, _ := xml.Marshal(rels)
			res.xml = string(data)
		}
	}
	if err != nil {
		res.err = "error"
		return res
	}
	for pi, us := range lists {
		res.nupd += len(us)
		for i := 1; i < len(us); i++ {
			a, b := us[i-1], us[i]
			bad := false
			switch {
			case a.Index != b.Index:
				bad = a.Index > b.Index
			case !a.Timestamp.Equal(b.Timestamp):
				bad = a.Timestamp.After(b.Timestamp)
			default:
				bad = a.Version > b.Version
			}
			if bad && res.order == "" {
				res.order = fmt.Sprintf("parent version %d: update %d (index %d, %s, v%d) before update %d (index %d, %s, v%d)", pi, i-1, a.Index, a.Timestamp.Format(time.RFC3339), a.Version, i, b.Index, b.Timestamp.Format(time.RFC3339), b.Version)
			}
		}
	}
	return res
}

func scenario(name, fam string, nchildren int, in input, opt int) vexplore.Scenario {
	var ref *result
	if opt != 0 {
		name += " opts=" + optName(opt)
	}
	return vexplore.Scenario{Name: name, Family: fam, Bound: 0, OnlyChildBelow: true,
		New: func() (func(), func(*vsched.Outcome) ([]vexplore.Finding, string, bool)) {
			if ref == nil {
				// canonical order: MapKeys outside a controlled execution sorts the keys
				r := run(in, opt)
				ref = &r
			}
			var got result
			main := func() { got = run(in, opt) }
			check := func(o *vsched.Outcome) ([]vexplore.Finding, string, bool) {
				var fs []vexplore.Finding
				nonvac := len(o.Choices) > 0 && ref.nupd >= 2
				if o.Kind != "ok" {
					return []vexplore.Finding{{Key: "annotate/" + o.Kind, Msg: o.Detail}}, "", nonvac
				}
				if got.order != "" {
					fs = append(fs, vexplore.Finding{Key: "updates-order/" + fam, Msg: "update list not ordered by (index, timestamp, version): " + got.order})
				}
				if got.err != ref.err {
					fs = append(fs, vexplore.Finding{Key: "order-dependence/success-vs-failure/" + fam, Msg: fmt.Sprintf("map order %v: outcome %q, canonical order: %q", o.Choices, got.err, ref.err)})
				} else if got.xml != ref.xml {
					fs = append(fs, vexplore.Finding{Key: "order-dependence/result/" + fam, Msg: fmt.Sprintf("map order %v gives a different annotation than the canonical order:\n%s\nvs\n%s", o.Choices, clip(got.xml), clip(ref.xml))})
				}
				return fs, fmt.Sprint(o.Choices), nonvac
			}
			return main, check
		}}
}

func clip(s string) string {
	if len(s) > 1500 {
		return s[:1500] + "..."
	}
	return s
}

// ---- family (i): histories of the C11 edit alphabet ----

// historyGenerators returns one lazy generator per first-level subtree of the
// space (plus one for the initial world), so that no process ever holds the
// whole list of histories.
func historyGenerators(sp *histsim.Space, nopts int) []vexplore.Generator {
	ops := sp.Ops()
	var gens []vexplore.Generator
	for k := -1; k < len(ops); k++ {
		k := k
		gens = append(gens, vexplore.Generator{Name: fmt.Sprintf("%s subtree %d", sp.Name(), k), Gen: func(yield func(*vexplore.Scenario) bool) {
			stop := false
			sp.Walk(func(w *histsim.World, trace []histsim.Op) bool {
				if stop {
					return false
				}
				if len(trace) == 0 {
					if k >= 0 {
						return true // descend, the initial world belongs to generator -1
					}
				} else if k < 0 || trace[0].Code() != ops[k].Code() {
					return false
				}
				tr := append([]histsim.Op{}, trace...)
				name := fmt.Sprintf("%s depth %d:", sp.Name(), len(tr))
				for _, o := range tr {
					name += " " + o.String(&sp.Fam)
				}
				in := func() (osm.Ways, osm.Relations, *osm.HistoryDatasource) {
					w := histsim.New(sp.Config())
					u, _ := sp.Initial()
					w.Apply(u)
					for _, o := range tr {
						w.Apply(sp.Upload(o))
					}
					ds := w.Datasource()
					if sp.Fam.IsWay() {
						return w.Ways(sp.Fam.Parent.WayID()), nil, ds
					}
					return nil, w.Relations(sp.Fam.Parent.RelationID()), ds
				}
				for opt := 0; opt < nopts; opt++ {
					sc := scenario(name, "histories/"+sp.Name(), len(sp.Fam.Children), in, opt)
					if !yield(&sc) {
						stop = true
						return false
					}
				}
				return k >= 0
			})
		}})
	}
	return gens
}

// ---- family (ii): long update lists with equal one-second timestamps ----

// stability builds one way version [list of child indexes] over children with
// the given numbers of later versions; same[c] is a bit pattern: bit k set =
// later version k+1 of child c shares the commit second of the version before.
func stability(list []int, later []int, same []int) input {
	return func() (osm.Ways, osm.Relations, *osm.HistoryDatasource) {
		t0 := time.Date(2015, 3, 1, 12, 0, 0, 0, time.UTC)
		ds := &osm.HistoryDatasource{Nodes: map[osm.NodeID]osm.Nodes{}}
		for c, nv := range later {
			id := osm.NodeID(c + 1)
			t := t0.Add(-time.Hour)
			for v := 1; v <= nv+1; v++ {
				if v > 1 {
					if same[c]&(1<<uint(v-2)) != 0 && v > 2 {
						// same second as the previous version (one commit)
					} else {
						t = t0.Add(time.Duration(v*100+c) * time.Second)
					}
				}
				ct := t
				ds.Nodes[id] = append(ds.Nodes[id], &osm.Node{ID: id, Version: v, Visible: true, ChangesetID: osm.ChangesetID(1000 + v), Lat: float64(v), Lon: float64(c + 1), Timestamp: t, Committed: &ct})
			}
		}
		w := &osm.Way{ID: 77, Version: 1, Visible: true, ChangesetID: 5, Timestamp: t0, Committed: &t0}
		for _, c := range list {
			w.Nodes = append(w.Nodes, osm.WayNode{ID: osm.NodeID(c + 1)})
		}
		return osm.Ways{w}, nil, ds
	}
}

// lateKinds: what the history of one child of the late-child family looks like
// relative to the two parent versions (stamped P1 < P2).
var lateKinds = []string{"normal", "starts-after-P1", "starts-after-P2", "deleted-between-P1-and-P2", "no-history", "two-versions-same-second-after-P1", "forward-grouped-with-P1"}

func lateChild(kinds []int) input { return lateChildCommitted(kinds, 0) }

// lateChildCommitted: committed > 0 stamps a commit time (timestamp + 20 s) on
// SOME versions only - pattern 1: child versions with (version + child) even
// and the first parent version; pattern 2: every version of the first child
// and the second parent version; pattern 3: odd versions of every child, no
// parent. Histories that mix versions with and without a commit time are
// unusual and valid (older data has none).
func lateChildCommitted(kinds []int, committed int) input {
	return func() (osm.Ways, osm.Relations, *osm.HistoryDatasource) {
		year := 2011
		if committed > 0 {
			year = 2014 // commit times before osm.CommitInfoStart (2012-09-12) are ignored by the library
		}
		d := func(day int) time.Time { return time.Date(year, 1, 1, 0, 0, 0, 0, time.UTC).AddDate(0, 0, day) }
		ds := &osm.HistoryDatasource{Nodes: map[osm.NodeID]osm.Nodes{}}
		p1, p2 := d(100), d(200)
		w1 := &osm.Way{ID: 7, Version: 1, Visible: true, ChangesetID: 50, Timestamp: p1}
		w2 := &osm.Way{ID: 7, Version: 2, Visible: true, ChangesetID: 60, Timestamp: p2}
		for c, k := range kinds {
			id := osm.NodeID(c + 1)
			w1.Nodes = append(w1.Nodes, osm.WayNode{ID: id})
			w2.Nodes = append(w2.Nodes, osm.WayNode{ID: id})
			mk := func(v int, t time.Time, visible bool) *osm.Node {
				n := &osm.Node{ID: id, Version: v, Visible: visible, ChangesetID: osm.ChangesetID(100*(c+1) + v), Timestamp: t, Lat: float64(v), Lon: float64(c + 1)}
				if (committed == 1 && (v+c)%2 == 0) || (committed == 2 && c == 0) || (committed == 3 && v%2 == 1) {
					ct := t.Add(20 * time.Second)
					n.Committed = &ct
				}
				return n
			}
			switch lateKinds[k] {
			case "normal":
				ds.Nodes[id] = osm.Nodes{mk(1, d(10+c), true), mk(2, d(120+c), true), mk(3, d(150+c), true), mk(4, d(250+c), true)}
			case "starts-after-P1":
				ds.Nodes[id] = osm.Nodes{mk(1, d(130+c), true), mk(2, d(160+c), true), mk(3, d(260+c), true)}
			case "starts-after-P2":
				ds.Nodes[id] = osm.Nodes{mk(1, d(230+c), true), mk(2, d(270+c), true)}
			case "deleted-between-P1-and-P2":
				ds.Nodes[id] = osm.Nodes{mk(1, d(20+c), true), mk(2, d(140+c), false), mk(3, d(170+c), true), mk(4, d(280+c), true)}
			case "no-history":
			case "forward-grouped-with-P1":
				// first version written by P1's own upload, stamped 10 s after the parent:
				// only the same-changeset forward grouping (inside the threshold) finds it
				n1 := mk(1, p1.Add(10*time.Second), true)
				n1.ChangesetID = 50
				ds.Nodes[id] = osm.Nodes{n1, mk(2, d(150+c), true), mk(3, d(255+c), true)}
			case "two-versions-same-second-after-P1":
				ds.Nodes[id] = osm.Nodes{mk(1, d(30+c), true), mk(2, d(135), true), mk(3, d(135), true), mk(4, d(290+c), true)}
			}
		}
		if committed == 1 {
			ct := p1.Add(20 * time.Second)
			w1.Committed = &ct
		} else if committed == 2 {
			ct := p2.Add(20 * time.Second)
			w2.Committed = &ct
		}
		// the first node closes the way: one child at two indexes
		w1.Nodes = append(w1.Nodes, osm.WayNode{ID: 1})
		w2.Nodes = append(w2.Nodes, osm.WayNode{ID: 1})
		return osm.Ways{w1, w2}, nil, ds
	}
}

// sharedRefs builds a multipolygon / boundary relation whose way, node and
// relation members share their numbers (member references are typed: way 5,
// node 5 and relation 5 are three different children) over annotated closed
// ways, so that member orientation is computed too. layout permutes the member
// order; two relation versions, the children edited in between.
func sharedRefs(typ string, layout int) input {
	return func() (osm.Ways, osm.Relations, *osm.HistoryDatasource) {
		d := func(day int) time.Time { return time.Date(2014, 1, 1, 0, 0, 0, 0, time.UTC).AddDate(0, 0, day) }
		ring := func(id osm.WayID, v int, t time.Time, cw bool, size float64) *osm.Way {
			pts := [][2]float64{{0, 0}, {size, 0}, {size, size}, {0, size}, {0, 0}}
			if cw {
				pts = [][2]float64{{0, 0}, {0, size}, {size, size}, {size, 0}, {0, 0}}
			}
			w := &osm.Way{ID: id, Version: v, Visible: true, ChangesetID: osm.ChangesetID(300 + int(id)*10 + v), Timestamp: t}
			for i, p := range pts {
				nid := osm.NodeID(100*int(id) + i%4)
				w.Nodes = append(w.Nodes, osm.WayNode{ID: nid, Version: 1, ChangesetID: 9, Lon: p[0] + float64(id), Lat: p[1] + float64(id)})
			}
			return w
		}
		ds := &osm.HistoryDatasource{Nodes: map[osm.NodeID]osm.Nodes{}, Ways: map[osm.WayID]osm.Ways{}, Relations: map[osm.RelationID]osm.Relations{}}
		for _, id := range []int64{5, 6} {
			ds.Ways[osm.WayID(id)] = osm.Ways{ring(osm.WayID(id), 1, d(10), id == 5, 4), ring(osm.WayID(id), 2, d(150), id != 5, 3)}
			ds.Nodes[osm.NodeID(id)] = osm.Nodes{
				{ID: osm.NodeID(id), Version: 1, Visible: true, ChangesetID: osm.ChangesetID(400 + id), Timestamp: d(20), Lat: float64(id), Lon: 1},
				{ID: osm.NodeID(id), Version: 2, Visible: true, ChangesetID: osm.ChangesetID(410 + id), Timestamp: d(160), Lat: float64(id), Lon: 2}}
			ds.Relations[osm.RelationID(id)] = osm.Relations{
				{ID: osm.RelationID(id), Version: 1, Visible: true, ChangesetID: osm.ChangesetID(500 + id), Timestamp: d(30)},
				{ID: osm.RelationID(id), Version: 2, Visible: true, ChangesetID: osm.ChangesetID(510 + id), Timestamp: d(170)}}
		}
		members := osm.Members{
			{Type: osm.TypeWay, Ref: 5, Role: "outer"}, {Type: osm.TypeNode, Ref: 5, Role: "label"}, {Type: osm.TypeRelation, Ref: 5, Role: "subarea"},
			{Type: osm.TypeWay, Ref: 6, Role: "inner"}, {Type: osm.TypeNode, Ref: 6, Role: "admin_centre"}, {Type: osm.TypeRelation, Ref: 6, Role: "subarea"},
		}
		perm := [][]int{{0, 1, 2, 3, 4, 5}, {1, 0, 2, 4, 3, 5}, {2, 1, 0, 5, 4, 3}, {5, 4, 3, 2, 1, 0}, {1, 2, 4, 5, 0, 3}}[layout]
		mk := func(v int, t time.Time) *osm.Relation {
			r := &osm.Relation{ID: 50, Version: v, Visible: true, ChangesetID: osm.ChangesetID(600 + v), Timestamp: t,
				Tags: osm.Tags{{Key: "type", Value: typ}}}
			for _, i := range perm {
				r.Members = append(r.Members, members[i])
			}
			return r
		}
		return nil, osm.Relations{mk(1, d(100)), mk(2, d(200))}, ds
	}
}

func main() {
	kit.Main("C12", "model_checking", func(r *kit.Run) {
		r.Rule("every iteration order (all n! orders, free explorer choices) of the child map in core.Compute for (i) every history of edit-alphabet spaces (gen/histsim: way over 3 nodes, relation over 4 members, repeated-node churn way) up to the tier's depth and (ii) a stability family: one way version over 2-4 children (one repeated) with 13-24 updates and every pattern of equal one-second timestamps; (iii) a late-child family: two parent versions over 2-3 children whose histories are normal / start after a parent version / contain a deleted version between the parents / are missing / have same-second versions, under four option sets; (v) a mixed-committed family: the late-child histories with a commit time on some versions only; (vi) a shared-refs family: a multipolygon / boundary / route relation whose way, node and relation members share their numbers, over annotated rings (orientation is part of the result); (iv) a re-annotate family: parents annotated once, then again with ChildFilter over every subset of the children; histories of (i) run under the default options and with IgnoreInconsistency; " +
			"oracle: result identical to the canonical-order result (or both fail) and every update list sorted by (index, timestamp, version); non-vacuous = at least one order choice was made and the history has >= 2 updates; states = execution-tree nodes (order choices), transitions = choices taken")
		r.Assume("vinst replaces only the map range in compute.go (vsched.MapKeys); outside a controlled execution the canonical order is sorted keys")
		var scs []vexplore.Scenario
		add := func(s vexplore.Scenario) { scs = append(scs, s) }
		counts := map[string]int{}
		var gens []vexplore.Generator
		// histories run under the default options and with inconsistencies ignored
		nopts := 2
		type spc struct {
			fam    string
			regime histsim.Regime
			depth  int
			touch2 bool
		}
		spaces := []spc{{"way3", histsim.CommitTime, 2, true}, {"rel4", histsim.CommitTime, 2, false}, {"way2r", histsim.CommitTime, 4, true}, {"way3", histsim.PreCommit, 2, false}}
		if !r.Quick() {
			spaces = []spc{{"way3", histsim.CommitTime, 3, false}, {"way3", histsim.CommitTime, 2, true}, {"rel4", histsim.CommitTime, 2, true}, {"rel3", histsim.CommitTime, 2, true}, {"way2r", histsim.CommitTime, 5, true}, {"way3", histsim.PreCommit, 2, false}, {"rel4", histsim.PreCommit, 2, false}}
		}
		for _, s := range spaces {
			sp := &histsim.Space{Fam: histsim.FamilyByName(s.fam), Regime: s.regime, Depth: s.depth, Touch2: s.touch2, Skews: []int{0}}
			if s.regime == histsim.CommitTime {
				sp.Gaps = []time.Duration{time.Hour, 100 * time.Millisecond}
			} else {
				sp.Gaps = []time.Duration{2 * time.Hour, 0}
				sp.Delta = time.Minute
				sp.Skews = []int{-1, 0, 1}
			}
			counts[sp.Name()] = s.depth
			gens = append(gens, historyGenerators(sp, nopts)...)
		}
		// stability family
		type shape struct {
			list  []int
			later []int
		}
		shapes := []shape{
			{[]int{0, 1, 0}, []int{5, 3}}, {[]int{0, 1, 0}, []int{6, 6}}, {[]int{0, 1, 0}, []int{4, 6}},
			{[]int{0, 1, 0, 2}, []int{4, 3, 3}}, {[]int{0, 1, 2, 0}, []int{5, 4, 6}}, {[]int{2, 0, 1, 0}, []int{6, 6, 6}},
			{[]int{0, 1, 0, 2, 3}, []int{4, 3, 3, 3}}, {[]int{3, 0, 1, 2, 0}, []int{6, 4, 4, 6}},
			// a child at three and four positions of one parent version (more locations than 2 per parent)
			{[]int{0, 1, 0, 2, 0}, []int{4, 4, 4}}, {[]int{1, 0, 0, 0, 0, 2}, []int{3, 4, 4}},
		}
		nst := 0
		for si, sh := range shapes {
			if r.Quick() && si%2 == 1 && len(sh.later) > 3 {
				continue
			}
			// child 0 runs through every pattern; the others share one of two fixed patterns
			for pat := 0; pat < 1<<uint(sh.later[0]); pat++ {
				for _, other := range []int{0, 0b101010, 0b111111} {
					same := make([]int, len(sh.later))
					same[0] = pat
					for c := 1; c < len(same); c++ {
						same[c] = other
					}
					name := fmt.Sprintf("stability list=%v later=%v same=%v", sh.list, sh.later, same)
					add(scenario(name, fmt.Sprintf("stability/%d-children", len(sh.later)), len(sh.later), stability(sh.list, sh.later, same), 0))
					nst++
				}
			}
		}
		counts["stability"] = nst
		// late-child family: children whose whole history starts after a parent
		// version, a deleted version between parent versions, a child without
		// history - the inconsistent inputs the ignore options exist for - x every
		// option set x every map order
		nlate := 0
		for c := 2; c <= 3; c++ {
			total := 1
			for i := 0; i < c; i++ {
				total *= len(lateKinds)
			}
			for code := 0; code < total; code++ {
				kinds := make([]int, c)
				x := code
				for i := range kinds {
					kinds[i] = x % len(lateKinds)
					x /= len(lateKinds)
				}
				for opt := 0; opt < 4; opt++ {
					name := fmt.Sprintf("late-child kinds=%v", kinds)
					add(scenario(name, fmt.Sprintf("late-child/%d-children", c), c, lateChild(kinds), opt))
					nlate++
				}
			}
		}
		counts["late-child"] = nlate
		// mixed-committed family: the same histories with a commit time on some
		// versions only, default options and both ignore options
		nmix := 0
		for c := 2; c <= 3; c++ {
			total := 1
			for i := 0; i < c; i++ {
				total *= len(lateKinds)
			}
			for code := 0; code < total; code++ {
				kinds := make([]int, c)
				x := code
				for i := range kinds {
					kinds[i] = x % len(lateKinds)
					x /= len(lateKinds)
				}
				for pat := 1; pat <= 3; pat++ {
					if r.Quick() && c == 3 && pat != 1+code%3 {
						continue
					}
					for _, opt := range []int{0, 3} {
						name := fmt.Sprintf("mixed-committed kinds=%v pattern=%d", kinds, pat)
						add(scenario(name, fmt.Sprintf("mixed-committed/%d-children", c), c, lateChildCommitted(kinds, pat), opt))
						nmix++
					}
				}
			}
		}
		counts["mixed-committed"] = nmix
		// shared-refs family: way / node / relation members with equal numbers in a
		// multipolygon or boundary relation (member orientation is annotated too)
		nshared := 0
		for _, typ := range []string{"multipolygon", "boundary", "route"} {
			for layout := 0; layout < 5; layout++ {
				for _, opt := range []int{0, 1} {
					add(scenario(fmt.Sprintf("shared-refs type=%s layout=%d", typ, layout), "shared-refs", 6, sharedRefs(typ, layout), opt))
					nshared++
				}
			}
		}
		counts["shared-refs"] = nshared
		// re-annotate family: annotate, then annotate again with a ChildFilter
		// over every subset of the children (skipped children at lower and at
		// higher indexes than recomputed ones), every map order of both passes
		nre := 0
		for si, sh := range shapes {
			if r.Quick() && si%2 == 1 {
				continue
			}
			same := make([]int, len(sh.later))
			for mask := 0; mask < 1<<uint(len(sh.later)); mask++ {
				name := fmt.Sprintf("reannotate list=%v later=%v", sh.list, sh.later)
				add(scenario(name, fmt.Sprintf("reannotate/%d-children", len(sh.later)), len(sh.later), stability(sh.list, sh.later, same), reannotate+mask))
				nre++
			}
		}
		for c := 2; c <= 3; c++ {
			for mask := 0; mask < 1<<uint(c); mask++ {
				add(scenario("reannotate late-child all-normal", fmt.Sprintf("reannotate/%d-children", c), c, lateChild(make([]int, c)), reannotate+mask))
				nre++
			}
		}
		counts["reannotate"] = nre
		r.Set("history_space_depths", counts)
		sort.SliceStable(scs, func(i, j int) bool { return false })
		e := &vexplore.Explorer{R: r, Scenarios: scs, Generators: gens}
		budget := 6 * time.Minute
		if !r.Quick() {
			budget = 30 * time.Minute
		}
		e.Run(budget)
	})
}
